/-
C13 — specification vocabulary shared by Proofs/FlashEnc*.lean and Properties/C13.lean:
well-formedness predicates (what the property's quantifier ranges over), disjointness, and the block-wise /
page-wise SPECIFICATION of the three software encryptors ("every 16-byte block / 4 KiB page is a function of
key material, absolute address and plaintext only").  Definitions only — no theorems.
-/
import SpsdkVerif.Model.FlashEnc

namespace SpsdkVerif.FlashEnc
open SpsdkVerif SpsdkVerif.Crypto
open SpsdkVerif.Misc (beEnc beDec leEnc leDec)

/-! ## OTFAD -/

/-- a key blob the `KeyBlob` constructor accepts and `plain_data` can export, with key/counter of the documented sizes -/
structure KeyBlob.WF (kb : KeyBlob) : Prop where
  key_len : kb.key.length = 16
  ctr_len : kb.ctr.length = 8
  start_al : kb.start % 1024 = 0
  range : kb.start ≤ kb.end_
  end_lt : kb.end_ < 2 ^ 32
  flags_lt : kb.flags < 8
  exportable : kb.end_ = 0 → kb.flags = 0

instance (kb : KeyBlob) : Decidable kb.WF :=
  if h : kb.key.length = 16 ∧ kb.ctr.length = 8 ∧ kb.start % 1024 = 0 ∧ kb.start ≤ kb.end_ ∧ kb.end_ < 2 ^ 32 ∧ kb.flags < 8
      ∧ (kb.end_ = 0 → kb.flags = 0) then
    isTrue ⟨h.1, h.2.1, h.2.2.1, h.2.2.2.1, h.2.2.2.2.1, h.2.2.2.2.2.1, h.2.2.2.2.2.2⟩
  else isFalse (fun w => h ⟨w.key_len, w.ctr_len, w.start_al, w.range, w.end_lt, w.flags_lt, w.exportable⟩)

/-- VLD flag of the blob -/
def KeyBlob.vld (kb : KeyBlob) : Bool := kb.flags % 2 == 1
/-- ADE flag of the blob -/
def KeyBlob.adeFlag (kb : KeyBlob) : Bool := kb.flags / 2 % 2 == 1

/-- two valid blobs whose (engine-side) address windows intersect -/
def KeyBlob.overlaps (x y : KeyBlob) : Bool :=
  x.vld && y.vld && x.end_ != 0 && y.end_ != 0 && decide (max x.start y.start ≤ min x.effEnd y.effEnd)

/-- pairwise non-overlapping valid key blobs (invalid ones may lie anywhere: the engine ignores them) -/
def BlobsDisjoint (bs : List KeyBlob) : Prop := bs.Pairwise (fun x y => x.overlaps y = false)

instance (bs : List KeyBlob) : Decidable (BlobsDisjoint bs) := by unfold BlobsDisjoint; infer_instance

/-- the blob that encrypts address `a` (first one with ADE∧VLD whose window holds `a`) -/
def otfadActive (bs : List KeyBlob) (a : Nat) : Option KeyBlob := bs.find? (fun kb => kb.containsAddr a && kb.isEncrypted)

/-- SPEC: one (possibly short, final) 16-byte piece stored at absolute address `a` -/
def otfadSpecPiece (c : CryptoOps) (bs : List KeyBlob) (swap : Bool) (a : Nat) (p : Bytes) : Bytes :=
  match otfadActive bs a with
  | some kb => kb.encBlock c swap a (zeroPad 16 p)
  | none => p

/-- SPEC: `n` consecutive pieces of `m` starting at address `a` -/
def otfadSpec (c : CryptoOps) (bs : List KeyBlob) (swap : Bool) : Nat → Nat → Bytes → Bytes
  | 0, _, _ => []
  | n + 1, a, m => otfadSpecPiece c bs swap a (m.take 16) ++ otfadSpec c bs swap n (a + 16) (m.drop 16)

/-- SPEC of `Otfad.encrypt_image` -/
def otfadSpecImage (c : CryptoOps) (bs : List KeyBlob) (swap : Bool) (base : Nat) (img : Bytes) : Bytes :=
  otfadSpec c bs swap (blocksFor img.length) base img

/-- the pre-fix walk of `Otfad.encrypt_image` (1 KiB steps counted from the image start) — kept only to exhibit the
    defect DESIGN §7 #20 as a refuting `example` -/
def Otfad.encryptImageOld (c : CryptoOps) (bs : List KeyBlob) (image : Bytes) (base : Nat) (swap : Bool) : PyRes Bytes :=
  otfadLoop c bs swap base image.length base image image

/-! ## IEE -/

/-- a key blob as the property quantifies over it: key sizes as the attributes demand, 4 KiB aligned range
    `[start, end)`, XTS keys not identical (`cryptography` refuses duplicated XTS keys) -/
structure IeeBlob.WF (b : IeeBlob) : Prop where
  k1 : b.key1.length = b.key1Size
  k2 : b.key2.length = b.key2Size
  start_al : b.start % 4096 = 0
  end_al : b.end_ % 4096 = 0
  range : b.start ≤ b.end_
  end_lt : b.end_ < 2 ^ 32
  po_lt : b.pageOffset < 2 ^ 32
  keys_ne : b.mode = .xts → b.key1 ≠ b.key2

/-- the modes for which the property claims decryption by the engine (the other CTR variants: "no crash" only) -/
def IeeBlob.claimed (b : IeeBlob) : Prop := b.mode = .bypass ∨ b.mode = .xts ∨ b.mode = .ctrAddr

/-- pairwise non-overlapping `[start, end)` ranges -/
def IeeDisjoint (bs : List IeeBlob) : Prop := bs.Pairwise (fun x y => x.end_ ≤ y.start ∨ y.end_ ≤ x.start)

/-- the blob whose region holds the page at `a` -/
def ieeActive (bs : List IeeBlob) (a : Nat) : Option IeeBlob := bs.find? (fun b => decide (b.start ≤ a) && decide (a < b.end_))

/-- SPEC: one page (`d` = up to 4 KiB of plaintext stored at the 4 KiB aligned address `a`) under blob `b` -/
def IeeBlob.encPage (c : CryptoOps) (b : IeeBlob) (a : Nat) (d : Bytes) : Bytes :=
  match b.mode with
  | .bypass => d
  | .xts => xtsEnc c (IeeCtx.word b.key1) (IeeCtx.word b.key2) (IeeBlob.tweak a) (zeroPad 16 d)
  | _ => IeeBlob.ctrBlocks c (IeeCtx.word b.key1) (IeeCtx.word b.key2) (zeroPad 16 d).length (a / 16) (zeroPad 16 d)

def ieeSpecPage (c : CryptoOps) (bs : List IeeBlob) (a : Nat) (d : Bytes) : Bytes :=
  match ieeActive bs a with
  | some b => b.encPage c a d
  | none => d

/-- SPEC of `Iee.encrypt_image` for a 4 KiB aligned base (fuel = remaining length) -/
def ieeSpec (c : CryptoOps) (bs : List IeeBlob) : Nat → Nat → Bytes → Bytes
  | 0, _, _ => []
  | f + 1, a, m => if m.isEmpty then [] else ieeSpecPage c bs a (m.take 4096) ++ ieeSpec c bs f (a + 4096) (m.drop 4096)

def ieeSpecImage (c : CryptoOps) (bs : List IeeBlob) (base : Nat) (img : Bytes) : Bytes := ieeSpec c bs img.length base img

/-! ## BEE -/

structure BeeEngine.WF (e : BeeEngine) : Prop where
  key_len : e.key.length = 16
  ctr_len : e.counter.length = 16
  /-- `validate()`: the last four bytes of the counter must be zero -/
  ctr_low : e.counter.drop 12 = [0, 0, 0, 0]
  facs : ∀ f ∈ e.facs, f.start % 1024 = 0 ∧ f.length % 1024 = 0 ∧ 0 < f.length ∧ f.start + f.length ≤ 2 ^ 32

/-- the engines that are present -/
def beeEngines (hs : List (Option BeeEngine)) : List BeeEngine := hs.filterMap id

/-- all FAC regions of all engines, in engine order -/
def beeAllFacs (es : List BeeEngine) : List Fac := es.flatMap (fun e => e.facs)

/-- pairwise non-overlapping FAC regions (within and across engines) -/
def BeeDisjoint (es : List BeeEngine) : Prop :=
  (beeAllFacs es).Pairwise (fun x y => x.start + x.length ≤ y.start ∨ y.start + y.length ≤ x.start)

/-- the engine that owns address `a` -/
def beeActive (es : List BeeEngine) (a : Nat) : Option BeeEngine := es.find? (fun e => e.facs.any (fun f => f.hit a))

/-- SPEC: one (possibly short, final) 16-byte piece at absolute address `a` -/
def beeSpecPiece (c : CryptoOps) (es : List BeeEngine) (a : Nat) (p : Bytes) : Bytes :=
  match beeActive es a with
  | some e => xorBytes (zeroPad 16 p) (c.encBlk e.key (e.counter.take 12 ++ beEnc 4 (a / 16)))
  | none => p

def beeSpec (c : CryptoOps) (es : List BeeEngine) : Nat → Nat → Bytes → Bytes
  | 0, _, _ => []
  | n + 1, a, m => beeSpecPiece c es a (m.take 16) ++ beeSpec c es n (a + 16) (m.drop 16)

/-- SPEC of `BeeNxp.export_image` (with the random padding of a short last block replaced by zeros) -/
def beeSpecImage (c : CryptoOps) (es : List BeeEngine) (base : Nat) (img : Bytes) : Bytes :=
  beeSpec c es (blocksFor img.length) base img


/-! ## BEE region header -/

/-- a region header `BeeRegionHeader.export()` accepts, with FAC regions as the property quantifies over them -/
structure BeeHdr.WF (h : BeeHdr) : Prop where
  eng : h.engine.WF
  nfac : 0 < h.engine.facs.length ∧ h.engine.facs.length ≤ 4
  fac_end : ∀ f ∈ h.engine.facs, f.start + f.length ≤ 0xFFFFFFFF      -- `BeeFacRegion.validate`: end_addr <= 0xFFFFFFFF
  levels : ∀ l ∈ h.levels, l ≤ 3
  lock : h.lockOptions < 2 ^ 32
  kib_key : h.kibKey.length = 16
  kib_iv : h.kibIv.length = 16

/-! ## OTFAD through SB2.1 -/

/-- the whole (512-byte padded) load lies inside the key blob's window -/
def Sb21.fits (kb : KeyBlob) (address len : Nat) : Prop :=
  ∀ j, j < blocksFor len → kb.containsAddr (address + 16 * j) = true

end SpsdkVerif.FlashEnc
