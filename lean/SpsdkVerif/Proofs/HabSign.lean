/- C07 helper lemmas, part 4: the re-sign loop, which bytes are signed / encrypted by `build`. -/
import SpsdkVerif.Model.HabWF
import SpsdkVerif.Proofs.HabBase
import SpsdkVerif.Proofs.HabCsf
import SpsdkVerif.Proofs.HabLayout
import SpsdkVerif.Proofs.Crypto

namespace SpsdkVerif.Hab
open SpsdkVerif SpsdkVerif.Misc SpsdkVerif.Generated
open SpsdkVerif.Crypto (CryptoOps CryptoLaws ccmEnc ccmDec ccm_inv ccmEnc_length)

/-! ### the n-th Authenticate Data command -/

theorem getAut_mapAut_same (f : CsfCmd → CsfCmd) (hf : ∀ c, isAut (f c).cmd = isAut c.cmd) (n : Nat) (l : List CsfCmd) :
    getAut n (mapAut f n l) = (getAut n l).map f := by
  induction l generalizing n with
  | nil => simp [mapAut, getAut]
  | cons c r ih =>
    by_cases hc : isAut c.cmd = true
    · cases n with
      | zero => simp [mapAut, getAut, hc, hf]
      | succ n => simp [mapAut, getAut, hc, ih]
    · simp [mapAut, getAut, hc, ih]

theorem getAut_mapAut_ne (f : CsfCmd → CsfCmd) (hf : ∀ c, isAut (f c).cmd = isAut c.cmd) (n m : Nat) (h : n ≠ m)
    (l : List CsfCmd) : getAut m (mapAut f n l) = getAut m l := by
  induction l generalizing n m with
  | nil => simp [mapAut, getAut]
  | cons c r ih =>
    by_cases hc : isAut c.cmd = true
    · cases n with
      | zero =>
        cases m with
        | zero => exact absurd rfl h
        | succ m => simp [mapAut, getAut, hc, hf]
      | succ n =>
        cases m with
        | zero => simp [mapAut, getAut, hc]
        | succ m => simp [mapAut, getAut, hc]; exact ih n m (by omega)
    · simp [mapAut, getAut, hc]; exact ih n m h

theorem isAut_addBlocks (c : Cmd) (bl : List (Nat × Nat)) : isAut (c.addBlocks bl) = isAut c := by
  cases c <;> rfl

theorem getAut_isAut (n : Nat) (l : List CsfCmd) (c : CsfCmd) (h : getAut n l = some c) : isAut c.cmd = true := by
  induction l generalizing n with
  | nil => simp [getAut] at h
  | cons x r ih =>
    by_cases hx : isAut x.cmd = true
    · cases n with
      | zero => simp [getAut, hx] at h; subst h; exact hx
      | succ n => simp [getAut, hx] at h; exact ih n h
    · simp [getAut, hx] at h; exact ih n h

/-! ### one re-sign step -/

theorem getAut0_resign (s : Signer) (v i : Nat) (l : List CsfCmd) :
    getAut 0 (resign s v i l) =
      (getAut 0 l).map (fun c => { c with data := some (sigBlob v (s.csf i (csfBase v l))) }) := by
  unfold resign
  exact getAut_mapAut_same (fun c => { c with data := some (sigBlob v (s.csf i (csfBase v l))) }) (fun _ => rfl) 0 l

theorem getAut_resign_ne (s : Signer) (v i m : Nat) (hm : m ≠ 0) (l : List CsfCmd) :
    getAut m (resign s v i l) = getAut m l := by
  unfold resign
  exact getAut_mapAut_ne (fun c => { c with data := some (sigBlob v (s.csf i (csfBase v l))) }) (fun _ => rfl) 0 m (by omega) l

theorem sigBlob_length (v : Nat) (cms : Bytes) : (sigBlob v cms).length = 4 + cms.length := by
  simp [sigBlob]

theorem alignUp4_pos (n : Nat) (h : 0 < n) : 0 < alignUp n 4 := by
  have := alignUp_ge n 4 (by decide); omega

/-- replacing the data block of the first Authenticate Data command by one of the same aligned size does not move
    anything: header + commands stay byte-identical -/
theorem encCmds_setData_stable (blob : Bytes) (l : List CsfCmd) (c0 : CsfCmd) (d0 : Bytes)
    (h0 : getAut 0 l = some c0) (hd : c0.data = some d0) (hs : alignUp d0.length 4 = alignUp blob.length 4) (cur : Nat) :
    encCmds (assignLocs cur (mapAut (fun c => { c with data := some blob }) 0 l)) = encCmds (assignLocs cur l) ∧
    cmdsSize (mapAut (fun c => { c with data := some blob }) 0 l) = cmdsSize l := by
  induction l generalizing cur with
  | nil => simp [getAut] at h0
  | cons c r ih =>
    by_cases hc : isAut c.cmd = true
    · have hc0 : c = c0 := by simpa [getAut, hc] using h0
      subst hc0
      have hr : needsRef c.cmd = true := by
        cases hcc : c.cmd <;> simp [hcc, isAut] at hc <;> simp [needsRef]
      simp only [mapAut, hc, ↓reduceIte, assignLocs, hr, hd, encCmds, cmdsSize, hs]
      exact ⟨trivial, trivial⟩
    · have h0' : getAut 0 r = some c0 := by simpa [getAut, hc] using h0
      simp only [mapAut, hc, Bool.false_eq_true, ↓reduceIte, cmdsSize]
      constructor
      · simp only [assignLocs]
        split
        · split
          · simp only [encCmds]; rw [(ih h0' _).1]
          · simp only [encCmds]; rw [(ih h0' _).1]
        · simp only [encCmds]; rw [(ih h0' _).1]
      · rw [(ih h0' cur).2]

theorem csfBase_resign_stable (s : Signer) (v i : Nat) (l : List CsfCmd) (h0 : (getAut 0 l).isSome)
    (hst : autSize (resign s v i l) = autSize l) : csfBase v (resign s v i l) = csfBase v l := by
  obtain ⟨c0, hc0⟩ := Option.isSome_iff_exists.1 h0
  have hnew : autSize (resign s v i l) = alignUp (sigBlob v (s.csf i (csfBase v l))).length 4 := by
    simp [autSize, getAut0_resign, hc0]
  have hold : autSize l = alignUp (c0.data.getD []).length 4 := by simp [autSize, hc0]
  have hpos : 0 < alignUp (sigBlob v (s.csf i (csfBase v l))).length 4 :=
    alignUp4_pos _ (by rw [sigBlob_length]; omega)
  cases hd : c0.data with
  | none =>
    rw [hd] at hold
    have : autSize l = 0 := by rw [hold]; rfl
    omega
  | some d0 =>
    rw [hd] at hold
    have hs : alignUp d0.length 4 = alignUp (sigBlob v (s.csf i (csfBase v l))).length 4 := by
      simp only [Option.getD_some] at hold; omega
    have := encCmds_setData_stable (sigBlob v (s.csf i (csfBase v l))) l c0 d0 hc0 hd hs
    unfold csfBase csfHdrLen resign
    rw [(this 0).2, (this (4 + cmdsSize l)).1]

/-! ### the loop -/

theorem signLoop_terminates (s : Signer) (version fuel i : Nat) (cmds : List CsfCmd)
    (h0 : (getAut 0 cmds).isSome) (k : Nat) (hk : k < fuel)
    (hst : autSize (signIter s version (k + 1) i cmds) = autSize (signIter s version k i cmds)) :
    (signLoop s version fuel i cmds).isSome := by
  induction fuel generalizing i cmds k with
  | zero => omega
  | succ fuel ih =>
    unfold signLoop
    have hn : (getAut 0 cmds).isNone = false := by
      cases hg : getAut 0 cmds <;> simp_all
    simp only [hn, Bool.false_eq_true, ↓reduceIte]
    by_cases hs : autSize (resign s version i cmds) = autSize cmds
    · simp [hs]
    · simp only [hs, ↓reduceIte]
      cases k with
      | zero => exact absurd hst hs
      | succ k =>
        apply ih (i + 1) (resign s version i cmds) _ k (by omega)
        · exact hst
        · rw [getAut0_resign]
          cases hg : getAut 0 cmds <;> simp_all

theorem signLoop_result (s : Signer) (version fuel i : Nat) (cmds cmds' : List CsfCmd) (n : Nat)
    (h : signLoop s version fuel i cmds = some (cmds', n)) :
    0 < n ∧ ∃ cmd, getAut 0 cmds' = some cmd ∧
      cmd.data = some (sigBlob version (s.csf (n - 1) (csfBase version cmds'))) := by
  induction fuel generalizing i cmds with
  | zero => simp [signLoop] at h
  | succ fuel ih =>
    unfold signLoop at h
    by_cases hn : (getAut 0 cmds).isNone = true
    · simp [hn] at h
    · simp only [hn, Bool.false_eq_true, ↓reduceIte] at h
      by_cases hs : autSize (resign s version i cmds) = autSize cmds
      · simp only [hs, ↓reduceIte, Option.some.injEq, Prod.mk.injEq] at h
        obtain ⟨h1, h2⟩ := h
        subst h1 h2
        have h0 : (getAut 0 cmds).isSome := by
          cases hg : getAut 0 cmds <;> simp_all
        obtain ⟨c0, hc0⟩ := Option.isSome_iff_exists.1 h0
        refine ⟨by omega, ⟨{ c0 with data := some (sigBlob version (s.csf i (csfBase version cmds))) }, ?_, ?_⟩⟩
        · rw [getAut0_resign, hc0]; rfl
        · simp only [Nat.add_sub_cancel]
          rw [csfBase_resign_stable s version i cmds h0 hs]
      · simp only [hs, ↓reduceIte] at h
        exact ih (i + 1) (resign s version i cmds) h

/-- the loop only touches the data block of the first Authenticate Data command -/
theorem signLoop_getAut_ne (s : Signer) (version fuel i : Nat) (cmds cmds' : List CsfCmd) (n m : Nat) (hm : m ≠ 0)
    (h : signLoop s version fuel i cmds = some (cmds', n)) : getAut m cmds' = getAut m cmds := by
  induction fuel generalizing i cmds with
  | zero => simp [signLoop] at h
  | succ fuel ih =>
    unfold signLoop at h
    by_cases hn : (getAut 0 cmds).isNone = true
    · simp [hn] at h
    · simp only [hn, Bool.false_eq_true, ↓reduceIte] at h
      by_cases hs : autSize (resign s version i cmds) = autSize cmds
      · simp only [hs, ↓reduceIte, Option.some.injEq, Prod.mk.injEq] at h
        obtain ⟨h1, _⟩ := h
        subst h1
        exact getAut_resign_ne s version i m hm cmds
      · simp only [hs, ↓reduceIte] at h
        rw [ih (i + 1) (resign s version i cmds) h]
        exact getAut_resign_ne s version i m hm cmds

/-! ### inversion of `build` for a container with a CSF -/

/-- what `build` returned, spelled out -/
theorem build_inv (cr : CryptoOps) (s : Signer) (fuel : Nat) (c : Cfg) (b : Built)
    (hb : build cr s fuel c = some b) (hc : c.hasCsf = true) (ha : isAuth c.flags = true) :
    (isEnc c.flags = true → (getAut 2 c.cmds).isSome) ∧
    b.app = (if isEnc c.flags then encCt cr c else c.appBin) ∧
    b.msgData = signedMsg c ∧ b.msgCsf = csfBase c.version b.cmds ∧
    (getAut 1 (if isEnc c.flags then cmdsEnc cr c else c.cmds)).isSome ∧
    signLoop s c.version fuel 0 (cmdsSigned s c (if isEnc c.flags then cmdsEnc cr c else c.cmds)) = some (b.cmds, b.attempts) := by
  unfold build at hb
  simp only [hc, Bool.not_true, Bool.false_eq_true, ↓reduceIte, ha] at hb
  by_cases h2 : (isEnc c.flags && (getAut 2 c.cmds).isNone) = true
  · simp [h2] at hb
  · simp only [h2, Bool.false_eq_true, ↓reduceIte] at hb
    by_cases h1 : (getAut 1 (if isEnc c.flags = true then cmdsEnc cr c else c.cmds)).isNone = true
    · simp [h1] at hb
    · simp only [h1, Bool.false_eq_true, ↓reduceIte] at hb
      split at hb
      · cases hb
      · rename_i cmds3 n hl
        simp only [Option.some.injEq] at hb
        subst hb
        refine ⟨?_, rfl, rfl, rfl, ?_, hl⟩
        · intro he
          cases hg : getAut 2 c.cmds <;> simp_all
        · cases hg : getAut 1 (if isEnc c.flags = true then cmdsEnc cr c else c.cmds) <;> simp_all

theorem auth_csf_lemma (cr : CryptoOps) (s : Signer) (fuel : Nat) (c : Cfg) (b : Built)
    (hb : build cr s fuel c = some b) (hc : c.hasCsf = true) (ha : isAuth c.flags = true) :
    b.msgCsf = csfBase c.version b.cmds ∧
    (csfBytes c.version b.cmds).take (csfHdrLen b.cmds) = b.msgCsf ∧
    0 < b.attempts ∧
    ∃ cmd, getAut 0 b.cmds = some cmd ∧ cmd.data = some (sigBlob c.version (s.csf (b.attempts - 1) b.msgCsf)) := by
  obtain ⟨_, _, _, hm, _, hl⟩ := build_inv cr s fuel c b hb hc ha
  obtain ⟨hp, cmd, hg, hd⟩ := signLoop_result s c.version fuel 0 _ b.cmds b.attempts hl
  refine ⟨hm, ?_, hp, cmd, hg, by rw [hm]; exact hd⟩
  rw [hm]
  unfold csfBytes padAlign
  rw [List.append_assoc]
  exact take_append_len _ _ _ (csfBase_length c.version b.cmds).symm

/-! ### the collected bytes are the bytes of the final image -/

theorem blocksData_congr (a b : Bytes) (bl : List Block)
    (h : ∀ x ∈ bl, slice a x.start x.size = slice b x.start x.size) : blocksData a bl = blocksData b bl := by
  induction bl with
  | nil => rfl
  | cons x r ih =>
    simp only [blocksData]
    rw [h x (by simp), ih (fun y hy => h y (by simp [hy]))]

/-- a slice of the collected prefix at `ivtOff + o`, inside the prefix, is the slice of the unpadded image at `o` -/
theorem img0_slice (c : Cfg) (o n : Nat) (h : o + n ≤ c.csfOff) :
    slice (img0 c) (c.ivtOff + o) n = slice (image c c.appBin (some (csfBytes c.version c.cmds))) o n := by
  unfold img0 imagePadded
  rw [signedPrefixN_eq, slice_take _ _ _ _ (by omega), slice_append_right _ _ _ _ (by simp)]
  simp

theorem padded_slice (c : Cfg) (app : Bytes) (csf : Option Bytes) (o n : Nat) :
    slice (imagePadded c app csf) (c.ivtOff + o) n = slice (image c app csf) o n := by
  unfold imagePadded
  rw [slice_append_right _ _ _ _ (by simp)]
  simp

theorem auth_data_lemma (cr : CryptoOps) (s : Signer) (fuel : Nat) (c : Cfg) (b : Built) (h : c.WF)
    (hb : build cr s fuel c = some b) (ha : c.flags ≠ 0) :
    b.msgData = blocksData (imagePadded c b.app (some (csfBytes c.version b.cmds))) c.signedBlocks ∧
    ∃ c0, getAut 1 c.cmds = some c0 ∧
      getAut 1 b.cmds = some { cmd := c0.cmd.addBlocks (blockPairs c.signedBlocks),
                               data := some (sigBlob c.version (s.data b.msgData)) } := by
  have hf := flags_cases c.flags h.flags
  have hcsf : c.hasCsf = true := by rw [h.csf]; simpa using ha
  have hau : isAuth c.flags = true := by rw [hf.1]; simpa using ha
  obtain ⟨_, happ, hmd, _, h1, hl⟩ := build_inv cr s fuel c b hb hcsf hau
  have hbefore := app_before_csf c h
  have hao : c.appOff = c.ils - c.ivtOff := by unfold Cfg.appOff; exact appOffsetN_eq _ _
  have hkn : 256 ≤ c.appOff := by
    have := h.appOffKnown
    rw [← hao] at this
    simp [HabConsts.knownAppOffsets] at this
    omega
  constructor
  · -- the message
    rw [hmd]
    unfold signedMsg
    apply blocksData_congr
    intro x hx
    unfold Cfg.signedBlocks at hx
    simp only [List.mem_append, List.mem_cons, List.not_mem_nil, or_false] at hx
    -- every signed block is `mkBlock off size` with off + size in front of the CSF
    have key : ∀ off size, x = c.mkBlock off size → off + size ≤ c.csfOff →
        (off + size ≤ c.appOff ∨ (b.app = c.appBin ∧ off + size ≤ c.appOff + c.appBin.length)) →
        slice (img0 c) x.start x.size = slice (imagePadded c b.app (some (csfBytes c.version b.cmds))) x.start x.size := by
      intro off size hx' hle hcase
      subst hx'
      simp only [Cfg.mkBlock, blockStartN_eq]
      rw [img0_slice c off size hle, padded_slice]
      rcases hcase with hh | ⟨he, hh⟩
      · exact image_head_indep c h _ _ _ _ off size hh
      · rw [he]
        exact image_app_indep c h _ _ _ off size hh
    rcases hx with ((hx | hx) | hx) | hx
    · refine key _ _ hx ?_ (Or.inl ?_) <;>
        simp [HabConsts.ivtSegOffset, HabConsts.ivt2Size, HabConsts.bdtSize] <;> omega
    · cases hd : c.dcd with
      | none => simp [hd] at hx
      | some d =>
        simp only [hd, List.mem_cons, List.not_mem_nil, or_false] at hx
        have := h.dcdFits d hd
        refine key _ _ hx ?_ (Or.inl ?_) <;> rw [dcdSegOffN_eq] <;> omega
    · cases hd : c.xmcd with
      | none => simp [hd] at hx
      | some d =>
        simp only [hd, List.mem_cons, List.not_mem_nil, or_false] at hx
        have := h.xmcdFits d hd
        refine key _ _ hx ?_ (Or.inl ?_) <;> simp [HabConsts.xmcdSegOffset] <;> omega
    · by_cases he : isEnc c.flags = true
      · simp [he] at hx
      · simp only [he, Bool.false_eq_true, ↓reduceIte, List.mem_cons, List.not_mem_nil, or_false] at hx
        refine key _ _ hx hbefore (Or.inr ⟨?_, Nat.le_refl _⟩)
        rw [happ]; simp [he]
  · -- the command
    obtain ⟨c1, hc1⟩ := Option.isSome_iff_exists.1 h1
    have hg1 : getAut 1 (if isEnc c.flags = true then cmdsEnc cr c else c.cmds) = getAut 1 c.cmds := by
      by_cases he : isEnc c.flags = true
      · simp only [he, ↓reduceIte]
        unfold cmdsEnc
        exact getAut_mapAut_ne _ (fun x => isAut_addBlocks _ _) 2 1 (by omega) _
      · simp [he]
    refine ⟨c1, by rw [← hg1]; exact hc1, ?_⟩
    rw [signLoop_getAut_ne s c.version fuel 0 _ b.cmds b.attempts 1 (by omega) hl]
    unfold cmdsSigned
    rw [getAut_mapAut_same _ (fun x => isAut_addBlocks _ _), hc1, hmd]
    rfl

theorem enc_restores_explicit (cr : CryptoOps) (s : Signer) (fuel : Nat) (c : Cfg) (b : Built) (h : c.WF)
    (hb : build cr s fuel c = some b) (he : c.flags = 12) (hl : CryptoLaws cr) (hm : macLenOk c.macLen = true) :
    ∃ c0, (encMac cr c).length = c.macLen ∧ getAut 2 c.cmds = some c0 ∧
      getAut 2 b.cmds = some { cmd := c0.cmd.addBlocks (blockPairs c.encryptedBlocks),
                               data := some (macBlob c.version c.nonce (encMac cr c)) } ∧
      ccmDec cr c.dek c.nonce [] c.macLen
        (blocksData (imagePadded c b.app (some (csfBytes c.version b.cmds))) c.encryptedBlocks ++ encMac cr c) = some c.appBin := by
  have hf := flags_cases c.flags h.flags
  have hcsf : c.hasCsf = true := by rw [h.csf, he]; rfl
  have hau : isAuth c.flags = true := by rw [hf.1, he]; rfl
  have hen : isEnc c.flags = true := by rw [hf.2.1, he]; rfl
  obtain ⟨h2, happ, _, _, _, hloop⟩ := build_inv cr s fuel c b hb hcsf hau
  obtain ⟨c0, hc0⟩ := Option.isSome_iff_exists.1 (h2 hen)
  have ht : c.macLen ≤ 16 := ((macLenOk_iff c.macLen).1 hm).2.1
  have hbefore := app_before_csf c h
  -- the plaintext is the padded application
  have hplain : encPlain c = c.appBin := by
    unfold encPlain Cfg.encryptedBlocks
    simp only [blocksData, Cfg.mkBlock, blockStartN_eq, List.append_nil]
    rw [img0_slice c c.appOff c.appBin.length hbefore]
    exact image_app_slice c h c.appBin _
  have hlen := ccmEnc_length hl c.dek c.nonce [] c.macLen (encPlain c) ht
  have happ' : b.app = encCt cr c := by rw [happ]; simp [hen]
  have hctlen : (encCt cr c).length = c.appBin.length := by
    unfold encCt encOut; rw [List.length_take, hlen, hplain]; omega
  refine ⟨c0, ?_, hc0, ?_, ?_⟩
  · unfold encMac encOut; rw [List.length_drop, hlen]; omega
  · rw [signLoop_getAut_ne s c.version fuel 0 _ b.cmds b.attempts 2 (by omega) hloop]
    unfold cmdsSigned
    rw [getAut_mapAut_ne _ (fun x => isAut_addBlocks _ _) 1 2 (by omega)]
    simp only [hen, ↓reduceIte]
    unfold cmdsEnc
    rw [getAut_mapAut_same _ (fun x => isAut_addBlocks _ _), hc0]
    rfl
  · have hfinal : blocksData (imagePadded c b.app (some (csfBytes c.version b.cmds))) c.encryptedBlocks = encCt cr c := by
      unfold Cfg.encryptedBlocks
      simp only [blocksData, Cfg.mkBlock, blockStartN_eq, List.append_nil]
      rw [padded_slice, happ', ← hctlen]
      exact image_app_slice c h (encCt cr c) _
    rw [hfinal]
    unfold encCt encMac
    rw [List.take_append_drop]
    unfold encOut
    rw [hplain]
    exact ccm_inv hl c.dek c.nonce [] c.macLen c.appBin ht

theorem enc_restores_lemma (cr : CryptoOps) (s : Signer) (fuel : Nat) (c : Cfg) (b : Built) (h : c.WF)
    (hb : build cr s fuel c = some b) (he : c.flags = 12) (hl : CryptoLaws cr) (hm : macLenOk c.macLen = true) :
    ∃ mac c0, mac.length = c.macLen ∧ getAut 2 c.cmds = some c0 ∧
      getAut 2 b.cmds = some { cmd := c0.cmd.addBlocks (blockPairs c.encryptedBlocks),
                               data := some (macBlob c.version c.nonce mac) } ∧
      ccmDec cr c.dek c.nonce [] c.macLen
        (blocksData (imagePadded c b.app (some (csfBytes c.version b.cmds))) c.encryptedBlocks ++ mac) = some c.appBin := by
  obtain ⟨c0, h1, h2, h3, h4⟩ := enc_restores_explicit cr s fuel c b h hb he hl hm
  exact ⟨encMac cr c, c0, h1, h2, h3, h4⟩

end SpsdkVerif.Hab
