/- C07 helper lemmas, part 14: the ROM-side reader accepts the exported image (assembly). -/
import SpsdkVerif.Proofs.HabRomWalk
import SpsdkVerif.Proofs.HabRomView
import SpsdkVerif.Proofs.HabRomFinish

namespace SpsdkVerif.Hab
open SpsdkVerif SpsdkVerif.Misc SpsdkVerif.Generated
open SpsdkVerif.Spec
open SpsdkVerif.Spec.HabRom (bindE chk sub rdN u8at u16be u32be u32le RCmd Walk View)
open SpsdkVerif.Crypto (CryptoOps CryptoLaws ccmEnc ccmDec ccm_inv ccmEnc_length)

/-- the application segment of a built container has the length of the padded application -/
theorem build_app_length (cr : CryptoOps) (hl : CryptoLaws cr) (sg : Signer) (fuel : Nat) (c : Cfg) (b : Built)
    (h : c.WF) (hb : build cr sg fuel c = some b) (ha : c.flags ≠ 0) (hm : macLenOk c.macLen = true) :
    b.app.length = c.appBin.length := by
  have hf := flags_cases c.flags h.flags
  have hcsf : c.hasCsf = true := by rw [h.csf]; simpa using ha
  have hau : isAuth c.flags = true := by rw [hf.1]; simpa using ha
  obtain ⟨_, happ, _⟩ := build_inv cr sg fuel c b hb hcsf hau
  rw [happ]
  by_cases he : isEnc c.flags = true
  · simp only [he, ↓reduceIte]
    have ht : c.macLen ≤ 16 := ((macLenOk_iff c.macLen).1 hm).2.1
    have hbefore := app_before_csf c h
    have hplain : encPlain c = c.appBin := by
      unfold encPlain Cfg.encryptedBlocks
      simp only [blocksData, Cfg.mkBlock, blockStartN_eq, List.append_nil]
      rw [img0_slice c c.appOff c.appBin.length hbefore]
      exact image_app_slice c h c.appBin _
    have hlen := ccmEnc_length hl c.dek c.nonce [] c.macLen (encPlain c) ht
    unfold encCt encOut; rw [List.length_take, hlen, hplain]; omega
  · simp [he]

/-- MAC block: tag 0xAC header -/
theorem macBlob_form (v : Nat) (nonce mac : Bytes) :
    macBlob v nonce mac = hdr Hab.Spec.tagMAC (macBlob v nonce mac).length v ++ ([0, u8 nonce.length, 0, u8 mac.length] ++ nonce ++ mac) := by
  have : (macBlob v nonce mac).length = 8 + nonce.length + mac.length := by simp [macBlob]; omega
  rw [this]
  simp [macBlob, List.append_assoc]

theorem sigBlob_form (v : Nat) (x : Bytes) : sigBlob v x = hdr Hab.Spec.tagSIG (sigBlob v x).length v ++ x := by
  simp [sigBlob]


/-- commands and walk: what the reader has after walking the CSF of a standard container -/
theorem rom_walk (cr : CryptoOps) (hl : CryptoLaws cr) (sg : Signer) (fuel : Nat) (c : Cfg) (b : Built) (s : StdCsf)
    (h : c.WF) (hs : StdCfg c s) (ha : c.flags ≠ 0) (hb : build cr sg fuel c = some b)
    (hfit : CsfWF c.version b.cmds) :
    ∃ (L : Nat → Nat) (x : Bytes) (n1 n2 n3 n4 n5 n6 : Nat),
      HabRom.readCmds (csfBytes c.version b.cmds) (csfHdrLen b.cmds) 4 (csfHdrLen b.cmds) =
        .ok ((assignLocs (csfHdrLen b.cmds) b.cmds).map (fun c => toR c.cmd)) ∧
      HabRom.walk (csfBytes c.version b.cmds) (csfHdrLen b.cmds) (c.start + c.ivtOff) (c.start + c.ivtOff + c.csfOff) {}
          ((assignLocs (csfHdrLen b.cmds) b.cmds).map (fun c => toR c.cmd)) =
        .ok (if isEnc c.flags then
               walk7 s L n1 n2 n3 n4 n5 n6 (offs c.ivtOff c.signedBlocks) (offs c.ivtOff c.encryptedBlocks)
                 (secretKeyLocN c.ils c.app.length c.start)
             else walk5 s L n1 n2 n3 n4 n5 (offs c.ivtOff c.signedBlocks)) ∧
      (isEnc c.flags = true →
        slice (csfBytes c.version b.cmds) (L 6) n6 = macBlob c.version c.nonce (encMac cr c) ∧
        n6 = (macBlob c.version c.nonce (encMac cr c)).length) ∧
      HabRom.disjoint (if isEnc c.flags then [(L 6, n6), (L 5, n5), (L 4, n4), (L 3, n3), (L 2, n2), (L 1, n1)]
                       else [(L 5, n5), (L 4, n4), (L 3, n3), (L 2, n2), (L 1, n1)]) = true := by
  have hf := flags_cases c.flags h.flags
  have hcsf : c.hasCsf = true := by rw [h.csf]; simpa using ha
  have hau : isAuth c.flags = true := by rw [hf.1]; simpa using ha
  obtain ⟨x, hF⟩ := build_std cr sg fuel c b s hs hb hcsf hau
  obtain ⟨hin, _, _⟩ := blocks_cover_lemma c h ha
  have hinS : ∀ bl ∈ c.signedBlocks, bl.base = c.start + bl.start ∧ c.ivtOff ≤ bl.start ∧ bl.start + bl.size ≤ c.ivtOff + c.csfOff :=
    fun bl hbl => hin bl (by unfold Cfg.allBlocks; simp [hbl])
  have hoD := toOffsets_blocks c.start c.ivtOff c.csfOff c.signedBlocks hinS
  have hbdne : blockPairs c.signedBlocks ≠ [] := by simp [blockPairs, Cfg.signedBlocks]
  have hR := readCmds_csfBytes c.version b.cmds hfit
  -- the assigned list
  obtain ⟨L, hA⟩ := assign_std s hs.extras (csfHdrLen b.cmds) (fun _ => 0) (sigBlob c.version x)
    (blockPairs c.signedBlocks) (sigBlob c.version (sg.data b.msgData))
    (if isEnc c.flags then some ⟨secretKeyLocN c.ils c.app.length c.start, blockPairs c.encryptedBlocks,
      some (macBlob c.version c.nonce (encMac cr c))⟩ else none)
    (by intro e he; split at he <;> simp at he; subst he; rfl)
  rw [← hF] at hA
  have hasc := refsOf_ascending c.version b.cmds hfit
  rw [hA, refsOf_std s hs.extras] at hasc
  have hdis := disjoint_reverse_of_ascending _ hasc
  -- data references
  have dr : ∀ (cc : CsfCmd) (d : Bytes) (t p : Nat) (body : Bytes) (what : String),
      cc ∈ assignLocs (csfHdrLen b.cmds) b.cmds → needsRef cc.cmd = true → cc.data = some d → t < 256 → p < 256 →
      d = hdr t d.length p ++ body →
      HabRom.dataRef (csfBytes c.version b.cmds) (csfHdrLen b.cmds) cc.cmd.loc t what = .ok (cc.cmd.loc, d.length) :=
    fun cc d t p body what hc hr hd ht hp he => dataRef_located c.version b.cmds hfit cc hc hr d hd t p body ht hp he what
  obtain ⟨p1, body1, hp1, e1⟩ := hs.srkBlob
  obtain ⟨p2, body2, hp2, e2⟩ := hs.csfCert
  obtain ⟨p4, body4, hp4, e4⟩ := hs.imgCert
  have hv : c.version < 256 := hfit.1
  have d1 := dr ⟨.insKey 0 3 s.srkAlg s.srkSrc 0 (L 1), some s.srkBlob⟩ s.srkBlob Hab.Spec.tagCRT p1 body1 "SRK table"
    (by rw [hA]; simp [StdCsf.list]) rfl rfl (by decide) hp1 e1
  have d2 := dr ⟨.insKey 2 9 s.csfkAlg 0 1 (L 2), some s.csfCert⟩ s.csfCert Hab.Spec.tagCRT p2 body2 "certificate"
    (by rw [hA]; simp [StdCsf.list]) rfl rfl (by decide) hp2 e2
  have d3 := dr ⟨.autDat 0 1 0xC5 s.engCsf s.cfgCsf (L 3) [], some (sigBlob c.version x)⟩ (sigBlob c.version x)
    Hab.Spec.tagSIG c.version x "signature" (by rw [hA]; simp [StdCsf.list]) rfl rfl (by decide) hv (sigBlob_form _ _)
  have d4 := dr ⟨.insKey 0 9 s.imgAlg 0 s.imgSlot (L 4), some s.imgCert⟩ s.imgCert Hab.Spec.tagCRT p4 body4 "certificate"
    (by rw [hA]; simp [StdCsf.list]) rfl rfl (by decide) hp4 e4
  have d5 := dr ⟨.autDat 0 s.imgSlot 0xC5 s.engDat s.cfgDat (L 5) (blockPairs c.signedBlocks), some (sigBlob c.version (sg.data b.msgData))⟩
    (sigBlob c.version (sg.data b.msgData)) Hab.Spec.tagSIG c.version _ "signature"
    (by rw [hA]; simp [StdCsf.list]) rfl rfl (by decide) hv (sigBlob_form _ _)
  by_cases he : isEnc c.flags = true
  · -- encrypted
    have hinE : ∀ bl ∈ c.encryptedBlocks, bl.base = c.start + bl.start ∧ c.ivtOff ≤ bl.start ∧ bl.start + bl.size ≤ c.ivtOff + c.csfOff :=
      fun bl hbl => hin bl (by unfold Cfg.allBlocks; simp [hbl, he])
    have hoE := toOffsets_blocks c.start c.ivtOff c.csfOff c.encryptedBlocks hinE
    have hmem6 : (⟨.autDat 0 s.keySlot 0xA3 s.engDec s.cfgDec (L 6) (blockPairs c.encryptedBlocks),
        some (macBlob c.version c.nonce (encMac cr c))⟩ : CsfCmd) ∈ assignLocs (csfHdrLen b.cmds) b.cmds := by
      rw [hA]; simp [StdCsf.list, he]
    have d6 := dr _ (macBlob c.version c.nonce (encMac cr c)) Hab.Spec.tagMAC c.version _ "MAC" hmem6 rfl rfl (by decide) hv
      (macBlob_form _ _ _)
    have hb6 := (blob_at_loc c.version b.cmds hfit _ hmem6 rfl _ rfl).1
    refine ⟨L, x, s.srkBlob.length, s.csfCert.length, (sigBlob c.version x).length, s.imgCert.length, (sigBlob c.version (sg.data b.msgData)).length, (macBlob c.version c.nonce (encMac cr c)).length, hR, ?_, fun _ => ⟨hb6, rfl⟩, ?_⟩
    rotate_left
    · simp only [he, ↓reduceIte] at hdis ⊢
      simpa using hdis
    rw [hA]
    simp only [he, ↓reduceIte]
    have := walk_std (csfBytes c.version b.cmds) (csfHdrLen b.cmds) (c.start + c.ivtOff) (c.start + c.ivtOff + c.csfOff) s
      hs.extras L (sigBlob c.version x) (blockPairs c.signedBlocks) (sigBlob c.version (sg.data b.msgData))
      (some ⟨secretKeyLocN c.ils c.app.length c.start, blockPairs c.encryptedBlocks, some (macBlob c.version c.nonce (encMac cr c))⟩)
      _ _ _ _ _ (macBlob c.version c.nonce (encMac cr c)).length (offs c.ivtOff c.signedBlocks) (offs c.ivtOff c.encryptedBlocks)
      d1 d2 d3 d4 d5 hs.srkSrc hs.imgSlot hbdne hoD
      (by intro e hee; injection hee with hee; subst hee
          exact ⟨hs.kek, hs.keySlot, by simp [blockPairs, Cfg.encryptedBlocks], d6, hoE⟩)
    exact this
  · -- authenticated only
    refine ⟨L, x, s.srkBlob.length, s.csfCert.length, (sigBlob c.version x).length, s.imgCert.length, (sigBlob c.version (sg.data b.msgData)).length, 0, hR, ?_, fun hh => absurd hh he, ?_⟩
    rotate_left
    · simp only [he, Bool.false_eq_true, ↓reduceIte] at hdis ⊢
      simpa using hdis
    rw [hA]
    simp only [he, Bool.false_eq_true, ↓reduceIte]
    have := walk_std (csfBytes c.version b.cmds) (csfHdrLen b.cmds) (c.start + c.ivtOff) (c.start + c.ivtOff + c.csfOff) s
      hs.extras L (sigBlob c.version x) (blockPairs c.signedBlocks) (sigBlob c.version (sg.data b.msgData)) none
      _ _ _ _ _ 0 (offs c.ivtOff c.signedBlocks) [] d1 d2 d3 d4 d5 hs.srkSrc hs.imgSlot hbdne hoD
      (by intro e hee; cases hee)
    exact this


/-- `finish` succeeds when every one of its checks holds -/
theorem finish_ok (cr : CryptoOps) (img region : Bytes) (v : View) (csfOff hdrLen dcdLen xmcdLen : Nat) (w : Walk)
    (dek : Option Bytes) (nm : Bytes × Bytes) (plain : Option Bytes)
    (h1 : w.csfSig.isSome = true) (h2 : w.dataSig.isSome = true) (h3 : HabRom.disjoint w.refs = true)
    (h4 : HabRom.disjoint (w.auth ++ w.dec) = true) (h5 : HabRom.covered (w.auth ++ w.dec) 0 64 = true)
    (h6 : HabRom.covered (w.auth ++ w.dec) 64 dcdLen = true) (h7 : HabRom.covered (w.auth ++ w.dec) 64 xmcdLen = true)
    (h8 : HabRom.nzCov (w.auth ++ w.dec) csfOff 0 img = true)
    (h9 : (decide (v.self ≤ v.entry) && HabRom.inBlocks (w.auth ++ w.dec) (v.entry - v.self)) = true)
    (h10 : (v.blen == v.self - v.start + img.length + (if w.macRef.isSome then 0x200 else 0)) = true)
    (h11 : HabRom.secretOk w.secretLoc w.macRef v.csf = true)
    (h12 : HabRom.readMac region w.macRef = .ok nm)
    (h13 : HabRom.decryptBlocks cr img w nm.1 nm.2 dek = .ok plain) :
    HabRom.finish cr img region v csfOff hdrLen dcdLen xmcdLen w dek =
      .ok { ivtSelf := v.self, start := v.start, csfOff := csfOff, hdrLen := hdrLen, srk := w.srk, csfCert := w.csfCert,
            csfSig := w.csfSig, imgCert := w.imgCert, dataSig := w.dataSig, msgCsf := region.take hdrLen,
            msgData := HabRom.gather img w.auth, authBlocks := w.auth, decBlocks := w.dec, nonce := nm.1, mac := nm.2,
            plain := plain } := by
  unfold HabRom.finish
  simp only []
  rw [chk_of _ _ _ h1, chk_of _ _ _ h2, chk_of _ _ _ h3, chk_of _ _ _ h4, chk_of _ _ _ h5, chk_of _ _ _ h6,
    chk_of _ _ _ h7, chk_of _ _ _ h8, chk_of _ _ _ h9, chk_of _ _ _ h10, chk_of _ _ _ h11, h12, bindE_ok, h13, bindE_ok]

/-- nonce and MAC as the reader takes them out of the MAC block -/
theorem readMac_blob (region : Bytes) (o n v : Nat) (nonce mac : Bytes)
    (hs : slice region o n = macBlob v nonce mac) (hn : n = (macBlob v nonce mac).length)
    (hnl : 7 ≤ nonce.length ∧ nonce.length ≤ 13) (hml : 4 ≤ mac.length ∧ mac.length ≤ 16 ∧ mac.length % 2 = 0) :
    HabRom.readMac region (some (o, n)) = .ok (nonce, mac) := by
  have hlen : (macBlob v nonce mac).length = 8 + nonce.length + mac.length := by simp [macBlob]; omega
  have e : macBlob v nonce mac = (hdr Hab.Spec.tagMAC (8 + nonce.length + mac.length) v ++ [0]) ++ [u8 nonce.length] ++
      ([0] ++ [u8 mac.length] ++ nonce ++ mac) := by simp [macBlob, List.append_assoc]
  have e2 : macBlob v nonce mac = (hdr Hab.Spec.tagMAC (8 + nonce.length + mac.length) v ++ [0, u8 nonce.length, 0]) ++
      [u8 mac.length] ++ (nonce ++ mac) := by simp [macBlob, List.append_assoc]
  have e3 : macBlob v nonce mac = (hdr Hab.Spec.tagMAC (8 + nonce.length + mac.length) v ++ [0, u8 nonce.length, 0, u8 mac.length]) ++
      nonce ++ mac := by simp [macBlob, List.append_assoc]
  have e4 : macBlob v nonce mac = (hdr Hab.Spec.tagMAC (8 + nonce.length + mac.length) v ++ [0, u8 nonce.length, 0, u8 mac.length] ++
      nonce) ++ mac ++ [] := by simp [macBlob, List.append_assoc]
  have r5 : u8at region (o + 5) = .ok nonce.length := u8at_of_slice _ _ _ (by omega) (by
    rw [← slice_slice _ o n 5 1 (by omega), hs, e]
    exact slice_append_mid' _ _ _ 5 1 (by simp) rfl)
  have r7 : u8at region (o + 7) = .ok mac.length := u8at_of_slice _ _ _ (by omega) (by
    rw [← slice_slice _ o n 7 1 (by omega), hs, e2]
    exact slice_append_mid' _ _ _ 7 1 (by simp) rfl)
  have s1 : sub region (o + 8) nonce.length = nonce := by
    rw [sub_eq_slice, ← slice_slice _ o n 8 nonce.length (by omega), hs, e3]
    exact slice_append_mid' _ _ _ 8 _ (by simp) rfl
  have s2 : sub region (o + 8 + nonce.length) mac.length = mac := by
    rw [sub_eq_slice, Nat.add_assoc, ← slice_slice _ o n (8 + nonce.length) mac.length (by omega), hs, e4]
    exact slice_append_mid' _ _ _ _ _ (by simp; omega) rfl
  simp only [HabRom.readMac]
  rw [r5, bindE_ok, r7, bindE_ok, chk_of _ _ _ (by simp; omega), chk_of _ _ _ (by simp; omega), s1, s2]


/-- **the ROM-side reader accepts what the builder exports** (standard authenticated / encrypted container) -/
theorem rom_accepts_lemma (cr : CryptoOps) (hl : CryptoLaws cr) (sg : Signer) (fuel : Nat) (c : Cfg) (b : Built)
    (s : StdCsf) (h : c.WF) (hs : StdCfg c s) (ha : c.flags ≠ 0) (hb : build cr sg fuel c = some b)
    (hfit : CsfWF c.version b.cmds)
    (hd : ∀ d, c.dcd = some d → DcdWF d) (hx : ∀ x, c.xmcd = some x → XmcdWF x)
    (hm : macLenOk c.macLen = true) (hn : 7 ≤ c.nonce.length ∧ c.nonce.length ≤ 13) (hver : c.version / 16 = 4)
    (hentry : c.start + c.ils ≤ c.entry ∧ c.entry < c.start + c.ils + c.appBin.length) :
    ∃ r, HabRom.habCheck cr (exportImage c b) (if isEnc c.flags then some c.dek else none) = .ok r ∧
      r.msgCsf = b.msgCsf ∧ r.msgData = b.msgData ∧ r.plain = (if isEnc c.flags then some c.appBin else none) ∧
      r.csfOff = c.csfOff ∧ r.hdrLen = csfHdrLen b.cmds ∧ r.authBlocks = offs c.ivtOff c.signedBlocks ∧
      r.decBlocks = (if isEnc c.flags then offs c.ivtOff c.encryptedBlocks else []) := by
  have hf := flags_cases c.flags h.flags
  have hcsf : c.hasCsf = true := by rw [h.csf]; simpa using ha
  have hau : isAuth c.flags = true := by rw [hf.1]; simpa using ha
  have happ := build_app_length cr hl sg fuel c b h hb ha hm
  have hcl : c.hasCsf = true → (csfBytes c.version b.cmds).length = HabConsts.csfSize := fun _ => csfBytes_length _ _ hfit
  obtain ⟨_, pSelf, _, _, _, pDcd, pDcd0, _, pAppOff, _, pCsf, _, pBs, _, pBl⟩ := ivt_points_lemma c b h happ hcl
  obtain ⟨hcsfp, hbef, hreg, hilen⟩ := pCsf hcsf
  have hV := readView_export c b h happ hcl
  have hFL := frontLens_export c b h happ hcl hd hx
    { entry := c.entry, dcd := c.ivt.dcd, self := c.start + c.ivtOff, csf := c.ivt.csf, start := c.start, blen := c.bdt.length }
    ⟨rfl, rfl⟩
  obtain ⟨hin, hasc, hc0, hcd, hcx, hca⟩ := blocks_cover_lemma c h ha
  have hin' : ∀ bl ∈ c.allBlocks, c.ivtOff ≤ bl.start := fun bl hbl => (hin bl hbl).2.1
  obtain ⟨L, x, n1, n2, n3, n4, n5, n6, hR, hW, hMac, hdis⟩ := rom_walk cr hl sg fuel c b s h hs ha hb hfit
  obtain ⟨hH0, hH1, hH3⟩ := csf_header_read c.version b.cmds hfit
  obtain ⟨hmc, hmt, _, hmg⟩ := auth_csf_lemma cr sg fuel c b hb hcsf hau
  obtain ⟨hmd, _⟩ := auth_data_lemma cr sg fuel c b h hb ha
  have hge := appOff_ge c h
  have hnz := h.nonzero
  have e8 : HabConsts.csfSize = 8192 := rfl
  have hao := appOff_eq c
  have hle := h.ivtLe
  -- the image
  generalize himg : exportImage c b = img at *
  have hpad : imagePadded c b.app (some (csfBytes c.version b.cmds)) = zeros c.ivtOff ++ img := by
    rw [← himg]; unfold imagePadded exportImage; rw [hcsf]; rfl
  have hcsfne : c.ivt.csf ≠ 0 := by rw [hcsfp, pSelf]; omega
  have hoff : c.ivt.csf - (c.start + c.ivtOff) = c.csfOff := by rw [hcsfp, pSelf]; omega
  have hregion : sub img c.csfOff 0x2000 = csfBytes c.version b.cmds := by
    rw [sub_eq_slice]; rw [hcsfp, Nat.add_sub_cancel_left, e8] at hreg; exact hreg
  -- facts about the block lists as the reader sees them
  have hd4 : HabRom.disjoint (offs c.ivtOff c.allBlocks) = true := disjoint_offs _ _ hin' hasc
  have hc5 : HabRom.covered (offs c.ivtOff c.allBlocks) 0 64 = true := covered_offs _ _ 0 64 hin' (by simpa using hc0)
  have hc6 : HabRom.covered (offs c.ivtOff c.allBlocks) 64 (dcdLenOf c) = true := by
    unfold dcdLenOf
    cases hdd : c.dcd with
    | some d => exact covered_offs _ _ 64 d.length hin' (hcd d hdd)
    | none => simp [HabRom.covered]
  have hc7 : HabRom.covered (offs c.ivtOff c.allBlocks) 64 (xmcdLenOf c) = true := by
    unfold xmcdLenOf
    cases hxx : c.xmcd with
    | some x => exact covered_offs _ _ 64 x.length hin' (hcx x hxx)
    | none => simp [HabRom.covered]
  have hc8 : HabRom.nzCov (offs c.ivtOff c.allBlocks) c.csfOff 0 img = true := by rw [← himg]; exact nzCov_export c b h ha happ
  have hc9 : (decide (c.start + c.ivtOff ≤ c.entry) && HabRom.inBlocks (offs c.ivtOff c.allBlocks) (c.entry - (c.start + c.ivtOff))) = true := by
    have hib := inBlocks_offs c.ivtOff c.allBlocks c.appOff c.appBin.length (c.entry - (c.start + c.ivtOff)) hin' hca
      ⟨by omega, by omega⟩
    simp [hib]; omega
  have hgS : HabRom.gather img (offs c.ivtOff c.signedBlocks) = b.msgData := by
    rw [gather_offs _ _ _ (fun bl hbl => hin' bl (by unfold Cfg.allBlocks; simp [hbl])), hmd, hpad]
  have hmsgC : (csfBytes c.version b.cmds).take (csfHdrLen b.cmds) = b.msgCsf := hmt
  have hlen4 : 4 ≤ csfHdrLen b.cmds := by unfold csfHdrLen; omega
  -- run the reader
  unfold HabRom.habCheck
  rw [hV, bindE_ok, hFL, bindE_ok]
  simp only []
  rw [if_neg hcsfne, chk_of _ _ _ (by simp; rw [hcsfp, pSelf]; omega)]
  rw [hoff, hregion, chk_of _ _ _ (by simp; omega), hH0, bindE_ok, hH1, bindE_ok, hH3, bindE_ok,
    chk_of _ _ _ (by simp [hver, hlen4]), hR, bindE_ok]
  have hcsfeq : c.ivt.csf = c.start + c.ivtOff + c.csfOff := by rw [hcsfp, pSelf]
  rw [hcsfeq, hW, bindE_ok]
  by_cases he : isEnc c.flags = true
  · -- encrypted
    simp only [he, ↓reduceIte]
    have h12 : c.flags = 12 := by
      rcases h.flags with h0 | h0 | h0
      · exact absurd h0 ha
      · rw [hf.2.1, h0] at he; cases he
      · exact h0
    obtain ⟨c0, hml, _, _, hdec⟩ := enc_restores_explicit cr sg fuel c b h hb h12 hl hm
    have hmlr := (macLenOk_iff c.macLen).1 hm
    obtain ⟨hms, hmn⟩ := hMac he
    have hall : (offs c.ivtOff c.signedBlocks) ++ (offs c.ivtOff c.encryptedBlocks) = offs c.ivtOff c.allBlocks := by
      unfold Cfg.allBlocks offs; simp [he]
    have hrm := readMac_blob (csfBytes c.version b.cmds) (L 6) n6 c.version c.nonce (encMac cr c) hms hmn hn
      (by rw [hml]; exact hmlr)
    have hgE : HabRom.gather img (offs c.ivtOff c.encryptedBlocks) =
        blocksData (imagePadded c b.app (some (csfBytes c.version b.cmds))) c.encryptedBlocks := by
      rw [gather_offs _ _ _ (fun bl hbl => hin' bl (by unfold Cfg.allBlocks; simp [hbl, he])), hpad]
    have hdb : HabRom.decryptBlocks cr img
        (walk7 s L n1 n2 n3 n4 n5 n6 (offs c.ivtOff c.signedBlocks) (offs c.ivtOff c.encryptedBlocks) (secretKeyLocN c.ils c.app.length c.start))
        c.nonce (encMac cr c) (some c.dek) = .ok (some c.appBin) := by
      simp only [HabRom.decryptBlocks, walk7, Option.isSome_some, ↓reduceIte]
      rw [hgE, hml, hdec]
    have hsec : HabRom.secretOk (some (secretKeyLocN c.ils c.app.length c.start)) (some (L 6, n6)) (c.start + c.ivtOff + c.csfOff) = true := by
      simp only [HabRom.secretOk, secret_key_loc_lemma c h, e8]
      simp
    have hfin := finish_ok cr img (csfBytes c.version b.cmds)
      { entry := c.entry, dcd := c.ivt.dcd, self := c.start + c.ivtOff, csf := c.start + c.ivtOff + c.csfOff, start := c.start, blen := c.bdt.length }
      c.csfOff (csfHdrLen b.cmds) _ _
      (walk7 s L n1 n2 n3 n4 n5 n6 (offs c.ivtOff c.signedBlocks) (offs c.ivtOff c.encryptedBlocks) (secretKeyLocN c.ils c.app.length c.start))
      (some c.dek) (c.nonce, encMac cr c) (some c.appBin) rfl rfl
      (by have := hdis; simp only [he, ↓reduceIte] at this; exact this)
      (by simp only [walk7]; rw [hall]; exact hd4) (by simp only [walk7]; rw [hall]; exact hc5)
      (by simp only [walk7]; rw [hall]; exact hc6) (by simp only [walk7]; rw [hall]; exact hc7)
      (by simp only [walk7]; rw [hall]; exact hc8) (by simp only [walk7]; rw [hall]; exact hc9)
      (by simp only [walk7, Option.isSome_some, ↓reduceIte]; rw [pBl, hilen]; simp [he, HabConsts.keyblobSize, e8] <;> omega)
      hsec hrm hdb
    rw [hfin]
    exact ⟨_, rfl, hmsgC, hgS, rfl, rfl, rfl, rfl, rfl⟩
  · -- authenticated
    simp only [he, Bool.false_eq_true, ↓reduceIte]
    have hall : (offs c.ivtOff c.signedBlocks) ++ [] = offs c.ivtOff c.allBlocks := by
      unfold Cfg.allBlocks offs; simp [he]
    have hfin := finish_ok cr img (csfBytes c.version b.cmds)
      { entry := c.entry, dcd := c.ivt.dcd, self := c.start + c.ivtOff, csf := c.start + c.ivtOff + c.csfOff, start := c.start, blen := c.bdt.length }
      c.csfOff (csfHdrLen b.cmds) _ _
      (walk5 s L n1 n2 n3 n4 n5 (offs c.ivtOff c.signedBlocks)) none ([], []) none rfl rfl
      (by have := hdis; simp only [he, Bool.false_eq_true, ↓reduceIte] at this; exact this)
      (by simp only [walk5]; rw [hall]; exact hd4) (by simp only [walk5]; rw [hall]; exact hc5)
      (by simp only [walk5]; rw [hall]; exact hc6) (by simp only [walk5]; rw [hall]; exact hc7)
      (by simp only [walk5]; rw [hall]; exact hc8) (by simp only [walk5]; rw [hall]; exact hc9)
      (by simp only [walk5]; rw [pBl, hilen]; simp [he, e8] <;> omega)
      rfl rfl rfl
    rw [hfin]
    exact ⟨_, rfl, hmsgC, hgS, rfl, rfl, rfl, rfl, rfl⟩

/-- an unsigned container: the reader accepts the layout -/
theorem rom_accepts_plain_lemma (cr : CryptoOps) (c : Cfg) (b : Built) (h : c.WF) (h0 : c.flags = 0)
    (happ : b.app.length = c.appBin.length)
    (hd : ∀ d, c.dcd = some d → DcdWF d) (hx : ∀ x, c.xmcd = some x → XmcdWF x)
    (hentry : c.start + c.ivtOff ≤ c.entry ∧ c.entry < c.start + c.ils + c.appBin.length) :
    HabRom.habCheck cr (exportImage c b) none =
      .ok (HabRom.plainReport { entry := c.entry, dcd := c.ivt.dcd, self := c.start + c.ivtOff, csf := 0, start := c.start,
                                blen := c.bdt.length }) := by
  have hf := flags_cases c.flags h.flags
  have hcsf : c.hasCsf = false := by rw [h.csf, h0]; rfl
  have hcl : c.hasCsf = true → (csfBytes c.version b.cmds).length = HabConsts.csfSize := fun hh => by rw [hcsf] at hh; cases hh
  obtain ⟨_, pSelf, _, _, _, _, _, _, _, _, _, pNoCsf, pBs, _, pBl⟩ := ivt_points_lemma c b h happ hcl
  obtain ⟨hcsf0, hilen⟩ := pNoCsf hcsf
  have hV := readView_export c b h happ hcl
  have hFL := frontLens_export c b h happ hcl hd hx
    { entry := c.entry, dcd := c.ivt.dcd, self := c.start + c.ivtOff, csf := c.ivt.csf, start := c.start, blen := c.bdt.length }
    ⟨rfl, rfl⟩
  have hao := appOff_eq c
  have hle := h.ivtLe
  have he : isEnc c.flags = false := by rw [hf.2.1, h0]; rfl
  generalize exportImage c b = img at *
  unfold HabRom.habCheck
  rw [hV, bindE_ok, hFL, bindE_ok]
  simp only []
  rw [if_pos hcsf0, chk_of _ _ _ (by rw [pBl, hilen]; simp [he]), chk_of _ _ _ (by simp; rw [hilen, happ]; omega), hcsf0]

end SpsdkVerif.Hab
