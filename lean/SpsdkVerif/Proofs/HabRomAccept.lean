/- C07 helper lemmas, part 14: the ROM-side reader accepts the exported image (assembly). -/
import SpsdkVerif.Proofs.HabRomWalk
import SpsdkVerif.Proofs.HabRomView
import SpsdkVerif.Proofs.HabRomFinish

namespace SpsdkVerif.Hab
open SpsdkVerif SpsdkVerif.Misc SpsdkVerif.Generated
open SpsdkVerif.Spec
open SpsdkVerif.Spec.HabRom (bindE chk sub rdN u8at u16be u32be u32le RCmd Walk View)
open SpsdkVerif.Crypto (CryptoOps CryptoLaws ccmEnc ccmDec ccm_inv ccmEnc_length)

/-- the application segment of a built container has the length of the padded application -/
theorem build_app_length (cr : CryptoOps) (hl : CryptoLaws cr) (sg : Signer) (fuel : Nat) (c : Cfg) (b : Built)
    (h : c.WF) (hb : build cr sg fuel c = some b) (ha : c.flags ≠ 0) (hm : macLenOk c.macLen = true) :
    b.app.length = c.appBin.length := by
  have hf := flags_cases c.flags h.flags
  have hcsf : c.hasCsf = true := by rw [h.csf]; simpa using ha
  have hau : isAuth c.flags = true := by rw [hf.1]; simpa using ha
  obtain ⟨_, happ, _⟩ := build_inv cr sg fuel c b hb hcsf hau
  rw [happ]
  by_cases he : isEnc c.flags = true
  · simp only [he, ↓reduceIte]
    have ht : c.macLen ≤ 16 := ((macLenOk_iff c.macLen).1 hm).2.1
    have hbefore := app_before_csf c h
    have hplain : encPlain c = c.appBin := by
      unfold encPlain Cfg.encryptedBlocks
      simp only [blocksData, Cfg.mkBlock, blockStartN_eq, List.append_nil]
      rw [img0_slice c c.appOff c.appBin.length hbefore]
      exact image_app_slice c h c.appBin _
    have hlen := ccmEnc_length hl c.dek c.nonce [] c.macLen (encPlain c) ht
    unfold encCt encOut; rw [List.length_take, hlen, hplain]; omega
  · simp [he]

/-- MAC block: tag 0xAC header -/
theorem macBlob_form (v : Nat) (nonce mac : Bytes) :
    macBlob v nonce mac = hdr Hab.Spec.tagMAC (macBlob v nonce mac).length v ++ ([0, u8 nonce.length, 0, u8 mac.length] ++ nonce ++ mac) := by
  have : (macBlob v nonce mac).length = 8 + nonce.length + mac.length := by simp [macBlob]; omega
  rw [this]
  simp [macBlob, List.append_assoc]

theorem sigBlob_form (v : Nat) (x : Bytes) : sigBlob v x = hdr Hab.Spec.tagSIG (sigBlob v x).length v ++ x := by
  simp [sigBlob]


/-- commands and walk: what the reader has after walking the CSF of a standard container -/
theorem rom_walk (cr : CryptoOps) (hl : CryptoLaws cr) (sg : Signer) (fuel : Nat) (c : Cfg) (b : Built) (s : StdCsf)
    (h : c.WF) (hs : StdCfg c s) (ha : c.flags ≠ 0) (hb : build cr sg fuel c = some b)
    (hfit : CsfWF c.version b.cmds) :
    ∃ (L : Nat → Nat) (x : Bytes) (n1 n2 n3 n4 n5 n6 : Nat),
      HabRom.readCmds (csfBytes c.version b.cmds) (csfHdrLen b.cmds) 4 (csfHdrLen b.cmds) =
        .ok ((assignLocs (csfHdrLen b.cmds) b.cmds).map (fun c => toR c.cmd)) ∧
      HabRom.walk (csfBytes c.version b.cmds) (csfHdrLen b.cmds) (c.start + c.ivtOff) (c.start + c.ivtOff + c.csfOff) {}
          ((assignLocs (csfHdrLen b.cmds) b.cmds).map (fun c => toR c.cmd)) =
        .ok (if isEnc c.flags then
               walk7 s L n1 n2 n3 n4 n5 n6 (offs c.ivtOff c.signedBlocks) (offs c.ivtOff c.encryptedBlocks)
                 (secretKeyLocN c.ils c.app.length c.start)
             else walk5 s L n1 n2 n3 n4 n5 (offs c.ivtOff c.signedBlocks)) ∧
      (isEnc c.flags = true →
        slice (csfBytes c.version b.cmds) (L 6) n6 = macBlob c.version c.nonce (encMac cr c) ∧
        n6 = (macBlob c.version c.nonce (encMac cr c)).length) := by
  have hf := flags_cases c.flags h.flags
  have hcsf : c.hasCsf = true := by rw [h.csf]; simpa using ha
  have hau : isAuth c.flags = true := by rw [hf.1]; simpa using ha
  obtain ⟨x, hF⟩ := build_std cr sg fuel c b s hs hb hcsf hau
  obtain ⟨hin, _, _⟩ := blocks_cover_lemma c h ha
  have hinS : ∀ bl ∈ c.signedBlocks, bl.base = c.start + bl.start ∧ c.ivtOff ≤ bl.start ∧ bl.start + bl.size ≤ c.ivtOff + c.csfOff :=
    fun bl hbl => hin bl (by unfold Cfg.allBlocks; simp [hbl])
  have hoD := toOffsets_blocks c.start c.ivtOff c.csfOff c.signedBlocks hinS
  have hbdne : blockPairs c.signedBlocks ≠ [] := by simp [blockPairs, Cfg.signedBlocks]
  have hR := readCmds_csfBytes c.version b.cmds hfit
  -- the assigned list
  obtain ⟨L, hA⟩ := assign_std s hs.extras (csfHdrLen b.cmds) (fun _ => 0) (sigBlob c.version x)
    (blockPairs c.signedBlocks) (sigBlob c.version (sg.data b.msgData))
    (if isEnc c.flags then some ⟨secretKeyLocN c.ils c.app.length c.start, blockPairs c.encryptedBlocks,
      some (macBlob c.version c.nonce (encMac cr c))⟩ else none)
    (by intro e he; split at he <;> simp at he; subst he; rfl)
  rw [← hF] at hA
  -- data references
  have dr : ∀ (cc : CsfCmd) (d : Bytes) (t p : Nat) (body : Bytes) (what : String),
      cc ∈ assignLocs (csfHdrLen b.cmds) b.cmds → needsRef cc.cmd = true → cc.data = some d → t < 256 → p < 256 →
      d = hdr t d.length p ++ body →
      HabRom.dataRef (csfBytes c.version b.cmds) (csfHdrLen b.cmds) cc.cmd.loc t what = .ok (cc.cmd.loc, d.length) :=
    fun cc d t p body what hc hr hd ht hp he => dataRef_located c.version b.cmds hfit cc hc hr d hd t p body ht hp he what
  obtain ⟨p1, body1, hp1, e1⟩ := hs.srkBlob
  obtain ⟨p2, body2, hp2, e2⟩ := hs.csfCert
  obtain ⟨p4, body4, hp4, e4⟩ := hs.imgCert
  have hv : c.version < 256 := hfit.1
  have d1 := dr ⟨.insKey 0 3 s.srkAlg s.srkSrc 0 (L 1), some s.srkBlob⟩ s.srkBlob Hab.Spec.tagCRT p1 body1 "SRK table"
    (by rw [hA]; simp [StdCsf.list]) rfl rfl (by decide) hp1 e1
  have d2 := dr ⟨.insKey 2 9 s.csfkAlg 0 1 (L 2), some s.csfCert⟩ s.csfCert Hab.Spec.tagCRT p2 body2 "certificate"
    (by rw [hA]; simp [StdCsf.list]) rfl rfl (by decide) hp2 e2
  have d3 := dr ⟨.autDat 0 1 0xC5 s.engCsf s.cfgCsf (L 3) [], some (sigBlob c.version x)⟩ (sigBlob c.version x)
    Hab.Spec.tagSIG c.version x "signature" (by rw [hA]; simp [StdCsf.list]) rfl rfl (by decide) hv (sigBlob_form _ _)
  have d4 := dr ⟨.insKey 0 9 s.imgAlg 0 s.imgSlot (L 4), some s.imgCert⟩ s.imgCert Hab.Spec.tagCRT p4 body4 "certificate"
    (by rw [hA]; simp [StdCsf.list]) rfl rfl (by decide) hp4 e4
  have d5 := dr ⟨.autDat 0 s.imgSlot 0xC5 s.engDat s.cfgDat (L 5) (blockPairs c.signedBlocks), some (sigBlob c.version (sg.data b.msgData))⟩
    (sigBlob c.version (sg.data b.msgData)) Hab.Spec.tagSIG c.version _ "signature"
    (by rw [hA]; simp [StdCsf.list]) rfl rfl (by decide) hv (sigBlob_form _ _)
  by_cases he : isEnc c.flags = true
  · -- encrypted
    have hinE : ∀ bl ∈ c.encryptedBlocks, bl.base = c.start + bl.start ∧ c.ivtOff ≤ bl.start ∧ bl.start + bl.size ≤ c.ivtOff + c.csfOff :=
      fun bl hbl => hin bl (by unfold Cfg.allBlocks; simp [hbl, he])
    have hoE := toOffsets_blocks c.start c.ivtOff c.csfOff c.encryptedBlocks hinE
    have hmem6 : (⟨.autDat 0 s.keySlot 0xA3 s.engDec s.cfgDec (L 6) (blockPairs c.encryptedBlocks),
        some (macBlob c.version c.nonce (encMac cr c))⟩ : CsfCmd) ∈ assignLocs (csfHdrLen b.cmds) b.cmds := by
      rw [hA]; simp [StdCsf.list, he]
    have d6 := dr _ (macBlob c.version c.nonce (encMac cr c)) Hab.Spec.tagMAC c.version _ "MAC" hmem6 rfl rfl (by decide) hv
      (macBlob_form _ _ _)
    have hb6 := (blob_at_loc c.version b.cmds hfit _ hmem6 rfl _ rfl).1
    refine ⟨L, x, s.srkBlob.length, s.csfCert.length, (sigBlob c.version x).length, s.imgCert.length, (sigBlob c.version (sg.data b.msgData)).length, (macBlob c.version c.nonce (encMac cr c)).length, hR, ?_, fun _ => ⟨hb6, rfl⟩⟩
    rw [hA]
    simp only [he, ↓reduceIte]
    have := walk_std (csfBytes c.version b.cmds) (csfHdrLen b.cmds) (c.start + c.ivtOff) (c.start + c.ivtOff + c.csfOff) s
      hs.extras L (sigBlob c.version x) (blockPairs c.signedBlocks) (sigBlob c.version (sg.data b.msgData))
      (some ⟨secretKeyLocN c.ils c.app.length c.start, blockPairs c.encryptedBlocks, some (macBlob c.version c.nonce (encMac cr c))⟩)
      _ _ _ _ _ (macBlob c.version c.nonce (encMac cr c)).length (offs c.ivtOff c.signedBlocks) (offs c.ivtOff c.encryptedBlocks)
      d1 d2 d3 d4 d5 hs.srkSrc hs.imgSlot hbdne hoD
      (by intro e hee; injection hee with hee; subst hee
          exact ⟨hs.kek, hs.keySlot, by simp [blockPairs, Cfg.encryptedBlocks], d6, hoE⟩)
    exact this
  · -- authenticated only
    refine ⟨L, x, s.srkBlob.length, s.csfCert.length, (sigBlob c.version x).length, s.imgCert.length, (sigBlob c.version (sg.data b.msgData)).length, 0, hR, ?_, fun hh => absurd hh he⟩
    rw [hA]
    simp only [he, Bool.false_eq_true, ↓reduceIte]
    have := walk_std (csfBytes c.version b.cmds) (csfHdrLen b.cmds) (c.start + c.ivtOff) (c.start + c.ivtOff + c.csfOff) s
      hs.extras L (sigBlob c.version x) (blockPairs c.signedBlocks) (sigBlob c.version (sg.data b.msgData)) none
      _ _ _ _ _ 0 (offs c.ivtOff c.signedBlocks) [] d1 d2 d3 d4 d5 hs.srkSrc hs.imgSlot hbdne hoD
      (by intro e hee; cases hee)
    exact this

end SpsdkVerif.Hab
