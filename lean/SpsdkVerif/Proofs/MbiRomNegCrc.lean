/-
C02, negative side for CRC images: ANY change of ANY single byte of an exported CRC image is rejected by the ROM model -
unconditionally (single-byte error detection of CRC-32/MPEG-2, `Crc.crc_burst`), with the one exception the format has:
a corruption that turns the image type into "plain" is accepted iff the stored CRC word happens to be 0.
-/
import SpsdkVerif.Proofs.MbiRomCrc
import SpsdkVerif.Proofs.Crc

namespace SpsdkVerif.Mbi
open SpsdkVerif SpsdkVerif.Misc SpsdkVerif.Crypto
open SpsdkVerif.Generated.IvtConsts

variable {co : CryptoOps} {env : Env} {c : Cls} {cfg : Cfg} {signer : Signer}

theorem romneg_need {α : Type} (b : Bool) (s : String) (k : Unit → Spec.MbiRom.Rom α) (a : α)
    (h : (Spec.MbiRom.need b s >>= k) = .ok a) : b = true ∧ k () = .ok a := by
  cases b
  · simp [Spec.MbiRom.need, bind, Except.bind] at h
  · exact ⟨rfl, by simpa [Spec.MbiRom.need, bind, Except.bind] using h⟩

/-- what an accepted image looks like on a device without certificate blocks -/
theorem romneg_ok_cases (renv : Spec.MbiRom.RomEnv) (hk : renv.certKind = .none) (img : Bytes) (a : Spec.MbiRom.Accepted)
    (h : Spec.MbiRom.romCheck co renv img = .ok a) :
    (Spec.MbiRom.rd32 img Spec.MbiRom.offFlags &&& Spec.MbiRom.maskImageType = Spec.MbiRom.typePlain
        ∧ Spec.MbiRom.rd32 img Spec.MbiRom.offCrcOrCert = 0)
    ∨ ((Spec.MbiRom.rd32 img Spec.MbiRom.offFlags &&& Spec.MbiRom.maskImageType = Spec.MbiRom.typeCrcRam
          ∨ Spec.MbiRom.rd32 img Spec.MbiRom.offFlags &&& Spec.MbiRom.maskImageType = Spec.MbiRom.typeCrcXip)
        ∧ Spec.MbiRom.rd32 img Spec.MbiRom.offCrcOrCert
            = Crc.crc Spec.MbiRom.crcParams (Spec.MbiRom.crcInput img)) := by
  unfold Spec.MbiRom.romCheck at h
  obtain ⟨_, h⟩ := romneg_need _ _ _ _ h
  simp only [] at h
  obtain ⟨_, h⟩ := romneg_need _ _ _ _ h
  obtain ⟨_, h⟩ := romneg_need _ _ _ _ h
  split at h
  · rename_i h0
    obtain ⟨h1, _⟩ := romneg_need _ _ _ _ h
    left
    exact ⟨by simpa using h0, by simpa using h1⟩
  · split at h
    · rename_i h0
      right
      unfold Spec.MbiRom.romCrc at h
      obtain ⟨h1, _⟩ := romneg_need _ _ _ _ h
      exact ⟨by simpa using h0, by simpa using h1⟩
    · split at h
      · rw [hk] at h; simp at h
      · split at h
        · rw [hk] at h
          obtain ⟨h1, _⟩ := romneg_need _ _ _ _ h
          simp at h1
        · simp at h
/-! ### one changed byte: header words and CRC input -/

theorem romneg_leDec_cons (x : UInt8) (l : Bytes) : leDec (x :: l) = x.toNat + 256 * leDec l := by
  unfold leDec
  rw [List.reverse_cons, beDec_append_single]
  omega

theorem romneg_leDec_inj : ∀ (a b : Bytes), a.length = b.length → leDec a = leDec b → a = b
  | [], [], _, _ => rfl
  | [], _ :: _, hl, _ => by simp at hl
  | _ :: _, [], hl, _ => by simp at hl
  | x :: a, y :: b, hl, h => by
    rw [romneg_leDec_cons, romneg_leDec_cons] at h
    have hx := x.toNat_lt
    have hy := y.toNat_lt
    have h1 : x.toNat = y.toNat := by omega
    have h2 : leDec a = leDec b := by omega
    have := romneg_leDec_inj a b (by simpa using hl) h2
    rw [this, UInt8.toNat_inj.mp h1]

/-- a word that does not contain the changed byte is unchanged -/
theorem romneg_rd32_same (b : Bytes) (n off : Nat) (y : UInt8) (h : n < off ∨ off + 4 ≤ n) :
    Spec.MbiRom.rd32 (b.set n y) off = Spec.MbiRom.rd32 b off := by
  unfold Spec.MbiRom.rd32
  rw [List.drop_set]
  split
  · rfl
  · rw [List.take_set, List.set_eq_of_length_le]
    simp only [List.length_take]; omega

/-- a word that contains the changed byte changes -/
theorem romneg_rd32_diff (b : Bytes) (n off : Nat) (x y : UInt8) (h1 : off ≤ n) (h2 : n < off + 4)
    (hx : b[n]? = some x) (hxy : x ≠ y) : Spec.MbiRom.rd32 (b.set n y) off ≠ Spec.MbiRom.rd32 b off := by
  unfold Spec.MbiRom.rd32
  rw [List.drop_set, if_neg (by omega), List.take_set]
  intro he
  have hW := romneg_leDec_inj _ _ (by simp) he
  have hn : n < b.length := by
    rcases Nat.lt_or_ge n b.length with hlt | hge
    · exact hlt
    · rw [List.getElem?_eq_none hge] at hx; simp at hx
  have hk : n - off < ((b.drop off).take 4).length := by simp only [List.length_take, List.length_drop]; omega
  have h3 : (((b.drop off).take 4).set (n - off) y)[n - off]? = some y := List.getElem?_set_self hk
  rw [hW, List.getElem?_take, if_pos (by omega), List.getElem?_drop, show off + (n - off) = n by omega, hx] at h3
  exact hxy (by simpa using h3)

theorem romneg_crc_set {p : Crc.Params} (h : Crc.WF p) (hodd : p.poly % 2 = 1) (hinit : p.init < 2 ^ p.width)
    (l : Bytes) (i : Nat) (x y : UInt8) (hx : l[i]? = some x) (hxy : x ≠ y) :
    Crc.crc p (l.set i y) ≠ Crc.crc p l := by
  have hn : i < l.length := by
    rcases Nat.lt_or_ge i l.length with hlt | hge
    · exact hlt
    · rw [List.getElem?_eq_none hge] at hx; simp at hx
  have hl : l = l.take i ++ x :: l.drop (i + 1) := by
    have : l[i] = x := by
      rw [List.getElem?_eq_getElem hn] at hx; simpa using hx
    rw [← this]; simp
  rw [List.set_eq_take_append_cons_drop, if_pos hn]
  conv => rhs; rw [hl]
  exact fun e => Crc.crc_burst h hodd hinit _ _ x y hxy e.symm

/-- the CRC input of an image with one byte changed (three positions: before, inside, behind the CRC word) -/
theorem romneg_crcInput_set (b : Bytes) (hb : 44 ≤ b.length) (n : Nat) (y : UInt8) :
    Spec.MbiRom.crcInput (b.set n y)
      = (if n < 40 then (Spec.MbiRom.crcInput b).set n y
         else if n < 44 then Spec.MbiRom.crcInput b else (Spec.MbiRom.crcInput b).set (n - 4) y) := by
  unfold Spec.MbiRom.crcInput
  simp only [Spec.MbiRom.offCrcOrCert]
  have hl : (b.take 40).length = 40 := by simp only [List.length_take]; omega
  rw [List.take_set, List.drop_set, List.set_append, hl]
  by_cases h1 : n < 40
  · rw [if_pos h1, if_pos h1, if_pos (by omega)]
  · rw [if_neg h1, List.set_eq_of_length_le (by omega)]
    by_cases h2 : n < 44
    · rw [if_pos h2, if_pos h2]
    · rw [if_neg h2, if_neg h2, List.set_append, hl, if_neg (by omega), show n - 4 - 40 = n - 44 by omega]

theorem romneg_crcInput_get (b : Bytes) (hb : 44 ≤ b.length) (n : Nat) :
    (n < 40 → (Spec.MbiRom.crcInput b)[n]? = b[n]?) ∧ (44 ≤ n → (Spec.MbiRom.crcInput b)[n - 4]? = b[n]?) := by
  unfold Spec.MbiRom.crcInput
  simp only [Spec.MbiRom.offCrcOrCert]
  have hl : (b.take 40).length = 40 := by simp only [List.length_take]; omega
  constructor
  · intro h
    rw [List.getElem?_append_left (by omega), List.getElem?_take, if_pos h]
  · intro h
    rw [List.getElem?_append_right (by omega), hl, List.getElem?_drop]
    congr 1; omega

theorem crc_tamper_rejected (h : Hyp co env c cfg signer) (hs : c.signKind = .crc) (ht : crcTypeOk c = true)
    (rkth : Bytes) (uk : Option Bytes) :
    ∃ e, exportImage co c cfg signer = .ok e
      ∧ ∀ (pre suf : Bytes) (x y : UInt8), e = pre ++ x :: suf → x ≠ y →
          ∀ a, Spec.MbiRom.romCheck co (romEnvOf c rkth uk) (pre ++ y :: suf) = .ok a →
            (Spec.MbiRom.rd32 (pre ++ y :: suf) Spec.MbiRom.offFlags &&& Spec.MbiRom.maskImageType = Spec.MbiRom.typePlain
              ∧ Spec.MbiRom.rd32 e Spec.MbiRom.offCrcOrCert = 0) := by
  have hf := romcrc_family h hs
  have hc := plainCls h.hcls hf
  have hk := plainCfg hc h.hcfg
  have hty : c.imageType = 2 ∨ c.imageType = 5 := by
    unfold crcTypeOk at ht
    simpa [hs] using ht
  refine ⟨_, plain_export hc hk signer, ?_⟩
  intro pre suf x y he hxy a hok
  obtain ⟨r1, _, _, r4, _, r6⟩ := romcrc_facts hc hk (plainK c cfg) (plainK_lt c cfg)
  have hword := romcrc_word hc hk hs
  generalize plainImg c cfg (plainK c cfg) = e at *
  have hlen : 44 ≤ e.length := by simp only [Spec.MbiRom.ivtSize] at r6; omega
  have hset : pre ++ y :: suf = e.set pre.length y := by rw [he]; simp
  have hx : e[pre.length]? = some x := by rw [he]; simp
  have hkind : (romEnvOf c rkth uk).certKind = .none := by
    have hV1 : c.has .Mbi_MixinCertBlockV1 = false :=
      plain_has_false_of_hasAttr .Mbi_MixinCertBlockV1 .cert_block (by intro m; cases m <;> decide) hc.hcert
    have hV21 : c.has .Mbi_MixinCertBlockV21 = false :=
      plain_has_false_of_hasAttr .Mbi_MixinCertBlockV21 .cert_block (by intro m; cases m <;> decide) hc.hcert
    simp [romEnvOf, hV1, hV21]
  rw [hset] at hok ⊢
  generalize pre.length = n at *
  have hmp := Crc.wf_crc32Mpeg2
  have hparams : Spec.MbiRom.crcParams = Crc.crc32Mpeg2 := rfl
  rcases romneg_ok_cases _ hkind _ a hok with ⟨t0, w0⟩ | ⟨_, w1⟩
  · refine ⟨t0, ?_⟩
    by_cases hn : 36 ≤ n ∧ n < 40
    · rw [← romneg_rd32_same e n Spec.MbiRom.offCrcOrCert y (Or.inl (by simp only [Spec.MbiRom.offCrcOrCert]; omega))]
      exact w0
    · exfalso
      rw [romneg_rd32_same e n Spec.MbiRom.offFlags y (by simp only [Spec.MbiRom.offFlags]; omega), r1, r4] at t0
      simp only [Spec.MbiRom.typePlain] at t0
      omega
  · exfalso
    rw [romneg_crcInput_set e hlen] at w1
    obtain ⟨g1, g2⟩ := romneg_crcInput_get e hlen n
    by_cases h1 : n < 40
    · rw [if_pos h1, romneg_rd32_same e n _ y (Or.inl (by simp only [Spec.MbiRom.offCrcOrCert]; omega)), hword] at w1
      exact romneg_crc_set hmp (by decide) (by decide) _ n x y (by rw [g1 h1]; exact hx) hxy (hparams ▸ w1.symm)
    · rw [if_neg h1] at w1
      by_cases h2 : n < 44
      · rw [if_pos h2, ← hword] at w1
        exact romneg_rd32_diff e n _ x y (by simp only [Spec.MbiRom.offCrcOrCert]; omega)
          (by simp only [Spec.MbiRom.offCrcOrCert]; omega) hx hxy w1
      · rw [if_neg h2, romneg_rd32_same e n _ y (Or.inr (by simp only [Spec.MbiRom.offCrcOrCert]; omega)), hword] at w1
        exact romneg_crc_set hmp (by decide) (by decide) _ (n - 4) x y (by rw [g2 (by omega)]; exact hx) hxy
          (hparams ▸ w1.symm)

end SpsdkVerif.Mbi
