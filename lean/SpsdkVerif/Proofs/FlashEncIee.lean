/-
C13 — IEE: `Iee.encryptImage` refines the page-wise specification; the hardware model (XTS with the page
number as tweak / CTR with address binding / bypass) inverts it; the encrypted key-blob area parses back.
-/
import SpsdkVerif.Proofs.FlashEncCommon

namespace SpsdkVerif.FlashEnc
open SpsdkVerif SpsdkVerif.Crypto
open SpsdkVerif.Misc (beEnc beDec leEnc leDec)
open SpsdkVerif.Generated.FlashEncConsts

variable {c : CryptoOps}

/-! ### helpers -/

theorem iee_rev_ok (k : Bytes) (h : k.length % 4 = 0) : Misc.reverseBytesInLongs k = .ok (Misc.revLongs k) := by
  simp [Misc.reverseBytesInLongs, Misc.revLongs, h]

theorem iee_word_eq (k : Bytes) (h : k.length % 4 = 0) : IeeCtx.word k = Misc.revLongs k := by
  simp [IeeCtx.word, iee_rev_ok k h]

theorem iee_word_length (k : Bytes) (h : k.length % 4 = 0) : (IeeCtx.word k).length = k.length := by
  rw [iee_word_eq k h]; exact (Misc.revLongs_spec k h).1

theorem iee_word_inj (a b : Bytes) (ha : a.length % 4 = 0) (hb : b.length % 4 = 0) (h : IeeCtx.word a = IeeCtx.word b) : a = b := by
  rw [iee_word_eq a ha, iee_word_eq b hb] at h
  rw [← (Misc.revLongs_spec a ha).2, h, (Misc.revLongs_spec b hb).2]

theorem iee_rev_ok' (k : Bytes) (h : k.length % 4 = 0) : Misc.reverseBytesInLongs k = .ok (IeeCtx.word k) := by
  rw [iee_word_eq k h, iee_rev_ok k h]

theorem iee_xtsChunks_nil (k1 k2 : Bytes) (f a : Nat) : IeeBlob.xtsChunks c k1 k2 f a [] = [] := by
  cases f <;> simp [IeeBlob.xtsChunks]

theorem iee_xtsChunks_single (k1 k2 : Bytes) (f a : Nat) (d : Bytes) (hf : d.length ≤ f) (hd : d.length ≤ 4096) :
    IeeBlob.xtsChunks c k1 k2 f a d = xtsEnc c k1 k2 (IeeBlob.tweak a) d := by
  cases d with
  | nil => 
    rw [iee_xtsChunks_nil]
    simp [xtsEnc, xtsEncWith, xtsAux]
  | cons x t =>
    cases f with
    | zero => simp at hf
    | succ f =>
      have h1 : (x :: t).take ieeXtsBlockSize = x :: t := List.take_of_length_le (by simpa [ieeXtsBlockSize] using hd)
      have h2 : (x :: t).drop ieeXtsBlockSize = [] := List.drop_of_length_le (by simpa [ieeXtsBlockSize] using hd)
      simp only [IeeBlob.xtsChunks, h1, h2, iee_xtsChunks_nil]
      simp

theorem iee_ctrBlocks_nil (k n : Bytes) (f cv : Nat) : IeeBlob.ctrBlocks c k n f cv [] = [] := by
  cases f <;> simp [IeeBlob.ctrBlocks]

theorem iee_ctrBlocks_length (h : CryptoLaws c) (k n : Bytes) : ∀ (f cv : Nat) (d : Bytes), d.length ≤ f →
    (IeeBlob.ctrBlocks c k n f cv d).length = d.length
  | 0, _, d, hf => by
    have : d = [] := List.eq_nil_of_length_eq_zero (by omega)
    subst this; simp [IeeBlob.ctrBlocks]
  | f + 1, cv, d, hf => by
    cases d with
    | nil => simp [IeeBlob.ctrBlocks]
    | cons x t =>
      simp only [IeeBlob.ctrBlocks, List.isEmpty_cons, Bool.false_eq_true, if_false, List.length_append, ctrXor_length h]
      rw [iee_ctrBlocks_length h k n f _ _ (by simp [ieeEncBlockSize] at hf ⊢; omega)]
      simp [ieeEncBlockSize]; omega

/-- the XTS key check passes for two different keys of the same length 16 or 32 -/
theorem iee_xtsKeyCheck (k1 k2 : Bytes) (hl : k1.length = k2.length) (h16 : k1.length = 16 ∨ k1.length = 32) (hne : k1 ≠ k2)
    (k : Bytes → Bytes → PyRes Bytes) : xtsKeyCheck (k1 ++ k2) k = k k1 k2 := by
  have hlen : (k1 ++ k2).length / 2 = k1.length := by simp; omega
  have ht : (k1 ++ k2).take ((k1 ++ k2).length / 2) = k1 := by rw [hlen]; exact List.take_left' rfl
  have hd : (k1 ++ k2).drop ((k1 ++ k2).length / 2) = k2 := by rw [hlen]; exact List.drop_left' rfl
  unfold xtsKeyCheck
  rw [ht, hd]
  have h1 : ¬ ((k1 ++ k2).length ≠ 32 ∧ (k1 ++ k2).length ≠ 64) := by simp; omega
  have h2 : (k1 == k2) = false := by simpa using hne
  rw [if_neg h1, h2]; simp

theorem iee_key1Size (b : IeeBlob) : b.key1Size = 16 ∨ b.key1Size = 32 := by
  unfold IeeBlob.key1Size; cases b.keySize <;> simp
theorem iee_key2Size (b : IeeBlob) : b.key2Size = 16 ∨ b.key2Size = 32 := by
  unfold IeeBlob.key2Size; cases b.keySize <;> simp
theorem iee_key2Size_ctr (b : IeeBlob) (h : b.mode.isCtr = true) : b.key2Size = 16 := by
  unfold IeeBlob.key2Size; cases b.keySize <;> simp [h]
theorem iee_key2Size_nctr (b : IeeBlob) (h : b.mode.isCtr = false) : b.key2Size = b.key1Size := by
  unfold IeeBlob.key2Size IeeBlob.key1Size; cases b.keySize <;> simp [h]

/-- `IeeKeyBlob.encrypt_image` on one page of a well-formed blob is the page specification -/
theorem iee_encryptImage_page (_h : CryptoLaws c) (b : IeeBlob) (hwf : b.WF) (a : Nat) (ha : a % 4096 = 0) (d : Bytes)
    (h0 : 0 < d.length) (hd : d.length ≤ 4096) : b.encryptImage c a d = .ok (b.encPage c a d) := by
  have ha16 : ¬ a % 16 ≠ 0 := by omega
  have hk1 := hwf.k1
  have hk2 := hwf.k2
  have hk1s := iee_key1Size b
  have hk2s := iee_key2Size b
  have hk1m : b.key1.length % 4 = 0 := by omega
  have hk2m : b.key2.length % 4 = 0 := by omega
  have hpl : 0 < (zeroPad 16 d).length := by rw [zeroPad_length]; omega
  have hpl2 : (zeroPad 16 d).length ≤ 4096 := by rw [zeroPad16_length]; omega
  have hpne : (zeroPad 16 d).isEmpty = false := by
    cases hz : zeroPad 16 d with
    | nil => rw [hz] at hpl; simp at hpl
    | cons _ _ => rfl
  unfold IeeBlob.encryptImage
  simp only [ha16, if_false]
  by_cases hm : b.mode = .bypass
  · simp [hm, IeeBlob.encPage]
  · simp only [hm, if_false, ieeEncBlockSize]
    by_cases hc : b.mode.isCtr = true
    · simp only [hc, if_true]
      unfold IeeBlob.encryptImageCtr
      rw [iee_rev_ok' _ hk1m, iee_rev_ok' _ hk2m]
      have hn : ¬ (IeeCtx.word b.key2).length ≠ 16 := by
        rw [iee_word_length _ hk2m, hk2, iee_key2Size_ctr b hc]; simp
      have hv : (!validAesKeyLen (IeeCtx.word b.key1)) = false := by
        simp only [validAesKeyLen, iee_word_length _ hk1m]
        rcases hk1s with e | e <;> simp [hk1, e]
      simp only [hn, if_false, hpne, hv, Bool.false_eq_true, ieeCtrAddrShift]
      have : a >>> 4 = a / 16 := by rw [Nat.shiftRight_eq_div_pow]
      rw [this]
      unfold IeeBlob.encPage
      cases hmm : b.mode <;> simp_all [IeeMode.isCtr]
    · have hc' : b.mode.isCtr = false := by simpa using hc
      have hx : b.mode = .xts := by
        cases hmm : b.mode <;> simp_all [IeeMode.isCtr]
      simp only [hc', Bool.false_eq_true, if_false]
      unfold IeeBlob.encryptImageXts
      rw [iee_rev_ok' _ hk1m, iee_rev_ok' _ hk2m]
      simp only [hpne, Bool.false_eq_true, if_false]
      rw [iee_xtsKeyCheck]
      · rw [iee_xtsChunks_single _ _ _ _ _ (Nat.le_refl _) hpl2]
        simp [IeeBlob.encPage, hx]
      · rw [iee_word_length _ hk1m, iee_word_length _ hk2m, hk1, hk2, iee_key2Size_nctr b hc']
      · rw [iee_word_length _ hk1m, hk1]; exact hk1s
      · intro e
        exact hwf.keys_ne hx (iee_word_inj _ _ hk1m hk2m e)


theorem iee_matches_iff (b : IeeBlob) (hwf : b.WF) (a len : Nat) (ha : a % 4096 = 0) (h0 : 0 < len) (hl : len ≤ 4096) :
    b.matchesRange a (a + len) = (decide (b.start ≤ a) && decide (a < b.end_)) := by
  have := hwf.start_al
  have := hwf.end_al
  simp only [IeeBlob.matchesRange, IeeBlob.containsAddr]
  rw [Bool.eq_iff_iff]
  simp
  omega

theorem iee_blobsStep (h : CryptoLaws c) (base a : Nat) (ha : a % 4096 = 0) (block : Bytes) (h0 : 0 < block.length)
    (hl : block.length ≤ 4096) : ∀ (bs : List IeeBlob) (data : Bytes), (∀ b ∈ bs, b.WF) → IeeDisjoint bs →
    ieeBlobsStep c base a block bs data = .ok (match ieeActive bs a with
      | none => data
      | some b => sliceAssign data (a - base) (block.length + a - base) (b.encPage c a block))
  | [], data, _, _ => by simp [ieeBlobsStep, ieeActive]
  | b :: rest, data, hwf, hd => by
    have hb := hwf b List.mem_cons_self
    have hrest : ∀ x ∈ rest, x.WF := fun x hx => hwf x (List.mem_cons_of_mem _ hx)
    have hd' : IeeDisjoint rest := (List.pairwise_cons.mp hd).2
    have hrel := (List.pairwise_cons.mp hd).1
    unfold ieeBlobsStep
    rw [iee_matches_iff b hb a _ ha h0 hl]
    by_cases hit : (decide (b.start ≤ a) && decide (a < b.end_)) = true
    · have hnone : ieeActive rest a = none := by
        unfold ieeActive
        rw [List.find?_eq_none]
        intro x hx
        have := hrel x hx
        simp at hit ⊢
        omega
      simp only [hit, if_true, iee_encryptImage_page h b hb a ha block h0 hl]
      rw [iee_blobsStep h base a ha block h0 hl rest _ hrest hd', hnone]
      simp [ieeActive, hit]
    · have hit' : (decide (b.start ≤ a) && decide (a < b.end_)) = false := by simpa using hit
      simp only [hit', Bool.false_eq_true, if_false]
      rw [iee_blobsStep h base a ha block h0 hl rest _ hrest hd']
      simp [ieeActive, hit']

theorem iee_encPage_length (h : CryptoLaws c) (b : IeeBlob) (a : Nat) (d : Bytes) :
    (b.encPage c a d).length = d.length ∨ (b.encPage c a d).length = (d.length + 15) / 16 * 16 := by
  have hz := zeroPad16_length d
  unfold IeeBlob.encPage
  cases b.mode
  · left; rfl
  · right; simp only []; rw [xtsEnc_length h]; omega
  all_goals
    right; simp only []; rw [iee_ctrBlocks_length h _ _ _ _ _ (Nat.le_refl _)]; exact hz

theorem iee_specPage_length (h : CryptoLaws c) (bs : List IeeBlob) (a : Nat) (d : Bytes) :
    (ieeSpecPage c bs a d).length = d.length ∨ (ieeSpecPage c bs a d).length = (d.length + 15) / 16 * 16 := by
  unfold ieeSpecPage
  cases ieeActive bs a with
  | none => left; rfl
  | some b => exact iee_encPage_length h b a d

theorem iee_specPage_length_full (h : CryptoLaws c) (bs : List IeeBlob) (a : Nat) (d : Bytes) (hd : d.length = 4096) :
    (ieeSpecPage c bs a d).length = 4096 := by
  rcases iee_specPage_length h bs a d with e | e <;> rw [e, hd]

theorem iee_loop_nil (bs : List IeeBlob) (base f a : Nat) (data : Bytes) : ieeLoop c bs base f a [] data = .ok data := by
  cases f <;> simp [ieeLoop]

theorem iee_spec_nil (bs : List IeeBlob) (f a : Nat) : ieeSpec c bs f a [] = [] := by
  cases f <;> simp [ieeSpec]

theorem iee_loop_spec (h : CryptoLaws c) (bs : List IeeBlob) (hwf : ∀ b ∈ bs, b.WF) (hd : IeeDisjoint bs) (base : Nat) :
    ∀ (f a : Nat) (rest done : Bytes), rest.length ≤ f → a = base + done.length → a % 4096 = 0 →
      ieeLoop c bs base f a rest (done ++ rest) = .ok (done ++ ieeSpec c bs f a rest)
  | 0, a, rest, done, hf, _, _ => by
    have : rest = [] := List.eq_nil_of_length_eq_zero (by omega)
    subst this; simp [ieeLoop, ieeSpec]
  | f + 1, a, rest, done, hf, hadr, ha => by
    cases hr : rest with
    | nil => simp [ieeLoop, ieeSpec]
    | cons x t =>
      rw [← hr]
      have hpos : 0 < rest.length := by rw [hr]; simp
      have hne : rest.isEmpty = false := by rw [hr]; rfl
      have hbl : (rest.take 4096).length = min 4096 rest.length := List.length_take
      have hb0 : 0 < (rest.take 4096).length := by omega
      have hb1 : (rest.take 4096).length ≤ 4096 := by omega
      simp only [ieeLoop, ieeSpec, hne, Bool.false_eq_true, if_false, ieeDataUnit]
      rw [iee_blobsStep h base a ha _ hb0 hb1 bs _ hwf hd]
      have hdata : (match ieeActive bs a with
          | none => done ++ rest
          | some b => sliceAssign (done ++ rest) (a - base) ((rest.take 4096).length + a - base) (b.encPage c a (rest.take 4096)))
          = done ++ ieeSpecPage c bs a (rest.take 4096) ++ rest.drop 4096 := by
        unfold ieeSpecPage
        cases ieeActive bs a with
        | none => simp
        | some b =>
          have e1 : a - base = done.length := by omega
          have e2 : (rest.take 4096).length + a - base = (rest.take 4096).length + done.length := by omega
          simp only [e1, e2]
          rw [sliceAssign_prefix]
          congr 1
          by_cases hlt : rest.length < 4096
          · rw [List.drop_of_length_le (by omega), List.drop_of_length_le (by omega)]
          · rw [hbl, Nat.min_eq_left (by omega)]
      simp only [hdata]
      by_cases hlt : rest.length < 4096
      · rw [List.drop_of_length_le (by omega : rest.length ≤ 4096), iee_loop_nil, iee_spec_nil]
        simp
      · have hfull : (rest.take 4096).length = 4096 := by omega
        have hx := iee_specPage_length_full h bs a _ hfull
        rw [hfull]
        have := iee_loop_spec h bs hwf hd base f (a + 4096) (rest.drop 4096) (done ++ ieeSpecPage c bs a (rest.take 4096))
          (by simp; omega) (by simp [hx]; omega) (by omega)
        rw [this]
        simp

/-! ### hardware side: one page -/

theorem iee_ctx_keyLen (b : IeeBlob) : b.ctx.keyLen = b.key1Size := by
  unfold IeeCtx.keyLen IeeBlob.ctx IeeBlob.key1Size
  cases b.keySize <;> simp [IeeKeySize.tag, ieeKey128, ieeKey256]

theorem iee_ctx_key1 (b : IeeBlob) (hwf : b.WF) : b.ctx.key1.take b.ctx.keyLen = b.key1 := by
  rw [iee_ctx_keyLen, ← hwf.k1]; exact zeroPad_take_self 32 b.key1

theorem iee_ctx_key2_xts (b : IeeBlob) (hwf : b.WF) (hm : b.mode.isCtr = false) :
    b.ctx.key2.take b.ctx.keyLen = b.key2 := by
  rw [iee_ctx_keyLen, ← iee_key2Size_nctr b hm, ← hwf.k2]; exact zeroPad_take_self 32 b.key2

theorem iee_ctx_key2_ctr (b : IeeBlob) (hwf : b.WF) (hm : b.mode.isCtr = true) : b.ctx.key2.take 16 = b.key2 := by
  have h1 := iee_key2Size_ctr b hm
  have h2 := hwf.k2
  have e : b.key2.length = 16 := by omega
  have := zeroPad_take_self 32 b.key2
  rw [e] at this
  exact this

theorem iee_ctrPage_inv (h : CryptoLaws c) (x : IeeCtx) (K N : Bytes) (hK : IeeCtx.word (x.key1.take x.keyLen) = K)
    (hN : IeeCtx.word (x.key2.take 16) = N) (hNl : N.length = 16) :
    ∀ (n f a : Nat) (D : Bytes), D.length = 16 * n → D.length ≤ f →
      ieeCtrPage c x n a (IeeBlob.ctrBlocks c K N f (a / 16) D) = D
  | 0, f, a, D, hD, _ => by
    have : D = [] := List.eq_nil_of_length_eq_zero (by omega)
    subst this; simp [ieeCtrPage]
  | n + 1, 0, a, D, hD, hf => by omega
  | n + 1, f + 1, a, D, hD, hf => by
    have hne : D.isEmpty = false := by
      cases D with
      | nil => simp at hD
      | cons _ _ => rfl
    have ht : (D.take 16).length = 16 := by simp; omega
    have hiv : (counterValue N (a / 16)).length = 16 := by simp [counterValue, beEnc_length, hNl]
    have hx : (ctrXor c K (counterValue N (a / 16)) (D.take 16)).length = 16 := by rw [ctrXor_length h, ht]
    simp only [IeeBlob.ctrBlocks, hne, Bool.false_eq_true, if_false, ieeEncBlockSize, ieeCtrPage]
    rw [List.take_left' hx, List.drop_left' hx, ctrXor_block c K _ _ hiv ht]
    have hblk : ieeCtrBlock c x a (xorBytes (D.take 16) (c.encBlk K (counterValue N (a / 16)))) = D.take 16 := by
      unfold ieeCtrBlock
      simp only [hK, hN]
      exact xorBytes_cancel_eq _ _ (by rw [ht, h.enc_len])
    have ha : a / 16 + 16 >>> 4 = (a + 16) / 16 := by
      rw [Nat.shiftRight_eq_div_pow]; omega
    rw [hblk, ha, iee_ctrPage_inv h x K N hK hN hNl n f (a + 16) (D.drop 16) (by simp; omega) (by simp; omega)]
    exact List.take_append_drop 16 D

theorem iee_tweak_eq (a : Nat) : IeeBlob.tweak a = leEnc 16 (a / 4096) := by
  simp [IeeBlob.tweak, ieeTweakShift, Nat.shiftRight_eq_div_pow]

/-- what the engine returns for the specified ciphertext page of blob `b` when `b`'s context is the one selected -/
theorem iee_hwPage_blob (h : CryptoLaws c) (ctxs : List IeeCtx) (b : IeeBlob) (hwf : b.WF) (hcl : b.claimed) (a : Nat)
    (hf : ctxs.find? (fun x => x.hit a) = some b.ctx) (d : Bytes) :
    ieeHwPage c ctxs a (b.encPage c a d) = if b.mode = .bypass then d else zeroPad 16 d := by
  have htag : b.ctx.modeTag = b.mode.tag := rfl
  have hk1s := iee_key1Size b
  have hk2s := iee_key2Size b
  have hk1 := hwf.k1
  have hk2 := hwf.k2
  unfold ieeHwPage
  rw [hf]
  simp only [htag]
  rcases hcl with hm | hm | hm
  · simp [hm, IeeMode.tag, ieeModeBypass, IeeBlob.encPage]
  · have hc : b.mode.isCtr = false := by rw [hm]; rfl
    simp only [hm, IeeMode.tag, ieeModeXts, IeeBlob.encPage]
    rw [iee_ctx_key1 b hwf, iee_ctx_key2_xts b hwf hc, iee_tweak_eq]
    simp only [if_true]
    rw [xts_inv h _ _ _ _ (zeroPad_length_mod 16 (by omega) d)]
    simp
  · have hc : b.mode.isCtr = true := by rw [hm]; rfl
    have hk2m : b.key2.length % 4 = 0 := by omega
    have hNl : (IeeCtx.word b.key2).length = 16 := by
      rw [iee_word_length _ hk2m, hk2, iee_key2Size_ctr b hc]
    simp only [hm, IeeMode.tag, ieeModeCtrAddr, IeeBlob.encPage]
    have hlen := iee_ctrBlocks_length h (IeeCtx.word b.key1) (IeeCtx.word b.key2) (zeroPad 16 d).length (a / 16)
      (zeroPad 16 d) (Nat.le_refl _)
    have hz := zeroPad16_length d
    have hn : blocksFor (zeroPad 16 d).length = (d.length + 15) / 16 := by unfold blocksFor; omega
    simp only [hlen, hn]
    have := iee_ctrPage_inv h b.ctx (IeeCtx.word b.key1) (IeeCtx.word b.key2) (by rw [iee_ctx_key1 b hwf])
      (by rw [iee_ctx_key2_ctr b hwf hc]) hNl ((d.length + 15) / 16) (zeroPad 16 d).length a (zeroPad 16 d)
      (by omega) (Nat.le_refl _)
    simp [this]

/-! ### hardware side: the whole image -/

theorem iee_find_ctx (bs : List IeeBlob) (a : Nat) :
    (bs.map IeeBlob.ctx).find? (fun x => x.hit a) = (ieeActive bs a).map IeeBlob.ctx := by
  unfold ieeActive
  rw [List.find?_map]
  rfl

theorem iee_hwPage_spec (h : CryptoLaws c) (bs : List IeeBlob) (hwf : ∀ b ∈ bs, b.WF ∧ b.claimed) (a : Nat) (d : Bytes) :
    ieeHwPage c (bs.map IeeBlob.ctx) a (ieeSpecPage c bs a d) = d ∨
    ieeHwPage c (bs.map IeeBlob.ctx) a (ieeSpecPage c bs a d) = zeroPad 16 d := by
  have hfind := iee_find_ctx bs a
  unfold ieeSpecPage
  cases hact : ieeActive bs a with
  | none =>
    left
    rw [hact] at hfind
    simp only [ieeHwPage]
    rw [hfind]
    rfl
  | some b =>
    rw [hact] at hfind
    have hb := hwf b (List.mem_of_find?_eq_some hact)
    simp only []
    rw [iee_hwPage_blob h _ b hb.1 hb.2 a hfind d]
    by_cases hm : b.mode = .bypass
    · left; simp [hm]
    · right; simp [hm]

theorem iee_hwRead_nil (ctxs : List IeeCtx) (f a : Nat) : ieeHwRead c ctxs f a [] = [] := by
  cases f <;> simp [ieeHwRead]

theorem iee_hwRead_spec (h : CryptoLaws c) (bs : List IeeBlob) (hwf : ∀ b ∈ bs, b.WF ∧ b.claimed) :
    ∀ (f2 f1 a : Nat) (m : Bytes), m.length ≤ f2 → (ieeSpec c bs f2 a m).length ≤ f1 →
      (ieeHwRead c (bs.map IeeBlob.ctx) f1 a (ieeSpec c bs f2 a m)).take m.length = m
  | 0, f1, a, m, hm, _ => by
    have : m = [] := List.eq_nil_of_length_eq_zero (by omega)
    subst this; simp
  | f2 + 1, f1, a, m, hm, hf1 => by
    cases hr : m with
    | nil => simp
    | cons x t =>
      rw [← hr]
      have hpos : 0 < m.length := by rw [hr]; simp
      have hne : m.isEmpty = false := by rw [hr]; rfl
      have hPl : (m.take 4096).length = min 4096 m.length := List.length_take
      have hX := iee_specPage_length h bs a (m.take 4096)
      have hpage := iee_hwPage_spec h bs hwf a (m.take 4096)
      simp only [ieeSpec, hne, Bool.false_eq_true, if_false] at hf1 ⊢
      by_cases hle : m.length ≤ 4096
      · have hP : m.take 4096 = m := List.take_of_length_le hle
        have hD : m.drop 4096 = [] := List.drop_of_length_le hle
        rw [hP] at hX hpage
        rw [hP, hD, iee_spec_nil, List.append_nil] at hf1 ⊢
        have hXpos : 0 < (ieeSpecPage c bs a m).length := by omega
        have hXle : (ieeSpecPage c bs a m).length ≤ 4096 := by omega
        have hXne : (ieeSpecPage c bs a m).isEmpty = false := by
          cases hz : ieeSpecPage c bs a m with
          | nil => rw [hz] at hXpos; simp at hXpos
          | cons _ _ => rfl
        cases f1 with
        | zero => omega
        | succ f1 =>
          simp only [ieeHwRead, hXne, Bool.false_eq_true, if_false]
          rw [List.take_of_length_le hXle, List.drop_of_length_le hXle, iee_hwRead_nil, List.append_nil]
          rcases hpage with e | e <;> rw [e]
          · simp
          · exact zeroPad_take_self 16 m
      · have hPfull : (m.take 4096).length = 4096 := by omega
        have hXfull : (ieeSpecPage c bs a (m.take 4096)).length = 4096 := by omega
        have hpage' : ieeHwPage c (bs.map IeeBlob.ctx) a (ieeSpecPage c bs a (m.take 4096)) = m.take 4096 := by
          rcases hpage with e | e
          · exact e
          · rw [e]; exact zeroPad_of_aligned 16 _ (by omega)
        cases f1 with
        | zero => rw [List.length_append, hXfull] at hf1; omega
        | succ f1 =>
          have hne2 : (ieeSpecPage c bs a (m.take 4096) ++ ieeSpec c bs f2 (a + 4096) (m.drop 4096)).isEmpty = false := by
            cases hz : ieeSpecPage c bs a (m.take 4096) with
            | nil => rw [hz] at hXfull; simp at hXfull
            | cons _ _ => rfl
          simp only [ieeHwRead, hne2, Bool.false_eq_true, if_false]
          rw [List.take_left' hXfull, List.drop_left' hXfull, hpage']
          have ih := iee_hwRead_spec h bs hwf f2 f1 (a + 4096) (m.drop 4096) (by simp; omega)
            (by rw [List.length_append, hXfull] at hf1; omega)
          have hml : m.length = (m.take 4096).length + (m.drop 4096).length := by simp; omega
          rw [hml, List.take_length_add_append, ih, List.take_append_drop]

/-! ### the specification: length, fuel, append, untouched bytes -/

theorem iee_spec_length_aux (h : CryptoLaws c) (bs : List IeeBlob) : ∀ (f a : Nat) (m : Bytes), m.length ≤ f →
    m.length ≤ (ieeSpec c bs f a m).length ∧ (ieeSpec c bs f a m).length ≤ (m.length + 15) / 16 * 16
  | 0, a, m, hm => by
    have : m = [] := List.eq_nil_of_length_eq_zero (by omega)
    subst this; simp [ieeSpec]
  | f + 1, a, m, hm => by
    cases hr : m with
    | nil => simp [ieeSpec]
    | cons x t =>
      rw [← hr]
      have hpos : 0 < m.length := by rw [hr]; simp
      have hne : m.isEmpty = false := by rw [hr]; rfl
      have hPl : (m.take 4096).length = min 4096 m.length := List.length_take
      have hX := iee_specPage_length h bs a (m.take 4096)
      have ih := iee_spec_length_aux h bs f (a + 4096) (m.drop 4096) (by simp; omega)
      have hD : (m.drop 4096).length = m.length - 4096 := List.length_drop
      simp only [ieeSpec, hne, Bool.false_eq_true, if_false, List.length_append]
      omega

theorem iee_spec_fuel (bs : List IeeBlob) : ∀ (f1 f2 a : Nat) (m : Bytes), m.length ≤ f1 → m.length ≤ f2 →
    ieeSpec c bs f1 a m = ieeSpec c bs f2 a m
  | 0, f2, a, m, h1, _ => by
    have : m = [] := List.eq_nil_of_length_eq_zero (by omega)
    subst this; rw [iee_spec_nil, iee_spec_nil]
  | f1 + 1, f2, a, m, h1, h2 => by
    cases hr : m with
    | nil => rw [iee_spec_nil, iee_spec_nil]
    | cons x t =>
      rw [← hr]
      have hpos : 0 < m.length := by rw [hr]; simp
      have hne : m.isEmpty = false := by rw [hr]; rfl
      cases f2 with
      | zero => omega
      | succ f2 =>
        simp only [ieeSpec, hne, Bool.false_eq_true, if_false]
        rw [iee_spec_fuel bs f1 f2 (a + 4096) (m.drop 4096) (by simp; omega) (by simp; omega)]

theorem iee_spec_step (bs : List IeeBlob) (f a : Nat) (m : Bytes) (hpos : 0 < m.length) (hf : m.length ≤ f) :
    ieeSpec c bs f a m
      = ieeSpecPage c bs a (m.take 4096) ++ ieeSpec c bs (m.drop 4096).length (a + 4096) (m.drop 4096) := by
  have hne : m.isEmpty = false := by
    cases m with
    | nil => simp at hpos
    | cons _ _ => rfl
  cases f with
  | zero => omega
  | succ f =>
    simp only [ieeSpec, hne, Bool.false_eq_true, if_false]
    rw [iee_spec_fuel bs f _ (a + 4096) (m.drop 4096) (by simp; omega) (Nat.le_refl _)]

theorem iee_spec_append_aux (bs : List IeeBlob) : ∀ (n a : Nat) (p q : Bytes), p.length = 4096 * n →
    ieeSpec c bs (p ++ q).length a (p ++ q)
      = ieeSpec c bs p.length a p ++ ieeSpec c bs q.length (a + p.length) q
  | 0, a, p, q, hp => by
    have : p = [] := List.eq_nil_of_length_eq_zero (by omega)
    subst this; simp [iee_spec_nil]
  | n + 1, a, p, q, hp => by
    have h1 : 4096 ≤ p.length := by omega
    rw [iee_spec_step bs _ a (p ++ q) (by simp; omega) (Nat.le_refl _),
      iee_spec_step bs _ a p (by omega) (Nat.le_refl _),
      List.take_append_of_le_length h1, List.drop_append_of_le_length h1,
      iee_spec_append_aux bs n (a + 4096) (p.drop 4096) q (by simp; omega), List.append_assoc]
    have : a + 4096 + (p.drop 4096).length = a + p.length := by simp; omega
    rw [this]

theorem iee_specPage_outside (bs : List IeeBlob) (hwf : ∀ b ∈ bs, b.WF) (a i : Nat) (ha : a % 4096 = 0) (hi : i < 4096)
    (hout : ∀ b ∈ bs, b.mode ≠ .bypass → ¬ (b.start ≤ a + i ∧ a + i < b.end_)) (d : Bytes) :
    ieeSpecPage c bs a d = d := by
  unfold ieeSpecPage
  cases hact : ieeActive bs a with
  | none => rfl
  | some b =>
    have hmem := List.mem_of_find?_eq_some hact
    have hin := List.find?_some hact
    have hb := hwf b hmem
    have := hb.start_al
    have := hb.end_al
    simp at hin
    have hm : b.mode = .bypass := by
      apply Classical.byContradiction
      intro hne
      exact hout b hmem hne (by omega)
    simp [IeeBlob.encPage, hm]

theorem iee_spec_outside_aux (h : CryptoLaws c) (bs : List IeeBlob) (hwf : ∀ b ∈ bs, b.WF) :
    ∀ (f a : Nat) (m : Bytes) (i : Nat), m.length ≤ f → a % 4096 = 0 → i < m.length →
      (∀ b ∈ bs, b.mode ≠ .bypass → ¬ (b.start ≤ a + i ∧ a + i < b.end_)) → (ieeSpec c bs f a m)[i]? = m[i]?
  | 0, a, m, i, hf, _, hi, _ => by omega
  | f + 1, a, m, i, hf, ha, hi, hout => by
    have hne : m.isEmpty = false := by
      cases m with
      | nil => simp at hi
      | cons _ _ => rfl
    have hPl : (m.take 4096).length = min 4096 m.length := List.length_take
    simp only [ieeSpec, hne, Bool.false_eq_true, if_false]
    by_cases h4 : i < 4096
    · rw [iee_specPage_outside bs hwf a i ha h4 hout, List.getElem?_append_left (by omega), List.getElem?_take]
      simp [h4]
    · have hX := iee_specPage_length_full h bs a (m.take 4096) (by omega)
      rw [List.getElem?_append_right (by omega), hX]
      have ih := iee_spec_outside_aux h bs hwf f (a + 4096) (m.drop 4096) (i - 4096) (by simp; omega) (by omega)
        (by simp; omega) (by
          intro b hb hm
          have := hout b hb hm
          have e : a + 4096 + (i - 4096) = a + i := by omega
          rw [e]; exact this)
      have e : 4096 + (i - 4096) = i := by omega
      rw [ih, List.getElem?_drop, e]

/-! ### the key-blob area -/

theorem iee_parse_generic (H V PO K1 K2 S E Z C : Bytes) (a0 a1 a2 a3 : UInt8)
    (hH : H.length = 4) (hV : V.length = 4) (hPO : PO.length = 4) (hK1 : K1.length = 32) (hK2 : K2.length = 32)
    (hS : S.length = 4) (hE : E.length = 4) (hZ : Z.length = 4) (hC : C.length = 4)
    (hHv : leDec H = 0x49454542) (hVv : leDec V = 0x56010000)
    (hCv : leDec C = crc32Mpeg (H ++ V ++ [a0, a1, a2, a3] ++ PO ++ K1 ++ K2 ++ S ++ E ++ Z)) :
    ieeParseBlob (H ++ V ++ [a0, a1, a2, a3] ++ PO ++ K1 ++ K2 ++ S ++ E ++ Z ++ C)
      = some ⟨a1.toNat, a2.toNat, leDec PO, K1, K2, leDec S, leDec E⟩ := by
  generalize hr : H ++ V ++ [a0, a1, a2, a3] ++ PO ++ K1 ++ K2 ++ S ++ E ++ Z = r at hCv
  generalize hp : r ++ C = p
  have hrl : r.length = 92 := by subst hr; simp [*]
  have hlen : p.length = 96 := by subst hp; simp [*]
  have g1 : p.take 92 = r := by subst hp; exact List.take_left' hrl
  have g2 : (p.drop 92).take 4 = C := by subst hp; rw [List.drop_left' hrl]; exact List.take_of_length_le (by omega)
  have f1 : p.take 4 = H := by subst hp hr; simp [*]
  have f2 : (p.drop 4).take 4 = V := by subst hp hr; simp [*]
  have f3 : p.getD 9 0 = a1 := by subst hp hr; simp [List.getD_eq_getElem?_getD, *]
  have f4 : p.getD 10 0 = a2 := by subst hp hr; simp [List.getD_eq_getElem?_getD, *]
  have f5 : (p.drop 12).take 4 = PO := by subst hp hr; simp [List.drop_append, List.drop_of_length_le, *]
  have f6 : (p.drop 16).take 32 = K1 := by subst hp hr; simp [List.drop_append, List.drop_of_length_le, *]
  have f7 : (p.drop 48).take 32 = K2 := by subst hp hr; simp [List.drop_append, List.drop_of_length_le, *]
  have f8 : (p.drop 80).take 4 = S := by subst hp hr; simp [List.drop_append, List.drop_of_length_le, *]
  have f9 : (p.drop 84).take 4 = E := by subst hp hr; simp [List.drop_append, List.drop_of_length_le, *]
  unfold ieeParseBlob
  rw [g1, g2, f1, f2, f3, f4, f5, f6, f7, f8, f9]
  simp [hlen, hHv, hVv, hCv]


theorem iee_bitStep_lt (crc : Nat) : Crc.bitStep crcMpegParams crc < 2 ^ 32 := by
  unfold Crc.bitStep
  have hw : crcMpegParams.width = 32 := rfl
  have hp : crcMpegParams.poly < 2 ^ 32 := by decide
  simp only [hw]
  split
  · exact Nat.xor_lt_two_pow (Nat.mod_lt _ (by decide)) hp
  · exact Nat.mod_lt _ (by decide)

theorem iee_register_lt (d : Bytes) : Crc.register crcMpegParams d < 2 ^ 32 := by
  induction d using bytes_rev_ind with
  | h0 => simp only [Crc.register, List.foldl_nil]; decide
  | hs l x ih =>
    unfold Crc.register
    rw [List.foldl_append]
    simp only [List.foldl_cons, List.foldl_nil]
    unfold Crc.byteStep
    exact iee_bitStep_lt _

theorem iee_crc_lt (d : Bytes) : crc32Mpeg d < 2 ^ 32 := by
  unfold crc32Mpeg Crc.crc
  have h1 : crcMpegParams.refOut = false := rfl
  have h2 : crcMpegParams.xorOut = 0 := rfl
  simp only [h1, h2, Bool.false_eq_true, if_false, Nat.xor_zero]
  exact iee_register_lt d

/-- the 92 bytes of a plain key blob in front of its CRC -/
def iee_plainHead (b : IeeBlob) : Bytes :=
  leEnc 4 ieeHeaderTag ++ leEnc 4 ieeKeyblobVersion ++ b.attrBytes ++ leEnc 4 b.pageOffset
    ++ zeroPad ieeKeyFieldSize b.key1 ++ zeroPad ieeKeyFieldSize b.key2 ++ leEnc 4 b.start ++ leEnc 4 b.end_ ++ leEnc 4 0

def iee_plainBytes (b : IeeBlob) : Bytes := iee_plainHead b ++ leEnc 4 (crc32Mpeg (iee_plainHead b))

theorem iee_plainData (b : IeeBlob) (hwf : b.WF) : b.plainData = .ok (iee_plainBytes b) := by
  have h1 := hwf.range
  have h2 := hwf.end_lt
  have h3 := hwf.po_lt
  have hc : ¬ (b.pageOffset ≥ 2 ^ 32 ∨ b.start ≥ 2 ^ 32 ∨ b.end_ ≥ 2 ^ 32) := by omega
  unfold IeeBlob.plainData
  rw [if_neg hc]
  rfl

theorem iee_keyField_length (k : Bytes) (hk : k.length = 16 ∨ k.length = 32) : (zeroPad 32 k).length = 32 := by
  rw [zeroPad_length]; omega

theorem iee_plainBytes_length (b : IeeBlob) (hwf : b.WF) : (iee_plainBytes b).length = 96 := by
  have hk1 : (zeroPad 32 b.key1).length = 32 := iee_keyField_length _ (by rw [hwf.k1]; exact iee_key1Size b)
  have hk2 : (zeroPad 32 b.key2).length = 32 := iee_keyField_length _ (by rw [hwf.k2]; exact iee_key2Size b)
  simp [iee_plainBytes, iee_plainHead, leEnc_length, IeeBlob.attrBytes, ieeKeyFieldSize, hk1, hk2]

theorem iee_parse_plain (b : IeeBlob) (hwf : b.WF) : ieeParseBlob (iee_plainBytes b) = some b.ctx := by
  have hk1 : (zeroPad 32 b.key1).length = 32 := iee_keyField_length _ (by rw [hwf.k1]; exact iee_key1Size b)
  have hk2 : (zeroPad 32 b.key2).length = 32 := iee_keyField_length _ (by rw [hwf.k2]; exact iee_key2Size b)
  have h1 := hwf.range
  have h2 := hwf.end_lt
  have h3 := hwf.po_lt
  have hp : (256 : Nat) ^ 4 = 2 ^ 32 := by decide
  have ht1 : (UInt8.ofNat b.keySize.tag).toNat = b.keySize.tag := by
    cases b.keySize <;> simp [IeeKeySize.tag, ieeKey128, ieeKey256]
  have ht2 : (UInt8.ofNat b.mode.tag).toNat = b.mode.tag := by
    cases b.mode <;> simp [IeeMode.tag, ieeModeBypass, ieeModeXts, ieeModeCtrAddr, ieeModeCtrNoAddr, ieeModeCtrKeystream]
  have := iee_parse_generic (leEnc 4 ieeHeaderTag) (leEnc 4 ieeKeyblobVersion) (leEnc 4 b.pageOffset)
    (zeroPad 32 b.key1) (zeroPad 32 b.key2) (leEnc 4 b.start) (leEnc 4 b.end_) (leEnc 4 0)
    (leEnc 4 (crc32Mpeg (iee_plainHead b)))
    (UInt8.ofNat (if b.lock then ieeLock else ieeUnlock)) (UInt8.ofNat b.keySize.tag) (UInt8.ofNat b.mode.tag) 0
    (leEnc_length _ _) (leEnc_length _ _) (leEnc_length _ _) hk1 hk2 (leEnc_length _ _) (leEnc_length _ _)
    (leEnc_length _ _) (leEnc_length _ _)
    (by rw [leDec_leEnc _ _ (by decide)]; rfl) (by rw [leDec_leEnc _ _ (by decide)]; rfl)
    (by rw [leDec_leEnc _ _ (by rw [hp]; exact iee_crc_lt _)]; rfl)
  rw [ht1, ht2, leDec_leEnc _ _ (by omega), leDec_leEnc _ _ (by omega), leDec_leEnc _ _ (by omega)] at this
  exact this

theorem iee_plainAux (bs : List IeeBlob) : ∀ (acc : Bytes), (∀ b ∈ bs, b.WF) →
    ieePlainAux bs acc = .ok (acc ++ (bs.map iee_plainBytes).flatten) := by
  induction bs with
  | nil => intro acc _; simp [ieePlainAux]
  | cons b rest ih =>
    intro acc hwf
    simp only [ieePlainAux, iee_plainData b (hwf b List.mem_cons_self)]
    rw [ih _ (fun x hx => hwf x (List.mem_cons_of_mem _ hx))]
    simp

theorem iee_flat_length (bs : List IeeBlob) (hwf : ∀ b ∈ bs, b.WF) :
    ((bs.map iee_plainBytes).flatten).length = 96 * bs.length := by
  induction bs with
  | nil => rfl
  | cons b rest ih =>
    simp only [List.map_cons, List.flatten_cons, List.length_append, List.length_cons,
      iee_plainBytes_length b (hwf b List.mem_cons_self), ih (fun x hx => hwf x (List.mem_cons_of_mem _ hx))]
    omega

theorem iee_parseTable_plain (bs : List IeeBlob) : ∀ (tail : Bytes), (∀ b ∈ bs, b.WF) →
    ieeParseTable bs.length ((bs.map iee_plainBytes).flatten ++ tail) = bs.map (fun b => some b.ctx) := by
  induction bs with
  | nil => intro tail _; simp [ieeParseTable]
  | cons b rest ih =>
    intro tail hwf
    have hb := hwf b List.mem_cons_self
    have hl := iee_plainBytes_length b hb
    simp only [List.length_cons, ieeParseTable, List.map_cons, List.flatten_cons, List.append_assoc]
    rw [List.take_left' hl, List.drop_left' hl, iee_parse_plain b hb,
      ih tail (fun x hx => hwf x (List.mem_cons_of_mem _ hx))]

/-! ### the property theorems -/

/-- REFINEMENT: the code computes the page-wise specification (4 KiB aligned base and ranges) -/
theorem iee_refines_spec (h : CryptoLaws c) (bs : List IeeBlob) (hwf : ∀ b ∈ bs, b.WF) (hd : IeeDisjoint bs)
    (base : Nat) (hb : base % 4096 = 0) (img : Bytes) :
    Iee.encryptImage c bs img base = .ok (ieeSpecImage c bs base img) := by
  have := iee_loop_spec h bs hwf hd base img.length base img [] (Nat.le_refl _) (by simp) hb
  simpa [Iee.encryptImage, ieeSpecImage] using this

/-- one page under an AES-XTS blob: the engine (tweak = page number) returns the plaintext -/
theorem iee_xts_page (h : CryptoLaws c) (b : IeeBlob) (hwf : b.WF) (hm : b.mode = .xts) (a : Nat) (ha : a % 4096 = 0)
    (hin : b.start ≤ a ∧ a < b.end_) (d : Bytes) (hd : d.length ≤ 4096) :
    (ieeHwPage c [b.ctx] a (b.encPage c a d)).take d.length = d := by
  have hf : [b.ctx].find? (fun x => x.hit a) = some b.ctx := by
    simp [IeeCtx.hit, IeeBlob.ctx, hin.1, hin.2]
  rw [iee_hwPage_blob h [b.ctx] b hwf (Or.inr (Or.inl hm)) a hf d]
  simp [hm, zeroPad_take_self]

/-- one page under an AES-CTR blob with address binding -/
theorem iee_ctr_page (h : CryptoLaws c) (b : IeeBlob) (hwf : b.WF) (hm : b.mode = .ctrAddr) (a : Nat) (ha : a % 4096 = 0)
    (hin : b.start ≤ a ∧ a < b.end_) (d : Bytes) (hd : d.length ≤ 4096) :
    (ieeHwPage c [b.ctx] a (b.encPage c a d)).take d.length = d := by
  have hf : [b.ctx].find? (fun x => x.hit a) = some b.ctx := by
    simp [IeeCtx.hit, IeeBlob.ctx, hin.1, hin.2]
  rw [iee_hwPage_blob h [b.ctx] b hwf (Or.inr (Or.inr hm)) a hf d]
  simp [hm, zeroPad_take_self]

/-- the engine reading the specified ciphertext returns the plaintext -/
theorem iee_spec_hw (h : CryptoLaws c) (bs : List IeeBlob) (hwf : ∀ b ∈ bs, b.WF ∧ b.claimed) (hd : IeeDisjoint bs)
    (base : Nat) (hb : base % 4096 = 0) (img : Bytes) :
    (ieeHwReadAll c (bs.map IeeBlob.ctx) base (ieeSpecImage c bs base img)).take img.length = img := by
  unfold ieeHwReadAll ieeSpecImage
  exact iee_hwRead_spec h bs hwf img.length _ base img (Nat.le_refl _) (Nat.le_refl _)

theorem iee_spec_length (h : CryptoLaws c) (bs : List IeeBlob) (base : Nat) (img : Bytes) :
    img.length ≤ (ieeSpecImage c bs base img).length ∧
    (ieeSpecImage c bs base img).length ≤ (img.length + 15) / 16 * 16 := by
  exact iee_spec_length_aux h bs img.length base img (Nat.le_refl _)

/-- a byte in no region, or in a bypass region, is left as it is -/
theorem iee_spec_outside (h : CryptoLaws c) (bs : List IeeBlob) (hwf : ∀ b ∈ bs, b.WF)
    (base : Nat) (hb : base % 4096 = 0) (img : Bytes) (i : Nat) (hi : i < img.length)
    (hout : ∀ b ∈ bs, b.mode ≠ .bypass → ¬ (b.start ≤ base + i ∧ base + i < b.end_)) :
    (ieeSpecImage c bs base img)[i]? = img[i]? := by
  exact iee_spec_outside_aux h bs hwf img.length base img i (Nat.le_refl _) hb hi hout

/-- the specification is position independent at page granularity -/
theorem iee_spec_append (bs : List IeeBlob) (base : Nat) (p q : Bytes) (hp : p.length % 4096 = 0) :
    ieeSpecImage c bs base (p ++ q) = ieeSpecImage c bs base p ++ ieeSpecImage c bs (base + p.length) q := by
  exact iee_spec_append_aux bs (p.length / 4096) base p q (by omega)

/-- the encrypted key-blob area decrypts (AES-XTS, IBKEKs, tweak = sector of the key-blob address) and parses back
    to the configured regions -/
theorem iee_keyblobs_unwrap (h : CryptoLaws c) (bs : List IeeBlob) (hne : bs ≠ []) (hwf : ∀ b ∈ bs, b.WF)
    (k1 k2 : Bytes) (hk1 : k1.length = 32) (hk2 : k2.length = 32) (hk : k1 ≠ k2) (addr : Nat) :
    ∃ t, Iee.encryptKeyBlobs c bs k1 k2 addr = .ok t ∧
      ieeUnwrapTable c k1 k2 addr bs.length t = bs.map (fun b => some b.ctx) := by
  have hflat := iee_plainAux bs [] hwf
  have hfl := iee_flat_length bs hwf
  have hn : 0 < bs.length := List.length_pos_iff.mpr hne
  have hget : Iee.getKeyBlobs bs = .ok (zeroPad 384 (bs.map iee_plainBytes).flatten) := by
    unfold Iee.getKeyBlobs
    rw [hflat]
    rfl
  have hmod : (zeroPad 384 (bs.map iee_plainBytes).flatten).length % 384 = 0 := zeroPad_length_mod 384 (by omega) _
  have hge : 96 ≤ (zeroPad 384 (bs.map iee_plainBytes).flatten).length := by
    rw [zeroPad_length]; omega
  have hk1m : k1.length % 4 = 0 := by omega
  have hk2m : k2.length % 4 = 0 := by omega
  refine ⟨xtsEnc c (IeeCtx.word k1) (IeeCtx.word k2) (IeeBlob.tweak addr) (zeroPad 384 (bs.map iee_plainBytes).flatten), ?_, ?_⟩
  · unfold Iee.encryptKeyBlobs
    rw [hget]
    simp only [iee_rev_ok' k1 hk1m, iee_rev_ok' k2 hk2m]
    rw [iee_xtsKeyCheck _ _ (by rw [iee_word_length _ hk1m, iee_word_length _ hk2m, hk1, hk2])
      (by rw [iee_word_length _ hk1m, hk1]; exact Or.inr rfl)
      (fun e => hk (iee_word_inj _ _ hk1m hk2m e))]
    have hc : ¬ ((zeroPad 384 (bs.map iee_plainBytes).flatten).length < 16 ∨
        (zeroPad 384 (bs.map iee_plainBytes).flatten).length % 16 ≠ 0) := by omega
    rw [if_neg hc]
  · unfold ieeUnwrapTable
    rw [← iee_tweak_eq, xts_inv h _ _ _ _ (by omega)]
    unfold zeroPad
    exact iee_parseTable_plain bs _ hwf

end SpsdkVerif.FlashEnc
