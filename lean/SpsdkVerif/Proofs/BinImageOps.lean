/- Theorems about the further `BinaryImage` tree operations of Model/BinImageOps.lean (core Lean only). -/
import SpsdkVerif.Model.BinImageOps
import SpsdkVerif.Proofs.BinImage

namespace SpsdkVerif.BinImg
open SpsdkVerif SpsdkVerif.Misc

/-! ## `join_images` -/

/-- length of a childless image that holds `b`, when `b` is as long as an image of the same size / alignment -/
theorem len_joined (s o a : Nat) (bin : Option Bytes) (p : Option Pattern) (ch : List Img) (b : Bytes)
    (ha : 0 < a) (hl : b.length = (Img.mk s o a bin p ch).len) :
    (Img.mk s o a (some b) p []).len = (Img.mk s o a bin p ch).len := by
  by_cases hs : s = 0
  · subst hs
    rw [len_size_zero] at hl ⊢
    rw [len_size_zero]
    simp only [binLen, childrenEnd, Nat.max_zero]
    rw [hl]
    exact alignNat_of_mod _ _ ha (alignNat_spec _ _ ha).1
  · rw [Img.len, Img.len]
    simp [hs]

/-- `join_images` on an image whose `export()` gives `b` of the reported length (that is what
    `C16.export_length` states for valid trees): it succeeds; size, offset, alignment and pattern are kept, the
    binary is `b`, the children are gone; the length is unchanged; `export()` still gives `b`; the result
    validates. -/
theorem joinImages_spec (i : Img) (b : Bytes) (ha : 0 < i.alignment) (hb : i.export = .ok b)
    (hl : b.length = i.len) :
    i.joinImages = .ok (.mk i.size i.offset i.alignment (some b) i.pattern []) ∧
    (Img.mk i.size i.offset i.alignment (some b) i.pattern []).len = i.len ∧
    (Img.mk i.size i.offset i.alignment (some b) i.pattern []).export = .ok b ∧
    (Img.mk i.size i.offset i.alignment (some b) i.pattern []).validate = .ok () := by
  cases i with
  | mk s o a bin p ch =>
    simp only [Img.alignment, Img.size, Img.offset, Img.pattern] at ha ⊢
    have hlen := len_joined s o a bin p ch b ha hl
    refine ⟨?_, hlen, ?_, ?_⟩
    · rw [Img.joinImages, hb]
    · rw [Img.export]
      by_cases hne : b = []
      · subst hne
        have h0 : (Img.mk s o a (some []) p []).len = 0 := by rw [hlen, ← hl]; rfl
        simp only [h0, List.isEmpty_nil, Bool.not_true, Bool.false_and, Bool.false_eq_true, if_false]
        simp only [ownBuf, List.isEmpty_nil, if_true, patBlock_zero, finishExport]
        rw [if_neg (by omega)]
        have h1 : (a - 1) / a = 0 := Nat.div_eq_of_lt (by omega)
        simp [alignNat, h1, patBlock_zero]
      · have hb' : b.isEmpty = false := by cases b <;> simp_all
        have : ((Img.mk s o a (some b) p []).len == b.length) = true := by
          rw [hlen, ← hl]; simp
        simp [hb', this]
    · rw [validate_ok_iff]
      refine ⟨?_, ?_, ?_⟩
      · rw [hlen, ← hl]; exact Nat.le_refl _
      · intro c hc; cases hc
      · intro x y ca cb _ hx; simp at hx

/-- the one-step form used by the driver: the result of `joinImages` re-exports to the same bytes -/
theorem joinImages_export (i j : Img) (b : Bytes) (ha : 0 < i.alignment) (hb : i.export = .ok b)
    (hl : b.length = i.len) (hj : i.joinImages = .ok j) :
    j.export = .ok b ∧ j.len = i.len ∧ j.validate = .ok () ∧ j.children = [] ∧ j.binary = some b ∧
      j.offset = i.offset ∧ j.size = i.size := by
  obtain ⟨h1, h2, h3, h4⟩ := joinImages_spec i b ha hb hl
  rw [h1] at hj
  cases hj
  exact ⟨h3, h2, h4, rfl, rfl, rfl, rfl⟩

/-- `join_images` fails exactly when `export()` fails, with the same error -/
theorem joinImages_error (i : Img) (e : PyErr) : i.joinImages = .error e ↔ i.export = .error e := by
  cases i with
  | mk s o a bin p ch =>
    rw [Img.joinImages]
    cases h : (Img.mk s o a bin p ch).export with
    | error e' => simp
    | ok b => simp

/-- the hypotheses are satisfiable: a tree with an own binary, a fill pattern, children and alignment 4 -/
example :
    let i : Img := .mk 0 0 4 (some [1, 2, 3]) (some .ones)
      [.mk 0 4 1 (some [9, 9]) none [], .mk 3 8 1 none (some .inc) [.mk 0 1 1 (some [7]) none []]]
    0 < i.alignment ∧ i.export = .ok [1, 2, 3, 0xFF, 9, 9, 0xFF, 0xFF, 0, 7, 2, 0xFF] ∧
      ([1, 2, 3, 0xFF, 9, 9, 0xFF, 0xFF, 0, 7, 2, 0xFF] : Bytes).length = i.len ∧
      i.joinImages.map (fun j => (j.export, j.binary, j.children.length, j.len)) =
        .ok (.ok [1, 2, 3, 0xFF, 9, 9, 0xFF, 0xFF, 0, 7, 2, 0xFF],
             some [1, 2, 3, 0xFF, 9, 9, 0xFF, 0xFF, 0, 7, 2, 0xFF], 0, 12) := by
  decide
/-- … also by the empty image (empty exported bytes are a falsy binary afterwards) -/
example : (Img.mk 0 5 2 none none []).export = .ok [] ∧ (Img.mk 0 5 2 none none []).len = 0 ∧
    (Img.mk 0 5 2 none none []).joinImages.map (fun j => (j.export, j.binary, j.len)) =
      .ok (.ok [], some [], 0) := by decide

/-! ## `get_image_by_absolute_address` (current behaviour: the end address is accepted) -/

/-- a hit among the children: the first child (in list order) that accepts the address -/
theorem getByAddrLaxChildren_some (l : List Img) (addr idx : Nat) (r : List Nat × Nat × Img)
    (h : getByAddrLaxChildren l addr idx = some r) :
    ∃ k c path off, l[k]? = some c ∧ c.getByAddrLax addr = .ok (path, off, r.2.2) ∧
      r.1 = (idx + k) :: path ∧ r.2.1 = c.offset + off ∧
      ∀ j c', j < k → l[j]? = some c' → ∃ e, c'.getByAddrLax addr = .error e := by
  induction l generalizing idx with
  | nil => simp [getByAddrLaxChildren] at h
  | cons c cs ih =>
    rw [getByAddrLaxChildren] at h
    cases hc : c.getByAddrLax addr with
    | ok x =>
      obtain ⟨path, off, d⟩ := x
      rw [hc] at h; simp only [] at h
      cases h
      exact ⟨0, c, path, off, by simp, hc, by simp, rfl, by intro j c' hj; omega⟩
    | error e =>
      rw [hc] at h; simp only [] at h
      obtain ⟨k, c2, path, off, h1, h2, h3, h4, h5⟩ := ih (idx + 1) h
      refine ⟨k + 1, c2, path, off, by simpa using h1, h2, by rw [h3]; congr 1; omega, h4, ?_⟩
      intro j c' hj hj'
      cases j with
      | zero =>
        have : c = c' := by simpa using hj'
        subst this; exact ⟨e, hc⟩
      | succ j => exact h5 j c' (by omega) (by simpa using hj')

theorem getByAddrLaxChildren_none (l : List Img) (addr idx : Nat) :
    getByAddrLaxChildren l addr idx = none ↔ ∀ c ∈ l, ∃ e, c.getByAddrLax addr = .error e := by
  induction l generalizing idx with
  | nil => simp [getByAddrLaxChildren]
  | cons c cs ih =>
    rw [getByAddrLaxChildren]
    cases hc : c.getByAddrLax addr with
    | ok x =>
      obtain ⟨path, off, d⟩ := x
      simp only []
      constructor
      · intro h; cases h
      · intro h
        obtain ⟨e, he⟩ := h c (by simp)
        rw [hc] at he; cases he
    | error e =>
      simp only []
      rw [ih]
      constructor
      · intro h c' hc'
        rcases List.mem_cons.1 hc' with rfl | hc'
        · exact ⟨e, hc⟩
        · exact h c' hc'
      · intro h c' hc'; exact h c' (List.mem_cons_of_mem _ hc')

/-- soundness of the current search: the result is a descendant reached by the returned path, at the returned
    offset, and the address lies in its INCLUSIVE range `[start, start + len]`.
    Full-strength statement (what the docstring promises, "the image that contains the address"):
      `addr < i.offset + o + d.len`
    does NOT hold for the current code (`>` instead of `>=`), see `getByAddrLax_end_accepted` below; it holds under
    the extra hypothesis that the address is not the end address of the found image (`getByAddrLax_contains_partial`). -/
theorem getByAddrLax_sound (i : Img) : ∀ (addr : Nat) (path : List Nat) (o : Nat) (d : Img),
    i.getByAddrLax addr = .ok (path, o, d) →
    SubAt i o d ∧ atPath path i = some d ∧ pathOffset path i = o ∧
      i.offset + o ≤ addr ∧ addr ≤ i.offset + o + d.len := by
  induction i using Img.induct' with
  | h s o a b p ch ih =>
    intro addr path off d h
    rw [Img.getByAddrLax] at h
    by_cases hlt : addr < o
    · rw [if_pos hlt] at h; cases h
    · rw [if_neg hlt] at h
      cases hch : getByAddrLaxChildren ch (addr - o) 0 with
      | some r =>
        rw [hch] at h; simp only [] at h
        cases h
        obtain ⟨k, c, path', off', h1, h2, h3, h4, _⟩ := getByAddrLaxChildren_some _ _ _ _ hch
        simp only [] at h2 h3 h4
        subst h3 h4
        have hmem := List.mem_of_getElem? h1
        obtain ⟨g1, g2, g3, g4, g5⟩ := ih c hmem _ _ _ _ h2
        refine ⟨.step _ c d off' hmem g1, ?_, ?_, ?_, ?_⟩
        · simp [atPath, Img.children, h1, g2]
        · simp [pathOffset, Img.children, h1, g3]
        · show o + (c.offset + off') ≤ addr; omega
        · show addr ≤ o + (c.offset + off') + d.len; omega
      | none =>
        rw [hch] at h; simp only [] at h
        by_cases hgt : addr > o + (Img.mk s o a b p ch).len
        · rw [if_pos hgt] at h; cases h
        · rw [if_neg hgt] at h
          cases h
          refine ⟨.self _, rfl, rfl, ?_, ?_⟩
          · simp only [Img.offset]; omega
          · simp only [Img.offset]; omega

/-- PARTIAL (hypothesis `hne`: the address is not the end address of the found image): the found image contains
    the address. -/
theorem getByAddrLax_contains_partial (i : Img) (addr : Nat) (path : List Nat) (o : Nat) (d : Img)
    (h : i.getByAddrLax addr = .ok (path, o, d)) (hne : addr ≠ i.offset + o + d.len) :
    i.offset + o ≤ addr ∧ addr < i.offset + o + d.len := by
  obtain ⟨_, _, _, h1, h2⟩ := getByAddrLax_sound i addr path o d h
  omega

/-- completeness: the search fails only for an address outside the inclusive range of the root (and only with
    `SPSDKValueError`) -/
theorem getByAddrLax_error (i : Img) (addr : Nat) (e : PyErr) (h : i.getByAddrLax addr = .error e) :
    e = .spsdk ∧ (addr < i.offset ∨ i.offset + i.len < addr) := by
  cases i with
  | mk s o a b p ch =>
    rw [Img.getByAddrLax] at h
    by_cases hlt : addr < o
    · rw [if_pos hlt] at h; cases h
      exact ⟨rfl, Or.inl hlt⟩
    · rw [if_neg hlt] at h
      cases hch : getByAddrLaxChildren ch (addr - o) 0 with
      | some r => rw [hch] at h; cases h
      | none =>
        rw [hch] at h; simp only [] at h
        by_cases hgt : addr > o + (Img.mk s o a b p ch).len
        · rw [if_pos hgt] at h; cases h
          exact ⟨rfl, Or.inr hgt⟩
        · rw [if_neg hgt] at h; cases h

/-- … and every address inside the inclusive range of the root is answered -/
theorem getByAddrLax_ok_of_range (i : Img) (addr : Nat) (h1 : i.offset ≤ addr) (h2 : addr ≤ i.offset + i.len) :
    ∃ r, i.getByAddrLax addr = .ok r := by
  cases h : i.getByAddrLax addr with
  | ok r => exact ⟨r, rfl⟩
  | error e => have := (getByAddrLax_error i addr e h).2; omega

/-- the defect, inside the model: an address one past the end of an image is accepted.  Here address 4 is the first
    byte of the second child (offset 4), yet the first child (bytes 0..3) is returned; and address 8, one past the
    end of the root, is answered at all. -/
theorem getByAddrLax_end_accepted :
    let r : Img := .mk 8 0 1 none none [.mk 4 0 1 none none [], .mk 4 4 1 none none []]
    (r.getByAddrLax 4).map (fun x => (x.1, x.2.1)) = .ok ([0], 0) ∧
    (r.getByAddr 4).map (fun x => (x.1, x.2.1)) = .ok ([1], 4) ∧
    (r.getByAddrLax 8).map (fun x => (x.1, x.2.1)) = .ok ([1], 4) ∧
    (r.getByAddr 8).map (fun x => (x.1, x.2.1)) = .error .spsdk := by decide

/-- hypotheses of `getByAddrLax_sound` / `getByAddrLax_contains_partial` are satisfiable (a grandchild is found) -/
example :
    let i : Img := .mk 0 2 1 none none [.mk 0 4 1 none none [.mk 0 1 1 (some [7, 8]) none []]]
    (i.getByAddrLax 8).map (fun x => (x.1, x.2.1, x.2.2.len)) = .ok ([0, 0], 5, 2) ∧ 8 ≠ i.offset + 5 + 2 := by
  decide
/-- hypothesis of `getByAddrLax_error` is satisfiable -/
example : ((Img.mk 4 2 1 none none []).getByAddrLax 7).map (fun x => x.1) = .error .spsdk ∧
    ((Img.mk 4 2 1 none none []).getByAddrLax 1).map (fun x => x.1) = .error .spsdk := by decide

/-! ## the current search against the strict one ("the image that contains the address") -/

theorem getByAddrChildren_some (l : List Img) (addr idx : Nat) (r : List Nat × Nat × Img)
    (h : getByAddrChildren l addr idx = some r) :
    ∃ k c path off, l[k]? = some c ∧ c.getByAddr addr = .ok (path, off, r.2.2) ∧
      r.1 = (idx + k) :: path ∧ r.2.1 = c.offset + off ∧
      ∀ j c', j < k → l[j]? = some c' → ∃ e, c'.getByAddr addr = .error e := by
  induction l generalizing idx with
  | nil => simp [getByAddrChildren] at h
  | cons c cs ih =>
    rw [getByAddrChildren] at h
    cases hc : c.getByAddr addr with
    | ok x =>
      obtain ⟨path, off, d⟩ := x
      rw [hc] at h; simp only [] at h
      cases h
      exact ⟨0, c, path, off, by simp, hc, by simp, rfl, by intro j c' hj; omega⟩
    | error e =>
      rw [hc] at h; simp only [] at h
      obtain ⟨k, c2, path, off, h1, h2, h3, h4, h5⟩ := ih (idx + 1) h
      refine ⟨k + 1, c2, path, off, by simpa using h1, h2, by rw [h3]; congr 1; omega, h4, ?_⟩
      intro j c' hj hj'
      cases j with
      | zero =>
        have : c = c' := by simpa using hj'
        subst this; exact ⟨e, hc⟩
      | succ j => exact h5 j c' (by omega) (by simpa using hj')

theorem getByAddrChildren_none (l : List Img) (addr idx : Nat) :
    getByAddrChildren l addr idx = none ↔ ∀ c ∈ l, ∃ e, c.getByAddr addr = .error e := by
  induction l generalizing idx with
  | nil => simp [getByAddrChildren]
  | cons c cs ih =>
    rw [getByAddrChildren]
    cases hc : c.getByAddr addr with
    | ok x =>
      obtain ⟨path, off, d⟩ := x
      simp only []
      constructor
      · intro h; cases h
      · intro h
        obtain ⟨e, he⟩ := h c (by simp)
        rw [hc] at he; cases he
    | error e =>
      simp only []
      rw [ih]
      constructor
      · intro h c' hc'
        rcases List.mem_cons.1 hc' with rfl | hc'
        · exact ⟨e, hc⟩
        · exact h c' hc'
      · intro h c' hc'; exact h c' (List.mem_cons_of_mem _ hc')

theorem getByAddrChildren_first (l : List Img) (addr idx k : Nat) (c : Img) (path : List Nat) (off : Nat)
    (d : Img) (hk : l[k]? = some c) (hc : c.getByAddr addr = .ok (path, off, d))
    (hb : ∀ j c', j < k → l[j]? = some c' → ∃ e, c'.getByAddr addr = .error e) :
    getByAddrChildren l addr idx = some ((idx + k) :: path, c.offset + off, d) := by
  induction l generalizing idx k with
  | nil => simp at hk
  | cons x xs ih =>
    rw [getByAddrChildren]
    cases k with
    | zero =>
      have : x = c := by simpa using hk
      subst this
      rw [hc]; simp
    | succ k =>
      obtain ⟨e, he⟩ := hb 0 x (by omega) (by simp)
      rw [he]; simp only []
      rw [ih (idx + 1) k (by simpa using hk) (fun j c' hj hj' => hb (j + 1) c' (by omega) (by simpa using hj'))]
      have : idx + 1 + k = idx + (k + 1) := by omega
      rw [this]

/-- where the current search refuses, the strict one refuses -/
theorem getByAddr_error_of_error (i : Img) : ∀ (addr : Nat) (e : PyErr),
    i.getByAddrLax addr = .error e → ∃ e', i.getByAddr addr = .error e' := by
  induction i using Img.induct' with
  | h s o a b p ch ih =>
    intro addr e h
    rw [Img.getByAddrLax] at h
    rw [Img.getByAddr]
    by_cases hlt : addr < o
    · rw [if_pos hlt]; exact ⟨_, rfl⟩
    · rw [if_neg hlt] at h ⊢
      cases hch : getByAddrLaxChildren ch (addr - o) 0 with
      | some r => rw [hch] at h; cases h
      | none =>
        rw [hch] at h; simp only [] at h
        have hs : getByAddrChildren ch (addr - o) 0 = none := by
          rw [getByAddrChildren_none]
          intro c hc
          obtain ⟨e1, he1⟩ := (getByAddrLaxChildren_none ch (addr - o) 0).1 hch c hc
          exact ih c hc _ _ he1
        rw [hs]; simp only []
        by_cases hgt : addr > o + (Img.mk s o a b p ch).len
        · rw [if_pos (by omega)]; exact ⟨_, rfl⟩
        · rw [if_neg hgt] at h; cases h

/-- where the current search finds an image that really contains the address, the strict search finds the same -/
theorem getByAddr_of_lt (i : Img) : ∀ (addr : Nat) (path : List Nat) (off : Nat) (d : Img),
    i.getByAddrLax addr = .ok (path, off, d) → addr < i.offset + off + d.len →
    i.getByAddr addr = .ok (path, off, d) := by
  induction i using Img.induct' with
  | h s o a b p ch ih =>
    intro addr path off d h hlt'
    rw [Img.getByAddrLax] at h
    rw [Img.getByAddr]
    by_cases hlt : addr < o
    · rw [if_pos hlt] at h; cases h
    · rw [if_neg hlt] at h ⊢
      cases hch : getByAddrLaxChildren ch (addr - o) 0 with
      | some r =>
        rw [hch] at h; simp only [] at h
        cases h
        obtain ⟨k, c, path', off', h1, h2, h3, h4, h5⟩ := getByAddrLaxChildren_some _ _ _ _ hch
        simp only [] at h2 h3 h4
        subst h3 h4
        have hmem := List.mem_of_getElem? h1
        have hlt2 : addr - o < c.offset + off' + d.len := by
          have : addr < o + (c.offset + off') + d.len := hlt'
          omega
        have hs := ih c hmem _ _ _ _ h2 hlt2
        rw [getByAddrChildren_first ch (addr - o) 0 k c path' off' d h1 hs (fun j c' hj hj' => by
          obtain ⟨e, he⟩ := h5 j c' hj hj'
          exact getByAddr_error_of_error c' _ _ he)]
      | none =>
        rw [hch] at h; simp only [] at h
        have hs : getByAddrChildren ch (addr - o) 0 = none := by
          rw [getByAddrChildren_none]
          intro c hc
          obtain ⟨e1, he1⟩ := (getByAddrLaxChildren_none ch (addr - o) 0).1 hch c hc
          exact getByAddr_error_of_error c _ _ he1
        rw [hs]; simp only []
        by_cases hgt : addr > o + (Img.mk s o a b p ch).len
        · rw [if_pos hgt] at h; cases h
        · rw [if_neg hgt] at h
          cases h
          have : addr < o + 0 + (Img.mk s o a b p ch).len := hlt'
          rw [if_neg (by omega)]

/-- the strict search only returns images that contain the address -/
theorem getByAddr_bounds (i : Img) : ∀ (addr : Nat) (path : List Nat) (off : Nat) (d : Img),
    i.getByAddr addr = .ok (path, off, d) → i.offset + off ≤ addr ∧ addr < i.offset + off + d.len := by
  induction i using Img.induct' with
  | h s o a b p ch ih =>
    intro addr path off d h
    rw [Img.getByAddr] at h
    by_cases hlt : addr < o
    · rw [if_pos hlt] at h; cases h
    · rw [if_neg hlt] at h
      cases hch : getByAddrChildren ch (addr - o) 0 with
      | some r =>
        rw [hch] at h; simp only [] at h
        cases h
        obtain ⟨k, c, path', off', h1, h2, h3, h4, _⟩ := getByAddrChildren_some _ _ _ _ hch
        simp only [] at h2 h3 h4
        subst h3 h4
        obtain ⟨g4, g5⟩ := ih c (List.mem_of_getElem? h1) _ _ _ _ h2
        constructor
        · show o + (c.offset + off') ≤ addr; omega
        · show addr < o + (c.offset + off') + d.len; omega
      | none =>
        rw [hch] at h; simp only [] at h
        by_cases hgt : addr ≥ o + (Img.mk s o a b p ch).len
        · rw [if_pos hgt] at h; cases h
        · rw [if_neg hgt] at h
          cases h
          constructor
          · show o + 0 ≤ addr; omega
          · show addr < o + 0 + (Img.mk s o a b p ch).len; omega

/-- the current result deviates from the strict one exactly when the address is the END address (one past the last
    byte) of the image the current code returns -/
theorem getByAddrLax_strict_iff (i : Img) (addr : Nat) (path : List Nat) (off : Nat) (d : Img)
    (h : i.getByAddrLax addr = .ok (path, off, d)) :
    i.getByAddr addr = .ok (path, off, d) ↔ addr ≠ i.offset + off + d.len := by
  constructor
  · intro hs
    have := (getByAddr_bounds i addr path off d hs).2
    omega
  · intro hne
    obtain ⟨_, _, _, _, h2⟩ := getByAddrLax_sound i addr path off d h
    exact getByAddr_of_lt i addr path off d h (by omega)

/-- hypotheses satisfiable: same answer for 5, different answers for the boundary address 4 -/
example :
    let r : Img := .mk 8 0 1 none none [.mk 4 0 1 none none [], .mk 4 4 1 none none []]
    (r.getByAddrLax 5).map (fun x => (x.1, x.2.1)) = .ok ([1], 4) ∧
    (r.getByAddr 5).map (fun x => (x.1, x.2.1)) = .ok ([1], 4) ∧
    (r.getByAddrLax 4).map (fun x => (x.1, x.2.1, x.2.2.len)) = .ok ([0], 0, 4) ∧ 4 = r.offset + 0 + 4 := by decide
example : ((Img.mk 4 2 1 none none []).getByAddrLax 7).map (fun x => x.1) = .error .spsdk ∧
    ((Img.mk 4 2 1 none none []).getByAddr 7).map (fun x => x.1) = .error .spsdk := by decide

/-! ## the search as it is now (e6ec992): full strength -/

/-- soundness, full strength: the result is a descendant reached by the returned path, at the returned offset, and it
    CONTAINS the address (`start ≤ addr < start + len`) -/
theorem getByAddr_sound (i : Img) : ∀ (addr : Nat) (path : List Nat) (o : Nat) (d : Img),
    i.getByAddr addr = .ok (path, o, d) →
    SubAt i o d ∧ atPath path i = some d ∧ pathOffset path i = o ∧
      i.offset + o ≤ addr ∧ addr < i.offset + o + d.len := by
  induction i using Img.induct' with
  | h s o a b p ch ih =>
    intro addr path off d h
    rw [Img.getByAddr] at h
    by_cases hlt : addr < o
    · rw [if_pos hlt] at h; cases h
    · rw [if_neg hlt] at h
      cases hch : getByAddrChildren ch (addr - o) 0 with
      | some r =>
        rw [hch] at h; simp only [] at h
        cases h
        obtain ⟨k, c, path', off', h1, h2, h3, h4, _⟩ := getByAddrChildren_some _ _ _ _ hch
        simp only [] at h2 h3 h4
        subst h3 h4
        have hmem := List.mem_of_getElem? h1
        obtain ⟨g1, g2, g3, g4, g5⟩ := ih c hmem _ _ _ _ h2
        refine ⟨.step _ c d off' hmem g1, ?_, ?_, ?_, ?_⟩
        · simp [atPath, Img.children, h1, g2]
        · simp [pathOffset, Img.children, h1, g3]
        · show o + (c.offset + off') ≤ addr; omega
        · show addr < o + (c.offset + off') + d.len; omega
      | none =>
        rw [hch] at h; simp only [] at h
        by_cases hgt : addr ≥ o + (Img.mk s o a b p ch).len
        · rw [if_pos hgt] at h; cases h
        · rw [if_neg hgt] at h
          cases h
          refine ⟨.self _, rfl, rfl, ?_, ?_⟩
          · simp only [Img.offset]; omega
          · simp only [Img.offset]; omega

/-- completeness: the search fails only for an address outside the root (`[offset, offset + len)`), and only with
    `SPSDKValueError` -/
theorem getByAddr_error (i : Img) (addr : Nat) (e : PyErr) (h : i.getByAddr addr = .error e) :
    e = .spsdk ∧ (addr < i.offset ∨ i.offset + i.len ≤ addr) := by
  cases i with
  | mk s o a b p ch =>
    rw [Img.getByAddr] at h
    by_cases hlt : addr < o
    · rw [if_pos hlt] at h; cases h
      exact ⟨rfl, Or.inl hlt⟩
    · rw [if_neg hlt] at h
      cases hch : getByAddrChildren ch (addr - o) 0 with
      | some r => rw [hch] at h; cases h
      | none =>
        rw [hch] at h; simp only [] at h
        by_cases hgt : addr ≥ o + (Img.mk s o a b p ch).len
        · rw [if_pos hgt] at h; cases h
          exact ⟨rfl, Or.inr hgt⟩
        · rw [if_neg hgt] at h; cases h

/-- every address inside the root is answered (an address beyond the root can still be answered by a sub-image that
    sticks out of it - `validate()` refuses such trees) -/
theorem getByAddr_ok_of_range (i : Img) (addr : Nat) (h1 : i.offset ≤ addr) (h2 : addr < i.offset + i.len) :
    ∃ r, i.getByAddr addr = .ok r := by
  cases h : i.getByAddr addr with
  | ok r => exact ⟨r, rfl⟩
  | error e => have := (getByAddr_error i addr e h).2; omega

/-- the hypotheses are satisfiable: two adjacent sub-images, every address goes to the one that holds the byte, the end
    address of the root is refused -/
example :
    let r : Img := .mk 8 0 1 none none [.mk 4 0 1 none none [], .mk 4 4 1 none none []]
    (r.getByAddr 3).map (fun x => (x.1, x.2.1)) = .ok ([0], 0) ∧
    (r.getByAddr 4).map (fun x => (x.1, x.2.1)) = .ok ([1], 4) ∧
    (r.getByAddr 8).map (fun x => (x.1, x.2.1)) = .error .spsdk := by decide

/-! ## `find_sub_image` -/

/-- a found index names the first child with that name -/
theorem findSub_some (names : List String) (name : String) (k : Nat) (h : findSub names name = some k) :
    names[k]? = some name ∧ ∀ j, j < k → names[j]? ≠ some name := by
  induction names generalizing k with
  | nil => simp [findSub] at h
  | cons n ns ih =>
    rw [findSub] at h
    by_cases hn : name = n
    · rw [if_pos hn] at h
      cases h
      exact ⟨by simp [hn], by intro j hj; omega⟩
    · rw [if_neg hn] at h
      cases hf : findSub ns name with
      | none => rw [hf] at h; cases h
      | some k' =>
        rw [hf] at h
        simp at h
        subst h
        obtain ⟨h1, h2⟩ := ih k' hf
        refine ⟨by simpa using h1, ?_⟩
        intro j hj
        cases j with
        | zero => simp; exact fun e => hn e.symm
        | succ j => simpa using h2 j (by omega)

/-- the lookup fails (`SPSDKValueError`) exactly when no child has that name -/
theorem findSub_none (names : List String) (name : String) : findSub names name = none ↔ name ∉ names := by
  induction names with
  | nil => simp [findSub]
  | cons n ns ih =>
    rw [findSub]
    by_cases hn : name = n
    · simp [hn]
    · rw [if_neg hn]
      simp [ih, hn]

example : findSub ["a", "b", "c", "b"] "b" = some 1 ∧ findSub ["a", "b"] "z" = none := by decide

/-! ## `update_offsets` / `min_offset` -/

theorem minOffset_none (l : List Img) : minOffset l = none ↔ l = [] := by
  cases l with
  | nil => simp [minOffset]
  | cons c cs =>
    rw [minOffset]
    cases minOffset cs <;> simp

/-- `min_offset` is the least child offset -/
theorem minOffset_some_iff (l : List Img) (m : Nat) :
    minOffset l = some m ↔ (∀ c ∈ l, m ≤ c.offset) ∧ ∃ c ∈ l, c.offset = m := by
  induction l generalizing m with
  | nil => simp [minOffset]
  | cons c cs ih =>
    rw [minOffset]
    cases hm : minOffset cs with
    | none =>
      have : cs = [] := (minOffset_none cs).1 hm
      subst this
      simp only [Option.some.injEq, List.mem_singleton, forall_eq, exists_eq_left]
      constructor
      · intro h; subst h; exact ⟨Nat.le_refl _, rfl⟩
      · intro h; exact h.2
    | some m' =>
      obtain ⟨h1, c1, hc1, hc1'⟩ := (ih m').1 hm
      simp only [Option.some.injEq, List.mem_cons, forall_eq_or_imp, exists_eq_or_imp]
      constructor
      · intro h
        subst h
        refine ⟨⟨Nat.min_le_left _ _, fun x hx => Nat.le_trans (Nat.min_le_right _ _) (h1 x hx)⟩, ?_⟩
        by_cases hle : c.offset ≤ m'
        · exact Or.inl (Nat.min_eq_left hle).symm
        · exact Or.inr ⟨c1, hc1, by rw [hc1']; exact (Nat.min_eq_right (by omega)).symm⟩
      · rintro ⟨⟨g1, g2⟩, g3⟩
        have := g2 c1 hc1
        rcases g3 with g3 | ⟨x, hx, hx'⟩
        · rw [← g3]; apply Nat.min_eq_left; omega
        · have := h1 x hx
          rw [Nat.min_eq_right (by omega)]; omega

theorem len_mk_offset (s o o' a : Nat) (b : Option Bytes) (p : Option Pattern) (ch : List Img) :
    (Img.mk s o a b p ch).len = (Img.mk s o' a b p ch).len := by
  rw [Img.len, Img.len]
theorem validate_withOffset (c : Img) (o : Nat) : (c.withOffset o).validate = c.validate := by
  cases c with
  | mk s o' a b p ch =>
    rw [Img.withOffset, Img.validate, Img.validate, len_mk_offset s o o']
theorem export_withOffset (c : Img) (o : Nat) : (c.withOffset o).export = c.export := by
  cases c with
  | mk s o' a b p ch =>
    rw [Img.withOffset]
    cases b with
    | none =>
      rw [Img.export.eq_2 _ _ _ _ _ _ (by intro b hb; cases hb), Img.export.eq_2 _ _ _ _ _ _ (by intro b hb; cases hb),
        len_mk_offset s o o']
    | some b =>
      cases ch with
      | nil => rw [Img.export, Img.export, len_mk_offset s o o']
      | cons c cs =>
        rw [Img.export.eq_2 _ _ _ _ _ _ (by intro b hb h; cases h), Img.export.eq_2 _ _ _ _ _ _ (by intro b hb h; cases h),
          len_mk_offset s o o']
theorem children_withOffset (c : Img) (o : Nat) : (c.withOffset o).children = c.children := by
  cases c with
  | mk s o' a b p ch => rfl

/-- the offset sum along a path, and the image reached, depend on the children only -/
theorem pathOffset_congr (ks : List Nat) (x y : Img) (h : x.children = y.children) :
    pathOffset ks x = pathOffset ks y := by
  cases ks with
  | nil => rfl
  | cons k ks => simp only [pathOffset, h]

theorem atPath_congr (k : Nat) (ks : List Nat) (x y : Img) (h : x.children = y.children) :
    atPath (k :: ks) x = atPath (k :: ks) y := by
  simp only [atPath, h]

/-- no children: `min([])` raises `ValueError` -/
theorem updateOffsets_error (i : Img) : (∃ e, i.updateOffsets = .error e) ↔ i.children = [] := by
  cases i with
  | mk s o a b p ch =>
    rw [Img.updateOffsets]
    cases hm : minOffset ch with
    | none => simp [Img.children, (minOffset_none ch).1 hm]
    | some m =>
      simp only [Img.children]
      constructor
      · rintro ⟨e, he⟩; cases he
      · intro h; subst h; simp [minOffset] at hm

/-- `update_offsets` with at least one child: succeeds; the own offset grows by the least child offset `m`, every
    child offset shrinks by `m` (so every child keeps its absolute address), nothing else changes (length, export,
    validation result and children of every child); the least child offset becomes 0; the children stay sorted;
    an explicit parent size is kept. -/
theorem updateOffsets_spec (i : Img) (hne : i.children ≠ []) :
    ∃ m j, minOffset i.children = some m ∧ i.updateOffsets = .ok j ∧
      j.offset = i.offset + m ∧ j.size = i.size ∧ j.alignment = i.alignment ∧ j.binary = i.binary ∧
      j.pattern = i.pattern ∧ j.children.length = i.children.length ∧
      (∀ (k : Nat) (c : Img), i.children[k]? = some c → ∃ c' : Img, j.children[k]? = some c' ∧ c'.offset + m = c.offset ∧
        j.offset + c'.offset = i.offset + c.offset ∧ c'.len = c.len ∧ c'.children = c.children ∧
        c'.export = c.export ∧ c'.validate = c.validate) ∧
      minOffset j.children = some 0 ∧
      (i.children.Pairwise (fun x y => x.offset ≤ y.offset) →
        j.children.Pairwise (fun x y => x.offset ≤ y.offset)) ∧
      (i.size ≠ 0 → j.len = i.len) := by
  cases i with
  | mk s o a b p ch =>
    simp only [Img.children] at hne
    cases hm : minOffset ch with
    | none => exact absurd ((minOffset_none ch).1 hm) hne
    | some m =>
      obtain ⟨hmin, cm, hcm, hcm'⟩ := (minOffset_some_iff ch m).1 hm
      refine ⟨m, .mk s (o + m) a b p (ch.map (fun c => c.withOffset (c.offset - m))), hm,
        by rw [Img.updateOffsets, hm], rfl, rfl, rfl, rfl, rfl, by simp [Img.children], ?_, ?_, ?_, ?_⟩
      · intro k c hk
        simp only [Img.children] at hk ⊢
        have hc : c ∈ ch := List.mem_of_getElem? hk
        have := hmin c hc
        refine ⟨c.withOffset (c.offset - m), by simp [hk], ?_, ?_, len_withOffset _ _, children_withOffset _ _,
          export_withOffset _ _, validate_withOffset _ _⟩
        · rw [offset_withOffset]; omega
        · rw [offset_withOffset]; show o + m + (c.offset - m) = o + c.offset; omega
      · simp only [Img.children]
        rw [minOffset_some_iff]
        constructor
        · intro c hc; exact Nat.zero_le _
        · refine ⟨cm.withOffset (cm.offset - m), List.mem_map.2 ⟨cm, hcm, rfl⟩, ?_⟩
          rw [offset_withOffset]; omega
      · simp only [Img.children]
        intro hs
        rw [List.pairwise_map]
        refine hs.imp ?_
        intro x y hxy
        rw [offset_withOffset, offset_withOffset]; omega
      · intro hs
        simp only [Img.size] at hs
        rw [Img.len, Img.len]; simp [hs]

/-- every descendant keeps its absolute address (own offset of the root + offsets along the path) and its
    identity below the first level -/
theorem updateOffsets_abs (i j : Img) (h : i.updateOffsets = .ok j) (k : Nat) (ks : List Nat) (c : Img)
    (hk : i.children[k]? = some c) :
    j.offset + pathOffset (k :: ks) j = i.offset + pathOffset (k :: ks) i ∧
      (ks ≠ [] → atPath (k :: ks) j = atPath (k :: ks) i) := by
  have hne : i.children ≠ [] := by intro h0; rw [h0] at hk; simp at hk
  obtain ⟨m, j', _, hj, _, _, _, _, _, _, hch, _⟩ := updateOffsets_spec i hne
  rw [h] at hj; cases hj
  obtain ⟨c', h1, h2, h3, h4, h5, _⟩ := hch k c hk
  constructor
  · simp only [pathOffset, h1, hk]
    rw [pathOffset_congr ks c' c h5]; omega
  · intro hks
    simp only [atPath, h1, hk]
    cases ks with
    | nil => exact absurd rfl hks
    | cons k2 ks => exact atPath_congr k2 ks c' c h5

example :
    let i : Img := .mk 0 10 1 none none [.mk 2 3 1 none none [], .mk 2 6 1 none none []]
    i.children ≠ [] ∧
    i.updateOffsets.map (fun j => (j.offset, j.children.map (·.offset), j.len)) = .ok (13, [0, 3], 5) ∧
    i.len = 8 := by decide
example : ((Img.mk 4 0 1 none none []).updateOffsets.map (·.offset)) = .error .other := by decide

/-! ## fill patterns (including `rand`, which has no deterministic model) do not influence geometry -/

theorem erasePatList_eq_map (l : List Img) : erasePatList l = l.map Img.erasePat := by
  induction l with
  | nil => rfl
  | cons c cs ih => rw [erasePatList, ih]; rfl

theorem offset_erasePat (i : Img) : i.erasePat.offset = i.offset := by
  cases i with
  | mk s o a b p ch => rw [Img.erasePat]; rfl

theorem childrenEnd_map (f : Img → Img) (l : List Img)
    (h : ∀ c ∈ l, (f c).offset = c.offset ∧ (f c).len = c.len) : childrenEnd (l.map f) = childrenEnd l := by
  induction l with
  | nil => rfl
  | cons c cs ih =>
    rw [List.map_cons, childrenEnd, childrenEnd, (h c (by simp)).1, (h c (by simp)).2,
      ih (fun x hx => h x (List.mem_cons_of_mem _ hx))]

theorem len_mk_map (f : Img → Img) (s o a : Nat) (b : Option Bytes) (p p' : Option Pattern) (ch : List Img)
    (h : ∀ c ∈ ch, (f c).offset = c.offset ∧ (f c).len = c.len) :
    (Img.mk s o a b p' (ch.map f)).len = (Img.mk s o a b p ch).len := by
  rw [Img.len, Img.len, childrenEnd_map f ch h]

theorem len_erasePat (i : Img) : i.erasePat.len = i.len := by
  induction i using Img.induct' with
  | h s o a b p ch ih =>
    rw [Img.erasePat, erasePatList_eq_map]
    exact len_mk_map _ s o a b p none ch (fun c hc => ⟨offset_erasePat c, ih c hc⟩)

theorem validateChildren_map (f : Img → Img) (pl : Nat) (all all' before rest : List Img)
    (h : ∀ c ∈ before ++ rest, (f c).offset = c.offset ∧ (f c).len = c.len)
    (hv : ∀ c ∈ rest, (f c).validate = c.validate) :
    validateChildren pl all' (before.map f) (rest.map f) = validateChildren pl all before rest := by
  induction rest generalizing before with
  | nil => simp [validateChildren]
  | cons c rest ih =>
    have hc := h c (by simp)
    have hgeo : ((before.map f ++ rest.map f).map (fun s => (s.offset, s.len))) =
        ((before ++ rest).map (fun s => (s.offset, s.len))) := by
      rw [← List.map_append, List.map_map]
      apply List.map_congr_left
      intro x hx
      have hx' : x ∈ before ++ c :: rest := by
        rcases List.mem_append.1 hx with hx | hx
        · exact List.mem_append_left _ hx
        · exact List.mem_append_right _ (List.mem_cons_of_mem _ hx)
      have := h x hx'
      simp [this.1, this.2]
    have hrec := ih (before ++ [c]) (by
      intro x hx
      apply h x
      rcases List.mem_append.1 hx with hx | hx
      · rcases List.mem_append.1 hx with hx | hx
        · exact List.mem_append_left _ hx
        · have : x = c := by simpa using hx
          subst this; simp
      · exact List.mem_append_right _ (List.mem_cons_of_mem _ hx))
      (fun x hx => hv x (List.mem_cons_of_mem _ hx))
    simp only [List.map_append, List.map_cons, List.map_nil] at hrec
    rw [List.map_cons, validateChildren, validateChildren, hv c (by simp), hc.1, hc.2, hgeo]
    cases c.validate with
    | error e => rfl
    | ok u => simp only []; rw [hrec]

theorem validate_erasePat (i : Img) : i.erasePat.validate = i.validate := by
  induction i using Img.induct' with
  | h s o a b p ch ih =>
    have hgeo : ∀ c ∈ ch, c.erasePat.offset = c.offset ∧ c.erasePat.len = c.len :=
      fun c _ => ⟨offset_erasePat c, len_erasePat c⟩
    rw [Img.erasePat, erasePatList_eq_map, Img.validate, Img.validate,
      len_mk_map Img.erasePat s o a b p none ch hgeo]
    have := validateChildren_map Img.erasePat (Img.mk s o a b p ch).len ch (ch.map Img.erasePat) [] ch
      (by simpa using hgeo) ih
    simp only [List.map_nil] at this
    rw [this]

/-- two trees that differ only in fill patterns (at any depth) report the same length … -/
theorem len_pattern_indep (i j : Img) (h : i.erasePat = j.erasePat) : i.len = j.len := by
  rw [← len_erasePat i, ← len_erasePat j, h]

/-- … get the same validation verdict (including the class of the first error) … -/
theorem validate_pattern_indep (i j : Img) (h : i.erasePat = j.erasePat) : i.validate = j.validate := by
  rw [← validate_erasePat i, ← validate_erasePat j, h]

theorem ownBuf_length_max (L : Nat) (bin : Option Bytes) (pat : Option Pattern) :
    (ownBuf L bin pat).length = max L (binLen bin) := by
  unfold ownBuf
  cases bin with
  | none => simp [patBlock_length, binLen]
  | some b =>
    by_cases hb : b.isEmpty
    · have : b = [] := by simpa using hb
      subst this
      simp [patBlock_length, binLen]
    · simp [hb, patBlock_length, binLen]; omega

theorem finishExport_length (a : Nat) (p : Option Pattern) (buf b : Bytes)
    (h : finishExport a p (.ok buf) = .ok b) : b.length = alignNat buf.length a := by
  simp only [finishExport] at h
  by_cases ha : a = 0
  · rw [if_pos ha] at h; cases h
  · rw [if_neg ha] at h
    cases h
    have := (alignNat_spec buf.length a (by omega)).2.1
    rw [List.length_append, patBlock_length]; omega

/-- whenever `export()` succeeds the buffer length is `expLen`, a function of the geometry alone -/
theorem export_length_eq (i : Img) (b : Bytes) (h : i.export = .ok b) : b.length = i.expLen := by
  cases i with
  | mk s o a bin p ch =>
    by_cases hc : ∃ b0, bin = some b0 ∧ ch = []
    · obtain ⟨b0, rfl, rfl⟩ := hc
      rw [Img.export] at h
      rw [Img.expLen]
      split at h
      · rename_i hcond
        cases h
        rw [if_pos hcond]
      · rename_i hcond
        rw [if_neg hcond, finishExport_length _ _ _ _ h, ownBuf_length_max]; rfl
    · rw [Img.export.eq_2 _ _ _ _ _ _ (fun b0 hb hch => hc ⟨b0, hb, hch⟩)] at h
      rw [Img.expLen.eq_2 _ _ _ _ _ _ (fun b0 hb hch => hc ⟨b0, hb, hch⟩)]
      cases hp : placeChildren ch (ownBuf (Img.mk s o a bin p ch).len bin p) with
      | error e => rw [hp] at h; simp [finishExport] at h
      | ok buf =>
        rw [hp] at h
        rw [finishExport_length _ _ _ _ h, placeChildren_length _ _ _ hp, ownBuf_length_max]

theorem expLen_erasePat (i : Img) : i.erasePat.expLen = i.expLen := by
  cases i with
  | mk s o a bin p ch =>
    have hL := len_erasePat (Img.mk s o a bin p ch)
    rw [Img.erasePat] at hL ⊢
    by_cases hc : ∃ b0, bin = some b0 ∧ ch = []
    · obtain ⟨b0, rfl, rfl⟩ := hc
      rw [erasePatList] at hL ⊢
      rw [Img.expLen, Img.expLen, hL]
    · have hc' : ∀ b0, bin = some b0 → erasePatList ch = [] → False := by
        intro b0 hb hch
        rw [erasePatList_eq_map, List.map_eq_nil_iff] at hch
        exact hc ⟨b0, hb, hch⟩
      rw [Img.expLen.eq_2 _ _ _ _ _ _ hc', Img.expLen.eq_2 _ _ _ _ _ _ (fun b0 hb hch => hc ⟨b0, hb, hch⟩), hL]

/-- … and, whenever both export (valid or not), buffers of the same length -/
theorem export_length_pattern_indep (i j : Img) (bi bj : Bytes) (h : i.erasePat = j.erasePat)
    (hi : i.export = .ok bi) (hj : j.export = .ok bj) : bi.length = bj.length := by
  rw [export_length_eq i bi hi, export_length_eq j bj hj, ← expLen_erasePat i, ← expLen_erasePat j, h]

/-- the hypotheses are satisfiable by two trees with different patterns at both levels -/
example :
    let i : Img := .mk 0 0 4 (some [1, 2, 3]) (some .ones) [.mk 3 4 1 none (some .inc) []]
    let j : Img := .mk 0 0 4 (some [1, 2, 3]) (some (.num 0x1234)) [.mk 3 4 1 none none []]
    i.export = .ok [1, 2, 3, 0xFF, 0, 1, 2, 0xFF] ∧ j.export = .ok [1, 2, 3, 0x34, 0, 0, 0, 0x34] ∧
      i.len = 8 ∧ j.len = 8 := by decide
example :
    (Img.mk 0 0 4 (some [1, 2, 3]) (some .ones) [.mk 3 4 1 none (some .inc) []]).erasePat =
    (Img.mk 0 0 4 (some [1, 2, 3]) (some (.num 0x1234)) [.mk 3 4 1 none none []]).erasePat := by
  simp [Img.erasePat, erasePatList]

end SpsdkVerif.BinImg
