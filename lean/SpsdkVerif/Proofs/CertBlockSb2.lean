/-
C03 phase 3 — certificate block v1 inside an SB 2.1 file: the loader model of C04 (`Spec/Sb2Rom.lean`, imported read-only,
written independently with its own constants) finds, from the block's own header, the length SPSDK exported and the RKH table of the
keys that were given.
-/
import SpsdkVerif.Proofs.CertBlockRom
import SpsdkVerif.Spec.Sb2Rom

namespace SpsdkVerif.CertBlock
open SpsdkVerif SpsdkVerif.Spec
open SpsdkVerif.Misc hiding Bytes
open SpsdkVerif.Crypto (HashAlg CryptoOps CryptoLaws Bytes)
open SpsdkVerif.Rkht

/-- the table `CertBlockV1.set_root_key_hash` fills from the root keys hashes to the documented fuse value -/
theorem rkhTable_hash_eq_rotkh (c : CryptoOps) (hc : CryptoLaws c) (ks : List Key) (h : KeysOK .certBlock1 ks) (rkh : List Bytes)
    (hrkh : certBlockV1Rkh c ks = .ok rkh) : c.hash .sha256 (pad4 rkh).flatten = Spec.rotkh c .certBlock1 ks := by
  obtain ⟨_, h4, hk⟩ := keysOK_cb1 h
  have hs := setAll_ok c hc ks [] (by simpa using h4) (fun k hk' => (hk k hk').1) (by simp)
  have hm : ks.map (fun k => c.hash .sha256 k.material) = ks.map (keyHash c) := by
    apply List.map_congr_left
    intro k hk'
    simp only [keyHash, hashAlg_rsa (hk k hk').2]
  simp only [List.length_nil, List.nil_append] at hs
  rw [certBlockV1Rkh, hs, hm] at hrkh
  have hrk : rkh = ks.map (keyHash c) := by injection hrkh with e; exact e.symm
  rw [hrk]
  simp [Spec.rotkh, rotkhCa, rotkhV1, rkhTableV1, pad4, List.map_map, Function.comp_def]

/-- the exported block as header fields ‖ certificate entries ‖ RKH table ‖ padding -/
theorem bytesV1_fields (cb : CertBlockV1) (tail : Bytes) :
    bytesV1 cb ++ tail = G.cbV1Signature ++ (leEnc 2 cb.major ++ (leEnc 2 cb.minor ++ (leEnc 4 32 ++ (leEnc 4 cb.flags ++
      (leEnc 4 cb.buildNumber ++ (leEnc 4 cb.imageLength ++ (leEnc 4 cb.certs.length ++
      (leEnc 4 (certTableLength cb.certs) ++ ((cb.certs.map (fun c => leEnc 4 c.length ++ c)).flatten ++
        ((pad4 cb.rkh).flatten ++ (List.replicate (alignNat (bodyV1 cb).length cb.alignment - (bodyV1 cb).length) (0 : UInt8) ++ tail))))))))))) := by
  simp only [bytesV1, bodyV1, List.append_assoc]

theorem splitW_append (w : Nat) (ws : List Nat) (a d : Bytes) (ha : a.length = w) :
    Sb2.Rom.splitW (w :: ws) (a ++ d) = (Sb2.Rom.splitW ws d).map (a :: ·) := by
  simp only [Sb2.Rom.splitW, List.length_append, ha]
  rw [if_neg (by omega), List.drop_left' ha, List.take_left' ha]
  cases Sb2.Rom.splitW ws d <;> rfl

/-- SB 2.1 loader (`Sb2.Rom.certBlockLen`): at the offset where an exported certificate block v1 starts - whatever precedes and follows it -
    the loader computes, from the header alone, exactly the number of bytes SPSDK exported (default alignment 16), and the 128 bytes it
    takes for the RKH table (offset + header size + certificate table length) are the four-slot table of the block -/
theorem sb21_rom_reads_exportV1 (certOk : Bytes → Bool) (cb : CertBlockV1) (wf : WFv1 certOk cb) (ha : cb.alignment = 16)
    (pre rest : Bytes) :
    Sb2.Rom.certBlockLen (pre ++ (bytesV1 cb ++ rest)) pre.length = .ok (bytesV1 cb).length ∧
    Sb2.Rom.slice (pre ++ (bytesV1 cb ++ rest)) (pre.length + Sb2.Rom.Spec.certHeaderSize + certTableLength cb.certs) Sb2.Rom.Spec.rkhTableSize =
      (pad4 cb.rkh).flatten := by
  have hsig : G.cbV1Signature.length = 4 := rfl
  have hpl : (pad4 cb.rkh).flatten.length = 128 := by rw [flatten32 _ (pad4_32 _ wf.rkh), pad4_len _ wf.rkh_len]
  have p32 : (2 : Nat) ^ 32 = 256 ^ 4 := by decide
  have hd : (pre ++ (bytesV1 cb ++ rest)).drop pre.length = bytesV1 cb ++ rest := List.drop_left' rfl
  constructor
  · have hw : Sb2.Rom.Spec.certHeaderWidths = [4, 2, 2, 4, 4, 4, 4, 4, 4] := rfl
    have e1 : Sb2.Rom.Spec.certSignature = G.cbV1Signature := by decide
    have e2 : Sb2.Rom.Spec.certHeaderSize = 32 := rfl
    have e3 : Sb2.Rom.Spec.rkhTableSize = 128 := rfl
    have e4 : leDec (leEnc 4 32) = 32 := by decide
    have hctl : leDec (leEnc 4 (certTableLength cb.certs)) = certTableLength cb.certs := leDec_leEnc 4 _ (by rw [← p32]; exact wf.table)
    unfold Sb2.Rom.certBlockLen
    rw [hd]
    rw [bytesV1_fields, hw, splitW_append 4 _ _ _ hsig, splitW_append 2 _ _ _ (leEnc_len 2 _), splitW_append 2 _ _ _ (leEnc_len 2 _),
      splitW_append 4 _ _ _ (leEnc_len 4 _), splitW_append 4 _ _ _ (leEnc_len 4 _), splitW_append 4 _ _ _ (leEnc_len 4 _),
      splitW_append 4 _ _ _ (leEnc_len 4 _), splitW_append 4 _ _ _ (leEnc_len 4 _), splitW_append 4 _ _ _ (leEnc_len 4 _)]
    simp only [Sb2.Rom.splitW, Option.map_some, e1, e2, e3, e4, hctl, ne_eq, not_true_eq_false, ↓reduceIte]
    have hl := bytesV1_length certOk cb wf
    have hs := alignNat_spec (32 + certTableLength cb.certs + 128) cb.alignment wf.align
    rw [ha] at hl hs
    obtain ⟨hs1, hs2, hs3⟩ := hs
    rw [hl]
    congr 1
  · have e2 : Sb2.Rom.Spec.certHeaderSize = 32 := rfl
    have e3 : Sb2.Rom.Spec.rkhTableSize = 128 := rfl
    have hb : pre ++ (bytesV1 cb ++ rest) =
        (pre ++ (G.cbV1Signature ++ leEnc 2 cb.major ++ leEnc 2 cb.minor ++ leEnc 4 32 ++ leEnc 4 cb.flags ++ leEnc 4 cb.buildNumber ++
          leEnc 4 cb.imageLength ++ leEnc 4 cb.certs.length ++ leEnc 4 (certTableLength cb.certs)) ++
          (cb.certs.map (fun c => leEnc 4 c.length ++ c)).flatten) ++
        ((pad4 cb.rkh).flatten ++ (List.replicate (alignNat (bodyV1 cb).length cb.alignment - (bodyV1 cb).length) (0 : UInt8) ++ rest)) := by
      rw [bytesV1_fields]; simp only [List.append_assoc]
    rw [Sb2.Rom.slice, hb, e2, e3]
    rw [List.drop_left' (by simp only [List.length_append, leEnc_len, hsig, certsBytes_len])]
    exact List.take_left' hpl

end SpsdkVerif.CertBlock
