/-
C18 (phase 2) — the program TEXT of the model, as an ordered listing of cache actions.

`tools/extract/gen_C18.py` lists, for the three functions of `spsdk/utils/database.py` that (un)pickle a cache,
every cache action in source order with its lock scope, the branch conditions around it and the handler classes of
the enclosing `try` bodies (`Generated/CachePrograms.lean`).  Here the same listing is written down by hand as the
canonical text of the model's action programs (`Model/DbCache.lean`: `pstep`), as a function of the guards —
the optional parts of the programs are exactly the guard flags.  `Properties/C18.lean` decides
`generated listing = canonical listing (generated guards)`: an action that is reordered, added, dropped, moved out of
its lock / try / branch makes the obligation fail even if every flag of `CacheGuards` stays what it was, while the
variants the theorems cover (temp file + rename, no type check, read outside the lock, exists-guarded handler …)
remain canonical.

Correspondence pc ↔ listing item (quick-info cache / config cache):
  lExists = `exists`, lAcquire = `acquire`, lOpen = `open_r`, lUnpickle = `load`, lRelease = `release`,
  `loaderChecks` = `typecheck`, `fpcompare`, then `return_loaded` / `set_fp` (trusted) or `clear_loaded`, `remove`
  (lRemoveStale); `loaderRaise` = the `handler` items (`clear_loaded`, [`exists` = hExists], `remove` = hRemove);
  `finishLoader` = `use_loaded`; wAcquire = `acquire` (after `exists_dir`/`makedirs`/`set_fp`), wExists = `exists`,
  wOpenR = `open_r`, wUnpickle = `load` + `typecheck` + `merge_compare` + `merge` + `set_fp`, wTrunc = `open_w`
  (`open_tmp`), wWrite = `dump` (`replace`), wRelease = `release`, `writerRaise` = `clear_fp`.
-/
import SpsdkVerif.Model.DbCache

namespace SpsdkVerif.DbCache.Program
open SpsdkVerif

def it (act : String) (inLock : Bool) (path : List String) (caught : List (List Exc)) : ProgItem :=
  { act := act, inLock := inLock, path := path, caught := caught }

def typecheck (e : Exc) (inLock : Bool) (path : List String) (caught : List (List Exc)) : ProgItem :=
  { act := "typecheck", inLock := inLock, path := path, caught := caught, exc := [e] }

def opt {α} (b : Bool) (l : List α) : List α := if b then l else []

/-- the load of a loader: `[acquire] open_r load [release]` under path `P` inside the try catching `C` -/
def readItems (lockRead : Bool) (P : List String) (C : List (List Exc)) : List ProgItem :=
  opt lockRead [it "acquire" false P C] ++
  [it "open_r" lockRead P C, it "load" lockRead P C] ++
  opt lockRead [it "release" true P C]

/-- what the `except` handler of a loader does about the file -/
def handlerRemoveItems (L : LoaderGuards) (H : List String) : List ProgItem :=
  let tol : List (List Exc) := if L.handlerRemoveTolerates.isEmpty then [] else [L.handlerRemoveTolerates]
  opt L.handlerRemoves
    (if L.handlerExistsGuard then [it "exists" false H [], it "remove" false (H ++ ["exists"]) tol]
     else [it "remove" false H tol])

/-- the store: `[acquire] (open_w dump | open_tmp dump replace) [release]` -/
def storeItems (W : WriterGuards) (B : List String) (C : List (List Exc)) : List ProgItem :=
  (if W.atomicWrite then [it "open_tmp" W.lockWrite B C, it "dump" W.lockWrite B C, it "replace" W.lockWrite B C]
   else [it "open_w" W.lockWrite B C, it "dump" W.lockWrite B C]) ++
  opt W.lockWrite [it "release" true B C]

/-- `DatabaseManager._get_quick_info_db`: load-or-build-and-store in one function -/
def quick (G : Guards) : List ProgItem :=
  let L := G.l
  let W := G.w
  let P : List String := opt L.existsGuard ["exists"]
  let C : List (List Exc) := [L.caught]
  let CW : List (List Exc) := if W.allInTry then [W.caught] else []
  opt L.existsGuard [it "exists" false [] []] ++
  readItems L.lockRead P C ++
  opt L.typeChecked [typecheck L.typeExc false P (if L.typeCheckInTry then C else [])] ++
  opt L.fpChecked [it "fpcompare" false P C] ++
  [it "return_loaded" false (P ++ opt L.fpChecked ["match"]) C] ++   -- trusted: the loaded object is the answer
  opt L.removeStale [it "remove" false (P ++ ["mismatch"]) C] ++
  handlerRemoveItems L (P ++ ["handler"]) ++
  [it "set_fp" false [] []] ++                                       -- full load done; fingerprint into the new object
  [it "makedirs" false [] CW] ++
  opt W.lockWrite [it "acquire" false [] CW] ++
  storeItems W [] CW

/-- `DatabaseData.__init__` -/
def configLoader (L : LoaderGuards) : List ProgItem :=
  let B : List String := []
  let P : List String := B ++ opt L.existsGuard ["exists"]
  let C : List (List Exc) := [L.caught]
  let H := P ++ ["handler"]
  [it "clear_loaded" false [] [], it "clear_fp" false [] []] ++
  opt L.existsGuard [it "exists" false B []] ++
  readItems L.lockRead P C ++
  opt L.typeChecked [typecheck L.typeExc false P (if L.typeCheckInTry then C else [])] ++
  opt L.fpChecked
    ([it "fpcompare" false P C] ++
     [it "set_fp" false (P ++ ["match"]) C] ++
     opt L.staleClearsLoaded [it "clear_loaded" false (P ++ ["mismatch"]) C] ++
     opt L.removeStale [it "remove" false (P ++ ["mismatch"]) C]) ++
  opt L.handlerClearsLoaded [it "clear_loaded" false H []] ++
  handlerRemoveItems L H ++
  [it "use_loaded" false [] [], it "use_loaded" false [] []]          -- cfg_cache and defaults come from the loaded object

/-- `DatabaseData.make_cache` -/
def configWriter (W : WriterGuards) : List ProgItem :=
  let B : List String := []
  let C : List (List Exc) := if W.allInTry then [W.caught] else []
  let P : List String := B ++ opt W.mergeExistsGuard ["exists"]
  let k := W.lockWrite
  [it "exists_dir" false B C, it "makedirs" false (B ++ ["!exists_dir"]) C, it "set_fp" false B C] ++
  opt W.lockWrite [it "acquire" false B C] ++
  opt W.mergesExisting
    (opt W.mergeExistsGuard [it "exists" k B C] ++
     [it "open_r" k P C, it "load" k P C] ++
     opt W.mergeTypeChecked [typecheck W.mergeTypeExc k P C] ++
     [it "merge_compare" k P C, it "merge" k (P ++ ["differs"]) C, it "set_fp" k P C]) ++
  storeItems W B C ++
  [it "clear_fp" false (B ++ ["handler"]) []]

end SpsdkVerif.DbCache.Program
