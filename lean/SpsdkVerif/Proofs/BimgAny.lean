/-
C14 proofs, part 3: which trial of `BootableImage.parse` wins - with a memory type (`parseAll`) and without (`parseAny`).
Uses `bimgP_trial` (Proofs/BimgParse.lean): the trial with the init offset an image was exported with accepts it.
-/
import SpsdkVerif.Model.Bimg
import SpsdkVerif.Model.BimgSpec
import SpsdkVerif.Proofs.BimgParse

namespace SpsdkVerif.Bimg
open SpsdkVerif SpsdkVerif.Misc SpsdkVerif.BinImg SpsdkVerif.Generated

theorem bimgA_firstSome_append {α β} (f : α → Option β) (l r : List α) :
    firstSome f (l ++ r) = (match firstSome f l with | some y => some y | none => firstSome f r) := by
  induction l with
  | nil => simp [firstSome]
  | cons c t ih =>
    simp only [List.cons_append, firstSome]
    cases f c with
    | some y => rfl
    | none => exact ih

/-- `parse` answers the first trial that accepts, in the order: full image, then the init candidates -/
theorem parseAll_first' (ext : Ext) (fcbSup : Bool) (segs : List Seg) (bin : Bytes) :
    parseAll ext fcbSup segs bin =
      (match firstSome (trial ext fcbSup segs bin) (0 :: initCandidates segs) with
       | some r => .ok r
       | none => .error .spsdk) := by
  unfold parseAll
  simp only [firstSome]
  cases trial ext fcbSup segs bin 0 with
  | some r => rfl
  | none => rfl

/-- the precise condition of a mis-detection: the image that starts at `init` is answered differently exactly when one of
    the trials that come first (full image, init candidates before `init`) accepts it with another answer -/
theorem parseAll_misdetects_iff' (ext : Ext) (fcbSup : Bool) (d : Desc) (init : Nat) (raws : List (Option Bytes))
    (h : Ctx d init raws) (hsup : Supplied init (mkSlots d.segs raws)) (hdel : Delimit ext fcbSup init (mkSlots d.segs raws))
    (b : Bytes) (hb : exportImg d init raws = .ok b)
    (pre post : List Int) (hc : initCandidates d.segs = pre ++ (init : Int) :: post) :
    parseAll ext fcbSup d.segs b ≠ .ok (init, expectedFound init (mkSlots d.segs raws)) ↔
      ∃ r, firstSome (trial ext fcbSup d.segs b) (0 :: pre) = some r ∧ r ≠ (init, expectedFound init (mkSlots d.segs raws)) := by
  have ht := bimgP_trial ext fcbSup d init raws h hsup hdel b hb
  rw [parseAll_first', hc]
  have hsplit : (0 : Int) :: (pre ++ (init : Int) :: post) = (0 :: pre) ++ ((init : Int) :: post) := by simp
  rw [hsplit, bimgA_firstSome_append]
  cases hf : firstSome (trial ext fcbSup d.segs b) (0 :: pre) with
  | some r =>
    simp only []
    constructor
    · intro hne
      exact ⟨r, rfl, fun he => hne (by rw [he])⟩
    · rintro ⟨r', hr', hne⟩ he
      cases hr'
      exact hne (by injection he)
  | none =>
    simp only [firstSome, ht]
    constructor
    · intro hne; exact absurd rfl hne
    · rintro ⟨r, hr, _⟩; cases hr

/-! ### without memory type -/

theorem bimgA_firstSomeIdx_some {α β} (f : α → Option β) (l : List α) (k i : Nat) (y : β)
    (h : firstSomeIdx f l k = some (i, y)) :
    k ≤ i ∧ ∃ x, l[i - k]? = some x ∧ f x = some y ∧ ∀ j, j < i - k → ∀ z, l[j]? = some z → f z = none := by
  induction l generalizing k with
  | nil => simp [firstSomeIdx] at h
  | cons x t ih =>
    simp only [firstSomeIdx] at h
    cases hx : f x with
    | some y' =>
      rw [hx] at h
      simp only [Option.some.injEq, Prod.mk.injEq] at h
      obtain ⟨rfl, rfl⟩ := h
      refine ⟨Nat.le_refl _, x, by simp, hx, ?_⟩
      intro j hj; omega
    | none =>
      rw [hx] at h
      obtain ⟨hk, z, hz, hfz, hall⟩ := ih (k + 1) h
      refine ⟨by omega, z, ?_, hfz, ?_⟩
      · have : i - k = (i - (k + 1)) + 1 := by omega
        rw [this, List.getElem?_cons_succ]; exact hz
      · intro j hj w hw
        cases j with
        | zero => simp at hw; cases hw; exact hx
        | succ j' =>
          rw [List.getElem?_cons_succ] at hw
          exact hall j' (by omega) w hw

theorem bimgA_firstSomeIdx_exists {α β} (f : α → Option β) (l : List α) (k n : Nat) (x : α) (y : β)
    (hx : l[n]? = some x) (hy : f x = some y) : ∃ i r, firstSomeIdx f l k = some (i, r) ∧ i ≤ k + n := by
  induction l generalizing k n with
  | nil => simp at hx
  | cons c t ih =>
    simp only [firstSomeIdx]
    cases hc : f c with
    | some r => exact ⟨k, r, rfl, by omega⟩
    | none =>
      cases n with
      | zero => simp at hx; cases hx; rw [hy] at hc; cases hc
      | succ n' =>
        rw [List.getElem?_cons_succ] at hx
        obtain ⟨i, r, hir, hle⟩ := ih (k + 1) n' hx
        exact ⟨i, r, hir, by omega⟩

/-- `parse` without memory type answers the first memory type (database order) whose full-image trial accepts -/
theorem parseAny_first_loop' (ext : Ext) (fcbSup : Bool) (descs : List (List Seg)) (bin : Bytes) (i : Nat) (r : Nat × List Found)
    (h : firstSomeIdx (fun segs => trial ext fcbSup segs bin 0) descs 0 = some (i, r)) :
    parseAny ext fcbSup descs bin = .ok (i, r.1, r.2) := by
  unfold parseAny
  rw [h]

/-- a full image made for the `i`-th memory type of the family: if every earlier memory type either has the same segment
    table or rejects the image in its full-image trial, `parse` without memory type answers a memory type with the same
    segment table (the `i`-th or an earlier twin), init offset 0 and exactly the supplied segments -/
theorem parseAny_full' (ext : Ext) (fcbSup : Bool) (descs : List (List Seg)) (i : Nat) (d : Desc) (raws : List (Option Bytes))
    (hi : descs[i]? = some d.segs)
    (h : Ctx d 0 raws) (hsup : Supplied 0 (mkSlots d.segs raws)) (hdel : Delimit ext fcbSup 0 (mkSlots d.segs raws))
    (b : Bytes) (hb : exportImg d 0 raws = .ok b)
    (hearlier : ∀ j, j < i → ∀ s, descs[j]? = some s → s = d.segs ∨ trial ext fcbSup s b 0 = none) :
    ∃ j, j ≤ i ∧ descs[j]? = some d.segs ∧
      parseAny ext fcbSup descs b = .ok (j, 0, expectedFound 0 (mkSlots d.segs raws)) := by
  have ht : trial ext fcbSup d.segs b 0 = some (0, expectedFound 0 (mkSlots d.segs raws)) := by
    have := bimgP_trial ext fcbSup d 0 raws h hsup hdel b hb
    simpa using this
  obtain ⟨j, r, hjr, hle⟩ := bimgA_firstSomeIdx_exists (fun segs => trial ext fcbSup segs b 0) descs 0 i d.segs _ hi ht
  obtain ⟨_, x, hx, hfx, _⟩ := bimgA_firstSomeIdx_some _ descs 0 j r hjr
  simp only [Nat.sub_zero] at hx
  have hji : j ≤ i := by omega
  have hxd : x = d.segs := by
    rcases Nat.lt_or_ge j i with hlt | hge
    · rcases hearlier j hlt x hx with he | he
      · exact he
      · rw [he] at hfx; cases hfx
    · have : j = i := by omega
      subst this
      rw [hi] at hx; cases hx; rfl
  subst hxd
  rw [ht] at hfx
  cases hfx
  exact ⟨j, hji, hx, parseAny_first_loop' ext fcbSup descs b j _ hjr⟩

/-- the exact selection for a full image made for the `i`-th memory type, without any assumption on the other memory types:
    the answer is the FIRST memory type in database order whose full-image trial accepts; it is never later than the own one,
    and when it has the own segment table the answer is init offset 0 and exactly the supplied segments -/
theorem parseAny_selects' (ext : Ext) (fcbSup : Bool) (descs : List (List Seg)) (i : Nat) (d : Desc) (raws : List (Option Bytes))
    (hi : descs[i]? = some d.segs)
    (h : Ctx d 0 raws) (hsup : Supplied 0 (mkSlots d.segs raws)) (hdel : Delimit ext fcbSup 0 (mkSlots d.segs raws))
    (b : Bytes) (hb : exportImg d 0 raws = .ok b) :
    ∃ j sj r, j ≤ i ∧ descs[j]? = some sj ∧
      (∀ k, k < j → ∀ s, descs[k]? = some s → trial ext fcbSup s b 0 = none) ∧
      trial ext fcbSup sj b 0 = some r ∧ parseAny ext fcbSup descs b = .ok (j, r.1, r.2) ∧
      (sj = d.segs → r = (0, expectedFound 0 (mkSlots d.segs raws))) := by
  have ht : trial ext fcbSup d.segs b 0 = some (0, expectedFound 0 (mkSlots d.segs raws)) := by
    have := bimgP_trial ext fcbSup d 0 raws h hsup hdel b hb
    simpa using this
  obtain ⟨j, r, hjr, hle⟩ := bimgA_firstSomeIdx_exists (fun segs => trial ext fcbSup segs b 0) descs 0 i d.segs _ hi ht
  obtain ⟨_, x, hx, hfx, hall⟩ := bimgA_firstSomeIdx_some _ descs 0 j r hjr
  simp only [Nat.sub_zero] at hx hall
  refine ⟨j, x, r, by omega, hx, hall, hfx, parseAny_first_loop' ext fcbSup descs b j _ hjr, ?_⟩
  intro hxd
  subst hxd
  rw [ht] at hfx
  cases hfx
  rfl

/-- … hence the answer is NOT (a memory type with the own segment table, init offset 0, the supplied segments) exactly when
    the first memory type whose full-image trial accepts the image comes before the own one and has ANOTHER segment table -/
theorem parseAny_ambiguous_iff' (ext : Ext) (fcbSup : Bool) (descs : List (List Seg)) (i : Nat) (d : Desc) (raws : List (Option Bytes))
    (hi : descs[i]? = some d.segs)
    (h : Ctx d 0 raws) (hsup : Supplied 0 (mkSlots d.segs raws)) (hdel : Delimit ext fcbSup 0 (mkSlots d.segs raws))
    (b : Bytes) (hb : exportImg d 0 raws = .ok b) :
    (¬ ∃ j, descs[j]? = some d.segs ∧
        parseAny ext fcbSup descs b = .ok (j, 0, expectedFound 0 (mkSlots d.segs raws))) ↔
    ∃ k s, k < i ∧ descs[k]? = some s ∧ s ≠ d.segs ∧ (trial ext fcbSup s b 0).isSome = true ∧
      ∀ k', k' < k → ∀ s', descs[k']? = some s' → trial ext fcbSup s' b 0 = none := by
  obtain ⟨j, sj, r, hji, hj, hall, hr, hp, hown⟩ := parseAny_selects' ext fcbSup descs i d raws hi h hsup hdel b hb
  constructor
  · intro hno
    have hne : sj ≠ d.segs := by
      intro e
      have hr' := hown e
      subst hr'
      subst e
      exact hno ⟨j, hj, hp⟩
    have hlt : j < i := by
      rcases Nat.lt_or_ge j i with hlt | hge
      · exact hlt
      · have : j = i := by omega
        subst this
        rw [hi] at hj
        cases hj
        exact absurd rfl hne
    exact ⟨j, sj, hlt, hj, hne, by rw [hr]; rfl, hall⟩
  · rintro ⟨k, s, hki, hk, hne, hacc, hbefore⟩ ⟨j', hj', hp'⟩
    rw [hp] at hp'
    simp only [Except.ok.injEq, Prod.mk.injEq] at hp'
    obtain ⟨hjj, _, _⟩ := hp'
    subst hjj
    -- the first acceptor is unique: j = k
    rcases Nat.lt_trichotomy j k with hlt | heq | hgt
    · have := hbefore j hlt sj hj
      rw [this] at hr; cases hr
    · subst heq
      rw [hk] at hj'
      cases hj'
      exact hne rfl
    · have := hall k hgt s hk
      rw [this] at hacc; cases hacc


end SpsdkVerif.Bimg
