/-
C13 — OTFAD through SB2.1 (`SB21Helper._encrypt` / `_keywrap`) and the `KeyBlob` constructor.
-/
import SpsdkVerif.Proofs.FlashEncOtfad
import SpsdkVerif.Proofs.FlashEncKeyBlob

namespace SpsdkVerif.FlashEnc
open SpsdkVerif SpsdkVerif.Crypto
open SpsdkVerif.Misc (beEnc beDec leEnc leDec)
open SpsdkVerif.Generated.FlashEncConsts

variable {c : CryptoOps}

/-! ### the constructor -/

theorem sb21_ctorOk_of_wf (kb : KeyBlob) (h : kb.WF) : kb.ctorOk = true := by
  have := h.flags_lt
  have := h.end_lt
  simp [KeyBlob.ctorOk, h.key_len, h.ctr_len, h.range, h.start_al, otfadKeySize, otfadCtrSize, otfadKeyFlagMask,
    otfadStartAddrMask]
  omega

theorem sb21_wf_of_ctorOk (kb : KeyBlob) (h : kb.ctorOk = true) (he : kb.end_ = 0 → kb.flags = 0) : kb.WF := by
  simp only [KeyBlob.ctorOk, otfadKeySize, otfadCtrSize, otfadKeyFlagMask, otfadStartAddrMask, Bool.and_eq_true,
    decide_eq_true_eq, beq_iff_eq, Bool.not_eq_true', Bool.or_eq_false_iff, bne_eq_false_iff_eq] at h
  obtain ⟨⟨⟨⟨⟨hk, hc⟩, h1⟩, h2⟩, h3⟩, h4⟩ := h
  exact ⟨hk, hc, by omega, h1, by omega, by omega, he⟩

/-! ### `encrypt` -/

theorem sb21_and3 (e : Nat) : e &&& 3 = e % 4 := Nat.and_two_pow_sub_one_eq_mod e 2

theorem sb21_and_flags (e : Nat) : (e &&& otfadFlagADE ≠ 0 ∧ e &&& otfadFlagVLD ≠ 0) ↔ e % 4 = 3 := by
  have h1 : e &&& 1 = e % 2 := Nat.and_one_is_mod e
  have hb : (e &&& 2).testBit 1 = e.testBit 1 := by
    have h21 : Nat.testBit 2 1 = true := by decide
    rw [Nat.testBit_and, h21, Bool.and_true]
  have ht : e.testBit 1 = decide (e / 2 % 2 = 1) := by
    rw [Nat.testBit_eq_decide_div_mod_eq]
  have h2 : e &&& 2 ≠ 0 ↔ e / 2 % 2 = 1 := by
    constructor
    · intro hne
      by_cases hd : e / 2 % 2 = 1
      · exact hd
      · exfalso
        apply hne
        apply Nat.eq_of_testBit_eq
        intro i
        rw [Nat.testBit_and, Nat.zero_testBit]
        by_cases hi : i = 1
        · subst hi; rw [ht]; simp [hd]
        · have : (2 : Nat).testBit i = false := by
            have := Nat.testBit_two_pow_of_ne (n := 1) (m := i) (by omega)
            simpa using this
          simp [this]
    · intro hd h0
      rw [h0] at hb
      rw [ht] at hb
      simp [hd] at hb
  simp only [otfadFlagADE, otfadFlagVLD, h1, h2]
  omega

/-- the flags exported by `keywrap` make the blob "encrypting" exactly when `encrypt` encrypts -/
theorem sb21_kw_isEncrypted (s e : Nat) (k ct : Bytes) :
    (Sb21.blob s e k ct (e &&& otfadKeyFlagMask)).isEncrypted = decide (e % 4 = 3) := by
  have h7 : (e &&& 7) &&& 3 = e % 4 := by
    rw [Nat.and_assoc]; exact sb21_and3 e
  simp only [Sb21.blob, KeyBlob.isEncrypted, otfadFlagADE, otfadFlagVLD, otfadKeyFlagMask]
  have : (2 ||| 1 : Nat) = 3 := by decide
  rw [this, h7]
  by_cases h : e % 4 = 3 <;> simp [h]

theorem sb21_containsAddr_flags (s e : Nat) (k ct : Bytes) (f g : Nat) (a : Nat) :
    (Sb21.blob s e k ct f).containsAddr a = (Sb21.blob s e k ct g).containsAddr a := rfl

theorem sb21_encBlocks_flags (s e : Nat) (k ct : Bytes) (f g : Nat) (swap : Bool) :
    ∀ (n cv : Nat) (d : Bytes), (Sb21.blob s e k ct f).encBlocks c swap n cv d = (Sb21.blob s e k ct g).encBlocks c swap n cv d
  | 0, _, _ => rfl
  | n + 1, cv, d => by
    simp only [KeyBlob.encBlocks]
    rw [sb21_encBlocks_flags s e k ct f g swap n]
    rfl

/-- the blob `keywrap` exports / the blob `encrypt` builds -/
abbrev sb21K (s e : Nat) (k ct : Bytes) : KeyBlob := Sb21.blob s e k ct (e &&& otfadKeyFlagMask)
abbrev sb21E (s e : Nat) (k ct : Bytes) : KeyBlob := Sb21.blob s e k ct (otfadFlagVLD ||| otfadFlagADE)

/-- all the proofs need to know about the padding unit of `_encrypt` (512 in the source): a positive multiple of 16 -/
theorem sb21_align_ok : sb21EncryptAlign % 16 = 0 ∧ 0 < sb21EncryptAlign := by decide

theorem sb21_zeroPad_len (d : Bytes) : (zeroPad sb21EncryptAlign d).length % 16 = 0 := by
  have h1 := zeroPad_length_mod sb21EncryptAlign sb21_align_ok.2 d
  have h2 := sb21_align_ok.1
  generalize sb21EncryptAlign = n at *
  generalize (zeroPad n d).length = l at *
  have : l % 16 = l % n % 16 := (Nat.mod_mod_of_dvd l (Nat.dvd_of_mod_eq_zero h2)).symm
  omega

/-- SB2.1 `encrypt (id) { load data > address; }` followed by `keywrap (id)`: the engine programmed with the context of
    the WRAPPED blob (flags = low bits of `end`) reads the data back at the LOAD address — for every 16-byte aligned load
    address whose padded data fit the blob's window, whether the `end` value enables decryption or not -/
theorem sb21_encrypt_inverts (h : CryptoLaws c) (start end_ : Nat) (key ctr : Bytes) (swap : Bool)
    (address : Nat) (data : Bytes) (hwf : (Sb21.blob start end_ key ctr (end_ &&& otfadKeyFlagMask)).WF)
    (ha16 : address % 16 = 0) (hne : 0 < data.length)
    (hfit : Sb21.fits (Sb21.blob start end_ key ctr (end_ &&& otfadKeyFlagMask)) address
      (zeroPad sb21EncryptAlign data).length) :
    ∃ ct, Sb21.encrypt c start end_ key ctr swap address data = .ok ct ∧
      (otfadHwReadAll c [(Sb21.blob start end_ key ctr (end_ &&& otfadKeyFlagMask)).ctx] swap address ct).take data.length
        = data := by
  have hwf1 : ∀ kb ∈ [(sb21K start end_ key ctr)], kb.WF := by
    intro kb hkb'; simp at hkb'; subst hkb'; exact hwf
  have hd1 : BlobsDisjoint [(sb21K start end_ key ctr)] := by simp [BlobsDisjoint]
  by_cases hfl : end_ % 4 = 3
  · -- encrypted with the counter bound to the load address
    have hEwf : (sb21E start end_ key ctr).WF := ⟨hwf.key_len, hwf.ctr_len, hwf.start_al, hwf.range, hwf.end_lt, (by show (otfadFlagVLD ||| otfadFlagADE) < 8; decide),
      fun h0 => by have : end_ = 0 := h0; omega⟩
    have hm16 := sb21_zeroPad_len data
    have hle : data.length ≤ (zeroPad sb21EncryptAlign data).length := by rw [zeroPad_length]; omega
    have hpad : zeroPad 16 (zeroPad sb21EncryptAlign data) = zeroPad sb21EncryptAlign data :=
      zeroPad_of_aligned 16 _ hm16
    have hb0 : 0 < blocksFor (zeroPad sb21EncryptAlign data).length := by simp only [blocksFor]; omega
    have hcE : (sb21E start end_ key ctr).containsAddr address = true := by
      have := hfit 0 hb0
      simp only [Nat.mul_zero, Nat.add_zero] at this
      exact this
    have henc : Sb21.encrypt c start end_ key ctr swap address data =
        .ok ((sb21K start end_ key ctr).encBlocks c swap (blocksFor (zeroPad sb21EncryptAlign data).length) address
          (zeroPad 16 (zeroPad sb21EncryptAlign data))) := by
      have := otfad_kb_encryptImage (c := c) (sb21E start end_ key ctr) hEwf address ha16 hcE (zeroPad sb21EncryptAlign data) swap
      have hcond : end_ &&& otfadFlagADE ≠ 0 ∧ end_ &&& otfadFlagVLD ≠ 0 := (sb21_and_flags end_).mpr hfl
      simp only [Sb21.encrypt, sb21_ctorOk_of_wf _ hEwf, Bool.not_true, Bool.false_eq_true, if_false]
      rw [if_pos hcond, this]
      exact congrArg _ (sb21_encBlocks_flags start end_ key ctr _ _ swap _ _ _)
    have hKe : (sb21K start end_ key ctr).isEncrypted = true := by
      have := sb21_kw_isEncrypted start end_ key ctr
      simp only [hfl, decide_true] at this
      exact this
    have hact : ∀ j, j < blocksFor (zeroPad sb21EncryptAlign data).length →
        otfadActive [(sb21K start end_ key ctr)] (address + 16 * j) = some (sb21K start end_ key ctr) := by
      intro j hj
      simp [otfadActive, hfit j hj, hKe]
    refine ⟨_, henc, ?_⟩
    rw [otfad_encBlocks_spec [(sb21K start end_ key ctr)] swap (sb21K start end_ key ctr) _ address (zeroPad sb21EncryptAlign data) rfl hact]
    have hhw := otfad_spec_hw h [(sb21K start end_ key ctr)] hwf1 hd1 address ha16 (zeroPad sb21EncryptAlign data) swap
    simp only [List.map_cons, List.map_nil] at hhw
    have : (otfadHwReadAll c [(sb21K start end_ key ctr).ctx] swap address
        (otfadSpec c [(sb21K start end_ key ctr)] swap (blocksFor (zeroPad sb21EncryptAlign data).length) address
          (zeroPad sb21EncryptAlign data))).take data.length =
        ((otfadHwReadAll c [(sb21K start end_ key ctr).ctx] swap address
          (otfadSpecImage c [(sb21K start end_ key ctr)] swap address (zeroPad sb21EncryptAlign data))).take
            (zeroPad sb21EncryptAlign data).length).take data.length := by
      rw [List.take_take, Nat.min_eq_left hle]; rfl
    rw [this, hhw, zeroPad_take_self]
  · -- left plain; the wrapped context is not (VLD and ADE): the engine passes the data through
    have hEok : (sb21E start end_ key ctr).ctorOk = true := by
      have := sb21_ctorOk_of_wf _ hwf
      simp only [KeyBlob.ctorOk, Sb21.blob, sb21E, otfadFlagVLD, otfadFlagADE, otfadKeyFlagMask] at this ⊢
      simp only [Bool.and_eq_true] at this ⊢
      exact ⟨⟨this.1.1, by decide⟩, this.2⟩
    have henc : Sb21.encrypt c start end_ key ctr swap address data = .ok data := by
      have hn : ¬ (end_ &&& otfadFlagADE ≠ 0 ∧ end_ &&& otfadFlagVLD ≠ 0) := fun hh => hfl ((sb21_and_flags end_).mp hh)
      simp only [Sb21.encrypt, hEok, Bool.not_true, Bool.false_eq_true, if_false, hn]
    have hKe : (sb21K start end_ key ctr).isEncrypted = false := by
      have := sb21_kw_isEncrypted start end_ key ctr
      simp only [hfl, decide_false] at this
      exact this
    refine ⟨data, henc, ?_⟩
    have hspec : otfadSpecImage c [(sb21K start end_ key ctr)] swap address data = data := by
      unfold otfadSpecImage
      apply otfad_spec_none
      · rfl
      · intro j _
        simp [otfadActive, hKe]
    have hhw := otfad_spec_hw h [(sb21K start end_ key ctr)] hwf1 hd1 address ha16 data swap
    rw [hspec] at hhw
    simpa using hhw

/-! ### `keywrap` -/

/-- the wrapped blob unwraps to the blob's key, counter, range and the flags given in the low bits of `end` -/
theorem sb21_keywrap_unwraps (h : CryptoLaws c) (start end_ : Nat) (key ctr kek rnd : Bytes)
    (hwf : (Sb21.blob start end_ key ctr (end_ &&& otfadKeyFlagMask)).WF) (hk : kek.length = 16) (hr : rnd.length = 4) :
    ∃ e, Sb21.keywrap c start end_ key ctr kek rnd = .ok e ∧ e.length = 64 ∧
      otfadUnwrapEntry c kek 0 e = some ((Sb21.blob start end_ key ctr (end_ &&& otfadKeyFlagMask)).ctx, true) := by
  let kb' : KeyBlob := { Sb21.blob start end_ key ctr (end_ &&& otfadKeyFlagMask) with zeroFill := rnd }
  have hwf' : kb'.WF := ⟨hwf.key_len, hwf.ctr_len, hwf.start_al, hwf.range, hwf.end_lt, hwf.flags_lt, hwf.exportable⟩
  obtain ⟨e, he, hl, hu⟩ := keyblob_unwraps h kb' hwf' hr rfl kek hk 0 (by simp) rnd
  have hrne : rnd.isEmpty = false := by
    cases rnd with
    | nil => simp at hr
    | cons _ _ => rfl
  have hpd : (Sb21.blob start end_ key ctr (end_ &&& otfadKeyFlagMask)).plainData rnd = kb'.plainData rnd := by
    simp [KeyBlob.plainData, kb', Sb21.blob, KeyBlob.endAddrWithFlags, hrne, hr]
  have hctx : (Sb21.blob start end_ key ctr (end_ &&& otfadKeyFlagMask)).ctx = kb'.ctx := rfl
  refine ⟨e, ?_, hl, by rw [hctx]; exact hu⟩
  simp only [Sb21.keywrap, sb21_ctorOk_of_wf _ hwf, Bool.not_true, Bool.false_eq_true, if_false]
  simp only [KeyBlob.export, hpd] at he ⊢
  exact he

end SpsdkVerif.FlashEnc
