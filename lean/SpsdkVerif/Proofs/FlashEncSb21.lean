/-
C13 — OTFAD through SB2.1 (`SB21Helper._encrypt` / `_keywrap`) and the `KeyBlob` constructor.
-/
import SpsdkVerif.Proofs.FlashEncOtfad
import SpsdkVerif.Proofs.FlashEncKeyBlob

namespace SpsdkVerif.FlashEnc
open SpsdkVerif SpsdkVerif.Crypto
open SpsdkVerif.Misc (beEnc beDec leEnc leDec)
open SpsdkVerif.Generated.FlashEncConsts

variable {c : CryptoOps}

/-! ### the constructor -/

theorem sb21_ctorOk_of_wf (kb : KeyBlob) (h : kb.WF) : kb.ctorOk = true := by
  have := h.flags_lt
  have := h.end_lt
  simp [KeyBlob.ctorOk, h.key_len, h.ctr_len, h.range, h.start_al, otfadKeySize, otfadCtrSize, otfadKeyFlagMask,
    otfadStartAddrMask]
  omega

theorem sb21_wf_of_ctorOk (kb : KeyBlob) (h : kb.ctorOk = true) (hk : kb.key.length = 16) (hc : kb.ctr.length = 8)
    (he : kb.end_ = 0 → kb.flags = 0) : kb.WF := by
  simp only [KeyBlob.ctorOk, otfadKeySize, otfadCtrSize, otfadKeyFlagMask, otfadStartAddrMask, Bool.and_eq_true,
    decide_eq_true_eq, beq_iff_eq] at h
  obtain ⟨⟨⟨⟨_, h1⟩, h2⟩, h3⟩, h4⟩ := h
  exact ⟨hk, hc, by omega, h1, by omega, by omega, he⟩

/-- what the constructor really guarantees about the sizes: at least one of them is right -/
theorem sb21_ctor_lengths (kb : KeyBlob) (h : kb.ctorOk = true) : kb.key.length = 16 ∨ kb.ctr.length = 8 := by
  simp only [KeyBlob.ctorOk, otfadKeySize, otfadCtrSize, Bool.and_eq_true, Bool.not_eq_true', Bool.and_eq_false_iff,
    bne_eq_false_iff_eq] at h
  exact h.1.1.1.1

/-! ### `encrypt` -/

theorem sb21_and_flags (e : Nat) (h : e % 4 = 3) : e &&& otfadFlagADE ≠ 0 ∧ e &&& otfadFlagVLD ≠ 0 := by
  have h1 : e &&& 1 = e % 2 := Nat.and_one_is_mod e
  have h3 : e.testBit 1 = true := by
    rw [Nat.testBit_eq_decide_div_mod_eq]
    simp; omega
  have h2 : (e &&& 2).testBit 1 = true := by rw [Nat.testBit_and, h3]; decide
  simp only [otfadFlagADE, otfadFlagVLD, h1]
  constructor
  · intro h0
    rw [h0] at h2
    simp at h2
  · omega

theorem sb21_blob_isEncrypted (s e : Nat) (k ct : Bytes) : (Sb21.blob s e k ct).isEncrypted = true := by
  simp [Sb21.blob, KeyBlob.isEncrypted, otfadFlagADE, otfadFlagVLD]

/-- all the proofs need to know about the padding unit of `_encrypt` (512 in the source): a positive multiple of 16 -/
theorem sb21_align_ok : sb21EncryptAlign % 16 = 0 ∧ 0 < sb21EncryptAlign := by decide

theorem sb21_zeroPad512_len (d : Bytes) : (zeroPad sb21EncryptAlign d).length % 16 = 0 := by
  have h1 := zeroPad_length_mod sb21EncryptAlign sb21_align_ok.2 d
  have h2 := sb21_align_ok.1
  generalize sb21EncryptAlign = n at *
  generalize (zeroPad n d).length = l at *
  have : l % 16 = l % n % 16 := (Nat.mod_mod_of_dvd l (Nat.dvd_of_mod_eq_zero h2)).symm
  omega

/-- the full-strength statement (for EVERY load address inside the window) is FALSE on the current code — see the
    refuting `example` in Properties/C13.lean; what holds needs `address = start`: -/
theorem sb21_encrypt_inverts_partial (h : CryptoLaws c) (start end_ : Nat) (key ctr : Bytes) (swap : Bool)
    (address : Nat) (data : Bytes) (hwf : (Sb21.blob start end_ key ctr).WF) (hfl : end_ % 4 = 3)
    (haddr : address = start)
    (hfit : Sb21.fits (Sb21.blob start end_ key ctr) address (zeroPad sb21EncryptAlign data).length) :
    ∃ ct, Sb21.encrypt c start end_ key ctr swap address data = .ok ct ∧
      (otfadHwReadAll c [(Sb21.blob start end_ key ctr).ctx] swap address ct).take data.length = data := by
  subst haddr
  have hkb : (Sb21.blob address end_ key ctr).start = address := rfl
  have hm16 := sb21_zeroPad512_len data
  have hpad : zeroPad 16 (zeroPad sb21EncryptAlign data) = zeroPad sb21EncryptAlign data := zeroPad_of_aligned 16 _ hm16
  have ha16 : address % 16 = 0 := by have := hwf.start_al; rw [hkb] at this; omega
  have hn : (zeroPad sb21EncryptAlign data).length / 16 = blocksFor (zeroPad sb21EncryptAlign data).length := by
    simp only [blocksFor]; omega
  have henc : Sb21.encrypt c address end_ key ctr swap address data =
      .ok ((Sb21.blob address end_ key ctr).encBlocks c swap (blocksFor (zeroPad sb21EncryptAlign data).length) address
        (zeroPad 16 (zeroPad sb21EncryptAlign data))) := by
    simp only [Sb21.encrypt, sb21_ctorOk_of_wf _ hwf, Bool.not_true, Bool.false_eq_true, if_false,
      sb21_and_flags end_ hfl, ne_eq, not_false_eq_true, and_self, if_true,
      KeyBlob.encryptImage, otfadEncBlockSize, hpad, hkb, hwf.ctr_len, validAesKeyLen, hwf.key_len, hn]
    simp [ha16]
  have hact : ∀ j, j < blocksFor (zeroPad sb21EncryptAlign data).length →
      otfadActive [Sb21.blob address end_ key ctr] (address + 16 * j) = some (Sb21.blob address end_ key ctr) := by
    intro j hj
    simp [otfadActive, hfit j hj, sb21_blob_isEncrypted]
  refine ⟨_, henc, ?_⟩
  rw [otfad_encBlocks_spec [Sb21.blob address end_ key ctr] swap _ _ address (zeroPad sb21EncryptAlign data) rfl hact]
  have hwf1 : ∀ kb ∈ [Sb21.blob address end_ key ctr], kb.WF := by
    intro kb hkb'; simp at hkb'; subst hkb'; exact hwf
  have hd1 : BlobsDisjoint [Sb21.blob address end_ key ctr] := by simp [BlobsDisjoint]
  have hhw := otfad_spec_hw h [Sb21.blob address end_ key ctr] hwf1 hd1 address ha16 (zeroPad sb21EncryptAlign data) swap
  simp only [List.map_cons, List.map_nil] at hhw
  have hle : data.length ≤ (zeroPad sb21EncryptAlign data).length := by rw [zeroPad_length]; omega
  have : (otfadHwReadAll c [(Sb21.blob address end_ key ctr).ctx] swap address
      (otfadSpec c [Sb21.blob address end_ key ctr] swap (blocksFor (zeroPad sb21EncryptAlign data).length) address
        (zeroPad sb21EncryptAlign data))).take data.length =
      ((otfadHwReadAll c [(Sb21.blob address end_ key ctr).ctx] swap address
        (otfadSpecImage c [Sb21.blob address end_ key ctr] swap address (zeroPad sb21EncryptAlign data))).take
          (zeroPad sb21EncryptAlign data).length).take data.length := by
    rw [List.take_take, Nat.min_eq_left hle]; rfl
  rw [this, hhw, zeroPad_take_self]

/-! ### `keywrap` -/

/-- the wrapped blob unwraps to the blob's registers — whose flags are always VLD|ADE, whatever the low bits of `end` say -/
theorem sb21_keywrap_unwraps (h : CryptoLaws c) (start end_ : Nat) (key ctr kek rnd : Bytes)
    (hwf : (Sb21.blob start end_ key ctr).WF) (hk : kek.length = 16) (hr : rnd.length = 4) :
    ∃ e, Sb21.keywrap c start end_ key ctr kek rnd = .ok e ∧ e.length = 64 ∧
      otfadUnwrapEntry c kek 0 e = some ((Sb21.blob start end_ key ctr).ctx, true) := by
  let kb' : KeyBlob := { Sb21.blob start end_ key ctr with zeroFill := rnd }
  have hwf' : kb'.WF := ⟨hwf.key_len, hwf.ctr_len, hwf.start_al, hwf.range, hwf.end_lt, hwf.flags_lt, hwf.exportable⟩
  obtain ⟨e, he, hl, hu⟩ := keyblob_unwraps h kb' hwf' hr rfl kek hk 0 (by simp) rnd
  have hrne : rnd.isEmpty = false := by
    cases rnd with
    | nil => simp at hr
    | cons _ _ => rfl
  have hpd : (Sb21.blob start end_ key ctr).plainData rnd = kb'.plainData rnd := by
    simp [KeyBlob.plainData, kb', Sb21.blob, KeyBlob.endAddrWithFlags, hrne, hr]
  have hctx : (Sb21.blob start end_ key ctr).ctx = kb'.ctx := rfl
  refine ⟨e, ?_, hl, by rw [hctx]; exact hu⟩
  simp only [Sb21.keywrap, sb21_ctorOk_of_wf _ hwf, Bool.not_true, Bool.false_eq_true, if_false]
  simp only [KeyBlob.export, hpd] at he ⊢
  exact he

end SpsdkVerif.FlashEnc
