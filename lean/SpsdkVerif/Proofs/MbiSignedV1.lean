/-
MBI image theorems for the `signedV1` family (classes whose `collect_data` resolves to the signedV1 collector).
See Properties/C01.lean for the statements' meaning; base lemmas in Proofs/MbiBase.lean.

Layout of the proofs (helper lemmas in namespace `SpsdkVerif.Mbi.SignedV1`):
* `ClsF` / `CfgF`: what `ClassWF` / `cfgWF` say for a class of this family;
* closed forms of `totalLen`, `totalLenForCertBlock`, `appLen`;
* `imgOf`: the exported image as a concatenation of blocks (`export_eq`), its length and header words;
* `ValidFrom` / `parseOrder_spec`: the order of the `mix_parse` calls is a permutation of the data mixins in which the
  readers of the certificate block come after the mixin that parses it;
* `build` / `step` / `fold_ok`: the parser's object after any set of `mix_parse` calls; `parseImage_eq`;
* `cfg2`: the configuration of the parsed image, which exports to the same blocks.
-/
import SpsdkVerif.Proofs.MbiBase

namespace SpsdkVerif.Mbi
open SpsdkVerif SpsdkVerif.Misc SpsdkVerif.Crypto
open SpsdkVerif.Generated.IvtConsts
open SpsdkVerif.Generated.MbiClasses (MixinName Method Attr provider attrs preParsed isData parent countInLegacyCertBlockLen)

namespace SignedV1

/-! ### class facts -/

/-- what `ClassWF` says about a class of the signedV1 family -/
structure ClsF (c : Cls) : Prop where
  hType : c.imageType ≤ imageTypeMask
  hTz4 : c.tzSize % 4 = 0
  aIvt : c.hasAttr .ivt_table = true
  aClean : c.hasAttr .clean_ivt = true
  hIvt : c.has .Mbi_MixinIvt = true
  hApp : c.has .Mbi_MixinApp = true
  hOrder : (parseOrder c).isSome = true
  hAppAll : (c.appLenProviders.all fun o => o == none || o == some .Mbi_MixinApp || o == some .Mbi_MixinRelocTable) = true
  hAppCnt : provCount c.appLenProviders .Mbi_MixinApp = 1
  hRelCnt : provCount c.appLenProviders .Mbi_MixinRelocTable = if c.has .Mbi_MixinRelocTable = true then 1 else 0
  aTab : c.hasAttr .app_table = c.has .Mbi_MixinRelocTable
  aDis : c.hasAttr .disassembly_app_data = c.has .Mbi_MixinRelocTable
  aLoad : c.hasAttr .load_address = c.has .Mbi_MixinLoadAddress
  aSub : c.hasAttr .image_subtype = c.has .Mbi_MixinImageSubType
  aVer : c.hasAttr .image_version = c.has .Mbi_MixinImageVersion
  aV2T : c.hasAttr .image_version_to_image_type = c.has .Mbi_MixinImageVersion
  aHw : c.hasAttr .user_hw_key_enabled = c.has .Mbi_MixinHwKey
  aKs : c.hasAttr .key_store = c.has .Mbi_MixinKeyStore
  aHmac : c.hasAttr .hmac_key = c.has .Mbi_MixinHmac
  aBca : c.hasAttr .bca = false
  aFcf : c.hasAttr .fcf = false
  rDis : c.resolve .disassemble_image = some .Mbi_ExportMixinAppTrustZoneCertBlock
  rEnc : c.resolve .encrypt = none
  rPe : c.resolve .post_encrypt = none
  sk : c.signKind = .rsa
  hT0 : ¬ c.imageType = 0
  hV1 : c.has .Mbi_MixinCertBlockV1 = true
  hV21 : c.has .Mbi_MixinCertBlockV21 = false
  aCert : c.hasAttr .cert_block = true
  hTz : c.has .Mbi_MixinTrustZone = true
  hMk : c.manifestKind = none
  hCtr : c.has .Mbi_MixinCtrInitVector = false
  rFin : (c.resolve .finalize == some .Mbi_ExportMixinHmacKeyStoreFinalize) = c.has .Mbi_MixinHmac
  rFin2 : c.resolve .finalize = none ∨ c.has .Mbi_MixinHmac = true
  hKsH : c.has .Mbi_MixinKeyStore = false ∨ c.has .Mbi_MixinHmac = true
  lenP : lenProvidersAre c.lenProviders
            ([.Mbi_MixinApp, .Mbi_MixinTrustZone, .Mbi_MixinCertBlockV1] ++
                  optList (c.has .Mbi_MixinRelocTable) .Mbi_MixinRelocTable ++
                optList (c.has .Mbi_MixinHmac) .Mbi_MixinHmac ++
              optList (c.has .Mbi_MixinKeyStore) .Mbi_MixinKeyStore) = true
  legP : lenProvidersAre c.legacyLenProviders
          ([.Mbi_MixinApp, .Mbi_MixinTrustZone, .Mbi_MixinCertBlockV1] ++
            optList (c.has .Mbi_MixinRelocTable) .Mbi_MixinRelocTable) = true
  rCol : c.resolve .collect_data = some .Mbi_ExportMixinAppTrustZoneCertBlock

theorem collector {c : Cls} (hf : c.family = some .signedV1) :
    c.resolve .collect_data = some .Mbi_ExportMixinAppTrustZoneCertBlock := by
  unfold Cls.family at hf
  split at hf <;> simp_all

theorem clsF {c : Cls} (h : ClassWF c = true) (hf : c.family = some .signedV1) : ClsF c := by
  unfold ClassWF at h
  simp only [hf, Bool.and_eq_true, beq_iff_eq, Bool.not_eq_true', bne_iff_ne, ne_eq, decide_eq_true_eq, Bool.or_eq_true,
    Option.isNone_iff_eq_none] at h
  simp only [and_assoc] at h
  obtain ⟨a1, a2, a3, a4, a5, a6, a7, a8, a9, a10, a11, a12, a13, a14, a15, a16, a17, a18, a19, a20, a21,
    b1, b2, b3, b4, b5, b6, b7, b8, b9, _, b10, b11, b12, b13, b14, b15, b16⟩ := h
  exact ⟨a1, a2, a3, a4, a5, a6, a7, a8, a9, a10, a11, a12, a13, a14, a15, a16, a17, a18, a19, a20, a21,
    b1, b2, b3, b4, b5, b6, b7, b8, b9, b10, b11, b12, b13, b14, b15, b16, collector hf⟩

/-! ### configuration facts -/

/-- what `cfgWF` says for a class of the signedV1 family -/
structure CfgF (c : Cls) (cfg : Cfg) : Prop where
  hval : validate c cfg = .ok ()
  hpack : packGuard c cfg = .ok ()
  hLA : cfg.loadAddress < 2 ^ 32
  hVer : cfg.imageVersion < 2 ^ 16
  hSub : cfg.subType ≤ subTypeMask
  hFlags : flagsOf c cfg < 2 ^ 32
  hTzc : ∀ d, cfg.tz = .custom d → d.length = c.tzSize ∧ c.tzSize > 0
  hRel : ∀ es, cfg.reloc = some es → (∀ e ∈ es, relocEntryOk e = true) ∧ c.has .Mbi_MixinRelocTable = true ∧ es ≠ []
  hKs : ∀ k, cfg.keyStore = some k → k.length = keyStoreSize ∧ c.has .Mbi_MixinKeyStore = true
  hHk : ∀ k, cfg.hmacKey = some k → k.length = hmacKeyLength ∧ c.has .Mbi_MixinHmac = true
  hHkN : cfg.hmacKey = none → c.has .Mbi_MixinHmac = false
  hAppH : c.has .Mbi_MixinHmac = true → (appData cfg).length ≥ hmacOffset
  hBca : cfg.bca = none
  hFcf : cfg.fcf = none
  hCertLen : cfg.cert.length ≥ certHeaderSize
  hCertSig : cfg.cert.take 4 = certHeaderSignature
  hCertHdr : rd32 cfg.cert 8 = certHeaderSize
  hCertSz : certV1Size cfg.cert = cfg.cert.length
  hSigLen : cfg.sigLen > 0
  hDig : cfg.digest = none
  hFwV : cfg.fwVersion = 0
  dVer : c.has .Mbi_MixinImageVersion = false → cfg.imageVersion = 0
  dSub : c.has .Mbi_MixinImageSubType = false → cfg.subType = 0
  dHw : c.has .Mbi_MixinHwKey = false → cfg.hwKey = false
  dLA : c.has .Mbi_MixinLoadAddress = false → cfg.loadAddress = 0
  dCtr : cfg.ctrIv = []

theorem cfgF {c : Cls} {cfg : Cfg} (k : ClsF c) (h : cfgWF c cfg = true) : CfgF c cfg := by
  unfold cfgWF at h
  simp only [Bool.and_eq_true, beq_iff_eq, bne_iff_ne, ne_eq, decide_eq_true_eq, Bool.not_eq_true',
    Option.isNone_iff_eq_none, and_assoc] at h
  obtain ⟨c1, c2, c3, c4, c5, c6, c7, c8, c9, c10, c11, c12, c13, c14, c15, c16, c17, c18, c19, c20, c21, c22, c23, c24,
    c25, c26, c27⟩ := h
  obtain ⟨d1, d2, d3, d4, d5⟩ := c17 k.hV1
  refine ⟨c1, c2, c3, c4, c5, c7, ?_, ?_, ?_, ?_, ?_, c14, c15, c16, d1, d2, d3, d4, d5, ?_, ?_, c23, c24, c25, c26, ?_⟩
  · intro d hd; rw [hd] at c8; simpa using c8
  · intro es hes; rw [hes] at c10
    simp only [Bool.and_eq_true, List.all_eq_true, Bool.not_eq_true', List.isEmpty_eq_false_iff] at c10
    exact ⟨c10.1.1, c10.1.2, c10.2⟩
  · intro ks hks; rw [hks] at c11; simpa using c11
  · intro ks hks; rw [hks] at c12; simpa using c12
  · intro hn; rw [hn] at c12; simpa using c12
  · exact c20 (by rw [k.hMk]; simp)
  · exact c22 k.hMk
  · simpa using c27 k.hCtr


/-! ### mixin list facts -/

theorem forM_ok {α : Type} (f : α → PyRes Unit) : ∀ (l : List α), l.forM f = .ok () → ∀ m ∈ l, f m = .ok ()
  | [], _, m, hm => by simp at hm
  | x :: xs, h, m, hm => by
    have e : (x :: xs).forM f = (f x >>= fun _ => xs.forM f) := rfl
    rw [e] at h
    simp only [bind, Except.bind] at h
    cases hx : f x with
    | error e => rw [hx] at h; simp at h
    | ok u =>
      rw [hx] at h
      rcases List.mem_cons.1 hm with rfl | hm
      · exact hx
      · exact forM_ok f xs h m hm

theorem forM_ok_of {α : Type} (f : α → PyRes Unit) : ∀ (l : List α), (∀ m ∈ l, f m = .ok ()) → l.forM f = .ok ()
  | [], _ => rfl
  | x :: xs, h => by
    have e : (x :: xs).forM f = (f x >>= fun _ => xs.forM f) := rfl
    rw [e]
    simp only [bind, Except.bind]
    rw [h x (by simp)]
    exact forM_ok_of f xs (fun m hm => h m (by simp [hm]))

theorem any_data (c : Cls) (f g : MixinName → Bool) (hfg : ∀ m, (isData m && f m) = g m) :
    c.dataMixins.any f = c.mixins.any g := by
  simp only [Cls.dataMixins, List.any_filter]
  congr 1
  funext m
  exact hfg m

theorem app_mem {c : Cls} (h : c.has .Mbi_MixinApp = true) : .Mbi_MixinApp ∈ c.dataMixins := by
  simp only [Cls.has, List.any_eq_true] at h
  obtain ⟨m, hm, hd⟩ := h
  have : m = .Mbi_MixinApp := by cases m <;> first | rfl | (revert hd; decide)
  subst this
  simp [Cls.dataMixins, hm, isData]

theorem app_ge {c : Cls} {cfg : Cfg} (k : ClsF c) (hval : validate c cfg = .ok ()) : minIvtSize ≤ (appData cfg).length := by
  have := forM_ok _ _ hval _ (app_mem k.hApp)
  have hp : provider .Mbi_MixinApp .mix_validate = some .Mbi_MixinApp := rfl
  simp only [validateMixin, hp] at this
  split at this
  · simp at this
  · simp only [minAppSize] at *; simp only [minIvtSize]; omega

/-! ### closed forms of the length sums -/

theorem totalLen_sum (c : Cls) (cfg : Cfg) (exp : List MixinName) (h : lenProvidersAre c.lenProviders exp = true) :
    totalLen c cfg = (exp.map (mixLenOf c cfg)).sum := by
  rw [← sum_of_lenProvidersAre c.lenProviders exp (mixLenOf c cfg) h]
  simp only [totalLen, Cls.lenProviders, List.map_map]
  congr 1

theorem legacyLen_sum (c : Cls) (cfg : Cfg) (exp : List MixinName) (h : lenProvidersAre c.legacyLenProviders exp = true) :
    totalLenForCertBlock c cfg = (exp.map (mixLenOf c cfg)).sum := by
  rw [← sum_of_lenProvidersAre c.legacyLenProviders exp (mixLenOf c cfg) h]
  simp only [totalLenForCertBlock, Cls.legacyLenProviders, List.map_map]
  congr 1

theorem appLen_aux (f : MixinName → Nat) (l : List (Option MixinName))
    (hall : l.all (fun o => o == none || o == some .Mbi_MixinApp || o == some .Mbi_MixinRelocTable) = true) :
    (l.map (fun o => match o with | some .Mbi_MixinApp => f .Mbi_MixinApp | some .Mbi_MixinRelocTable => f .Mbi_MixinRelocTable | _ => 0)).sum
      = provCount l .Mbi_MixinApp * f .Mbi_MixinApp + provCount l .Mbi_MixinRelocTable * f .Mbi_MixinRelocTable := by
  induction l with
  | nil => simp [provCount]
  | cons o os ih =>
    simp only [List.all_cons, Bool.and_eq_true] at hall
    have := ih hall.2
    simp only [provCount] at this ⊢
    simp only [List.map_cons, List.sum_cons, this, List.count_cons]
    rcases o with _ | m
    · simp
    · have h1 := hall.1
      simp only [Bool.or_eq_true, beq_iff_eq] at h1
      rcases h1 with (h1 | h1) | h1
      · simp at h1
      · cases h1; simp [Nat.add_mul]; omega
      · cases h1; simp [Nat.add_mul]; omega

theorem appLen_eq {c : Cls} (cfg : Cfg) (k : ClsF c) :
    appLen c cfg = (appData cfg).length + (if c.has .Mbi_MixinRelocTable then relocLen c cfg else 0) := by
  have := appLen_aux (fun m => match m with | .Mbi_MixinApp => (appData cfg).length | _ => relocLen c cfg)
    c.appLenProviders k.hAppAll
  rw [k.hAppCnt, k.hRelCnt] at this
  simp only [appLen, Cls.appLenProviders, List.map_map] at this ⊢
  have e : (List.map (mixAppLen c cfg) c.dataMixins).sum = 1 * List.length (appData cfg)
      + (if c.has MixinName.Mbi_MixinRelocTable = true then 1 else 0) * relocLen c cfg := by
    refine Eq.trans ?_ this
    congr 1
  rw [e]
  split <;> simp

theorem totalLen_eq0 {c : Cls} (cfg : Cfg) (k : ClsF c) :
    totalLen c cfg = mixLenOf c cfg .Mbi_MixinApp + mixLenOf c cfg .Mbi_MixinTrustZone + mixLenOf c cfg .Mbi_MixinCertBlockV1
        + (if c.has .Mbi_MixinRelocTable then mixLenOf c cfg .Mbi_MixinRelocTable else 0)
        + (if c.has .Mbi_MixinHmac then mixLenOf c cfg .Mbi_MixinHmac else 0)
        + (if c.has .Mbi_MixinKeyStore then mixLenOf c cfg .Mbi_MixinKeyStore else 0) := by
  rw [totalLen_sum c cfg _ k.lenP]
  cases c.has .Mbi_MixinRelocTable <;> cases c.has .Mbi_MixinHmac <;> cases c.has .Mbi_MixinKeyStore <;>
    simp only [optList, List.map_cons, List.map_nil, List.sum_cons, List.sum_nil, List.append_nil,
      List.cons_append, List.nil_append, if_true, if_false, Bool.false_eq_true] <;> omega

theorem legacyLen_eq0 {c : Cls} (cfg : Cfg) (k : ClsF c) :
    totalLenForCertBlock c cfg = mixLenOf c cfg .Mbi_MixinApp + mixLenOf c cfg .Mbi_MixinTrustZone
        + mixLenOf c cfg .Mbi_MixinCertBlockV1
        + (if c.has .Mbi_MixinRelocTable then mixLenOf c cfg .Mbi_MixinRelocTable else 0) := by
  rw [legacyLen_sum c cfg _ k.legP]
  cases c.has .Mbi_MixinRelocTable <;>
    simp only [optList, List.map_cons, List.map_nil, List.sum_cons, List.sum_nil, List.append_nil,
      List.cons_append, List.nil_append, if_true, if_false, Bool.false_eq_true] <;> omega

/-- length of the key store block -/
def ksLen (cfg : Cfg) : Nat := (cfg.keyStore.getD []).length
/-- bytes inserted at offset 64 by `finalize` -/
def shift (c : Cls) (cfg : Cfg) : Nat := if c.has .Mbi_MixinHmac then hmacSize + ksLen cfg else 0

theorem legacyLen_nat {c : Cls} (cfg : Cfg) (k : ClsF c) :
    totalLenForCertBlock c cfg = ((appLen c cfg + cfg.cert.length + cfg.tz.bytes.length : Nat) : Int) := by
  rw [legacyLen_eq0 cfg k, appLen_eq cfg k]
  simp only [mixLenOf]
  split <;> push_cast <;> omega

theorem totalLen_nat {c : Cls} {cfg : Cfg} (k : ClsF c) (g : CfgF c cfg) :
    totalLen c cfg = ((appLen c cfg + shift c cfg + cfg.cert.length + cfg.tz.bytes.length : Nat) : Int) := by
  rw [totalLen_eq0 cfg k, appLen_eq cfg k]
  have eK : mixLenOf c cfg .Mbi_MixinKeyStore = ((ksLen cfg : Nat) : Int) := by
    simp only [mixLenOf, ksLen]; cases cfg.keyStore <;> rfl
  have eK0 : c.has .Mbi_MixinKeyStore = false → ksLen cfg = 0 := by
    intro h; unfold ksLen
    cases hks : cfg.keyStore with
    | none => rfl
    | some ks => have := (g.hKs ks hks).2; rw [h] at this; cases this
  have eH : c.has .Mbi_MixinHmac = true → mixLenOf c cfg .Mbi_MixinHmac = (hmacSize : Int) := by
    intro h; simp only [mixLenOf]
    cases hk : cfg.hmacKey with
    | none => have := g.hHkN hk; rw [h] at this; cases this
    | some _ => rfl
  have eA : mixLenOf c cfg .Mbi_MixinApp = ((appData cfg).length : Int) := rfl
  have eT : mixLenOf c cfg .Mbi_MixinTrustZone = (cfg.tz.bytes.length : Int) := rfl
  have eC : mixLenOf c cfg .Mbi_MixinCertBlockV1 = (cfg.cert.length : Int) := rfl
  have eR : mixLenOf c cfg .Mbi_MixinRelocTable = (relocLen c cfg : Int) := rfl
  have eRR : (if c.has .Mbi_MixinRelocTable = true then (relocLen c cfg : Int) else 0)
      = ((if c.has .Mbi_MixinRelocTable = true then relocLen c cfg else 0 : Nat) : Int) := by split <;> rfl
  rw [eK, eA, eT, eC, eR, eRR]
  unfold shift
  have hor := k.hKsH
  cases hH : c.has .Mbi_MixinHmac <;> cases hK : c.has .Mbi_MixinKeyStore <;> rw [hH, hK] at hor
  · have := eK0 hK
    simp only [Bool.false_eq_true, if_false]; push_cast; omega
  · simp at hor
  · have := eK0 hK; have := eH hH
    simp only [Bool.false_eq_true, if_false, if_true]; push_cast; omega
  · have := eH hH
    simp only [if_true]; push_cast; omega


/-! ### the blocks of the image -/

/-- the application with its IVT filled in -/
def ivtApp (c : Cls) (cfg : Cfg) : Bytes :=
  updateIvt c cfg (appData cfg) ((totalLen c cfg).toNat + cfg.sigLen) (appLen c cfg)
/-- the relocation table behind the application -/
def relocBlk (cfg : Cfg) : Bytes :=
  match cfg.reloc with
  | some es => relocExport es (appData cfg).length
  | none => []
/-- what `collect_data` returns -/
def rawOf (c : Cls) (cfg : Cfg) : Bytes := ivtApp c cfg ++ relocBlk cfg ++ certInImage c cfg ++ cfg.tz.bytes
/-- HMAC and key store, inserted at offset 64 -/
def insOf (co : CryptoOps) (c : Cls) (cfg : Cfg) : Bytes :=
  if c.has .Mbi_MixinHmac then computeHmac co cfg ((ivtApp c cfg).take hmacOffset) ++ (cfg.keyStore.getD []) else []
/-- the exported image with signature `sig` -/
def imgOf (co : CryptoOps) (c : Cls) (cfg : Cfg) (sig : Bytes) : Bytes :=
  (ivtApp c cfg).take hmacOffset ++ insOf co c cfg
    ++ ((ivtApp c cfg).drop hmacOffset ++ relocBlk cfg ++ certInImage c cfg ++ cfg.tz.bytes ++ sig)

theorem certInImage_eq {c : Cls} (cfg : Cfg) (k : ClsF c) :
    certInImage c cfg = certSetImageLength cfg.cert (totalLenForCertBlock c cfg).toNat := by
  simp only [certInImage, k.rPe]

theorem certInImage_length {c : Cls} {cfg : Cfg} (k : ClsF c) (g : CfgF c cfg) :
    (certInImage c cfg).length = cfg.cert.length := by
  rw [certInImage_eq cfg k, certSetImageLength]
  apply setAt_length
  have := g.hCertLen
  simp only [certHeaderSize, certImageLengthOffset, le32_length] at *
  omega

theorem ivtApp_length {c : Cls} {cfg : Cfg} (k : ClsF c) (g : CfgF c cfg) : (ivtApp c cfg).length = (appData cfg).length :=
  updateIvt_length _ _ _ _ _ (app_ge k g.hval)

theorem reloc_attr {c : Cls} {cfg : Cfg} (k : ClsF c) (g : CfgF c cfg) :
    (if c.hasAttr .app_table then cfg.reloc else none) = cfg.reloc := by
  rw [k.aTab]
  cases h : cfg.reloc with
  | none => simp
  | some es => simp [(g.hRel es h).2.1]

theorem relocBlk_length {c : Cls} {cfg : Cfg} (_k : ClsF c) (g : CfgF c cfg) :
    (relocBlk cfg).length = (if c.has .Mbi_MixinRelocTable then relocLen c cfg else 0) := by
  unfold relocBlk relocLen
  cases h : cfg.reloc with
  | none => simp
  | some es => simp only [(g.hRel es h).2.1, if_true]; exact relocExport_length_indep _ _ _

theorem appLen_blocks {c : Cls} {cfg : Cfg} (k : ClsF c) (g : CfgF c cfg) :
    appLen c cfg = (ivtApp c cfg).length + (relocBlk cfg).length := by
  rw [appLen_eq cfg k, ivtApp_length k g, relocBlk_length k g]

theorem collect_eq {c : Cls} {cfg : Cfg} (k : ClsF c) (g : CfgF c cfg) : collect c cfg = .ok (rawOf c cfg) := by
  have hge := app_ge k g.hval
  have hc := g.hCertLen
  simp only [minIvtSize, certHeaderSize] at hge hc
  have h1 : ¬ ((appData cfg).isEmpty = true ∨ cfg.cert.isEmpty = true) := by
    simp only [List.isEmpty_iff]
    rintro (h | h)
    · rw [h] at hge; simp at hge
    · rw [h] at hc; simp at hc
  have h2 : ¬ totalLenForCertBlock c cfg ≤ 0 := by
    rw [legacyLen_nat cfg k, appLen_eq cfg k]; omega
  simp only [collect, k.rCol, collectAppTzCert, if_neg h1, if_neg h2, reloc_attr k g]
  rw [rawOf, certInImage_eq cfg k]
  congr 4
  unfold relocBlk
  cases cfg.reloc with
  | none => rfl
  | some es => simp only; rw [← ivtApp_length k g]; rfl


theorem resolve_finalize {c : Cls} (k : ClsF c) :
    c.resolve .finalize = if c.has .Mbi_MixinHmac then some .Mbi_ExportMixinHmacKeyStoreFinalize else none := by
  have h1 := k.rFin
  have h2 := k.rFin2
  cases hH : c.has .Mbi_MixinHmac with
  | true => rw [hH] at h1; simpa using h1
  | false => rw [hH] at h2; simpa using h2

theorem take_append_take (a b : Bytes) (n : Nat) (h : n ≤ a.length) : (a ++ b).take n = a.take n := by
  rw [List.take_append_of_le_length h]

theorem drop_append_drop (a b : Bytes) (n : Nat) (h : n ≤ a.length) : (a ++ b).drop n = a.drop n ++ b := by
  rw [List.drop_append_of_le_length h]

theorem export_eq {co : CryptoOps} {c : Cls} {cfg : Cfg} (signer : Signer) (k : ClsF c) (g : CfgF c cfg) :
    exportImage co c cfg signer = .ok (imgOf co c cfg (signer (rawOf c cfg))) := by
  simp only [exportImage, bind, Except.bind, g.hval, g.hpack, collect_eq k g, encryptStage, k.rEnc, postEncryptStage, k.rPe,
    signStage, k.sk, finalizeStage, resolve_finalize k]
  unfold imgOf insOf
  cases hH : c.has .Mbi_MixinHmac with
  | false =>
    simp only [Bool.false_eq_true, if_false, List.append_nil, rawOf]
    have e : ∀ (x y : Bytes), x ++ y = x.take hmacOffset ++ (x.drop hmacOffset ++ y) := by
      intro x y; rw [← List.append_assoc, List.take_append_drop]
    simp only [List.append_assoc]
    exact congrArg _ (e _ _)
  | true =>
    have hlen : hmacOffset ≤ (ivtApp c cfg).length := by rw [ivtApp_length k g]; exact g.hAppH hH
    have e1 : (rawOf c cfg ++ signer (rawOf c cfg)).take hmacOffset = (ivtApp c cfg).take hmacOffset := by
      simp only [rawOf, List.append_assoc]; exact take_append_take _ _ _ hlen
    have e2 : (rawOf c cfg ++ signer (rawOf c cfg)).drop hmacOffset
        = (ivtApp c cfg).drop hmacOffset ++ relocBlk cfg ++ certInImage c cfg ++ cfg.tz.bytes ++ signer (rawOf c cfg) := by
      simp only [rawOf, List.append_assoc]; exact drop_append_drop _ _ _ hlen
    have hl : ¬ (rawOf c cfg ++ signer (rawOf c cfg)).length < hmacOffset := by
      simp only [rawOf, List.length_append]; omega
    simp only [if_true, if_neg hl, e1, e2, List.append_assoc]


theorem insOf_length {co : CryptoOps} {c : Cls} {cfg : Cfg} (hl : CryptoLaws co) (g : CfgF c cfg) :
    (insOf co c cfg).length = shift c cfg := by
  unfold insOf shift ksLen
  cases hH : c.has .Mbi_MixinHmac with
  | false => simp
  | true =>
    cases hk : cfg.hmacKey with
    | none => have := g.hHkN hk; rw [hH] at this; simp at this
    | some key =>
      simp only [if_true, List.length_append, computeHmac, hk, hmac_length hl, HashAlg.size, hmacSize]

theorem imgOf_length {co : CryptoOps} {c : Cls} {cfg : Cfg} (hl : CryptoLaws co) (k : ClsF c) (g : CfgF c cfg) (sig : Bytes) :
    (imgOf co c cfg sig).length = appLen c cfg + shift c cfg + cfg.cert.length + cfg.tz.bytes.length + sig.length := by
  unfold imgOf
  simp only [List.length_append, List.length_take, List.length_drop, insOf_length hl g, certInImage_length k g,
    appLen_blocks k g]
  omega

theorem imgOf_length_total {co : CryptoOps} {c : Cls} {cfg : Cfg} (hl : CryptoLaws co) (k : ClsF c) (g : CfgF c cfg)
    (sig : Bytes) (hs : sig.length = cfg.sigLen) :
    (imgOf co c cfg sig).length = (totalLen c cfg).toNat + cfg.sigLen := by
  rw [imgOf_length hl k g, totalLen_nat k g, hs]
  omega


/-! ### header words -/

theorem pack_bound {c : Cls} {cfg : Cfg} (g : CfgF c cfg) :
    0 ≤ totalLen c cfg ∧ totalLen c cfg + cfg.sigLen + encIvtCopySize + encIvSize < 2 ^ 32 := by
  have h := g.hpack
  unfold packGuard at h
  split at h
  · simp at h
  · rename_i hn
    simp only [not_or] at hn
    exact ⟨by omega, by omega⟩

theorem total_bound {c : Cls} {cfg : Cfg} (k : ClsF c) (g : CfgF c cfg) :
    (totalLen c cfg).toNat + cfg.sigLen < 2 ^ 32 ∧ appLen c cfg < 2 ^ 32 := by
  have := pack_bound g
  rw [totalLen_nat k g] at this ⊢
  simp only [encIvtCopySize, encIvSize] at this
  omega

theorem ivtApp_words {c : Cls} {cfg : Cfg} (k : ClsF c) (g : CfgF c cfg) :
    rd32 (ivtApp c cfg) ivtImageLengthOffset = (if c.zeroTotalLength then 0 else (totalLen c cfg).toNat + cfg.sigLen)
    ∧ rd32 (ivtApp c cfg) ivtImageFlagsOffset = flagsOf c cfg
    ∧ rd32 (ivtApp c cfg) ivtCrcCertificateOffset = appLen c cfg
    ∧ rd32 (ivtApp c cfg) ivtLoadAddrOffset = (if c.has .Mbi_MixinLoadAddress then cfg.loadAddress else 0) := by
  have hb := total_bound k g
  have := updateIvt_words c cfg (appData cfg) ((totalLen c cfg).toNat + cfg.sigLen) (appLen c cfg) (app_ge k g.hval)
    g.hFlags hb.1 hb.2 g.hLA
  simp only [if_neg k.hT0, k.aLoad] at this
  exact this

theorem rd32_take (x : Bytes) (n off : Nat) (h : off + 4 ≤ n) : rd32 (x.take n) off = rd32 x off := by
  unfold rd32
  rw [List.drop_take, List.take_take]
  rw [show min 4 (n - off) = 4 by omega]

/-- the first 56 bytes of the image are those of the application with its IVT -/
theorem imgOf_head {c : Cls} {cfg : Cfg} (co : CryptoOps) (k : ClsF c) (g : CfgF c cfg) (sig : Bytes) (off : Nat)
    (ho : off + 4 ≤ 56) : rd32 (imgOf co c cfg sig) off = rd32 (ivtApp c cfg) off := by
  have hge := app_ge k g.hval
  simp only [minIvtSize] at hge
  unfold imgOf
  rw [List.append_assoc, rd32_append_left _ _ _ (by rw [List.length_take, ivtApp_length k g, hmacOffset]; omega),
    rd32_take _ _ _ (by rw [hmacOffset]; omega)]

/-- everything in front of the certificate block -/
def preOf (co : CryptoOps) (c : Cls) (cfg : Cfg) : Bytes :=
  (ivtApp c cfg).take hmacOffset ++ insOf co c cfg ++ ((ivtApp c cfg).drop hmacOffset ++ relocBlk cfg)

theorem imgOf_split (co : CryptoOps) (c : Cls) (cfg : Cfg) (sig : Bytes) :
    imgOf co c cfg sig = preOf co c cfg ++ certInImage c cfg ++ (cfg.tz.bytes ++ sig) := by
  simp only [imgOf, preOf, List.append_assoc]

theorem preOf_length {co : CryptoOps} {c : Cls} {cfg : Cfg} (hl : CryptoLaws co) (k : ClsF c) (g : CfgF c cfg) :
    (preOf co c cfg).length = appLen c cfg + shift c cfg := by
  unfold preOf
  simp only [List.length_append, List.length_take, List.length_drop, insOf_length hl g, appLen_blocks k g]
  omega


/-! ### the flag word -/

theorem tag_le (t : TzCfg) : t.tag ≤ tzTypeMask := by cases t <;> simp [TzCfg.tag, tzTypeMask, tzEnabled, tzCustom, tzDisabled]

theorem flags_get {c : Cls} {cfg : Cfg} (k : ClsF c) (g : CfgF c cfg) :
    getTzType (flagsOf c cfg) = cfg.tz.tag
    ∧ getSubType (flagsOf c cfg) = (if c.has .Mbi_MixinImageSubType then cfg.subType else 0)
    ∧ getHwKeyEnabled (flagsOf c cfg) = (c.has .Mbi_MixinHwKey && cfg.hwKey)
    ∧ getKeyStorePresented (flagsOf c cfg) = cfg.keyStore.isSome
    ∧ getAppTablePresented (flagsOf c cfg) = cfg.reloc.isSome
    ∧ getImageVersion (flagsOf c cfg) = (if c.has .Mbi_MixinImageVersion then cfg.imageVersion else 0) := by
  have hv : cfg.imageVersion ≤ imgVerMask := by have := g.hVer; simp only [imgVerMask]; omega
  obtain ⟨_, f2, f3, f4, f5, f6, f7, _⟩ := flags_fields c.imageType cfg.tz.tag cfg.subType cfg.imageVersion
    (match cfg.keyStore with | some b => b.length | none => 0)
    c.hasTrustZone (c.hasAttr .image_subtype) (c.hasAttr .user_hw_key_enabled) cfg.hwKey (c.hasAttr .key_store)
    cfg.keyStore.isSome (c.hasAttr .app_table) cfg.reloc.isSome (c.hasAttr .image_version)
    (c.hasAttr .image_version_to_image_type) true k.hType (tag_le _) g.hSub hv
  have hTZ : c.hasTrustZone = true := by simp [Cls.hasTrustZone, k.hTz]
  refine ⟨?_, ?_, ?_, ?_, ?_, ?_⟩
  · exact f2.trans (by simp [hTZ])
  · exact f3.trans (by rw [k.aSub])
  · exact f4.trans (by rw [k.aHw])
  · refine f5.trans ?_
    rw [k.aKs]
    cases hks : cfg.keyStore with
    | none => simp
    | some ks => have := g.hKs ks hks; simp [this.2, this.1, keyStoreSize]
  · refine f6.trans ?_
    rw [k.aTab]
    cases hr : cfg.reloc with
    | none => simp
    | some es => simp [(g.hRel es hr).2.1]
  · refine f7.trans ?_
    rw [k.aVer, k.aV2T]
    cases c.has .Mbi_MixinImageVersion <;> simp


/-! ### disassemble -/

theorem canon_app {c : Cls} (cfg : Cfg) (dek : Option Bytes) (k : ClsF c) :
    (canon c cfg dek).app = some (cleanIvt (appData cfg)) := by
  simp only [canon, k.aClean, if_true]

theorem rawOf_split (c : Cls) (cfg : Cfg) :
    rawOf c cfg = (ivtApp c cfg ++ relocBlk cfg) ++ (certInImage c cfg ++ cfg.tz.bytes) := by
  simp only [rawOf, List.append_assoc]

theorem rawOf_word {c : Cls} {cfg : Cfg} (k : ClsF c) (g : CfgF c cfg) (off : Nat) (ho : off + 4 ≤ 56) :
    rd32 (rawOf c cfg) off = rd32 (ivtApp c cfg) off := by
  have hge := app_ge k g.hval
  simp only [minIvtSize] at hge
  simp only [rawOf, List.append_assoc]
  exact rd32_append_left _ _ _ (by rw [ivtApp_length k g]; omega)

theorem disassemblyAppData_eq {c : Cls} {cfg : Cfg} (k : ClsF c) (g : CfgF c cfg) (p : Parsed) (hr : p.reloc = none) :
    disassemblyAppData c p (ivtApp c cfg ++ relocBlk cfg)
      = .ok ({ p with reloc := if c.has .Mbi_MixinRelocTable then cfg.reloc else none }, ivtApp c cfg) := by
  have hge := app_ge k g.hval
  simp only [minIvtSize] at hge
  have hfl : flagsIn (ivtApp c cfg ++ relocBlk cfg) = flagsOf c cfg := by
    unfold flagsIn
    rw [rd32_append_left _ _ _ (by rw [ivtApp_length k g, ivtImageFlagsOffset]; omega)]
    exact (ivtApp_words k g).2.1
  have hp : p = { p with reloc := none } := by cases p; simp at hr; subst hr; rfl
  unfold disassemblyAppData
  rw [k.aDis, hfl, (flags_get k g).2.2.2.2.1]
  cases hR : c.has .Mbi_MixinRelocTable with
  | false =>
    have : cfg.reloc = none := by
      cases hc : cfg.reloc with
      | none => rfl
      | some es => have := (g.hRel es hc).2.1; rw [hR] at this; cases this
    simp only [Bool.false_eq_true, if_false, relocBlk, this, List.append_nil]
    rw [← hp]
  | true =>
    cases hc : cfg.reloc with
    | none => simp [relocBlk, hc]
    | some es =>
      obtain ⟨hok, _, hne⟩ := g.hRel es hc
      have hb := (total_bound k g).2
      rw [appLen_blocks k g] at hb
      have hrb : relocBlk cfg = relocExport es (ivtApp c cfg).length := by
        simp only [relocBlk, hc, ivtApp_length k g]
      rw [hrb] at hb ⊢
      simp only [if_true, Option.isSome_some, not_true_eq_false, if_false, reloc_roundtrip _ es hne hok hb,
        List.take_left]

theorem disassemble_eq {c : Cls} {cfg : Cfg} (k : ClsF c) (g : CfgF c cfg) (dek : Option Bytes) (p : Parsed)
    (hr : p.reloc = none) :
    disassemble c p (rawOf c cfg) = .ok { p with app := (canon c cfg dek).app, reloc := (canon c cfg dek).reloc } := by
  have hge := app_ge k g.hval
  have hw : rd32 (rawOf c cfg) ivtCrcCertificateOffset = appLen c cfg := by
    rw [rawOf_word k g _ (by decide)]; exact (ivtApp_words k g).2.2.1
  have ht : (rawOf c cfg).take (appLen c cfg) = ivtApp c cfg ++ relocBlk cfg := by
    rw [rawOf_split, appLen_blocks k g, ← List.length_append, List.take_left]
  simp only [disassemble, k.rDis, hw, ht, disassemblyAppData_eq k g p hr, bind, Except.bind, pure, Except.pure,
    if_true, canon_app cfg dek k]
  rw [ivtApp, cleanIvt_updateIvt _ _ _ _ _ hge,
    align4_of_aligned _ (by rw [cleanIvt_length _ hge]; exact align4_length_mod _)]
  simp only [canon]


/-! ### the order of the `mix_parse` calls -/

/-- nobody is called while it must wait (`done`: the certificate block has been parsed) -/
def ValidFrom (c : Cls) : Bool → List MixinName → Prop
  | _, [] => True
  | done, m :: rest => mustWait c done m = false ∧ ValidFrom c (done || setsCert m) rest

theorem parseRound_spec (c : Cls) : ∀ (todo : List MixinName) (done : Bool),
    ((parseRound c todo done).1 ++ (parseRound c todo done).2.1).Perm todo
    ∧ ∀ rest, ValidFrom c (parseRound c todo done).2.2 rest → ValidFrom c done ((parseRound c todo done).1 ++ rest)
  | [], done => by simp [parseRound]
  | m :: ms, done => by
    unfold parseRound
    by_cases hw : mustWait c done m = true
    · have ih := parseRound_spec c ms done
      rcases hr : parseRound c ms done with ⟨o, w, d⟩
      rw [hr] at ih
      simp only [hw, if_true]
      refine ⟨?_, ih.2⟩
      exact (List.perm_middle).trans (List.Perm.cons m ih.1)
    · have ih := parseRound_spec c ms (done || setsCert m)
      rcases hr : parseRound c ms (done || setsCert m) with ⟨o, w, d⟩
      rw [hr] at ih
      simp only [hw, if_false]
      refine ⟨List.Perm.cons m ih.1, ?_⟩
      intro rest hv
      exact ⟨by simpa using hw, ih.2 rest hv⟩

theorem parseOrderF_spec (c : Cls) : ∀ (f : Nat) (todo : List MixinName) (done : Bool) (order : List MixinName),
    parseOrderF c f todo done = some order → order.Perm todo ∧ ValidFrom c done order
  | _, [], _, order, h => by
    have : order = [] := by cases ‹Nat› <;> simp [parseOrderF] at h <;> exact h
    subst this; exact ⟨List.Perm.refl _, trivial⟩
  | 0, _ :: _, _, order, h => by simp [parseOrderF] at h
  | f + 1, t :: ts, done, order, h => by
    have sp := parseRound_spec c (t :: ts) done
    simp only [parseOrderF] at h
    rcases hr : parseRound c (t :: ts) done with ⟨o, w, d⟩
    rw [hr] at h sp
    simp only at h sp
    split at h
    · cases h
    · simp only [Option.map_eq_some_iff] at h
      obtain ⟨order', ho, rfl⟩ := h
      have ih := parseOrderF_spec c f w d order' ho
      exact ⟨(List.Perm.append_left o ih.1).trans sp.1, sp.2 _ ih.2⟩

theorem parseOrder_spec {c : Cls} {order : List MixinName} (h : parseOrder c = some order) :
    order.Perm c.dataMixins ∧ ValidFrom c false order := parseOrderF_spec c _ _ _ _ h


/-! ### what the parser reads in the image -/

section image
variable {co : CryptoOps} {c : Cls} {cfg : Cfg}

theorem img_flags (co : CryptoOps) (k : ClsF c) (g : CfgF c cfg) (sig : Bytes) :
    flagsIn (imgOf co c cfg sig) = flagsOf c cfg := by
  unfold flagsIn
  rw [imgOf_head co k g _ _ (by decide)]; exact (ivtApp_words k g).2.1

theorem ksLen_eq (g : CfgF c cfg) : ksLen cfg = if cfg.keyStore.isSome then keyStoreSize else 0 := by
  unfold ksLen
  cases h : cfg.keyStore with
  | none => rfl
  | some ks => simp [(g.hKs ks h).1]

theorem img_shift (co : CryptoOps) (k : ClsF c) (g : CfgF c cfg) (sig : Bytes) :
    hmacShift c (imgOf co c cfg sig) = shift c cfg := by
  unfold hmacShift shift
  rw [img_flags co k g, (flags_get k g).2.2.2.1, k.aHmac, ksLen_eq g]

theorem img_certOffset (hl : CryptoLaws co) (k : ClsF c) (g : CfgF c cfg) (sig : Bytes) (hs : sig.length = cfg.sigLen) :
    certOffsetChecked c (imgOf co c cfg sig) = .ok (appLen c cfg) := by
  have hlen := imgOf_length_total hl k g sig hs
  have hge := app_ge k g.hval
  have hl2 := imgOf_length hl k g sig
  rw [appLen_eq cfg k] at hl2
  simp only [minIvtSize] at hge
  have hw : rd32 (imgOf co c cfg sig) ivtImageLengthOffset = (if c.zeroTotalLength then 0 else (imgOf co c cfg sig).length) := by
    rw [imgOf_head co k g _ _ (by decide), (ivtApp_words k g).1, hlen]
  have hc : rd32 (imgOf co c cfg sig) ivtCrcCertificateOffset = appLen c cfg := by
    rw [imgOf_head co k g _ _ (by decide), (ivtApp_words k g).2.2.1]
  have ht : rd32 (imgOf co c cfg sig) ivtImageLengthOffset ≤ (imgOf co c cfg sig).length := by
    rw [hw]; split <;> omega
  have hL : 56 ≤ (imgOf co c cfg sig).length := by omega
  have : checkTotalLength c (imgOf co c cfg sig) = .ok () := by
    unfold checkTotalLength
    generalize (imgOf co c cfg sig).length = L at *
    generalize rd32 (imgOf co c cfg sig) ivtImageLengthOffset = t at *
    have h1 : ¬ L < minIvtSize := by simp only [minIvtSize]; omega
    have h2 : ¬ t > L := by omega
    simp only [h1, h2, if_false, and_false]
    split <;> rfl
  simp only [certOffsetChecked, this, bind, Except.bind, pure, Except.pure, hc]

theorem img_drop (hl : CryptoLaws co) (k : ClsF c) (g : CfgF c cfg) (sig : Bytes) :
    (imgOf co c cfg sig).drop (appLen c cfg + shift c cfg) = certInImage c cfg ++ (cfg.tz.bytes ++ sig) := by
  rw [imgOf_split, ← preOf_length hl k g, List.append_assoc, List.drop_left]

theorem img_tz (hl : CryptoLaws co) (k : ClsF c) (g : CfgF c cfg) (sig : Bytes) :
    slice (imgOf co c cfg sig) (appLen c cfg + cfg.cert.length + shift c cfg)
      (appLen c cfg + cfg.cert.length + shift c cfg + cfg.tz.bytes.length) = cfg.tz.bytes := by
  have e : imgOf co c cfg sig = (preOf co c cfg ++ certInImage c cfg) ++ cfg.tz.bytes ++ sig := by
    rw [imgOf_split]; simp only [List.append_assoc]
  have hlen : appLen c cfg + cfg.cert.length + shift c cfg = (preOf co c cfg ++ certInImage c cfg).length := by
    rw [List.length_append, preOf_length hl k g, certInImage_length k g]; omega
  rw [hlen, e]
  exact slice_append_mid _ _ _

theorem img_ks (hl : CryptoLaws co) (k : ClsF c) (g : CfgF c cfg) (sig : Bytes) (ks : Bytes) (hks : cfg.keyStore = some ks) :
    slice (imgOf co c cfg sig) (hmacOffset + hmacSize) (hmacOffset + hmacSize + keyStoreSize) = ks := by
  obtain ⟨hkl, hK⟩ := g.hKs ks hks
  have hH : c.has .Mbi_MixinHmac = true := by
    rcases k.hKsH with h | h
    · rw [hK] at h; cases h
    · exact h
  have hal := g.hAppH hH
  cases hk : cfg.hmacKey with
  | none => have := g.hHkN hk; rw [hH] at this; cases this
  | some key =>
    have e : imgOf co c cfg sig = ((ivtApp c cfg).take hmacOffset ++ computeHmac co cfg ((ivtApp c cfg).take hmacOffset))
        ++ ks ++ ((ivtApp c cfg).drop hmacOffset ++ relocBlk cfg ++ certInImage c cfg ++ cfg.tz.bytes ++ sig) := by
      simp only [imgOf, insOf, hH, if_true, hks, Option.getD_some, List.append_assoc]
    have hlen : hmacOffset + hmacSize
        = ((ivtApp c cfg).take hmacOffset ++ computeHmac co cfg ((ivtApp c cfg).take hmacOffset)).length := by
      simp only [List.length_append, List.length_take, ivtApp_length k g, computeHmac, hk, hmac_length hl, HashAlg.size,
        hmacSize]
      omega
    rw [hlen, e, ← hkl]
    exact slice_append_mid _ _ _

end image


/-! ### the certificate block header survives `image_length` -/

theorem rd32_drop (x : Bytes) (n off : Nat) : rd32 (x.drop n) off = rd32 x (n + off) := by
  unfold rd32
  rw [List.drop_drop]

theorem certSet_facts (cert : Bytes) (v : Nat) (h : certHeaderSize ≤ cert.length) :
    (certSetImageLength cert v).length = cert.length
    ∧ (certSetImageLength cert v).take 4 = cert.take 4
    ∧ rd32 (certSetImageLength cert v) 8 = rd32 cert 8
    ∧ rd32 (certSetImageLength cert v) certTableLengthOffset = rd32 cert certTableLengthOffset := by
  simp only [certHeaderSize] at h
  have e : certSetImageLength cert v = cert.take 20 ++ le32 v ++ cert.drop 24 := by
    simp only [certSetImageLength, setAt, certImageLengthOffset, le32_length]
  have l20 : (cert.take 20).length = 20 := by rw [List.length_take]; omega
  refine ⟨?_, ?_, ?_, ?_⟩
  · rw [e]; simp only [List.length_append, List.length_take, List.length_drop, le32_length]; omega
  · rw [e, List.append_assoc, List.take_append_of_le_length (by omega), List.take_take]; rfl
  · rw [e, List.append_assoc, rd32_append_left _ _ _ (by omega), rd32_take _ _ _ (by omega)]
  · have : certTableLengthOffset = (cert.take 20 ++ le32 v).length + 4 := by
      simp only [List.length_append, l20, le32_length, certTableLengthOffset]
    rw [e, this, rd32_append_right, rd32_drop]
    simp only [List.length_append, l20, le32_length]

theorem alignNat4_ge (n : Nat) : n ≤ alignNat n 4 := by
  unfold alignNat; omega

section image
variable {co : CryptoOps} {env : Env} {c : Cls} {cfg : Cfg}

/-- the certificate block the parser builds -/
def certOf (c : Cls) (cfg : Cfg) : CertInfo := ⟨certInImage c cfg, cfg.cert.length, cfg.sigLen, true⟩

theorem parse_certV1 (hl : CryptoLaws co) (he : EnvOK env c cfg) (k : ClsF c) (g : CfgF c cfg) (sig : Bytes)
    (hs : sig.length = cfg.sigLen) (dek : Option Bytes) (p : Parsed) (m : MixinName)
    (hm : provider m .mix_parse = some .Mbi_MixinCertBlockV1) :
    mixParse env c dek (imgOf co c cfg sig) p m = .ok { p with cert := some (certOf c cfg) } := by
  obtain ⟨f1, f2, f3, f4⟩ := certSet_facts cfg.cert (totalLenForCertBlock c cfg).toNat g.hCertLen
  rw [← certInImage_eq cfg k] at f1 f2 f3 f4
  have hcl := g.hCertLen
  have hsz := g.hCertSz
  have hv : certV1Size (certInImage c cfg ++ (cfg.tz.bytes ++ sig)) = cfg.cert.length := by
    rw [← hsz]; unfold certV1Size
    rw [rd32_append_left _ _ _ (by rw [f1]; simp only [certHeaderSize, certTableLengthOffset] at *; omega), f4]
  have hge := alignNat4_ge (certHeaderSize + rd32 cfg.cert certTableLengthOffset + rkhtEntries * rkhSize)
  unfold certV1Size at hsz
  rw [hsz] at hge
  obtain ⟨e1, e2⟩ := he.1 k.hV1 (cfg.tz.bytes ++ sig)
  simp only [certHeaderSize, certTableLengthOffset, rkhtEntries, rkhSize] at *
  have c1 : ¬ (certInImage c cfg ++ (cfg.tz.bytes ++ sig)).length < 32 := by
    simp only [List.length_append, f1]; omega
  have c2 : (certInImage c cfg ++ (cfg.tz.bytes ++ sig)).take 4 = certHeaderSignature := by
    rw [List.take_append_of_le_length (by omega), f2, g.hCertSig]
  have c3 : rd32 (certInImage c cfg ++ (cfg.tz.bytes ++ sig)) 8 = 32 := by
    rw [rd32_append_left _ _ _ (by omega), f3, g.hCertHdr]; rfl
  have c4 : ¬ (certInImage c cfg ++ (cfg.tz.bytes ++ sig)).length
      < rd32 (certInImage c cfg ++ (cfg.tz.bytes ++ sig)) 28 + 4 * 32 := by
    rw [rd32_append_left _ _ _ (by omega), f4]; simp only [List.length_append, f1]; omega
  have c5 : (certInImage c cfg ++ (cfg.tz.bytes ++ sig)).take cfg.cert.length = certInImage c cfg := by
    rw [← f1, List.take_left]
  simp only [mixParse, hm, img_certOffset hl k g sig hs, img_shift co k g, bind, Except.bind, img_drop hl k g, hv, e1, e2,
    certHeaderSize, certTableLengthOffset, rkhtEntries, rkhSize, c1, c2, c3, c4, c5, if_false, ne_eq, not_true_eq_false,
    pure, Except.pure, certOf]

end image


section image
variable {co : CryptoOps} {env : Env} {c : Cls} {cfg : Cfg}

theorem parse_tz (hl : CryptoLaws co) (k : ClsF c) (g : CfgF c cfg) (sig : Bytes)
    (hs : sig.length = cfg.sigLen) (dek : Option Bytes) (p : Parsed) (m : MixinName)
    (hm : provider m .mix_parse = some .Mbi_MixinTrustZone) (hc : p.cert = some (certOf c cfg)) :
    mixParse env c dek (imgOf co c cfg sig) p m = .ok { p with tz := cfg.tz } := by
  simp only [mixParse, hm, img_flags co k g, (flags_get k g).1, k.aCert, if_true, hc, img_certOffset hl k g sig hs,
    img_shift co k g, bind, Except.bind, certOf]
  cases ht : cfg.tz with
  | enabled => simp [TzCfg.tag, tzEnabled, tzCustom, tzDisabled]
  | disabled => simp [TzCfg.tag, tzEnabled, tzCustom, tzDisabled]
  | custom d =>
    obtain ⟨hd, hpos⟩ := g.hTzc d ht
    have := img_tz hl k g sig
    rw [ht] at this
    simp only [TzCfg.bytes, hd] at this
    have hz : ¬ c.tzSize = 0 := by omega
    simp only [TzCfg.tag, tzEnabled, tzCustom, tzDisabled, this, tzFromBinary, if_neg hz, hd]
    simp [pure, Except.pure, ← hd]

theorem parse_la (k : ClsF c) (g : CfgF c cfg) (sig : Bytes) (dek : Option Bytes) (p : Parsed) (m : MixinName)
    (hm : provider m .mix_parse = some .Mbi_MixinLoadAddress) :
    mixParse env c dek (imgOf co c cfg sig) p m = .ok { p with loadAddress := cfg.loadAddress } := by
  have : rd32 (imgOf co c cfg sig) ivtLoadAddrOffset = cfg.loadAddress := by
    rw [imgOf_head co k g _ _ (by decide), (ivtApp_words k g).2.2.2]
    cases h : c.has .Mbi_MixinLoadAddress with
    | true => rfl
    | false => simp [g.dLA h]
  simp only [mixParse, hm, this]

theorem parse_ver (k : ClsF c) (g : CfgF c cfg) (sig : Bytes) (dek : Option Bytes) (p : Parsed) (m : MixinName)
    (hm : provider m .mix_parse = some .Mbi_MixinImageVersion) :
    mixParse env c dek (imgOf co c cfg sig) p m = .ok { p with imageVersion := cfg.imageVersion } := by
  have : getImageVersion (flagsOf c cfg) = cfg.imageVersion := by
    rw [(flags_get k g).2.2.2.2.2]
    cases h : c.has .Mbi_MixinImageVersion with
    | true => rfl
    | false => simp [g.dVer h]
  simp only [mixParse, hm, img_flags co k g, this]

theorem parse_sub (k : ClsF c) (g : CfgF c cfg) (sig : Bytes) (dek : Option Bytes) (p : Parsed) (m : MixinName)
    (hm : provider m .mix_parse = some .Mbi_MixinImageSubType) :
    mixParse env c dek (imgOf co c cfg sig) p m = .ok { p with subType := cfg.subType } := by
  have : getSubType (flagsOf c cfg) = cfg.subType := by
    rw [(flags_get k g).2.1]
    cases h : c.has .Mbi_MixinImageSubType with
    | true => rfl
    | false => simp [g.dSub h]
  simp only [mixParse, hm, img_flags co k g, this]

theorem parse_hw (k : ClsF c) (g : CfgF c cfg) (sig : Bytes) (dek : Option Bytes) (p : Parsed) (m : MixinName)
    (hm : provider m .mix_parse = some .Mbi_MixinHwKey) :
    mixParse env c dek (imgOf co c cfg sig) p m = .ok { p with hwKey := cfg.hwKey } := by
  have : getHwKeyEnabled (flagsOf c cfg) = cfg.hwKey := by
    rw [(flags_get k g).2.2.1]
    cases h : c.has .Mbi_MixinHwKey with
    | true => simp
    | false => simp [g.dHw h]
  simp only [mixParse, hm, img_flags co k g, this]

theorem parse_ks (hl : CryptoLaws co) (k : ClsF c) (g : CfgF c cfg) (sig : Bytes) (dek : Option Bytes) (p : Parsed)
    (m : MixinName) (hm : provider m .mix_parse = some .Mbi_MixinKeyStore) :
    mixParse env c dek (imgOf co c cfg sig) p m = .ok { p with keyStore := cfg.keyStore } := by
  simp only [mixParse, hm, img_flags co k g, (flags_get k g).2.2.2.1]
  cases hks : cfg.keyStore with
  | none => simp
  | some ks =>
    have hl' := (g.hKs ks hks).1
    have hne : ks ≠ [] := by intro h; rw [h] at hl'; simp [keyStoreSize] at hl'
    simp [img_ks hl k g sig ks hks, hl', hne]

theorem parse_hmac (sig : Bytes) (dek : Option Bytes) (p : Parsed)
    (m : MixinName) (hm : provider m .mix_parse = some .Mbi_MixinHmac) :
    mixParse env c dek (imgOf co c cfg sig) p m
      = .ok (match dek with | some key => { p with hmacKey := some key } | none => p) := by
  cases dek <;> simp only [mixParse, hm]

end image


/-! ### which mixins a signedV1 class can contain -/

theorem derivesFrom_self (m : MixinName) : derivesFrom m m = true := by simp [derivesFrom]

theorem mem_has {c : Cls} {m : MixinName} (hm : m ∈ c.dataMixins) : c.has m = true := by
  simp only [Cls.dataMixins, List.mem_filter] at hm
  simp only [Cls.has, List.any_eq_true]
  exact ⟨m, hm.1, derivesFrom_self m⟩

theorem mem_optList {x m : MixinName} {b : Bool} (h : x ∈ optList b m) : x = m := by
  cases b <;> simp [optList] at h; exact h

theorem lenProv_cases {c : Cls} (k : ClsF c) {m d : MixinName} (hm : m ∈ c.dataMixins) (hd : provider m .mix_len = some d) :
    d = .Mbi_MixinApp ∨ d = .Mbi_MixinTrustZone ∨ d = .Mbi_MixinCertBlockV1 ∨ d = .Mbi_MixinRelocTable
      ∨ d = .Mbi_MixinHmac ∨ d = .Mbi_MixinKeyStore := by
  have hp := perm_of_lenProvidersAre _ _ k.lenP
  have : d ∈ c.lenProviders.filterMap id := by
    simp only [List.mem_filterMap, Cls.lenProviders, List.mem_map, id]
    exact ⟨some d, ⟨m, hm, hd⟩, rfl⟩
  have := hp.subset this
  simp only [List.mem_append, List.mem_cons, List.not_mem_nil, or_false] at this
  rcases this with (((h | h | h) | h) | h) | h
  · exact Or.inl h
  · exact Or.inr (Or.inl h)
  · exact Or.inr (Or.inr (Or.inl h))
  · exact Or.inr (Or.inr (Or.inr (Or.inl (mem_optList h))))
  · exact Or.inr (Or.inr (Or.inr (Or.inr (Or.inl (mem_optList h)))))
  · exact Or.inr (Or.inr (Or.inr (Or.inr (Or.inr (mem_optList h)))))

/-- the `mix_parse` providers that cannot occur -/
theorem parse_allowed {c : Cls} (k : ClsF c) {m : MixinName} (hm : m ∈ c.dataMixins) :
    provider m .mix_parse ≠ some .Mbi_MixinCtrInitVector ∧ provider m .mix_parse ≠ some .Mbi_MixinCertBlockV21
    ∧ provider m .mix_parse ≠ some .Mbi_MixinManifest ∧ provider m .mix_parse ≠ some .Mbi_MixinBca
    ∧ provider m .mix_parse ≠ some .Mbi_MixinFcf := by
  have h1 := mem_has hm
  have h2 := fun d => lenProv_cases k (d := d) hm
  have h3 := k.hCtr
  have h4 := k.hV21
  cases m <;>
    first
    | (exact by decide)
    | (exfalso; rw [h1] at h3; cases h3)
    | (exfalso; rw [h1] at h4; cases h4)
    | (exfalso; have := h2 _ rfl; simp at this)


/-! ### the state of the parser after a set of `mix_parse` calls -/

/-- has a mixin with this `mix_parse` been called? -/
def hasP (X : MixinName) (pr : List MixinName) : Bool := pr.any (fun m => provider m .mix_parse == some X)

/-- the parser's object after the calls `pr` (in any order) -/
def build (c : Cls) (cfg : Cfg) (dek : Option Bytes) (pr : List MixinName) : Parsed :=
  { loadAddress := if hasP .Mbi_MixinLoadAddress pr then cfg.loadAddress else 0
    imageVersion := if hasP .Mbi_MixinImageVersion pr then cfg.imageVersion else 0
    subType := if hasP .Mbi_MixinImageSubType pr then cfg.subType else 0
    tz := if hasP .Mbi_MixinTrustZone pr then cfg.tz else .enabled
    hwKey := hasP .Mbi_MixinHwKey pr && cfg.hwKey
    keyStore := if hasP .Mbi_MixinKeyStore pr then cfg.keyStore else none
    hmacKey := if hasP .Mbi_MixinHmac pr then dek else none
    cert := if pr.any setsCert then some (certOf c cfg) else none }

theorem build_nil (c : Cls) (cfg : Cfg) (dek : Option Bytes) : build c cfg dek [] = {} := by
  simp [build, hasP]

theorem hasP_cons (X m : MixinName) (pr : List MixinName) :
    hasP X (m :: pr) = (provider m .mix_parse == some X || hasP X pr) := by
  simp [hasP]

theorem mix_beq (a b : MixinName) : (a == b) = decide (a = b) := by
  cases h : decide (a = b) <;> simp_all

section image
variable {co : CryptoOps} {env : Env} {c : Cls} {cfg : Cfg}

theorem step (hl : CryptoLaws co) (he : EnvOK env c cfg) (k : ClsF c) (g : CfgF c cfg) (sig : Bytes)
    (hs : sig.length = cfg.sigLen) (dek : Option Bytes) (m : MixinName) (hm : m ∈ c.dataMixins) (pr : List MixinName)
    (hw : mustWait c (pr.any setsCert) m = false) :
    mixParse env c dek (imgOf co c cfg sig) (build c cfg dek pr) m = .ok (build c cfg dek (m :: pr)) := by
  obtain ⟨n1, n2, n3, n4, n5⟩ := parse_allowed k hm
  rcases hp : provider m .mix_parse with _ | X
  · have e : build c cfg dek (m :: pr) = build c cfg dek pr := by
      simp [build, hasP_cons, hp, setsCert, mix_beq]
    rw [e]; simp only [mixParse, hp]
  · cases X
    case Mbi_MixinCertBlockV1 =>
      rw [parse_certV1 hl he k g sig hs dek _ m hp]
      simp [build, hasP_cons, hp, setsCert, mix_beq]
    case Mbi_MixinTrustZone =>
      have hd : pr.any setsCert = true := by
        have : preParsed m = [.cert_block] := by
          cases m <;> first | rfl | (exact absurd hp (by decide))
        simpa [mustWait, this, k.aCert] using hw
      rw [parse_tz hl k g sig hs dek _ m hp (by simp [build, hd])]
      simp [build, hasP_cons, hp, setsCert, mix_beq]
    case Mbi_MixinLoadAddress =>
      rw [parse_la k g sig dek _ m hp]; simp [build, hasP_cons, hp, setsCert, mix_beq]
    case Mbi_MixinImageVersion =>
      rw [parse_ver k g sig dek _ m hp]; simp [build, hasP_cons, hp, setsCert, mix_beq]
    case Mbi_MixinImageSubType =>
      rw [parse_sub k g sig dek _ m hp]; simp [build, hasP_cons, hp, setsCert, mix_beq]
    case Mbi_MixinHwKey =>
      rw [parse_hw k g sig dek _ m hp]; simp [build, hasP_cons, hp, setsCert, mix_beq]
    case Mbi_MixinKeyStore =>
      rw [parse_ks hl k g sig dek _ m hp]; simp [build, hasP_cons, hp, setsCert, mix_beq]
    case Mbi_MixinHmac =>
      rw [parse_hmac sig dek _ m hp]
      cases dek <;> simp [build, hasP_cons, hp, setsCert, mix_beq]
    case Mbi_MixinCtrInitVector => exact absurd hp n1
    case Mbi_MixinCertBlockV21 => exact absurd hp n2
    case Mbi_MixinManifest => exact absurd hp n3
    case Mbi_MixinBca => exact absurd hp n4
    case Mbi_MixinFcf => exact absurd hp n5
    all_goals
      have e : build c cfg dek (m :: pr) = build c cfg dek pr := by
        simp [build, hasP_cons, hp, setsCert, mix_beq]
      rw [e]; simp only [mixParse, hp]

theorem fold_ok (hl : CryptoLaws co) (he : EnvOK env c cfg) (k : ClsF c) (g : CfgF c cfg) (sig : Bytes)
    (hs : sig.length = cfg.sigLen) (dek : Option Bytes) :
    ∀ (order pr : List MixinName), ValidFrom c (pr.any setsCert) order → (∀ m ∈ order, m ∈ c.dataMixins) →
      order.foldlM (mixParse env c dek (imgOf co c cfg sig)) (build c cfg dek pr)
        = .ok (build c cfg dek (order.reverse ++ pr))
  | [], pr, _, _ => rfl
  | m :: rest, pr, hv, hmem => by
    rw [List.foldlM_cons, step hl he k g sig hs dek m (hmem m (by simp)) pr hv.1]
    have ih := fold_ok hl he k g sig hs dek rest (m :: pr)
      (by rw [List.any_cons, Bool.or_comm]; exact hv.2) (fun x hx => hmem x (by simp [hx]))
    simp only [bind, Except.bind, ih, List.reverse_cons, List.append_assoc, List.singleton_append]

end image


/-! ### the parsed object -/

section image
variable {co : CryptoOps} {env : Env} {c : Cls} {cfg : Cfg}

theorem hasP_data (c : Cls) (X base : MixinName)
    (h : ∀ m, (isData m && (provider m .mix_parse == some X)) = derivesFrom m base) :
    hasP X c.dataMixins = c.has base := any_data c _ _ h

theorem hasP_tz (k : ClsF c) : hasP .Mbi_MixinTrustZone c.dataMixins = true := by
  have h := k.hTz
  simp only [Cls.has, List.any_eq_true] at h
  obtain ⟨m, hm, hd⟩ := h
  simp only [hasP, List.any_eq_true]
  by_cases hdat : isData m = true
  · have hmem : m ∈ c.dataMixins := by simp [Cls.dataMixins, hm, hdat]
    have n3 := (parse_allowed k hmem).2.2.1
    refine ⟨m, hmem, ?_⟩
    cases m <;> first | rfl | (exact absurd hd (by decide)) | (exact absurd rfl n3)
  · cases m <;> first | (exact absurd hd (by decide)) | (exact absurd rfl hdat)

theorem any_setsCert (k : ClsF c) : c.dataMixins.any setsCert = true := by
  have h := k.hV1
  simp only [Cls.has, List.any_eq_true] at h
  obtain ⟨m, hm, hd⟩ := h
  have : m = .Mbi_MixinCertBlockV1 := by cases m <;> first | rfl | (revert hd; decide)
  subst this
  simp only [List.any_eq_true]
  exact ⟨.Mbi_MixinCertBlockV1, by simp [Cls.dataMixins, hm, isData], by decide⟩

/-- the parsed object before `disassemble_image` -/
def preCanon (c : Cls) (cfg : Cfg) (dek : Option Bytes) : Parsed := { canon c cfg dek with app := none, reloc := none }

theorem build_all (k : ClsF c) (g : CfgF c cfg) (dek : Option Bytes) (order : List MixinName)
    (hperm : order.Perm c.dataMixins) : build c cfg dek (order.reverse ++ []) = preCanon c cfg dek := by
  have hP : ∀ X, hasP X (order.reverse ++ []) = hasP X c.dataMixins := by
    intro X; simp only [hasP, List.append_nil, List.any_reverse]; exact hperm.any_eq
  have hS : (order.reverse ++ []).any setsCert = true := by
    rw [List.append_nil, List.any_reverse, hperm.any_eq]; exact any_setsCert k
  have hTZ : c.hasTrustZone = true := by simp [Cls.hasTrustZone, k.hTz]
  simp only [build, preCanon, canon, hP, hS, hasP_tz k, if_true,
    hasP_data c .Mbi_MixinLoadAddress .Mbi_MixinLoadAddress (by intro m; cases m <;> rfl),
    hasP_data c .Mbi_MixinImageVersion .Mbi_MixinImageVersion (by intro m; cases m <;> rfl),
    hasP_data c .Mbi_MixinImageSubType .Mbi_MixinImageSubType (by intro m; cases m <;> rfl),
    hasP_data c .Mbi_MixinHwKey .Mbi_MixinHwKey (by intro m; cases m <;> rfl),
    hasP_data c .Mbi_MixinKeyStore .Mbi_MixinKeyStore (by intro m; cases m <;> rfl),
    hasP_data c .Mbi_MixinHmac .Mbi_MixinHmac (by intro m; cases m <;> rfl),
    hTZ, k.hCtr, k.hV1, k.hMk, g.hBca, g.hFcf, certOf]
  simp only [Option.isSome_none, Bool.false_eq_true, if_false, reduceCtorEq, ite_self]
  congr 1
  split
  · cases h : cfg.keyStore with
    | none => rfl
    | some ks =>
      have := (g.hKs ks h).1
      cases ks with
      | nil => simp [keyStoreSize] at this
      | cons => rfl
  · rfl

theorem mixParseAll_eq (hl : CryptoLaws co) (he : EnvOK env c cfg) (k : ClsF c) (g : CfgF c cfg) (sig : Bytes)
    (hs : sig.length = cfg.sigLen) (dek : Option Bytes) :
    mixParseAll env c dek (imgOf co c cfg sig) = .ok (preCanon c cfg dek) := by
  have ho := k.hOrder
  rcases hpo : parseOrder c with _ | order
  · rw [hpo] at ho; cases ho
  · obtain ⟨hperm, hvalid⟩ := parseOrder_spec hpo
    have := fold_ok hl he k g sig hs dek order [] (by simpa using hvalid) (fun m hm => hperm.subset hm)
    rw [build_nil, build_all k g dek order hperm] at this
    simp only [mixParseAll, hpo, this]

end image


/-! ### the reverts -/

section image
variable {co : CryptoOps} {env : Env} {c : Cls} {cfg : Cfg}

theorem finalizeRevert_eq (hl : CryptoLaws co) (k : ClsF c) (g : CfgF c cfg) (sig : Bytes) (p : Parsed) :
    finalizeRevert c p (imgOf co c cfg sig) = .ok (rawOf c cfg ++ sig) := by
  have e0 : ∀ (x y : Bytes), x.take hmacOffset ++ (x.drop hmacOffset ++ y) = x ++ y := by
    intro x y; rw [← List.append_assoc, List.take_append_drop]
  simp only [finalizeRevert, resolve_finalize k]
  cases hH : c.has .Mbi_MixinHmac with
  | false =>
    simp only [Bool.false_eq_true, if_false, imgOf, insOf, hH, List.append_nil, rawOf, List.append_assoc, e0]
  | true =>
    have hal : hmacOffset ≤ (ivtApp c cfg).length := by rw [ivtApp_length k g]; exact g.hAppH hH
    have hsh : hmacOffset + hmacSize + (if getKeyStorePresented (flagsIn (imgOf co c cfg sig)) = true then keyStoreSize else 0)
        = ((ivtApp c cfg).take hmacOffset ++ insOf co c cfg).length := by
      rw [img_flags co k g, (flags_get k g).2.2.2.1, List.length_append, insOf_length hl g, shift, hH, ksLen_eq g,
        List.length_take]
      simp only [if_true]; omega
    have e1 : (imgOf co c cfg sig).take hmacOffset = (ivtApp c cfg).take hmacOffset := by
      simp only [imgOf, List.append_assoc]
      rw [List.take_append_of_le_length (by rw [List.length_take]; omega), List.take_take, Nat.min_self]
    have e2 : (imgOf co c cfg sig).drop ((ivtApp c cfg).take hmacOffset ++ insOf co c cfg).length
        = (ivtApp c cfg).drop hmacOffset ++ relocBlk cfg ++ certInImage c cfg ++ cfg.tz.bytes ++ sig := by
      unfold imgOf; rw [List.drop_left]
    simp only [if_true, hsh, e1, e2, rawOf, List.append_assoc, e0]

theorem signRevert_eq (k : ClsF c) (g : CfgF c cfg) (sig : Bytes) (hs : sig.length = cfg.sigLen) (p : Parsed)
    (hp : p.cert = some (certOf c cfg)) :
    signRevert c p (rawOf c cfg ++ sig) = .ok (rawOf c cfg) := by
  have hne : ¬ (rawOf c cfg ++ sig).isEmpty = true := by
    have := g.hSigLen
    simp only [List.isEmpty_iff, List.append_eq_nil_iff, not_and]
    intro _ h; rw [h] at hs; simp at hs; omega
  simp only [signRevert, k.sk, hp, if_neg hne, certOf, not_true_eq_false, if_false, dropLast, List.length_append, hs,
    Nat.add_sub_cancel, List.take_left]

theorem preCanon_cert (k : ClsF c) (dek : Option Bytes) : (preCanon c cfg dek).cert = some (certOf c cfg) := by
  simp only [preCanon, canon, k.hV1, if_true, certOf]

theorem parseImage_eq (hl : CryptoLaws co) (he : EnvOK env c cfg) (k : ClsF c) (g : CfgF c cfg) (sig : Bytes)
    (hs : sig.length = cfg.sigLen) (dek : Option Bytes) :
    parseImage co env c dek (imgOf co c cfg sig) = .ok (canon c cfg dek) := by
  simp only [parseImage, mixParseAll_eq hl he k g sig hs dek, bind, Except.bind, finalizeRevert_eq hl k g,
    signRevert_eq k g sig hs _ (preCanon_cert k dek), postEncryptRevert, k.rPe, encryptRevert, k.rEnc,
    disassemble_eq k g dek (preCanon c cfg dek) rfl]
  rfl

end image


/-! ### re-export of the parsed image -/

/-- the configuration the parsed image gives -/
def cfg2 (c : Cls) (cfg : Cfg) : Cfg := { cfg with app := cleanIvt (appData cfg), cert := certInImage c cfg }

section image
variable {co : CryptoOps} {env : Env} {c : Cls} {cfg : Cfg}

theorem toCfg_eq (k : ClsF c) (g : CfgF c cfg) (dek : Option Bytes)
    (hdek : c.has .Mbi_MixinHmac = true → dek = cfg.hmacKey) : (canon c cfg dek).toCfg = cfg2 c cfg := by
  have hTZ : c.hasTrustZone = true := by simp [Cls.hasTrustZone, k.hTz]
  have h1 : (if c.has .Mbi_MixinLoadAddress = true then cfg.loadAddress else 0) = cfg.loadAddress := by
    cases h : c.has .Mbi_MixinLoadAddress <;> simp [g.dLA, h]
  have h2 : (if c.has .Mbi_MixinImageVersion = true then cfg.imageVersion else 0) = cfg.imageVersion := by
    cases h : c.has .Mbi_MixinImageVersion <;> simp [g.dVer, h]
  have h3 : (if c.has .Mbi_MixinImageSubType = true then cfg.subType else 0) = cfg.subType := by
    cases h : c.has .Mbi_MixinImageSubType <;> simp [g.dSub, h]
  have h4 : (c.has .Mbi_MixinHwKey && cfg.hwKey) = cfg.hwKey := by
    cases h : c.has .Mbi_MixinHwKey <;> simp [g.dHw, h]
  have h5 : (if c.has .Mbi_MixinHmac = true then dek else none) = cfg.hmacKey := by
    cases h : c.has .Mbi_MixinHmac with
    | true => simp [hdek h]
    | false =>
      cases hk : cfg.hmacKey with
      | none => simp
      | some key => have := (g.hHk key hk).2; rw [h] at this; cases this
  have h6 : (if c.has .Mbi_MixinRelocTable = true then cfg.reloc else none) = cfg.reloc := by
    cases hr : cfg.reloc with
    | none => simp
    | some es => simp [(g.hRel es hr).2.1]
  have h7 : (if c.has .Mbi_MixinBca = true then cfg.bca else none) = cfg.bca := by simp [g.hBca]
  have h8 : (if c.has .Mbi_MixinFcf = true then cfg.fcf else none) = cfg.fcf := by simp [g.hFcf]
  have h9 := (build_all k g dek c.dataMixins (List.Perm.refl _))
  have h10 : (canon c cfg dek).keyStore = cfg.keyStore := by
    have : (preCanon c cfg dek).keyStore = (canon c cfg dek).keyStore := rfl
    rw [← this, ← h9]
    simp only [build, List.append_nil, hasP, List.any_reverse]
    cases hks : cfg.keyStore with
    | none => simp
    | some ks =>
      have := (g.hKs ks hks).2
      rw [← hasP_data c .Mbi_MixinKeyStore .Mbi_MixinKeyStore (by intro m; cases m <;> rfl)] at this
      simp only [hasP] at this
      simp [this]
  have hc := h10
  simp only [canon] at hc
  simp only [Parsed.toCfg, cfg2]
  simp only [canon, k.aClean, if_true, Option.getD_some, h1, h2, h3, h4, h5, h6, h7, h8, hTZ, k.hCtr, k.hV1, k.hMk, hc,
    Option.isSome_none, Bool.false_eq_true, if_false, reduceCtorEq, g.hFwV, g.hDig, g.dCtr]

end image


theorem cfg2_loadAddress (c : Cls) (cfg : Cfg) : (cfg2 c cfg).loadAddress = cfg.loadAddress := by unfold cfg2; rfl
theorem cfg2_imageVersion (c : Cls) (cfg : Cfg) : (cfg2 c cfg).imageVersion = cfg.imageVersion := by unfold cfg2; rfl
theorem cfg2_subType (c : Cls) (cfg : Cfg) : (cfg2 c cfg).subType = cfg.subType := by unfold cfg2; rfl
theorem cfg2_tz (c : Cls) (cfg : Cfg) : (cfg2 c cfg).tz = cfg.tz := by unfold cfg2; rfl
theorem cfg2_hwKey (c : Cls) (cfg : Cfg) : (cfg2 c cfg).hwKey = cfg.hwKey := by unfold cfg2; rfl
theorem cfg2_keyStore (c : Cls) (cfg : Cfg) : (cfg2 c cfg).keyStore = cfg.keyStore := by unfold cfg2; rfl
theorem cfg2_hmacKey (c : Cls) (cfg : Cfg) : (cfg2 c cfg).hmacKey = cfg.hmacKey := by unfold cfg2; rfl
theorem cfg2_ctrIv (c : Cls) (cfg : Cfg) : (cfg2 c cfg).ctrIv = cfg.ctrIv := by unfold cfg2; rfl
theorem cfg2_reloc (c : Cls) (cfg : Cfg) : (cfg2 c cfg).reloc = cfg.reloc := by unfold cfg2; rfl
theorem cfg2_sigLen (c : Cls) (cfg : Cfg) : (cfg2 c cfg).sigLen = cfg.sigLen := by unfold cfg2; rfl
theorem cfg2_fwVersion (c : Cls) (cfg : Cfg) : (cfg2 c cfg).fwVersion = cfg.fwVersion := by unfold cfg2; rfl
theorem cfg2_digest (c : Cls) (cfg : Cfg) : (cfg2 c cfg).digest = cfg.digest := by unfold cfg2; rfl
theorem cfg2_bca (c : Cls) (cfg : Cfg) : (cfg2 c cfg).bca = cfg.bca := by unfold cfg2; rfl
theorem cfg2_fcf (c : Cls) (cfg : Cfg) : (cfg2 c cfg).fcf = cfg.fcf := by unfold cfg2; rfl
theorem cfg2_app (c : Cls) (cfg : Cfg) : (cfg2 c cfg).app = cleanIvt (appData cfg) := by unfold cfg2; rfl
theorem cfg2_cert (c : Cls) (cfg : Cfg) : (cfg2 c cfg).cert = certInImage c cfg := by unfold cfg2; rfl

/-- rewrite the unchanged fields of `cfg2` -/
local macro "cfg2_simp" : tactic =>
  `(tactic| simp only [cfg2_loadAddress, cfg2_imageVersion, cfg2_subType, cfg2_tz, cfg2_hwKey, cfg2_keyStore, cfg2_hmacKey, cfg2_ctrIv, cfg2_reloc, cfg2_sigLen, cfg2_fwVersion, cfg2_digest, cfg2_bca, cfg2_fcf])
local macro "cfg2_simp_at" h:ident : tactic =>
  `(tactic| simp only [cfg2_loadAddress, cfg2_imageVersion, cfg2_subType, cfg2_tz, cfg2_hwKey, cfg2_keyStore, cfg2_hmacKey, cfg2_ctrIv, cfg2_reloc, cfg2_sigLen, cfg2_fwVersion, cfg2_digest, cfg2_bca, cfg2_fcf] at $h:ident)

theorem flagsOf2 (c : Cls) (cfg : Cfg) : flagsOf c (cfg2 c cfg) = flagsOf c cfg := by
  unfold flagsOf; cfg2_simp

section image
variable {co : CryptoOps} {env : Env} {c : Cls} {cfg : Cfg}

theorem appData2 (k : ClsF c) (g : CfgF c cfg) : appData (cfg2 c cfg) = cleanIvt (appData cfg) := by
  have hge := app_ge k g.hval
  unfold appData
  rw [cfg2_app]
  apply align4_of_aligned
  rw [cleanIvt_length _ hge]
  exact align4_length_mod _

theorem appData2_length (k : ClsF c) (g : CfgF c cfg) : (appData (cfg2 c cfg)).length = (appData cfg).length := by
  rw [appData2 k g, cleanIvt_length _ (app_ge k g.hval)]

theorem cert2_length (k : ClsF c) (g : CfgF c cfg) : (cfg2 c cfg).cert.length = cfg.cert.length := by
  rw [cfg2_cert]; exact certInImage_length k g

theorem mixLenOf2 (k : ClsF c) (g : CfgF c cfg) (d : MixinName) : mixLenOf c (cfg2 c cfg) d = mixLenOf c cfg d := by
  have h1 := appData2_length k g
  have h2 := cert2_length k g
  unfold mixLenOf relocLen manifestLen
  rw [h1, h2]
  cfg2_simp

theorem totalLen2 (k : ClsF c) (g : CfgF c cfg) : totalLen c (cfg2 c cfg) = totalLen c cfg := by
  have : mixLen c (cfg2 c cfg) = mixLen c cfg := by funext m; simp only [mixLen, mixLenOf2 k g]
  simp only [totalLen, this]

theorem legacyLen2 (k : ClsF c) (g : CfgF c cfg) : totalLenForCertBlock c (cfg2 c cfg) = totalLenForCertBlock c cfg := by
  have : mixLen c (cfg2 c cfg) = mixLen c cfg := by funext m; simp only [mixLen, mixLenOf2 k g]
  simp only [totalLenForCertBlock, this]

theorem appLen2 (k : ClsF c) (g : CfgF c cfg) : appLen c (cfg2 c cfg) = appLen c cfg := by
  have h1 := appData2_length k g
  have : mixAppLen c (cfg2 c cfg) = mixAppLen c cfg := by
    funext m; simp only [mixAppLen, h1, relocLen, cfg2_reloc]
  simp only [appLen, this]

theorem cleanIvt_rd32 (app : Bytes) (h : minIvtSize ≤ app.length) (off : Nat) (ho : off + 4 ≤ 32) :
    rd32 (cleanIvt app) off = rd32 app off := by
  simp only [minIvtSize] at h
  rw [cleanIvt_eq app h]
  simp only [List.append_assoc]
  rw [rd32_append_left _ _ _ (by rw [List.length_take]; omega), rd32_take _ _ _ ho]

theorem validate2 (k : ClsF c) (g : CfgF c cfg) : validate c (cfg2 c cfg) = .ok () := by
  have hge := app_ge k g.hval
  apply forM_ok_of
  intro m hm
  have := forM_ok _ _ g.hval m hm
  rw [← this]
  simp only [validateMixin, appData2 k g, cleanIvt_length _ hge, cleanIvt_rd32 _ hge 0 (by omega),
    cleanIvt_rd32 _ hge 4 (by omega), cleanIvt_rd32 _ hge 8 (by omega)]
  cfg2_simp

theorem packGuard2 (k : ClsF c) (g : CfgF c cfg) : packGuard c (cfg2 c cfg) = .ok () := by
  rw [← g.hpack]
  simp only [packGuard, totalLen2 k g, flagsOf2]
  cfg2_simp

theorem cfgF2 (k : ClsF c) (g : CfgF c cfg) : CfgF c (cfg2 c cfg) := by
  obtain ⟨f1, f2, f3, f4⟩ := certSet_facts cfg.cert (totalLenForCertBlock c cfg).toNat g.hCertLen
  rw [← certInImage_eq cfg k] at f1 f2 f3 f4
  constructor
  · exact validate2 k g
  · exact packGuard2 k g
  · cfg2_simp; exact g.hLA
  · cfg2_simp; exact g.hVer
  · cfg2_simp; exact g.hSub
  · rw [flagsOf2]; exact g.hFlags
  · cfg2_simp; exact g.hTzc
  · cfg2_simp; exact g.hRel
  · cfg2_simp; exact g.hKs
  · cfg2_simp; exact g.hHk
  · cfg2_simp; exact g.hHkN
  · intro h; rw [appData2_length k g]; exact g.hAppH h
  · cfg2_simp; exact g.hBca
  · cfg2_simp; exact g.hFcf
  · rw [cfg2_cert, f1]; exact g.hCertLen
  · rw [cfg2_cert, f2]; exact g.hCertSig
  · rw [cfg2_cert, f3]; exact g.hCertHdr
  · rw [cfg2_cert, f1, ← g.hCertSz]; unfold certV1Size; rw [f4]
  · cfg2_simp; exact g.hSigLen
  · cfg2_simp; exact g.hDig
  · cfg2_simp; exact g.hFwV
  · cfg2_simp; exact g.dVer
  · cfg2_simp; exact g.dSub
  · cfg2_simp; exact g.dHw
  · cfg2_simp; exact g.dLA
  · cfg2_simp; exact g.dCtr

end image


section image
variable {co : CryptoOps} {env : Env} {c : Cls} {cfg : Cfg}

theorem certSet_idem (cert : Bytes) (v : Nat) (h : certHeaderSize ≤ cert.length) :
    certSetImageLength (certSetImageLength cert v) v = certSetImageLength cert v := by
  simp only [certHeaderSize] at h
  have e : certSetImageLength cert v = cert.take 20 ++ le32 v ++ cert.drop 24 := by
    simp only [certSetImageLength, setAt, certImageLengthOffset, le32_length]
  rw [e]
  exact setAt_mid _ _ _ _ _ (by rw [List.length_take, certImageLengthOffset]; omega) rfl

theorem certInImage2 (k : ClsF c) (g : CfgF c cfg) : certInImage c (cfg2 c cfg) = certInImage c cfg := by
  rw [certInImage_eq _ k, legacyLen2 k g, cfg2_cert, certInImage_eq cfg k]
  exact certSet_idem _ _ g.hCertLen

theorem ivtApp2 (k : ClsF c) (g : CfgF c cfg) : ivtApp c (cfg2 c cfg) = ivtApp c cfg := by
  unfold ivtApp
  rw [totalLen2 k g, appLen2 k g, appData2 k g, updateIvt_cleanIvt _ _ _ _ _ (app_ge k g.hval)]
  unfold updateIvt
  simp only [flagsOf2, cfg2_loadAddress, cfg2_sigLen]

theorem relocBlk2 (k : ClsF c) (g : CfgF c cfg) : relocBlk (cfg2 c cfg) = relocBlk cfg := by
  unfold relocBlk
  rw [appData2_length k g, cfg2_reloc]

theorem rawOf2 (k : ClsF c) (g : CfgF c cfg) : rawOf c (cfg2 c cfg) = rawOf c cfg := by
  unfold rawOf
  rw [ivtApp2 k g, relocBlk2 k g, certInImage2 k g, cfg2_tz]

theorem imgOf2 (k : ClsF c) (g : CfgF c cfg) (sig : Bytes) : imgOf co c (cfg2 c cfg) sig = imgOf co c cfg sig := by
  unfold imgOf insOf computeHmac
  rw [ivtApp2 k g, relocBlk2 k g, certInImage2 k g]
  simp only [cfg2_tz, cfg2_keyStore, cfg2_hmacKey]

/-- the image without its signature -/
def bodyOf (co : CryptoOps) (c : Cls) (cfg : Cfg) : Bytes :=
  (ivtApp c cfg).take hmacOffset ++ insOf co c cfg
    ++ ((ivtApp c cfg).drop hmacOffset ++ relocBlk cfg ++ certInImage c cfg ++ cfg.tz.bytes)

theorem imgOf_body (co : CryptoOps) (c : Cls) (cfg : Cfg) (sig : Bytes) : imgOf co c cfg sig = bodyOf co c cfg ++ sig := by
  simp only [imgOf, bodyOf, List.append_assoc]

end image

end SignedV1

variable {co : CryptoOps} {env : Env} {c : Cls} {cfg : Cfg} {signer : Signer}

theorem disassemble_collect_signedV1 (h : Hyp co env c cfg signer) (hf : c.family = some .signedV1) (dek : Option Bytes)
    (p : Parsed) (hp : p.tz = cfg.tz) (hcert : p.cert.isSome = c.hasAttr .cert_block) (hr : p.reloc = none) :
    ∃ raw, collect c cfg = .ok raw
      ∧ disassemble c p raw = .ok { p with app := (canon c cfg dek).app, reloc := (canon c cfg dek).reloc } := by
  have k := SignedV1.clsF h.hcls hf
  have g := SignedV1.cfgF k h.hcfg
  exact ⟨_, SignedV1.collect_eq k g, SignedV1.disassemble_eq k g dek p hr⟩

theorem parse_export_signedV1 (h : Hyp co env c cfg signer) (hf : c.family = some .signedV1) (dek : Option Bytes) :
    ∃ e, exportImage co c cfg signer = .ok e ∧ parseImage co env c dek e = .ok (canon c cfg dek) := by
  have k := SignedV1.clsF h.hcls hf
  have g := SignedV1.cfgF k h.hcfg
  exact ⟨_, SignedV1.export_eq signer k g, SignedV1.parseImage_eq h.hlaws h.henv k g _ (h.hsig _) dek⟩

theorem reexport_signedV1 (h : Hyp co env c cfg signer) (hf : c.family = some .signedV1) (signer' : Signer)
    (hs' : ∀ m, (signer' m).length = cfg.sigLen) (dek : Option Bytes)
    (hdek : c.has .Mbi_MixinHmac = true → dek = cfg.hmacKey) :
    ∃ e e', exportImage co c cfg signer = .ok e ∧ exportImage co c (canon c cfg dek).toCfg signer' = .ok e'
      ∧ eqOutsideSig c cfg e e' := by
  have k := SignedV1.clsF h.hcls hf
  have g := SignedV1.cfgF k h.hcfg
  have g2 := SignedV1.cfgF2 k g
  refine ⟨_, SignedV1.imgOf co c cfg (signer' (SignedV1.rawOf c cfg)), SignedV1.export_eq signer k g, ?_, ?_⟩
  · rw [SignedV1.toCfg_eq k g dek hdek, SignedV1.export_eq signer' k g2, SignedV1.imgOf2 k g, SignedV1.rawOf2 k g]
  · have l1 := h.hsig (SignedV1.rawOf c cfg)
    have l2 := hs' (SignedV1.rawOf c cfg)
    simp only [eqOutsideSig, sigOffset, k.sk, SignedV1.imgOf_body, List.length_append, l1, l2, Nat.add_sub_cancel,
      List.take_left, true_and]
    rw [← l1, ← List.length_append, List.drop_length]
    symm
    apply List.drop_of_length_le
    simp only [List.length_append, l1, l2]; omega

theorem header_describes_signedV1 (h : Hyp co env c cfg signer) (hf : c.family = some .signedV1) :
    ∃ e, exportImage co c cfg signer = .ok e
      ∧ rd32 e ivtImageLengthOffset = (if c.zeroTotalLength then 0 else e.length)
      ∧ rd32 e ivtImageFlagsOffset = flagsOf c cfg
      ∧ rd32 e ivtLoadAddrOffset = (if c.has .Mbi_MixinLoadAddress then cfg.loadAddress else 0)
      ∧ (c.imageType = 0 → rd32 e ivtCrcCertificateOffset = 0)
      ∧ (c.signKind = .crc → rd32 e ivtCrcCertificateOffset
            = crc32m (e.take ivtCrcCertificateOffset ++ e.drop (ivtCrcCertificateOffset + 4)))
      ∧ (c.hasAttr .cert_block = true →
          rd32 e ivtCrcCertificateOffset = appLen c cfg
          ∧ (let off := appLen c cfg + (if c.has .Mbi_MixinHmac then hmacSize + (cfg.keyStore.getD []).length else 0)
             slice e off (off + cfg.cert.length)
               = (if c.has .Mbi_MixinCertBlockV1 then certInImage c cfg else cfg.cert))) := by
  have k := SignedV1.clsF h.hcls hf
  have g := SignedV1.cfgF k h.hcfg
  obtain ⟨w1, w2, w3, w4⟩ := SignedV1.ivtApp_words k g
  refine ⟨_, SignedV1.export_eq signer k g, ?_, ?_, ?_, ?_, ?_, ?_⟩
  · rw [SignedV1.imgOf_head co k g _ _ (by decide), w1, SignedV1.imgOf_length_total h.hlaws k g _ (h.hsig _)]
  · rw [SignedV1.imgOf_head co k g _ _ (by decide), w2]
  · rw [SignedV1.imgOf_head co k g _ _ (by decide), w4]
  · intro h0; exact absurd h0 k.hT0
  · intro hc; rw [k.sk] at hc; cases hc
  · intro _
    refine ⟨by rw [SignedV1.imgOf_head co k g _ _ (by decide), w3], ?_⟩
    have e : appLen c cfg + (if c.has .Mbi_MixinHmac then hmacSize + (cfg.keyStore.getD []).length else 0)
        = (SignedV1.preOf co c cfg).length := by
      rw [SignedV1.preOf_length h.hlaws k g]; rfl
    simp only [k.hV1, if_true]
    rw [e, SignedV1.imgOf_split, ← SignedV1.certInImage_length k g]
    exact slice_append_mid _ _ _

theorem total_len_sum_signedV1 (h : Hyp co env c cfg signer) (hf : c.family = some .signedV1) :
    ∃ e, exportImage co c cfg signer = .ok e
      ∧ (e.length : Int) = totalLen c cfg + (if c.signKind = .rsa then cfg.sigLen else 0)
          + (if c.family = some .encrypted then encIvtCopySize + encIvSize else 0) := by
  have k := SignedV1.clsF h.hcls hf
  have g := SignedV1.cfgF k h.hcfg
  refine ⟨_, SignedV1.export_eq signer k g, ?_⟩
  rw [SignedV1.imgOf_length h.hlaws k g, SignedV1.totalLen_nat k g, h.hsig, k.sk, hf]
  simp

end SpsdkVerif.Mbi
