/-
C18 — one process run to completion on an arbitrary harmless cache state
(`crash_states_harmless`, `answers_equal_disabled`).
-/
import SpsdkVerif.Proofs.DbCacheSpec

namespace SpsdkVerif.DbCache
open SpsdkVerif

/-! ### running to completion -/

/-- the cache file is missing or complete and valid -/
def FileOK (env : Env) (f : Option Bytes) : Prop := f = none ∨ ∃ b, f = some b ∧ Valid env b

/-- from `(sh, p)` the process (index 0) runs to `done` with the right answers, lock free, file fine -/
def Fin (env : Env) (G : Guards) (asked : List Nat) (sh : Sh) (p : Proc) : Prop :=
  ∃ n sh' p', runSeq env G n sh p = (sh', p') ∧ p'.pc = .done ∧ p'.answers = disabledAnswers env asked ∧
    sh'.lock = none ∧ FileOK env sh'.file

theorem Fin_step {env : Env} {G : Guards} {asked : List Nat} {sh : Sh} {p : Proc}
    (h : ∃ s, pstep env G 0 sh p = some s ∧ Fin env G asked s.1 s.2) : Fin env G asked sh p := by
  obtain ⟨⟨sh1, p1⟩, hs, n, sh', p', hr, rest⟩ := h
  exact ⟨n + 1, sh', p', by simp [runSeq, hs, hr], rest⟩

theorem Fin_done {env : Env} {G : Guards} {asked : List Nat} {sh : Sh} {p : Proc}
    (hpc : p.pc = .done) (ha : p.answers = disabledAnswers env asked) (hl : sh.lock = none)
    (hf : FileOK env sh.file) : Fin env G asked sh p :=
  ⟨0, sh, p, rfl, hpc, ha, hl, hf⟩

theorem disabledAnswers_cons (env : Env) (k : Nat) (rest : List Nat) :
    disabledAnswers env (k :: rest) = (k, env.loadCfg k) :: disabledAnswers env rest := rfl

theorem lookup_mem {k c : Nat} : ∀ {m : List (Nat × Nat)}, m.lookup k = some c → (k, c) ∈ m
  | [], h => by simp at h
  | (a, b) :: m, h => by
    by_cases hk : k = a
    · subst hk
      simp [List.lookup] at h
      subst h
      simp
    · have : (k == a) = false := by simpa using hk
      simp [List.lookup, this] at h
      exact List.mem_cons_of_mem _ (lookup_mem h)

/-- `wfGuards`, field by field -/
structure WF (G : Guards) : Prop where
  lFnf : Exc.caughtBy G.l.caught .FileNotFoundError = true
  typeCheckInTry : G.l.typeChecked = true → G.l.typeCheckInTry = true
  lTypeExc : G.l.typeChecked = true → Exc.caughtBy G.l.caught G.l.typeExc = true
  fpChecked : G.l.fpChecked = true
  staleClears : G.l.staleClearsLoaded = true
  handlerClears : G.l.handlerClearsLoaded = true
  staleInTry : G.l.removeStale = true → G.l.removeStaleInTry = true
  tolerates : G.l.handlerRemoves = true → Exc.caughtBy G.l.handlerRemoveTolerates .FileNotFoundError = true
  lockWrite : G.w.lockWrite = true
  allInTry : G.w.allInTry = true
  wFnf : Exc.caughtBy G.w.caught .FileNotFoundError = true
  mTypeExc : G.w.mergesExisting = true → G.w.mergeTypeChecked = true →
    Exc.caughtBy G.w.caught G.w.mergeTypeExc = true

theorem WF.of {G : Guards} (hG : wfGuards G = true) : WF G := by
  unfold wfGuards at hG
  simp only [Bool.and_eq_true, Bool.or_eq_true, Bool.not_eq_true', List.all_eq_true] at hG
  obtain ⟨⟨⟨⟨⟨⟨⟨⟨⟨⟨h1, h2⟩, h3⟩, h4⟩, h5⟩, h6⟩, h7⟩, h8⟩, h9⟩, h10⟩, h11⟩ := hG
  have hmem : Exc.FileNotFoundError ∈ ioExcs := by simp [ioExcs]
  refine ⟨h1 _ hmem, ?_, ?_, h3, h4, h5, ?_, ?_, h8, h9, h10 _ hmem, ?_⟩
  · intro h; rcases h2 with h2 | h2
    · rw [h] at h2; cases h2
    · exact h2.1
  · intro h; rcases h2 with h2 | h2
    · rw [h] at h2; cases h2
    · exact h2.2
  · intro h; rcases h6 with h6 | h6
    · rw [h] at h6; cases h6
    · exact h6
  · intro h; rcases h7 with h7 | h7
    · rw [h] at h7; cases h7
    · exact h7
  · intro h h'; rcases h11 with h11 | h11
    · rw [h] at h11; cases h11
    · rcases h11.1.1 with h12 | h12
      · rw [h'] at h12; cases h12
      · exact h12

theorem valid_written {env : Env} {measured : List Exc} (hP : PickleOK env measured) (p : Proc)
    (hmem : ∀ e ∈ p.mem, EntOK env e) (hfp : p.selfFp = some (env.fpOf (keys p.mem))) :
    Valid env (env.pickle (written env p)) :=
  ⟨written env p, hP.roundtrip _, hmem, by simp [written, hfp]⟩

/-- `open('wb')` → `pickle.dump` → release → back to the queries -/
theorem write_fin {env : Env} {G : Guards} {measured : List Exc} {asked : List Nat}
    (hG : WF G) (hP : PickleOK env measured)
    (sh : Sh) (p : Proc) (rest : List Nat)
    (hpc : p.pc = .wTrunc) (htodo : p.todo = rest)
    (hmem : ∀ e ∈ p.mem, EntOK env e) (hfp : p.selfFp = some (env.fpOf (keys p.mem)))
    (hK : ∀ sh' p', sh'.lock = none → (∀ e ∈ p'.mem, EntOK env e) → p'.answers = p.answers →
        FileOK env sh'.file → Fin env G asked sh' (runQueries env G p' rest)) :
    Fin env G asked sh p := by
  have hlw := hG.lockWrite
  have hv := valid_written hP p hmem hfp
  apply Fin_step; simp [pstep, hpc]
  apply Fin_step; simp [pstep, leaveWrite, hlw]
  apply Fin_step; simp [pstep]
  rw [htodo]
  apply hK
  · rfl
  · exact hmem
  · rfl
  · right
    by_cases ha : G.w.atomicWrite = true
    · simp [ha]; exact hv
    · simp [ha]; exact hv

theorem merged_ok {env : Env} (p : Proc) (v : Val) (hmem : ∀ e ∈ p.mem, EntOK env e)
    (hv : ∀ e ∈ v.ents, EntOK env e) : ∀ e ∈ merged p v, EntOK env e := by
  intro e he
  unfold merged at he
  split at he
  · rcases List.mem_append.mp he with h | h
    · exact hmem e h
    · exact hv e (List.mem_filter.mp h).1
  · exact hmem e he

/-- the merge read (`open('rb')` → `pickle.load` → `isinstance` → merge), then the write -/
theorem merge_fin {env : Env} {G : Guards} {measured : List Exc} {asked : List Nat}
    (hG : WF G) (hP : PickleOK env measured) (hm : G.w.mergesExisting = true)
    (sh : Sh) (p : Proc) (rest : List Nat)
    (hpc : p.pc = .wOpenR) (htodo : p.todo = rest)
    (hmem : ∀ e ∈ p.mem, EntOK env e)
    (hfile : FileOK env sh.file)
    (hK : ∀ sh' p', sh'.lock = none → (∀ e ∈ p'.mem, EntOK env e) → p'.answers = p.answers →
        FileOK env sh'.file → Fin env G asked sh' (runQueries env G p' rest)) :
    Fin env G asked sh p := by
  have hlw := hG.lockWrite
  rcases hfile with hf | ⟨b, hf, v, hu, hents, hfpv⟩
  · apply Fin_step; simp [pstep, hpc, hf, leaveWrite, hlw]
    apply Fin_step; simp [pstep, writerRaise, hG.allInTry, hG.wFnf]
    rw [htodo]
    exact hK _ _ rfl hmem rfl (Or.inl hf)
  · apply Fin_step; simp [pstep, hpc, hf]
    by_cases hty : (G.w.mergeTypeChecked && v.ty != env.expectedTy) = true
    · -- a valid file of another class: the type check raises, the writer's `try` catches, the file stays
      have hmc : G.w.mergeTypeChecked = true := by
        simp only [Bool.and_eq_true] at hty; exact hty.1
      apply Fin_step; simp [pstep, hu, hty, leaveWrite, hlw]
      apply Fin_step; simp [pstep, writerRaise, hG.allInTry, hG.mTypeExc hm hmc]
      rw [htodo]
      exact hK _ _ rfl hmem rfl (Or.inr ⟨b, hf, v, hu, hents, hfpv⟩)
    · apply Fin_step; simp [pstep, hu, hty]
      refine write_fin hG hP _ _ rest rfl htodo ?_ rfl hK
      exact merged_ok _ v hmem hents

theorem writer_fin {env : Env} {G : Guards} {measured : List Exc} {asked : List Nat}
    (hG : WF G) (hP : PickleOK env measured)
    (sh : Sh) (p : Proc) (rest : List Nat)
    (hl : sh.lock = none) (hpc : p.pc = writerStart G) (htodo : p.todo = rest)
    (hmem : ∀ e ∈ p.mem, EntOK env e) (hfp : p.selfFp = some (env.fpOf (keys p.mem)))
    (hfile : G.w.mergesExisting = true → FileOK env sh.file)
    (hK : ∀ sh' p', sh'.lock = none → (∀ e ∈ p'.mem, EntOK env e) → p'.answers = p.answers →
        FileOK env sh'.file → Fin env G asked sh' (runQueries env G p' rest)) :
    Fin env G asked sh p := by
  have hlw := hG.lockWrite
  simp [writerStart, hlw] at hpc
  apply Fin_step; simp [pstep, hpc, hl]
  by_cases hm : G.w.mergesExisting = true
  · have hfile := hfile hm
    by_cases hg : G.w.mergeExistsGuard = true
    · simp [afterWAcquire, hm, hg]
      apply Fin_step; simp [pstep]
      rcases hfile with hf | ⟨b, hf, hv⟩
      · simp [hf]
        exact write_fin hG hP _ _ rest rfl htodo hmem hfp hK
      · simp [hf]
        exact merge_fin hG hP hm _ _ rest rfl htodo hmem (Or.inr ⟨b, rfl, hv⟩) hK
    · simp [afterWAcquire, hm, hg]
      exact merge_fin hG hP hm _ _ rest rfl htodo hmem hfile hK
  · simp [afterWAcquire, hm]
    exact write_fin hG hP _ _ rest rfl htodo hmem hfp hK

/-- the query loop, from any state between two queries -/
theorem queries_fin {env : Env} {G : Guards} {measured : List Exc} {asked : List Nat}
    (hG : WF G) (hP : PickleOK env measured) (rest : List Nat) : ∀ (sh : Sh) (p : Proc),
    sh.lock = none → (∀ e ∈ p.mem, EntOK env e) →
    p.answers ++ disabledAnswers env rest = disabledAnswers env asked →
    (FileOK env sh.file ∨ (G.w.mergesExisting = false ∧ p.selfFp = none ∧ p.mem = [] ∧ rest ≠ [])) →
    Fin env G asked sh (runQueries env G p rest) := by
  induction rest with
  | nil =>
    intro sh p hl _ ha hf
    refine Fin_done rfl ?_ hl ?_
    · simpa [disabledAnswers, runQueries] using ha
    · rcases hf with hf | ⟨_, _, _, h⟩
      · exact hf
      · exact absurd rfl h
  | cons k rest ih =>
    intro sh p hl hmem ha hf
    rw [disabledAnswers_cons] at ha
    unfold runQueries
    split
    · rename_i c hc
      have hin := lookup_mem hc
      have hc' : c = env.loadCfg k := hmem _ hin
      refine ih sh _ hl ?_ ?_ ?_
      · exact hmem
      · simp [hc', ← ha]
      · rcases hf with hf | ⟨_, _, h, _⟩
        · exact Or.inl hf
        · rw [h] at hin; cases hin
    · have hmem' : ∀ e ∈ p.mem ++ [(k, env.loadCfg k)], EntOK env e := by
        intro e he
        rcases List.mem_append.mp he with h | h
        · exact hmem e h
        · simp at h; subst h; rfl
      have ha' : (p.answers ++ [(k, env.loadCfg k)]) ++ disabledAnswers env rest = disabledAnswers env asked := by
        simp [← ha]
      dsimp only
      split
      · rename_i hfp
        refine ih sh _ hl ?_ ?_ ?_
        · exact hmem'
        · exact ha'
        rcases hf with hf | ⟨_, h, _, _⟩
        · exact Or.inl hf
        · rw [h] at hfp; cases hfp
      · apply writer_fin hG hP sh _ rest hl rfl rfl hmem' rfl
        · intro hm
          rcases hf with hf | ⟨h, _⟩
          · exact hf
          · rw [hm] at h; cases h
        · intro sh' p' hl' hm' hans hf'
          apply ih sh' p' hl' hm'
          · rw [hans]; exact ha'
          · exact Or.inl hf'

/-! ### the loader -/

/-- end of the loader: the loaded-object variable holds nothing, or a trusted object -/
theorem finish_fin {env : Env} {G : Guards} {measured : List Exc} {qs : List Nat}
    (hG : WF G) (hP : PickleOK env measured) (sh : Sh) (p : Proc)
    (hl : sh.lock = none) (ha : p.answers = []) (ht : p.todo = qs)
    (hmem : ∀ v, p.loaded = some v → ∀ e ∈ v.ents, EntOK env e)
    (hf : FileOK env sh.file ∨ (G.w.mergesExisting = false ∧ p.selfFp = none ∧ p.loaded = none ∧ qs ≠ [])) :
    Fin env G qs sh (finishLoader env G p) := by
  unfold finishLoader
  rw [ht]
  apply queries_fin hG hP qs sh _ hl
  · intro e he
    cases hld : p.loaded with
    | none => simp [hld] at he
    | some v => simp [hld] at he; exact hmem v hld e he
  · simp [ha]
  · rcases hf with hf | ⟨h1, h2, h3, h4⟩
    · exact Or.inl hf
    · exact Or.inr ⟨h1, h2, by simp [h3], h4⟩

/-- an exception the loader's `try` catches: handler (→ remove), then the queries -/
theorem raise_fin {env : Env} {G : Guards} {measured : List Exc} {qs : List Nat}
    (hG : WF G) (hP : PickleOK env measured)
    (hrep : (G.l.removeStale = true ∧ G.l.handlerRemoves = true) ∨ (qs ≠ [] ∧ G.w.mergesExisting = false))
    (sh : Sh) (p : Proc) (e : Exc) (hc : Exc.caughtBy G.l.caught e = true)
    (hl : sh.lock = none) (hfp : p.selfFp = none) (ha : p.answers = []) (ht : p.todo = qs) :
    Fin env G qs sh (loaderRaise env G p e) := by
  unfold loaderRaise
  simp only [hc, hG.handlerClears, if_true]
  by_cases hr : G.l.handlerRemoves = true
  · simp only [hr, if_true]
    have htol := hG.tolerates hr
    have rm : Fin env G qs sh { p with loaded := none, pc := .hRemove } := by
      apply Fin_step
      cases hfile : sh.file with
      | none =>
        simp [pstep, hfile, htol]
        exact finish_fin hG hP _ _ hl ha ht (by simp) (Or.inl (Or.inl hfile))
      | some b =>
        simp [pstep, hfile]
        exact finish_fin hG hP _ _ hl ha ht (by simp) (Or.inl (Or.inl rfl))
    by_cases hg : G.l.handlerExistsGuard = true
    · simp only [hg, if_true]
      apply Fin_step
      cases hfile : sh.file with
      | none =>
        simp [pstep, hfile]
        exact finish_fin hG hP _ _ hl ha ht (by simp) (Or.inl (Or.inl hfile))
      | some b =>
        simp [pstep, hfile]
        exact rm
    · simp only [hg]
      exact rm
  · simp only [hr]
    rcases hrep with ⟨_, h⟩ | ⟨h1, h2⟩
    · exact absurd h hr
    · exact finish_fin hG hP _ _ hl ha ht (by simp) (Or.inr ⟨h2, hfp, rfl, h1⟩)

/-- after a successful `pickle.load`: `isinstance`, fingerprint comparison -/
theorem checks_fin {env : Env} {G : Guards} {measured : List Exc} {qs : List Nat}
    (hG : WF G) (hP : PickleOK env measured)
    (hrep : (G.l.removeStale = true ∧ G.l.handlerRemoves = true) ∨ (qs ≠ [] ∧ G.w.mergesExisting = false))
    (sh : Sh) (p : Proc) (v : Val) (b : Bytes)
    (hld : p.loaded = some v) (hfile : sh.file = some b) (hu : env.unpickle b = .ok v) (hs : Sound env v)
    (hl : sh.lock = none) (hfp : p.selfFp = none) (ha : p.answers = []) (ht : p.todo = qs) :
    Fin env G qs sh (loaderChecks env G p) := by
  unfold loaderChecks
  simp only [hld, hG.fpChecked, hG.staleClears, if_true, Bool.not_true, Bool.false_or]
  by_cases hty : (G.l.typeChecked && v.ty != env.expectedTy) = true
  · have htc : G.l.typeChecked = true := by
      simp only [Bool.and_eq_true] at hty; exact hty.1
    simp only [hty, if_true, hG.typeCheckInTry htc]
    exact raise_fin hG hP hrep sh p _ (hG.lTypeExc htc) hl hfp ha ht
  · simp only [hty, Bool.false_eq_true, if_false]
    by_cases hfpv : env.fpOf (keys v.ents) = v.fp
    · simp only [hfpv, beq_self_eq_true, if_true]
      refine finish_fin hG hP _ _ hl ha ht ?_ ?_
      · intro v' hv'
        cases (Option.some.inj hv')
        exact hs hfpv
      · exact Or.inl (Or.inr ⟨b, hfile, v, hu, hs hfpv, hfpv⟩)
    · have h1 : (env.fpOf (keys v.ents) == v.fp) = false := by simpa using hfpv
      simp only [h1, Bool.false_eq_true, if_false]
      by_cases hrs : G.l.removeStale = true
      · simp only [hrs, if_true]
        apply Fin_step
        simp [pstep, hfile]
        exact finish_fin hG hP _ _ hl ha ht (by simp) (Or.inl (Or.inl rfl))
      · simp only [hrs, Bool.false_eq_true, if_false]
        rcases hrep with ⟨h, _⟩ | ⟨h1, h2⟩
        · exact absurd h hrs
        · exact finish_fin hG hP _ _ hl ha ht (by simp) (Or.inr ⟨h2, hfp, rfl, h1⟩)

/-- `open('rb')` → `pickle.load` → (release) → checks | handler -/
theorem open_fin {env : Env} {G : Guards} {measured : List Exc} {qs : List Nat}
    (hG : WF G) (hP : PickleOK env measured)
    (hrep : (G.l.removeStale = true ∧ G.l.handlerRemoves = true) ∨ (qs ≠ [] ∧ G.w.mergesExisting = false))
    (sh : Sh) (p : Proc) (h0 : FileSafe env G sh.file) (hpc : p.pc = .lOpen)
    (hl : G.l.lockRead = false → sh.lock = none)
    (hfp : p.selfFp = none) (ha : p.answers = []) (ht : p.todo = qs) :
    Fin env G qs sh p := by
  apply Fin_step
  cases hfile : sh.file with
  | none =>
    simp only [pstep, hpc, hfile, leaveRead, Option.some.injEq, exists_eq_left']
    by_cases hlr : G.l.lockRead = true
    · simp only [hlr, if_true]
      apply Fin_step
      simp only [pstep, Option.some.injEq, exists_eq_left']
      exact raise_fin hG hP hrep _ _ _ hG.lFnf rfl hfp ha ht
    · simp only [hlr, Bool.false_eq_true, if_false]
      exact raise_fin hG hP hrep _ _ _ hG.lFnf (hl (by simpa using hlr)) hfp ha ht
  | some b =>
    simp only [pstep, hpc, hfile, Option.some.injEq, exists_eq_left']
    apply Fin_step
    have hb := h0 b hfile
    unfold Harmless at hb
    cases hu : env.unpickle b with
    | ok v =>
      rw [hu] at hb
      simp only [pstep, hu, leaveRead, Option.some.injEq, exists_eq_left']
      by_cases hlr : G.l.lockRead = true
      · simp only [hlr, if_true]
        apply Fin_step
        simp only [pstep, Option.some.injEq, exists_eq_left']
        exact checks_fin hG hP hrep _ _ v b rfl hfile hu hb rfl hfp ha ht
      · simp only [hlr, Bool.false_eq_true, if_false]
        exact checks_fin hG hP hrep _ _ v b rfl hfile hu hb (hl (by simpa using hlr)) hfp ha ht
    | raises e =>
      rw [hu] at hb
      simp only [pstep, hu, leaveRead, Option.some.injEq, exists_eq_left']
      by_cases hlr : G.l.lockRead = true
      · simp only [hlr, if_true]
        apply Fin_step
        simp only [pstep, Option.some.injEq, exists_eq_left']
        exact raise_fin hG hP hrep _ _ _ hb.1 rfl hfp ha ht
      · simp only [hlr, Bool.false_eq_true, if_false]
        exact raise_fin hG hP hrep _ _ _ hb.1 (hl (by simpa using hlr)) hfp ha ht

/-- A process started alone on any harmless cache state finishes normally, answers every query as a
    load from the data folder would, releases the lock, and leaves the cache missing or complete+valid. -/
theorem seq_run (env : Env) (G : Guards) (measured : List Exc)
    (hG : wfGuards G = true) (hP : PickleOK env measured) (hM : coversMeasured G measured = true)
    (f0 : Option Bytes) (h0 : FileSafe env G f0) (qs : List Nat)
    (hrep : (G.l.removeStale = true ∧ G.l.handlerRemoves = true) ∨ (qs ≠ [] ∧ G.w.mergesExisting = false)) :
    ∃ n sh p, runSeq env G n { file := f0, lock := none } (initProc G qs) = (sh, p) ∧
      p.pc = .done ∧ p.answers = disabledAnswers env qs ∧ sh.lock = none ∧
      (sh.file = none ∨ ∃ b, sh.file = some b ∧ Valid env b) := by
  have hW := WF.of hG
  show Fin env G qs { file := f0, lock := none } (initProc G qs)
  have hopen : ∀ (sh : Sh) (p : Proc), sh.file = f0 → p.pc = .lOpen → (G.l.lockRead = false → sh.lock = none) →
      p.selfFp = none → p.answers = [] → p.todo = qs → Fin env G qs sh p := by
    intro sh p hf
    exact open_fin hW hP hrep sh p (by rw [hf]; exact h0)
  have hacq : Fin env G qs { file := f0, lock := none }
      { (initProc G qs) with pc := if G.l.lockRead then .lAcquire else .lOpen } := by
    by_cases hlr : G.l.lockRead = true
    · simp only [hlr, if_true]
      apply Fin_step
      simp only [pstep, if_true, Option.some.injEq, exists_eq_left']
      exact hopen _ _ rfl rfl (fun h => by rw [hlr] at h; cases h) rfl rfl rfl
    · simp only [hlr, Bool.false_eq_true, if_false]
      exact hopen _ _ rfl rfl (fun _ => rfl) rfl rfl rfl
  by_cases heg : G.l.existsGuard = true
  · have : initProc G qs = { (initProc G qs) with pc := .lExists } := by
      simp [initProc, initPC, heg]
    rw [this]
    apply Fin_step
    cases hf : f0 with
    | none =>
      simp only [pstep, Option.isSome_none, Option.some.injEq, exists_eq_left']
      exact finish_fin hW hP _ _ rfl rfl rfl (by simp [initProc]) (Or.inl (Or.inl rfl))
    | some b =>
      simp only [pstep, Option.isSome_some, if_true, Option.some.injEq, exists_eq_left']
      rw [hf] at hacq
      exact hacq
  · have : initProc G qs = { (initProc G qs) with pc := if G.l.lockRead then .lAcquire else .lOpen } := by
      simp [initProc, initPC, heg]
    rw [this]
    exact hacq

end SpsdkVerif.DbCache
