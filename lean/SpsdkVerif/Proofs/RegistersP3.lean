/-
Helper lemmas for the phase-3 part of C11 (Model/RegistersP3.lean): `get_config(diff)`.
-/
import SpsdkVerif.Model.RegistersP3
import SpsdkVerif.Proofs.RegistersCfg

namespace SpsdkVerif.Regs
open SpsdkVerif SpsdkVerif.Misc

/-! ### `hideAll`: same names, every bit-field below `n` hidden -/

theorem hideAll_alts (rm : RegMeta) (n : Nat) : (hideAll rm n).alts = rm.alts := rfl

theorem hideAll_field (rm : RegMeta) (n j : Nat) :
    (hideAll rm n).field j =
      if j < max n rm.fields.length then { rm.field j with hidden := true } else rm.field j := by
  unfold hideAll RegMeta.field
  simp only [List.getD_eq_getElem?_getD, List.getElem?_map]
  by_cases h : j < max n rm.fields.length
  · rw [if_pos h]
    simp [h]
  · rw [if_neg h]
    have h1 : ¬ j < rm.fields.length := by omega
    simp [h, List.getElem?_eq_none (Nat.le_of_not_lt h1)]

theorem hideAll_names (rm : RegMeta) (n j : Nat) : ((hideAll rm n).field j).names = (rm.field j).names := by
  rw [hideAll_field]; split <;> rfl

theorem hideAll_hidden (rm : RegMeta) (n j : Nat) (h : j < n) : ((hideAll rm n).field j).hidden = true := by
  rw [hideAll_field, if_pos (by omega)]

theorem enumConst_names (f : Field) (fm fm' : FieldMeta) (h : fm'.names = fm.names) (x : Nat) :
    enumConst f fm' x = enumConst f fm x := by
  simp [enumConst, FieldMeta.nameOf, h]

theorem enumValueOf_names (r : Reg) (f : Field) (fm fm' : FieldMeta) (h : fm'.names = fm.names) :
    enumValueOf r f fm' = enumValueOf r f fm := by
  simp [enumValueOf, FieldMeta.nameOf, h, enumConst_names f fm fm' h]

theorem loadField_names (r : Reg) (f : Field) (fm fm' : FieldMeta) (h : fm'.names = fm.names) (c : CfgVal) :
    loadField r f fm' c = loadField r f fm c := by
  cases c <;> simp [loadField, enumConst_names f fm fm' h]

theorem loadFields_hideAll (rm : RegMeta) (n : Nat) (l : List (Nat × CfgVal)) (r : Reg) :
    loadFields r (hideAll rm n) l = loadFields r rm l := by
  induction l generalizing r with
  | nil => rfl
  | cons e l ih =>
    obtain ⟨j, c⟩ := e
    simp only [loadFields]
    cases r.fields[j]? with
    | none => rfl
    | some f =>
      simp only []
      rw [loadField_names r f (rm.field j) _ (hideAll_names rm n j)]
      cases loadField r f (rm.field j) c with
      | error e => rfl
      | ok r' => exact ih r'

theorem loadReg_hideAll (rm : RegMeta) (n : Nat) (c : RegCfg) (r : Reg) :
    loadReg r (hideAll rm n) c = loadReg r rm c := by
  cases c with
  | value v => rfl
  | fields l => simp only [loadReg, loadFields_hideAll, hideAll_alts]

/-! ### `diff = false` is the older model; `diff = true` is the older model with every bit-field hidden -/

theorem fieldsConfigD_false (r : Reg) (rm : RegMeta) (fs : List Field) (j : Nat) :
    fieldsConfigD false r rm fs j = fieldsConfig r rm fs j := by
  induction fs generalizing j with
  | nil => rfl
  | cons f fs ih =>
    simp only [fieldsConfigD, fieldsConfig, Bool.false_or, ih]
    rfl

theorem regConfigD_false (r : Reg) (rm : RegMeta) : regConfigD false r rm = regConfig r rm := by
  simp only [regConfigD, regConfig, fieldsConfigD_false]
  rfl

theorem getConfigDFrom_false (m : Meta) (rf : RegFile) (i : Nat) :
    getConfigDFrom false m rf i = getConfigFrom m rf i := by
  induction rf generalizing i with
  | nil => rfl
  | cons r rs ih =>
    simp only [getConfigDFrom, getConfigFrom, regConfigD_false, ih, Bool.false_and, Bool.false_eq_true, if_false]
    rfl

theorem fieldsConfigD_true (r : Reg) (rm : RegMeta) (n : Nat) (fs : List Field) (j : Nat) (h : j + fs.length ≤ n) :
    fieldsConfigD true r rm fs j = fieldsConfig r (hideAll rm n) fs j := by
  induction fs generalizing j with
  | nil => rfl
  | cons f fs ih =>
    have hj : j < n := by simp at h; omega
    have h' : j + 1 + fs.length ≤ n := by simp at h; omega
    simp only [fieldsConfigD, fieldsConfig, Bool.true_or, hideAll_hidden rm n j hj, ih (j + 1) h',
      enumValueOf_names r f (rm.field j) _ (hideAll_names rm n j)]
    rfl

theorem regConfigD_true (r : Reg) (rm : RegMeta) :
    regConfigD true r rm = regConfig r (hideAll rm r.fields.length) := by
  simp only [regConfigD, regConfig, hideAll_alts]
  rw [fieldsConfigD_true r rm r.fields.length r.fields 0 (by omega)]
  rfl

/-! ### which registers / bit-fields a diff configuration names -/

theorem fieldsConfigD_keys (r : Reg) (rm : RegMeta) (fs : List Field) (j : Nat) (l : List (Nat × CfgVal))
    (h : fieldsConfigD true r rm fs j = .ok l) (i : Nat) :
    (∃ c, (i, c) ∈ l) ↔ ∃ t f, i = j + t ∧ fs[t]? = some f ∧ fieldGet r f ≠ .ok f.reset := by
  induction fs generalizing j l with
  | nil =>
    simp only [fieldsConfigD] at h
    cases h
    simp
  | cons f fs ih =>
    simp only [fieldsConfigD, Bool.true_or, Bool.true_and] at h
    cases hg : fieldGet r f with
    | error e => rw [hg] at h; cases h
    | ok v =>
      rw [hg] at h
      simp only [] at h
      have shift : (∃ t g, i = j + 1 + t ∧ fs[t]? = some g ∧ fieldGet r g ≠ .ok g.reset) ↔
          (∃ t g, i = j + (t + 1) ∧ (f :: fs)[t + 1]? = some g ∧ fieldGet r g ≠ .ok g.reset) := by
        constructor
        · rintro ⟨t, g, h1, h2, h3⟩; exact ⟨t, g, by omega, by simpa using h2, h3⟩
        · rintro ⟨t, g, h1, h2, h3⟩; exact ⟨t, g, by omega, by simpa using h2, h3⟩
      by_cases hv : v = f.reset
      · subst hv
        rw [if_pos (by simp)] at h
        rw [ih (j + 1) l h, shift]
        constructor
        · rintro ⟨t, g, h1, h2, h3⟩; exact ⟨t + 1, g, h1, h2, h3⟩
        · rintro ⟨t, g, h1, h2, h3⟩
          cases t with
          | zero => simp at h2; subst h2; exact absurd hg h3
          | succ t => exact ⟨t, g, h1, h2, h3⟩
      · rw [if_neg (by simpa using hv)] at h
        cases he : enumValueOf r f (rm.field j) with
        | error e => rw [he] at h; cases hr : fieldsConfigD true r rm fs (j + 1) <;> rw [hr] at h <;> cases h
        | ok c0 =>
          rw [he] at h
          cases hr : fieldsConfigD true r rm fs (j + 1) with
          | error e => rw [hr] at h; cases h
          | ok rest =>
            rw [hr] at h
            simp only [] at h
            cases h
            have ih' := ih (j + 1) rest hr
            constructor
            · rintro ⟨c, hc⟩
              simp only [List.mem_cons, Prod.mk.injEq] at hc
              rcases hc with ⟨rfl, _⟩ | hc
              · refine ⟨0, f, rfl, by simp, ?_⟩
                rw [hg]; intro hh; apply hv; injection hh
              · obtain ⟨t, g, h1, h2, h3⟩ := (ih'.1 ⟨c, hc⟩)
                exact ⟨t + 1, g, by omega, by simpa using h2, h3⟩
            · rintro ⟨t, g, h1, h2, h3⟩
              cases t with
              | zero => exact ⟨c0, by simp [h1]⟩
              | succ t =>
                obtain ⟨c, hc⟩ := ih'.2 ⟨t, g, by omega, by simpa using h2, h3⟩
                exact ⟨c, by simp [hc]⟩

theorem getConfigDFrom_keys (m : Meta) (rs : RegFile) (i0 : Nat) (cfg : Cfg)
    (h : getConfigDFrom true m rs i0 = .ok cfg) (ref : RegRef) :
    (∃ c, (ref, c) ∈ cfg) ↔ ∃ t r, ref = .top (i0 + t) ∧ rs[t]? = some r ∧ regAtReset r (m.reg (i0 + t)) = false := by
  induction rs generalizing i0 cfg with
  | nil =>
    simp only [getConfigDFrom] at h
    cases h
    simp
  | cons r rs ih =>
    simp only [getConfigDFrom, Bool.true_and] at h
    have shift : ∀ (P : Nat → Reg → Prop), (∃ t a, ref = .top (i0 + 1 + t) ∧ rs[t]? = some a ∧ P (i0 + 1 + t) a) ↔
        (∃ t a, ref = .top (i0 + (t + 1)) ∧ (r :: rs)[t + 1]? = some a ∧ P (i0 + (t + 1)) a) := by
      intro P
      have e : ∀ t, i0 + 1 + t = i0 + (t + 1) := by intro t; omega
      constructor
      · rintro ⟨t, a, h1, h2, h3⟩; exact ⟨t, a, by rw [← e]; exact h1, by simpa using h2, by rw [← e]; exact h3⟩
      · rintro ⟨t, a, h1, h2, h3⟩; exact ⟨t, a, by rw [e]; exact h1, by simpa using h2, by rw [e]; exact h3⟩
    by_cases hs : regAtReset r (m.reg i0) = true
    · rw [if_pos hs] at h
      rw [ih (i0 + 1) cfg h, shift (fun i a => regAtReset a (m.reg i) = false)]
      constructor
      · rintro ⟨t, a, h1, h2, h3⟩; exact ⟨t + 1, a, h1, h2, h3⟩
      · rintro ⟨t, a, h1, h2, h3⟩
        cases t with
        | zero =>
          simp at h2; subst h2
          simp only [Nat.add_zero] at h3
          rw [hs] at h3; cases h3
        | succ t => exact ⟨t, a, h1, h2, h3⟩
    · rw [if_neg hs] at h
      have hs' : regAtReset r (m.reg i0) = false := by simpa using hs
      cases hc : regConfigD true r (m.reg i0) with
      | error e => rw [hc] at h; cases hr : getConfigDFrom true m rs (i0 + 1) <;> rw [hr] at h <;> cases h
      | ok c0 =>
        rw [hc] at h
        cases hr : getConfigDFrom true m rs (i0 + 1) with
        | error e => rw [hr] at h; cases h
        | ok rest =>
          rw [hr] at h
          simp only [] at h
          cases h
          have ih' := ih (i0 + 1) rest hr
          rw [shift (fun i a => regAtReset a (m.reg i) = false)] at ih'
          constructor
          · rintro ⟨c, hc⟩
            simp only [List.mem_cons, Prod.mk.injEq] at hc
            rcases hc with ⟨rfl, _⟩ | hc
            · exact ⟨0, r, rfl, by simp, hs'⟩
            · obtain ⟨t, a, h1, h2, h3⟩ := ih'.1 ⟨c, hc⟩
              exact ⟨t + 1, a, h1, h2, h3⟩
          · rintro ⟨t, a, h1, h2, h3⟩
            cases t with
            | zero => exact ⟨c0, by simp [h1]⟩
            | succ t =>
              obtain ⟨c, hc⟩ := ih'.2 ⟨t, a, h1, h2, h3⟩
              exact ⟨c, by simp [hc]⟩

/-! ### lifting a per-register round trip to the register file when registers at reset are left out -/

theorem roundtrip_lift_diff (m : Meta) (P : RegMeta → Reg → Reg → Prop) (Q : RegMeta → Reg → Reg → Reg → Prop)
    (hreg : ∀ rm r r0, P rm r r0 → ∃ c r', regConfigD true r rm = .ok c ∧ loadReg r0 rm c = .ok r' ∧ Q rm r r0 r')
    (rs rs0 pre : RegFile) (hlen : rs0.length = rs.length)
    (hok : ∀ t r r0, rs[t]? = some r → rs0[t]? = some r0 → P (m.reg (pre.length + t)) r r0) :
    ∃ cfg rs', getConfigDFrom true m rs pre.length = .ok cfg ∧ loadConfig m (pre ++ rs0) cfg = .ok (pre ++ rs') ∧
      rs'.length = rs.length ∧
      ∀ t r r0, rs[t]? = some r → rs0[t]? = some r0 →
        ∃ r', rs'[t]? = some r' ∧
          ((regAtReset r (m.reg (pre.length + t)) = true ∧ r' = r0) ∨
           (regAtReset r (m.reg (pre.length + t)) = false ∧ Q (m.reg (pre.length + t)) r r0 r')) := by
  induction rs generalizing rs0 pre with
  | nil =>
    cases rs0 with
    | nil => exact ⟨[], [], rfl, rfl, rfl, by intro t r r0 h; simp at h⟩
    | cons a as => simp at hlen
  | cons r rs ih =>
    cases rs0 with
    | nil => simp at hlen
    | cons r0 rs0 =>
      have hlen' : rs0.length = rs.length := by simpa using hlen
      by_cases hs : regAtReset r (m.reg pre.length) = true
      · -- left out: the target register stays as it is
        obtain ⟨cfg, rs', h1, h2, h3, h4⟩ := ih rs0 (pre ++ [r0]) hlen' (by
          intro t a a0 ha ha0
          have := hok (t + 1) a a0 (by simpa using ha) (by simpa using ha0)
          have e : (pre ++ [r0]).length + t = pre.length + (t + 1) := by simp; omega
          rw [e]; exact this)
        have e1 : (pre ++ [r0]).length = pre.length + 1 := by simp
        rw [e1] at h1
        refine ⟨cfg, r0 :: rs', ?_, ?_, by simp [h3], ?_⟩
        · simp [getConfigDFrom, hs, h1]
        · have e2 : pre ++ r0 :: rs0 = (pre ++ [r0]) ++ rs0 := by simp
          have e3 : pre ++ r0 :: rs' = (pre ++ [r0]) ++ rs' := by simp
          rw [e2, e3]; exact h2
        · intro t a a0 ha ha0
          cases t with
          | zero =>
            simp at ha ha0; subst ha; subst ha0
            exact ⟨r0, by simp, Or.inl ⟨by simpa using hs, rfl⟩⟩
          | succ t =>
            obtain ⟨a', h5, h6⟩ := h4 t a a0 (by simpa using ha) (by simpa using ha0)
            have e : (pre ++ [r0]).length + t = pre.length + (t + 1) := by simp; omega
            rw [e] at h6
            exact ⟨a', by simpa using h5, h6⟩
      · have hs' : regAtReset r (m.reg pre.length) = false := by simpa using hs
        obtain ⟨c, r', hc, hl, hq⟩ := hreg _ r r0 (hok 0 r r0 (by simp) (by simp))
        obtain ⟨cfg, rs', h1, h2, h3, h4⟩ := ih rs0 (pre ++ [r']) hlen' (by
          intro t a a0 ha ha0
          have := hok (t + 1) a a0 (by simpa using ha) (by simpa using ha0)
          have e : (pre ++ [r']).length + t = pre.length + (t + 1) := by simp; omega
          rw [e]; exact this)
        have e1 : (pre ++ [r']).length = pre.length + 1 := by simp
        rw [e1] at h1
        refine ⟨(.top pre.length, c) :: cfg, r' :: rs', ?_, ?_, by simp [h3], ?_⟩
        · have hc' : regConfigD true r (m.reg (pre.length + 0)) = .ok c := hc
          simp only [Nat.add_zero] at hc'
          simp [getConfigDFrom, hs', hc', h1]
        · have hl' : loadReg r0 (m.reg (pre.length + 0)) c = .ok r' := hl
          simp only [Nat.add_zero] at hl'
          simp only [loadConfig, loadEntry]
          rw [updAt_append pre rs0 r0 r' _ hl']
          simp only []
          have e2 : pre ++ r' :: rs0 = (pre ++ [r']) ++ rs0 := by simp
          have e3 : pre ++ r' :: rs' = (pre ++ [r']) ++ rs' := by simp
          rw [e2, e3]; exact h2
        · intro t a a0 ha ha0
          cases t with
          | zero =>
            simp at ha ha0; subst ha; subst ha0
            exact ⟨r', by simp, Or.inr ⟨by simpa using hs', hq⟩⟩
          | succ t =>
            obtain ⟨a', h5, h6⟩ := h4 t a a0 (by simpa using ha) (by simpa using ha0)
            have e : (pre ++ [r']).length + t = pre.length + (t + 1) := by simp; omega
            rw [e] at h6
            exact ⟨a', by simpa using h5, h6⟩

/-- every entry of a diff configuration is the (diff) configuration of the register it names -/
theorem getConfigDFrom_entry (m : Meta) (rs : RegFile) (i0 : Nat) (cfg : Cfg)
    (h : getConfigDFrom true m rs i0 = .ok cfg) (ref : RegRef) (c : RegCfg) (hm : (ref, c) ∈ cfg) :
    ∃ t r, ref = .top (i0 + t) ∧ rs[t]? = some r ∧ regConfigD true r (m.reg (i0 + t)) = .ok c := by
  induction rs generalizing i0 cfg with
  | nil =>
    simp only [getConfigDFrom] at h
    cases h
    simp at hm
  | cons r rs ih =>
    simp only [getConfigDFrom, Bool.true_and] at h
    have lift : (∃ t a, ref = .top (i0 + 1 + t) ∧ rs[t]? = some a ∧ regConfigD true a (m.reg (i0 + 1 + t)) = .ok c) →
        ∃ t a, ref = .top (i0 + t) ∧ (r :: rs)[t]? = some a ∧ regConfigD true a (m.reg (i0 + t)) = .ok c := by
      rintro ⟨t, a, h1, h2, h3⟩
      have e : i0 + 1 + t = i0 + (t + 1) := by omega
      exact ⟨t + 1, a, by rw [← e]; exact h1, by simpa using h2, by rw [← e]; exact h3⟩
    by_cases hs : regAtReset r (m.reg i0) = true
    · rw [if_pos hs] at h
      exact lift (ih (i0 + 1) cfg h hm)
    · rw [if_neg hs] at h
      cases hc : regConfigD true r (m.reg i0) with
      | error e => rw [hc] at h; cases hr : getConfigDFrom true m rs (i0 + 1) <;> rw [hr] at h <;> cases h
      | ok c0 =>
        rw [hc] at h
        cases hr : getConfigDFrom true m rs (i0 + 1) with
        | error e => rw [hr] at h; cases h
        | ok rest =>
          rw [hr] at h
          simp only [] at h
          cases h
          simp only [List.mem_cons, Prod.mk.injEq] at hm
          rcases hm with ⟨rfl, rfl⟩ | hm
          · exact ⟨0, r, rfl, by simp, hc⟩
          · exact lift (ih (i0 + 1) rest hr hm)

theorem shl_shr_of_mod (v s : Nat) (h : v % 2 ^ s = 0) : (v >>> s) <<< s = v := by
  rw [Nat.shiftLeft_eq, Nat.shiftRight_eq_div_pow]
  exact Nat.div_mul_cancel (Nat.dvd_of_mod_eq_zero h)

/-! ### reset: every bit-field of `_bitfields` (hidden or not) contributes its reset value -/

theorem resetFold_testBit (fs : List Field) (acc k : Nat) :
    (fs.foldl (fun acc f => acc ||| ((f.reset &&& mask f.width) <<< f.offset)) acc).testBit k = true ↔
      (acc.testBit k = true ∨ ∃ (i : Nat) (g : Field), fs[i]? = some g ∧ g.offset ≤ k ∧ k < g.offset + g.width ∧
        g.reset.testBit (k - g.offset) = true) := by
  induction fs generalizing acc with
  | nil => simp
  | cons f fs ih =>
    simp only [List.foldl_cons]
    rw [ih]
    have hx : ((f.reset &&& mask f.width) <<< f.offset).testBit k = true ↔
        (f.offset ≤ k ∧ k < f.offset + f.width ∧ f.reset.testBit (k - f.offset) = true) := by
      simp only [Nat.testBit_shiftLeft, Nat.testBit_and, testBit_mask, Bool.and_eq_true, decide_eq_true_eq, ge_iff_le]
      constructor
      · rintro ⟨h1, h2, h3⟩; exact ⟨h1, by omega, h2⟩
      · rintro ⟨h1, h2, h3⟩; exact ⟨h1, h3, by omega⟩
    rw [Nat.testBit_or, Bool.or_eq_true, hx]
    constructor
    · rintro ((h | h) | ⟨i, g, h1, h2⟩)
      · exact Or.inl h
      · exact Or.inr ⟨0, f, by simp, h⟩
      · exact Or.inr ⟨i + 1, g, by simpa using h1, h2⟩
    · rintro (h | ⟨i, g, h1, h2⟩)
      · exact Or.inl (Or.inl h)
      · cases i with
        | zero => simp at h1; subst h1; exact Or.inl (Or.inr h2)
        | succ i => exact Or.inr ⟨i, g, by simpa using h1, h2⟩

/-- the slice of the reset value at a bit-field is that bit-field's reset value, provided the other bit-fields are disjoint
    from it and the register-level reset value has no bits there -/
theorem resetValue_slice (r : Reg) (j : Nat) (f : Field) (hf : r.fields[j]? = some f)
    (hd : r.fields.Pairwise (fun f g => f.offset + f.width ≤ g.offset ∨ g.offset + g.width ≤ f.offset))
    (hraw : ∀ k, f.offset ≤ k → k < f.offset + f.width → r.resetRaw.testBit k = false) :
    (r.resetValue >>> f.offset) &&& mask f.width = f.reset &&& mask f.width := by
  apply Nat.eq_of_testBit_eq
  intro t
  rw [slice_testBit, Nat.testBit_and, testBit_mask]
  by_cases ht : t < f.width
  · simp only [ht, decide_true, Bool.and_true]
    rw [Bool.eq_iff_iff]
    unfold Reg.resetValue
    rw [resetFold_testBit]
    constructor
    · rintro (h | ⟨i, g, h1, h2, h3, h4⟩)
      · rw [hraw _ (by omega) (by omega)] at h; cases h
      · by_cases hij : i = j
        · subst hij
          rw [hf] at h1; cases h1
          have e : f.offset + t - f.offset = t := by omega
          rw [e] at h4; exact h4
        · have := pairwise_disjoint_ne r.fields i j g f hd h1 hf hij
          omega
    · intro h
      refine Or.inr ⟨j, f, hf, by omega, by omega, ?_⟩
      have e : f.offset + t - f.offset = t := by omega
      rw [e]; exact h
  · simp [ht]

end SpsdkVerif.Regs
