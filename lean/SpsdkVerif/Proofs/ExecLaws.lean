/-
The executable instance `execOps` (Crypto/Exec.lean) satisfies `CryptoLaws` and `Sm4Laws`:
AES and SM4 decryption invert encryption for every key and block (Proofs/AesInv.lean, Proofs/Sm4Inv.lean),
digests have the stated length, and the placeholder signature verifies what it signed.
-/
import SpsdkVerif.Crypto.Exec
import SpsdkVerif.Proofs.AesInv
import SpsdkVerif.Proofs.Sm4Inv

namespace SpsdkVerif.Crypto
open SpsdkVerif

theorem execOps_laws : CryptoLaws execOps where
  dec_enc := Aes.decBlk_encBlk
  enc_dec := Aes.encBlk_decBlk
  enc_len := Aes.encBlk_length
  dec_len := Aes.decBlk_length
  hash_len := Sha.hash_len
  verify_sign := by intro a sk m r; simp [execOps]

theorem execOps_sm4Laws : Sm4Laws execOps where
  dec_enc := Sm4.decBlk_encBlk
  enc_dec := Sm4.encBlk_decBlk
  enc_len := Sm4.encBlk_length
  dec_len := Sm4.decBlk_length

end SpsdkVerif.Crypto
