/- C07 helper lemmas, part 3: container layout (positions of the segments in the exported image), block lists. -/
import SpsdkVerif.Model.HabWF
import SpsdkVerif.Proofs.HabBase
import SpsdkVerif.Proofs.HabCsf

namespace SpsdkVerif.Hab
open SpsdkVerif SpsdkVerif.Misc SpsdkVerif.Generated

@[simp] theorem ivt_encode_length (v : Ivt) : v.encode.length = 32 := by simp [Ivt.encode]
@[simp] theorem bdt_encode_length (b : Bdt) : b.encode.length = 12 := by simp [Bdt.encode]

/-! ### stages of `image` -/
def st1 (c : Cfg) : Bytes := placeAt c.ivt.encode bdtSegOffN c.bdt.encode
def st2 (c : Cfg) : Bytes := match c.dcd with | some d => placeAt (st1 c) dcdSegOffN d | none => st1 c
def st3 (c : Cfg) : Bytes := match c.xmcd with | some x => placeAt (st2 c) HabConsts.xmcdSegOffset x | none => st2 c
/-- everything in front of the application, zero filled up to the application offset -/
def pre (c : Cfg) : Bytes := st3 c ++ zeros (c.appOff - (st3 c).length)
def tailOf (c : Cfg) (app : Bytes) : Option Bytes → Bytes
  | some b => zeros (c.csfOff - (c.appOff + app.length)) ++ b
  | none => []

theorem st1_length (c : Cfg) : (st1 c).length = 44 := by
  unfold st1; rw [placeAt_length _ _ _ (by rw [bdtSegOffN_eq]; simp), bdtSegOffN_eq]; simp

theorem st2_length (c : Cfg) : (st2 c).length = match c.dcd with | some d => 64 + d.length | none => 44 := by
  unfold st2
  cases c.dcd with
  | none => exact st1_length c
  | some d => simp only []; rw [placeAt_length _ _ _ (by rw [dcdSegOffN_eq, st1_length]; omega), dcdSegOffN_eq]

theorem appOff_eq (c : Cfg) : c.appOff = c.ils - c.ivtOff := by unfold Cfg.appOff; exact appOffsetN_eq _ _

theorem csfOff_eq (c : Cfg) : c.csfOff = csfAbs (c.ils + c.app.length) - c.ivtOff := by
  unfold Cfg.csfOff; exact csfOffsetN_eq _ _ _

theorem appOff_ge (c : Cfg) (h : c.WF) : 256 ≤ c.appOff := by
  have := h.appOffKnown
  rw [← appOff_eq] at this
  simp [HabConsts.knownAppOffsets] at this
  omega

theorem st3_length (c : Cfg) (h : c.WF) :
    (st3 c).length = match c.dcd, c.xmcd with
      | some d, _ => 64 + d.length
      | none, some x => 64 + x.length
      | none, none => 44 := by
  unfold st3
  rcases h.notBoth with hd | hx
  · rw [hd]
    cases hxx : c.xmcd with
    | none => simp only []; rw [st2_length, hd]
    | some x =>
      simp only []
      rw [placeAt_length _ _ _ (by rw [st2_length, hd]; simp [HabConsts.xmcdSegOffset])]
      simp [HabConsts.xmcdSegOffset]
  · rw [hx]
    simp only []
    rw [st2_length]
    cases c.dcd <;> rfl

theorem st3_length_dcd (c : Cfg) (h : c.WF) (d : Bytes) (hd : c.dcd = some d) : (st3 c).length = 64 + d.length := by
  rw [st3_length c h, hd]

theorem st3_length_xmcd (c : Cfg) (h : c.WF) (x : Bytes) (hd : c.dcd = none) (hx : c.xmcd = some x) :
    (st3 c).length = 64 + x.length := by
  rw [st3_length c h, hd, hx]

theorem st3_le (c : Cfg) (h : c.WF) : (st3 c).length ≤ c.appOff := by
  rw [st3_length c h]
  have := appOff_ge c h
  have e := appOff_eq c
  cases hd : c.dcd with
  | some d => simp only []; have := h.dcdFits d hd; omega
  | none =>
    cases hx : c.xmcd with
    | some x => simp only []; have := h.xmcdFits x hx; omega
    | none => simp only []; omega

theorem pre_length (c : Cfg) (h : c.WF) : (pre c).length = c.appOff := by
  have := st3_le c h
  simp [pre]; omega

/-- normal form of the image: front part ++ application ++ (gap ++ CSF) -/
theorem image_nf (c : Cfg) (h : c.WF) (app : Bytes) (csf : Option Bytes)
    (hfit : csf.isSome → c.appOff + app.length ≤ c.csfOff) :
    image c app csf = pre c ++ app ++ tailOf c app csf := by
  have hl := pre_length c h
  have e4 : placeAt (st3 c) c.appOff app = pre c ++ app := by simp [placeAt, pre]
  have himg : image c app csf =
      (match csf with | some b => placeAt (placeAt (st3 c) c.appOff app) c.csfOff b | none => placeAt (st3 c) c.appOff app) := by
    unfold image st3 st2 st1
    cases c.dcd <;> cases c.xmcd <;> cases csf <;> rfl
  rw [himg]
  cases csf with
  | none => simp [tailOf, e4]
  | some b =>
    have e5 : (pre c ++ app).length = c.appOff + app.length := by simp [hl]
    show placeAt (placeAt (st3 c) c.appOff app) c.csfOff b = _
    rw [e4]
    simp only [tailOf, placeAt, e5, List.append_assoc]

/-- without the fit hypothesis the image still starts with front part ++ application -/
theorem image_nf' (c : Cfg) (h : c.WF) (app : Bytes) (csf : Option Bytes) :
    ∃ t, image c app csf = pre c ++ app ++ t := by
  have e4 : placeAt (st3 c) c.appOff app = pre c ++ app := by simp [placeAt, pre]
  have himg : image c app csf =
      (match csf with | some b => placeAt (placeAt (st3 c) c.appOff app) c.csfOff b | none => placeAt (st3 c) c.appOff app) := by
    unfold image st3 st2 st1
    cases c.dcd <;> cases c.xmcd <;> cases csf <;> rfl
  rw [himg]
  cases csf with
  | none => exact ⟨[], by simp [e4]⟩
  | some b =>
    refine ⟨zeros (c.csfOff - (pre c ++ app).length) ++ b, ?_⟩
    show placeAt (placeAt (st3 c) c.appOff app) c.csfOff b = _
    rw [e4]
    simp only [placeAt, List.append_assoc]

/-- bytes in front of the application do not depend on the application / CSF contents -/
theorem image_head_indep (c : Cfg) (h : c.WF) (app app' : Bytes) (csf csf' : Option Bytes) (o n : Nat)
    (hon : o + n ≤ c.appOff) : slice (image c app csf) o n = slice (image c app' csf') o n := by
  obtain ⟨t, e⟩ := image_nf' c h app csf
  obtain ⟨t', e'⟩ := image_nf' c h app' csf'
  have hl := pre_length c h
  rw [e, e', List.append_assoc, List.append_assoc, slice_append_left (pre c) (app ++ t) o n (by omega),
    slice_append_left (pre c) (app' ++ t') o n (by omega)]

/-- bytes up to the end of the application do not depend on the CSF -/
theorem image_app_indep (c : Cfg) (h : c.WF) (app : Bytes) (csf csf' : Option Bytes) (o n : Nat)
    (hon : o + n ≤ c.appOff + app.length) : slice (image c app csf) o n = slice (image c app csf') o n := by
  obtain ⟨t, e⟩ := image_nf' c h app csf
  obtain ⟨t', e'⟩ := image_nf' c h app csf'
  have hl := pre_length c h
  rw [e, e', slice_append_left (pre c ++ app) t o n (by simp; omega),
    slice_append_left (pre c ++ app) t' o n (by simp; omega)]

/-- the application segment sits at its offset -/
theorem image_app_slice (c : Cfg) (h : c.WF) (app : Bytes) (csf : Option Bytes) :
    slice (image c app csf) c.appOff app.length = app := by
  obtain ⟨t, e⟩ := image_nf' c h app csf
  rw [e]
  exact slice_append_mid' _ _ _ _ _ (pre_length c h).symm rfl

/-- a slice inside the front stages is a slice of the last stage -/
theorem image_front (c : Cfg) (h : c.WF) (app : Bytes) (csf : Option Bytes) (o n : Nat)
    (hon : o + n ≤ (st3 c).length) : slice (image c app csf) o n = slice (st3 c) o n := by
  obtain ⟨t, e⟩ := image_nf' c h app csf
  rw [e, List.append_assoc, slice_append_left _ _ _ _ (by simp [pre]; omega)]
  unfold pre
  exact slice_append_left _ _ _ _ hon

theorem align16_le (ils n : Nat) (h : ils % 16 = 0) : ils + alignUp n 16 ≤ csfAbs (ils + n) := by
  unfold csfAbs alignUp
  have h1 := Nat.div_add_mod (ils + n + (16 - (ils + n) % 16) + 4095) 4096
  have h2 := Nat.mod_lt (ils + n + (16 - (ils + n) % 16) + 4095) (show 0 < 4096 by decide)
  have h3 := Nat.div_add_mod (n + (16 - 1)) 16
  have h4 := Nat.mod_lt (n + (16 - 1)) (show 0 < 16 by decide)
  omega

/-- the application (16-byte padded when authenticated) ends before the CSF -/
theorem app_before_csf (c : Cfg) (h : c.WF) : c.appOff + c.appBin.length ≤ c.csfOff := by
  rw [appOff_eq, csfOff_eq]
  have hle := h.ivtLe
  have hgt := csfAbs_gt (c.ils + c.app.length)
  have h16 := align16_le c.ils c.app.length h.ils16
  have : c.appBin.length ≤ alignUp c.app.length 16 := by
    unfold Cfg.appBin
    split
    · rw [padAlign_length _ _ (by decide)]; exact Nat.le_refl _
    · exact alignUp_ge _ _ (by decide)
  omega

theorem ivt_points_lemma (c : Cfg) (b : Built) (h : c.WF) (happ : b.app.length = c.appBin.length)
    (hcsf : c.hasCsf = true → (csfBytes c.version b.cmds).length = HabConsts.csfSize) :
    let img := exportImage c b
    img.take 32 = c.ivt.encode ∧ c.ivt.self = c.start + c.ivtOff ∧ c.ivt.entry = c.entry ∧
    c.ivt.bdt = c.ivt.self + 32 ∧ slice img (c.ivt.bdt - c.ivt.self) 12 = c.bdt.encode ∧
    (∀ d, c.dcd = some d → c.ivt.dcd = c.ivt.self + 64 ∧ slice img (c.ivt.dcd - c.ivt.self) d.length = d) ∧
    (c.dcd = none → c.ivt.dcd = 0) ∧
    (∀ x, c.xmcd = some x → slice img HabConsts.xmcdSegOffset x.length = x) ∧
    c.appOff = c.ils - c.ivtOff ∧ slice img c.appOff b.app.length = b.app ∧
    (c.hasCsf = true → c.ivt.csf = c.ivt.self + c.csfOff ∧ c.appOff + b.app.length ≤ c.csfOff ∧
        slice img (c.ivt.csf - c.ivt.self) HabConsts.csfSize = csfBytes c.version b.cmds ∧
        img.length = c.csfOff + HabConsts.csfSize) ∧
    (c.hasCsf = false → c.ivt.csf = 0 ∧ img.length = c.appOff + b.app.length) ∧
    c.bdt.start = c.start ∧ c.bdt.plugin = 0 ∧
    c.bdt.length = c.ivtOff + img.length + (if isEnc c.flags then HabConsts.keyblobSize else 0) := by
  intro img
  have hf := flags_cases c.flags h.flags
  have hbefore := app_before_csf c h
  have hself : c.ivt.self = c.start + c.ivtOff := by simp [Cfg.ivt, Cfg.ivtSelf, ivtSelfN_eq]
  have hbdt : c.ivt.bdt = c.ivt.self + 32 := by simp [Cfg.ivt, ivtBdtN_eq]
  have hle : c.ivtOff ≤ csfAbs (c.ils + c.app.length) := by
    have := csfAbs_gt (c.ils + c.app.length); have := h.ivtLe; omega
  have hcsfp : c.ivt.csf = if c.flags = 0 then 0 else c.ivt.self + c.csfOff := by
    simp only [Cfg.ivt]
    rw [ivtCsfN_eq _ _ _ _ _ h.flags hle, csfOff_eq]
  have h3 := st3_le c h
  have hs1 := st1_length c
  have hs3 := st3_length c h
  -- the image
  have himg : img = image c b.app (if c.hasCsf then some (csfBytes c.version b.cmds) else none) := rfl
  have hfit : (if c.hasCsf then some (csfBytes c.version b.cmds) else none).isSome → c.appOff + b.app.length ≤ c.csfOff := by
    intro _; rw [happ]; exact hbefore
  have hnf := image_nf c h b.app _ hfit
  have hpl := pre_length c h
  -- front slices
  have front : ∀ o n, o + n ≤ (st3 c).length → slice img o n = slice (st3 c) o n :=
    fun o n hon => by rw [himg]; exact image_front c h _ _ o n hon
  have s3_of_s1 : ∀ o n, o + n ≤ 44 → slice (st3 c) o n = slice (st1 c) o n := by
    intro o n hon
    unfold st3 st2
    cases hd : c.dcd <;> cases hx : c.xmcd <;> simp only []
    · rw [placeAt_keeps _ _ _ _ _ (by rw [st1_length]; exact hon)]
    · rw [placeAt_keeps _ _ _ _ _ (by rw [st1_length]; exact hon)]
    · rcases h.notBoth with hh | hh
      · rw [hd] at hh; cases hh
      · rw [hx] at hh; cases hh
  have len3 : 44 ≤ (st3 c).length := by
    rw [hs3]; cases c.dcd <;> cases c.xmcd <;> simp only [] <;> omega
  refine ⟨?_, hself, rfl, hbdt, ?_, ?_, ?_, ?_, appOff_eq c, ?_, ?_, ?_, rfl, rfl, ?_⟩
  · -- IVT
    have : slice img 0 32 = c.ivt.encode := by
      rw [front 0 32 (by omega), s3_of_s1 0 32 (by omega)]
      unfold st1
      rw [placeAt_keeps _ _ _ _ _ (by simp)]
      simp [slice]
      exact List.take_of_length_le (by simp)
    simpa [slice] using this
  · -- boot data
    rw [hbdt, Nat.add_sub_cancel_left, front 32 12 (by omega), s3_of_s1 32 12 (by omega)]
    unfold st1
    have := placeAt_slice c.ivt.encode c.bdt.encode bdtSegOffN (by rw [bdtSegOffN_eq]; simp)
    rwa [bdtSegOffN_eq, bdt_encode_length] at this
  · -- DCD
    intro d hd
    have hdcd : c.ivt.dcd = c.ivt.self + 64 := by simp [Cfg.ivt, hd, ivtDcdN_eq]
    refine ⟨hdcd, ?_⟩
    rw [hdcd, Nat.add_sub_cancel_left, front 64 d.length (by rw [st3_length_dcd c h d hd]; exact Nat.le_refl _)]
    have hx : c.xmcd = none := by
      rcases h.notBoth with hh | hh
      · rw [hd] at hh; cases hh
      · exact hh
    unfold st3 st2
    rw [hx, hd]
    simp only []
    have := placeAt_slice (st1 c) d dcdSegOffN (by rw [dcdSegOffN_eq, st1_length]; omega)
    rwa [dcdSegOffN_eq] at this
  · intro hd; simp [Cfg.ivt, hd]
  · -- XMCD
    intro x hx
    have hd : c.dcd = none := by
      rcases h.notBoth with hh | hh
      · exact hh
      · rw [hx] at hh; cases hh
    have hlen : HabConsts.xmcdSegOffset = 64 := rfl
    rw [hlen, front 64 x.length (by rw [st3_length_xmcd c h x hd hx]; exact Nat.le_refl _)]
    unfold st3 st2
    rw [hx, hd]
    simp only []
    have := placeAt_slice (st1 c) x HabConsts.xmcdSegOffset (by rw [st1_length]; decide)
    rwa [hlen] at this
  · -- application
    rw [himg]; exact image_app_slice c h b.app _
  · -- CSF present
    intro hc
    have hfl : c.flags ≠ 0 := by
      have := h.csf; rw [hc] at this
      intro h0; rw [h0] at this; cases this
    have hcp : c.ivt.csf = c.ivt.self + c.csfOff := by rw [hcsfp, if_neg hfl]
    have hlen := hcsf hc
    refine ⟨hcp, by rw [happ]; exact hbefore, ?_, ?_⟩
    · rw [hcp, Nat.add_sub_cancel_left, himg, hnf, hc]
      simp only [↓reduceIte, tailOf]
      rw [← hlen]
      have hpa : (pre c ++ b.app ++ zeros (c.csfOff - (c.appOff + b.app.length))).length = c.csfOff := by
        simp [hpl]; rw [happ]; omega
      rw [← List.append_assoc]
      have := slice_append_mid' (pre c ++ b.app ++ zeros (c.csfOff - (c.appOff + b.app.length)))
        (csfBytes c.version b.cmds) [] c.csfOff (csfBytes c.version b.cmds).length hpa.symm rfl
      rwa [List.append_nil] at this
    · rw [himg, hnf, hc]
      simp only [↓reduceIte, tailOf, List.length_append, hpl, zeros_length, hlen]
      rw [happ]; omega
  · -- no CSF
    intro hc
    have hfl : c.flags = 0 := by
      have := h.csf; rw [hc] at this
      rcases h.flags with h0 | h0 | h0 <;> rw [h0] at this <;> first | exact h0 | cases this
    refine ⟨by rw [hcsfp, if_pos hfl], ?_⟩
    rw [himg, hnf, hc]
    simp [tailOf, hpl]
  · -- boot data length
    simp only [Cfg.bdt]
    rw [himg, hnf]
    rcases h.flags with h0 | h0 | h0
    · have hc : c.hasCsf = false := by rw [h.csf, h0]; rfl
      have e1 : bdtEndIsCsf c.flags = false := by rw [hf.2.2.2, h0]; rfl
      have e2 : isEnc c.flags = false := by rw [hf.2.1, h0]; rfl
      simp only [hc, e1, e2, Bool.false_eq_true, ↓reduceIte, tailOf, bdtLenN_eq, List.length_append, hpl,
        List.length_nil]
      rw [happ]; omega
    · have hc : c.hasCsf = true := by rw [h.csf, h0]; rfl
      have e1 : bdtEndIsCsf c.flags = true := by rw [hf.2.2.2, h0]; rfl
      have e2 : isEnc c.flags = false := by rw [hf.2.1, h0]; rfl
      have hlen := hcsf hc
      simp only [hc, e1, e2, Bool.false_eq_true, ↓reduceIte, tailOf, bdtLenN_eq, List.length_append, hpl,
        zeros_length, hlen]
      rw [happ]; omega
    · have hc : c.hasCsf = true := by rw [h.csf, h0]; rfl
      have e1 : bdtEndIsCsf c.flags = true := by rw [hf.2.2.2, h0]; rfl
      have e2 : isEnc c.flags = true := by rw [hf.2.1, h0]; rfl
      have hlen := hcsf hc
      simp only [hc, e1, e2, ↓reduceIte, tailOf, bdtLenN_eq, List.length_append, hpl, zeros_length, hlen]
      rw [happ]; omega

theorem secret_key_loc_lemma (c : Cfg) (h : c.WF) :
    secretKeyLocN c.ils c.app.length c.start = c.start + c.ivtOff + c.csfOff + HabConsts.csfSize := by
  rw [secretKeyLocN_eq, csfOff_eq]
  have := csfAbs_gt (c.ils + c.app.length)
  have := h.ivtLe
  have : HabConsts.csfSize = 8192 := rfl
  omega

theorem blocks_cover_lemma (c : Cfg) (h : c.WF) (ha : c.flags ≠ 0) :
    let bl := c.allBlocks
    (∀ b ∈ bl, b.base = c.start + b.start ∧ c.ivtOff ≤ b.start ∧ b.start + b.size ≤ c.ivtOff + c.csfOff) ∧
    bl.Pairwise (fun a b => a.start + a.size ≤ b.start) ∧
    (∃ b ∈ bl, b.covers c.ivtOff 64) ∧
    (∀ d, c.dcd = some d → ∃ b ∈ bl, b.covers (c.ivtOff + 64) d.length) ∧
    (∀ x, c.xmcd = some x → ∃ b ∈ bl, b.covers (c.ivtOff + 64) x.length) ∧
    (∃ b ∈ bl, b.covers (c.ivtOff + c.appOff) c.appBin.length) := by
  intro bl
  have hf := flags_cases c.flags h.flags
  have hbefore := app_before_csf c h
  have hge := appOff_ge c h
  have e0 : HabConsts.ivtSegOffset = 0 := rfl
  have e1 : HabConsts.ivt2Size + HabConsts.bdtSize = 64 := rfl
  have e2 : HabConsts.xmcdSegOffset = 64 := rfl
  have e3 := dcdSegOffN_eq
  have hao := appOff_eq c
  -- the four candidate blocks
  let b0 := c.mkBlock HabConsts.ivtSegOffset (HabConsts.ivt2Size + HabConsts.bdtSize)
  let ba := c.mkBlock c.appOff c.appBin.length
  have hb0 : b0.base = c.start + b0.start ∧ b0.start = c.ivtOff ∧ b0.size = 64 := by
    simp [b0, Cfg.mkBlock, blockBaseN_eq, blockStartN_eq, e0, e1] <;> omega
  have hba : ba.base = c.start + ba.start ∧ ba.start = c.ivtOff + c.appOff ∧ ba.size = c.appBin.length := by
    simp [ba, Cfg.mkBlock, blockBaseN_eq, blockStartN_eq] <;> omega
  have hmk : ∀ off size, (c.mkBlock off size).base = c.start + (c.mkBlock off size).start ∧
      (c.mkBlock off size).start = c.ivtOff + off ∧ (c.mkBlock off size).size = size := by
    intro off size; simp [Cfg.mkBlock, blockBaseN_eq, blockStartN_eq] <;> omega
  -- the list in each of the cases
  have hmid : ∃ mid : List Block,
      bl = [b0] ++ mid ++ [ba] ∧
      (∀ m ∈ mid, m.base = c.start + m.start ∧ m.start = c.ivtOff + 64 ∧ 64 + m.size ≤ c.appOff) ∧ mid.length ≤ 1 ∧
      (∀ d, c.dcd = some d → ∃ m ∈ mid, m.size = d.length) ∧ (∀ x, c.xmcd = some x → ∃ m ∈ mid, m.size = x.length) := by
    have hen : isEnc c.flags = true ∨ isEnc c.flags = false := by cases isEnc c.flags <;> simp
    have hbl : bl = [b0] ++ ((match c.dcd with | some d => [c.mkBlock dcdSegOffN d.length] | none => []) ++
        (match c.xmcd with | some x => [c.mkBlock HabConsts.xmcdSegOffset x.length] | none => [])) ++ [ba] := by
      show c.allBlocks = _
      unfold Cfg.allBlocks Cfg.signedBlocks Cfg.encryptedBlocks
      rcases hen with he | he <;> simp [he, b0, ba] <;> rfl
    refine ⟨_, hbl, ?_, ?_, ?_, ?_⟩
    · intro m hm
      simp only [List.mem_append] at hm
      rcases hm with hm | hm
      · cases hd : c.dcd with
        | none => simp [hd] at hm
        | some d =>
          simp only [hd, List.mem_cons, List.not_mem_nil, or_false] at hm
          subst hm
          have := hmk dcdSegOffN d.length
          have := h.dcdFits d hd
          rw [e3] at *
          omega
      · cases hx : c.xmcd with
        | none => simp [hx] at hm
        | some x =>
          simp only [hx, List.mem_cons, List.not_mem_nil, or_false] at hm
          subst hm
          have := hmk HabConsts.xmcdSegOffset x.length
          have := h.xmcdFits x hx
          rw [e2] at *
          omega
    · rcases h.notBoth with hh | hh <;> rw [hh] <;> cases c.dcd <;> cases c.xmcd <;> simp
    · intro d hd; rw [hd]; exact ⟨c.mkBlock dcdSegOffN d.length, by simp, (hmk _ _).2.2⟩
    · intro x hx
      have hd : c.dcd = none := by
        rcases h.notBoth with hh | hh
        · exact hh
        · rw [hx] at hh; cases hh
      rw [hx, hd]; exact ⟨c.mkBlock HabConsts.xmcdSegOffset x.length, by simp, (hmk _ _).2.2⟩
  obtain ⟨mid, hbl, hmidp, hmidl, hmd, hmx⟩ := hmid
  rw [hbl]
  refine ⟨?_, ?_, ?_, ?_, ?_, ?_⟩
  · intro b hb
    simp only [List.mem_append, List.mem_cons, List.not_mem_nil, or_false] at hb
    rcases hb with (hb | hb) | hb
    · subst hb; omega
    · have := hmidp b hb; omega
    · subst hb; omega
  · -- ascending
    match mid, hmidp, hmidl with
    | [], _, _ => simp; omega
    | [m], hp, _ =>
      have := hp m (by simp)
      simp
      omega
    | _ :: _ :: _, _, hl => simp at hl
  · exact ⟨b0, by simp, by unfold Block.covers; omega⟩
  · intro d hd
    obtain ⟨m, hm, hs⟩ := hmd d hd
    have := hmidp m hm
    exact ⟨m, by simp [hm], by unfold Block.covers; omega⟩
  · intro x hx
    obtain ⟨m, hm, hs⟩ := hmx x hx
    have := hmidp m hm
    exact ⟨m, by simp [hm], by unfold Block.covers; omega⟩
  · exact ⟨ba, by simp, by unfold Block.covers; omega⟩

end SpsdkVerif.Hab
