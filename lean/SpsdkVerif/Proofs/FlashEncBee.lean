/-
C13 — BEE: `Bee.exportImage` refines the block-wise specification; the hardware model inverts it.
-/
import SpsdkVerif.Proofs.FlashEncCommon

namespace SpsdkVerif.FlashEnc
open SpsdkVerif SpsdkVerif.Crypto
open SpsdkVerif.Misc (beEnc beDec leEnc leDec)
open SpsdkVerif.Generated.FlashEncConsts

variable {c : CryptoOps}

/-! ### the specification: lengths, position independence, untouched bytes -/

theorem bee_specPiece_length (h : CryptoLaws c) (es : List BeeEngine) (a : Nat) (p : Bytes)
    (h0 : 0 < p.length) (h16 : p.length ≤ 16) :
    p.length ≤ (beeSpecPiece c es a p).length ∧ (beeSpecPiece c es a p).length ≤ 16 := by
  unfold beeSpecPiece
  split
  · rw [xorBytes_length, zeroPad16_length_piece p h0 h16, h.enc_len]; omega
  · omega

theorem bee_blocksFor_succ (m : Bytes) (n : Nat) (h : n + 1 = blocksFor m.length) :
    0 < m.length ∧ n = blocksFor (m.drop 16).length := by
  simp only [blocksFor, List.length_drop] at *; omega

theorem bee_spec_length_aux (h : CryptoLaws c) (es : List BeeEngine) :
    ∀ (n a : Nat) (m : Bytes), n = blocksFor m.length →
      m.length ≤ (beeSpec c es n a m).length ∧ (beeSpec c es n a m).length ≤ 16 * n
  | 0, a, m, hn => by
    simp only [blocksFor] at hn
    have : m.length = 0 := by omega
    simp [beeSpec, this]
  | n + 1, a, m, hn => by
    obtain ⟨h0, hn'⟩ := bee_blocksFor_succ m n hn
    have ih := bee_spec_length_aux h es n (a + 16) (m.drop 16) hn'
    have hp := bee_specPiece_length h es a (m.take 16) (by simp; omega) (by simp; omega)
    simp only [beeSpec, List.length_append]
    simp only [List.length_take, List.length_drop] at *
    omega

theorem bee_spec_length (h : CryptoLaws c) (es : List BeeEngine) (base : Nat) (img : Bytes) :
    img.length ≤ (beeSpecImage c es base img).length ∧
    (beeSpecImage c es base img).length ≤ (img.length + 15) / 16 * 16 := by
  have := bee_spec_length_aux h es (blocksFor img.length) base img rfl
  unfold beeSpecImage
  simp only [blocksFor] at *
  omega

theorem bee_specImage_length_aligned (h : CryptoLaws c) (es : List BeeEngine) (base : Nat) (img : Bytes)
    (hl : img.length % 16 = 0) : (beeSpecImage c es base img).length = img.length := by
  have := bee_spec_length h es base img
  omega

theorem bee_spec_append_aux (es : List BeeEngine) :
    ∀ (k a : Nat) (p q : Bytes), p.length = 16 * k →
      beeSpec c es (blocksFor (p ++ q).length) a (p ++ q) =
        beeSpec c es k a p ++ beeSpec c es (blocksFor q.length) (a + p.length) q
  | 0, a, p, q, hp => by
    have : p = [] := List.eq_nil_of_length_eq_zero (by omega)
    subst this
    simp [beeSpec]
  | k + 1, a, p, q, hp => by
    have hb : blocksFor (p ++ q).length = blocksFor (p.drop 16 ++ q).length + 1 := by
      simp only [blocksFor, List.length_append, List.length_drop]; omega
    have ht : (p ++ q).take 16 = p.take 16 := List.take_append_of_le_length (by omega)
    have hd : (p ++ q).drop 16 = p.drop 16 ++ q := List.drop_append_of_le_length (by omega)
    have ih := bee_spec_append_aux es k (a + 16) (p.drop 16) q (by simp; omega)
    have ha : a + 16 + (p.drop 16).length = a + p.length := by simp; omega
    rw [hb]
    simp only [beeSpec]
    rw [ht, hd, ih, ha, List.append_assoc]

theorem bee_spec_append (es : List BeeEngine) (base : Nat) (p q : Bytes) (hp : p.length % 16 = 0) :
    beeSpecImage c es base (p ++ q) = beeSpecImage c es base p ++ beeSpecImage c es (base + p.length) q := by
  unfold beeSpecImage
  have hk : blocksFor p.length = p.length / 16 := by simp only [blocksFor]; omega
  rw [hk]
  exact bee_spec_append_aux es (p.length / 16) base p q (by omega)

theorem bee_spec_outside_aux (h : CryptoLaws c) (es : List BeeEngine) :
    ∀ (n a : Nat) (m : Bytes), n = blocksFor m.length → ∀ i, i < m.length →
      beeActive es (a + i / 16 * 16) = none → (beeSpec c es n a m)[i]? = m[i]?
  | 0, a, m, hn, i, hi, _ => by
    simp only [blocksFor] at hn; omega
  | n + 1, a, m, hn, i, hi, hact => by
    obtain ⟨h0, hn'⟩ := bee_blocksFor_succ m n hn
    have hp := bee_specPiece_length h es a (m.take 16) (by simp; omega) (by simp; omega)
    simp only [beeSpec]
    by_cases hi16 : i < 16
    · have ha : a + i / 16 * 16 = a := by omega
      rw [ha] at hact
      have hpc : beeSpecPiece c es a (m.take 16) = m.take 16 := by
        simp only [beeSpecPiece, hact]
      rw [hpc, List.getElem?_append_left (by simp; omega), List.getElem?_take_of_lt hi16]
    · have hlen : (beeSpecPiece c es a (m.take 16)).length = 16 := by
        simp only [List.length_take] at hp; omega
      have ha : a + 16 + (i - 16) / 16 * 16 = a + i / 16 * 16 := by omega
      have ih := bee_spec_outside_aux h es n (a + 16) (m.drop 16) hn' (i - 16) (by simp; omega)
        (by rw [ha]; exact hact)
      rw [List.getElem?_append_right (by omega), hlen, ih, List.getElem?_drop]
      congr 1; omega

/-- a FAC region that is aligned to 16 bytes holds an address iff it holds the start of its 16-byte block -/
theorem bee_hit_16 (f : Fac) (hs : f.start % 16 = 0) (hl : f.length % 16 = 0) (a a' : Nat) (hu : a / 16 = a' / 16) :
    f.hit a = f.hit a' := by
  simp only [Fac.hit]
  have : (f.start ≤ a ↔ f.start ≤ a') := by omega
  have : (a < f.start + f.length ↔ a' < f.start + f.length) := by omega
  simp [*]

/-- a byte whose own address lies in no FAC region is left as it is -/
theorem bee_spec_outside (h : CryptoLaws c) (es : List BeeEngine) (hwf : ∀ e ∈ es, e.WF)
    (base : Nat) (hb : base % 16 = 0) (img : Bytes) (i : Nat) (hi : i < img.length)
    (hout : ∀ e ∈ es, ∀ f ∈ e.facs, f.hit (base + i) = false) :
    (beeSpecImage c es base img)[i]? = img[i]? := by
  unfold beeSpecImage
  apply bee_spec_outside_aux h es _ base img rfl i hi
  unfold beeActive
  rw [List.find?_eq_none]
  intro e he
  simp only [List.any_eq_true, not_exists, not_and, Bool.not_eq_true]
  intro f hf
  have hw := (hwf e he).facs f hf
  rw [bee_hit_16 f (by omega) (by omega) (base + i / 16 * 16) (base + i) (by omega)]
  exact hout e he f hf

/-! ### the hardware side -/

theorem bee_hw_specPiece (h : CryptoLaws c) (es : List BeeEngine) (a : Nat) (p : Bytes)
    (h0 : 0 < p.length) (h16 : p.length ≤ 16) :
    beeHw c es a (beeSpecPiece c es a p) = p ∨ beeHw c es a (beeSpecPiece c es a p) = zeroPad 16 p := by
  unfold beeHw beeSpecPiece beeActive
  cases hf : es.find? (fun e => e.facs.any (fun f => f.hit a)) with
  | none => left; rfl
  | some e =>
    right
    simp only
    exact xorBytes_cancel_eq _ _ (by rw [zeroPad16_length_piece p h0 h16, h.enc_len])

theorem bee_hw_read_aux (h : CryptoLaws c) (es : List BeeEngine) :
    ∀ (n a : Nat) (m : Bytes), n = blocksFor m.length →
      (beeHwRead c es n a (beeSpec c es n a m)).take m.length = m
  | 0, a, m, hn => by
    simp only [blocksFor] at hn
    have : m.length = 0 := by omega
    simp [beeHwRead, List.eq_nil_of_length_eq_zero this]
  | n + 1, a, m, hn => by
    obtain ⟨h0, hn'⟩ := bee_blocksFor_succ m n hn
    have hpl : 0 < (m.take 16).length := by simp; omega
    have hpu : (m.take 16).length ≤ 16 := by simp; omega
    have hp := bee_specPiece_length h es a (m.take 16) hpl hpu
    have hhw := bee_hw_specPiece h es a (m.take 16) hpl hpu
    simp only [beeSpec, beeHwRead]
    by_cases hm : m.length ≤ 16
    · have hn0 : n = 0 := by
        simp only [blocksFor, List.length_drop] at hn'; omega
      subst hn0
      have hmt : m.take 16 = m := List.take_of_length_le hm
      rw [hmt] at hp hhw ⊢
      simp only [beeSpec, beeHwRead, List.append_nil]
      rw [List.take_of_length_le hp.2]
      rcases hhw with e | e
      · rw [e]; exact List.take_of_length_le (by omega)
      · rw [e]; exact zeroPad_take_self 16 m
    · have hlen : (beeSpecPiece c es a (m.take 16)).length = 16 := by
        simp only [List.length_take] at hp; omega
      have hzp : zeroPad 16 (m.take 16) = m.take 16 := zeroPad_of_aligned 16 _ (by simp; omega)
      have hhw' : beeHw c es a (beeSpecPiece c es a (m.take 16)) = m.take 16 := by
        rcases hhw with e | e
        · exact e
        · rw [e, hzp]
      have ih := bee_hw_read_aux h es n (a + 16) (m.drop 16) hn'
      rw [List.take_left' hlen, List.drop_left' hlen, hhw', List.take_append]
      have e1 : (m.take 16).take m.length = m.take 16 := List.take_of_length_le (by simp; omega)
      have e2 : m.length - (m.take 16).length = (m.drop 16).length := by simp; omega
      rw [e1, e2, ih, List.take_append_drop]

/-- the engine reading the specified ciphertext returns the plaintext -/
theorem bee_spec_hw (h : CryptoLaws c) (es : List BeeEngine) (base : Nat) (img : Bytes) :
    (beeHwReadAll c es base (beeSpecImage c es base img)).take img.length = img := by
  have hl := bee_spec_length h es base img
  have hbf : blocksFor (beeSpecImage c es base img).length = blocksFor img.length := by
    simp only [blocksFor]; omega
  unfold beeHwReadAll
  rw [hbf]
  unfold beeSpecImage
  exact bee_hw_read_aux h es _ base img rfl

/-! ### AES-CTR over a 1 KiB unit = block-wise xor with address counters -/

/-- blockwise xor with `enc (blk i)`, `enc (blk (i+1))`, … -/
def bee_blocksXor (enc : Bytes → Bytes) (blk : Nat → Bytes) : Nat → Nat → Bytes → Bytes
  | 0, _, _ => []
  | n + 1, i, d => xorBytes (d.take 16) (enc (blk i)) ++ bee_blocksXor enc blk n (i + 1) (d.drop 16)

theorem bee_xor_stream (enc : Bytes → Bytes) (he : ∀ b, (enc b).length = 16) (blk : Nat → Bytes) :
    ∀ (n i : Nat) (d : Bytes), d.length = 16 * n → xorBytes d (streamOf enc blk n i) = bee_blocksXor enc blk n i d
  | 0, i, d, hd => by
    have : d = [] := List.eq_nil_of_length_eq_zero (by omega)
    subst this
    simp [streamOf, bee_blocksXor, xorBytes]
  | n + 1, i, d, hd => by
    have hsplit : d = d.take 16 ++ d.drop 16 := (List.take_append_drop 16 d).symm
    have ih := bee_xor_stream enc he blk n (i + 1) (d.drop 16) (by simp; omega)
    simp only [streamOf, bee_blocksXor]
    rw [← ih]
    have key := xorBytes_append (d.take 16) (d.drop 16) (enc (blk i)) (streamOf enc blk n (i + 1))
      (by simp [he]; omega)
    rw [List.take_append_drop] at key
    exact key

theorem bee_blocksXor_congr (enc : Bytes → Bytes) (blk blk' : Nat → Bytes) :
    ∀ (n i : Nat) (d : Bytes), (∀ j, i ≤ j → j < i + n → blk j = blk' j) →
      bee_blocksXor enc blk n i d = bee_blocksXor enc blk' n i d
  | 0, _, _, _ => rfl
  | n + 1, i, d, hb => by
    simp only [bee_blocksXor]
    rw [hb i (by omega) (by omega), bee_blocksXor_congr enc blk blk' n (i + 1) (d.drop 16)
      (fun j h1 h2 => hb j (by omega) (by omega))]

theorem bee_counterValue (e : BeeEngine) (hw : e.WF) (a : Nat) :
    counterValue e.counter (a >>> beeCtrAddrShift) = e.counter.take 12 ++ beEnc 4 (a / 16) := by
  simp only [counterValue, hw.ctr_low, beeCtrAddrShift, Nat.shiftRight_eq_div_pow]
  simp [beDec]

/-- the CTR encryption of a padded block at address `a` is the block-wise xor with the counters
    `nonce ‖ BE32(a/16 + j)`: no carry into the nonce -/
theorem bee_ctrXor_blocks (h : CryptoLaws c) (e : BeeEngine) (hw : e.WF) (a : Nat) (d : Bytes) (n : Nat)
    (hd : d.length = 16 * n) (hlt : a / 16 + n ≤ 2 ^ 32) :
    ctrXor c e.key (counterValue e.counter (a >>> beeCtrAddrShift)) d =
      bee_blocksXor (c.encBlk e.key) (fun j => e.counter.take 12 ++ beEnc 4 (a / 16 + j)) n 0 d := by
  have hn12 : (e.counter.take 12).length = 12 := by simp [hw.ctr_len]
  have hbf : blocksFor d.length = n := by simp only [blocksFor]; omega
  rw [bee_counterValue e hw a]
  simp only [ctrXor, ctrXorWith, ctrStream, hbf]
  rw [bee_xor_stream _ (h.enc_len e.key) _ n 0 d hd]
  apply bee_blocksXor_congr
  intro j _ hj
  exact counter_carry _ hn12 _ _ (by omega)

theorem bee_zeroPad_take (m : Bytes) : (zeroPad 16 m).take 16 = zeroPad 16 (m.take 16) := by
  by_cases hm : 16 ≤ m.length
  · rw [zeroPad_of_aligned 16 (m.take 16) (by simp; omega)]
    unfold zeroPad
    exact List.take_append_of_le_length hm
  · rw [List.take_of_length_le (l := m) (by omega)]
    apply List.take_of_length_le
    rw [zeroPad_length]; omega

theorem bee_zeroPad_drop (m : Bytes) : (zeroPad 16 m).drop 16 = zeroPad 16 (m.drop 16) := by
  by_cases hm : 16 ≤ m.length
  · unfold zeroPad
    rw [List.drop_append_of_le_length hm]
    congr 2
    simp only [List.length_drop]; omega
  · rw [List.drop_of_length_le (l := m) (by omega), zeroPad16_nil]
    apply List.drop_of_length_le
    rw [zeroPad_length]; omega

theorem bee_blocksXor_spec (es : List BeeEngine) (e : BeeEngine) (A : Nat) :
    ∀ (n a i : Nat) (m : Bytes), n = blocksFor m.length → a % 16 = 0 → A + i = a / 16 →
      (∀ j, j < n → beeActive es (a + 16 * j) = some e) →
      bee_blocksXor (c.encBlk e.key) (fun j => e.counter.take 12 ++ beEnc 4 (A + j)) n i (zeroPad 16 m) =
        beeSpec c es n a m
  | 0, _, _, _, _, _, _, _ => rfl
  | n + 1, a, i, m, hn, ha, hA, hact => by
    obtain ⟨h0, hn'⟩ := bee_blocksFor_succ m n hn
    have ih := bee_blocksXor_spec es e A n (a + 16) (i + 1) (m.drop 16) hn' (by omega) (by omega)
      (fun j hj => by have := hact (j + 1) (by omega); rw [← this]; congr 1; omega)
    have ha0 := hact 0 (by omega)
    simp only [Nat.mul_zero, Nat.add_zero] at ha0
    simp only [bee_blocksXor, beeSpec, beeSpecPiece, ha0]
    rw [bee_zeroPad_take, bee_zeroPad_drop, ih, hA]

theorem bee_spec_none (es : List BeeEngine) :
    ∀ (n a : Nat) (m : Bytes), n = blocksFor m.length → (∀ j, j < n → beeActive es (a + 16 * j) = none) →
      beeSpec c es n a m = m
  | 0, _, m, hn, _ => by
    simp only [blocksFor] at hn
    have : m.length = 0 := by omega
    simp [beeSpec, List.eq_nil_of_length_eq_zero this]
  | n + 1, a, m, hn, hact => by
    obtain ⟨h0, hn'⟩ := bee_blocksFor_succ m n hn
    have ih := bee_spec_none es n (a + 16) (m.drop 16) hn'
      (fun j hj => by have := hact (j + 1) (by omega); rw [← this]; congr 1; omega)
    have ha0 := hact 0 (by omega)
    simp only [Nat.mul_zero, Nat.add_zero] at ha0
    simp only [beeSpec, beeSpecPiece, ha0]
    rw [ih, List.take_append_drop]

/-! ### one engine on one block inside a 1 KiB unit -/

theorem bee_foldl_min (l : List Fac) : ∀ (init : Nat),
    l.foldl (fun m f => min m f.start) init ≤ init ∧ ∀ f ∈ l, l.foldl (fun m f => min m f.start) init ≤ f.start := by
  induction l with
  | nil => intro init; simp
  | cons x t ih =>
    intro init
    obtain ⟨i1, i2⟩ := ih (min init x.start)
    simp only [List.foldl_cons]
    refine ⟨by omega, ?_⟩
    intro f hf
    rcases List.mem_cons.mp hf with hf | hf
    · subst hf; omega
    · exact i2 f hf

theorem bee_foldl_max (l : List Fac) : ∀ (init : Nat),
    init ≤ l.foldl (fun m f => max m f.end_) init ∧ ∀ f ∈ l, f.end_ ≤ l.foldl (fun m f => max m f.end_) init := by
  induction l with
  | nil => intro init; simp
  | cons x t ih =>
    intro init
    obtain ⟨i1, i2⟩ := ih (max init x.end_)
    simp only [List.foldl_cons]
    refine ⟨by omega, ?_⟩
    intro f hf
    rcases List.mem_cons.mp hf with hf | hf
    · subst hf; omega
    · exact i2 f hf

theorem bee_inside_of_hit (e : BeeEngine) (f : Fac) (hf : f ∈ e.facs) (a : Nat) (hit : f.hit a = true) :
    e.isInsideRegion a = true := by
  have h1 : e.envStart ≤ f.start := (bee_foldl_min e.facs (if e.facs.isEmpty then 0 else 0xFFFFFFFF)).2 f hf
  have h2 : f.end_ ≤ e.envEnd := (bee_foldl_max e.facs 0).2 f hf
  simp only [Fac.hit, Bool.and_eq_true, decide_eq_true_eq] at hit
  simp only [BeeEngine.isInsideRegion, Bool.and_eq_true, decide_eq_true_eq]
  simp only [Fac.end_] at h2
  omega

theorem bee_facLoop (e : BeeEngine) (hc : e.counter.length = 16) (a : Nat) (data : Bytes)
    (hu : a % 1024 + data.length ≤ 1024) :
    ∀ (l : List Fac), (∀ f ∈ l, f.start % 1024 = 0 ∧ f.length % 1024 = 0) →
      BeeEngine.facLoop c e a data l =
        .ok (if l.any (fun f => f.hit a) then
          ctrXor c e.key (counterValue e.counter (a >>> beeCtrAddrShift)) (zeroPad 16 data) else data)
  | [], _ => rfl
  | f :: rest, hal => by
    have hf := hal f List.mem_cons_self
    have ih := bee_facLoop e hc a data hu rest (fun g hg => hal g (List.mem_cons_of_mem _ hg))
    have hcond : (decide (f.start ≤ a) && decide (a < f.end_)) = f.hit a := rfl
    rw [BeeEngine.facLoop, hcond, List.any_cons]
    cases hh : f.hit a
    · simp only [Bool.false_eq_true, if_false, Bool.false_or]
      exact ih
    · simp only [Fac.hit, Bool.and_eq_true, decide_eq_true_eq] at hh
      have : ¬ (a + data.length > f.end_) := by simp only [Fac.end_]; omega
      simp [this, hc]

theorem bee_encryptBlock (e : BeeEngine) (hw : e.WF) (a : Nat) (data : Bytes) (hu : a % 1024 + data.length ≤ 1024) :
    e.encryptBlock c a data =
      .ok (if e.facs.any (fun f => f.hit a) then
        ctrXor c e.key (counterValue e.counter (a >>> beeCtrAddrShift)) (zeroPad 16 data) else data) := by
  have hlen : ¬ data.length > beeEncrBlockSize := by simp only [beeEncrBlockSize]; omega
  simp only [BeeEngine.encryptBlock, hlen, if_false]
  cases hin : e.isInsideRegion a
  · have : e.facs.any (fun f => f.hit a) = false := by
      rw [List.any_eq_false]
      intro f hf hh
      rw [bee_inside_of_hit e f hf a hh] at hin
      exact absurd hin (by simp)
    simp [this]
  · simp only [if_true, hw.key_len, ne_eq, not_true_eq_false, if_false]
    exact bee_facLoop e hw.ctr_len a data hu e.facs (fun f hf => ⟨(hw.facs f hf).1, (hw.facs f hf).2.1⟩)

/-! ### all engines on one block -/

theorem bee_headersStep_none (a : Nat) : ∀ (hs : List (Option BeeEngine)), (∀ e ∈ beeEngines hs, e.WF) →
    (∀ e ∈ beeEngines hs, e.facs.any (fun f => f.hit a) = false) → ∀ (data : Bytes), a % 1024 + data.length ≤ 1024 →
    beeHeadersStep c a hs data = .ok data
  | [], _, _, _, _ => rfl
  | none :: rest, hwf, hno, data, hu => by
    simp only [beeHeadersStep]
    exact bee_headersStep_none a rest (by simpa [beeEngines] using hwf) (by simpa [beeEngines] using hno) data hu
  | some e :: rest, hwf, hno, data, hu => by
    have hwf' : ∀ x ∈ beeEngines rest, x.WF := fun x hx => hwf x (by simp [beeEngines] at hx ⊢; exact Or.inr hx)
    have hno' : ∀ x ∈ beeEngines rest, x.facs.any (fun f => f.hit a) = false :=
      fun x hx => hno x (by simp [beeEngines] at hx ⊢; exact Or.inr hx)
    have he : e ∈ beeEngines (some e :: rest) := by simp [beeEngines]
    simp only [beeHeadersStep, bee_encryptBlock e (hwf e he) a data hu, hno e he, Bool.false_eq_true, if_false]
    exact bee_headersStep_none a rest hwf' hno' data hu

theorem bee_headersStep (h : CryptoLaws c) (a : Nat) (ha : a % 16 = 0) :
    ∀ (hs : List (Option BeeEngine)), (∀ e ∈ beeEngines hs, e.WF) → BeeDisjoint (beeEngines hs) →
    ∀ (block : Bytes), a % 1024 + block.length ≤ 1024 →
      beeHeadersStep c a hs block =
        .ok (match beeActive (beeEngines hs) a with
          | none => block
          | some e => ctrXor c e.key (counterValue e.counter (a >>> beeCtrAddrShift)) (zeroPad 16 block))
  | [], _, _, _, _ => rfl
  | none :: rest, hwf, hd, block, hu => by
    simp only [beeHeadersStep]
    have := bee_headersStep h a ha rest (by simpa [beeEngines] using hwf) (by simpa [beeEngines] using hd) block hu
    simpa [beeEngines] using this
  | some e :: rest, hwf, hd, block, hu => by
    have hwf' : ∀ x ∈ beeEngines rest, x.WF := fun x hx => hwf x (by simp [beeEngines] at hx ⊢; exact Or.inr hx)
    have he : e ∈ beeEngines (some e :: rest) := by simp [beeEngines]
    have hes : beeEngines (some e :: rest) = e :: beeEngines rest := by simp [beeEngines]
    have hd2 : (e.facs ++ beeAllFacs (beeEngines rest)).Pairwise
        (fun x y => x.start + x.length ≤ y.start ∨ y.start + y.length ≤ x.start) := by
      have := hd
      simpa [BeeDisjoint, hes, beeAllFacs] using this
    obtain ⟨_, hdr, hcross⟩ := List.pairwise_append.mp hd2
    simp only [beeHeadersStep, bee_encryptBlock e (hwf e he) a block hu, hes, beeActive, List.find?_cons]
    cases hany : e.facs.any (fun f => f.hit a)
    · simp only [Bool.false_eq_true, if_false]
      exact bee_headersStep h a ha rest hwf' hdr block hu
    · simp only [if_true]
      apply bee_headersStep_none a rest hwf'
      · intro x hx
        rw [List.any_eq_false]
        intro g hg hgh
        obtain ⟨f, hf, hfh⟩ := List.any_eq_true.mp hany
        have hgm : g ∈ beeAllFacs (beeEngines rest) := List.mem_flatMap.mpr ⟨x, hx, hg⟩
        have := hcross f hf g hgm
        simp only [Fac.hit, Bool.and_eq_true, decide_eq_true_eq] at hfh hgh
        omega
      · rw [ctrXor_length h, zeroPad16_length]; omega

theorem bee_find?_congr {α : Type} (p q : α → Bool) : ∀ (l : List α), (∀ x ∈ l, p x = q x) → l.find? p = l.find? q
  | [], _ => rfl
  | x :: t, hpq => by
    simp only [List.find?_cons, hpq x List.mem_cons_self]
    rw [bee_find?_congr p q t (fun y hy => hpq y (List.mem_cons_of_mem _ hy))]

theorem bee_any_congr {α : Type} (p q : α → Bool) : ∀ (l : List α), (∀ x ∈ l, p x = q x) → l.any p = l.any q
  | [], _ => rfl
  | x :: t, hpq => by
    simp only [List.any_cons, hpq x List.mem_cons_self]
    rw [bee_any_congr p q t (fun y hy => hpq y (List.mem_cons_of_mem _ hy))]

theorem bee_active_unit (es : List BeeEngine) (hwf : ∀ e ∈ es, e.WF) (a a' : Nat) (hu : a / 1024 = a' / 1024) :
    beeActive es a = beeActive es a' := by
  unfold beeActive
  apply bee_find?_congr
  intro e he
  have hw := hwf e he
  apply bee_any_congr
  intro f hf
  obtain ⟨h1, h2, _, _⟩ := hw.facs f hf
  simp only [Fac.hit]
  have : (f.start ≤ a ↔ f.start ≤ a') := by omega
  have : (a < f.start + f.length ↔ a' < f.start + f.length) := by omega
  simp [*]

/-- one block inside one 1 KiB unit: the engines produce the specified bytes -/
theorem bee_headersStep_spec (h : CryptoLaws c) (hs : List (Option BeeEngine)) (hwf : ∀ e ∈ beeEngines hs, e.WF)
    (hd : BeeDisjoint (beeEngines hs)) (a : Nat) (ha : a % 16 = 0) (block : Bytes)
    (hu : a % 1024 + block.length ≤ 1024) :
    beeHeadersStep c a hs block = .ok (beeSpecImage c (beeEngines hs) a block) := by
  have hunit : ∀ j, j < blocksFor block.length → beeActive (beeEngines hs) (a + 16 * j) = beeActive (beeEngines hs) a := by
    intro j hj
    apply bee_active_unit _ hwf
    simp only [blocksFor] at hj
    omega
  rw [bee_headersStep h a ha hs hwf hd block hu]
  unfold beeSpecImage
  cases hact : beeActive (beeEngines hs) a with
  | none =>
    simp only
    rw [bee_spec_none _ _ a block rfl (fun j hj => by rw [hunit j hj, hact])]
  | some e =>
    simp only
    have hmem : e ∈ beeEngines hs := List.mem_of_find?_eq_some hact
    have hw := hwf e hmem
    have hany : e.facs.any (fun f => f.hit a) = true := by
      have := List.find?_some hact
      simpa using this
    obtain ⟨f, hf, hfh⟩ := List.any_eq_true.mp hany
    obtain ⟨f1, f2, _, f4⟩ := hw.facs f hf
    simp only [Fac.hit, Bool.and_eq_true, decide_eq_true_eq] at hfh
    have hpl : (zeroPad 16 block).length = 16 * blocksFor block.length := by
      rw [zeroPad16_length]; simp only [blocksFor]; omega
    rw [bee_ctrXor_blocks h e hw a _ _ hpl (by simp only [blocksFor]; omega)]
    exact congrArg _ (bee_blocksXor_spec _ e (a / 16) _ a 0 block rfl ha (by omega)
      (fun j hj => by rw [hunit j hj, hact]))

/-! ### the walk over the 1 KiB units -/

theorem bee_loop_nil (hs : List (Option BeeEngine)) :
    ∀ (f a : Nat) (acc : Bytes), beeLoop c hs f a [] acc = .ok acc
  | 0, _, _ => rfl
  | _ + 1, _, _ => by simp [beeLoop]

theorem bee_specImage_nil (es : List BeeEngine) (a : Nat) : beeSpecImage c es a [] = [] := by
  simp [beeSpecImage, blocksFor, beeSpec]

theorem bee_loop_spec (h : CryptoLaws c) (hs : List (Option BeeEngine)) (hwf : ∀ e ∈ beeEngines hs, e.WF)
    (hd : BeeDisjoint (beeEngines hs)) :
    ∀ (f a : Nat) (rest acc : Bytes), rest.length ≤ f → a % 1024 = 0 →
      beeLoop c hs f a rest acc = .ok (acc ++ beeSpecImage c (beeEngines hs) a rest)
  | 0, a, rest, acc, hf, _ => by
    have : rest = [] := List.eq_nil_of_length_eq_zero (by omega)
    subst this
    simp [beeLoop, bee_specImage_nil]
  | f + 1, a, rest, acc, hf, ha => by
    by_cases hne : rest = []
    · subst hne
      simp [bee_loop_nil, bee_specImage_nil]
    · have hpos : 0 < rest.length := List.length_pos_iff.mpr hne
      have hemp : rest.isEmpty = false := by simpa using hne
      have hstep := bee_headersStep_spec h hs hwf hd a (by omega) (rest.take 1024) (by simp; omega)
      simp only [beeLoop, hemp, Bool.false_eq_true, if_false, beeEncrBlockSize, hstep]
      by_cases htail : rest.drop 1024 = []
      · have hblock : rest.take 1024 = rest := by
          have := List.take_append_drop 1024 rest
          rw [htail, List.append_nil] at this
          exact this
        rw [htail, bee_loop_nil, hblock]
      · have htl : 0 < (rest.drop 1024).length := List.length_pos_iff.mpr htail
        have hbl : (rest.take 1024).length = 1024 := by
          simp only [List.length_drop] at htl
          simp; omega
        have hsl := bee_specImage_length_aligned h (beeEngines hs) a (rest.take 1024) (by omega)
        have ih := bee_loop_spec h hs hwf hd f (a + (beeSpecImage c (beeEngines hs) a (rest.take 1024)).length)
          (rest.drop 1024) (acc ++ beeSpecImage c (beeEngines hs) a (rest.take 1024)) (by simp; omega)
          (by rw [hsl, hbl]; omega)
        rw [ih, List.append_assoc, hsl]
        have := bee_spec_append (c := c) (beeEngines hs) a (rest.take 1024) (rest.drop 1024) (by omega)
        rw [List.take_append_drop] at this
        rw [this]

/-- REFINEMENT: the code computes the block-wise specification (random padding of a short last block taken as zeros) -/
theorem bee_refines_spec (h : CryptoLaws c) (hs : List (Option BeeEngine)) (hwf : ∀ e ∈ beeEngines hs, e.WF)
    (hd : BeeDisjoint (beeEngines hs)) (base : Nat) (hb : base % 16 = 0) (img : Bytes) :
    Bee.exportImage c hs img base = .ok (beeSpecImage c (beeEngines hs) base img) := by
  unfold Bee.exportImage
  simp only [beeEncrBlockSize]
  by_cases himg : img = []
  · subst himg
    simp [firstLen, bee_loop_nil, bee_specImage_nil]
  have hpos : 0 < img.length := List.length_pos_iff.mpr himg
  by_cases hfl : firstLen 1024 base img.length = 0
  · have hb1024 : base % 1024 = 0 := by
      simp only [firstLen] at hfl; omega
    have := bee_loop_spec h hs hwf hd img.length base img [] (by omega) hb1024
    simpa [hfl] using this
  · have hfl_le : firstLen 1024 base img.length ≤ img.length := by simp only [firstLen]; omega
    have hstep := bee_headersStep_spec h hs hwf hd base hb (img.take (firstLen 1024 base img.length))
      (by simp [firstLen]; omega)
    simp only [hfl, if_false, hstep]
    by_cases htail : img.drop (firstLen 1024 base img.length) = []
    · have hblock : img.take (firstLen 1024 base img.length) = img := by
        have := List.take_append_drop (firstLen 1024 base img.length) img
        rw [htail, List.append_nil] at this
        exact this
      rw [htail, bee_loop_nil, hblock]
    · have htl : 0 < (img.drop (firstLen 1024 base img.length)).length := List.length_pos_iff.mpr htail
      simp only [List.length_drop] at htl
      have hfv : firstLen 1024 base img.length = (1024 - base % 1024) % 1024 := by
        simp only [firstLen] at htl ⊢; omega
      have hbl : (img.take (firstLen 1024 base img.length)).length = firstLen 1024 base img.length := by
        simp; omega
      have hsl := bee_specImage_length_aligned h (beeEngines hs) base (img.take (firstLen 1024 base img.length))
        (by rw [hbl, hfv]; omega)
      have ih := bee_loop_spec h hs hwf hd img.length
        (base + (beeSpecImage c (beeEngines hs) base (img.take (firstLen 1024 base img.length))).length)
        (img.drop (firstLen 1024 base img.length))
        (beeSpecImage c (beeEngines hs) base (img.take (firstLen 1024 base img.length))) (by simp)
        (by rw [hsl, hbl, hfv]; omega)
      rw [ih, hsl, hbl]
      have := bee_spec_append (c := c) (beeEngines hs) base (img.take (firstLen 1024 base img.length))
        (img.drop (firstLen 1024 base img.length)) (by rw [hbl, hfv]; omega)
      rw [hbl, List.take_append_drop] at this
      rw [this]

end SpsdkVerif.FlashEnc
