/-
MBI image theorems for the `encrypted` family (classes whose `collect_data` resolves to the encrypted collector).
See Properties/C01.lean for the statements' meaning; base lemmas in Proofs/MbiBase.lean.
-/
import SpsdkVerif.Proofs.MbiBase

namespace SpsdkVerif.Mbi
open SpsdkVerif SpsdkVerif.Misc SpsdkVerif.Crypto
open SpsdkVerif.Generated.IvtConsts
open SpsdkVerif.Generated.MbiClasses (MixinName Method Attr provider attrs preParsed isData parent countInLegacyCertBlockLen)

variable {co : CryptoOps} {env : Env} {c : Cls} {cfg : Cfg} {signer : Signer}

/-! ### class facts -/

/-- what `ClassWF` says about a class of the encrypted family -/
structure EncCls (c : Cls) : Prop where
  himgType : c.imageType ≤ imageTypeMask
  htzSize : c.tzSize % 4 = 0
  hivt : c.hasAttr .ivt_table = true
  hclean : c.hasAttr .clean_ivt = true
  hApp : c.has .Mbi_MixinApp = true
  horder : (parseOrder c).isSome = true
  hallApp : (c.appLenProviders.all (fun o => o == none || o == some .Mbi_MixinApp || o == some .Mbi_MixinRelocTable)) = true
  hcntApp : provCount c.appLenProviders .Mbi_MixinApp = 1
  hcntReloc : provCount c.appLenProviders .Mbi_MixinRelocTable = (if c.has .Mbi_MixinRelocTable then 1 else 0)
  happTable : c.hasAttr .app_table = c.has .Mbi_MixinRelocTable
  hdis : c.hasAttr .disassembly_app_data = c.has .Mbi_MixinRelocTable
  hla : c.hasAttr .load_address = c.has .Mbi_MixinLoadAddress
  hsub : c.hasAttr .image_subtype = c.has .Mbi_MixinImageSubType
  hver : c.hasAttr .image_version = c.has .Mbi_MixinImageVersion
  hv2t : c.hasAttr .image_version_to_image_type = c.has .Mbi_MixinImageVersion
  hhw : c.hasAttr .user_hw_key_enabled = c.has .Mbi_MixinHwKey
  hks : c.hasAttr .key_store = true
  hhmac : c.hasAttr .hmac_key = c.has .Mbi_MixinHmac
  hbca : c.hasAttr .bca = false
  hfcf : c.hasAttr .fcf = false
  hdisasm : c.resolve .disassemble_image = some .Mbi_ExportMixinAppTrustZoneCertBlockEncrypt
  henc : c.resolve .encrypt = some .Mbi_ExportMixinAppTrustZoneCertBlockEncrypt
  hpenc : c.resolve .post_encrypt = some .Mbi_ExportMixinAppTrustZoneCertBlockEncrypt
  hfin : c.resolve .finalize = some .Mbi_ExportMixinHmacKeyStoreFinalize
  hsign : c.signKind = .rsa
  htype : c.imageType ≠ 0
  hV1 : c.has .Mbi_MixinCertBlockV1 = true
  hV21 : c.has .Mbi_MixinCertBlockV21 = false
  hcert : c.hasAttr .cert_block = true
  hTz : c.has .Mbi_MixinTrustZone = true
  hmk : c.manifestKind = none
  hCtr : c.has .Mbi_MixinCtrInitVector = true
  hHmacM : c.has .Mbi_MixinHmacMandatory = true
  hKs : c.has .Mbi_MixinKeyStore = true
  hcoll : c.resolve .collect_data = some .Mbi_ExportMixinAppTrustZoneCertBlockEncrypt
  hlen : lenProvidersAre c.lenProviders ([.Mbi_MixinApp, .Mbi_MixinTrustZone, .Mbi_MixinCertBlockV1, .Mbi_MixinHmac,
            .Mbi_MixinKeyStore] ++ optList (c.has .Mbi_MixinRelocTable) .Mbi_MixinRelocTable) = true

theorem encCls (h : ClassWF c = true) (hf : c.family = some .encrypted) : EncCls c := by
  unfold ClassWF at h
  simp only [Bool.and_eq_true, hf, and_assoc] at h
  obtain ⟨a1, a2, a3, a4, a5, a6, a7, a8, a9, a10, a11, a12, a13, a14, a15, a16, a17, a18, a19, a20, a21,
    b1, b2, b3, b4, b5, b6, b7, b8, b9, b10, b10', b11, b12, b13, b14, b15⟩ := h
  refine { himgType := by simpa using a1, htzSize := by simpa using a2, hivt := a3, hclean := a4, hApp := a6,
           horder := a7, hallApp := a8, hcntApp := by simpa using a9, hcntReloc := by simpa using a10,
           happTable := by simpa using a11, hdis := by simpa using a12, hla := by simpa using a13,
           hsub := by simpa using a14, hver := by simpa using a15, hv2t := by simpa using a16,
           hhw := by simpa using a17, hks := by simpa [b14] using a18, hhmac := by simpa using a19,
           hbca := by simpa using a20, hfcf := by simpa using a21, hdisasm := by simpa using b1,
           henc := by simpa using b2, hpenc := by simpa using b3, hfin := by simpa using b4,
           hsign := by simpa using b5, htype := by simpa using b6, hV1 := b7, hV21 := by simpa using b8,
           hcert := b9, hTz := b10, hmk := by simpa using b11, hCtr := b12, hHmacM := b13, hKs := b14,
           hcoll := ?_, hlen := b15 }
  clear a8 a9 a10 b15
  unfold Cls.family at hf
  split at hf <;> first | assumption | (exact absurd hf (by simp))

/-! ### mixin-level facts (decided over the 40 mixin names) -/

theorem encrypted_has_mono (b1 b2 : MixinName) (hd : ∀ m, derivesFrom m b1 = true → derivesFrom m b2 = true)
    (h : c.has b1 = true) : c.has b2 = true := by
  unfold Cls.has at h ⊢
  rw [List.any_eq_true] at h ⊢
  obtain ⟨m, hm, hb⟩ := h
  exact ⟨m, hm, hd m hb⟩

theorem encrypted_has_mem (base : MixinName) (h : c.has base = true) : ∃ m ∈ c.mixins, derivesFrom m base = true := by
  unfold Cls.has at h
  rw [List.any_eq_true] at h
  exact h

theorem EncCls.hHmac (hc : EncCls c) : c.has .Mbi_MixinHmac = true :=
  encrypted_has_mono .Mbi_MixinHmacMandatory .Mbi_MixinHmac (by intro m; cases m <;> decide) hc.hHmacM

theorem encrypted_hasTrustZone (hc : EncCls c) : c.hasTrustZone = true := by
  unfold Cls.hasTrustZone; rw [hc.hTz]; simp

/-- what `cfgWF` says for a class of the encrypted family -/
structure EncCfg (c : Cls) (cfg : Cfg) : Prop where
  hval : validate c cfg = .ok ()
  hpack : packGuard c cfg = .ok ()
  hla : cfg.loadAddress < 2 ^ 32
  hiv : cfg.imageVersion < 2 ^ 16
  hst : cfg.subType ≤ subTypeMask
  hflags : flagsOf c cfg < 2 ^ 32
  htz : ∀ d, cfg.tz = .custom d → d.length = c.tzSize ∧ c.tzSize > 0
  hreloc : ∀ es, cfg.reloc = some es → (∀ e ∈ es, relocEntryOk e = true) ∧ c.has .Mbi_MixinRelocTable = true ∧ es ≠ []
  hks : ∀ k, cfg.keyStore = some k → k.length = keyStoreSize
  hhmac : ∃ k, cfg.hmacKey = some k ∧ k.length = hmacKeyLength
  hctr : cfg.ctrIv.length = ctrInitVectorSize
  happ : hmacOffset ≤ (appData cfg).length
  hbca : cfg.bca = none
  hfcf : cfg.fcf = none
  hcertLen : certHeaderSize ≤ cfg.cert.length
  hcertSig : cfg.cert.take 4 = certHeaderSignature
  hcertHdr : rd32 cfg.cert 8 = certHeaderSize
  hcertSize : certV1Size cfg.cert = cfg.cert.length
  hsigLen : cfg.sigLen > 0
  hdigest : cfg.digest = none
  hfw : cfg.fwVersion = 0
  hnoIv : c.has .Mbi_MixinImageVersion = false → cfg.imageVersion = 0
  hnoSub : c.has .Mbi_MixinImageSubType = false → cfg.subType = 0
  hnoHw : c.has .Mbi_MixinHwKey = false → cfg.hwKey = false
  hnoLa : c.has .Mbi_MixinLoadAddress = false → cfg.loadAddress = 0

theorem encCfg (hc : EncCls c) (h : cfgWF c cfg = true) : EncCfg c cfg := by
  unfold cfgWF at h
  simp only [Bool.and_eq_true, and_assoc] at h
  obtain ⟨a1, a2, a3, a4, a5, a6, a7, a8, a9, a10, a11, a12, a13, a14, a15, a16, a17, a18, a19, a20, a21, a22, a23,
    a24, a25, a26, a27⟩ := h
  have hHm := hc.hHmac
  simp only [hc.hV1, hc.hV21, hc.hmk, hc.hCtr, hHm, hc.hKs] at *
  have a17' : (certHeaderSize ≤ cfg.cert.length ∧ cfg.cert.take 4 = certHeaderSignature ∧ rd32 cfg.cert 8 = certHeaderSize
      ∧ certV1Size cfg.cert = cfg.cert.length) ∧ cfg.sigLen > 0 := by simpa [and_assoc] using a17
  refine { hval := by simpa using a1, hpack := by simpa using a2, hla := by simpa using a3, hiv := by simpa using a4,
           hst := by simpa using a5, hflags := by simpa using a7, htz := ?_, hreloc := ?_,
           hks := ?_, hhmac := ?_, hctr := by simpa using a13, happ := by simpa using a14,
           hbca := by simpa using a15, hfcf := by simpa using a16,
           hcertLen := a17'.1.1, hcertSig := a17'.1.2.1, hcertHdr := a17'.1.2.2.1, hcertSize := a17'.1.2.2.2,
           hsigLen := a17'.2,
           hdigest := by simpa using a20, hfw := by simpa using a22,
           hnoIv := by intro hh; simpa [hh] using a23, hnoSub := by intro hh; simpa [hh] using a24,
           hnoHw := by intro hh; simpa [hh] using a25, hnoLa := by intro hh; simpa [hh] using a26 }
  · intro d hd; rw [hd] at a8; simpa using a8
  · intro es hes; rw [hes] at a10
    simp only [Bool.and_eq_true, List.all_eq_true, Bool.not_eq_true', List.isEmpty_eq_false_iff] at a10
    exact ⟨a10.1.1, a10.1.2, a10.2⟩
  · intro k hk; rw [hk] at a11; simpa using a11
  · cases hk : cfg.hmacKey with
    | none => rw [hk] at a12; simp at a12
    | some k => rw [hk] at a12; exact ⟨k, rfl, by simpa using a12⟩

/-! ### closed forms of the length sums -/

theorem encrypted_reloc_none (hk : EncCfg c cfg) (h : c.has .Mbi_MixinRelocTable = false) : cfg.reloc = none := by
  cases hr : cfg.reloc with
  | none => rfl
  | some es => have := (hk.hreloc es hr).2.1; rw [h] at this; exact absurd this (by simp)

theorem encrypted_relocLen_zero (hk : EncCfg c cfg) (h : c.has .Mbi_MixinRelocTable = false) : relocLen c cfg = 0 := by
  unfold relocLen; rw [encrypted_reloc_none hk h]

theorem encrypted_appLen_count (a r : Nat) (l : List (Option MixinName)) :
    (l.map (fun o => match o with
      | some .Mbi_MixinApp => a | some .Mbi_MixinRelocTable => r | _ => 0)).sum
      = a * l.count (some .Mbi_MixinApp) + r * l.count (some .Mbi_MixinRelocTable) := by
  induction l with
  | nil => simp
  | cons o os ih =>
    rw [List.map_cons, List.sum_cons, ih, List.count_cons, List.count_cons]
    cases o with
    | none => simp
    | some m => cases m <;> simp [Nat.mul_add] <;> omega

theorem encrypted_appLen (hc : EncCls c) (hk : EncCfg c cfg) : appLen c cfg = (appData cfg).length + relocLen c cfg := by
  have e : appLen c cfg = (c.appLenProviders.map (fun o => match o with
      | some .Mbi_MixinApp => (appData cfg).length | some .Mbi_MixinRelocTable => relocLen c cfg | _ => 0)).sum := by
    unfold appLen Cls.appLenProviders
    rw [List.map_map]
    rfl
  rw [e, encrypted_appLen_count]
  have h1 := hc.hcntApp
  have h2 := hc.hcntReloc
  unfold provCount at h1 h2
  rw [h1, h2]
  cases hr : c.has .Mbi_MixinRelocTable
  · simp [encrypted_relocLen_zero hk hr]
  · simp

theorem encrypted_totalLen_exp (c : Cls) (cfg : Cfg) (exp : List MixinName) (h : lenProvidersAre c.lenProviders exp = true) :
    totalLen c cfg = (exp.map (mixLenOf c cfg)).sum := by
  rw [← sum_of_lenProvidersAre _ _ (mixLenOf c cfg) h]
  unfold totalLen Cls.lenProviders
  rw [List.map_map]
  rfl

def encKsLen (cfg : Cfg) : Nat := (cfg.keyStore.getD []).length

theorem encrypted_totalLen (hc : EncCls c) (hk : EncCfg c cfg) :
    totalLen c cfg = (((appData cfg).length + relocLen c cfg + cfg.tz.bytes.length + cfg.cert.length + hmacSize
        + encKsLen cfg : Nat) : Int) := by
  rw [encrypted_totalLen_exp c cfg _ hc.hlen]
  obtain ⟨k, hk1, _⟩ := hk.hhmac
  cases hr : c.has .Mbi_MixinRelocTable
  · have h2 := encrypted_relocLen_zero hk hr
    cases hs : cfg.keyStore <;> simp [optList, mixLenOf, h2, hk1, hs, encKsLen] <;> omega
  · cases hs : cfg.keyStore <;> simp [optList, mixLenOf, hk1, hs, encKsLen] <;> omega

/-! ### the exported image in closed form -/

def encU (c : Cls) (cfg : Cfg) : Bytes := updateIvt c cfg (appData cfg) (encImgLen c cfg) (appLen c cfg)
def encR (cfg : Cfg) : Bytes :=
  match cfg.reloc with
  | some es => relocExport es (appData cfg).length
  | none => []
def encRaw (c : Cls) (cfg : Cfg) : Bytes := encU c cfg ++ encR cfg ++ cfg.tz.bytes
def encKeyOf (co : CryptoOps) (cfg : Cfg) : Bytes := encKey co (cfg.hmacKey.getD []) cfg.keyStore.isSome
def encEnc (co : CryptoOps) (c : Cls) (cfg : Cfg) : Bytes := ctrXor co (encKeyOf co cfg) cfg.ctrIv (encRaw c cfg)
def encIvtOf (co : CryptoOps) (c : Cls) (cfg : Cfg) : Bytes :=
  updateIvt c cfg ((encEnc co c cfg).take hmacOffset) (encImgLen c cfg) (appLen c cfg)
/-- everything behind the (HMAC, key store) in the final image except the signature -/
def encBody (co : CryptoOps) (c : Cls) (cfg : Cfg) : Bytes :=
  slice (encEnc co c cfg) hmacOffset (appLen c cfg) ++ certInImage c cfg ++ (encEnc co c cfg).take encIvtCopySize
    ++ cfg.ctrIv ++ (encEnc co c cfg).drop (appLen c cfg)
def encPe (co : CryptoOps) (c : Cls) (cfg : Cfg) : Bytes := encIvtOf co c cfg ++ encBody co c cfg
def encImg (co : CryptoOps) (c : Cls) (cfg : Cfg) (signer : Signer) : Bytes :=
  encIvtOf co c cfg ++ computeHmac co cfg (encIvtOf co c cfg) ++ (cfg.keyStore.getD []) ++ encBody co c cfg
    ++ signer (encPe co c cfg)

theorem encrypted_app_ivt (hk : EncCfg c cfg) : minIvtSize ≤ (appData cfg).length := by
  have := hk.happ; simp only [hmacOffset] at this; simp only [minIvtSize]; omega

theorem encU_length (hk : EncCfg c cfg) : (encU c cfg).length = (appData cfg).length :=
  updateIvt_length c cfg _ _ _ (encrypted_app_ivt hk)

theorem encR_length (c : Cls) (cfg : Cfg) : (encR cfg).length = relocLen c cfg := by
  unfold encR relocLen
  cases cfg.reloc with
  | none => rfl
  | some es => exact relocExport_length_indep es _ _

theorem encrypted_tab (hc : EncCls c) (hk : EncCfg c cfg) :
    (if c.hasAttr .app_table = true then cfg.reloc else none) = cfg.reloc := by
  rw [hc.happTable]
  cases hr : c.has .Mbi_MixinRelocTable
  · simp [encrypted_reloc_none hk hr]
  · simp

theorem encRaw_length (hc : EncCls c) (hk : EncCfg c cfg) :
    (encRaw c cfg).length = appLen c cfg + cfg.tz.bytes.length := by
  unfold encRaw
  simp only [List.length_append, encU_length hk, encR_length c cfg, encrypted_appLen hc hk]

theorem encEnc_length (hl : CryptoLaws co) (hc : EncCls c) (hk : EncCfg c cfg) :
    (encEnc co c cfg).length = appLen c cfg + cfg.tz.bytes.length := by
  unfold encEnc; rw [ctrXor_length hl, encRaw_length hc hk]

theorem encrypted_appLen_ge (hc : EncCls c) (hk : EncCfg c cfg) : hmacOffset ≤ appLen c cfg := by
  rw [encrypted_appLen hc hk]; have := hk.happ; omega

theorem encIvtOf_length (hl : CryptoLaws co) (hc : EncCls c) (hk : EncCfg c cfg) : (encIvtOf co c cfg).length = hmacOffset := by
  have h1 := encEnc_length hl hc hk
  have h2 := encrypted_appLen_ge hc hk
  simp only [hmacOffset] at *
  unfold encIvtOf
  rw [updateIvt_length _ _ _ _ _ (by simp [minIvtSize, hmacOffset]; omega)]
  simp [hmacOffset]; omega

theorem encrypted_cert_ne (hk : EncCfg c cfg) : cfg.cert.isEmpty = false := by
  have := hk.hcertLen
  cases h : cfg.cert with
  | nil => rw [h] at this; simp [certHeaderSize] at this
  | cons a l => rfl

theorem encrypted_collect (hc : EncCls c) (hk : EncCfg c cfg) : collect c cfg = .ok (encRaw c cfg) := by
  have hlen := hk.happ
  have hne : (appData cfg).isEmpty = false := by
    cases h : appData cfg with
    | nil => rw [h] at hlen; simp [hmacOffset] at hlen
    | cons a l => rfl
  unfold collect
  rw [hc.hcoll]
  simp only
  unfold collectEncrypt
  simp only [hne, encrypted_cert_ne hk, encrypted_tab hc hk, Bool.false_eq_true, or_self, if_false]
  unfold encRaw encR
  cases hr : cfg.reloc with
  | none => rfl
  | some es => simp only [encU, updateIvt_length c cfg _ _ _ (encrypted_app_ivt hk)]

theorem encrypted_certInImage (hl : CryptoLaws co) (hc : EncCls c) (hk : EncCfg c cfg) :
    certSetImageLength cfg.cert ((encEnc co c cfg).length + cfg.cert.length + encIvtCopySize + cfg.ctrIv.length)
      = certInImage c cfg := by
  have e : (encEnc co c cfg).length = (appData cfg).length + (match cfg.reloc with
      | some es => (relocExport es 0).length | none => 0) + cfg.tz.bytes.length := by
    rw [encEnc_length hl hc hk, encrypted_appLen hc hk]
    rfl
  unfold certInImage
  rw [hc.hpenc]
  simp only [encrypted_tab hc hk]
  rw [e]
  cases cfg.reloc <;> rfl

theorem encrypted_iv_ne (hk : EncCfg c cfg) : cfg.ctrIv.isEmpty = false := by
  have := hk.hctr
  cases h : cfg.ctrIv with
  | nil => rw [h] at this; simp [ctrInitVectorSize] at this
  | cons a l => rfl

theorem encrypted_export (hl : CryptoLaws co) (hc : EncCls c) (hk : EncCfg c cfg) (signer : Signer) :
    exportImage co c cfg signer = .ok (encImg co c cfg signer) := by
  obtain ⟨k, hk1, _⟩ := hk.hhmac
  have hkey : encKey co k cfg.keyStore.isSome = encKeyOf co cfg := by simp [encKeyOf, hk1]
  have hE : encryptStage co c cfg (encRaw c cfg) = .ok (encEnc co c cfg) := by
    unfold encryptStage
    rw [hc.henc]
    simp only [hk1, encrypted_iv_ne hk, Bool.false_eq_true, if_false, hkey]
    rfl
  have htzd : (if cfg.tz.bytes.isEmpty = true then [] else (encEnc co c cfg).drop (appLen c cfg))
      = (encEnc co c cfg).drop (appLen c cfg) := by
    split
    · rename_i h0
      rw [List.isEmpty_iff] at h0
      rw [List.drop_of_length_le]
      rw [encEnc_length hl hc hk, h0]; simp
    · rfl
  have hP : postEncryptStage c cfg (encEnc co c cfg) = .ok (encPe co c cfg) := by
    unfold postEncryptStage
    rw [hc.hpenc]
    simp only [encrypted_cert_ne hk, Bool.false_eq_true, if_false, encrypted_certInImage hl hc hk, htzd]
    unfold encPe encBody encIvtOf
    simp only [List.append_assoc]
  have hS : signStage c signer (encPe co c cfg) = .ok (encPe co c cfg ++ signer (encPe co c cfg)) := by
    unfold signStage; rw [hc.hsign]
  have hI := encIvtOf_length hl hc hk
  have hF : finalizeStage co c cfg (encPe co c cfg) (encPe co c cfg ++ signer (encPe co c cfg))
      = .ok (encImg co c cfg signer) := by
    unfold finalizeStage
    rw [hc.hfin]
    have e1 : (encPe co c cfg ++ signer (encPe co c cfg)).take hmacOffset = encIvtOf co c cfg := by
      unfold encPe; rw [List.append_assoc, List.take_left' hI]
    have e2 : (encPe co c cfg ++ signer (encPe co c cfg)).drop hmacOffset
        = encBody co c cfg ++ signer (encPe co c cfg) := by
      unfold encPe; rw [List.append_assoc, List.drop_left' hI]
    have e3 : ¬ (encPe co c cfg ++ signer (encPe co c cfg)).length < hmacOffset := by
      unfold encPe; simp only [List.length_append, hI]; omega
    simp only [e1, e2, e3, if_false]
    unfold encImg
    simp only [List.append_assoc]
  unfold exportImage
  simp only [hk.hval, hk.hpack, encrypted_collect hc hk, hE, hP, hS, hF, bind, Except.bind]

/-! ### lengths -/

theorem encrypted_certInImage_length (hc : EncCls c) (hk : EncCfg c cfg) : (certInImage c cfg).length = cfg.cert.length := by
  have := hk.hcertLen
  unfold certInImage
  rw [hc.hpenc]
  simp only [certSetImageLength]
  apply setAt_length
  simp only [le32_length, certImageLengthOffset, certHeaderSize] at *
  omega

theorem encrypted_computeHmac_length (hl : CryptoLaws co) (hk : EncCfg c cfg) (head : Bytes) :
    (computeHmac co cfg head).length = hmacSize := by
  obtain ⟨k, hk1, _⟩ := hk.hhmac
  unfold computeHmac
  rw [hk1]
  simp only [hmac_length hl]
  rfl

theorem encBody_length (hl : CryptoLaws co) (hc : EncCls c) (hk : EncCfg c cfg) :
    (encBody co c cfg).length = appLen c cfg - hmacOffset + cfg.cert.length + encIvtCopySize + encIvSize
        + cfg.tz.bytes.length := by
  have h1 := encEnc_length hl hc hk
  have h2 := encrypted_appLen_ge hc hk
  have h3 := hk.hctr
  unfold encBody
  simp only [List.length_append, slice_length, encrypted_certInImage_length hc hk, List.length_take, List.length_drop, h1, h3]
  simp only [hmacOffset, encIvtCopySize, encIvSize, ctrInitVectorSize] at *
  omega

theorem encPe_length (hl : CryptoLaws co) (hc : EncCls c) (hk : EncCfg c cfg) :
    (encPe co c cfg).length = appLen c cfg + cfg.cert.length + encIvtCopySize + encIvSize + cfg.tz.bytes.length := by
  have h2 := encrypted_appLen_ge hc hk
  unfold encPe
  rw [List.length_append, encBody_length hl hc hk, encIvtOf_length hl hc hk]
  omega

theorem encImg_length (hl : CryptoLaws co) (hc : EncCls c) (hk : EncCfg c cfg) (signer : Signer)
    (hs : ∀ m, (signer m).length = cfg.sigLen) :
    (encImg co c cfg signer).length = appLen c cfg + hmacSize + encKsLen cfg + cfg.cert.length + encIvtCopySize + encIvSize
        + cfg.tz.bytes.length + cfg.sigLen := by
  have h2 := encrypted_appLen_ge hc hk
  unfold encImg
  simp only [List.length_append, encBody_length hl hc hk, encIvtOf_length hl hc hk, encrypted_computeHmac_length hl hk, hs, encKsLen]
  omega

theorem encImg_length_total (hl : CryptoLaws co) (hc : EncCls c) (hk : EncCfg c cfg) (signer : Signer)
    (hs : ∀ m, (signer m).length = cfg.sigLen) :
    (encImg co c cfg signer).length = encImgLen c cfg := by
  rw [encImg_length hl hc hk signer hs]
  unfold encImgLen
  rw [encrypted_totalLen hc hk, encrypted_appLen hc hk]
  simp only [Int.toNat_natCast]
  omega

theorem encImgLen_lt (hc : EncCls c) (hk : EncCfg c cfg) : encImgLen c cfg < 2 ^ 32 := by
  have h := hk.hpack
  unfold packGuard at h
  split at h
  · exact absurd h (by simp)
  · rename_i hn
    simp only [not_or] at hn
    have h1 := hn.2.1
    have h2 := hn.1
    unfold encImgLen
    rw [encrypted_totalLen hc hk] at *
    simp only [Int.toNat_natCast]
    omega

/-! ### header words and flag fields -/

theorem encrypted_appLen_lt (hc : EncCls c) (hk : EncCfg c cfg) : appLen c cfg < 2 ^ 32 := by
  have h1 := encImgLen_lt hc hk
  unfold encImgLen at h1
  rw [encrypted_totalLen hc hk] at h1
  simp only [Int.toNat_natCast] at h1
  rw [encrypted_appLen hc hk]
  omega

/-- the four IVT words of an image that starts with the encrypted, updated IVT -/
theorem encIvtOf_words (hl : CryptoLaws co) (hc : EncCls c) (hk : EncCfg c cfg) (rest : Bytes) :
    rd32 (encIvtOf co c cfg ++ rest) ivtImageLengthOffset = (if c.zeroTotalLength then 0 else encImgLen c cfg)
    ∧ rd32 (encIvtOf co c cfg ++ rest) ivtImageFlagsOffset = flagsOf c cfg
    ∧ rd32 (encIvtOf co c cfg ++ rest) ivtCrcCertificateOffset = appLen c cfg
    ∧ rd32 (encIvtOf co c cfg ++ rest) ivtLoadAddrOffset = (if c.has .Mbi_MixinLoadAddress then cfg.loadAddress else 0) := by
  have h1 := encEnc_length hl hc hk
  have h2 := encrypted_appLen_ge hc hk
  have hA : minIvtSize ≤ ((encEnc co c cfg).take hmacOffset).length := by
    simp only [hmacOffset, minIvtSize, List.length_take] at *; omega
  have hw := updateIvt_words c cfg ((encEnc co c cfg).take hmacOffset) (encImgLen c cfg) (appLen c cfg) hA hk.hflags
    (encImgLen_lt hc hk) (encrypted_appLen_lt hc hk) hk.hla
  simp only [hc.hla, hc.htype, if_false] at hw
  unfold encIvtOf
  rw [rd32_updateIvt_append _ _ _ _ _ _ _ hA (by decide), rd32_updateIvt_append _ _ _ _ _ _ _ hA (by decide),
    rd32_updateIvt_append _ _ _ _ _ _ _ hA (by decide), rd32_updateIvt_append _ _ _ _ _ _ _ hA (by decide)]
  exact hw

theorem encImg_eq_head (co : CryptoOps) (c : Cls) (cfg : Cfg) (signer : Signer) :
    encImg co c cfg signer = encIvtOf co c cfg ++ (computeHmac co cfg (encIvtOf co c cfg) ++ (cfg.keyStore.getD [])
      ++ encBody co c cfg ++ signer (encPe co c cfg)) := by
  unfold encImg; simp only [List.append_assoc]

theorem encrypted_imgVer_le (hk : EncCfg c cfg) : cfg.imageVersion ≤ imgVerMask := by
  have := hk.hiv; simp only [imgVerMask]; omega

theorem encrypted_tzTag_le (cfg : Cfg) : cfg.tz.tag ≤ tzTypeMask := by
  cases cfg.tz <;> simp [TzCfg.tag, tzTypeMask, tzEnabled, tzCustom, tzDisabled]

theorem encrypted_flag_fields_aux (hc : EncCls c) (hk : EncCfg c cfg) (n : Nat) (hn : cfg.keyStore.isSome = true → n > 0) :
    let f := createFlags c.imageType c.hasTrustZone cfg.tz.tag (c.hasAttr .image_subtype) cfg.subType
      (c.hasAttr .user_hw_key_enabled) cfg.hwKey (c.hasAttr .key_store) cfg.keyStore.isSome n
      (c.hasAttr .app_table) cfg.reloc.isSome (c.hasAttr .image_version) cfg.imageVersion
      (c.hasAttr .image_version_to_image_type) true
    getTzType f = cfg.tz.tag
    ∧ getSubType f = (if c.has .Mbi_MixinImageSubType then cfg.subType else 0)
    ∧ getHwKeyEnabled f = (c.has .Mbi_MixinHwKey && cfg.hwKey)
    ∧ getKeyStorePresented f = cfg.keyStore.isSome
    ∧ getAppTablePresented f = cfg.reloc.isSome
    ∧ getImageVersion f = (if c.has .Mbi_MixinImageVersion then cfg.imageVersion else 0) := by
  have h := flags_fields c.imageType cfg.tz.tag cfg.subType cfg.imageVersion n
    c.hasTrustZone (c.hasAttr .image_subtype) (c.hasAttr .user_hw_key_enabled) cfg.hwKey (c.hasAttr .key_store)
    cfg.keyStore.isSome (c.hasAttr .app_table) cfg.reloc.isSome (c.hasAttr .image_version)
    (c.hasAttr .image_version_to_image_type) true hc.himgType (encrypted_tzTag_le cfg) hk.hst (encrypted_imgVer_le hk)
  obtain ⟨_, h2, h3, h4, h5, h6, h7, _⟩ := h
  intro f
  refine ⟨?_, ?_, ?_, ?_, ?_, ?_⟩
  · rw [h2, encrypted_hasTrustZone hc]; rfl
  · rw [h3, hc.hsub]
  · rw [h4, hc.hhw]
  · rw [h5, hc.hks]
    cases hs : cfg.keyStore.isSome with
    | false => rfl
    | true => have := hn hs; simp [this]
  · rw [h6, hc.happTable]
    cases hr : c.has .Mbi_MixinRelocTable
    · simp [encrypted_reloc_none hk hr]
    · simp
  · rw [h7, hc.hver, hc.hv2t]; simp

/-- the fields of the flag word of the image -/
theorem encrypted_flag_fields (hc : EncCls c) (hk : EncCfg c cfg) :
    getTzType (flagsOf c cfg) = cfg.tz.tag
    ∧ getSubType (flagsOf c cfg) = (if c.has .Mbi_MixinImageSubType then cfg.subType else 0)
    ∧ getHwKeyEnabled (flagsOf c cfg) = (c.has .Mbi_MixinHwKey && cfg.hwKey)
    ∧ getKeyStorePresented (flagsOf c cfg) = cfg.keyStore.isSome
    ∧ getAppTablePresented (flagsOf c cfg) = cfg.reloc.isSome
    ∧ getImageVersion (flagsOf c cfg) = (if c.has .Mbi_MixinImageVersion then cfg.imageVersion else 0) := by
  unfold flagsOf
  refine encrypted_flag_fields_aux hc hk _ ?_
  intro h
  cases hs : cfg.keyStore with
  | none => rw [hs] at h; simp at h
  | some k => have := hk.hks k hs; simp [this, keyStoreSize]

theorem encKsLen_eq (hk : EncCfg c cfg) : encKsLen cfg = if cfg.keyStore.isSome then keyStoreSize else 0 := by
  unfold encKsLen
  cases hs : cfg.keyStore with
  | none => rfl
  | some k => simpa using hk.hks k hs

theorem encImg_flagsIn (hl : CryptoLaws co) (hc : EncCls c) (hk : EncCfg c cfg) (signer : Signer) :
    flagsIn (encImg co c cfg signer) = flagsOf c cfg := by
  rw [encImg_eq_head]; exact (encIvtOf_words hl hc hk _).2.1

theorem encrypted_hmacShift (hl : CryptoLaws co) (hc : EncCls c) (hk : EncCfg c cfg) (signer : Signer) :
    hmacShift c (encImg co c cfg signer) = hmacSize + encKsLen cfg := by
  unfold hmacShift
  rw [hc.hhmac, hc.hHmac, encImg_flagsIn hl hc hk, (encrypted_flag_fields hc hk).2.2.2.1, encKsLen_eq hk]
  simp

theorem encrypted_certOffset (hl : CryptoLaws co) (hc : EncCls c) (hk : EncCfg c cfg) (signer : Signer)
    (hs : ∀ m, (signer m).length = cfg.sigLen) :
    certOffsetChecked c (encImg co c cfg signer) = .ok (appLen c cfg) := by
  have hlen := encImg_length_total hl hc hk signer hs
  have hw := encIvtOf_words hl hc hk (computeHmac co cfg (encIvtOf co c cfg) ++ (cfg.keyStore.getD [])
      ++ encBody co c cfg ++ signer (encPe co c cfg))
  rw [← encImg_eq_head] at hw
  have hge : minIvtSize ≤ (encImg co c cfg signer).length := by
    rw [encImg_length hl hc hk signer hs]
    have := encrypted_appLen_ge hc hk
    simp only [minIvtSize, hmacOffset] at *; omega
  have ht : rd32 (encImg co c cfg signer) ivtImageLengthOffset ≤ (encImg co c cfg signer).length := by
    rw [hw.1, hlen]; split <;> omega
  have hct : checkTotalLength c (encImg co c cfg signer) = .ok () := by
    unfold checkTotalLength
    simp only
    split
    · rw [if_neg (by omega)]
    · rw [if_neg (by omega), if_neg (by omega)]
  unfold certOffsetChecked
  simp only [hct, hw.2.2.1, bind, Except.bind, pure, Except.pure]

/-! ### byte layout of the final image -/

theorem encrypted_drop_of_split (e pre post : Bytes) (n : Nat) (h : e = pre ++ post) (hn : pre.length = n) :
    e.drop n = post := by
  subst h; exact List.drop_left' hn

theorem encrypted_take_of_split (e pre post : Bytes) (n : Nat) (h : e = pre ++ post) (hn : pre.length = n) :
    e.take n = pre := by
  subst h; exact List.take_left' hn

theorem encrypted_slice_of_split (e pre w post : Bytes) (i j : Nat) (h : e = pre ++ w ++ post) (hi : pre.length = i)
    (hj : i + w.length = j) : slice e i j = w := by
  subst h; subst hi; subst hj; exact slice_append_mid _ _ _

structure EncLens (co : CryptoOps) (c : Cls) (cfg : Cfg) (signer : Signer) : Prop where
  hL : hmacOffset ≤ appLen c cfg
  hivt : (encIvtOf co c cfg).length = hmacOffset
  hmac : (computeHmac co cfg (encIvtOf co c cfg)).length = hmacSize
  hks : (cfg.keyStore.getD []).length = encKsLen cfg
  hmid : (slice (encEnc co c cfg) hmacOffset (appLen c cfg)).length = appLen c cfg - hmacOffset
  hcert : (certInImage c cfg).length = cfg.cert.length
  hcopy : ((encEnc co c cfg).take encIvtCopySize).length = encIvtCopySize
  hiv : cfg.ctrIv.length = encIvSize
  htz : ((encEnc co c cfg).drop (appLen c cfg)).length = cfg.tz.bytes.length
  hsig : (signer (encPe co c cfg)).length = cfg.sigLen

theorem encLens (hl : CryptoLaws co) (hc : EncCls c) (hk : EncCfg c cfg) (signer : Signer)
    (hs : ∀ m, (signer m).length = cfg.sigLen) : EncLens co c cfg signer := by
  have h1 := encEnc_length hl hc hk
  have h2 := encrypted_appLen_ge hc hk
  refine ⟨h2, encIvtOf_length hl hc hk, encrypted_computeHmac_length hl hk _, rfl, ?_, encrypted_certInImage_length hc hk, ?_, hk.hctr, ?_, hs _⟩
  · rw [slice_length, h1]; omega
  · rw [List.length_take, h1]; simp only [encIvtCopySize, hmacOffset] at *; omega
  · rw [List.length_drop, h1]; omega

theorem encImg_split (co : CryptoOps) (c : Cls) (cfg : Cfg) (signer : Signer) :
    encImg co c cfg signer = encIvtOf co c cfg ++ computeHmac co cfg (encIvtOf co c cfg) ++ (cfg.keyStore.getD [])
      ++ slice (encEnc co c cfg) hmacOffset (appLen c cfg) ++ certInImage c cfg ++ (encEnc co c cfg).take encIvtCopySize
      ++ cfg.ctrIv ++ (encEnc co c cfg).drop (appLen c cfg) ++ signer (encPe co c cfg) := by
  unfold encImg encBody; simp only [List.append_assoc]

theorem encImg_drop_cert (hn : EncLens co c cfg signer) :
    (encImg co c cfg signer).drop (appLen c cfg + (hmacSize + encKsLen cfg))
      = certInImage c cfg ++ ((encEnc co c cfg).take encIvtCopySize ++ cfg.ctrIv
          ++ (encEnc co c cfg).drop (appLen c cfg) ++ signer (encPe co c cfg)) := by
  apply encrypted_drop_of_split _ (encIvtOf co c cfg ++ computeHmac co cfg (encIvtOf co c cfg) ++ (cfg.keyStore.getD [])
      ++ slice (encEnc co c cfg) hmacOffset (appLen c cfg))
  · rw [encImg_split]; simp only [List.append_assoc]
  · have := hn.hL
    simp only [List.length_append, hn.hivt, hn.hmac, hn.hks, hn.hmid]; omega

theorem encImg_slice_ks (hn : EncLens co c cfg signer) :
    slice (encImg co c cfg signer) (hmacOffset + hmacSize) (hmacOffset + hmacSize + encKsLen cfg) = cfg.keyStore.getD [] := by
  apply encrypted_slice_of_split _ (encIvtOf co c cfg ++ computeHmac co cfg (encIvtOf co c cfg)) _
    (slice (encEnc co c cfg) hmacOffset (appLen c cfg) ++ certInImage c cfg ++ (encEnc co c cfg).take encIvtCopySize
      ++ cfg.ctrIv ++ (encEnc co c cfg).drop (appLen c cfg) ++ signer (encPe co c cfg))
  · rw [encImg_split]; simp only [List.append_assoc]
  · simp only [List.length_append, hn.hivt, hn.hmac]
  · rw [hn.hks]

theorem encImg_slice_iv (hn : EncLens co c cfg signer) :
    slice (encImg co c cfg signer) (appLen c cfg + cfg.cert.length + encIvtCopySize + (hmacSize + encKsLen cfg))
      (appLen c cfg + cfg.cert.length + encIvtCopySize + (hmacSize + encKsLen cfg) + ctrInitVectorSize) = cfg.ctrIv := by
  apply encrypted_slice_of_split _ (encIvtOf co c cfg ++ computeHmac co cfg (encIvtOf co c cfg) ++ (cfg.keyStore.getD [])
      ++ slice (encEnc co c cfg) hmacOffset (appLen c cfg) ++ certInImage c cfg ++ (encEnc co c cfg).take encIvtCopySize) _
    ((encEnc co c cfg).drop (appLen c cfg) ++ signer (encPe co c cfg))
  · rw [encImg_split]; simp only [List.append_assoc]
  · have := hn.hL
    simp only [List.length_append, hn.hivt, hn.hmac, hn.hks, hn.hmid, hn.hcert, hn.hcopy]; omega
  · rw [hn.hiv]; rfl

theorem encImg_take_ivt (hn : EncLens co c cfg signer) :
    (encImg co c cfg signer).take hmacOffset = encIvtOf co c cfg :=
  encrypted_take_of_split _ _ _ _ (encImg_eq_head co c cfg signer) hn.hivt

theorem encImg_drop_body (hn : EncLens co c cfg signer) :
    (encImg co c cfg signer).drop (hmacOffset + hmacSize + encKsLen cfg) = encBody co c cfg ++ signer (encPe co c cfg) := by
  apply encrypted_drop_of_split _ (encIvtOf co c cfg ++ computeHmac co cfg (encIvtOf co c cfg) ++ (cfg.keyStore.getD []))
  · unfold encImg; simp only [List.append_assoc]
  · simp only [List.length_append, hn.hivt, hn.hmac, hn.hks]

theorem encImg_len (hn : EncLens co c cfg signer) :
    (encImg co c cfg signer).length = appLen c cfg + hmacSize + encKsLen cfg + cfg.cert.length + encIvtCopySize + encIvSize
        + cfg.tz.bytes.length + cfg.sigLen := by
  have := hn.hL
  rw [encImg_split]
  simp only [List.length_append, hn.hivt, hn.hmac, hn.hks, hn.hmid, hn.hcert, hn.hcopy, hn.hiv, hn.htz, hn.hsig]
  omega

theorem encImg_slice_cert (hn : EncLens co c cfg signer) :
    slice (encImg co c cfg signer) (appLen c cfg + (hmacSize + encKsLen cfg))
      (appLen c cfg + (hmacSize + encKsLen cfg) + cfg.cert.length) = certInImage c cfg := by
  apply encrypted_slice_of_split _ (encIvtOf co c cfg ++ computeHmac co cfg (encIvtOf co c cfg) ++ (cfg.keyStore.getD [])
      ++ slice (encEnc co c cfg) hmacOffset (appLen c cfg)) _
    ((encEnc co c cfg).take encIvtCopySize ++ cfg.ctrIv ++ (encEnc co c cfg).drop (appLen c cfg) ++ signer (encPe co c cfg))
  · rw [encImg_split]; simp only [List.append_assoc]
  · have := hn.hL
    simp only [List.length_append, hn.hivt, hn.hmac, hn.hks, hn.hmid]; omega
  · rw [hn.hcert]

theorem encImg_words (hl : CryptoLaws co) (hc : EncCls c) (hk : EncCfg c cfg) (signer : Signer) :
    rd32 (encImg co c cfg signer) ivtImageLengthOffset = (if c.zeroTotalLength then 0 else encImgLen c cfg)
    ∧ rd32 (encImg co c cfg signer) ivtImageFlagsOffset = flagsOf c cfg
    ∧ rd32 (encImg co c cfg signer) ivtCrcCertificateOffset = appLen c cfg
    ∧ rd32 (encImg co c cfg signer) ivtLoadAddrOffset = (if c.has .Mbi_MixinLoadAddress then cfg.loadAddress else 0) := by
  rw [encImg_eq_head]; exact encIvtOf_words hl hc hk _

/-! ### the order of the `mix_parse` calls: the certificate block is parsed before its readers -/

def encReadsCert (m : MixinName) : Bool := (preParsed m).contains .cert_block

def encOrdered : Bool → List MixinName → Bool
  | _, [] => true
  | d, m :: ms => (!encReadsCert m || d) && encOrdered (d || setsCert m) ms

theorem encrypted_mustWait (hcb : c.hasAttr .cert_block = true) (m : MixinName) (hr : encReadsCert m = true) :
    mustWait c false m = true := by
  unfold mustWait
  rw [List.any_eq_true]
  refine ⟨.cert_block, ?_, by simp [hcb]⟩
  simpa [encReadsCert] using hr

theorem encrypted_parseRound_ordered (hcb : c.hasAttr .cert_block = true) :
    ∀ (todo : List MixinName) (d : Bool) (l : List MixinName), encOrdered (parseRound c todo d).2.2 l = true →
      encOrdered d ((parseRound c todo d).1 ++ l) = true := by
  intro todo
  induction todo with
  | nil => intro d l h; simpa [parseRound] using h
  | cons m ms ih =>
    intro d l h
    by_cases hw : mustWait c d m = true
    · rcases hpr : parseRound c ms d with ⟨o, w, d'⟩
      have e : parseRound c (m :: ms) d = (o, m :: w, d') := by simp [parseRound, hw, hpr]
      rw [e] at h ⊢
      have := ih d l
      rw [hpr] at this
      exact this h
    · rcases hpr : parseRound c ms (d || setsCert m) with ⟨o, w, d'⟩
      have e : parseRound c (m :: ms) d = (m :: o, w, d') := by simp [parseRound, hw, hpr]
      rw [e] at h ⊢
      have := ih (d || setsCert m) l
      rw [hpr] at this
      have h2 := this h
      show encOrdered d (m :: (o ++ l)) = true
      unfold encOrdered
      rw [Bool.and_eq_true]
      refine ⟨?_, h2⟩
      cases hr : encReadsCert m
      · rfl
      · cases d
        · exact absurd (encrypted_mustWait hcb m hr) hw
        · rfl

theorem encrypted_parseRound_mem (todo : List MixinName) :
    ∀ (d : Bool) (x : MixinName), x ∈ todo ↔ (x ∈ (parseRound c todo d).1 ∨ x ∈ (parseRound c todo d).2.1) := by
  induction todo with
  | nil => intro d x; simp [parseRound]
  | cons m ms ih =>
    intro d x
    by_cases hw : mustWait c d m = true
    · rcases hpr : parseRound c ms d with ⟨o, w, d'⟩
      have e : parseRound c (m :: ms) d = (o, m :: w, d') := by simp [parseRound, hw, hpr]
      have := ih d x
      rw [hpr] at this
      rw [e, List.mem_cons, this]
      simp only [List.mem_cons]
      grind
    · rcases hpr : parseRound c ms (d || setsCert m) with ⟨o, w, d'⟩
      have e : parseRound c (m :: ms) d = (m :: o, w, d') := by simp [parseRound, hw, hpr]
      have := ih (d || setsCert m) x
      rw [hpr] at this
      rw [e, List.mem_cons, this]
      simp only [List.mem_cons]
      grind

theorem encrypted_parseOrderF (hcb : c.hasAttr .cert_block = true) :
    ∀ (f : Nat) (todo : List MixinName) (d : Bool) (order : List MixinName), parseOrderF c f todo d = some order →
      encOrdered d order = true ∧ ∀ x, x ∈ todo ↔ x ∈ order := by
  intro f
  induction f with
  | zero =>
    intro todo d order h
    cases todo with
    | nil => simp [parseOrderF] at h; subst h; simp [encOrdered]
    | cons t ts => simp [parseOrderF] at h
  | succ f ih =>
    intro todo d order h
    cases todo with
    | nil => simp [parseOrderF] at h; subst h; simp [encOrdered]
    | cons t ts =>
      rcases hpr : parseRound c (t :: ts) d with ⟨o, w, d'⟩
      simp only [parseOrderF, hpr] at h
      split at h
      · exact absurd h (by simp)
      · rw [Option.map_eq_some_iff] at h
        obtain ⟨rest, hrest, rfl⟩ := h
        obtain ⟨h1, h2⟩ := ih w d' rest hrest
        refine ⟨?_, ?_⟩
        · have := encrypted_parseRound_ordered hcb (t :: ts) d rest
          rw [hpr] at this
          exact this h1
        · intro x
          have := encrypted_parseRound_mem (c := c) (t :: ts) d x
          rw [hpr] at this
          rw [this, List.mem_append, h2 x]

theorem encrypted_parseOrder (hcb : c.hasAttr .cert_block = true) (order : List MixinName) (h : parseOrder c = some order) :
    encOrdered false order = true ∧ ∀ x, x ∈ c.dataMixins ↔ x ∈ order :=
  encrypted_parseOrderF hcb _ _ _ _ h

/-! ### disassembling the decrypted image -/

theorem encU_flagsIn (hc : EncCls c) (hk : EncCfg c cfg) (rest : Bytes) : flagsIn (encU c cfg ++ rest) = flagsOf c cfg := by
  have hA := encrypted_app_ivt hk
  have hw := updateIvt_words c cfg (appData cfg) (encImgLen c cfg) (appLen c cfg) hA hk.hflags
    (encImgLen_lt hc hk) (encrypted_appLen_lt hc hk) hk.hla
  unfold flagsIn encU
  rw [rd32_updateIvt_append _ _ _ _ _ _ _ hA (by decide)]
  exact hw.2.1

theorem encrypted_disApp (hc : EncCls c) (hk : EncCfg c cfg) (p : Parsed) (hr : p.reloc = none) :
    disassemblyAppData c p (encU c cfg ++ encR cfg)
      = .ok ({ p with reloc := if c.has .Mbi_MixinRelocTable then cfg.reloc else none }, encU c cfg) := by
  have hfl : flagsIn (encU c cfg ++ encR cfg) = flagsOf c cfg := encU_flagsIn hc hk _
  unfold disassemblyAppData
  rw [hc.hdis, hfl, (encrypted_flag_fields hc hk).2.2.2.2.1]
  cases hrt : c.has .Mbi_MixinRelocTable
  · have hn := encrypted_reloc_none hk hrt
    simp only [Bool.false_eq_true, if_false]
    unfold encR
    rw [hn]
    simp [← hr]
  · simp only [if_true]
    cases hcr : cfg.reloc with
    | none =>
      unfold encR
      rw [hcr]
      simp
    | some es =>
      obtain ⟨hok, _, hne⟩ := hk.hreloc es hcr
      have hlen : (encU c cfg).length + (relocExport es (encU c cfg).length).length < 2 ^ 32 := by
        have h1 := encrypted_appLen_lt hc hk
        have h2 := encrypted_appLen hc hk
        have h3 := encR_length c cfg
        rw [encU_length hk]
        unfold encR at h3; rw [hcr] at h3; simp only at h3
        rw [h3]
        omega
      have hrt' := reloc_roundtrip (encU c cfg) es hne hok hlen
      unfold encR
      rw [hcr]
      simp only [Option.isSome_some, not_true_eq_false, if_false]
      rw [← encU_length hk, hrt']
      simp

/-- the TrustZone setting the mixins parsed has the kind of the real one (custom data are still encrypted) -/
def encTzLike (t cfgTz : TzCfg) : Prop :=
  match cfgTz with
  | .custom _ => ∃ x, t = .custom x
  | u => t = u

theorem encrypted_dropTz (c : Cls) (cfg : Cfg) :
    (if cfg.tz.bytes.length = 0 then encRaw c cfg else dropLast (encRaw c cfg) cfg.tz.bytes.length)
      = encU c cfg ++ encR cfg := by
  unfold encRaw
  split
  · rename_i h0
    rw [List.length_eq_zero_iff.mp h0, List.append_nil]
  · unfold dropLast
    rw [List.length_append, Nat.add_sub_cancel, List.take_append_of_le_length (Nat.le_refl _), List.take_length]

theorem encTzLike_cases (t u : TzCfg) (h : encTzLike t u) :
    (∃ d x, u = .custom d ∧ t = .custom x) ∨ (t = u ∧ (u = .enabled ∨ u = .disabled)) := by
  unfold encTzLike at h
  cases u with
  | custom d => obtain ⟨x, hx⟩ := h; exact Or.inl ⟨d, x, rfl, hx⟩
  | enabled => exact Or.inr ⟨h, Or.inl rfl⟩
  | disabled => exact Or.inr ⟨h, Or.inr rfl⟩

theorem encrypted_tzReparse (hk : EncCfg c cfg) (d : Bytes) (hz : cfg.tz = .custom d) :
    tzFromBinary c (lastN (encRaw c cfg) c.tzSize) = .ok (.custom d) := by
  obtain ⟨hd, hpos⟩ := hk.htz d hz
  have : lastN (encRaw c cfg) c.tzSize = d := by
    unfold lastN encRaw
    rw [hz]
    simp only [TzCfg.bytes]
    rw [List.length_append, hd, Nat.add_sub_cancel, List.drop_left]
  rw [this]
  unfold tzFromBinary
  rw [if_neg (by omega), if_neg (by rw [hd]; omega), ← hd, List.take_length]

theorem encrypted_disassemble (hc : EncCls c) (hk : EncCfg c cfg) (dek : Option Bytes)
    (p : Parsed) (hp : encTzLike p.tz cfg.tz) (hr : p.reloc = none) :
    disassemble c p (encRaw c cfg)
      = .ok { p with tz := cfg.tz, app := (canon c cfg dek).app, reloc := (canon c cfg dek).reloc } := by
  have hA := encrypted_app_ivt hk
  have hcl : cleanIvt (encU c cfg) = cleanIvt (appData cfg) := cleanIvt_updateIvt c cfg _ _ _ hA
  have hal : align4 (cleanIvt (appData cfg)) = cleanIvt (appData cfg) := by
    apply align4_of_aligned
    rw [cleanIvt_length _ hA]
    exact align4_length_mod cfg.app
  unfold disassemble
  rw [hc.hdisasm]
  rcases encTzLike_cases _ _ hp with ⟨d, x, hz, hpz⟩ | ⟨hpz, hz | hz⟩
  · simp only [hpz, encrypted_tzReparse hk d hz, bind, Except.bind]
    rw [← hz]
    simp only [encrypted_dropTz c cfg, encrypted_disApp hc hk { p with tz := cfg.tz } hr, pure, Except.pure, hcl, hal, canon,
      hc.hclean, if_true]
  · rw [hz] at hpz
    simp only [hpz, bind, Except.bind, pure, Except.pure]
    rw [← hz]
    simp only [encrypted_dropTz c cfg, encrypted_disApp hc hk { p with tz := cfg.tz } hr, hcl, hal, canon,
      hc.hclean, if_true]
  · rw [hz] at hpz
    simp only [hpz, bind, Except.bind, pure, Except.pure]
    rw [← hz]
    simp only [encrypted_dropTz c cfg, encrypted_disApp hc hk { p with tz := cfg.tz } hr, hcl, hal, canon,
      hc.hclean, if_true]

theorem encTzLike_refl (t : TzCfg) : encTzLike t t := by
  cases t with
  | custom d => exact ⟨d, rfl⟩
  | enabled => rfl
  | disabled => rfl

/-! ### the four reverts -/

theorem encrypted_finalizeRevert (hl : CryptoLaws co) (hc : EncCls c) (hk : EncCfg c cfg) (hn : EncLens co c cfg signer)
    (p : Parsed) :
    finalizeRevert c p (encImg co c cfg signer) = .ok (encPe co c cfg ++ signer (encPe co c cfg)) := by
  unfold finalizeRevert
  rw [hc.hfin]
  simp only [encImg_flagsIn hl hc hk, (encrypted_flag_fields hc hk).2.2.2.1, ← encKsLen_eq hk, encImg_take_ivt hn,
    encImg_drop_body hn]
  unfold encPe
  simp only [List.append_assoc]

theorem encrypted_signRevert (hl : CryptoLaws co) (hc : EncCls c) (hk : EncCfg c cfg) (hn : EncLens co c cfg signer)
    (p : Parsed) (ci : CertInfo) (hp : p.cert = some ci) (hv : ci.v1 = true) (hs : ci.sigSize = cfg.sigLen) :
    signRevert c p (encPe co c cfg ++ signer (encPe co c cfg)) = .ok (encPe co c cfg) := by
  have hne : (encPe co c cfg ++ signer (encPe co c cfg)).isEmpty = false := by
    have := encPe_length hl hc hk
    cases h : encPe co c cfg ++ signer (encPe co c cfg) with
    | nil =>
      have h2 := congrArg List.length h
      simp only [List.length_append, List.length_nil, this, encIvtCopySize] at h2
      omega
    | cons a l => rfl
  unfold signRevert
  rw [hc.hsign]
  simp only [hp, hne, hv, hs, Bool.false_eq_true, if_false, not_true_eq_false]
  unfold dropLast
  rw [List.length_append, hn.hsig, Nat.add_sub_cancel, List.take_left]

theorem encrypted_take_append_slice (l : Bytes) (i j : Nat) (h : i ≤ j) : l.take i ++ slice l i j = l.take j := by
  unfold slice
  conv => rhs; rw [← List.take_append_drop i (l.take j)]
  rw [List.take_take, Nat.min_eq_left h]

theorem encIvtOf_drop (hn : EncLens co c cfg signer) (hl : CryptoLaws co) (hc : EncCls c) (hk : EncCfg c cfg) :
    (encIvtOf co c cfg).drop encIvtCopySize = slice (encEnc co c cfg) encIvtCopySize hmacOffset := by
  have h1 := encEnc_length hl hc hk
  have h2 := hn.hL
  have hA : minIvtSize ≤ ((encEnc co c cfg).take hmacOffset).length := by
    simp only [hmacOffset, minIvtSize, List.length_take] at *; omega
  unfold encIvtOf
  rw [updateIvt_eq _ _ _ _ _ hA]
  apply encrypted_drop_of_split _ _ _ _ rfl
  simp only [List.length_append, le32_length, List.length_take, slice_length]
  simp only [hmacOffset, encIvtCopySize] at *
  omega

theorem encrypted_postEncryptRevert (hl : CryptoLaws co) (hc : EncCls c) (hk : EncCfg c cfg) (hn : EncLens co c cfg signer)
    (p : Parsed) (ci : CertInfo) (hp : p.cert = some ci) (hv : ci.v1 = true) (hs : ci.size = cfg.cert.length) :
    postEncryptRevert c p (encPe co c cfg) = .ok (encEnc co c cfg) := by
  have hL := hn.hL
  have hoff : rd32 (encPe co c cfg) ivtCrcCertificateOffset = appLen c cfg := (encIvtOf_words hl hc hk _).2.2.1
  have hsplit : encPe co c cfg = encIvtOf co c cfg ++ slice (encEnc co c cfg) hmacOffset (appLen c cfg)
      ++ certInImage c cfg ++ (encEnc co c cfg).take encIvtCopySize ++ cfg.ctrIv ++ (encEnc co c cfg).drop (appLen c cfg) := by
    unfold encPe encBody; simp only [List.append_assoc]
  have s1 : slice (encPe co c cfg) (appLen c cfg + cfg.cert.length) (appLen c cfg + cfg.cert.length + encIvtCopySize)
      = (encEnc co c cfg).take encIvtCopySize := by
    apply encrypted_slice_of_split _ (encIvtOf co c cfg ++ slice (encEnc co c cfg) hmacOffset (appLen c cfg)
      ++ certInImage c cfg) _ (cfg.ctrIv ++ (encEnc co c cfg).drop (appLen c cfg))
    · rw [hsplit]; simp only [List.append_assoc]
    · simp only [List.length_append, hn.hivt, hn.hmid, hn.hcert]; omega
    · rw [hn.hcopy]
  have s2 : slice (encPe co c cfg) encIvtCopySize (appLen c cfg)
      = slice (encEnc co c cfg) encIvtCopySize hmacOffset ++ slice (encEnc co c cfg) hmacOffset (appLen c cfg) := by
    unfold slice
    rw [encrypted_take_of_split _ (encIvtOf co c cfg ++ slice (encEnc co c cfg) hmacOffset (appLen c cfg))
      (certInImage c cfg ++ (encEnc co c cfg).take encIvtCopySize ++ cfg.ctrIv ++ (encEnc co c cfg).drop (appLen c cfg))
      (appLen c cfg) (by rw [hsplit]; simp only [List.append_assoc])
      (by simp only [List.length_append, hn.hivt, hn.hmid]; omega)]
    rw [List.drop_append_of_le_length (by rw [hn.hivt]; decide), encIvtOf_drop hn hl hc hk]
    rfl
  have s3 : (encPe co c cfg).drop (appLen c cfg + cfg.cert.length + encIvtCopySize + encIvSize)
      = (encEnc co c cfg).drop (appLen c cfg) := by
    apply encrypted_drop_of_split _ (encIvtOf co c cfg ++ slice (encEnc co c cfg) hmacOffset (appLen c cfg)
      ++ certInImage c cfg ++ (encEnc co c cfg).take encIvtCopySize ++ cfg.ctrIv)
    · rw [hsplit]
    · simp only [List.length_append, hn.hivt, hn.hmid, hn.hcert, hn.hcopy, hn.hiv]; omega
  unfold postEncryptRevert
  rw [hc.hpenc]
  simp only [hp, hv, hs, hoff, s1, s2, s3, not_true_eq_false, if_false]
  rw [← List.append_assoc ((encEnc co c cfg).take encIvtCopySize),
    encrypted_take_append_slice _ _ _ (by decide), encrypted_take_append_slice _ _ _ hL, List.take_append_drop]

theorem encrypted_encryptRevert (hl : CryptoLaws co) (hc : EncCls c) (hk : EncCfg c cfg)
    (p : Parsed) (h1 : p.hmacKey = cfg.hmacKey) (h2 : p.ctrIv = cfg.ctrIv) (h3 : p.keyStore.isSome = cfg.keyStore.isSome) :
    encryptRevert co c p (encEnc co c cfg) = .ok (encRaw c cfg) := by
  obtain ⟨k, hk1, _⟩ := hk.hhmac
  have hkey : encKey co k cfg.keyStore.isSome = encKeyOf co cfg := by simp [encKeyOf, hk1]
  unfold encryptRevert
  rw [hc.henc]
  simp only [h1, h2, h3, hk1, encrypted_iv_ne hk, Bool.false_eq_true, if_false, hkey]
  unfold encEnc
  rw [ctr_invol hl]

/-! ### one `mix_parse` call on the final image, by provider -/

theorem encrypted_cert_facts (C w rest : Bytes) (hC : 32 ≤ C.length) (hw : w.length = 4) :
    (setAt C 20 w ++ rest).take 4 = C.take 4 ∧ rd32 (setAt C 20 w ++ rest) 8 = rd32 C 8
      ∧ rd32 (setAt C 20 w ++ rest) 28 = rd32 C 28 := by
  have e : setAt C 20 w = C.take 20 ++ w ++ C.drop 24 := by unfold setAt; rw [hw]
  have l20 : (C.take 20).length = 20 := by rw [List.length_take]; omega
  have l24 : (C.take 20 ++ w).length = 24 := by rw [List.length_append, l20, hw]
  have l24' : (C.take 24).length = 24 := by rw [List.length_take]; omega
  have r8 : rd32 (C.take 20 ++ C.drop 20) 8 = rd32 (C.take 20) 8 := rd32_append_left _ _ _ (by omega)
  rw [List.take_append_drop] at r8
  have r28 : rd32 (C.take 24 ++ C.drop 24) ((C.take 24).length + 4) = rd32 (C.drop 24) 4 := rd32_append_right _ _ _
  rw [List.take_append_drop, l24'] at r28
  have q28 : rd32 ((C.take 20 ++ w) ++ (C.drop 24 ++ rest)) ((C.take 20 ++ w).length + 4) = rd32 (C.drop 24 ++ rest) 4 :=
    rd32_append_right _ _ _
  rw [l24] at q28
  rw [e]
  refine ⟨?_, ?_, ?_⟩
  · rw [List.append_assoc, List.append_assoc, List.take_append_of_le_length (by omega), List.take_take]
    simp
  · rw [List.append_assoc, List.append_assoc, rd32_append_left _ _ _ (by omega), r8]
  · rw [List.append_assoc (C.take 20 ++ w), q28, rd32_append_left _ _ _ (by rw [List.length_drop]; omega), r28]

theorem encrypted_certInImage_eq_setAt (hc : EncCls c) :
    ∃ v, certInImage c cfg = setAt cfg.cert 20 (le32 v) := by
  unfold certInImage
  rw [hc.hpenc]
  exact ⟨_, rfl⟩

/-- the state field the certificate mixin writes -/
def encCertInfo (c : Cls) (cfg : Cfg) : CertInfo := ⟨certInImage c cfg, cfg.cert.length, cfg.sigLen, true⟩

theorem encrypted_canon_cert (hc : EncCls c) (dek : Option Bytes) : (canon c cfg dek).cert = some (encCertInfo c cfg) := by
  simp only [canon, hc.hV1, if_true, encCertInfo]

section step
variable (hl : CryptoLaws co) (hc : EncCls c) (hk : EncCfg c cfg) (hn : EncLens co c cfg signer)
  (hs : ∀ m, (signer m).length = cfg.sigLen) (dek : Option Bytes)
include hl hc hk hn hs

theorem encrypted_parse_cert (p : Parsed) (m : MixinName)
    (hp : provider m .mix_parse = some .Mbi_MixinCertBlockV1) (henv : EnvOK env c cfg) :
    mixParse env c dek (encImg co c cfg signer) p m = .ok { p with cert := some (encCertInfo c cfg) } := by
  obtain ⟨v, hv⟩ := encrypted_certInImage_eq_setAt (cfg := cfg) hc
  obtain ⟨f1, f2, f3⟩ := encrypted_cert_facts cfg.cert (le32 v) ((encEnc co c cfg).take encIvtCopySize ++ cfg.ctrIv
          ++ (encEnc co c cfg).drop (appLen c cfg) ++ signer (encPe co c cfg)) hk.hcertLen (le32_length v)
  rw [← hv] at f1 f2 f3
  obtain ⟨e1, e2⟩ := henv.1 hc.hV1 ((encEnc co c cfg).take encIvtCopySize ++ cfg.ctrIv
          ++ (encEnc co c cfg).drop (appLen c cfg) ++ signer (encPe co c cfg))
  have hsz := hk.hcertSize
  have hsz' : certV1Size (certInImage c cfg ++ ((encEnc co c cfg).take encIvtCopySize ++ cfg.ctrIv
          ++ (encEnc co c cfg).drop (appLen c cfg) ++ signer (encPe co c cfg))) = cfg.cert.length := by
    unfold certV1Size at hsz ⊢
    simp only [certTableLengthOffset] at hsz ⊢
    rw [f3, hsz]
  have hge := (alignNat_spec (certHeaderSize + rd32 cfg.cert certTableLengthOffset + rkhtEntries * rkhSize) 4 (by decide)).2.1
  unfold certV1Size at hsz
  rw [hsz] at hge
  have hlen := hn.hcert
  have hcl := hk.hcertLen
  unfold mixParse
  simp only [hp, encrypted_certOffset hl hc hk signer hs, encrypted_hmacShift hl hc hk, encImg_drop_cert hn, bind, Except.bind]
  have c4 : ¬ ((certInImage c cfg ++ ((encEnc co c cfg).take encIvtCopySize ++ cfg.ctrIv
          ++ (encEnc co c cfg).drop (appLen c cfg) ++ signer (encPe co c cfg))).length
        < rd32 (certInImage c cfg ++ ((encEnc co c cfg).take encIvtCopySize ++ cfg.ctrIv
          ++ (encEnc co c cfg).drop (appLen c cfg) ++ signer (encPe co c cfg))) certTableLengthOffset
          + rkhtEntries * rkhSize) := by
    simp only [certTableLengthOffset] at hge ⊢
    rw [f3, List.length_append, hlen]; omega
  have c1 : ¬ ((certInImage c cfg ++ ((encEnc co c cfg).take encIvtCopySize ++ cfg.ctrIv
          ++ (encEnc co c cfg).drop (appLen c cfg) ++ signer (encPe co c cfg))).length < certHeaderSize) := by
    rw [List.length_append, hlen]; omega
  have c5 : (certInImage c cfg ++ ((encEnc co c cfg).take encIvtCopySize ++ cfg.ctrIv
          ++ (encEnc co c cfg).drop (appLen c cfg) ++ signer (encPe co c cfg))).take cfg.cert.length
      = certInImage c cfg := by rw [← hlen, List.take_left]
  generalize certInImage c cfg ++ ((encEnc co c cfg).take encIvtCopySize ++ cfg.ctrIv
          ++ (encEnc co c cfg).drop (appLen c cfg) ++ signer (encPe co c cfg)) = d at *
  rw [hk.hcertSig] at f1
  rw [hk.hcertHdr] at f2
  simp only [c1, c4, f1, f2, e1, e2, hsz', c5, if_false, ne_eq, not_true_eq_false, pure, Except.pure, encCertInfo]

theorem encrypted_parse_simple (p : Parsed) (m : MixinName) :
    (provider m .mix_parse = some .Mbi_MixinLoadAddress →
      mixParse env c dek (encImg co c cfg signer) p m = .ok { p with loadAddress := (canon c cfg dek).loadAddress })
    ∧ (provider m .mix_parse = some .Mbi_MixinImageVersion →
      mixParse env c dek (encImg co c cfg signer) p m = .ok { p with imageVersion := (canon c cfg dek).imageVersion })
    ∧ (provider m .mix_parse = some .Mbi_MixinImageSubType →
      mixParse env c dek (encImg co c cfg signer) p m = .ok { p with subType := (canon c cfg dek).subType })
    ∧ (provider m .mix_parse = some .Mbi_MixinHwKey →
      mixParse env c dek (encImg co c cfg signer) p m = .ok { p with hwKey := (canon c cfg dek).hwKey }) := by
  obtain ⟨g1, g2, g3, g4, g5, g6⟩ := encrypted_flag_fields hc hk
  obtain ⟨w1, w2, w3, w4⟩ := encImg_words hl hc hk signer
  have hfl := encImg_flagsIn hl hc hk signer
  refine ⟨?_, ?_, ?_, ?_⟩ <;> intro hp <;> unfold mixParse <;> simp only [hp, hfl, w4, g6, g2, g3, canon]

/-- the TrustZone setting `mix_parse` reads from the final image: custom data are still encrypted there -/
def encTzParsed (co : CryptoOps) (c : Cls) (cfg : Cfg) (signer : Signer) : TzCfg :=
  match cfg.tz with
  | .custom _ =>
    .custom ((slice (encImg co c cfg signer) (appLen c cfg + cfg.cert.length + (hmacSize + encKsLen cfg))
      (appLen c cfg + cfg.cert.length + (hmacSize + encKsLen cfg) + c.tzSize)).take c.tzSize)
  | t => t

omit hl hc hk hn hs in
theorem encTzParsed_like (co : CryptoOps) (c : Cls) (cfg : Cfg) (signer : Signer) :
    encTzLike (encTzParsed co c cfg signer) cfg.tz := by
  unfold encTzLike encTzParsed
  cases cfg.tz with
  | custom d => exact ⟨_, rfl⟩
  | enabled => rfl
  | disabled => rfl

theorem encrypted_parse_tz (p : Parsed) (m : MixinName) (hp : provider m .mix_parse = some .Mbi_MixinTrustZone)
    (ci : CertInfo) (hci : p.cert = some ci) (hsz : ci.size = cfg.cert.length) :
    mixParse env c dek (encImg co c cfg signer) p m = .ok { p with tz := encTzParsed co c cfg signer } := by
  have hfl := encImg_flagsIn hl hc hk signer
  have g1 := (encrypted_flag_fields hc hk).1
  unfold mixParse
  simp only [hp, hfl, g1]
  unfold encTzParsed
  cases hz : cfg.tz with
  | enabled => simp [TzCfg.tag, tzEnabled, tzCustom, tzDisabled]
  | disabled => simp [TzCfg.tag, tzEnabled, tzCustom, tzDisabled]
  | custom d =>
    obtain ⟨hd, hpos⟩ := hk.htz d hz
    have hpos' : c.tzSize ≠ 0 := by omega
    have hlen := encImg_len hn
    rw [hz] at hlen
    simp only [TzCfg.bytes] at hlen
    have hsl : (slice (encImg co c cfg signer) (appLen c cfg + cfg.cert.length + (hmacSize + encKsLen cfg))
        (appLen c cfg + cfg.cert.length + (hmacSize + encKsLen cfg) + c.tzSize)).length = c.tzSize := by
      rw [slice_length, hlen, hd]
      simp only [encIvtCopySize, encIvSize]
      omega
    simp only [TzCfg.tag, tzEnabled, tzCustom, tzDisabled, hc.hcert, hci, hsz, encrypted_certOffset hl hc hk signer hs,
      encrypted_hmacShift hl hc hk, bind, Except.bind, tzFromBinary, hsl]
    simp [pure, Except.pure, hpos']

theorem encrypted_parse_ks (p : Parsed) (m : MixinName) (hp : provider m .mix_parse = some .Mbi_MixinKeyStore) :
    mixParse env c dek (encImg co c cfg signer) p m = .ok { p with keyStore := (canon c cfg dek).keyStore } := by
  have hfl := encImg_flagsIn hl hc hk signer
  have g4 := (encrypted_flag_fields hc hk).2.2.2.1
  unfold mixParse
  simp only [hp, hfl, g4, canon, hc.hKs, if_true]
  cases hks : cfg.keyStore with
  | none => simp
  | some k =>
    have hkl := hk.hks k hks
    have hsl := encImg_slice_ks hn
    have hkk : encKsLen cfg = keyStoreSize := by unfold encKsLen; rw [hks]; exact hkl
    rw [hkk, hks] at hsl
    simp only [Option.getD_some] at hsl
    have hne : k.isEmpty = false := by
      cases k with
      | nil => simp [keyStoreSize] at hkl
      | cons a l => rfl
    simp only [Option.isSome_some, if_true, hsl, hne, hkl, Bool.false_eq_true, if_false, ne_eq, not_true_eq_false]
    cases k with
    | nil => simp at hne
    | cons a l => rfl

theorem encrypted_parse_hmac (p : Parsed) (m : MixinName) (hp : provider m .mix_parse = some .Mbi_MixinHmac)
    (hdek : dek = cfg.hmacKey) :
    mixParse env c dek (encImg co c cfg signer) p m = .ok { p with hmacKey := (canon c cfg dek).hmacKey } := by
  obtain ⟨k, hk1, _⟩ := hk.hhmac
  unfold mixParse
  simp only [hp, canon, hc.hHmac, if_true, hdek, hk1]

theorem encrypted_parse_ctr (p : Parsed) (m : MixinName) (hp : provider m .mix_parse = some .Mbi_MixinCtrInitVector)
    (ci : CertInfo) (hci : p.cert = some ci) (hsz : ci.size = cfg.cert.length) (hv : ci.v1 = true) :
    mixParse env c dek (encImg co c cfg signer) p m = .ok { p with ctrIv := (canon c cfg dek).ctrIv } := by
  unfold mixParse
  simp only [hp, hci, hv, hsz, encrypted_certOffset hl hc hk signer hs, encrypted_hmacShift hl hc hk, bind, Except.bind,
    encImg_slice_iv hn, canon, hc.hCtr, if_true, not_true_eq_false, if_false, pure, Except.pure]

/-! ### the fold of `mix_parse` over the parse order -/

omit hl hk hn hs in
/-- the `mix_parse` providers the family cannot contain (their `mix_len` is not among the class's length terms) -/
theorem encrypted_parse_excl (m : MixinName) (hm : m ∈ c.dataMixins) :
    provider m .mix_parse ≠ some .Mbi_MixinCertBlockV21 ∧ provider m .mix_parse ≠ some .Mbi_MixinManifest
      ∧ provider m .mix_parse ≠ some .Mbi_MixinBca ∧ provider m .mix_parse ≠ some .Mbi_MixinFcf := by
  have key : ∀ Y, provider m .mix_len = some Y → Y ∈ [MixinName.Mbi_MixinApp, .Mbi_MixinTrustZone, .Mbi_MixinCertBlockV1,
      .Mbi_MixinHmac, .Mbi_MixinKeyStore, .Mbi_MixinRelocTable] := by
    intro Y hY
    have h1 : Y ∈ c.lenProviders.filterMap id := by
      simp only [Cls.lenProviders, List.mem_filterMap, List.mem_map, id]
      exact ⟨some Y, ⟨m, hm, hY⟩, rfl⟩
    have h2 := (perm_of_lenProvidersAre _ _ hc.hlen).mem_iff.mp h1
    cases hr : c.has .Mbi_MixinRelocTable <;> simp [optList, hr] at h2 ⊢ <;> grind
  clear hm
  cases m <;> first
    | exact ⟨by decide, by decide, by decide, by decide⟩
    | (exfalso; have := key _ rfl; simp at this)

def encSeen (done : List MixinName) (X : MixinName) : Bool :=
  done.any (fun m => decide (provider m .mix_parse = some X))

/-- the parser state: every field is still the default or already the final value -/
def encP (q : Parsed) (tzv : TzCfg) (f : MixinName → Bool) : Parsed :=
  { loadAddress := if f .Mbi_MixinLoadAddress then q.loadAddress else 0
    imageVersion := if f .Mbi_MixinImageVersion then q.imageVersion else 0
    subType := if f .Mbi_MixinImageSubType then q.subType else 0
    tz := if f .Mbi_MixinTrustZone then tzv else .enabled
    hwKey := if f .Mbi_MixinHwKey then q.hwKey else false
    keyStore := if f .Mbi_MixinKeyStore then q.keyStore else none
    hmacKey := if f .Mbi_MixinHmac then q.hmacKey else none
    ctrIv := if f .Mbi_MixinCtrInitVector then q.ctrIv else []
    cert := if f .Mbi_MixinCertBlockV1 then q.cert else none }

omit hl hc hk hn hs in
theorem encrypted_mixParse_other (data : Bytes) (p : Parsed) (m : MixinName)
    (h : match provider m .mix_parse with
      | some .Mbi_MixinTrustZone | some .Mbi_MixinLoadAddress | some .Mbi_MixinImageVersion | some .Mbi_MixinImageSubType
      | some .Mbi_MixinHwKey | some .Mbi_MixinKeyStore | some .Mbi_MixinHmac | some .Mbi_MixinCtrInitVector
      | some .Mbi_MixinCertBlockV1 | some .Mbi_MixinCertBlockV21 | some .Mbi_MixinManifest | some .Mbi_MixinBca
      | some .Mbi_MixinFcf => False
      | _ => True) :
    mixParse env c dek data p m = .ok p := by
  unfold mixParse
  split <;> simp_all

theorem encrypted_step (f : MixinName → Bool) (m : MixinName) (hm : m ∈ c.dataMixins)
    (hrc : encReadsCert m = true → f .Mbi_MixinCertBlockV1 = true) (hdek : dek = cfg.hmacKey) (henv : EnvOK env c cfg) :
    mixParse env c dek (encImg co c cfg signer) (encP (canon c cfg dek) (encTzParsed co c cfg signer) f) m
      = .ok (encP (canon c cfg dek) (encTzParsed co c cfg signer)
          (fun X => f X || decide (provider m .mix_parse = some X))) := by
  obtain ⟨x1, x2, x3, x4⟩ := encrypted_parse_excl hc m hm
  obtain ⟨s1, s2, s3, s4⟩ := encrypted_parse_simple hl hc hk hn hs dek (env := env)
    (encP (canon c cfg dek) (encTzParsed co c cfg signer) f) m
  have hcc := encrypted_canon_cert (cfg := cfg) hc dek
  rcases hpm : provider m .mix_parse with _ | X
  · rw [encrypted_mixParse_other dek _ _ _ (by rw [hpm]; trivial)]
    simp [encP]
  · cases X
    case Mbi_MixinCertBlockV21 => exact absurd hpm x1
    case Mbi_MixinManifest => exact absurd hpm x2
    case Mbi_MixinBca => exact absurd hpm x3
    case Mbi_MixinFcf => exact absurd hpm x4
    case Mbi_MixinLoadAddress => rw [s1 hpm]; simp [encP]
    case Mbi_MixinImageVersion => rw [s2 hpm]; simp [encP]
    case Mbi_MixinImageSubType => rw [s3 hpm]; simp [encP]
    case Mbi_MixinHwKey => rw [s4 hpm]; simp [encP]
    case Mbi_MixinKeyStore => rw [encrypted_parse_ks hl hc hk hn hs dek _ m hpm]; simp [encP]
    case Mbi_MixinHmac => rw [encrypted_parse_hmac hl hc hk hn hs dek _ m hpm hdek]; simp [encP]
    case Mbi_MixinCertBlockV1 => rw [encrypted_parse_cert hl hc hk hn hs dek _ m hpm henv]; simp [encP, hcc]
    case Mbi_MixinTrustZone =>
      have hr : encReadsCert m = true := by
        revert hpm; cases m <;> simp [provider, encReadsCert, preParsed]
      have hf := hrc hr
      rw [encrypted_parse_tz hl hc hk hn hs dek _ m hpm (encCertInfo c cfg) (by simp [encP, hf, hcc]) rfl]
      simp [encP]
    case Mbi_MixinCtrInitVector =>
      have hr : encReadsCert m = true := by
        revert hpm; cases m <;> simp [provider, encReadsCert, preParsed]
      have hf := hrc hr
      rw [encrypted_parse_ctr hl hc hk hn hs dek _ m hpm (encCertInfo c cfg) (by simp [encP, hf, hcc]) rfl rfl]
      simp [encP]
    all_goals
      rw [encrypted_mixParse_other dek _ _ _ (by rw [hpm]; trivial)]
      simp [encP]

omit hl hc hk hn hs in
theorem encSeen_snoc (done : List MixinName) (m : MixinName) :
    (fun X => encSeen done X || decide (provider m .mix_parse = some X)) = encSeen (done ++ [m]) := by
  funext X
  simp [encSeen, List.any_append]

theorem encrypted_fold (hdek : dek = cfg.hmacKey) (henv : EnvOK env c cfg) :
    ∀ (rest done : List MixinName), (∀ x ∈ rest, x ∈ c.dataMixins) →
      encOrdered (encSeen done .Mbi_MixinCertBlockV1) rest = true →
      rest.foldlM (mixParse env c dek (encImg co c cfg signer))
          (encP (canon c cfg dek) (encTzParsed co c cfg signer) (encSeen done))
        = .ok (encP (canon c cfg dek) (encTzParsed co c cfg signer) (encSeen (done ++ rest))) := by
  intro rest
  induction rest with
  | nil => intro done _ _; simp [List.foldlM, pure, Except.pure]
  | cons m ms ih =>
    intro done hmem hord
    have hm := hmem m (by simp)
    unfold encOrdered at hord
    rw [Bool.and_eq_true] at hord
    obtain ⟨ho1, ho2⟩ := hord
    have hrc : encReadsCert m = true → encSeen done .Mbi_MixinCertBlockV1 = true := by
      intro hr; rw [hr] at ho1; simpa using ho1
    have hx := (encrypted_parse_excl hc m hm).1
    have hsets : setsCert m = decide (provider m .mix_parse = some .Mbi_MixinCertBlockV1) := by
      unfold setsCert
      have : (provider m .mix_parse == some MixinName.Mbi_MixinCertBlockV21) = false := by simpa using hx
      rw [this, Bool.or_false]
      cases h : decide (provider m .mix_parse = some .Mbi_MixinCertBlockV1) <;> simp_all
    rw [List.foldlM_cons, encrypted_step hl hc hk hn hs dek _ m hm hrc hdek henv, encSeen_snoc]
    simp only [bind, Except.bind]
    have := ih (done ++ [m]) (fun x hx => hmem x (by simp [hx])) (by
      rw [← encSeen_snoc]
      show encOrdered (encSeen done .Mbi_MixinCertBlockV1
        || decide (provider m .mix_parse = some .Mbi_MixinCertBlockV1)) ms = true
      rw [← hsets]; exact ho2)
    rw [this, List.append_assoc]
    rfl

/-- the state after all `mix_parse` calls -/
def encQ (co : CryptoOps) (c : Cls) (cfg : Cfg) (signer : Signer) (dek : Option Bytes) : Parsed :=
  { canon c cfg dek with app := none, reloc := none, tz := encTzParsed co c cfg signer }

omit hl hc hk hn hs in
theorem encProv_of_derives (m : MixinName) :
    (derivesFrom m .Mbi_MixinLoadAddress = true → isData m = true ∧ provider m .mix_parse = some .Mbi_MixinLoadAddress)
    ∧ (derivesFrom m .Mbi_MixinImageVersion = true → isData m = true ∧ provider m .mix_parse = some .Mbi_MixinImageVersion)
    ∧ (derivesFrom m .Mbi_MixinImageSubType = true → isData m = true ∧ provider m .mix_parse = some .Mbi_MixinImageSubType)
    ∧ (derivesFrom m .Mbi_MixinHwKey = true → isData m = true ∧ provider m .mix_parse = some .Mbi_MixinHwKey)
    ∧ (derivesFrom m .Mbi_MixinKeyStore = true → isData m = true ∧ provider m .mix_parse = some .Mbi_MixinKeyStore)
    ∧ (derivesFrom m .Mbi_MixinHmac = true → isData m = true ∧ provider m .mix_parse = some .Mbi_MixinHmac)
    ∧ (derivesFrom m .Mbi_MixinCtrInitVector = true → isData m = true ∧ provider m .mix_parse = some .Mbi_MixinCtrInitVector)
    ∧ (derivesFrom m .Mbi_MixinCertBlockV1 = true → isData m = true ∧ provider m .mix_parse = some .Mbi_MixinCertBlockV1)
    ∧ (derivesFrom m .Mbi_MixinTrustZone = true → isData m = true
        ∧ (provider m .mix_parse = some .Mbi_MixinTrustZone ∨ provider m .mix_parse = some .Mbi_MixinManifest)) := by
  cases m <;> decide

omit hl hk hn hs in
theorem encrypted_seen_of_has (order : List MixinName) (hmem : ∀ x, x ∈ c.dataMixins ↔ x ∈ order) (X : MixinName)
    (hX : ∀ m, derivesFrom m X = true → isData m = true
      ∧ (provider m .mix_parse = some X ∨ provider m .mix_parse = some .Mbi_MixinManifest))
    (h : c.has X = true) : encSeen order X = true := by
  obtain ⟨m, hm, hd⟩ := encrypted_has_mem X h
  obtain ⟨h1, h2⟩ := hX m hd
  have hdm : m ∈ c.dataMixins := List.mem_filter.mpr ⟨hm, h1⟩
  have hx := (encrypted_parse_excl hc m hdm).2.1
  have h3 : provider m .mix_parse = some X := by
    rcases h2 with h2 | h2
    · exact h2
    · exact absurd h2 hx
  unfold encSeen
  rw [List.any_eq_true]
  exact ⟨m, (hmem m).mp hdm, by simpa using h3⟩

theorem encrypted_mixParseAll (hdek : dek = cfg.hmacKey) (henv : EnvOK env c cfg) :
    mixParseAll env c dek (encImg co c cfg signer) = .ok (encQ co c cfg signer dek) := by
  obtain ⟨order, ho⟩ := Option.isSome_iff_exists.mp hc.horder
  obtain ⟨hord, hmem⟩ := encrypted_parseOrder hc.hcert order ho
  have h0 : encP (canon c cfg dek) (encTzParsed co c cfg signer) (encSeen []) = {} := by simp [encP, encSeen]
  have hfold := encrypted_fold hl hc hk hn hs dek hdek henv order [] (fun x hx => (hmem x).mpr hx)
    (by simpa [encSeen] using hord)
  rw [h0, List.nil_append] at hfold
  unfold mixParseAll
  rw [ho]
  simp only [hfold]
  have sLA := fun h => encrypted_seen_of_has hc order hmem .Mbi_MixinLoadAddress
    (fun m hd => ⟨((encProv_of_derives m).1 hd).1, Or.inl ((encProv_of_derives m).1 hd).2⟩) h
  have sIV := fun h => encrypted_seen_of_has hc order hmem .Mbi_MixinImageVersion
    (fun m hd => ⟨((encProv_of_derives m).2.1 hd).1, Or.inl ((encProv_of_derives m).2.1 hd).2⟩) h
  have sST := fun h => encrypted_seen_of_has hc order hmem .Mbi_MixinImageSubType
    (fun m hd => ⟨((encProv_of_derives m).2.2.1 hd).1, Or.inl ((encProv_of_derives m).2.2.1 hd).2⟩) h
  have sHW := fun h => encrypted_seen_of_has hc order hmem .Mbi_MixinHwKey
    (fun m hd => ⟨((encProv_of_derives m).2.2.2.1 hd).1, Or.inl ((encProv_of_derives m).2.2.2.1 hd).2⟩) h
  have sKS := encrypted_seen_of_has hc order hmem .Mbi_MixinKeyStore
    (fun m hd => ⟨((encProv_of_derives m).2.2.2.2.1 hd).1, Or.inl ((encProv_of_derives m).2.2.2.2.1 hd).2⟩) hc.hKs
  have sHM := encrypted_seen_of_has hc order hmem .Mbi_MixinHmac
    (fun m hd => ⟨((encProv_of_derives m).2.2.2.2.2.1 hd).1, Or.inl ((encProv_of_derives m).2.2.2.2.2.1 hd).2⟩) hc.hHmac
  have sCT := encrypted_seen_of_has hc order hmem .Mbi_MixinCtrInitVector
    (fun m hd => ⟨((encProv_of_derives m).2.2.2.2.2.2.1 hd).1, Or.inl ((encProv_of_derives m).2.2.2.2.2.2.1 hd).2⟩) hc.hCtr
  have sV1 := encrypted_seen_of_has hc order hmem .Mbi_MixinCertBlockV1
    (fun m hd => ⟨((encProv_of_derives m).2.2.2.2.2.2.2.1 hd).1, Or.inl ((encProv_of_derives m).2.2.2.2.2.2.2.1 hd).2⟩) hc.hV1
  have sTZ := encrypted_seen_of_has hc order hmem .Mbi_MixinTrustZone
    (fun m hd => (encProv_of_derives m).2.2.2.2.2.2.2.2 hd) hc.hTz
  congr 1
  unfold encP encQ
  simp only [sKS, sHM, sCT, sV1, sTZ, if_true]
  have e1 : (if encSeen order .Mbi_MixinLoadAddress = true then (canon c cfg dek).loadAddress else 0)
      = (canon c cfg dek).loadAddress := by
    cases hh : c.has .Mbi_MixinLoadAddress
    · simp [canon, hh]
    · rw [sLA hh, if_pos rfl]
  have e2 : (if encSeen order .Mbi_MixinImageVersion = true then (canon c cfg dek).imageVersion else 0)
      = (canon c cfg dek).imageVersion := by
    cases hh : c.has .Mbi_MixinImageVersion
    · simp [canon, hh]
    · rw [sIV hh, if_pos rfl]
  have e3 : (if encSeen order .Mbi_MixinImageSubType = true then (canon c cfg dek).subType else 0)
      = (canon c cfg dek).subType := by
    cases hh : c.has .Mbi_MixinImageSubType
    · simp [canon, hh]
    · rw [sST hh, if_pos rfl]
  have e4 : (if encSeen order .Mbi_MixinHwKey = true then (canon c cfg dek).hwKey else false)
      = (canon c cfg dek).hwKey := by
    cases hh : c.has .Mbi_MixinHwKey
    · simp [canon, hh]
    · rw [sHW hh, if_pos rfl]
  rw [e1, e2, e3, e4]
  simp [canon, hc.hmk, hc.hV1, hk.hbca, hk.hfcf]

end step

theorem encrypted_canon_keyStore (hc : EncCls c) (hk : EncCfg c cfg) (dek : Option Bytes) :
    (canon c cfg dek).keyStore = cfg.keyStore := by
  simp only [canon, hc.hKs, if_true]
  cases hs : cfg.keyStore with
  | none => rfl
  | some k =>
    have := hk.hks k hs
    cases k with
    | nil => simp [keyStoreSize] at this
    | cons a l => rfl

/-! ### re-export of the parsed image -/

/-- the parsed image as a builder configuration: cleaned application, the certificate block as emitted -/
def encCfgR (c : Cls) (cfg : Cfg) : Cfg := { cfg with app := cleanIvt (appData cfg), cert := certInImage c cfg }

theorem encrypted_toCfg (hc : EncCls c) (hk : EncCfg c cfg) (dek : Option Bytes) (hdek : dek = cfg.hmacKey) :
    (canon c cfg dek).toCfg = encCfgR c cfg := by
  have e1 : (if c.has .Mbi_MixinLoadAddress = true then cfg.loadAddress else 0) = cfg.loadAddress := by
    cases hh : c.has .Mbi_MixinLoadAddress
    · simp [hk.hnoLa hh]
    · simp
  have e2 : (if c.has .Mbi_MixinImageVersion = true then cfg.imageVersion else 0) = cfg.imageVersion := by
    cases hh : c.has .Mbi_MixinImageVersion
    · simp [hk.hnoIv hh]
    · simp
  have e3 : (if c.has .Mbi_MixinImageSubType = true then cfg.subType else 0) = cfg.subType := by
    cases hh : c.has .Mbi_MixinImageSubType
    · simp [hk.hnoSub hh]
    · simp
  have e4 : (c.has .Mbi_MixinHwKey && cfg.hwKey) = cfg.hwKey := by
    cases hh : c.has .Mbi_MixinHwKey
    · simp [hk.hnoHw hh]
    · simp
  have e5 : (if c.has .Mbi_MixinRelocTable = true then cfg.reloc else none) = cfg.reloc := by
    cases hh : c.has .Mbi_MixinRelocTable
    · simp [encrypted_reloc_none hk hh]
    · simp
  have e6 := encrypted_canon_keyStore hc hk dek
  simp only [canon, hc.hKs, if_true] at e6
  unfold Parsed.toCfg encCfgR
  simp only [canon, hc.hclean, hc.hKs, hc.hHmac, hc.hCtr, hc.hV1, hc.hmk, encrypted_hasTrustZone hc, e1, e2, e3, e4, e5, e6,
    if_true, Option.getD_some, hdek, hk.hbca, hk.hfcf, hk.hfw, hk.hdigest, Option.isSome_none, Bool.false_eq_true, ite_self]


theorem encrypted_appData_R (hk : EncCfg c cfg) : appData (encCfgR c cfg) = cleanIvt (appData cfg) := by
  have hA := encrypted_app_ivt hk
  show align4 (cleanIvt (appData cfg)) = _
  apply align4_of_aligned
  rw [cleanIvt_length _ hA]
  exact align4_length_mod cfg.app

theorem encrypted_appData_R_length (hk : EncCfg c cfg) : (appData (encCfgR c cfg)).length = (appData cfg).length := by
  rw [encrypted_appData_R hk, cleanIvt_length _ (encrypted_app_ivt hk)]

theorem encrypted_rd32_cleanIvt (hk : EncCfg c cfg) (off : Nat) (ho : off + 4 ≤ 32) :
    rd32 (appData (encCfgR c cfg)) off = rd32 (appData cfg) off := by
  have hA := encrypted_app_ivt hk
  have l32 : ((appData cfg).take 32).length = 32 := by
    rw [List.length_take]; simp only [minIvtSize] at hA; omega
  have r : rd32 ((appData cfg).take 32 ++ (appData cfg).drop 32) off = rd32 ((appData cfg).take 32) off :=
    rd32_append_left _ _ _ (by omega)
  rw [List.take_append_drop] at r
  rw [encrypted_appData_R hk, cleanIvt_eq _ hA]
  simp only [List.append_assoc]
  rw [rd32_append_left _ _ _ (by omega), r]

theorem encrypted_validate_R (hk : EncCfg c cfg) (m : MixinName) :
    validateMixin c (encCfgR c cfg) m = validateMixin c cfg m := by
  unfold validateMixin
  simp only [encrypted_appData_R_length hk, encrypted_rd32_cleanIvt hk 0 (by decide), encrypted_rd32_cleanIvt hk 4 (by decide),
    encrypted_rd32_cleanIvt hk 8 (by decide)]
  rfl

theorem encrypted_mixLenOf_R (hc : EncCls c) (hk : EncCfg c cfg) (d : MixinName) :
    mixLenOf c (encCfgR c cfg) d = mixLenOf c cfg d := by
  have h1 := encrypted_appData_R_length hk
  have h2 : (encCfgR c cfg).cert.length = cfg.cert.length := encrypted_certInImage_length hc hk
  cases d <;> simp only [mixLenOf, h1, h2] <;> rfl

theorem encrypted_totalLen_R (hc : EncCls c) (hk : EncCfg c cfg) : totalLen c (encCfgR c cfg) = totalLen c cfg := by
  unfold totalLen
  congr 1
  apply List.map_congr_left
  intro m _
  unfold mixLen
  cases provider m .mix_len with
  | none => rfl
  | some d => exact encrypted_mixLenOf_R hc hk d

theorem encrypted_forM_congr {α : Type} (f g : α → PyRes Unit) (l : List α) (h : ∀ a, f a = g a) : l.forM f = l.forM g := by
  have : f = g := funext h
  rw [this]

theorem encCfg_R (hc : EncCls c) (hk : EncCfg c cfg) : EncCfg c (encCfgR c cfg) := by
  obtain ⟨v, hv⟩ := encrypted_certInImage_eq_setAt (cfg := cfg) hc
  obtain ⟨f1, f2, f3⟩ := encrypted_cert_facts cfg.cert (le32 v) [] hk.hcertLen (le32_length v)
  rw [← hv, List.append_nil] at f1 f2 f3
  have hcl : (certInImage c cfg).length = cfg.cert.length := encrypted_certInImage_length hc hk
  have hflags : flagsOf c (encCfgR c cfg) = flagsOf c cfg := rfl
  refine { hval := ?_, hpack := ?_, hla := hk.hla, hiv := hk.hiv, hst := hk.hst, hflags := hk.hflags, htz := hk.htz,
           hreloc := hk.hreloc, hks := hk.hks, hhmac := hk.hhmac, hctr := hk.hctr, happ := ?_, hbca := hk.hbca,
           hfcf := hk.hfcf, hcertLen := ?_, hcertSig := ?_, hcertHdr := ?_, hcertSize := ?_, hsigLen := hk.hsigLen,
           hdigest := hk.hdigest, hfw := hk.hfw, hnoIv := hk.hnoIv, hnoSub := hk.hnoSub, hnoHw := hk.hnoHw,
           hnoLa := hk.hnoLa }
  · have := hk.hval
    unfold validate at this ⊢
    rw [encrypted_forM_congr _ _ _ (encrypted_validate_R hk)]
    exact this
  · have := hk.hpack
    unfold packGuard at this ⊢
    rw [encrypted_totalLen_R hc hk, hflags]
    exact this
  · rw [encrypted_appData_R_length hk]; exact hk.happ
  · show certHeaderSize ≤ (certInImage c cfg).length
    rw [hcl]; exact hk.hcertLen
  · show (certInImage c cfg).take 4 = _
    rw [f1]; exact hk.hcertSig
  · show rd32 (certInImage c cfg) 8 = _
    rw [f2]; exact hk.hcertHdr
  · show certV1Size (certInImage c cfg) = (certInImage c cfg).length
    have := hk.hcertSize
    unfold certV1Size at this ⊢
    simp only [certTableLengthOffset] at this ⊢
    rw [f3, this, hcl]

theorem encrypted_setAt_setAt (b w w' : Bytes) (off : Nat) (ho : off ≤ b.length) (hw : w.length = w'.length) :
    setAt (setAt b off w) off w' = setAt b off w' := by
  have : setAt b off w = b.take off ++ w ++ b.drop (off + w.length) := rfl
  rw [this, setAt_mid _ _ _ _ off (by rw [List.length_take]; omega) hw]
  unfold setAt
  rw [hw]

theorem encrypted_pieces_R (hl : CryptoLaws co) (hc : EncCls c) (hk : EncCfg c cfg) :
    encIvtOf co c (encCfgR c cfg) = encIvtOf co c cfg ∧ encBody co c (encCfgR c cfg) = encBody co c cfg
      ∧ ∀ x, computeHmac co (encCfgR c cfg) x = computeHmac co cfg x := by
  have hkR := encCfg_R hc hk
  have hA := encrypted_app_ivt hk
  have happ : appLen c (encCfgR c cfg) = appLen c cfg := by
    rw [encrypted_appLen hc hkR, encrypted_appLen hc hk, encrypted_appData_R_length hk]; rfl
  have himg : encImgLen c (encCfgR c cfg) = encImgLen c cfg := by
    unfold encImgLen; rw [encrypted_totalLen_R hc hk]; rfl
  have hupd : ∀ x t o, updateIvt c (encCfgR c cfg) x t o = updateIvt c cfg x t o := fun _ _ _ => rfl
  have hU : encU c (encCfgR c cfg) = encU c cfg := by
    unfold encU
    rw [hupd, encrypted_appData_R hk, happ, himg, updateIvt_cleanIvt _ _ _ _ _ hA]
  have hR : encR (encCfgR c cfg) = encR cfg := by
    unfold encR
    rw [encrypted_appData_R_length hk]
    rfl
  have hraw : encRaw c (encCfgR c cfg) = encRaw c cfg := by
    unfold encRaw; rw [hU, hR]; rfl
  have henc : encEnc co c (encCfgR c cfg) = encEnc co c cfg := by
    unfold encEnc; rw [hraw]; rfl
  have hcert : certInImage c (encCfgR c cfg) = certInImage c cfg := by
    have hclen : (certInImage c cfg).length = cfg.cert.length := encrypted_certInImage_length hc hk
    have e1 := encrypted_certInImage hl hc hkR
    have e2 := encrypted_certInImage hl hc hk
    rw [← e1, henc]
    show certSetImageLength (certInImage c cfg) ((encEnc co c cfg).length + (certInImage c cfg).length + encIvtCopySize
      + cfg.ctrIv.length) = _
    rw [hclen]
    conv => lhs; rw [← e2]
    rw [← e2]
    unfold certSetImageLength
    apply encrypted_setAt_setAt
    · have := hk.hcertLen; simp only [certImageLengthOffset, certHeaderSize] at *; omega
    · simp only [le32_length]
  refine ⟨?_, ?_, fun _ => rfl⟩
  · unfold encIvtOf; rw [hupd, henc, happ, himg]
  · unfold encBody; rw [henc, happ, hcert]; rfl

theorem disassemble_collect_encrypted (h : Hyp co env c cfg signer) (hf : c.family = some .encrypted) (dek : Option Bytes)
    (p : Parsed) (hp : p.tz = cfg.tz) (hcert : p.cert.isSome = c.hasAttr .cert_block) (hr : p.reloc = none) :
    ∃ raw, collect c cfg = .ok raw
      ∧ disassemble c p raw = .ok { p with app := (canon c cfg dek).app, reloc := (canon c cfg dek).reloc } := by
  have hc := encCls h.hcls hf
  have hk := encCfg hc h.hcfg
  refine ⟨_, encrypted_collect hc hk, ?_⟩
  rw [encrypted_disassemble hc hk dek p (by rw [hp]; exact encTzLike_refl _) hr, ← hp]

theorem parse_export_encrypted (h : Hyp co env c cfg signer) (hf : c.family = some .encrypted) (dek : Option Bytes) (hdek : dek = cfg.hmacKey) :
    ∃ e, exportImage co c cfg signer = .ok e ∧ parseImage co env c dek e = .ok (canon c cfg dek) := by
  have hc := encCls h.hcls hf
  have hk := encCfg hc h.hcfg
  have hn := encLens h.hlaws hc hk signer h.hsig
  refine ⟨_, encrypted_export h.hlaws hc hk signer, ?_⟩
  have hcert : (encQ co c cfg signer dek).cert = some (encCertInfo c cfg) := encrypted_canon_cert hc dek
  have hhm : (encQ co c cfg signer dek).hmacKey = cfg.hmacKey := by
    show (canon c cfg dek).hmacKey = _
    simp only [canon, hc.hHmac, if_true, hdek]
  have hiv : (encQ co c cfg signer dek).ctrIv = cfg.ctrIv := by
    show (canon c cfg dek).ctrIv = _
    simp only [canon, hc.hCtr, if_true]
  have hks : (encQ co c cfg signer dek).keyStore.isSome = cfg.keyStore.isSome := by
    show (canon c cfg dek).keyStore.isSome = _
    rw [encrypted_canon_keyStore hc hk]
  have hdis := encrypted_disassemble hc hk dek (encQ co c cfg signer dek) (encTzParsed_like co c cfg signer) rfl
  unfold parseImage
  simp only [encrypted_mixParseAll h.hlaws hc hk hn h.hsig dek hdek h.henv, bind, Except.bind,
    encrypted_finalizeRevert h.hlaws hc hk hn (encQ co c cfg signer dek),
    encrypted_signRevert h.hlaws hc hk hn (encQ co c cfg signer dek) _ hcert rfl rfl,
    encrypted_postEncryptRevert h.hlaws hc hk hn (encQ co c cfg signer dek) _ hcert rfl rfl,
    encrypted_encryptRevert h.hlaws hc hk (encQ co c cfg signer dek) hhm hiv hks, hdis]
  congr 1
  simp [encQ, canon, encrypted_hasTrustZone hc]

theorem reexport_encrypted (h : Hyp co env c cfg signer) (hf : c.family = some .encrypted) (signer' : Signer)
    (hs' : ∀ m, (signer' m).length = cfg.sigLen) (dek : Option Bytes)
    (hdek : c.has .Mbi_MixinHmac = true → dek = cfg.hmacKey) :
    ∃ e e', exportImage co c cfg signer = .ok e ∧ exportImage co c (canon c cfg dek).toCfg signer' = .ok e'
      ∧ eqOutsideSig c cfg e e' := by
  have hc := encCls h.hcls hf
  have hk := encCfg hc h.hcfg
  have hkR := encCfg_R hc hk
  have hn := encLens h.hlaws hc hk signer h.hsig
  obtain ⟨p1, p2, p3⟩ := encrypted_pieces_R h.hlaws hc hk
  refine ⟨_, encImg co c (encCfgR c cfg) signer', encrypted_export h.hlaws hc hk signer, ?_, ?_⟩
  · rw [encrypted_toCfg hc hk dek (hdek hc.hHmac)]
    exact encrypted_export h.hlaws hc hkR signer'
  · have hks : (encCfgR c cfg).keyStore = cfg.keyStore := rfl
    have hpe : encPe co c (encCfgR c cfg) = encPe co c cfg := by unfold encPe; rw [p1, p2]
    have e1 : encImg co c cfg signer = (encIvtOf co c cfg ++ computeHmac co cfg (encIvtOf co c cfg)
        ++ (cfg.keyStore.getD []) ++ encBody co c cfg) ++ signer (encPe co c cfg) := rfl
    have e2 : encImg co c (encCfgR c cfg) signer' = (encIvtOf co c cfg ++ computeHmac co cfg (encIvtOf co c cfg)
        ++ (cfg.keyStore.getD []) ++ encBody co c cfg) ++ signer' (encPe co c cfg) := by
      unfold encImg; rw [p1, p2, p3, hks, hpe]
    rw [e1, e2]
    generalize encIvtOf co c cfg ++ computeHmac co cfg (encIvtOf co c cfg) ++ (cfg.keyStore.getD []) ++ encBody co c cfg = X
    unfold eqOutsideSig sigOffset
    rw [hc.hsign]
    simp only [List.length_append, h.hsig, hs', Nat.add_sub_cancel, true_and]
    refine ⟨?_, ?_⟩
    · rw [List.take_left, List.take_left]
    · rw [List.drop_of_length_le (by simp [h.hsig]), List.drop_of_length_le (by simp [hs'])]

theorem header_describes_encrypted (h : Hyp co env c cfg signer) (hf : c.family = some .encrypted) :
    ∃ e, exportImage co c cfg signer = .ok e
      ∧ rd32 e ivtImageLengthOffset = (if c.zeroTotalLength then 0 else e.length)
      ∧ rd32 e ivtImageFlagsOffset = flagsOf c cfg
      ∧ rd32 e ivtLoadAddrOffset = (if c.has .Mbi_MixinLoadAddress then cfg.loadAddress else 0)
      ∧ (c.imageType = 0 → rd32 e ivtCrcCertificateOffset = 0)
      ∧ (c.signKind = .crc → rd32 e ivtCrcCertificateOffset
            = crc32m (e.take ivtCrcCertificateOffset ++ e.drop (ivtCrcCertificateOffset + 4)))
      ∧ (c.hasAttr .cert_block = true →
          rd32 e ivtCrcCertificateOffset = appLen c cfg
          ∧ (let off := appLen c cfg + (if c.has .Mbi_MixinHmac then hmacSize + (cfg.keyStore.getD []).length else 0)
             slice e off (off + cfg.cert.length)
               = (if c.has .Mbi_MixinCertBlockV1 then certInImage c cfg else cfg.cert))) := by
  have hc := encCls h.hcls hf
  have hk := encCfg hc h.hcfg
  have hn := encLens h.hlaws hc hk signer h.hsig
  refine ⟨_, encrypted_export h.hlaws hc hk signer, ?_⟩
  obtain ⟨w1, w2, w3, w4⟩ := encImg_words h.hlaws hc hk signer
  refine ⟨?_, w2, w4, ?_, ?_, ?_⟩
  · rw [w1, encImg_length_total h.hlaws hc hk signer h.hsig]
  · intro h0; exact absurd h0 hc.htype
  · intro hs; rw [hc.hsign] at hs; exact absurd hs (by decide)
  · intro _
    refine ⟨w3, ?_⟩
    simp only [hc.hHmac, hc.hV1, if_true]
    exact encImg_slice_cert hn

theorem total_len_sum_encrypted (h : Hyp co env c cfg signer) (hf : c.family = some .encrypted) :
    ∃ e, exportImage co c cfg signer = .ok e
      ∧ (e.length : Int) = totalLen c cfg + (if c.signKind = .rsa then cfg.sigLen else 0)
          + (if c.family = some .encrypted then encIvtCopySize + encIvSize else 0) := by
  have hc := encCls h.hcls hf
  have hk := encCfg hc h.hcfg
  refine ⟨_, encrypted_export h.hlaws hc hk signer, ?_⟩
  rw [encImg_length h.hlaws hc hk signer h.hsig, encrypted_totalLen hc hk, encrypted_appLen hc hk, hf, hc.hsign]
  simp only [if_true]
  push_cast
  omega

end SpsdkVerif.Mbi
