/-
C02 x C03: the opaque certificate-block hypotheses of the MBI ROM theorems (`RomCertV1OK` / `RomCertV21OK`,
Proofs/MbiRomDefs.lean) discharged for the blocks exported by the certificate-block model of C03 (Proofs/CertBlockRom.lean),
composed with the acceptance theorems of Proofs/MbiRomV1.lean, MbiRomV21.lean, MbiRomEnc.lean.
-/
import SpsdkVerif.Proofs.MbiRomV1
import SpsdkVerif.Proofs.MbiRomV21
import SpsdkVerif.Proofs.MbiRomEnc
import SpsdkVerif.Proofs.CertBlockRom

namespace SpsdkVerif.Mbi.Built
open SpsdkVerif SpsdkVerif.Mbi SpsdkVerif.Spec
open SpsdkVerif.Generated
open SpsdkVerif.Crypto (CryptoOps CryptoLaws Break SigAlg PrivKey PubKey Rand)
open SpsdkVerif.CertBlock SpsdkVerif.Rkht

variable {co : CryptoOps} {env : Env} {c : Cls} {cfg : Cfg} {signer : Signer}

/-- every well-formed v2.1 block exported by the C03 model (with or without ISK certificate) satisfies `RomCertV21OK` -/
theorem rom_cert_v21_of_model (pointOk : Mbi.Bytes → Bool) (ca : Bool) (used : Nat) (cv : Curve) (cb : CertBlockV21)
    (wf : WFv21 co pointOk ca used cv cb) (rwf : RomWF co used cv cb) (renv : Spec.MbiRom.RomEnv)
    (hrkth : renv.rkth = rotkhOfRecord co cv cb.rkr) :
    RomCertV21OK co renv (bytesV21 cb) (signerOf cv cb).1.length (signerOf cv cb).1 (fun _ _ => obsOf cb) :=
  mbi_romCertV21_ok wf rwf renv hrkth

/-- every well-formed v1 block exported by the C03 model satisfies `RomCertV1OK` (for every patched `image_length`) -/
theorem rom_cert_v1_of_model (certOk : Mbi.Bytes → Bool) (cb : CertBlockV1) (wf : WFv1 certOk cb) (rwf : RomWFv1 cb)
    (renv : Spec.MbiRom.RomEnv) (hrkth : renv.rkth = co.hash .sha256 (pad4 cb.rkh).flatten) :
    RomCertV1OK co renv (bytesV1 cb) (relCerts cb.certs 32) (pad4 cb.rkh) :=
  mbi_romCertV1_ok wf rwf renv hrkth

/-- END TO END, ECC signed: an image whose certificate block is the one SPSDK builds from the root keys `ks` (documented
    domain, any used index) is accepted by the ROM fused with the documented value `Spec.rotkh … cert_block_21 ks`; the only
    obligation left is the image signature under the selected root key - which holds when the signer signs with that key.
    No hypothesis about the certificate block remains. -/
theorem rom_accepts_signed_v21_built (h : Mbi.Hyp co env c cfg signer) (hf : c.family = some .signedV21) (ht : signedTypeOk c = true)
    (uk : Option Mbi.Bytes) (ks : List Key) (hk : KeysOK .certBlock21 ks) (used : Nat) (hu : used < ks.length)
    (r : RootKeyRecord) (hr : rkrCalculate co true ks used = .ok r)
    (hcert : cfg.cert = bytesV21 ⟨2, 1, r, none⟩)
    (alg : SigAlg) (sk : PrivKey) (rnd : Rand) (hsigner : signer = fun m => co.sign alg sk m rnd)
    (hpub : ∀ ku, ks[used]? = some ku → ku.material = co.pubOf sk ∧ cfg.sigLen = ku.material.length) :
    ∃ e pre a, exportImage co c cfg signer = .ok e
      ∧ Spec.MbiRom.romCheck co (romEnvOf c (Spec.rotkh co .certBlock21 ks) uk) e = .ok a
      ∧ a.obligations = [.ecdsa (co.pubOf sk) pre (signer pre)]
      ∧ (∀ ob ∈ a.obligations, holdsEcdsa co alg ob) := by
  obtain ⟨r', cv, ku, hr', hku, _, _, hrom⟩ := built_v21_block_accepted co h.hlaws ks hk used hu
  have : r' = r := by rw [hr] at hr'; exact (Except.ok.inj hr').symm
  subst this
  obtain ⟨hp, hsl⟩ := hpub ku hku
  have hrom' := hrom (romEnvOf c (Spec.rotkh co .certBlock21 ks) uk) rfl
  rw [← hcert, ← hsl] at hrom'
  obtain ⟨e, pre, a, he, _, hacc, hob⟩ := Mbi.rom_accepts_signedV21 h hf ht _ uk _ _ hrom'
  refine ⟨e, pre, a, he, hacc, ?_, ?_⟩
  · rw [hob, hp]; rfl
  · intro ob hm
    rw [hob, hp] at hm
    simp only [List.nil_append, List.mem_singleton] at hm
    subst hm
    show co.verify alg (co.pubOf sk) pre (signer pre) = true
    rw [hsigner]
    exact h.hlaws.verify_sign _ _ _ _

/-- END TO END, RSA signed (plain signed, with HMAC / key store, or encrypted - same statement through the respective
    acceptance theorem): with a certificate block exported by the C03 model whose RKH table is the one
    `CertBlockV1.set_root_key_hash` computes from the root keys `ks`, the ROM fused with `Spec.rotkh … cert_block_1 ks`
    accepts the image; the obligations left are the X.509 chain over the certificates of the block and the RSA signature
    over the signed prefix -/
theorem rom_accepts_signed_v1_built (h : Mbi.Hyp co env c cfg signer) (hf : c.family = some .signedV1) (ht : signedTypeOk c = true)
    (ks : List Key) (hk : KeysOK .certBlock1 ks) (certOk : Mbi.Bytes → Bool) (cb : CertBlockV1) (wf : WFv1 certOk cb)
    (rwf : RomWFv1 cb) (hrkh : certBlockV1Rkh co ks = .ok cb.rkh) (hcert : cfg.cert = bytesV1 cb) :
    ∃ e a last, exportImage co c cfg signer = .ok e
      ∧ Spec.MbiRom.romCheck co (romEnvOf c (Spec.rotkh co .certBlock1 ks) cfg.hmacKey) e = .ok a
      ∧ ((relCerts cb.certs 32).map (fun p => (appLen c cfg + p.1, p.2))).getLast? = some last
      ∧ a.obligations = [.x509Chain ((relCerts cb.certs 32).map (fun p => (appLen c cfg + p.1, p.2))) (pad4 cb.rkh),
                         .rsaByCert last (totalLenForCertBlock c cfg).toNat] := by
  have hrom := built_v1_block_accepted co h.hlaws ks hk wf rwf hrkh (romEnvOf c (Spec.rotkh co .certBlock1 ks) cfg.hmacKey) rfl
  rw [← hcert] at hrom
  obtain ⟨e, a, last, he, hacc, hl, hob, _⟩ := Mbi.rom_accepts_signedV1 h hf ht _ _ _ hrom
  exact ⟨e, a, last, he, hacc, hl, hob⟩

theorem rom_accepts_encrypted_built (h : Mbi.Hyp co env c cfg signer) (hf : c.family = some .encrypted) (ht : signedTypeOk c = true)
    (ks : List Key) (hk : KeysOK .certBlock1 ks) (certOk : Mbi.Bytes → Bool) (cb : CertBlockV1) (wf : WFv1 certOk cb)
    (rwf : RomWFv1 cb) (hrkh : certBlockV1Rkh co ks = .ok cb.rkh) (hcert : cfg.cert = bytesV1 cb) :
    ∃ e a raw, exportImage co c cfg signer = .ok e ∧ collect c cfg = .ok raw
      ∧ Spec.MbiRom.romCheck co (romEnvOf c (Spec.rotkh co .certBlock1 ks) cfg.hmacKey) e = .ok a
      ∧ a.plain = some raw := by
  have hrom := built_v1_block_accepted co h.hlaws ks hk wf rwf hrkh (romEnvOf c (Spec.rotkh co .certBlock1 ks) cfg.hmacKey) rfl
  rw [← hcert] at hrom
  obtain ⟨e, a, raw, he, hc, hacc, hp, _⟩ := Mbi.rom_accepts_encrypted h hf ht _ _ _ hrom
  exact ⟨e, a, raw, he, hc, hacc, hp⟩


end SpsdkVerif.Mbi.Built
