/-
C02 x C03: the opaque certificate-block hypotheses of the MBI ROM theorems (`RomCertV1OK` / `RomCertV21OK`,
Proofs/MbiRomDefs.lean) discharged for the blocks exported by the certificate-block model of C03 (Proofs/CertBlockRom.lean),
composed with the acceptance theorems of Proofs/MbiRomV1.lean, MbiRomV21.lean, MbiRomEnc.lean.
-/
import SpsdkVerif.Proofs.MbiRomV1
import SpsdkVerif.Proofs.MbiRomV21
import SpsdkVerif.Proofs.MbiRomEnc
import SpsdkVerif.Proofs.CertBlockRom

namespace SpsdkVerif.Mbi.Built
open SpsdkVerif SpsdkVerif.Mbi SpsdkVerif.Spec
open SpsdkVerif.Generated
open SpsdkVerif.Crypto (CryptoOps CryptoLaws Break SigAlg PrivKey PubKey Rand)
open SpsdkVerif.CertBlock SpsdkVerif.Rkht

variable {co : CryptoOps} {env : Env} {c : Cls} {cfg : Cfg} {signer : Signer}

/-- every well-formed v2.1 block exported by the C03 model (with or without ISK certificate) satisfies `RomCertV21OK` -/
theorem rom_cert_v21_of_model (pointOk : Mbi.Bytes → Bool) (ca : Bool) (used : Nat) (cv : Curve) (cb : CertBlockV21)
    (wf : WFv21 co pointOk ca used cv cb) (rwf : RomWF co used cv cb) (renv : Spec.MbiRom.RomEnv)
    (hrkth : renv.rkth = rotkhOfRecord co cv cb.rkr) :
    RomCertV21OK co renv (bytesV21 cb) (signerOf cv cb).1.length (signerOf cv cb).1 (fun _ _ => obsOf cb) :=
  mbi_romCertV21_ok wf rwf renv hrkth

/-- every well-formed v1 block exported by the C03 model satisfies `RomCertV1OK` (for every patched `image_length`) -/
theorem rom_cert_v1_of_model (certOk : Mbi.Bytes → Bool) (cb : CertBlockV1) (wf : WFv1 certOk cb) (rwf : RomWFv1 cb)
    (renv : Spec.MbiRom.RomEnv) (hrkth : renv.rkth = co.hash .sha256 (pad4 cb.rkh).flatten) :
    RomCertV1OK co renv (bytesV1 cb) (relCerts cb.certs 32) (pad4 cb.rkh) :=
  mbi_romCertV1_ok wf rwf renv hrkth

/-- END TO END, ECC signed: an image whose certificate block is the one SPSDK builds from the root keys `ks` (documented
    domain, any used index) is accepted by the ROM fused with the documented value `Spec.rotkh … cert_block_21 ks`; the only
    obligation left is the image signature under the selected root key - which holds when the signer signs with that key.
    No hypothesis about the certificate block remains. -/
theorem rom_accepts_signed_v21_built (h : Mbi.Hyp co env c cfg signer) (hf : c.family = some .signedV21) (ht : signedTypeOk c = true)
    (uk : Option Mbi.Bytes) (ks : List Key) (hk : KeysOK .certBlock21 ks) (used : Nat) (hu : used < ks.length)
    (r : RootKeyRecord) (hr : rkrCalculate co true ks used = .ok r)
    (hcert : cfg.cert = bytesV21 ⟨2, 1, r, none⟩)
    (alg : SigAlg) (sk : PrivKey) (rnd : Rand) (hsigner : signer = fun m => co.sign alg sk m rnd)
    (hpub : ∀ ku, ks[used]? = some ku → ku.material = co.pubOf sk ∧ cfg.sigLen = ku.material.length) :
    ∃ e pre a, exportImage co c cfg signer = .ok e
      ∧ Spec.MbiRom.romCheck co (romEnvOf c (Spec.rotkh co .certBlock21 ks) uk) e = .ok a
      ∧ a.obligations = [.ecdsa (co.pubOf sk) pre (signer pre)]
      ∧ (∀ ob ∈ a.obligations, holdsEcdsa co alg ob) := by
  obtain ⟨r', cv, ku, hr', hku, _, _, hrom⟩ := built_v21_block_accepted co h.hlaws ks hk used hu
  have : r' = r := by rw [hr] at hr'; exact (Except.ok.inj hr').symm
  subst this
  obtain ⟨hp, hsl⟩ := hpub ku hku
  have hrom' := hrom (romEnvOf c (Spec.rotkh co .certBlock21 ks) uk) rfl
  rw [← hcert, ← hsl] at hrom'
  obtain ⟨e, pre, a, he, _, hacc, hob⟩ := Mbi.rom_accepts_signedV21 h hf ht _ uk _ _ hrom'
  refine ⟨e, pre, a, he, hacc, ?_, ?_⟩
  · rw [hob, hp]; rfl
  · intro ob hm
    rw [hob, hp] at hm
    simp only [List.nil_append, List.mem_singleton] at hm
    subst hm
    show co.verify alg (co.pubOf sk) pre (signer pre) = true
    rw [hsigner]
    exact h.hlaws.verify_sign _ _ _ _

/-- a block with an ISK certificate around a well-formed (non-CA) root key record is well formed -/
theorem wf_iskBlock (pointOk : Mbi.Bytes → Bool) {used : Nat} {cv : Curve} {r : RootKeyRecord} (wr : WFrkr co false used cv r)
    (i : IskCert) (wi : WFisk pointOk r.rootPublicKey.length i)
    (hsize : headerSizeV21 + (rkrBytes r).length + (iskBytes i).length < 2 ^ 32) :
    WFv21 co pointOk false used cv ⟨2, 1, r, some i⟩ where
  major := by show 2 < 65536; decide
  minor := by show 1 < 65536; decide
  rkr := wr
  isk_none := fun h => by cases h
  isk_some := fun _ => ⟨i, rfl, wi⟩
  size := hsize

/-- END TO END, ECC signed WITH an ISK certificate - the chain  root[used] → ISK → image,  the signing root index a parameter:
    the block SPSDK builds from the root keys `ks` (documented domain), signing root `used`, and a well-formed ISK certificate `i`.
    The ROM fused with `Spec.rotkh … cert_block_21 ks` accepts the exported image; the root key record names index `used` and carries
    THAT root's public key; exactly two obligations are left - the ISK certificate under the carried root key and the image under the
    ISK key - and both hold when the certificate was signed with root `used`'s private key and the image with the ISK's private key. -/
theorem rom_accepts_signed_v21_built_isk (h : Mbi.Hyp co env c cfg signer) (hf : c.family = some .signedV21) (ht : signedTypeOk c = true)
    (uk : Option Mbi.Bytes) (ks : List Key) (hk : KeysOK .certBlock21 ks) (used : Nat) (hu : used < ks.length)
    (r : RootKeyRecord) (hr : rkrCalculate co false ks used = .ok r)
    (pointOk : Mbi.Bytes → Bool) (i : IskCert) (wi : WFisk pointOk r.rootPublicKey.length i)
    (hsize : headerSizeV21 + (rkrBytes r).length + (iskBytes i).length < 2 ^ 32)
    (hcert : cfg.cert = bytesV21 ⟨2, 1, r, some i⟩) (hsl : cfg.sigLen = i.pubKey.length)
    (rootSk iskSk : PrivKey) (rnd rnd' : Rand) (alg : SigAlg)
    (hroot : ∀ ku, ks[used]? = some ku → ku.material = co.pubOf rootSk)
    (hisksig : ∀ cv : Curve, (∀ k ∈ ks, k.curve? = some cv) →
        i.signature = co.sign (.ecdsa cv.hashAlg) rootSk (rkrBytes r ++ iskSignedPart i) rnd')
    (hiskpub : i.pubKey = co.pubOf iskSk) (hsigner : signer = fun m => co.sign alg iskSk m rnd) :
    ∃ (e pre : Mbi.Bytes) (a : Spec.MbiRom.Accepted) (cv : Curve) (ku : Key), exportImage co c cfg signer = .ok e
      ∧ Spec.MbiRom.romCheck co (romEnvOf c (Spec.rotkh co .certBlock21 ks) uk) e = .ok a
      ∧ ks[used]? = some ku ∧ r.rootPublicKey = ku.material ∧ rkrUsed r.flags = used ∧ rkrCa r.flags = false
      ∧ a.obligations = [.ecdsa (co.pubOf rootSk) (rkrBytes r ++ iskSignedPart i) i.signature,
                         .ecdsa (co.pubOf iskSk) pre (signer pre)]
      ∧ co.verify (.ecdsa cv.hashAlg) (co.pubOf rootSk) (rkrBytes r ++ iskSignedPart i) i.signature = true
      ∧ co.verify alg (co.pubOf iskSk) pre (signer pre) = true := by
  obtain ⟨h1, h4, _, _⟩ := keysOK_cb21 hk
  obtain ⟨cv, ku, hcv, hku, hkc, hall, hcalc⟩ := rkrCalculate_ok co h.hlaws ks hk used hu false
  have hre : r = { flags := rkrFlags false used ks.length cv, rkh := ks.map (keyHash co), rootPublicKey := ku.material } := by
    rw [hr] at hcalc; exact Except.ok.inj hcalc
  have wr := wf_calculated co h.hlaws ks cv ku used false hcv h1 h4 hu hku hkc hall
  rw [← hre] at wr
  have wf := wf_iskBlock (co := co) pointOk wr i wi hsize
  have rw_ : RomWF co used cv ⟨2, 1, r, some i⟩ := by
    rw [hre]; exact romWF_calculated co ks cv ku used (rkrFlags false used ks.length cv) (some i) hku hu hall
  have hrot : rotkhOfRecord co cv r = Spec.rotkh co .certBlock21 ks := by
    rw [hre]; exact rotkhOfRecord_calculated co ks cv ku used (rkrFlags false used ks.length cv) h1 hku hu hall
  have hrom := mbi_romCertV21_ok wf rw_ (romEnvOf c (Spec.rotkh co .certBlock21 ks) uk) (by rw [← hrot]; rfl)
  have hs1 : (signerOf cv (⟨2, 1, r, some i⟩ : CertBlockV21)).1 = i.pubKey := rfl
  rw [hs1, ← hcert, ← hsl] at hrom
  obtain ⟨e, pre, a, he, _, hacc, hob⟩ := Mbi.rom_accepts_signedV21 h hf ht _ uk _ _ hrom
  have hpk := hroot ku hku
  have hrp : r.rootPublicKey = ku.material := by rw [hre]
  have hfl := rkr_fields false used ks.length cv (by omega) (by omega) hcv
  refine ⟨e, pre, a, cv, ku, he, hacc, hku, hrp, ?_, ?_, ?_, ?_, ?_⟩
  · rw [hre]; exact hfl.2.1
  · rw [hre]; exact hfl.1
  · rw [hob]
    show obsOf (⟨2, 1, r, some i⟩ : CertBlockV21) ++ _ = _
    simp only [obsOf, hrp, hpk, hiskpub, List.cons_append, List.nil_append]
  · rw [hisksig cv hall]; exact h.hlaws.verify_sign _ _ _ _
  · rw [hsigner]; exact h.hlaws.verify_sign _ _ _ _

/-- END TO END, RSA signed (plain signed, with HMAC / key store, or encrypted - same statement through the respective
    acceptance theorem): with a certificate block exported by the C03 model whose RKH table is the one
    `CertBlockV1.set_root_key_hash` computes from the root keys `ks`, the ROM fused with `Spec.rotkh … cert_block_1 ks`
    accepts the image; the obligations left are the X.509 chain over the certificates of the block and the RSA signature
    over the signed prefix -/
theorem rom_accepts_signed_v1_built (h : Mbi.Hyp co env c cfg signer) (hf : c.family = some .signedV1) (ht : signedTypeOk c = true)
    (ks : List Key) (hk : KeysOK .certBlock1 ks) (certOk : Mbi.Bytes → Bool) (cb : CertBlockV1) (wf : WFv1 certOk cb)
    (rwf : RomWFv1 cb) (hrkh : certBlockV1Rkh co ks = .ok cb.rkh) (hcert : cfg.cert = bytesV1 cb) :
    ∃ e a last, exportImage co c cfg signer = .ok e
      ∧ Spec.MbiRom.romCheck co (romEnvOf c (Spec.rotkh co .certBlock1 ks) cfg.hmacKey) e = .ok a
      ∧ ((relCerts cb.certs 32).map (fun p => (appLen c cfg + p.1, p.2))).getLast? = some last
      ∧ a.obligations = [.x509Chain ((relCerts cb.certs 32).map (fun p => (appLen c cfg + p.1, p.2))) (pad4 cb.rkh),
                         .rsaByCert last (totalLenForCertBlock c cfg).toNat] := by
  have hrom := built_v1_block_accepted co h.hlaws ks hk wf rwf hrkh (romEnvOf c (Spec.rotkh co .certBlock1 ks) cfg.hmacKey) rfl
  rw [← hcert] at hrom
  obtain ⟨e, a, last, he, hacc, hl, hob, _⟩ := Mbi.rom_accepts_signedV1 h hf ht _ _ _ hrom
  exact ⟨e, a, last, he, hacc, hl, hob⟩

theorem rom_accepts_encrypted_built (h : Mbi.Hyp co env c cfg signer) (hf : c.family = some .encrypted) (ht : signedTypeOk c = true)
    (ks : List Key) (hk : KeysOK .certBlock1 ks) (certOk : Mbi.Bytes → Bool) (cb : CertBlockV1) (wf : WFv1 certOk cb)
    (rwf : RomWFv1 cb) (hrkh : certBlockV1Rkh co ks = .ok cb.rkh) (hcert : cfg.cert = bytesV1 cb) :
    ∃ e a raw, exportImage co c cfg signer = .ok e ∧ collect c cfg = .ok raw
      ∧ Spec.MbiRom.romCheck co (romEnvOf c (Spec.rotkh co .certBlock1 ks) cfg.hmacKey) e = .ok a
      ∧ a.plain = some raw := by
  have hrom := built_v1_block_accepted co h.hlaws ks hk wf rwf hrkh (romEnvOf c (Spec.rotkh co .certBlock1 ks) cfg.hmacKey) rfl
  rw [← hcert] at hrom
  obtain ⟨e, a, raw, he, hc, hacc, hp, _⟩ := Mbi.rom_accepts_encrypted h hf ht _ _ _ hrom
  exact ⟨e, a, raw, he, hc, hacc, hp⟩


end SpsdkVerif.Mbi.Built
