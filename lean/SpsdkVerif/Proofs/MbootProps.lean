/- Helper lemmas for the property-decoding part of Properties/C10.lean. -/
import SpsdkVerif.Model.MbootProps

namespace SpsdkVerif.MbootProps
open SpsdkVerif

theorem shr_mod (v k : Nat) : (v >>> k) % 256 = v / 2 ^ k % 256 := by rw [Nat.shiftRight_eq_div_pow]

/-- `major << 16 | minor << 8 | fixation` for byte-sized fields -/
theorem pack3 (a b c : Nat) (hb : b < 256) (hc : c < 256) :
    (a <<< 16 ||| b <<< 8 ||| c) = a * 65536 + b * 256 + c := by
  have e1 : a <<< 16 ||| b <<< 8 = a <<< 16 + b <<< 8 :=
    (Nat.shiftLeft_add_eq_or_of_lt (i := 16) (by rw [Nat.shiftLeft_eq]; omega) a).symm
  have e2 : a <<< 16 + b <<< 8 = (a * 256 + b) <<< 8 := by
    simp only [Nat.shiftLeft_eq]; omega
  rw [e1, e2, ← Nat.shiftLeft_add_eq_or_of_lt (i := 8) (by omega), Nat.shiftLeft_eq]
  omega

theorem pack4 (m a b c : Nat) (ha : a < 256) (hb : b < 256) (hc : c < 256) :
    (a <<< 16 ||| b <<< 8 ||| c) ||| m <<< 24 = m * 16777216 + a * 65536 + b * 256 + c := by
  rw [pack3 a b c hb hc, Nat.or_comm, ← Nat.shiftLeft_add_eq_or_of_lt (by omega), Nat.shiftLeft_eq]
  omega

theorem fromInt_fields (v : Nat) :
    (Version.fromInt v).major < 256 ∧ (Version.fromInt v).minor < 256 ∧ (Version.fromInt v).fixation < 256 ∧
    ∀ m, (Version.fromInt v).mark = some m → 64 < m ∧ m < 91 := by
  refine ⟨Nat.mod_lt _ (by decide), Nat.mod_lt _ (by decide), Nat.mod_lt _ (by decide), ?_⟩
  intro m hm
  simp only [Version.fromInt] at hm
  split at hm
  · cases hm; assumption
  · cases hm

/-- a version word whose mark byte is an upper-case letter (or zero) is reported exactly as the device sent it -/
theorem toInt_fromInt (v : Nat) (hv : v < 4294967296)
    (hm : (64 < v / 16777216 ∧ v / 16777216 < 91) ∨ v / 16777216 = 0) :
    (Version.fromInt v).toInt = v := by
  have hmm : (v >>> 24) % 256 = v / 16777216 := by
    rw [Nat.shiftRight_eq_div_pow]; omega
  have h16 : (v >>> 16) % 256 = v / 65536 % 256 := by rw [Nat.shiftRight_eq_div_pow]
  have h8 : (v >>> 8) % 256 = v / 256 % 256 := by rw [Nat.shiftRight_eq_div_pow]
  simp only [Version.toInt, Version.fromInt, hmm, h16, h8, Bool.false_eq_true, if_false]
  rcases hm with hm | hm
  · simp only [hm, and_self, if_true]
    rw [pack4 _ _ _ _ (Nat.mod_lt _ (by decide)) (Nat.mod_lt _ (by decide)) (Nat.mod_lt _ (by decide))]
    omega
  · have : ¬ (64 < v / 16777216 ∧ v / 16777216 < 91) := by omega
    simp only [this, if_false, Nat.or_zero]
    rw [pack3 _ _ _ (Nat.mod_lt _ (by decide)) (Nat.mod_lt _ (by decide))]
    omega

/-- without the mark a version is `major·2^16 + minor·2^8 + fixation`: the ordering is lexicographic -/
theorem toInt_noMark (x : Version) (hb : x.minor < 256) (hc : x.fixation < 256) :
    x.toInt true = x.major * 65536 + x.minor * 256 + x.fixation := by
  simp only [Version.toInt, if_true, Nat.or_zero]
  exact pack3 _ _ _ hb hc

theorem mem_commandTagsOf (all : List Nat) (v t : Nat) :
    t ∈ commandTagsOf all v ↔ t ∈ all ∧ 0 < t ∧ v.testBit (t - 1) = true := by
  simp [commandTagsOf, List.mem_filter]

theorem mem_peripheralsOf (all : List Nat) (v t : Nat) :
    t ∈ peripheralsOf all v ↔ t ∈ all ∧ t &&& v ≠ 0 := by
  simp [peripheralsOf, List.mem_filter]

/-- an even number of words: exactly the pairs with a non-zero end, in order -/
theorem regionsOf_pairs (ps : List (Nat × Nat)) :
    regionsOf (ps.flatMap (fun q => [q.1, q.2])) = .ok (ps.filter (fun q => q.2 ≠ 0)) := by
  induction ps with
  | nil => rfl
  | cons q r ih =>
    simp only [List.flatMap_cons, List.cons_append, List.nil_append, regionsOf, ih]
    by_cases h : q.2 = 0 <;> simp [h]

/-- an odd number of words is refused (`IndexError`) -/
theorem regionsOf_odd (ps : List (Nat × Nat)) (x : Nat) :
    regionsOf (ps.flatMap (fun q => [q.1, q.2]) ++ [x]) = .error .other := by
  induction ps with
  | nil => rfl
  | cons q r ih => simp only [List.flatMap_cons, List.cons_append, List.nil_append, regionsOf, ih]

def fromLe4 : List UInt8 → List Nat
  | a :: b :: c :: d :: r => (a.toNat + 256 * b.toNat + 65536 * c.toNat + 16777216 * d.toNat) :: fromLe4 r
  | _ => []

/-- the UID bytes are exactly the device's words, little endian, in order -/
theorem fromLe4_uidBytes (raw : List Nat) (h : ∀ w ∈ raw, w < 4294967296) : fromLe4 (uidBytes raw) = raw := by
  induction raw with
  | nil => rfl
  | cons w r ih =>
    have hw := h w (by simp)
    simp only [uidBytes, List.flatMap_cons, le4, List.cons_append, List.nil_append, fromLe4]
    have := ih (fun q hq => h q (by simp [hq]))
    simp only [uidBytes] at this
    rw [this]
    congr 1
    simp only [UInt8.toNat_ofNat']
    omega

end SpsdkVerif.MbootProps
