/-
Helper lemmas for the same-directory rebuild part of Properties/C17.lean (model: Model/FreshFile.lean).
-/
import SpsdkVerif.Model.FreshFile

namespace SpsdkVerif.Fresh

/-- invariant when the explicit flag decides: every non-reuse build drew its value, all of them below the counter -/
def FInv (s : FSt) : Prop :=
  (∀ a ∈ s.arts, a.reuse = false → ∃ t, a.val = .chosen t ∧ t < s.next) ∧
  (s.arts.filter (fun a => !a.reuse)).Pairwise (fun a b => a.val ≠ b.val)

theorem finv_step (s : FSt) (hI : FInv s) (st : FStep) : FInv (fstep .flag s st) := by
  cases st with
  | place u => exact hI
  | remove => exact hI
  | build reuse =>
    cases reuse with
    | true =>
      simp only [fstep]
      cases hf : s.file with
      | none => simpa [hf] using hI
      | some v =>
        simp only [if_true]
        refine ⟨?_, ?_⟩
        · intro a ha hr
          simp only [List.mem_cons] at ha
          rcases ha with rfl | ha
          · cases hr
          · exact hI.1 a ha hr
        · simpa [List.filter] using hI.2
    | false =>
      simp only [fstep, draw]
      refine ⟨?_, ?_⟩
      · intro a ha hr
        simp only [Bool.false_eq_true, if_false, List.mem_cons] at ha
        rcases ha with rfl | ha
        · exact ⟨s.next, rfl, Nat.lt_succ_self _⟩
        · obtain ⟨t, ht, hlt⟩ := hI.1 a ha hr
          exact ⟨t, ht, Nat.lt_succ_of_lt hlt⟩
      · simp only [Bool.false_eq_true, if_false, List.filter, Bool.not_false]
        refine List.Pairwise.cons ?_ hI.2
        intro b hb hEq
        have hb' := List.mem_filter.mp hb
        have hr : b.reuse = false := by simpa using hb'.2
        obtain ⟨t, ht, hlt⟩ := hI.1 b hb'.1 hr
        rw [ht] at hEq
        cases hEq
        exact Nat.lt_irrefl _ hlt

theorem finv_foldl (h : List FStep) (s : FSt) (hI : FInv s) : FInv (h.foldl (fstep .flag) s) := by
  induction h generalizing s with
  | nil => exact hI
  | cons st rest ih => exact ih _ (finv_step s hI st)

end SpsdkVerif.Fresh
