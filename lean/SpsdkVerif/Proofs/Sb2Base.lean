/-
C04: pure `Nat`/byte-codec lemmas needed by Proofs/Sb2Cmd.lean.
Copies of `beDec_beEnc_mod`, `swap16_nat`, `bitLenF_le` from Proofs/Misc.lean (C20) — kept here so that the C04
obligations do not depend on Proofs/Misc.lean, which also contains lemmas about the *generated* integer helpers of
C20 (`Generated/PyFuns.lean`): a change of `align`/`check_range`/… in /repo must not stop the C04 theorems from compiling.
Core Lean only.
-/
import SpsdkVerif.Model.Misc

namespace SpsdkVerif.Sb2.Base
open SpsdkVerif SpsdkVerif.Misc

theorem beDec_append_single (l : Bytes) (x : UInt8) : beDec (l ++ [x]) = beDec l * 256 + x.toNat := by
  simp [beDec, List.foldl_append]

theorem beDec_beEnc_mod (n v : Nat) : beDec (beEnc n v) = v % 256 ^ n := by
  induction n generalizing v with
  | zero => simp [beEnc, beDec, Nat.mod_one]
  | succ n ih =>
    rw [beEnc, beDec_append_single, ih, UInt8.toNat_ofNat']
    have hp : 256 ^ (n + 1) = 256 * 256 ^ n := by rw [Nat.pow_succ, Nat.mul_comm]
    rw [hp, Nat.mod_mul]
    generalize v / 256 % 256 ^ n = q
    omega

theorem swap16_nat (k : Nat) (h : k < 65536) :
    ((k <<< 8) &&& 65280) ||| ((k >>> 8) &&& 255) = k % 256 * 256 + k / 256 := by
  have e1 : (k <<< 8) &&& 65280 = (k % 256) <<< 8 := by
    have : (65280 : Nat) = 255 <<< 8 := by decide
    rw [this, ← Nat.shiftLeft_and_distrib]
    have : (255 : Nat) = 2 ^ 8 - 1 := by decide
    rw [this, Nat.and_two_pow_sub_one_eq_mod]
  have e2 : (k >>> 8) &&& 255 = k / 256 := by
    have : (255 : Nat) = 2 ^ 8 - 1 := by decide
    rw [this, Nat.and_two_pow_sub_one_eq_mod, Nat.shiftRight_eq_div_pow]
    omega
  rw [e1, e2, ← Nat.shiftLeft_add_eq_or_of_lt (by omega), Nat.shiftLeft_eq]

theorem bitLenF_le (f x n : Nat) (h : x < 2 ^ n) : bitLenF f x ≤ n := by
  induction f generalizing x n with
  | zero => simp [bitLenF]
  | succ f ih =>
    by_cases hx : x = 0
    · simp [bitLenF, hx]
    · simp only [bitLenF, hx, if_false]
      cases n with
      | zero => simp at h; omega
      | succ m =>
        have := ih (x / 2) m (by rw [Nat.pow_succ] at h; omega)
        omega

end SpsdkVerif.Sb2.Base
