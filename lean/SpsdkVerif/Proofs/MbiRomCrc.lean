/-
C02 for the plain / CRC family: the independent ROM model (Spec/MbiRom.lean) accepts what the model exports, and the
CRC covers the image with exactly the CRC word excluded.
-/
import SpsdkVerif.Proofs.MbiRomFlags
import SpsdkVerif.Proofs.MbiPlain
import SpsdkVerif.Proofs.MbiRomDefs

namespace SpsdkVerif.Mbi
open SpsdkVerif SpsdkVerif.Misc SpsdkVerif.Crypto
open SpsdkVerif.Generated.IvtConsts
open SpsdkVerif.Generated.MbiClasses (MixinName Method Attr provider attrs preParsed isData parent countInLegacyCertBlockLen)

variable {co : CryptoOps} {env : Env} {c : Cls} {cfg : Cfg} {signer : Signer}

/-- only the plain family has CRC classes -/
theorem romcrc_family (h : Hyp co env c cfg signer) (hs : c.signKind = .crc) : c.family = some .plain := by
  have hw := h.hcls
  rcases family_cases h with hf | hf | hf | hf
  · exact hf
  all_goals
    exfalso
    unfold ClassWF at hw
    simp only [hf, hs, Bool.and_eq_true] at hw
    simp at hw

/-- the facts about the exported image the ROM looks at -/
theorem romcrc_facts (hc : PlainCls c) (hk : PlainCfg c cfg) (K : Nat) (hK : K < 2 ^ 32) :
    Spec.MbiRom.rd32 (plainImg c cfg K) Spec.MbiRom.offFlags = flagsOf c cfg
    ∧ Spec.MbiRom.rd32 (plainImg c cfg K) Spec.MbiRom.offTotalLength
        = (if c.zeroTotalLength then 0 else (plainImg c cfg K).length)
    ∧ Spec.MbiRom.rd32 (plainImg c cfg K) Spec.MbiRom.offCrcOrCert = (if c.imageType = 0 then 0 else K)
    ∧ flagsOf c cfg &&& Spec.MbiRom.maskImageType = c.imageType
    ∧ (flagsOf c cfg >>> Spec.MbiRom.shiftTzType) &&& Spec.MbiRom.maskTzType ≤ 2
    ∧ Spec.MbiRom.ivtSize ≤ (plainImg c cfg K).length := by
  obtain ⟨w1, w2, w3, _⟩ := plainImg_words hc hk K hK
  refine ⟨w2, ?_, w3, ?_, ?_, ?_⟩
  · rw [plainImg_length' hc hk]; exact w1
  · have h := flags_fields c.imageType cfg.tz.tag cfg.subType cfg.imageVersion 0
      c.hasTrustZone (c.hasAttr .image_subtype) (c.hasAttr .user_hw_key_enabled) cfg.hwKey (c.hasAttr .key_store)
      (none : Option Bytes).isSome (c.hasAttr .app_table) cfg.reloc.isSome (c.hasAttr .image_version)
      (c.hasAttr .image_version_to_image_type) true hc.himgType (plain_tzTag_le cfg) hk.hst (plain_imgVer_le hk)
    have h1 := h.1
    unfold flagsOf
    rw [hk.hks]
    exact (rom_type _).trans h1
  · have h := (plain_flag_fields hc hk).1
    rw [rom_tz, h]
    split
    · cases cfg.tz <;> simp [TzCfg.tag, tzEnabled, tzCustom, tzDisabled]
    · omega
  · have := (plain_app_valid hc hk).1
    unfold plainImg
    simp only [List.length_append, plainU_length hc hk, Spec.MbiRom.ivtSize]
    simp only [minIvtSize] at this
    omega

theorem romcrc_input (hc : PlainCls c) (hk : PlainCfg c cfg) (K : Nat) :
    Spec.MbiRom.crcInput (plainImg c cfg K) = plainHead c cfg ++ plainTail c cfg := by
  unfold Spec.MbiRom.crcInput
  show (plainImg c cfg K).take 40 ++ (plainImg c cfg K).drop 44 = _
  rw [plainImg_take hc hk, plainImg_drop hc hk]

theorem romcrc_word (hc : PlainCls c) (hk : PlainCfg c cfg) (hs : c.signKind = .crc) :
    Spec.MbiRom.rd32 (plainImg c cfg (plainK c cfg)) Spec.MbiRom.offCrcOrCert
      = Crc.crc Spec.MbiRom.crcParams (Spec.MbiRom.crcInput (plainImg c cfg (plainK c cfg))) := by
  rw [(romcrc_facts hc hk _ (plainK_lt c cfg)).2.2.1, if_neg (hc.hcrc.mp hs), romcrc_input hc hk]
  unfold plainK
  rw [if_pos hs]
  rfl

/-- the CRC stored in the image is the CRC-32/MPEG-2 (ROM's own parameters) of the image with exactly the four bytes of
    the CRC word removed: the input has 4 bytes less, agrees with the image before the word and behind it -/
theorem crc_excludes_only_itself (h : Hyp co env c cfg signer) (hs : c.signKind = .crc) :
    ∃ e, exportImage co c cfg signer = .ok e
      ∧ Spec.MbiRom.rd32 e Spec.MbiRom.offCrcOrCert = Crc.crc Spec.MbiRom.crcParams (Spec.MbiRom.crcInput e)
      ∧ (Spec.MbiRom.crcInput e).length + 4 = e.length
      ∧ (∀ i, i < 0x28 → (Spec.MbiRom.crcInput e)[i]? = e[i]?)
      ∧ (∀ i, 0x28 ≤ i → (Spec.MbiRom.crcInput e)[i]? = e[i + 4]?) := by
  have hf := romcrc_family h hs
  have hc := plainCls h.hcls hf
  have hk := plainCfg hc h.hcfg
  have hH := plainHead_length hc hk
  refine ⟨_, plain_export hc hk signer, romcrc_word hc hk hs, ?_, ?_, ?_⟩
  · rw [romcrc_input hc hk, plainImg_split hc hk]
    simp only [List.length_append, le32_length]; omega
  · intro i hi
    rw [romcrc_input hc hk, plainImg_split hc hk, List.append_assoc,
      List.getElem?_append_left (by omega), List.getElem?_append_left (by omega)]
  · intro i hi
    rw [romcrc_input hc hk, plainImg_split hc hk, List.getElem?_append_right (by omega),
      List.getElem?_append_right (by simp only [List.length_append, le32_length]; omega)]
    simp only [List.length_append, le32_length, hH]
    congr 1

/-- the checks of `romCheck` in front of the dispatch on the image type pass -/
theorem romcrc_check (hc : PlainCls c) (hk : PlainCfg c cfg) (K : Nat) (hK : K < 2 ^ 32) (rkth : Bytes)
    (uk : Option Bytes) :
    Spec.MbiRom.romCheck co (romEnvOf c rkth uk) (plainImg c cfg K)
      = (if c.imageType == Spec.MbiRom.typePlain then (do
            Spec.MbiRom.need (Spec.MbiRom.rd32 (plainImg c cfg K) Spec.MbiRom.offCrcOrCert == 0)
              "plain image with a CRC / certificate word"
            pure {})
         else if c.imageType == Spec.MbiRom.typeCrcRam ∨ c.imageType == Spec.MbiRom.typeCrcXip
           then Spec.MbiRom.romCrc (plainImg c cfg K)
         else Spec.MbiRom.romCheck co (romEnvOf c rkth uk) (plainImg c cfg K)) := by
  obtain ⟨r1, r2, _, r4, r5, r6⟩ := romcrc_facts hc hk K hK
  by_cases h0 : (c.imageType == Spec.MbiRom.typePlain) = true
  · rw [if_pos h0]
    unfold Spec.MbiRom.romCheck
    have hz : (romEnvOf c rkth uk).zeroTotalLength = c.zeroTotalLength := rfl
    have htl : (if c.zeroTotalLength = true then
        (if c.zeroTotalLength = true then 0 else (plainImg c cfg K).length) == 0
        else (if c.zeroTotalLength = true then 0 else (plainImg c cfg K).length) == (plainImg c cfg K).length) = true := by
      cases c.zeroTotalLength <;> simp
    have htz : decide (((flagsOf c cfg >>> Spec.MbiRom.shiftTzType &&& Spec.MbiRom.maskTzType) == Spec.MbiRom.tzEnabled) = true
        ∨ ((flagsOf c cfg >>> Spec.MbiRom.shiftTzType &&& Spec.MbiRom.maskTzType) == Spec.MbiRom.tzCustom) = true
        ∨ ((flagsOf c cfg >>> Spec.MbiRom.shiftTzType &&& Spec.MbiRom.maskTzType) == Spec.MbiRom.tzDisabled) = true) = true := by
      simp only [Spec.MbiRom.tzEnabled, Spec.MbiRom.tzCustom, Spec.MbiRom.tzDisabled, beq_iff_eq, decide_eq_true_eq]
      omega
    simp only [r1, r2, r4, hz, htl, htz, h0, Spec.MbiRom.need, decide_eq_true r6, if_true, bind, Except.bind]
  · rw [if_neg h0]
    by_cases h1 : (c.imageType == Spec.MbiRom.typeCrcRam) = true ∨ (c.imageType == Spec.MbiRom.typeCrcXip) = true
    · rw [if_pos h1]
      unfold Spec.MbiRom.romCheck
      have hz : (romEnvOf c rkth uk).zeroTotalLength = c.zeroTotalLength := rfl
      have htl : (if c.zeroTotalLength = true then
          (if c.zeroTotalLength = true then 0 else (plainImg c cfg K).length) == 0
          else (if c.zeroTotalLength = true then 0 else (plainImg c cfg K).length) == (plainImg c cfg K).length) = true := by
        cases c.zeroTotalLength <;> simp
      have htz : decide (((flagsOf c cfg >>> Spec.MbiRom.shiftTzType &&& Spec.MbiRom.maskTzType) == Spec.MbiRom.tzEnabled) = true
          ∨ ((flagsOf c cfg >>> Spec.MbiRom.shiftTzType &&& Spec.MbiRom.maskTzType) == Spec.MbiRom.tzCustom) = true
          ∨ ((flagsOf c cfg >>> Spec.MbiRom.shiftTzType &&& Spec.MbiRom.maskTzType) == Spec.MbiRom.tzDisabled) = true) = true := by
        simp only [Spec.MbiRom.tzEnabled, Spec.MbiRom.tzCustom, Spec.MbiRom.tzDisabled, beq_iff_eq, decide_eq_true_eq]
        omega
      simp only [r1, r2, r4, hz, htl, htz, h0, h1, Spec.MbiRom.need, decide_eq_true r6, if_true, bind, Except.bind]
      simp
    · rw [if_neg h1]

/-- the ROM accepts every CRC image the builder exports -/
theorem rom_accepts_crc (h : Hyp co env c cfg signer) (hs : c.signKind = .crc) (ht : crcTypeOk c = true)
    (rkth : Bytes) (uk : Option Bytes) :
    ∃ e a, exportImage co c cfg signer = .ok e ∧ Spec.MbiRom.romCheck co (romEnvOf c rkth uk) e = .ok a := by
  have hf := romcrc_family h hs
  have hc := plainCls h.hcls hf
  have hk := plainCfg hc h.hcfg
  have hty : c.imageType = 2 ∨ c.imageType = 5 := by
    unfold crcTypeOk at ht
    simpa [hs] using ht
  refine ⟨_, { authenticated := [(0, (plainImg c cfg (plainK c cfg)).length)] }, plain_export hc hk signer, ?_⟩
  rw [romcrc_check hc hk _ (plainK_lt c cfg)]
  have h0 : ¬ (c.imageType == Spec.MbiRom.typePlain) = true := by
    simp only [Spec.MbiRom.typePlain, beq_iff_eq]; omega
  have h1 : (c.imageType == Spec.MbiRom.typeCrcRam) = true ∨ (c.imageType == Spec.MbiRom.typeCrcXip) = true := by
    simp only [Spec.MbiRom.typeCrcRam, Spec.MbiRom.typeCrcXip, beq_iff_eq]; exact hty
  rw [if_neg h0, if_pos h1]
  unfold Spec.MbiRom.romCrc
  rw [romcrc_word hc hk hs]
  simp only [beq_self_eq_true, Spec.MbiRom.need, if_true, bind, Except.bind, pure, Except.pure]

/-- … and every plain image (nothing to authenticate: only the header is consistent) -/
theorem rom_accepts_plain (h : Hyp co env c cfg signer) (hf : c.family = some .plain) (ht : c.imageType = 0)
    (rkth : Bytes) (uk : Option Bytes) :
    ∃ e a, exportImage co c cfg signer = .ok e ∧ Spec.MbiRom.romCheck co (romEnvOf c rkth uk) e = .ok a := by
  have hc := plainCls h.hcls hf
  have hk := plainCfg hc h.hcfg
  refine ⟨_, {}, plain_export hc hk signer, ?_⟩
  rw [romcrc_check hc hk _ (plainK_lt c cfg)]
  have h0 : (c.imageType == Spec.MbiRom.typePlain) = true := by
    simp only [Spec.MbiRom.typePlain, beq_iff_eq]; exact ht
  rw [if_pos h0, (romcrc_facts hc hk _ (plainK_lt c cfg)).2.2.1, if_pos ht]
  simp only [beq_self_eq_true, Spec.MbiRom.need, if_true, bind, Except.bind, pure, Except.pure]

end SpsdkVerif.Mbi
