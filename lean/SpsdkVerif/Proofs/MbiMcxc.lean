/-
C01 for the mcxc families (MCX C0xx/C1xx…C4xx): images without IVT whose application carries a boot configuration area
(optional, tag "kcfg", 64 bytes at 0x3C0) and a flash configuration field (16 bytes at 0x400).  The class is the generated
shape [Mbi_MixinApp, Mbi_MixinBca, Mbi_MixinFcf, Mbi_ExportMixinApp] (image type 0, selected through `fixed_image_type`).
-/
import SpsdkVerif.Proofs.MbiBase

namespace SpsdkVerif.Mbi
open SpsdkVerif SpsdkVerif.Misc SpsdkVerif.Crypto
open SpsdkVerif.Generated.IvtConsts
open SpsdkVerif.Generated.MbiClasses (MixinName)

variable {co : CryptoOps} {env : Env} {cfg : Cfg}

/-- the mcxc class of the device database -/
def mcxcClass (c : Cls) : Bool :=
  c.mixins == [.Mbi_MixinApp, .Mbi_MixinBca, .Mbi_MixinFcf, .Mbi_ExportMixinApp] && c.imageType == 0

/-- the tag of a boot configuration area -/
def bcaTag : Bytes := [0x6B, 0x63, 0x66, 0x67]

/-- option set of an mcxc image: application long enough to contain the FCF, accepted by `Mbi_MixinApp.mix_validate`, the FCF
    block given (16 bytes), the BCA block given (64 bytes with the tag) or absent - then the application itself must not
    carry the tag at 0x3C0 -, every setting the class does not have at its default -/
def mcxcCfgWF (cfg : Cfg) : Bool :=
  let a := appData cfg
  a.length ≥ fcfOffset + fcfSize && a.length < 2 ^ 31
  && !(rd32 a 0 == rd32 a 4 && rd32 a 4 == rd32 a 8)
  && (match cfg.fcf with | some f => f.length == fcfSize | none => false)
  && (match cfg.bca with
      | some b => b.length == bcaSize && b.take 4 == bcaTag
      | none => slice a bcaOffset (bcaOffset + 4) != bcaTag)
  && cfg.loadAddress == 0 && cfg.imageVersion == 0 && cfg.subType == 0 && cfg.tz == .enabled && !cfg.hwKey
  && cfg.keyStore.isNone && cfg.hmacKey.isNone && cfg.ctrIv.isEmpty && cfg.reloc.isNone && cfg.cert.isEmpty
  && cfg.sigLen == 0 && cfg.fwVersion == 0 && cfg.digest.isNone

/-- every generated class without IVT and without the mc56 BCA table is this class -/
theorem mcxc_classes_known : ∀ c ∈ allClasses, c.hasAttr .ivt_table = true ∨ c.has .Mbi_MixinBcaTable = true ∨ mcxcClass c = true := by
  decide +kernel


/-! ### a block written into the application (`setAt` with the block inside the data) -/

theorem mcxc_setAt_get (A w : Bytes) (off i : Nat) (h : off + w.length ≤ A.length) (hi : i < off ∨ off + w.length ≤ i) :
    (setAt A off w)[i]? = A[i]? := by
  unfold setAt
  have hl : (A.take off).length = off := by simp only [List.length_take]; omega
  rcases hi with hi | hi
  · rw [List.append_assoc, List.getElem?_append_left (by omega), List.getElem?_take, if_pos hi]
  · rw [List.getElem?_append_right (by simp only [List.length_append, hl]; omega), List.getElem?_drop]
    simp only [List.length_append, hl]
    congr 1; omega

theorem mcxc_setAt_slice (A w : Bytes) (off : Nat) (h : off + w.length ≤ A.length) :
    slice (setAt A off w) off (off + w.length) = w := by
  unfold setAt
  have hl : (A.take off).length = off := by simp only [List.length_take]; omega
  have := slice_append_mid (A.take off) w (A.drop (off + w.length))
  rw [hl] at this
  exact this

theorem mcxc_setAt_drop (A w : Bytes) (off : Nat) (h : off + w.length ≤ A.length) :
    (setAt A off w).drop off = w ++ A.drop (off + w.length) := by
  unfold setAt
  have hl : (A.take off).length = off := by simp only [List.length_take]; omega
  rw [List.append_assoc, List.drop_left' hl]

theorem mcxc_setAt_take (A w : Bytes) (off j : Nat) (h : off + w.length ≤ A.length) (hj : j ≤ off) :
    (setAt A off w).take j = A.take j := by
  unfold setAt
  have hl : (A.take off).length = off := by simp only [List.length_take]; omega
  rw [List.append_assoc, List.take_append_of_le_length (by omega), List.take_take, Nat.min_eq_left hj]

theorem mcxc_setAt_idem (A w : Bytes) (off : Nat) (h : off + w.length ≤ A.length) :
    setAt (setAt A off w) off w = setAt A off w := by
  have hl : (A.take off).length = off := by simp only [List.length_take]; omega
  conv => lhs; arg 1; unfold setAt
  exact setAt_mid (A.take off) w (A.drop (off + w.length)) w off hl rfl

theorem mcxc_setAt_rd32 (A w : Bytes) (off k : Nat) (h : off + w.length ≤ A.length) (hk : k + 4 ≤ off) :
    rd32 (setAt A off w) k = rd32 A k := by
  unfold rd32
  congr 1
  apply List.ext_getElem?
  intro i
  simp only [List.getElem?_take, List.getElem?_drop]
  split
  · exact mcxc_setAt_get A w off _ h (Or.inl (by omega))
  · rfl


/-! ### the class -/

open SpsdkVerif.Generated.MbiClasses (Method Attr provider attrs preParsed isData parent) in
/-- the class with its TrustZone preset size left open -/
def mcxcCls (tz : Nat) : Cls := ⟨0, [.Mbi_MixinApp, .Mbi_MixinBca, .Mbi_MixinFcf, .Mbi_ExportMixinApp], tz⟩

theorem mcxc_cls_eq (c : Cls) (hc : mcxcClass c = true) : c = mcxcCls c.tzSize := by
  unfold mcxcClass at hc
  simp only [Bool.and_eq_true, beq_iff_eq] at hc
  cases c
  simp only at hc
  simp [mcxcCls, hc.1, hc.2]

section facts
open SpsdkVerif.Generated.MbiClasses (Method Attr)
variable (tz : Nat)

theorem mcxc_res_collect : (mcxcCls tz).resolve .collect_data = some .Mbi_ExportMixinApp := rfl
theorem mcxc_res_dis : (mcxcCls tz).resolve .disassemble_image = some .Mbi_ExportMixinApp := rfl
theorem mcxc_res_enc : (mcxcCls tz).resolve .encrypt = none := rfl
theorem mcxc_res_penc : (mcxcCls tz).resolve .post_encrypt = none := rfl
theorem mcxc_res_fin : (mcxcCls tz).resolve .finalize = none := rfl
theorem mcxc_signKind : (mcxcCls tz).signKind = .none := rfl
theorem mcxc_dataMixins : (mcxcCls tz).dataMixins = [.Mbi_MixinApp, .Mbi_MixinBca, .Mbi_MixinFcf] := rfl
theorem mcxc_parseOrder : parseOrder (mcxcCls tz) = some [.Mbi_MixinApp, .Mbi_MixinBca, .Mbi_MixinFcf] := rfl
theorem mcxc_attr_ivt : (mcxcCls tz).hasAttr .ivt_table = false := rfl
theorem mcxc_attr_clean : (mcxcCls tz).hasAttr .clean_ivt = false := rfl
theorem mcxc_attr_bca : (mcxcCls tz).hasAttr .bca = true := rfl
theorem mcxc_attr_fcf : (mcxcCls tz).hasAttr .fcf = true := rfl
theorem mcxc_attr_tab : (mcxcCls tz).hasAttr .app_table = false := rfl
theorem mcxc_attr_dis : (mcxcCls tz).hasAttr .disassembly_app_data = false := rfl
theorem mcxc_flags (cfg : Cfg) : flagsOf (mcxcCls tz) cfg = 0 := by
  have h1 : (mcxcCls tz).hasTrustZone = false := rfl
  have h2 : (mcxcCls tz).hasAttr .image_subtype = false := rfl
  have h3 : (mcxcCls tz).hasAttr .user_hw_key_enabled = false := rfl
  have h4 : (mcxcCls tz).hasAttr .key_store = false := rfl
  have h5 : (mcxcCls tz).hasAttr .image_version = false := rfl
  have h6 : (mcxcCls tz).hasAttr .image_version_to_image_type = false := rfl
  have h7 : (mcxcCls tz).imageType = 0 := rfl
  unfold flagsOf
  rw [h1, h2, h3, h4, h5, h6, h7, mcxc_attr_tab]
  simp [createFlags]

end facts


/-! ### the configuration -/

structure McxcCfg (cfg : Cfg) : Prop where
  hlen : fcfOffset + fcfSize ≤ (appData cfg).length
  hlt : (appData cfg).length < 2 ^ 31
  hwords : ¬ (rd32 (appData cfg) 0 = rd32 (appData cfg) 4 ∧ rd32 (appData cfg) 4 = rd32 (appData cfg) 8)
  hfcf : ∃ f, cfg.fcf = some f ∧ f.length = fcfSize
  hbca : (∃ b, cfg.bca = some b ∧ b.length = bcaSize ∧ b.take 4 = bcaTag)
          ∨ (cfg.bca = none ∧ slice (appData cfg) bcaOffset (bcaOffset + 4) ≠ bcaTag)
  hla : cfg.loadAddress = 0
  hiv : cfg.imageVersion = 0
  hst : cfg.subType = 0
  htz : cfg.tz = .enabled
  hhw : cfg.hwKey = false
  hks : cfg.keyStore = none
  hhmac : cfg.hmacKey = none
  hctr : cfg.ctrIv = []
  hreloc : cfg.reloc = none
  hcert : cfg.cert = []
  hsig : cfg.sigLen = 0
  hfw : cfg.fwVersion = 0
  hdig : cfg.digest = none

theorem mcxcCfg_of (cfg : Cfg) (hw : mcxcCfgWF cfg = true) : McxcCfg cfg := by
  unfold mcxcCfgWF at hw
  simp only [Bool.and_eq_true] at hw
  obtain ⟨⟨⟨⟨⟨⟨⟨⟨⟨⟨⟨⟨⟨⟨⟨⟨⟨a1, a2⟩, a3⟩, a4⟩, a5⟩, a6⟩, a7⟩, a8⟩, a9⟩, a10⟩, a11⟩, a12⟩, a13⟩, a14⟩, a15⟩, a16⟩, a17⟩,
    a18⟩ := hw
  refine { hlen := by simpa using a1, hlt := by simpa using a2, hwords := ?_, hfcf := ?_, hbca := ?_,
           hla := by simpa using a6, hiv := by simpa using a7, hst := by simpa using a8, htz := by simpa using a9,
           hhw := by simpa using a10, hks := by simpa using a11, hhmac := by simpa using a12,
           hctr := by simpa using a13, hreloc := by simpa using a14, hcert := by simpa using a15,
           hsig := by simpa using a16, hfw := by simpa using a17, hdig := by simpa using a18 }
  · intro ⟨x1, x2⟩
    rw [x1, x2] at a3
    simp at a3
  · cases hf : cfg.fcf with
    | none => rw [hf] at a4; simp at a4
    | some f => rw [hf] at a4; exact ⟨f, rfl, by simpa using a4⟩
  · cases hb : cfg.bca with
    | none => rw [hb] at a5; right; exact ⟨rfl, by simpa using a5⟩
    | some b => rw [hb] at a5; left; exact ⟨b, rfl, by simpa using a5⟩

/-- where the blocks go and what is written there -/
def mcxcOff (cfg : Cfg) : Nat := if cfg.bca.isSome then bcaOffset else fcfOffset
def mcxcBlk (cfg : Cfg) : Bytes := cfg.bca.getD [] ++ cfg.fcf.getD []
def mcxcImg (cfg : Cfg) : Bytes := setAt (appData cfg) (mcxcOff cfg) (mcxcBlk cfg)

theorem mcxc_blk (h : McxcCfg cfg) :
    mcxcOff cfg + (mcxcBlk cfg).length = fcfOffset + fcfSize
    ∧ (cfg.bca.getD []).length = (if cfg.bca.isSome then bcaSize else 0) ∧ (cfg.fcf.getD []).length = fcfSize := by
  obtain ⟨f, hf, hfl⟩ := h.hfcf
  unfold mcxcOff mcxcBlk
  rcases h.hbca with ⟨b, hb, hbl, _⟩ | ⟨hb, _⟩
  · simp [hb, hf, hbl, hfl, bcaOffset, bcaSize, fcfOffset, fcfSize]
  · simp [hb, hf, hfl]


/-! ### export -/

theorem mcxc_validate (tz : Nat) (h : McxcCfg cfg) : validate (mcxcCls tz) cfg = .ok () := by
  obtain ⟨f, hf, _⟩ := h.hfcf
  have hl := h.hlen
  have hw := h.hwords
  unfold validate
  rw [mcxc_dataMixins]
  have h1 : ¬ (appData cfg).length < minAppSize := by
    simp only [fcfOffset, fcfSize] at hl; simp only [minAppSize]; omega
  simp [List.forM, validateMixin, SpsdkVerif.Generated.MbiClasses.provider, h1, hw, hf, bind, Except.bind, pure, Except.pure]

theorem mcxc_totalLen (tz : Nat) (cfg : Cfg) :
    totalLen (mcxcCls tz) cfg = (((appData cfg).length + (if cfg.bca.isSome then bcaSize else 0)
      + (if cfg.fcf.isSome then fcfSize else 0) : Nat) : Int) := by
  unfold totalLen
  rw [mcxc_dataMixins]
  simp [mixLen, mixLenOf, SpsdkVerif.Generated.MbiClasses.provider]
  split <;> split <;> omega

theorem mcxc_packGuard (tz : Nat) (h : McxcCfg cfg) : packGuard (mcxcCls tz) cfg = .ok () := by
  have hlt := h.hlt
  unfold packGuard
  rw [mcxc_totalLen, mcxc_flags, h.hsig, h.hla, h.hfw]
  rw [if_neg]
  simp only [bcaSize, fcfSize, encIvtCopySize, encIvSize]
  split <;> split <;> omega

theorem mcxc_collectApp (tz : Nat) (h : McxcCfg cfg) : collectApp (mcxcCls tz) cfg = .ok (mcxcImg cfg) := by
  obtain ⟨f, hf, hfl⟩ := h.hfcf
  obtain ⟨hb1, hb2, hb3⟩ := mcxc_blk h
  have hl := h.hlen
  have hne : (appData cfg).isEmpty = false := by
    cases ha : appData cfg with
    | nil => rw [ha] at hl; simp [fcfOffset, fcfSize] at hl
    | cons a l => rfl
  unfold collectApp
  simp only [hne, mcxc_attr_ivt, mcxc_attr_bca, mcxc_attr_fcf, mcxc_attr_tab, Bool.true_and, Bool.false_eq_true,
    if_false, hf, Option.isSome_some, Bool.or_true, if_true]
  unfold mcxcImg setAt mcxcBlk mcxcOff
  rw [hf]
  simp only [Option.getD_some, List.length_append, hb2]
  cases hb : cfg.bca with
  | none => simp [hfl]
  | some b => simp [Nat.add_assoc, hfl]

theorem mcxc_export (tz : Nat) (h : McxcCfg cfg) (signer : Signer) :
    exportImage co (mcxcCls tz) cfg signer = .ok (mcxcImg cfg) := by
  unfold exportImage
  simp only [mcxc_validate tz h, mcxc_packGuard tz h, collect, mcxc_res_collect, mcxc_collectApp tz h, bind, Except.bind,
    encryptStage, mcxc_res_enc, postEncryptStage, mcxc_res_penc, signStage, mcxc_signKind, finalizeStage, mcxc_res_fin]


/-! ### the image -/

theorem mcxcImg_length (h : McxcCfg cfg) : (mcxcImg cfg).length = (appData cfg).length := by
  have := (mcxc_blk h).1
  have := h.hlen
  exact setAt_length _ _ _ (by omega)

theorem mcxcImg_drop_fcf (h : McxcCfg cfg) :
    (mcxcImg cfg).drop fcfOffset = cfg.fcf.getD [] ++ (appData cfg).drop (fcfOffset + fcfSize) := by
  obtain ⟨hb1, hb2, hb3⟩ := mcxc_blk h
  have hl := h.hlen
  have hd := mcxc_setAt_drop (appData cfg) (mcxcBlk cfg) (mcxcOff cfg) (by omega)
  rw [hb1] at hd
  unfold mcxcImg
  rcases h.hbca with ⟨b, hb, hbl, _⟩ | ⟨hb, _⟩
  · have ho : mcxcOff cfg = bcaOffset := by simp [mcxcOff, hb]
    have hk : mcxcBlk cfg = b ++ cfg.fcf.getD [] := by simp [mcxcBlk, hb]
    rw [ho, hk] at hd ⊢
    have : fcfOffset = bcaOffset + b.length := by rw [hbl]; rfl
    rw [this, ← List.drop_drop, hd, List.append_assoc, List.drop_left, ← this]
  · have ho : mcxcOff cfg = fcfOffset := by simp [mcxcOff, hb]
    have hk : mcxcBlk cfg = cfg.fcf.getD [] := by simp [mcxcBlk, hb]
    rw [ho, hk] at hd ⊢
    exact hd

theorem mcxc_parseBca (h : McxcCfg cfg) :
    (if ((mcxcImg cfg).drop bcaOffset).length ≥ bcaSize ∧ ((mcxcImg cfg).drop bcaOffset).take 4 = [0x6B, 0x63, 0x66, 0x67]
      then some (((mcxcImg cfg).drop bcaOffset).take bcaSize) else none) = cfg.bca := by
  obtain ⟨hb1, hb2, hb3⟩ := mcxc_blk h
  have hl := h.hlen
  have hlen := mcxcImg_length h
  rcases h.hbca with ⟨b, hb, hbl, hbt⟩ | ⟨hb, hbt⟩
  · have ho : mcxcOff cfg = bcaOffset := by simp [mcxcOff, hb]
    have hk : mcxcBlk cfg = b ++ cfg.fcf.getD [] := by simp [mcxcBlk, hb]
    have hd := mcxc_setAt_drop (appData cfg) (mcxcBlk cfg) (mcxcOff cfg) (by omega)
    rw [ho, hk, List.append_assoc] at hd
    have hd' : (mcxcImg cfg).drop bcaOffset = b ++ (cfg.fcf.getD [] ++ (appData cfg).drop (bcaOffset + (b ++ cfg.fcf.getD []).length)) := by
      unfold mcxcImg; rw [ho, hk]; exact hd
    have h1 : ((mcxcImg cfg).drop bcaOffset).take 4 = b.take 4 := by
      rw [hd', List.take_append_of_le_length (by rw [hbl]; decide)]
    have h2 : ((mcxcImg cfg).drop bcaOffset).take bcaSize = b := by
      rw [hd', ← hbl, List.take_left]
    have h3 : ((mcxcImg cfg).drop bcaOffset).length ≥ bcaSize := by
      rw [List.length_drop, hlen]; simp only [fcfOffset, fcfSize, bcaOffset, bcaSize] at *; omega
    rw [h1, h2, hbt, hb, if_pos ⟨h3, rfl⟩]
  · have ho : mcxcOff cfg = fcfOffset := by simp [mcxcOff, hb]
    have h1 : ((mcxcImg cfg).drop bcaOffset).take 4 = slice (appData cfg) bcaOffset (bcaOffset + 4) := by
      unfold slice
      rw [List.take_drop]
      unfold mcxcImg
      rw [mcxc_setAt_take _ _ _ _ (by omega) (by rw [ho]; decide)]
    rw [h1, hb, if_neg]
    intro ⟨_, h4⟩
    exact hbt h4


/-! ### parse -/

theorem mcxc_mixParseAll (tz : Nat) (h : McxcCfg cfg) (dek : Option Bytes) :
    mixParseAll env (mcxcCls tz) dek (mcxcImg cfg) = .ok { bca := cfg.bca, fcf := cfg.fcf } := by
  obtain ⟨f, hf, hfl⟩ := h.hfcf
  have hb := mcxc_parseBca h
  have hd := mcxcImg_drop_fcf h
  rw [hf] at hd
  simp only [Option.getD_some] at hd
  have h1 : ¬ ((mcxcImg cfg).drop fcfOffset).length < fcfSize := by
    rw [hd, List.length_append, hfl]; omega
  have h2 : ((mcxcImg cfg).drop fcfOffset).take fcfSize = f := by
    rw [hd, ← hfl, List.take_left]
  unfold mixParseAll
  rw [mcxc_parseOrder]
  simp only [List.foldlM, mixParse, SpsdkVerif.Generated.MbiClasses.provider, bind, Except.bind, pure, Except.pure, hb, h1,
    h2, if_false, hf]

theorem mcxc_canon (tz : Nat) (h : McxcCfg cfg) (dek : Option Bytes) :
    canon (mcxcCls tz) cfg dek = { app := some (mcxcImg cfg), bca := cfg.bca, fcf := cfg.fcf } := by
  have hcfg : ({ cfg with reloc := none } : Cfg) = cfg := by
    have := h.hreloc
    cases cfg; simp_all
  have g1 : (mcxcCls tz).has .Mbi_MixinLoadAddress = false := rfl
  have g2 : (mcxcCls tz).has .Mbi_MixinImageVersion = false := rfl
  have g3 : (mcxcCls tz).has .Mbi_MixinImageSubType = false := rfl
  have g4 : (mcxcCls tz).hasTrustZone = false := rfl
  have g5 : (mcxcCls tz).has .Mbi_MixinHwKey = false := rfl
  have g6 : (mcxcCls tz).has .Mbi_MixinKeyStore = false := rfl
  have g7 : (mcxcCls tz).has .Mbi_MixinHmac = false := rfl
  have g8 : (mcxcCls tz).has .Mbi_MixinCtrInitVector = false := rfl
  have g9 : (mcxcCls tz).has .Mbi_MixinRelocTable = false := rfl
  have g10 : (mcxcCls tz).has .Mbi_MixinCertBlockV1 = false := rfl
  have g11 : (mcxcCls tz).has .Mbi_MixinCertBlockV21 = false := rfl
  have g12 : (mcxcCls tz).manifestKind = none := rfl
  have g13 : (mcxcCls tz).has .Mbi_MixinBca = true := rfl
  have g14 : (mcxcCls tz).has .Mbi_MixinFcf = true := rfl
  unfold canon
  simp only [hcfg, mcxc_attr_clean, mcxc_collectApp tz h, g1, g2, g3, g4, g5, g6, g7, g8, g9, g10, g11, g12, g13, g14,
    Bool.false_eq_true, if_false, if_true, Bool.false_and, Option.isSome_none]
  simp

theorem mcxc_parse (tz : Nat) (h : McxcCfg cfg) (dek : Option Bytes) :
    parseImage co env (mcxcCls tz) dek (mcxcImg cfg) = .ok (canon (mcxcCls tz) cfg dek) := by
  have hal : align4 (mcxcImg cfg) = mcxcImg cfg := by
    apply align4_of_aligned
    rw [mcxcImg_length h]
    exact align4_length_mod _
  unfold parseImage
  rw [mcxc_mixParseAll tz h dek, mcxc_canon tz h dek]
  simp only [bind, Except.bind, pure, Except.pure, finalizeRevert, mcxc_res_fin, signRevert, mcxc_signKind,
    postEncryptRevert, mcxc_res_penc, encryptRevert, mcxc_res_enc, disassemble, mcxc_res_dis, disassemblyAppData,
    mcxc_attr_dis, mcxc_attr_clean, Bool.false_eq_true, if_false, hal]


/-! ### re-export -/

/-- the builder's view of the parsed image -/
def mcxcCfg2 (cfg : Cfg) : Cfg := ({ app := some (mcxcImg cfg), bca := cfg.bca, fcf := cfg.fcf } : Parsed).toCfg

theorem mcxc_off_ge (cfg : Cfg) : bcaOffset ≤ mcxcOff cfg := by
  unfold mcxcOff; split <;> decide

theorem mcxc_appData2 (h : McxcCfg cfg) : appData (mcxcCfg2 cfg) = mcxcImg cfg := by
  show align4 (mcxcImg cfg) = mcxcImg cfg
  apply align4_of_aligned
  rw [mcxcImg_length h]
  exact align4_length_mod _

theorem mcxcCfg_2 (h : McxcCfg cfg) : McxcCfg (mcxcCfg2 cfg) := by
  obtain ⟨hb1, _, _⟩ := mcxc_blk h
  have hl := h.hlen
  have hge := mcxc_off_ge cfg
  have hin : mcxcOff cfg + (mcxcBlk cfg).length ≤ (appData cfg).length := by omega
  have hA := mcxc_appData2 h
  have hr : ∀ k, k + 4 ≤ bcaOffset → rd32 (mcxcImg cfg) k = rd32 (appData cfg) k := by
    intro k hk; exact mcxc_setAt_rd32 _ _ _ _ hin (by omega)
  refine { hlen := by rw [hA, mcxcImg_length h]; exact h.hlen, hlt := by rw [hA, mcxcImg_length h]; exact h.hlt,
           hwords := ?_, hfcf := h.hfcf, hbca := ?_, hla := rfl, hiv := rfl, hst := rfl, htz := rfl, hhw := rfl,
           hks := rfl, hhmac := rfl, hctr := rfl, hreloc := rfl, hcert := rfl, hsig := rfl, hfw := rfl, hdig := rfl }
  · rw [hA, hr 0 (by decide), hr 4 (by decide), hr 8 (by decide)]; exact h.hwords
  · rcases h.hbca with hb | ⟨hb, hbt⟩
    · left; exact hb
    · right
      refine ⟨hb, ?_⟩
      have ho : mcxcOff cfg = fcfOffset := by simp [mcxcOff, hb]
      rw [hA]
      unfold slice mcxcImg
      rw [mcxc_setAt_take _ _ _ _ hin (by rw [ho]; decide)]
      exact hbt

theorem mcxcImg_2 (h : McxcCfg cfg) : mcxcImg (mcxcCfg2 cfg) = mcxcImg cfg := by
  obtain ⟨hb1, _, _⟩ := mcxc_blk h
  have hl := h.hlen
  show setAt (appData (mcxcCfg2 cfg)) (mcxcOff cfg) (mcxcBlk cfg) = mcxcImg cfg
  rw [mcxc_appData2 h]
  exact mcxc_setAt_idem _ _ _ (by omega)

/-- parse(export(x)) = x for mcxc images, the image is the application with the BCA / FCF blocks put in place (everything
    else untouched, same length), and re-exporting the parsed image gives the same bytes -/
theorem parse_export_mcxc (co : CryptoOps) (env : Env) (c : Cls) (cfg : Cfg) (signer : Signer) (dek : Option Bytes)
    (hc : mcxcClass c = true) (hw : mcxcCfgWF cfg = true) :
    ∃ e, exportImage co c cfg signer = .ok e
      ∧ parseImage co env c dek e = .ok (canon c cfg dek)
      ∧ e.length = (appData cfg).length
      ∧ slice e fcfOffset (fcfOffset + fcfSize) = cfg.fcf.getD []
      ∧ (∀ b, cfg.bca = some b → slice e bcaOffset (bcaOffset + bcaSize) = b)
      ∧ (∀ i, ¬ (fcfOffset ≤ i ∧ i < fcfOffset + fcfSize) → ¬ (cfg.bca.isSome ∧ bcaOffset ≤ i ∧ i < bcaOffset + bcaSize) →
            e[i]? = (appData cfg)[i]?)
      ∧ exportImage co c (canon c cfg dek).toCfg signer = .ok e := by
  have h := mcxcCfg_of cfg hw
  rw [mcxc_cls_eq c hc]
  generalize c.tzSize = tz
  obtain ⟨hb1, hb2, hb3⟩ := mcxc_blk h
  have hl := h.hlen
  have hin : mcxcOff cfg + (mcxcBlk cfg).length ≤ (appData cfg).length := by omega
  have hdf := mcxcImg_drop_fcf h
  refine ⟨mcxcImg cfg, mcxc_export tz h signer, mcxc_parse tz h dek, mcxcImg_length h, ?_, ?_, ?_, ?_⟩
  · unfold slice
    rw [List.drop_take, hdf, Nat.add_sub_cancel_left, ← hb3, List.take_left]
  · intro b hb
    have hp := mcxc_parseBca h
    rw [hb] at hp
    unfold slice
    rw [List.drop_take, Nat.add_sub_cancel_left]
    split at hp
    · exact Option.some.inj hp
    · exact absurd hp (by simp)
  · intro i h1 h2
    apply mcxc_setAt_get _ _ _ _ hin
    rw [hb1]
    by_cases hb : cfg.bca.isSome = true
    · have ho : mcxcOff cfg = bcaOffset := by simp [mcxcOff, hb]
      rw [ho]
      simp only [hb, true_and] at h2
      simp only [fcfOffset, fcfSize, bcaOffset, bcaSize] at *
      omega
    · have ho : mcxcOff cfg = fcfOffset := by simp [mcxcOff, hb]
      rw [ho]
      omega
  · rw [mcxc_canon tz h dek]
    have := mcxc_export (co := co) tz (mcxcCfg_2 h) signer
    rw [mcxcImg_2 h] at this
    exact this

end SpsdkVerif.Mbi
