/-
`Aes.decBlk k (Aes.encBlk k b) = b` (and the converse) for the FIPS-197 AES of Crypto/Aes.lean —
for every key (16/24/32 bytes: 10/12/14 rounds; any other length: identity by convention) and every block.

Ingredients: the S-box tables are mutually inverse (`decide +kernel` over the 256 bytes);
ShiftRows/InvShiftRows are inverse permutations (by computation on a 16-element list);
MixColumns/InvMixColumns: `xtime` is xor-linear (shifts and xors only), so each output byte splits into
four single-variable polynomials in `xtime`, each decided over the 256 bytes; AddRoundKey is an xor
involution.  The key schedule plays no role: decryption uses the same round-key list.
Core Lean only; no `native_decide`.
-/
import SpsdkVerif.Crypto.Aes

namespace SpsdkVerif.Crypto.Aes
open SpsdkVerif SpsdkVerif.Crypto

/-! ### bytes: finite case analysis -/

theorem forall_uint8 (p : UInt8 → Prop) (h : ∀ i : Fin 256, p (UInt8.ofNat i.val)) : ∀ x, p x := by
  intro x
  have := h ⟨x.toNat, x.toNat_lt⟩
  simpa using this

theorem invSbox_sbox : ∀ x : UInt8, invSbox (sbox x) = x := forall_uint8 _ (by decide +kernel)
theorem sbox_invSbox : ∀ x : UInt8, sbox (invSbox x) = x := forall_uint8 _ (by decide +kernel)

/-! ### GF(2^8) multiplications are xor-linear -/

theorem xtime_xor (a b : UInt8) : xtime (a ^^^ b) = xtime a ^^^ xtime b := by
  simp only [xtime, UInt8.shiftLeft_xor, UInt8.shiftRight_xor]
  ac_rfl

theorem mul3_xor (a b : UInt8) : mul3 (a ^^^ b) = mul3 a ^^^ mul3 b := by
  simp only [mul3, xtime_xor]; ac_rfl
theorem mul9_xor (a b : UInt8) : mul9 (a ^^^ b) = mul9 a ^^^ mul9 b := by
  simp only [mul9, xtime_xor]; ac_rfl
theorem mul11_xor (a b : UInt8) : mul11 (a ^^^ b) = mul11 a ^^^ mul11 b := by
  simp only [mul11, xtime_xor]; ac_rfl
theorem mul13_xor (a b : UInt8) : mul13 (a ^^^ b) = mul13 a ^^^ mul13 b := by
  simp only [mul13, xtime_xor]; ac_rfl
theorem mul14_xor (a b : UInt8) : mul14 (a ^^^ b) = mul14 a ^^^ mul14 b := by
  simp only [mul14, xtime_xor]; ac_rfl

/-! ### InvMixColumns ∘ MixColumns = id = MixColumns ∘ InvMixColumns, one output byte at a time
    (generated mechanically from the two circulant matrices) -/

private theorem imc_mc_s00 : ∀ a : UInt8, mul14 (xtime a) ^^^ mul11 a ^^^ mul13 a ^^^ mul9 (mul3 a) = a :=
  forall_uint8 _ (by decide +kernel)
private theorem imc_mc_s01 : ∀ b : UInt8, mul14 (mul3 b) ^^^ mul11 (xtime b) ^^^ mul13 b ^^^ mul9 b = 0 :=
  forall_uint8 _ (by decide +kernel)
private theorem imc_mc_s02 : ∀ c : UInt8, mul14 c ^^^ mul11 (mul3 c) ^^^ mul13 (xtime c) ^^^ mul9 c = 0 :=
  forall_uint8 _ (by decide +kernel)
private theorem imc_mc_s03 : ∀ d : UInt8, mul14 d ^^^ mul11 d ^^^ mul13 (mul3 d) ^^^ mul9 (xtime d) = 0 :=
  forall_uint8 _ (by decide +kernel)
theorem imc_mc_row0 (a b c d : UInt8) :
    mul14 (xtime a ^^^ mul3 b ^^^ c ^^^ d) ^^^ mul11 (a ^^^ xtime b ^^^ mul3 c ^^^ d) ^^^ mul13 (a ^^^ b ^^^ xtime c ^^^ mul3 d) ^^^ mul9 (mul3 a ^^^ b ^^^ c ^^^ xtime d) = a := by
  simp only [mul3_xor, mul9_xor, mul11_xor, mul13_xor, mul14_xor, xtime_xor]
  have e : ∀ x y : UInt8, x = y → y = a → x = a := fun _ _ h1 h2 => h1.trans h2
  refine e _ ((mul14 (xtime a) ^^^ mul11 a ^^^ mul13 a ^^^ mul9 (mul3 a)) ^^^ (mul14 (mul3 b) ^^^ mul11 (xtime b) ^^^ mul13 b ^^^ mul9 b) ^^^ (mul14 c ^^^ mul11 (mul3 c) ^^^ mul13 (xtime c) ^^^ mul9 c) ^^^ (mul14 d ^^^ mul11 d ^^^ mul13 (mul3 d) ^^^ mul9 (xtime d))) (by ac_rfl) ?_
  rw [imc_mc_s00, imc_mc_s01, imc_mc_s02, imc_mc_s03]; simp

private theorem imc_mc_s10 : ∀ a : UInt8, mul9 (xtime a) ^^^ mul14 a ^^^ mul11 a ^^^ mul13 (mul3 a) = 0 :=
  forall_uint8 _ (by decide +kernel)
private theorem imc_mc_s11 : ∀ b : UInt8, mul9 (mul3 b) ^^^ mul14 (xtime b) ^^^ mul11 b ^^^ mul13 b = b :=
  forall_uint8 _ (by decide +kernel)
private theorem imc_mc_s12 : ∀ c : UInt8, mul9 c ^^^ mul14 (mul3 c) ^^^ mul11 (xtime c) ^^^ mul13 c = 0 :=
  forall_uint8 _ (by decide +kernel)
private theorem imc_mc_s13 : ∀ d : UInt8, mul9 d ^^^ mul14 d ^^^ mul11 (mul3 d) ^^^ mul13 (xtime d) = 0 :=
  forall_uint8 _ (by decide +kernel)
theorem imc_mc_row1 (a b c d : UInt8) :
    mul9 (xtime a ^^^ mul3 b ^^^ c ^^^ d) ^^^ mul14 (a ^^^ xtime b ^^^ mul3 c ^^^ d) ^^^ mul11 (a ^^^ b ^^^ xtime c ^^^ mul3 d) ^^^ mul13 (mul3 a ^^^ b ^^^ c ^^^ xtime d) = b := by
  simp only [mul3_xor, mul9_xor, mul11_xor, mul13_xor, mul14_xor, xtime_xor]
  have e : ∀ x y : UInt8, x = y → y = b → x = b := fun _ _ h1 h2 => h1.trans h2
  refine e _ ((mul9 (xtime a) ^^^ mul14 a ^^^ mul11 a ^^^ mul13 (mul3 a)) ^^^ (mul9 (mul3 b) ^^^ mul14 (xtime b) ^^^ mul11 b ^^^ mul13 b) ^^^ (mul9 c ^^^ mul14 (mul3 c) ^^^ mul11 (xtime c) ^^^ mul13 c) ^^^ (mul9 d ^^^ mul14 d ^^^ mul11 (mul3 d) ^^^ mul13 (xtime d))) (by ac_rfl) ?_
  rw [imc_mc_s10, imc_mc_s11, imc_mc_s12, imc_mc_s13]; simp

private theorem imc_mc_s20 : ∀ a : UInt8, mul13 (xtime a) ^^^ mul9 a ^^^ mul14 a ^^^ mul11 (mul3 a) = 0 :=
  forall_uint8 _ (by decide +kernel)
private theorem imc_mc_s21 : ∀ b : UInt8, mul13 (mul3 b) ^^^ mul9 (xtime b) ^^^ mul14 b ^^^ mul11 b = 0 :=
  forall_uint8 _ (by decide +kernel)
private theorem imc_mc_s22 : ∀ c : UInt8, mul13 c ^^^ mul9 (mul3 c) ^^^ mul14 (xtime c) ^^^ mul11 c = c :=
  forall_uint8 _ (by decide +kernel)
private theorem imc_mc_s23 : ∀ d : UInt8, mul13 d ^^^ mul9 d ^^^ mul14 (mul3 d) ^^^ mul11 (xtime d) = 0 :=
  forall_uint8 _ (by decide +kernel)
theorem imc_mc_row2 (a b c d : UInt8) :
    mul13 (xtime a ^^^ mul3 b ^^^ c ^^^ d) ^^^ mul9 (a ^^^ xtime b ^^^ mul3 c ^^^ d) ^^^ mul14 (a ^^^ b ^^^ xtime c ^^^ mul3 d) ^^^ mul11 (mul3 a ^^^ b ^^^ c ^^^ xtime d) = c := by
  simp only [mul3_xor, mul9_xor, mul11_xor, mul13_xor, mul14_xor, xtime_xor]
  have e : ∀ x y : UInt8, x = y → y = c → x = c := fun _ _ h1 h2 => h1.trans h2
  refine e _ ((mul13 (xtime a) ^^^ mul9 a ^^^ mul14 a ^^^ mul11 (mul3 a)) ^^^ (mul13 (mul3 b) ^^^ mul9 (xtime b) ^^^ mul14 b ^^^ mul11 b) ^^^ (mul13 c ^^^ mul9 (mul3 c) ^^^ mul14 (xtime c) ^^^ mul11 c) ^^^ (mul13 d ^^^ mul9 d ^^^ mul14 (mul3 d) ^^^ mul11 (xtime d))) (by ac_rfl) ?_
  rw [imc_mc_s20, imc_mc_s21, imc_mc_s22, imc_mc_s23]; simp

private theorem imc_mc_s30 : ∀ a : UInt8, mul11 (xtime a) ^^^ mul13 a ^^^ mul9 a ^^^ mul14 (mul3 a) = 0 :=
  forall_uint8 _ (by decide +kernel)
private theorem imc_mc_s31 : ∀ b : UInt8, mul11 (mul3 b) ^^^ mul13 (xtime b) ^^^ mul9 b ^^^ mul14 b = 0 :=
  forall_uint8 _ (by decide +kernel)
private theorem imc_mc_s32 : ∀ c : UInt8, mul11 c ^^^ mul13 (mul3 c) ^^^ mul9 (xtime c) ^^^ mul14 c = 0 :=
  forall_uint8 _ (by decide +kernel)
private theorem imc_mc_s33 : ∀ d : UInt8, mul11 d ^^^ mul13 d ^^^ mul9 (mul3 d) ^^^ mul14 (xtime d) = d :=
  forall_uint8 _ (by decide +kernel)
theorem imc_mc_row3 (a b c d : UInt8) :
    mul11 (xtime a ^^^ mul3 b ^^^ c ^^^ d) ^^^ mul13 (a ^^^ xtime b ^^^ mul3 c ^^^ d) ^^^ mul9 (a ^^^ b ^^^ xtime c ^^^ mul3 d) ^^^ mul14 (mul3 a ^^^ b ^^^ c ^^^ xtime d) = d := by
  simp only [mul3_xor, mul9_xor, mul11_xor, mul13_xor, mul14_xor, xtime_xor]
  have e : ∀ x y : UInt8, x = y → y = d → x = d := fun _ _ h1 h2 => h1.trans h2
  refine e _ ((mul11 (xtime a) ^^^ mul13 a ^^^ mul9 a ^^^ mul14 (mul3 a)) ^^^ (mul11 (mul3 b) ^^^ mul13 (xtime b) ^^^ mul9 b ^^^ mul14 b) ^^^ (mul11 c ^^^ mul13 (mul3 c) ^^^ mul9 (xtime c) ^^^ mul14 c) ^^^ (mul11 d ^^^ mul13 d ^^^ mul9 (mul3 d) ^^^ mul14 (xtime d))) (by ac_rfl) ?_
  rw [imc_mc_s30, imc_mc_s31, imc_mc_s32, imc_mc_s33]; simp

private theorem mc_imc_s00 : ∀ a : UInt8, xtime (mul14 a) ^^^ mul3 (mul9 a) ^^^ (mul13 a) ^^^ (mul11 a) = a :=
  forall_uint8 _ (by decide +kernel)
private theorem mc_imc_s01 : ∀ b : UInt8, xtime (mul11 b) ^^^ mul3 (mul14 b) ^^^ (mul9 b) ^^^ (mul13 b) = 0 :=
  forall_uint8 _ (by decide +kernel)
private theorem mc_imc_s02 : ∀ c : UInt8, xtime (mul13 c) ^^^ mul3 (mul11 c) ^^^ (mul14 c) ^^^ (mul9 c) = 0 :=
  forall_uint8 _ (by decide +kernel)
private theorem mc_imc_s03 : ∀ d : UInt8, xtime (mul9 d) ^^^ mul3 (mul13 d) ^^^ (mul11 d) ^^^ (mul14 d) = 0 :=
  forall_uint8 _ (by decide +kernel)
theorem mc_imc_row0 (a b c d : UInt8) :
    xtime (mul14 a ^^^ mul11 b ^^^ mul13 c ^^^ mul9 d) ^^^ mul3 (mul9 a ^^^ mul14 b ^^^ mul11 c ^^^ mul13 d) ^^^ (mul13 a ^^^ mul9 b ^^^ mul14 c ^^^ mul11 d) ^^^ (mul11 a ^^^ mul13 b ^^^ mul9 c ^^^ mul14 d) = a := by
  simp only [mul3_xor, mul9_xor, mul11_xor, mul13_xor, mul14_xor, xtime_xor]
  have e : ∀ x y : UInt8, x = y → y = a → x = a := fun _ _ h1 h2 => h1.trans h2
  refine e _ ((xtime (mul14 a) ^^^ mul3 (mul9 a) ^^^ (mul13 a) ^^^ (mul11 a)) ^^^ (xtime (mul11 b) ^^^ mul3 (mul14 b) ^^^ (mul9 b) ^^^ (mul13 b)) ^^^ (xtime (mul13 c) ^^^ mul3 (mul11 c) ^^^ (mul14 c) ^^^ (mul9 c)) ^^^ (xtime (mul9 d) ^^^ mul3 (mul13 d) ^^^ (mul11 d) ^^^ (mul14 d))) (by ac_rfl) ?_
  rw [mc_imc_s00, mc_imc_s01, mc_imc_s02, mc_imc_s03]; simp

private theorem mc_imc_s10 : ∀ a : UInt8, (mul14 a) ^^^ xtime (mul9 a) ^^^ mul3 (mul13 a) ^^^ (mul11 a) = 0 :=
  forall_uint8 _ (by decide +kernel)
private theorem mc_imc_s11 : ∀ b : UInt8, (mul11 b) ^^^ xtime (mul14 b) ^^^ mul3 (mul9 b) ^^^ (mul13 b) = b :=
  forall_uint8 _ (by decide +kernel)
private theorem mc_imc_s12 : ∀ c : UInt8, (mul13 c) ^^^ xtime (mul11 c) ^^^ mul3 (mul14 c) ^^^ (mul9 c) = 0 :=
  forall_uint8 _ (by decide +kernel)
private theorem mc_imc_s13 : ∀ d : UInt8, (mul9 d) ^^^ xtime (mul13 d) ^^^ mul3 (mul11 d) ^^^ (mul14 d) = 0 :=
  forall_uint8 _ (by decide +kernel)
theorem mc_imc_row1 (a b c d : UInt8) :
    (mul14 a ^^^ mul11 b ^^^ mul13 c ^^^ mul9 d) ^^^ xtime (mul9 a ^^^ mul14 b ^^^ mul11 c ^^^ mul13 d) ^^^ mul3 (mul13 a ^^^ mul9 b ^^^ mul14 c ^^^ mul11 d) ^^^ (mul11 a ^^^ mul13 b ^^^ mul9 c ^^^ mul14 d) = b := by
  simp only [mul3_xor, mul9_xor, mul11_xor, mul13_xor, mul14_xor, xtime_xor]
  have e : ∀ x y : UInt8, x = y → y = b → x = b := fun _ _ h1 h2 => h1.trans h2
  refine e _ (((mul14 a) ^^^ xtime (mul9 a) ^^^ mul3 (mul13 a) ^^^ (mul11 a)) ^^^ ((mul11 b) ^^^ xtime (mul14 b) ^^^ mul3 (mul9 b) ^^^ (mul13 b)) ^^^ ((mul13 c) ^^^ xtime (mul11 c) ^^^ mul3 (mul14 c) ^^^ (mul9 c)) ^^^ ((mul9 d) ^^^ xtime (mul13 d) ^^^ mul3 (mul11 d) ^^^ (mul14 d))) (by ac_rfl) ?_
  rw [mc_imc_s10, mc_imc_s11, mc_imc_s12, mc_imc_s13]; simp

private theorem mc_imc_s20 : ∀ a : UInt8, (mul14 a) ^^^ (mul9 a) ^^^ xtime (mul13 a) ^^^ mul3 (mul11 a) = 0 :=
  forall_uint8 _ (by decide +kernel)
private theorem mc_imc_s21 : ∀ b : UInt8, (mul11 b) ^^^ (mul14 b) ^^^ xtime (mul9 b) ^^^ mul3 (mul13 b) = 0 :=
  forall_uint8 _ (by decide +kernel)
private theorem mc_imc_s22 : ∀ c : UInt8, (mul13 c) ^^^ (mul11 c) ^^^ xtime (mul14 c) ^^^ mul3 (mul9 c) = c :=
  forall_uint8 _ (by decide +kernel)
private theorem mc_imc_s23 : ∀ d : UInt8, (mul9 d) ^^^ (mul13 d) ^^^ xtime (mul11 d) ^^^ mul3 (mul14 d) = 0 :=
  forall_uint8 _ (by decide +kernel)
theorem mc_imc_row2 (a b c d : UInt8) :
    (mul14 a ^^^ mul11 b ^^^ mul13 c ^^^ mul9 d) ^^^ (mul9 a ^^^ mul14 b ^^^ mul11 c ^^^ mul13 d) ^^^ xtime (mul13 a ^^^ mul9 b ^^^ mul14 c ^^^ mul11 d) ^^^ mul3 (mul11 a ^^^ mul13 b ^^^ mul9 c ^^^ mul14 d) = c := by
  simp only [mul3_xor, mul9_xor, mul11_xor, mul13_xor, mul14_xor, xtime_xor]
  have e : ∀ x y : UInt8, x = y → y = c → x = c := fun _ _ h1 h2 => h1.trans h2
  refine e _ (((mul14 a) ^^^ (mul9 a) ^^^ xtime (mul13 a) ^^^ mul3 (mul11 a)) ^^^ ((mul11 b) ^^^ (mul14 b) ^^^ xtime (mul9 b) ^^^ mul3 (mul13 b)) ^^^ ((mul13 c) ^^^ (mul11 c) ^^^ xtime (mul14 c) ^^^ mul3 (mul9 c)) ^^^ ((mul9 d) ^^^ (mul13 d) ^^^ xtime (mul11 d) ^^^ mul3 (mul14 d))) (by ac_rfl) ?_
  rw [mc_imc_s20, mc_imc_s21, mc_imc_s22, mc_imc_s23]; simp

private theorem mc_imc_s30 : ∀ a : UInt8, mul3 (mul14 a) ^^^ (mul9 a) ^^^ (mul13 a) ^^^ xtime (mul11 a) = 0 :=
  forall_uint8 _ (by decide +kernel)
private theorem mc_imc_s31 : ∀ b : UInt8, mul3 (mul11 b) ^^^ (mul14 b) ^^^ (mul9 b) ^^^ xtime (mul13 b) = 0 :=
  forall_uint8 _ (by decide +kernel)
private theorem mc_imc_s32 : ∀ c : UInt8, mul3 (mul13 c) ^^^ (mul11 c) ^^^ (mul14 c) ^^^ xtime (mul9 c) = 0 :=
  forall_uint8 _ (by decide +kernel)
private theorem mc_imc_s33 : ∀ d : UInt8, mul3 (mul9 d) ^^^ (mul13 d) ^^^ (mul11 d) ^^^ xtime (mul14 d) = d :=
  forall_uint8 _ (by decide +kernel)
theorem mc_imc_row3 (a b c d : UInt8) :
    mul3 (mul14 a ^^^ mul11 b ^^^ mul13 c ^^^ mul9 d) ^^^ (mul9 a ^^^ mul14 b ^^^ mul11 c ^^^ mul13 d) ^^^ (mul13 a ^^^ mul9 b ^^^ mul14 c ^^^ mul11 d) ^^^ xtime (mul11 a ^^^ mul13 b ^^^ mul9 c ^^^ mul14 d) = d := by
  simp only [mul3_xor, mul9_xor, mul11_xor, mul13_xor, mul14_xor, xtime_xor]
  have e : ∀ x y : UInt8, x = y → y = d → x = d := fun _ _ h1 h2 => h1.trans h2
  refine e _ ((mul3 (mul14 a) ^^^ (mul9 a) ^^^ (mul13 a) ^^^ xtime (mul11 a)) ^^^ (mul3 (mul11 b) ^^^ (mul14 b) ^^^ (mul9 b) ^^^ xtime (mul13 b)) ^^^ (mul3 (mul13 c) ^^^ (mul11 c) ^^^ (mul14 c) ^^^ xtime (mul9 c)) ^^^ (mul3 (mul9 d) ^^^ (mul13 d) ^^^ (mul11 d) ^^^ xtime (mul14 d))) (by ac_rfl) ?_
  rw [mc_imc_s30, mc_imc_s31, mc_imc_s32, mc_imc_s33]; simp
/-! ### the four steps and their inverses on the state -/

theorem invSubBytes_subBytes (s : Bytes) : invSubBytes (subBytes s) = s := by
  simp [invSubBytes, subBytes, Function.comp_def, invSbox_sbox]
theorem subBytes_invSubBytes (s : Bytes) : subBytes (invSubBytes s) = s := by
  simp [invSubBytes, subBytes, Function.comp_def, sbox_invSbox]

theorem invShiftRows_shiftRows (s : Bytes) : invShiftRows (shiftRows s) = s := by
  unfold shiftRows
  split
  · rfl
  · rename_i h
    unfold invShiftRows
    split
    · exact absurd rfl (h _ _ _ _ _ _ _ _ _ _ _ _ _ _ _ _)
    · rfl

theorem shiftRows_invShiftRows (s : Bytes) : shiftRows (invShiftRows s) = s := by
  unfold invShiftRows
  split
  · rfl
  · rename_i h
    unfold shiftRows
    split
    · exact absurd rfl (h _ _ _ _ _ _ _ _ _ _ _ _ _ _ _ _)
    · rfl

theorem invMixColumns_mixColumns (s : Bytes) : invMixColumns (mixColumns s) = s := by
  unfold mixColumns
  split
  · simp only [mixCol, List.cons_append, List.nil_append, invMixColumns, invMixCol]
    simp only [imc_mc_row0, imc_mc_row1, imc_mc_row2, imc_mc_row3]
  · rename_i h
    unfold invMixColumns
    split
    · exact absurd rfl (h _ _ _ _ _ _ _ _ _ _ _ _ _ _ _ _)
    · rfl

theorem mixColumns_invMixColumns (s : Bytes) : mixColumns (invMixColumns s) = s := by
  unfold invMixColumns
  split
  · simp only [invMixCol, List.cons_append, List.nil_append, mixColumns, mixCol]
    simp only [mc_imc_row0, mc_imc_row1, mc_imc_row2, mc_imc_row3]
  · rename_i h
    unfold mixColumns
    split
    · exact absurd rfl (h _ _ _ _ _ _ _ _ _ _ _ _ _ _ _ _)
    · rfl

/-- (this file deliberately does not import Proofs/Crypto.lean, so that it is rebuilt only when Aes.lean changes) -/
theorem addRoundKey_cancel : ∀ (s rk : Bytes), s.length ≤ rk.length → addRoundKey (addRoundKey s rk) rk = s
  | [], _, _ => by simp [addRoundKey]
  | x :: a, [], h => by simp at h
  | x :: a, y :: b, h => by
    have ih := addRoundKey_cancel a b (by simpa using h)
    simp only [addRoundKey, List.zipWith_cons_cons] at ih ⊢
    rw [ih, UInt8.xor_assoc, UInt8.xor_self, UInt8.xor_zero]

theorem addRoundKey_len (s rk : Bytes) : (addRoundKey s rk).length = min s.length rk.length := by
  simp [addRoundKey]

/-! ### lengths -/

@[simp] theorem subBytes_length (s : Bytes) : (subBytes s).length = s.length := by simp [subBytes]
@[simp] theorem invSubBytes_length (s : Bytes) : (invSubBytes s).length = s.length := by simp [invSubBytes]
@[simp] theorem shiftRows_length (s : Bytes) : (shiftRows s).length = s.length := by
  unfold shiftRows; split <;> rfl
@[simp] theorem invShiftRows_length (s : Bytes) : (invShiftRows s).length = s.length := by
  unfold invShiftRows; split <;> rfl
@[simp] theorem mixColumns_length (s : Bytes) : (mixColumns s).length = s.length := by
  unfold mixColumns; split <;> simp [mixCol]
@[simp] theorem invMixColumns_length (s : Bytes) : (invMixColumns s).length = s.length := by
  unfold invMixColumns; split <;> simp [invMixCol]
theorem addRoundKey_length (s rk : Bytes) (h : rk.length = 16) (hs : s.length = 16) : (addRoundKey s rk).length = 16 := by
  simp [addRoundKey, h, hs]
@[simp] theorem roundKey_length (w : Array UInt8) (i : Nat) : (roundKey w i).length = 16 := by simp [roundKey]
@[simp] theorem normBlock_length (b : Bytes) : (normBlock b).length = 16 := by simp [normBlock]
theorem normBlock_of_len (b : Bytes) (h : b.length = 16) : normBlock b = b := by
  simp [normBlock, List.take_append, h]

/-! ### rounds -/

theorem encRound_length (s rk : Bytes) (hs : s.length = 16) (hr : rk.length = 16) : (encRound s rk).length = 16 := by
  simp [encRound, addRoundKey, hs, hr]
theorem decRound_length (rk s : Bytes) (hs : s.length = 16) (hr : rk.length = 16) : (decRound rk s).length = 16 := by
  simp [decRound, addRoundKey, hs, hr]

theorem decRound_encRound (s rk : Bytes) (hs : s.length = 16) (hr : rk.length = 16) : decRound rk (encRound s rk) = s := by
  unfold decRound encRound
  rw [addRoundKey_cancel _ _ (by simp [hs, hr]), invMixColumns_mixColumns, invShiftRows_shiftRows, invSubBytes_subBytes]

theorem encRound_decRound (s rk : Bytes) (hs : s.length = 16) (hr : rk.length = 16) : encRound (decRound rk s) rk = s := by
  unfold decRound encRound
  rw [subBytes_invSubBytes, shiftRows_invShiftRows, mixColumns_invMixColumns, addRoundKey_cancel _ _ (by omega)]

theorem foldl_encRound_length : ∀ (ks : List Bytes) (s : Bytes), s.length = 16 → (∀ k ∈ ks, k.length = 16) →
    (ks.foldl encRound s).length = 16
  | [], _, hs, _ => hs
  | k :: ks, s, hs, hk => by
    simp only [List.foldl_cons]
    exact foldl_encRound_length ks _ (encRound_length s k hs (hk k List.mem_cons_self))
      (fun x hx => hk x (List.mem_cons_of_mem _ hx))

theorem foldr_decRound_length : ∀ (ks : List Bytes) (s : Bytes), s.length = 16 → (∀ k ∈ ks, k.length = 16) →
    (ks.foldr decRound s).length = 16
  | [], _, hs, _ => hs
  | k :: ks, s, hs, hk => by
    simp only [List.foldr_cons]
    exact decRound_length k _ (foldr_decRound_length ks s hs (fun x hx => hk x (List.mem_cons_of_mem _ hx)))
      (hk k List.mem_cons_self)

theorem foldr_dec_foldl_enc : ∀ (ks : List Bytes) (s : Bytes), s.length = 16 → (∀ k ∈ ks, k.length = 16) →
    ks.foldr decRound (ks.foldl encRound s) = s
  | [], _, _, _ => rfl
  | k :: ks, s, hs, hk => by
    have hk0 := hk k List.mem_cons_self
    have hks : ∀ x ∈ ks, x.length = 16 := fun x hx => hk x (List.mem_cons_of_mem _ hx)
    simp only [List.foldl_cons, List.foldr_cons]
    rw [foldr_dec_foldl_enc ks _ (encRound_length s k hs hk0) hks, decRound_encRound s k hs hk0]

theorem foldl_enc_foldr_dec : ∀ (ks : List Bytes) (s : Bytes), s.length = 16 → (∀ k ∈ ks, k.length = 16) →
    ks.foldl encRound (ks.foldr decRound s) = s
  | [], _, _, _ => rfl
  | k :: ks, s, hs, hk => by
    have hk0 := hk k List.mem_cons_self
    have hks : ∀ x ∈ ks, x.length = 16 := fun x hx => hk x (List.mem_cons_of_mem _ hx)
    simp only [List.foldl_cons, List.foldr_cons]
    rw [encRound_decRound _ k (foldr_decRound_length ks s hs hks) hk0, foldl_enc_foldr_dec ks s hs hks]

/-! ### the cipher on explicit round keys -/

theorem encCore_length (k0 : Bytes) (mids : List Bytes) (kL b : Bytes) (h0 : k0.length = 16)
    (hm : ∀ k ∈ mids, k.length = 16) (hL : kL.length = 16) (hb : b.length = 16) :
    (encCore k0 mids kL b).length = 16 := by
  have := foldl_encRound_length mids (addRoundKey b k0) (addRoundKey_length b k0 h0 hb) hm
  unfold encCore
  rw [addRoundKey_len, shiftRows_length, subBytes_length, this, hL]; rfl

theorem decCore_length (k0 : Bytes) (mids : List Bytes) (kL b : Bytes) (h0 : k0.length = 16)
    (hm : ∀ k ∈ mids, k.length = 16) (hL : kL.length = 16) (hb : b.length = 16) :
    (decCore k0 mids kL b).length = 16 := by
  have h1 : (invSubBytes (invShiftRows (addRoundKey b kL))).length = 16 := by simp [addRoundKey, hb, hL]
  have := foldr_decRound_length mids _ h1 hm
  unfold decCore
  rw [addRoundKey_len, this, h0]; rfl

theorem decCore_encCore (k0 : Bytes) (mids : List Bytes) (kL b : Bytes) (h0 : k0.length = 16)
    (hm : ∀ k ∈ mids, k.length = 16) (hL : kL.length = 16) (hb : b.length = 16) :
    decCore k0 mids kL (encCore k0 mids kL b) = b := by
  have h1 := addRoundKey_length b k0 h0 hb
  have h2 := foldl_encRound_length mids _ h1 hm
  unfold decCore encCore
  rw [addRoundKey_cancel _ _ (by simp [h2, hL]), invShiftRows_shiftRows, invSubBytes_subBytes,
    foldr_dec_foldl_enc mids _ h1 hm, addRoundKey_cancel _ _ (by omega)]

theorem encCore_decCore (k0 : Bytes) (mids : List Bytes) (kL b : Bytes) (h0 : k0.length = 16)
    (hm : ∀ k ∈ mids, k.length = 16) (hL : kL.length = 16) (hb : b.length = 16) :
    encCore k0 mids kL (decCore k0 mids kL b) = b := by
  have h1 : (invSubBytes (invShiftRows (addRoundKey b kL))).length = 16 := by simp [addRoundKey, hb, hL]
  have h2 := foldr_decRound_length mids _ h1 hm
  unfold decCore encCore
  rw [addRoundKey_cancel _ _ (by omega), foldl_enc_foldr_dec mids _ h1 hm, subBytes_invSubBytes,
    shiftRows_invShiftRows, addRoundKey_cancel _ _ (by omega)]

theorem midKeys_length (w : Array UInt8) (nr : Nat) : ∀ k ∈ midKeys w nr, k.length = 16 := by
  intro k hk
  simp only [midKeys, List.mem_map] at hk
  obtain ⟨i, _, rfl⟩ := hk
  simp

/-! ### the block laws for every key and block -/

theorem encBlk_length (key b : Bytes) : (encBlk key b).length = 16 := by
  unfold encBlk
  split
  · exact encCore_length _ _ _ _ (by simp) (midKeys_length _ _) (by simp) (by simp)
  · simp

theorem decBlk_length (key b : Bytes) : (decBlk key b).length = 16 := by
  unfold decBlk
  split
  · exact decCore_length _ _ _ _ (by simp) (midKeys_length _ _) (by simp) (by simp)
  · simp

/-- FIPS-197 decryption inverts encryption: every key, every 16-byte block -/
theorem decBlk_encBlk (key b : Bytes) (hb : b.length = 16) : decBlk key (encBlk key b) = b := by
  have hl := encBlk_length key b
  unfold decBlk
  rw [normBlock_of_len _ hl]
  unfold encBlk
  split
  · rw [normBlock_of_len _ hb]
    exact decCore_encCore _ _ _ _ (by simp) (midKeys_length _ _) (by simp) hb
  · exact normBlock_of_len _ hb

theorem encBlk_decBlk (key b : Bytes) (hb : b.length = 16) : encBlk key (decBlk key b) = b := by
  have hl := decBlk_length key b
  unfold encBlk
  rw [normBlock_of_len _ hl]
  unfold decBlk
  split
  · rw [normBlock_of_len _ hb]
    exact encCore_decCore _ _ _ _ (by simp) (midKeys_length _ _) (by simp) hb
  · exact normBlock_of_len _ hb

end SpsdkVerif.Crypto.Aes
