/-
C18 — the quick-info fingerprint is a function of ALL configured data folders.

`Generated/CacheFingerprint.lean` holds the shape of `get_quick_info_hash` read from the AST (how a folder that is not
configured is passed over, what is stamped per folder, the argument list at the call site).  `fpInputs` is the list
that is fed to SHA-1, as a function of that shape and of the folder list `[data, restricted, add-ons]` (`none` = not
configured).  Theorems: every stamped item of every configured folder is in the list, and any change of a configured
folder's stamped items changes the list — PROVIDED the loop `continue`s over an unconfigured folder; with `break`
(the add-ons folder behind an unconfigured restricted folder drops out) the statement is false, see the `example`.
Collision resistance of SHA-1 and "(mtime, size) changes when the content changes" remain assumptions.
-/
import SpsdkVerif.Base.CacheGuardTypes

namespace SpsdkVerif.DbCache.Fingerprint
open SpsdkVerif

/-- a data folder as the fingerprint sees it: stamp of `common/database_defaults.yaml` (if present), the device
    directories and the stamp of each `database.yaml` (if present); a stamp stands for (mtime, size) -/
structure Folder where
  defaults : Option Nat
  devices : List (String × Option Nat)
  deriving DecidableEq, Repr

inductive FpItem where
  | stamp (n : Nat)
  | name (s : String)
  deriving DecidableEq, Repr

def folderItems (sh : QuickHashShape) (f : Folder) : List FpItem :=
  (if sh.hashesDefaults then f.defaults.toList.map FpItem.stamp else []) ++
  f.devices.flatMap (fun d =>
    (if sh.hashesDeviceNames then [FpItem.name d.1] else []) ++
    (if sh.hashesDeviceFiles then d.2.toList.map FpItem.stamp else []))

/-- what is fed to the hash for a list of (possibly unconfigured) folders -/
def fpInputs (sh : QuickHashShape) : List (Option Folder) → List FpItem
  | [] => []
  | none :: rest => if sh.noneAction == "continue" then fpInputs sh rest else []
  | some f :: rest => folderItems sh f ++ fpInputs sh rest

def wfQuickHash (sh : QuickHashShape) : Bool :=
  sh.noneAction == "continue" && !sh.otherExit &&
  sh.hashesDefaults && sh.hashesDeviceNames && sh.hashesDeviceFiles &&
  sh.stampFields.contains "st_mtime_ns" && sh.stampFields.contains "st_size" &&
  decide (sh.callArgs.length ≥ 3)

def wfConfigHash (sh : ConfigHashShape) : Bool :=
  decide (sh.hashedParams.length ≥ 3) && sh.hashesCachedFiles && !sh.earlyExit &&
  sh.stampFields.contains "st_mtime_ns" && sh.stampFields.contains "st_size"

theorem fpInputs_append (sh : QuickHashShape) (h : (sh.noneAction == "continue") = true) :
    ∀ a b : List (Option Folder), fpInputs sh (a ++ b) = fpInputs sh a ++ fpInputs sh b
  | [], b => by simp [fpInputs]
  | none :: a, b => by simp [fpInputs, h, fpInputs_append sh h a b]
  | some f :: a, b => by simp [fpInputs, fpInputs_append sh h a b, List.append_assoc]

theorem covers (sh : QuickHashShape) (h : (sh.noneAction == "continue") = true) :
    ∀ (paths : List (Option Folder)) (f : Folder), some f ∈ paths → ∀ it ∈ folderItems sh f, it ∈ fpInputs sh paths
  | [], f, hm, _, _ => by cases hm
  | none :: rest, f, hm, it, hi => by
    have : some f ∈ rest := by simpa using hm
    simp only [fpInputs, h, if_true]
    exact covers sh h rest f this it hi
  | some g :: rest, f, hm, it, hi => by
    simp only [fpInputs, List.mem_append]
    rcases List.mem_cons.mp hm with he | hr
    · left; cases he; exact hi
    · right; exact covers sh h rest f hr it hi

theorem sees_change (sh : QuickHashShape) (h : (sh.noneAction == "continue") = true)
    (pre post : List (Option Folder)) (f f' : Folder) (hne : folderItems sh f ≠ folderItems sh f') :
    fpInputs sh (pre ++ some f :: post) ≠ fpInputs sh (pre ++ some f' :: post) := by
  intro he
  rw [fpInputs_append sh h, fpInputs_append sh h] at he
  have he := List.append_cancel_left he
  simp only [fpInputs] at he
  exact hne (List.append_cancel_right he)

end SpsdkVerif.DbCache.Fingerprint
