/-
C01, configuration path: what `load_from_config` makes of the TrustZone keys (`enableTrustZone`, `trustZonePresetFile`).
The loaders' decisions (`tzLoad`) and the table "which mixin's loader decides" (`tzConfigLoader`) are GENERATED from the
source (Generated/MbiClasses.lean); here they are compared with what the configuration schema says the keys request
(`tzRequestedTag`, Model/Mbi.lean), and carried through the export to the TrustZone-type bits of the image.
-/
import SpsdkVerif.Proofs.MbiPlain
import SpsdkVerif.Proofs.MbiSignedV1
import SpsdkVerif.Proofs.MbiSignedV21
import SpsdkVerif.Proofs.MbiEncrypted

namespace SpsdkVerif.Mbi
open SpsdkVerif SpsdkVerif.Misc SpsdkVerif.Crypto
open SpsdkVerif.Generated.IvtConsts
open SpsdkVerif.Generated.MbiClasses (MixinName Method Attr TzChoice tzLoad tzConfigLoader)

/-- the two loaders decide as the schema describes the keys: optional TrustZone is DISABLED unless `enableTrustZone` is true
    (a preset file named next to `enableTrustZone: false` does not switch it on), then the preset file if one is named, else
    the default; mandatory TrustZone: the preset file if one is named, else the default -/
theorem tzLoad_spec (en pf : Bool) :
    tzLoad .Mbi_MixinTrustZone en pf = some (if en then (if pf then .preset else .enabled) else .disabled)
    ∧ tzLoad .Mbi_MixinTrustZoneMandatory en pf = some (if pf then .preset else .enabled) := by
  cases en <;> cases pf <;> decide

/-- every class of the database: classes that list the optional mixin itself use its loader, the other classes with a TrustZone
    setting use the mandatory loader (directly or through the manifest mixins), classes without TrustZone read no key -/
theorem tzLoader_classes : ∀ c ∈ allClasses,
    (c.mixins.contains .Mbi_MixinTrustZone = true → c.tzLoader = some .Mbi_MixinTrustZone)
    ∧ (c.mixins.contains .Mbi_MixinTrustZone = false → c.hasTrustZone = true → c.tzLoader = some .Mbi_MixinTrustZoneMandatory)
    ∧ (c.hasTrustZone = false → c.tzLoader = none) := by
  decide +kernel

theorem tzFromBinary_ok {c : Cls} {raw : Bytes} {t : TzCfg} (h : tzFromBinary c raw = .ok t) :
    t = .custom (raw.take c.tzSize) := by
  unfold tzFromBinary at h
  split at h
  · cases h
  · split at h
    · cases h
    · cases h; rfl

theorem presetTruthy_true {k : TzKeys} (h : k.presetTruthy = true) : ∃ d, k.preset = some (some d) := by
  unfold TzKeys.presetTruthy at h
  split at h
  · exact ⟨_, by assumption⟩
  · cases h

/-- the `preset` branch of `tzOfConfig` -/
theorem tzOfConfig_preset_branch {c : Cls} {k : TzKeys} {t : TzCfg} (hp : k.presetTruthy = true)
    (h : (match k.preset with
          | some (some d) => (tzFromBinary c d).map some
          | _ => (.error .other : PyRes (Option TzCfg))) = .ok (some t)) :
    ∃ d, k.preset = some (some d) ∧ t = .custom (d.take c.tzSize) := by
  obtain ⟨d, hd⟩ := presetTruthy_true hp
  refine ⟨d, hd, ?_⟩
  rw [hd] at h
  simp only at h
  cases hb : tzFromBinary c d with
  | error e => rw [hb] at h; cases h
  | ok t' =>
    rw [hb] at h
    have : t' = t := by
      have h' : (Except.ok (some t') : PyRes (Option TzCfg)) = .ok (some t) := h
      cases h'; rfl
    subst this
    exact tzFromBinary_ok hb

/-- what `load_from_config` sets is what the keys request: the type, and for a preset file its content -/
theorem tzOfConfig_requested (c : Cls) (k : TzKeys) (t : TzCfg)
    (hl : c.tzLoader = some .Mbi_MixinTrustZone ∨ c.tzLoader = some .Mbi_MixinTrustZoneMandatory)
    (h : tzOfConfig c k = .ok (some t)) :
    t.tag = tzRequestedTag (c.tzLoader == some .Mbi_MixinTrustZone) k
    ∧ (t.tag = tzCustom → ∃ d, k.preset = some (some d) ∧ t = .custom (d.take c.tzSize)) := by
  obtain ⟨s1, s2⟩ := tzLoad_spec k.enableTruthy k.presetTruthy
  unfold tzOfConfig at h
  rcases hl with hl | hl
  · rw [hl] at h ⊢
    simp only [s1] at h
    have hb : ((some MixinName.Mbi_MixinTrustZone : Option MixinName) == some .Mbi_MixinTrustZone) = true := by decide
    rw [hb]
    unfold tzRequestedTag
    cases he : k.enableTruthy <;> cases hp : k.presetTruthy <;>
      simp only [he, hp, Bool.false_eq_true, ↓reduceIte] at h
    · cases h; exact ⟨by decide, fun hc => absurd hc (by decide)⟩
    · cases h; exact ⟨by decide, fun hc => absurd hc (by decide)⟩
    · cases h; exact ⟨by decide, fun hc => absurd hc (by decide)⟩
    · obtain ⟨d, hd, ht⟩ := tzOfConfig_preset_branch hp h
      subst ht
      exact ⟨rfl, fun _ => ⟨d, hd, rfl⟩⟩
  · rw [hl] at h ⊢
    simp only [s2] at h
    have hb : ((some MixinName.Mbi_MixinTrustZoneMandatory : Option MixinName) == some .Mbi_MixinTrustZone) = false := by
      decide
    rw [hb]
    unfold tzRequestedTag
    cases hp : k.presetTruthy <;>
      simp only [hp, Bool.false_eq_true, ↓reduceIte] at h
    · cases h; exact ⟨by simp [TzCfg.tag], fun hc => absurd hc (by decide)⟩
    · obtain ⟨d, hd, ht⟩ := tzOfConfig_preset_branch hp h
      subst ht
      exact ⟨rfl, fun _ => ⟨d, hd, rfl⟩⟩


/-- the exported image exists and its flag word is the flag word of the settings (every family) -/
theorem export_flags {co : CryptoOps} {env : Env} {c : Cls} {cfg : Cfg} {signer : Signer}
    (h : Hyp co env c cfg signer) :
    ∃ e, exportImage co c cfg signer = .ok e ∧ rd32 e ivtImageFlagsOffset = flagsOf c cfg := by
  rcases family_cases h with hf | hf | hf | hf
  · obtain ⟨e, he, _, hfl, _⟩ := header_describes_plain h hf; exact ⟨e, he, hfl⟩
  · obtain ⟨e, he, _, hfl, _⟩ := header_describes_signedV1 h hf; exact ⟨e, he, hfl⟩
  · obtain ⟨e, he, _, hfl, _⟩ := header_describes_signedV21 h hf; exact ⟨e, he, hfl⟩
  · obtain ⟨e, he, _, hfl, _⟩ := header_describes_encrypted h hf; exact ⟨e, he, hfl⟩

/-- END TO END: the image exported for the settings `load_from_config` derives from the configuration carries, in the
    TrustZone-type bits of the flag word, exactly what the configuration requests -/
theorem config_tz_in_image {co : CryptoOps} {env : Env} {c : Cls} {cfg : Cfg} {signer : Signer}
    (h : Hyp co env c cfg signer) (htz : c.hasTrustZone = true) (k : TzKeys)
    (hl : c.tzLoader = some .Mbi_MixinTrustZone ∨ c.tzLoader = some .Mbi_MixinTrustZoneMandatory)
    (hk : tzOfConfig c k = .ok (some cfg.tz)) :
    ∃ e, exportImage co c cfg signer = .ok e
      ∧ getTzType (rd32 e ivtImageFlagsOffset) = tzRequestedTag (c.tzLoader == some .Mbi_MixinTrustZone) k
      ∧ (cfg.tz.tag = tzCustom → ∃ d, k.preset = some (some d) ∧ cfg.tz.bytes = d.take c.tzSize) := by
  obtain ⟨e, he, hfl⟩ := export_flags h
  obtain ⟨r1, r2⟩ := tzOfConfig_requested c k cfg.tz hl hk
  refine ⟨e, he, ?_, ?_⟩
  · rw [hfl, getTzType_flagsOf h, htz, if_pos rfl, r1]
  · intro hc
    obtain ⟨d, hd, ht⟩ := r2 hc
    exact ⟨d, hd, by rw [ht]; rfl⟩

end SpsdkVerif.Mbi
