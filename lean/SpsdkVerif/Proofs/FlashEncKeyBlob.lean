/-
C13 — OTFAD key blobs: `plain_data` / `export` (RFC 3394 wrap of the first 40 bytes, CRC-32/MPEG-2, byte
reversal, padding to 64) unwraps on the ROM side to the configured context registers; KEK scrambling is an
involution and the whole key-blob table unwraps entry by entry.
-/
import SpsdkVerif.Proofs.FlashEncCommon

namespace SpsdkVerif.FlashEnc
open SpsdkVerif SpsdkVerif.Crypto
open SpsdkVerif.Misc (beEnc beDec leEnc leDec)
open SpsdkVerif.Generated.FlashEncConsts

variable {c : CryptoOps}

/-! ### CRC-32/MPEG-2 stays a 32-bit value -/

private theorem kb_poly_lt : crcMpegParams.poly < 2 ^ 32 := by
  simp only [crcMpegParams]; exact Nat.mod_lt _ (by decide)

private theorem kb_width : crcMpegParams.width = 32 := rfl

private theorem kb_bitStep_lt_gen (p : Crc.Params) (hp : p.poly < 2 ^ p.width) (x : Nat) :
    Crc.bitStep p x < 2 ^ p.width := by
  unfold Crc.bitStep
  have h1 : (x <<< 1) % 2 ^ p.width < 2 ^ p.width := Nat.mod_lt _ (Nat.two_pow_pos _)
  by_cases hc : (x >>> (p.width - 1)) % 2 = 1
  · simp only [hc, if_true]; exact Nat.xor_lt_two_pow h1 hp
  · simp only [hc, if_false]; exact h1

private theorem kb_bitStep_lt (x : Nat) : Crc.bitStep crcMpegParams x < 2 ^ 32 :=
  kb_bitStep_lt_gen crcMpegParams kb_poly_lt x

private theorem kb_byteStep_lt (x : Nat) (b : UInt8) : Crc.byteStep crcMpegParams x b < 2 ^ 32 := by
  unfold Crc.byteStep
  exact kb_bitStep_lt _

private theorem kb_register_lt (d : Bytes) : Crc.register crcMpegParams d < 2 ^ 32 := by
  unfold Crc.register
  induction d using bytes_rev_ind with
  | h0 => simp only [List.foldl_nil, crcMpegParams, crcMpegInitCrc, crcMpegXorOut]; decide
  | hs l x ih => rw [List.foldl_append]; exact kb_byteStep_lt _ _

theorem crc32Mpeg_lt (d : Bytes) : crc32Mpeg d < 2 ^ 32 := by
  unfold crc32Mpeg Crc.crc
  have hr := kb_register_lt d
  have h1 : crcMpegParams.refOut = false := by simp only [crcMpegParams, crcMpegReverse]
  have h2 : crcMpegParams.xorOut = 0 := by simp only [crcMpegParams, crcMpegXorOut]
  simp only [h1, h2, Bool.false_eq_true, if_false, Nat.xor_zero]
  exact hr

/-! ### KEK scrambling -/

private theorem kb_scrambleIx_le (align i : Nat) : scrambleIx align i ≤ 3 := by
  unfold scrambleIx
  simp only [otfadScrambleSelMask]
  exact Nat.and_le_right

theorem scramble_length (kek : Bytes) (hk : kek.length = 16) (mask align : Nat) (rev : Bool) (i : Nat) :
    (scrambleKek kek mask align rev i).length = 16 := by
  have := kb_scrambleIx_le align i
  simp only [scrambleKek, otfadScrambleWord, List.length_append, List.length_take, List.length_drop, xorBytes_length,
    leEnc_length, hk]
  omega

private theorem kb_splice_inv (kek m : Bytes) (o : Nat) (ho : o + 4 ≤ kek.length) (hm : m.length = 4) :
    let s := kek.take o ++ xorBytes ((kek.drop o).take 4) m ++ kek.drop (o + 4)
    s.take o ++ xorBytes ((s.drop o).take 4) m ++ s.drop (o + 4) = kek := by
  intro s
  have hx : (xorBytes ((kek.drop o).take 4) m).length = 4 := by
    simp [hm]; omega
  have ht : (kek.take o).length = o := by simp; omega
  have h1 : s.take o = kek.take o := by
    simp only [s, List.append_assoc]
    rw [List.take_append_of_le_length (by omega)]
    rw [List.take_of_length_le (by omega)]
  have h2 : s.drop o = xorBytes ((kek.drop o).take 4) m ++ kek.drop (o + 4) := by
    simp only [s, List.append_assoc]
    exact List.drop_left' ht
  have h3 : s.drop (o + 4) = kek.drop (o + 4) := by
    rw [← List.drop_drop, h2]
    exact List.drop_left' hx
  rw [h1, h2, h3, List.take_left' hx, xorBytes_cancel_eq _ _ (by simp [hm]; omega)]
  rw [List.append_assoc, ← List.drop_drop, List.take_append_drop, List.take_append_drop]

/-- scrambling a KEK twice with the same parameters gives the KEK back (the engine unscrambles the same way) -/
theorem scramble_inv (kek : Bytes) (hk : kek.length = 16) (mask align : Nat) (rev : Bool) (i : Nat) :
    scrambleKek (scrambleKek kek mask align rev i) mask align rev i = kek := by
  have := kb_scrambleIx_le align i
  unfold scrambleKek
  exact kb_splice_inv kek _ _ (by simp only [otfadScrambleWord]; omega) (leEnc_length _ _)

/-! ### byte reversal in groups -/

private theorem kb_chunksF_flatten (n : Nat) (hn : 0 < n) :
    ∀ (L : List Bytes) (f : Nat), (∀ r ∈ L, r.length = n) → L.length ≤ f → chunksF n f L.flatten = L
  | [], f, _, _ => by cases f <;> simp [chunksF]
  | r :: L, 0, _, hf => by simp at hf
  | r :: L, f + 1, hL, hf => by
    have hr : r.length = n := hL r (by simp)
    have hne : (r ++ L.flatten).isEmpty = false := by
      cases r with
      | nil => simp at hr; omega
      | cons _ _ => rfl
    have ih := kb_chunksF_flatten n hn L f (fun x hx => hL x (by simp [hx])) (by simpa using hf)
    simp only [List.flatten_cons, chunksF, hne, Bool.false_eq_true, if_false]
    rw [List.take_left' hr, List.drop_left' hr, ih]

private theorem kb_flatten_length (n : Nat) : ∀ (L : List Bytes), (∀ r ∈ L, r.length = n) → L.flatten.length = n * L.length
  | [], _ => by simp
  | r :: L, h => by
    have := kb_flatten_length n L (fun x hx => h x (by simp [hx]))
    simp [this, h r (by simp), Nat.mul_add]; omega

private theorem kb_chunks_flatten (n : Nat) (hn : 0 < n) (L : List Bytes) (hL : ∀ r ∈ L, r.length = n) :
    chunks n L.flatten = L := by
  unfold chunks
  apply kb_chunksF_flatten n hn L _ hL
  rw [kb_flatten_length n L hL]
  exact Nat.le_mul_of_pos_left _ hn

private theorem kb_revGroups_length (n k : Nat) (l : Bytes) (hl : l.length = n * k) : (revGroups n l).length = l.length := by
  unfold revGroups
  by_cases hn : n = 0
  · simp [hn]
  · simp only [hn, if_false]
    obtain ⟨h1, h2, h3⟩ := chunks_spec n (by omega) k l hl
    rw [kb_flatten_length n _ (by
      intro r hr
      simp only [List.mem_map] at hr
      obtain ⟨x, hx, rfl⟩ := hr
      simp [h2 x hx])]
    simp [h1, hl]

private theorem kb_revGroups_inv (n k : Nat) (l : Bytes) (hl : l.length = n * k) : revGroups n (revGroups n l) = l := by
  unfold revGroups
  by_cases hn : n = 0
  · simp [hn]
  · simp only [hn, if_false]
    obtain ⟨h1, h2, h3⟩ := chunks_spec n (by omega) k l hl
    rw [kb_chunks_flatten n (by omega) _ (by
      intro r hr
      simp only [List.mem_map] at hr
      obtain ⟨x, hx, rfl⟩ := hr
      simp [h2 x hx])]
    rw [List.map_map]
    have : (List.reverse ∘ List.reverse : Bytes → Bytes) = id := by funext x; simp
    rw [this, List.map_id, h3]

private theorem kb_revGroups48 (n : Nat) (hn : n ∈ [0, 2, 4, 8, 16]) (l : Bytes) (hl : l.length = 48) :
    (revGroups n l).length = 48 ∧ revGroups n (revGroups n l) = l := by
  simp only [List.mem_cons, List.mem_nil_iff, or_false] at hn
  have key : ∀ k, 48 = n * k → (revGroups n l).length = 48 ∧ revGroups n (revGroups n l) = l := by
    intro k hk
    exact ⟨by rw [kb_revGroups_length n k l (by omega), hl], kb_revGroups_inv n k l (by omega)⟩
  rcases hn with rfl | rfl | rfl | rfl | rfl
  · simp [revGroups, hl]
  · exact key 24 (by decide)
  · exact key 12 (by decide)
  · exact key 6 (by decide)
  · exact key 3 (by decide)

/-! ### one key blob -/

private theorem kb_endAddr (kb : KeyBlob) (hwf : kb.WF) : ∃ ew, kb.endAddrWithFlags = .ok ew ∧ ew < 2 ^ 32 := by
  unfold KeyBlob.endAddrWithFlags
  by_cases h0 : kb.end_ = 0
  · have := hwf.exportable h0
    exact ⟨0, by simp [h0, this], by decide⟩
  · refine ⟨_, by simp only [h0, false_and, if_false]; rfl, ?_⟩
    have he := hwf.end_lt
    have hf := hwf.flags_lt
    simp only [otfadKeyFlagMask, otfadEndAddrMask]
    apply Nat.or_lt_two_pow
    · apply Nat.or_lt_two_pow
      · omega
      · omega
    · decide

private theorem kb_fields (k ct s e z cr : Bytes) (hk : k.length = 16) (hct : ct.length = 8) (hs : s.length = 4)
    (he : e.length = 4) (hz : z.length = 4) (hcr : cr.length = 4) :
    let p := k ++ ct ++ s ++ e ++ z ++ cr
    p.length = 40 ∧ p.take 16 = k ∧ (p.drop 16).take 8 = ct ∧ (p.drop 24).take 4 = s ∧ (p.drop 28).take 4 = e ∧
      (p.drop 36).take 4 = cr ∧ p.take 32 = k ++ ct ++ s ++ e := by
  intro p
  simp (disch := omega) [p, List.take_append, List.drop_append, hk, hct, hs, he, hz, hcr, List.drop_of_length_le,
    List.take_of_length_le]

private theorem kb_plainData (kb : KeyBlob) (hwf : kb.WF) (hz : kb.zeroFill.length = 4) (hc : kb.crcFill = []) (rnd : Bytes)
    (ew : Nat) (hew : kb.endAddrWithFlags = .ok ew) (hlt : ew < 2 ^ 32) :
    ∃ p, kb.plainData rnd = .ok p ∧
      p.take 40 = kb.key ++ kb.ctr ++ leEnc 4 kb.start ++ leEnc 4 ew ++ kb.zeroFill ++
        leEnc 4 (crc32Mpeg (kb.key ++ kb.ctr ++ leEnc 4 kb.start ++ leEnc 4 ew)) := by
  have hs : kb.start < 2 ^ 32 := Nat.lt_of_le_of_lt hwf.range hwf.end_lt
  have hzne : kb.zeroFill.isEmpty = false := by
    cases hzf : kb.zeroFill with
    | nil => rw [hzf] at hz; simp at hz
    | cons _ _ => rfl
  unfold KeyBlob.plainData
  simp only [hew]
  have h1 : ¬ (kb.start ≥ 2 ^ 32 ∨ ew ≥ 2 ^ 32) := by omega
  simp only [h1, if_false, hc, hzne, hz, List.isEmpty_nil, List.length_nil, Bool.false_eq_true, not_false_eq_true,
    ne_eq, not_true_eq_false, and_false, if_true, false_and, reduceCtorEq]
  have hX : (kb.key ++ kb.ctr ++ leEnc 4 kb.start ++ leEnc 4 ew ++ kb.zeroFill ++
      leEnc 4 (crc32Mpeg (kb.key ++ kb.ctr ++ leEnc 4 kb.start ++ leEnc 4 ew))).length = 40 := by
    simp only [List.length_append, hwf.key_len, hwf.ctr_len, leEnc_length, hz]
  have hL : (kb.key ++ kb.ctr ++ leEnc 4 kb.start ++ leEnc 4 ew ++ kb.zeroFill ++
      leEnc 4 (crc32Mpeg (kb.key ++ kb.ctr ++ leEnc 4 kb.start ++ leEnc 4 ew)) ++ zeros 8 ++ zeros 16).length = 64 := by
    simp only [List.length_append, hwf.key_len, hwf.ctr_len, leEnc_length, hz, zeros_length]
  rw [if_neg (by rw [hL]; simp)]
  refine ⟨_, rfl, ?_⟩
  rw [List.append_assoc _ (zeros 8), List.take_left' hX]

/-- one exported 64-byte entry unwraps (with the KEK, after undoing the byte reversal) to the blob's context
    registers, and the stored CRC is valid -/
theorem keyblob_unwraps (h : CryptoLaws c) (kb : KeyBlob) (hwf : kb.WF) (hz : kb.zeroFill.length = 4) (hc : kb.crcFill = [])
    (kek : Bytes) (hk : kek.length = 16) (n : Nat) (hn : n ∈ [0, 2, 4, 8, 16]) (rnd : Bytes) :
    ∃ e, kb.export c kek n rnd = .ok e ∧ e.length = 64 ∧ otfadUnwrapEntry c kek n e = some (kb.ctx, true) := by
  obtain ⟨ew, hew, hlt⟩ := kb_endAddr kb hwf
  obtain ⟨p, hp, hp40⟩ := kb_plainData kb hwf hz hc rnd ew hew hlt
  have hs : kb.start < 2 ^ 32 := Nat.lt_of_le_of_lt hwf.range hwf.end_lt
  obtain ⟨f0, f1, f2, f3, f4, f5, f6⟩ := kb_fields kb.key kb.ctr (leEnc 4 kb.start) (leEnc 4 ew) kb.zeroFill
    (leEnc 4 (crc32Mpeg (kb.key ++ kb.ctr ++ leEnc 4 kb.start ++ leEnc 4 ew))) hwf.key_len hwf.ctr_len
    (leEnc_length _ _) (leEnc_length _ _) hz (leEnc_length _ _)
  rw [← hp40] at f0 f1 f2 f3 f4 f5 f6
  have hw : (kwWrap c kek (p.take 40)).length = 48 := by
    rw [kwWrap_length h kek _ (by rw [f0]), f0]
  obtain ⟨r1, r2⟩ := kb_revGroups48 n hn _ hw
  have hexp : kb.export c kek n rnd = .ok (zeroPad 64 (revGroups n (kwWrap c kek (p.take 40)))) := by
    unfold KeyBlob.export
    simp only [hk, ne_eq, not_true_eq_false, if_false, hp, otfadExportBlobSize, otfadWrappedLen]
  refine ⟨_, hexp, ?_, ?_⟩
  · rw [zeroPad_length, r1]
  · unfold otfadUnwrapEntry
    have ht : (zeroPad 64 (revGroups n (kwWrap c kek (p.take 40)))).take 48 = revGroups n (kwWrap c kek (p.take 40)) := by
      have := zeroPad_take_self 64 (revGroups n (kwWrap c kek (p.take 40)))
      rwa [r1] at this
    rw [ht, r2, kw_inv h kek _ (by rw [f0]) (by rw [f0]; decide)]
    simp only [f1, f2, f3, f4, f5, f6]
    have hp4 : (256 : Nat) ^ 4 = 2 ^ 32 := by decide
    rw [leDec_leEnc 4 _ (by rw [hp4]; exact hs), leDec_leEnc 4 _ (by rw [hp4]; exact hlt),
      leDec_leEnc 4 _ (by rw [hp4]; exact crc32Mpeg_lt _)]
    simp [KeyBlob.ctx, hew]

/-! ### the key-blob table -/

private theorem kb_export_aux (h : CryptoLaws c) (kek : Bytes) (hk : kek.length = 16) (scr : Option (Nat × Nat)) (rev : Bool)
    (n : Nat) (hn : n ∈ [0, 2, 4, 8, 16]) (rnd : Bytes) :
    ∀ (rest : List KeyBlob) (i : Nat) (acc : Bytes), (∀ kb ∈ rest, kb.WF ∧ kb.zeroFill.length = 4 ∧ kb.crcFill = []) →
      ∃ E, otfadExportAux c kek scr rev n rnd rest i acc = .ok (acc ++ E) ∧ E.length = 64 * rest.length ∧
        ∀ pad, otfadUnwrapTable c kek scr rev n rest.length i (E ++ pad) = rest.map (fun kb => some (kb.ctx, true))
  | [], i, acc, _ => ⟨[], by simp [otfadExportAux], by simp, by intro pad; simp [otfadUnwrapTable]⟩
  | kb :: rest, i, acc, hwf => by
    obtain ⟨w1, w2, w3⟩ := hwf kb (by simp)
    have hrest : ∀ x ∈ rest, x.WF ∧ x.zeroFill.length = 4 ∧ x.crcFill = [] := fun x hx => hwf x (by simp [hx])
    -- the KEK used for entry `i`, on both sides
    have step : ∀ k : Bytes, k.length = 16 →
        (match kb.export c k n rnd with
          | .error e => .error e
          | .ok e => otfadExportAux c kek scr rev n rnd rest (i + 1) (acc ++ e)) =
          otfadExportAux c kek scr rev n rnd (kb :: rest) i acc →
        (∀ t, otfadUnwrapTable c kek scr rev n (rest.length + 1) i t =
          otfadUnwrapEntry c k n (t.take 64) :: otfadUnwrapTable c kek scr rev n rest.length (i + 1) (t.drop 64)) →
        ∃ E, otfadExportAux c kek scr rev n rnd (kb :: rest) i acc = .ok (acc ++ E) ∧ E.length = 64 * (kb :: rest).length ∧
          ∀ pad, otfadUnwrapTable c kek scr rev n (kb :: rest).length i (E ++ pad) =
            (kb :: rest).map (fun kb => some (kb.ctx, true)) := by
      intro k hk16 hexp hunw
      obtain ⟨e, he1, he2, he3⟩ := keyblob_unwraps h kb w1 w2 w3 k hk16 n hn rnd
      obtain ⟨E, hE1, hE2, hE3⟩ := kb_export_aux h kek hk scr rev n hn rnd rest (i + 1) (acc ++ e) hrest
      refine ⟨e ++ E, ?_, ?_, ?_⟩
      · rw [← hexp, he1]
        simp only
        rw [hE1, List.append_assoc]
      · simp only [List.length_append, List.length_cons, he2, hE2]; omega
      · intro pad
        rw [List.length_cons, hunw, List.append_assoc, List.take_left' he2, List.drop_left' he2, he3, hE3 pad, List.map_cons]
    cases scr with
    | none =>
      exact step kek hk rfl (fun t => rfl)
    | some ma =>
      obtain ⟨m, a⟩ := ma
      have hix := kb_scrambleIx_le a i
      refine step (scrambleKek kek m a rev i) (scramble_length kek hk m a rev i) ?_ (fun t => rfl)
      have hno : ¬ kek.length < scrambleIx a i * otfadScrambleWord + 4 := by
        simp only [hk, otfadScrambleWord]; omega
      conv => rhs; unfold otfadExportAux
      simp only [hno, if_false]
      rfl

/-- the whole table: entry `i` unwraps with the KEK scrambled for index `i` -/
theorem otfad_table_unwraps (h : CryptoLaws c) (bs : List KeyBlob)
    (hwf : ∀ kb ∈ bs, kb.WF ∧ kb.zeroFill.length = 4 ∧ kb.crcFill = [])
    (kek : Bytes) (hk : kek.length = 16) (scr : Option (Nat × Nat))
    (hscr : ∀ m a, scr = some (m, a) → m < 2 ^ 32 ∧ a < 2 ^ 8) (rev : Bool) (n : Nat) (hn : n ∈ [0, 2, 4, 8, 16]) (rnd : Bytes) :
    ∃ t, Otfad.encryptKeyBlobs c bs kek scr rev n rnd = .ok t ∧ t.length % 256 = 0 ∧
      otfadUnwrapTable c kek scr rev n bs.length 0 t = bs.map (fun kb => some (kb.ctx, true)) := by
  obtain ⟨E, hE1, hE2, hE3⟩ := kb_export_aux h kek hk scr rev n hn rnd bs 0 [] hwf
  refine ⟨zeroPad 256 E, ?_, zeroPad_length_mod 256 (by decide) E, ?_⟩
  · unfold Otfad.encryptKeyBlobs
    cases scr with
    | none => simp only [hE1, List.nil_append, otfadTableAlign, Bool.false_eq_true, if_false]
    | some ma =>
      obtain ⟨m, a⟩ := ma
      obtain ⟨h1, h2⟩ := hscr m a rfl
      have hb : (decide (m ≥ 2 ^ 32) || decide (a ≥ 2 ^ 8)) = false := by
        simp only [Bool.or_eq_false_iff, decide_eq_false_iff_not]
        omega
      simp only [hb, hE1, List.nil_append, otfadTableAlign, Bool.false_eq_true, if_false]
  · unfold zeroPad
    exact hE3 _

end SpsdkVerif.FlashEnc
