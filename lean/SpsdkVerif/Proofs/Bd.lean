/- Helper lemmas for Properties/C19.lean (single Mathlib modules allowed here).

Contents: (1) Python int operators of Base/PyInt.lean are the two's-complement bit operations / masks;
(2) the reference parser: fuel monotonicity, "eventually returns" introduction rules, the print/parse lemma
`parse_pr` (parsing at level k a text printed for level m >= k consumes exactly the printed expression and continues the
loop at level k), an explicit fuel bound (three units per consumed token), and the same for the bool level. -/
import Mathlib.Data.Int.Bitwise
import SpsdkVerif.Spec.BdSem
import SpsdkVerif.Spec.BdStmtSem

namespace SpsdkVerif.Bd
open SpsdkVerif.Generated
variable (L : Levels)

theorem parsePrimary_succ (f : Nat) (ts : List Tok) :
    parsePrimary L (f + 1) ts =
    (match ts with
    | .num n :: ts' => some (.lit n, ts')
    | .ident x :: ts' => some (.var x, ts')
    | .lparen :: ts' =>
      (match parseExpr L f 0 ts' with
       | some (e, .rparen :: ts'') => some (e, ts'')
       | _ => none)
    | .op .sub :: ts' =>
      (match parseExpr L f (L.neg + 1) ts' with
       | some (e, ts'') => some (.neg e, ts'')
       | none => none)
    | .op .add :: ts' =>
      (match parseExpr L f (L.pos + 1) ts' with
       | some (e, ts'') => some (.pos e, ts'')
       | none => none)
    | _ => none) := by
  rfl

theorem parseExpr_succ (f m : Nat) (ts : List Tok) :
    parseExpr L (f + 1) m ts =
    (match parsePrimary L f ts with
    | some (l, ts') => parseLoop L f m l ts'
    | none => none) := by
  rfl

theorem parseLoop_succ (f m : Nat) (l : Expr) (ts : List Tok) :
    parseLoop L (f + 1) m l ts =
    (match ts with
    | .op o :: ts' =>
      if m ≤ L.bin o then
        (match parseExpr L f (L.bin o + 1) ts' with
         | some (r, ts'') => parseLoop L f m (.bin o l r) ts''
         | none => none)
      else some (l, ts)
    | .dot :: .isize s :: ts' =>
      if m = 0 then parseLoop L f m (.size s l) ts' else some (l, ts)
    | _ => some (l, ts)) := by
  rfl

theorem mono_all : ∀ f,
    (∀ ts r, parsePrimary L f ts = some r → parsePrimary L (f+1) ts = some r) ∧
    (∀ m ts r, parseExpr L f m ts = some r → parseExpr L (f+1) m ts = some r) ∧
    (∀ m l ts r, parseLoop L f m l ts = some r → parseLoop L (f+1) m l ts = some r) := by
  intro f
  induction f with
  | zero =>
    refine ⟨?_, ?_, ?_⟩
    · intro ts r h; simp [parsePrimary] at h
    · intro m ts r h; simp [parseExpr] at h
    · intro m l ts r h; simp [parseLoop] at h
  | succ f ih =>
    obtain ⟨ihP, ihE, ihL⟩ := ih
    refine ⟨?_, ?_, ?_⟩
    · intro ts r h
      rw [parsePrimary_succ] at h ⊢
      split at h
      · exact h
      · exact h
      · split at h
        · next e ts'' heq => rw [ihE _ _ _ heq]; exact h
        · simp at h
      · split at h
        · next e ts'' heq => rw [ihE _ _ _ heq]; exact h
        · simp at h
      · split at h
        · next e ts'' heq => rw [ihE _ _ _ heq]; exact h
        · simp at h
      · simp at h
    · intro m ts r h
      rw [parseExpr_succ] at h ⊢
      split at h
      · next l ts' heq => rw [ihP _ _ heq]; exact ihL _ _ _ _ h
      · simp at h
    · intro m l ts r h
      rw [parseLoop_succ] at h ⊢
      split at h
      · split at h
        · next hm =>
          split at h
          · next rr ts'' heq => rw [if_pos hm, ihE _ _ _ heq]; exact ihL _ _ _ _ h
          · simp at h
        · next hm => rw [if_neg hm]; exact h
      · split at h
        · next hm => rw [if_pos hm]; exact ihL _ _ _ _ h
        · next hm => rw [if_neg hm]; exact h
      · exact h

theorem mono_le {f f' : Nat} (hle : f ≤ f') :
    (∀ ts r, parsePrimary L f ts = some r → parsePrimary L f' ts = some r) ∧
    (∀ m ts r, parseExpr L f m ts = some r → parseExpr L f' m ts = some r) ∧
    (∀ m l ts r, parseLoop L f m l ts = some r → parseLoop L f' m l ts = some r) := by
  induction hle with
  | refl => exact ⟨fun _ _ h => h, fun _ _ _ h => h, fun _ _ _ _ h => h⟩
  | step _ ih =>
    obtain ⟨a, b, c⟩ := ih
    obtain ⟨a', b', c'⟩ := mono_all L _
    exact ⟨fun ts r h => a' _ _ (a ts r h), fun m ts r h => b' _ _ _ (b m ts r h), fun m l ts r h => c' _ _ _ _ (c m l ts r h)⟩


/-! ### "eventually returns" and its introduction rules -/
def EvP (ts : List Tok) (r : Expr × List Tok) : Prop := ∃ f, parsePrimary L f ts = some r
def EvE (m : Nat) (ts : List Tok) (r : Expr × List Tok) : Prop := ∃ f, parseExpr L f m ts = some r
def EvL (m : Nat) (l : Expr) (ts : List Tok) (r : Expr × List Tok) : Prop := ∃ f, parseLoop L f m l ts = some r

theorem EvP_num (n : Nat) (ts : List Tok) : EvP L (.num n :: ts) (.lit n, ts) := ⟨1, by rw [parsePrimary_succ]⟩
theorem EvP_ident (x : String) (ts : List Tok) : EvP L (.ident x :: ts) (.var x, ts) := ⟨1, by rw [parsePrimary_succ]⟩

theorem EvP_paren {ts ts' : List Tok} {e : Expr} (h : EvE L 0 ts (e, .rparen :: ts')) : EvP L (.lparen :: ts) (e, ts') := by
  obtain ⟨f, hf⟩ := h
  exact ⟨f + 1, by rw [parsePrimary_succ]; simp only [hf]⟩

theorem EvP_neg {ts ts' : List Tok} {e : Expr} (h : EvE L (L.neg + 1) ts (e, ts')) : EvP L (.op .sub :: ts) (.neg e, ts') := by
  obtain ⟨f, hf⟩ := h
  exact ⟨f + 1, by rw [parsePrimary_succ]; simp only [hf]⟩

theorem EvP_pos {ts ts' : List Tok} {e : Expr} (h : EvE L (L.pos + 1) ts (e, ts')) : EvP L (.op .add :: ts) (.pos e, ts') := by
  obtain ⟨f, hf⟩ := h
  exact ⟨f + 1, by rw [parsePrimary_succ]; simp only [hf]⟩

theorem EvE_intro {m : Nat} {ts ts' : List Tok} {x : Expr} {r : Expr × List Tok}
    (h1 : EvP L ts (x, ts')) (h2 : EvL L m x ts' r) : EvE L m ts r := by
  obtain ⟨f1, hf1⟩ := h1
  obtain ⟨f2, hf2⟩ := h2
  refine ⟨max f1 f2 + 1, ?_⟩
  rw [parseExpr_succ, (mono_le L (Nat.le_max_left f1 f2)).1 _ _ hf1]
  exact (mono_le L (Nat.le_max_right f1 f2)).2.2 _ _ _ _ hf2

theorem EvL_op {m : Nat} {o : BinOp} {l rhs : Expr} {ts ts' : List Tok} {r : Expr × List Tok}
    (hm : m ≤ L.bin o) (h1 : EvE L (L.bin o + 1) ts (rhs, ts')) (h2 : EvL L m (.bin o l rhs) ts' r) :
    EvL L m l (.op o :: ts) r := by
  obtain ⟨f1, hf1⟩ := h1
  obtain ⟨f2, hf2⟩ := h2
  refine ⟨max f1 f2 + 1, ?_⟩
  rw [parseLoop_succ]
  simp only [if_pos hm, (mono_le L (Nat.le_max_left f1 f2)).2.1 _ _ _ hf1]
  exact (mono_le L (Nat.le_max_right f1 f2)).2.2 _ _ _ _ hf2

theorem EvL_post {s : IntSz} {l : Expr} {ts : List Tok} {r : Expr × List Tok}
    (h : EvL L 0 (.size s l) ts r) : EvL L 0 l (.dot :: .isize s :: ts) r := by
  obtain ⟨f, hf⟩ := h
  exact ⟨f + 1, by rw [parseLoop_succ]; simpa using hf⟩

/-- the loop at level `m` stops in front of `ts` -/
def StopAt (m : Nat) (ts : List Tok) : Prop :=
  (∀ o ts', ts = .op o :: ts' → ¬ m ≤ L.bin o) ∧ (∀ s ts', ts = .dot :: .isize s :: ts' → m ≠ 0)

theorem EvL_stop {m : Nat} {l : Expr} {ts : List Tok} (h : StopAt L m ts) : EvL L m l ts (l, ts) := by
  refine ⟨1, ?_⟩
  rw [parseLoop_succ]
  split
  · next o ts' => simp [h.1 o ts' rfl]
  · next s ts' => simp [h.2 s ts' rfl]
  · rfl

/-- no operator of a level above `m` follows -/
def NoHigher (m : Nat) (rest : List Tok) : Prop := ∀ o ts, rest = .op o :: ts → L.bin o ≤ m

theorem NoHigher_mono {m m' : Nat} {rest : List Tok} (h : NoHigher L m rest) (hle : m ≤ m') : NoHigher L m' rest :=
  fun o ts e => Nat.le_trans (h o ts e) hle

theorem StopAt_of_NoHigher {m u : Nat} {rest : List Tok} (h : NoHigher L m rest) (hu : m < u) : StopAt L u rest :=
  ⟨fun o ts' e hle => by have := h o ts' e; omega, fun _ _ _ => by omega⟩

theorem paren_append (body rest : List Tok) : paren body ++ rest = .lparen :: (body ++ .rparen :: rest) := by
  simp [paren]

theorem StopAt_rparen (m : Nat) (rest : List Tok) : StopAt L m (.rparen :: rest) :=
  ⟨fun _ _ e => (by cases e), fun _ _ e => (by cases e)⟩
theorem NoHigher_rparen (m : Nat) (rest : List Tok) : NoHigher L m (.rparen :: rest) := fun _ _ e => by cases e
theorem NoHigher_dot (m : Nat) (rest : List Tok) : NoHigher L m (.dot :: rest) := fun _ _ e => by cases e

/-- a parenthesised sub-expression whose bare form parses at level 0 -/
theorem paren_case {body rest : List Tok} {e : Expr} {k : Nat} {r : Expr × List Tok}
    (hbare : EvE L 0 (body ++ .rparen :: rest) (e, .rparen :: rest)) (hloop : EvL L k e rest r) :
    EvE L k (paren body ++ rest) r := by
  rw [paren_append]
  exact EvE_intro L (EvP_paren L hbare) hloop

theorem parse_pr (e : Expr) : ∀ m k rest r, k ≤ m → NoHigher L m rest → EvL L k e rest r → EvE L k (pr L m e ++ rest) r := by
  induction e with
  | lit n =>
    intro m k rest r _ _ h
    exact EvE_intro L (EvP_num L n rest) h
  | var x =>
    intro m k rest r _ _ h
    exact EvE_intro L (EvP_ident L x rest) h
  | bin o l r ihl ihr =>
    have bare : ∀ m k rest r', k ≤ m → m ≤ L.bin o → NoHigher L m rest → EvL L k (.bin o l r) rest r' →
        EvE L k ((pr L (L.bin o) l ++ .op o :: pr L (L.bin o + 1) r) ++ rest) r' := by
      intro m k rest r' hk hm hn h
      rw [List.append_assoc, List.cons_append]
      apply ihl (L.bin o) k _ r' (Nat.le_trans hk hm) (fun o' ts e => by cases e; exact Nat.le_refl _)
      apply EvL_op L (Nat.le_trans hk hm) _ h
      apply ihr (L.bin o + 1) (L.bin o + 1) rest _ (Nat.le_refl _) (NoHigher_mono L hn (by omega))
      exact EvL_stop L (StopAt_of_NoHigher L hn (by omega))
    intro m k rest r' hk hn h
    simp only [pr]
    split
    · next hm => exact bare m k rest r' hk hm hn h
    · exact paren_case L (bare 0 0 _ _ (Nat.le_refl _) (Nat.zero_le _) (NoHigher_rparen L 0 rest)
        (EvL_stop L (StopAt_rparen L 0 rest))) h
  | neg x ih =>
    have bare : ∀ m k rest r', m ≤ L.neg → NoHigher L m rest → EvL L k (.neg x) rest r' →
        EvE L k ((.op .sub :: pr L (L.neg + 1) x) ++ rest) r' := by
      intro m k rest r' hm hn h
      rw [List.cons_append]
      refine EvE_intro L (EvP_neg L ?_) h
      apply ih (L.neg + 1) (L.neg + 1) rest _ (Nat.le_refl _) (NoHigher_mono L hn (by omega))
      exact EvL_stop L (StopAt_of_NoHigher L hn (by omega))
    intro m k rest r' hk hn h
    simp only [pr]
    split
    · next hm => exact bare m k rest r' hm hn h
    · exact paren_case L (bare 0 0 _ _ (Nat.zero_le _) (NoHigher_rparen L 0 rest) (EvL_stop L (StopAt_rparen L 0 rest))) h
  | pos x ih =>
    have bare : ∀ m k rest r', m ≤ L.pos → NoHigher L m rest → EvL L k (.pos x) rest r' →
        EvE L k ((.op .add :: pr L (L.pos + 1) x) ++ rest) r' := by
      intro m k rest r' hm hn h
      rw [List.cons_append]
      refine EvE_intro L (EvP_pos L ?_) h
      apply ih (L.pos + 1) (L.pos + 1) rest _ (Nat.le_refl _) (NoHigher_mono L hn (by omega))
      exact EvL_stop L (StopAt_of_NoHigher L hn (by omega))
    intro m k rest r' hk hn h
    simp only [pr]
    split
    · next hm => exact bare m k rest r' hm hn h
    · exact paren_case L (bare 0 0 _ _ (Nat.zero_le _) (NoHigher_rparen L 0 rest) (EvL_stop L (StopAt_rparen L 0 rest))) h
  | size s x ih =>
    have bare : ∀ rest r', EvL L 0 (.size s x) rest r' → EvE L 0 ((pr L 0 x ++ [.dot, .isize s]) ++ rest) r' := by
      intro rest r' h
      rw [List.append_assoc]
      exact ih 0 0 _ r' (Nat.le_refl _) (NoHigher_dot L 0 _) (EvL_post L h)
    intro m k rest r' hk hn h
    simp only [pr]
    split
    · next hm =>
      subst hm
      have hk0 : k = 0 := by omega
      subst hk0
      exact bare rest r' h
    · exact paren_case L (bare _ _ (EvL_stop L (StopAt_rparen L 0 rest))) h

theorem parse_pr_top (e : Expr) : EvE L 0 (pr L 0 e) (e, []) := by
  have := parse_pr L e 0 0 [] (e, []) (Nat.le_refl _) (fun _ _ h => by cases h) (EvL_stop L ⟨fun _ _ h => (by cases h), fun _ _ h => (by cases h)⟩)
  simpa using this


/-! ### an explicit fuel bound: three units per consumed token -/
theorem fuel_all : ∀ f,
    (∀ ts e ts', parsePrimary L f ts = some (e, ts') → ts'.length < ts.length ∧
        ∀ f', 3 * (ts.length - ts'.length) ≤ f' + 2 → parsePrimary L f' ts = some (e, ts')) ∧
    (∀ m ts e ts', parseExpr L f m ts = some (e, ts') → ts'.length < ts.length ∧
        ∀ f', 3 * (ts.length - ts'.length) ≤ f' → parseExpr L f' m ts = some (e, ts')) ∧
    (∀ m l ts e ts', parseLoop L f m l ts = some (e, ts') → ts'.length ≤ ts.length ∧
        ∀ f', 3 * (ts.length - ts'.length) + 1 ≤ f' → parseLoop L f' m l ts = some (e, ts')) := by
  intro f
  induction f with
  | zero =>
    refine ⟨?_, ?_, ?_⟩
    · intro ts e ts' h; simp [parsePrimary] at h
    · intro m ts e ts' h; simp [parseExpr] at h
    · intro m l ts e ts' h; simp [parseLoop] at h
  | succ f ih =>
    obtain ⟨ihP, ihE, ihL⟩ := ih
    refine ⟨?_, ?_, ?_⟩
    · intro ts e ts' h
      rw [parsePrimary_succ] at h
      split at h
      · next n t =>
        simp only [Option.some.injEq, Prod.mk.injEq] at h
        obtain ⟨rfl, rfl⟩ := h
        refine ⟨by simp, ?_⟩
        intro f' hf'
        obtain ⟨f'', rfl⟩ : ∃ f'', f' = f'' + 1 := ⟨f' - 1, by simp at hf'; omega⟩
        rw [parsePrimary_succ]
      · next x t =>
        simp only [Option.some.injEq, Prod.mk.injEq] at h
        obtain ⟨rfl, rfl⟩ := h
        refine ⟨by simp, ?_⟩
        intro f' hf'
        obtain ⟨f'', rfl⟩ : ∃ f'', f' = f'' + 1 := ⟨f' - 1, by simp at hf'; omega⟩
        rw [parsePrimary_succ]
      · next t =>
        split at h
        · next e1 t2 heq =>
          simp only [Option.some.injEq, Prod.mk.injEq] at h
          obtain ⟨rfl, rfl⟩ := h
          obtain ⟨hlen, hfu⟩ := ihE _ _ _ _ heq
          simp only [List.length_cons] at hlen ⊢
          refine ⟨by omega, ?_⟩
          intro f' hf'
          obtain ⟨f'', rfl⟩ : ∃ f'', f' = f'' + 1 := ⟨f' - 1, by omega⟩
          rw [parsePrimary_succ]
          simp only [hfu f'' (by simp only [List.length_cons]; omega)]
        · simp at h
      · next t =>
        split at h
        · next e1 t2 heq =>
          simp only [Option.some.injEq, Prod.mk.injEq] at h
          obtain ⟨rfl, rfl⟩ := h
          obtain ⟨hlen, hfu⟩ := ihE _ _ _ _ heq
          simp only [List.length_cons] at hlen ⊢
          refine ⟨by omega, ?_⟩
          intro f' hf'
          obtain ⟨f'', rfl⟩ : ∃ f'', f' = f'' + 1 := ⟨f' - 1, by omega⟩
          rw [parsePrimary_succ]
          simp only [hfu f'' (by omega)]
        · simp at h
      · next t =>
        split at h
        · next e1 t2 heq =>
          simp only [Option.some.injEq, Prod.mk.injEq] at h
          obtain ⟨rfl, rfl⟩ := h
          obtain ⟨hlen, hfu⟩ := ihE _ _ _ _ heq
          simp only [List.length_cons] at hlen ⊢
          refine ⟨by omega, ?_⟩
          intro f' hf'
          obtain ⟨f'', rfl⟩ : ∃ f'', f' = f'' + 1 := ⟨f' - 1, by omega⟩
          rw [parsePrimary_succ]
          simp only [hfu f'' (by omega)]
        · simp at h
      · simp at h
    · intro m ts e ts' h
      rw [parseExpr_succ] at h
      split at h
      · next l t1 heq =>
        obtain ⟨hlen1, hfu1⟩ := ihP _ _ _ heq
        obtain ⟨hlen2, hfu2⟩ := ihL _ _ _ _ _ h
        refine ⟨by omega, ?_⟩
        intro f' hf'
        obtain ⟨f'', rfl⟩ : ∃ f'', f' = f'' + 1 := ⟨f' - 1, by omega⟩
        rw [parseExpr_succ, hfu1 f'' (by omega)]
        exact hfu2 f'' (by omega)
      · simp at h
    · intro m l ts e ts' h
      rw [parseLoop_succ] at h
      split at h
      · next o t =>
        split at h
        · next hm =>
          split at h
          · next rr t2 heq =>
            obtain ⟨hlen1, hfu1⟩ := ihE _ _ _ _ heq
            obtain ⟨hlen2, hfu2⟩ := ihL _ _ _ _ _ h
            simp only [List.length_cons] at *
            refine ⟨by omega, ?_⟩
            intro f' hf'
            obtain ⟨f'', rfl⟩ : ∃ f'', f' = f'' + 1 := ⟨f' - 1, by omega⟩
            rw [parseLoop_succ]
            simp only [if_pos hm, hfu1 f'' (by omega)]
            exact hfu2 f'' (by omega)
          · simp at h
        · next hm =>
          simp only [Option.some.injEq, Prod.mk.injEq] at h
          obtain ⟨rfl, rfl⟩ := h
          refine ⟨Nat.le_refl _, ?_⟩
          intro f' hf'
          obtain ⟨f'', rfl⟩ : ∃ f'', f' = f'' + 1 := ⟨f' - 1, by omega⟩
          rw [parseLoop_succ]
          simp only [if_neg hm]
      · next s t =>
        split at h
        · next hm =>
          obtain ⟨hlen2, hfu2⟩ := ihL _ _ _ _ _ h
          simp only [List.length_cons] at *
          refine ⟨by omega, ?_⟩
          intro f' hf'
          obtain ⟨f'', rfl⟩ : ∃ f'', f' = f'' + 1 := ⟨f' - 1, by omega⟩
          rw [parseLoop_succ]
          simp only [if_pos hm]
          exact hfu2 f'' (by omega)
        · next hm =>
          simp only [Option.some.injEq, Prod.mk.injEq] at h
          obtain ⟨rfl, rfl⟩ := h
          refine ⟨Nat.le_refl _, ?_⟩
          intro f' hf'
          obtain ⟨f'', rfl⟩ : ∃ f'', f' = f'' + 1 := ⟨f' - 1, by omega⟩
          rw [parseLoop_succ]
          simp only [if_neg hm]
      · next hno1 hno2 =>
        simp only [Option.some.injEq, Prod.mk.injEq] at h
        obtain ⟨rfl, rfl⟩ := h
        refine ⟨Nat.le_refl _, ?_⟩
        intro f' hf'
        obtain ⟨f'', rfl⟩ : ∃ f'', f' = f'' + 1 := ⟨f' - 1, by omega⟩
        rw [parseLoop_succ]
        split
        · next o t => exact absurd rfl (hno1 o t)
        · next s t => exact absurd rfl (hno2 s t)
        · rfl

theorem refParse_of_Ev {ts : List Tok} {e : Expr} (h : EvE L 0 ts (e, [])) : refParse L ts = .ok e := by
  obtain ⟨f, hf⟩ := h
  obtain ⟨_, hfu⟩ := (fuel_all L f).2.1 _ _ _ _ hf
  unfold refParse
  rw [hfu (fuelFor ts) (by simp [fuelFor])]

theorem parse_print_expr (e : Expr) : refParse L (pr L 0 e) = .ok e := refParse_of_Ev L (parse_pr_top L e)


/-! ### bool level -/
theorem parsePrimaryB_succ (f : Nat) (ts : List Tok) :
    parsePrimaryB L (f + 1) ts =
    (match ts with
    | .lnot :: ts' =>
      (match parsePrimaryB L f ts' with
       | some (b, ts'') => some (.lnot b, ts'')
       | none => none)
    | .defined :: ts' =>
      (match ts' with
       | .lparen :: .ident x :: .rparen :: ts'' => some (.defined x, ts'')
       | _ => none)
    | .lparen :: ts' =>
      (match parseB L f 0 ts' with
       | some (b, .rparen :: ts'') =>
         (match b with
          | .atom e =>
            (match parseLoop L f 0 e ts'' with
             | some (e', ts3) => some (.atom e', ts3)
             | none => none)
          | _ => some (b, ts''))
       | _ => none)
    | _ =>
      (match parseExpr L f 0 ts with
       | some (e, ts') => some (.atom e, ts')
       | none => none)) := by
  rfl

theorem parseB_succ (f m : Nat) (ts : List Tok) :
    parseB L (f + 1) m ts =
    (match parsePrimaryB L f ts with
    | some (l, ts') => parseLoopB L f m l ts'
    | none => none) := by
  rfl

theorem parseLoopB_succ (f m : Nat) (l : BExpr) (ts : List Tok) :
    parseLoopB L (f + 1) m l ts =
    (match ts with
    | .cmp o :: ts' =>
      if m ≤ L.cmp o then
        (match parseB L f (L.cmp o + 1) ts' with
         | some (r, ts'') => parseLoopB L f m (.bin o l r) ts''
         | none => none)
      else some (l, ts)
    | _ => some (l, ts)) := by
  rfl


theorem monoB_all : ∀ f,
    (∀ ts r, parsePrimaryB L f ts = some r → parsePrimaryB L (f+1) ts = some r) ∧
    (∀ m ts r, parseB L f m ts = some r → parseB L (f+1) m ts = some r) ∧
    (∀ m l ts r, parseLoopB L f m l ts = some r → parseLoopB L (f+1) m l ts = some r) := by
  intro f
  induction f with
  | zero =>
    refine ⟨?_, ?_, ?_⟩
    · intro ts r h; simp [parsePrimaryB] at h
    · intro m ts r h; simp [parseB] at h
    · intro m l ts r h; simp [parseLoopB] at h
  | succ f ih =>
    obtain ⟨ihP, ihE, ihL⟩ := ih
    obtain ⟨_, eE, eL⟩ := mono_all L f
    refine ⟨?_, ?_, ?_⟩
    · intro ts r h
      rw [parsePrimaryB_succ] at h ⊢
      split at h
      · split at h
        · next b t2 heq => rw [ihP _ _ heq]; exact h
        · simp at h
      · exact h
      · split at h
        · next b t2 heq =>
          rw [ihE _ _ _ heq]
          split at h
          · next e =>
            split at h
            · next e' t3 heq2 => simp only [eL _ _ _ _ heq2]; exact h
            · simp at h
          · next hb =>
            cases b with
            | atom e => exact absurd rfl (hb e)
            | _ => exact h
        · simp at h
      · split at h
        · next e t1 heq => rw [eE _ _ _ heq]; exact h
        · simp at h
    · intro m ts r h
      rw [parseB_succ] at h ⊢
      split at h
      · next l ts' heq => rw [ihP _ _ heq]; exact ihL _ _ _ _ h
      · simp at h
    · intro m l ts r h
      rw [parseLoopB_succ] at h ⊢
      split at h
      · split at h
        · next hm =>
          split at h
          · next rr ts'' heq => rw [if_pos hm, ihE _ _ _ heq]; exact ihL _ _ _ _ h
          · simp at h
        · next hm => rw [if_neg hm]; exact h
      · exact h


theorem monoB_le {f f' : Nat} (hle : f ≤ f') :
    (∀ ts r, parsePrimaryB L f ts = some r → parsePrimaryB L f' ts = some r) ∧
    (∀ m ts r, parseB L f m ts = some r → parseB L f' m ts = some r) ∧
    (∀ m l ts r, parseLoopB L f m l ts = some r → parseLoopB L f' m l ts = some r) := by
  induction hle with
  | refl => exact ⟨fun _ _ h => h, fun _ _ _ h => h, fun _ _ _ _ h => h⟩
  | step _ ih =>
    obtain ⟨a, b, c⟩ := ih
    obtain ⟨a', b', c'⟩ := monoB_all L _
    exact ⟨fun ts r h => a' _ _ (a ts r h), fun m ts r h => b' _ _ _ (b m ts r h), fun m l ts r h => c' _ _ _ _ (c m l ts r h)⟩

def EvPB (ts : List Tok) (r : BExpr × List Tok) : Prop := ∃ f, parsePrimaryB L f ts = some r
def EvB (m : Nat) (ts : List Tok) (r : BExpr × List Tok) : Prop := ∃ f, parseB L f m ts = some r
def EvLB (m : Nat) (l : BExpr) (ts : List Tok) (r : BExpr × List Tok) : Prop := ∃ f, parseLoopB L f m l ts = some r

theorem EvPB_lnot {ts ts' : List Tok} {b : BExpr} (h : EvPB L ts (b, ts')) : EvPB L (.lnot :: ts) (.lnot b, ts') := by
  obtain ⟨f, hf⟩ := h
  exact ⟨f + 1, by rw [parsePrimaryB_succ]; simp only [hf]⟩

theorem EvPB_defined (x : String) (ts : List Tok) :
    EvPB L (.defined :: .lparen :: .ident x :: .rparen :: ts) (.defined x, ts) := ⟨1, by rw [parsePrimaryB_succ]⟩

theorem EvPB_paren_nonatom {ts ts' : List Tok} {b : BExpr} (h : EvB L 0 ts (b, .rparen :: ts'))
    (hb : ∀ e, b ≠ .atom e) : EvPB L (.lparen :: ts) (b, ts') := by
  obtain ⟨f, hf⟩ := h
  refine ⟨f + 1, ?_⟩
  rw [parsePrimaryB_succ]
  cases b with
  | atom e => exact absurd rfl (hb e)
  | _ => simp only [hf]

theorem EvPB_paren_atom {ts ts' ts3 : List Tok} {e e' : Expr} (h : EvB L 0 ts (.atom e, .rparen :: ts'))
    (h2 : EvL L 0 e ts' (e', ts3)) : EvPB L (.lparen :: ts) (.atom e', ts3) := by
  obtain ⟨f1, hf1⟩ := h
  obtain ⟨f2, hf2⟩ := h2
  refine ⟨max f1 f2 + 1, ?_⟩
  rw [parsePrimaryB_succ]
  simp only [(monoB_le L (Nat.le_max_left f1 f2)).2.1 _ _ _ hf1, (mono_le L (Nat.le_max_right f1 f2)).2.2 _ _ _ _ hf2]

theorem EvPB_expr {ts ts' : List Tok} {e : Expr} (h : EvE L 0 ts (e, ts'))
    (h1 : ∀ t, ts ≠ .lnot :: t) (h2 : ∀ t, ts ≠ .defined :: t) (h3 : ∀ t, ts ≠ .lparen :: t) :
    EvPB L ts (.atom e, ts') := by
  obtain ⟨f, hf⟩ := h
  refine ⟨f + 1, ?_⟩
  rw [parsePrimaryB_succ]
  split
  · next t => exact absurd rfl (h1 t)
  · next t => exact absurd rfl (h2 t)
  · next t => exact absurd rfl (h3 t)
  · simp only [hf]

theorem EvB_intro {m : Nat} {ts ts' : List Tok} {x : BExpr} {r : BExpr × List Tok}
    (h1 : EvPB L ts (x, ts')) (h2 : EvLB L m x ts' r) : EvB L m ts r := by
  obtain ⟨f1, hf1⟩ := h1
  obtain ⟨f2, hf2⟩ := h2
  refine ⟨max f1 f2 + 1, ?_⟩
  rw [parseB_succ, (monoB_le L (Nat.le_max_left f1 f2)).1 _ _ hf1]
  exact (monoB_le L (Nat.le_max_right f1 f2)).2.2 _ _ _ _ hf2

theorem EvLB_op {m : Nat} {o : CmpOp} {l rhs : BExpr} {ts ts' : List Tok} {r : BExpr × List Tok}
    (hm : m ≤ L.cmp o) (h1 : EvB L (L.cmp o + 1) ts (rhs, ts')) (h2 : EvLB L m (.bin o l rhs) ts' r) :
    EvLB L m l (.cmp o :: ts) r := by
  obtain ⟨f1, hf1⟩ := h1
  obtain ⟨f2, hf2⟩ := h2
  refine ⟨max f1 f2 + 1, ?_⟩
  rw [parseLoopB_succ]
  simp only [if_pos hm, (monoB_le L (Nat.le_max_left f1 f2)).2.1 _ _ _ hf1]
  exact (monoB_le L (Nat.le_max_right f1 f2)).2.2 _ _ _ _ hf2

def StopAtB (m : Nat) (ts : List Tok) : Prop := ∀ o ts', ts = .cmp o :: ts' → ¬ m ≤ L.cmp o

theorem EvLB_stop {m : Nat} {l : BExpr} {ts : List Tok} (h : StopAtB L m ts) : EvLB L m l ts (l, ts) := by
  refine ⟨1, ?_⟩
  rw [parseLoopB_succ]
  split
  · next o ts' => simp [h o ts' rfl]
  · rfl

/-- a plain `expr` is a primary of the bool level -/
theorem atom_of_expr : ∀ f ts e ts', parseExpr L f 0 ts = some (e, ts') → EvPB L ts (.atom e, ts') := by
  intro f
  induction f using Nat.strongRecOn with
  | _ f ih =>
    intro ts e ts' h
    cases f with
    | zero => simp [parseExpr] at h
    | succ f1 =>
      have h0 := h
      rw [parseExpr_succ] at h
      split at h
      · next x t1 hP =>
        cases ts with
        | nil => exact EvPB_expr L ⟨_, h0⟩ (fun _ e => by cases e) (fun _ e => by cases e) (fun _ e => by cases e)
        | cons tk ts1 =>
          cases tk with
          | lparen =>
            cases f1 with
            | zero => simp [parsePrimary] at hP
            | succ f2 =>
              rw [parsePrimary_succ] at hP
              simp only at hP
              split at hP
              · next e1 t2 heq =>
                simp only [Option.some.injEq, Prod.mk.injEq] at hP
                obtain ⟨rfl, rfl⟩ := hP
                have hin := ih f2 (by omega) _ _ _ heq
                have hB := EvB_intro L hin (EvLB_stop L (m := 0) (l := .atom e1) (ts := .rparen :: t2) (fun _ _ e => by cases e))
                exact EvPB_paren_atom L hB ⟨_, h⟩
              · simp at hP
          | lnot =>
            cases f1 with
            | zero => simp [parsePrimary] at hP
            | succ f2 => rw [parsePrimary_succ] at hP; simp at hP
          | defined =>
            cases f1 with
            | zero => simp [parsePrimary] at hP
            | succ f2 => rw [parsePrimary_succ] at hP; simp at hP
          | _ => exact EvPB_expr L ⟨_, h0⟩ (fun _ e => by cases e) (fun _ e => by cases e) (fun _ e => by cases e)
      · simp at h


def NoHigherB (m : Nat) (rest : List Tok) : Prop := ∀ o ts, rest = .cmp o :: ts → L.cmp o ≤ m

/-- text of a bool-level primary -/
def primText : BExpr → List Tok
  | .bin o l r => paren (prB L 0 (.bin o l r))
  | b => prB L 0 b

theorem prB_lnot (m : Nat) (c : BExpr) : prB L m (.lnot c) = .lnot :: primText L c := by
  cases c <;> simp [prB, primText]

theorem StopAt0_cmp (o : CmpOp) (t : List Tok) : StopAt L 0 (.cmp o :: t) :=
  ⟨fun _ _ e => (by cases e), fun _ _ e => (by cases e)⟩

theorem atom_prim (e : Expr) (rest : List Tok) (hs : StopAt L 0 rest) : EvPB L (pr L 0 e ++ rest) (.atom e, rest) := by
  have hn : NoHigher L 0 rest := fun o ts h => absurd (Nat.zero_le _) (hs.1 o ts h)
  obtain ⟨f, hf⟩ := parse_pr L e 0 0 rest (e, rest) (Nat.le_refl _) hn (EvL_stop L hs)
  exact atom_of_expr L f _ _ _ hf

theorem parse_prB (b : BExpr) :
    (∀ m k rest r, k ≤ m → NoHigherB L m rest → StopAt L 0 rest → EvLB L k b rest r → EvB L k (prB L m b ++ rest) r) ∧
    (∀ rest, StopAt L 0 rest → EvPB L (primText L b ++ rest) (b, rest)) := by
  induction b with
  | atom e =>
    refine ⟨?_, ?_⟩
    · intro m k rest r _ _ hs h
      exact EvB_intro L (atom_prim L e rest hs) h
    · intro rest hs
      exact atom_prim L e rest hs
  | bin o l r ihl ihr =>
    have bare : ∀ m k rest r', k ≤ m → m ≤ L.cmp o → NoHigherB L m rest → StopAt L 0 rest → EvLB L k (.bin o l r) rest r' →
        EvB L k ((prB L (L.cmp o) l ++ .cmp o :: prB L (L.cmp o + 1) r) ++ rest) r' := by
      intro m k rest r' hk hm hn hs h
      rw [List.append_assoc, List.cons_append]
      apply ihl.1 (L.cmp o) k _ r' (Nat.le_trans hk hm) (fun o' ts e => by cases e; exact Nat.le_refl _) (StopAt0_cmp L _ _)
      apply EvLB_op L (Nat.le_trans hk hm) _ h
      apply ihr.1 (L.cmp o + 1) (L.cmp o + 1) rest _ (Nat.le_refl _) (fun o' ts e => Nat.le_trans (hn o' ts e) (by omega)) hs
      exact EvLB_stop L (fun o' ts e hle => by have := hn o' ts e; omega)
    have prim : ∀ rest, EvPB L (paren (prB L (L.cmp o) l ++ .cmp o :: prB L (L.cmp o + 1) r) ++ rest) (.bin o l r, rest) := by
      intro rest
      rw [paren_append]
      refine EvPB_paren_nonatom L ?_ (fun e h => by cases h)
      exact bare 0 0 _ _ (Nat.le_refl _) (Nat.zero_le _) (fun _ _ e => by cases e) (StopAt_rparen L 0 rest)
        (EvLB_stop L (fun _ _ e => by cases e))
    refine ⟨?_, ?_⟩
    · intro m k rest r' hk hn hs h
      simp only [prB]
      split
      · next hm => exact bare m k rest r' hk hm hn hs h
      · exact EvB_intro L (prim rest) h
    · intro rest _
      have : primText L (.bin o l r) = paren (prB L (L.cmp o) l ++ .cmp o :: prB L (L.cmp o + 1) r) := by
        simp [primText, prB]
      rw [this]
      exact prim rest
  | lnot c ih =>
    have prim : ∀ rest, StopAt L 0 rest → EvPB L (.lnot :: primText L c ++ rest) (.lnot c, rest) := by
      intro rest hs
      rw [List.cons_append]
      exact EvPB_lnot L (ih.2 rest hs)
    refine ⟨?_, ?_⟩
    · intro m k rest r _ _ hs h
      rw [prB_lnot]
      exact EvB_intro L (prim rest hs) h
    · intro rest hs
      have : primText L (.lnot c) = .lnot :: primText L c := by
        simp only [primText]; exact prB_lnot L 0 c
      rw [this]
      exact prim rest hs
  | defined x =>
    refine ⟨?_, ?_⟩
    · intro m k rest r _ _ _ h
      exact EvB_intro L (EvPB_defined L x rest) h
    · intro rest _
      exact EvPB_defined L x rest

theorem parse_prB_top (b : BExpr) : EvB L 0 (prB L 0 b) (b, []) := by
  have := (parse_prB L b).1 0 0 [] (b, []) (Nat.le_refl _) (fun _ _ h => by cases h)
    ⟨fun _ _ h => (by cases h), fun _ _ h => (by cases h)⟩ (EvLB_stop L (fun _ _ h => by cases h))
  simpa using this


theorem fuelB_all : ∀ f,
    (∀ ts b ts', parsePrimaryB L f ts = some (b, ts') → ts'.length < ts.length ∧
        ∀ f', 3 * (ts.length - ts'.length) + 1 ≤ f' → parsePrimaryB L f' ts = some (b, ts')) ∧
    (∀ m ts b ts', parseB L f m ts = some (b, ts') → ts'.length < ts.length ∧
        ∀ f', 3 * (ts.length - ts'.length) + 2 ≤ f' → parseB L f' m ts = some (b, ts')) ∧
    (∀ m l ts b ts', parseLoopB L f m l ts = some (b, ts') → ts'.length ≤ ts.length ∧
        ∀ f', 3 * (ts.length - ts'.length) + 1 ≤ f' → parseLoopB L f' m l ts = some (b, ts')) := by
  intro f
  induction f with
  | zero =>
    refine ⟨?_, ?_, ?_⟩
    · intro ts e ts' h; simp [parsePrimaryB] at h
    · intro m ts e ts' h; simp [parseB] at h
    · intro m l ts e ts' h; simp [parseLoopB] at h
  | succ f ih =>
    obtain ⟨ihP, ihE, ihL⟩ := ih
    obtain ⟨_, eE, eL⟩ := fuel_all L f
    refine ⟨?_, ?_, ?_⟩
    · intro ts b ts' h
      rw [parsePrimaryB_succ] at h
      split at h
      · next t =>
        split at h
        · next b1 t2 heq =>
          simp only [Option.some.injEq, Prod.mk.injEq] at h
          obtain ⟨rfl, rfl⟩ := h
          obtain ⟨hlen, hfu⟩ := ihP _ _ _ heq
          simp only [List.length_cons] at hlen ⊢
          refine ⟨by omega, ?_⟩
          intro f' hf'
          obtain ⟨f'', rfl⟩ : ∃ f'', f' = f'' + 1 := ⟨f' - 1, by omega⟩
          rw [parsePrimaryB_succ]
          simp only [hfu f'' (by omega)]
        · simp at h
      · next t =>
        split at h
        · next x t2 =>
          simp only [Option.some.injEq, Prod.mk.injEq] at h
          obtain ⟨rfl, rfl⟩ := h
          simp only [List.length_cons]
          refine ⟨by omega, ?_⟩
          intro f' hf'
          obtain ⟨f'', rfl⟩ : ∃ f'', f' = f'' + 1 := ⟨f' - 1, by omega⟩
          rw [parsePrimaryB_succ]
        · simp at h
      · next t =>
        split at h
        · next b1 t2 heq =>
          obtain ⟨hlen, hfu⟩ := ihE _ _ _ _ heq
          simp only [List.length_cons] at hlen
          split at h
          · next e =>
            split at h
            · next e' t3 heq2 =>
              simp only [Option.some.injEq, Prod.mk.injEq] at h
              obtain ⟨rfl, rfl⟩ := h
              obtain ⟨hlen2, hfu2⟩ := eL _ _ _ _ _ heq2
              simp only [List.length_cons]
              refine ⟨by omega, ?_⟩
              intro f' hf'
              obtain ⟨f'', rfl⟩ : ∃ f'', f' = f'' + 1 := ⟨f' - 1, by omega⟩
              rw [parsePrimaryB_succ]
              simp only [hfu f'' (by simp only [List.length_cons]; omega), hfu2 f'' (by omega)]
            · simp at h
          · next hb =>
            simp only [Option.some.injEq, Prod.mk.injEq] at h
            obtain ⟨rfl, rfl⟩ := h
            simp only [List.length_cons]
            refine ⟨by omega, ?_⟩
            intro f' hf'
            obtain ⟨f'', rfl⟩ : ∃ f'', f' = f'' + 1 := ⟨f' - 1, by omega⟩
            rw [parsePrimaryB_succ]
            have hq := hfu f'' (by simp only [List.length_cons]; omega)
            cases b1 with
            | atom e => exact absurd rfl (hb e)
            | _ => simp only [hq]
        · simp at h
      · next h1 h2 h3 =>
        split at h
        · next e t1 heq =>
          simp only [Option.some.injEq, Prod.mk.injEq] at h
          obtain ⟨rfl, rfl⟩ := h
          obtain ⟨hlen, hfu⟩ := eE _ _ _ _ heq
          refine ⟨hlen, ?_⟩
          intro f' hf'
          obtain ⟨f'', rfl⟩ : ∃ f'', f' = f'' + 1 := ⟨f' - 1, by omega⟩
          rw [parsePrimaryB_succ]
          split
          · next t => exact absurd rfl (h1 t)
          · next t => exact absurd rfl (h2 t)
          · next t => exact absurd rfl (h3 t)
          · simp only [hfu f'' (by omega)]
        · simp at h
    · intro m ts b ts' h
      rw [parseB_succ] at h
      split at h
      · next l t1 heq =>
        obtain ⟨hlen1, hfu1⟩ := ihP _ _ _ heq
        obtain ⟨hlen2, hfu2⟩ := ihL _ _ _ _ _ h
        refine ⟨by omega, ?_⟩
        intro f' hf'
        obtain ⟨f'', rfl⟩ : ∃ f'', f' = f'' + 1 := ⟨f' - 1, by omega⟩
        rw [parseB_succ, hfu1 f'' (by omega)]
        exact hfu2 f'' (by omega)
      · simp at h
    · intro m l ts b ts' h
      rw [parseLoopB_succ] at h
      split at h
      · next o t =>
        split at h
        · next hm =>
          split at h
          · next rr t2 heq =>
            obtain ⟨hlen1, hfu1⟩ := ihE _ _ _ _ heq
            obtain ⟨hlen2, hfu2⟩ := ihL _ _ _ _ _ h
            simp only [List.length_cons] at *
            refine ⟨by omega, ?_⟩
            intro f' hf'
            obtain ⟨f'', rfl⟩ : ∃ f'', f' = f'' + 1 := ⟨f' - 1, by omega⟩
            rw [parseLoopB_succ]
            simp only [if_pos hm, hfu1 f'' (by omega)]
            exact hfu2 f'' (by omega)
          · simp at h
        · next hm =>
          simp only [Option.some.injEq, Prod.mk.injEq] at h
          obtain ⟨rfl, rfl⟩ := h
          refine ⟨Nat.le_refl _, ?_⟩
          intro f' hf'
          obtain ⟨f'', rfl⟩ : ∃ f'', f' = f'' + 1 := ⟨f' - 1, by omega⟩
          rw [parseLoopB_succ]
          simp only [if_neg hm]
      · next hno =>
        simp only [Option.some.injEq, Prod.mk.injEq] at h
        obtain ⟨rfl, rfl⟩ := h
        refine ⟨Nat.le_refl _, ?_⟩
        intro f' hf'
        obtain ⟨f'', rfl⟩ : ∃ f'', f' = f'' + 1 := ⟨f' - 1, by omega⟩
        rw [parseLoopB_succ]
        split
        · next o t => exact absurd rfl (hno o t)
        · rfl

theorem refParseB_of_Ev {ts : List Tok} {b : BExpr} (h : EvB L 0 ts (b, [])) : refParseB L ts = .ok b := by
  obtain ⟨f, hf⟩ := h
  obtain ⟨_, hfu⟩ := (fuelB_all L f).2.1 _ _ _ _ hf
  unfold refParseB
  rw [hfu (fuelFor ts) (by simp [fuelFor])]

theorem parse_print_bexpr (b : BExpr) : refParseB L (prB L 0 b) = .ok b := refParseB_of_Ev L (parse_prB_top L b)


/-! ### Python int operators -/

theorem shr_eq_fdiv (a : Int) (n : Nat) : a >>> n = Int.fdiv a (2 ^ n) := by
  rw [Int.shiftRight_eq_div_pow]
  rw [Int.fdiv_eq_ediv_of_nonneg]
  · norm_cast
  · exact Int.le_of_lt (Int.pow_pos (by decide))

theorem natAndNot_eq_ldiff (m n : Nat) : natAndNot m n = Nat.ldiff m n := by
  apply Nat.eq_of_testBit_eq
  intro i
  simp [natAndNot, Nat.testBit_xor, Nat.testBit_and, Nat.testBit_ldiff]
  cases Nat.testBit m i <;> cases Nat.testBit n i <;> rfl
theorem intAnd_eq_land (a b : Int) : intAnd a b = Int.land a b := by
  cases a <;> cases b <;> simp [intAnd, Int.land, natAndNot_eq_ldiff]
theorem intOr_eq_lor (a b : Int) : intOr a b = Int.lor a b := by
  cases a <;> cases b <;> simp [intOr, Int.lor, natAndNot_eq_ldiff]
theorem intXor_eq_xor (a b : Int) : intXor a b = Int.xor a b := by
  cases a <;> cases b <;> simp [intXor, Int.xor]


theorem xor_mask (k r : Nat) (h : r < 2 ^ k) : (2 ^ k - 1) ^^^ r = 2 ^ k - 1 - r := by
  have e : 2 ^ k - 1 - r = 2 ^ k - (r + 1) := by omega
  rw [e]
  apply Nat.eq_of_testBit_eq
  intro i
  rw [Nat.testBit_xor, Nat.testBit_two_pow_sub_one, Nat.testBit_two_pow_sub_succ h]
  by_cases hi : i < k
  · simp [hi]
  · have : r.testBit i = false := by
      apply Nat.testBit_lt_two_pow
      calc r < 2 ^ k := h
        _ ≤ 2 ^ i := Nat.pow_le_pow_right (by decide) (by omega)
    simp [hi, this]

theorem intAnd_mask (a : Int) (k : Nat) : intAnd a (((2 ^ k - 1 : Nat)) : Int) = a % 2 ^ k := by
  cases a with
  | ofNat n =>
    show Int.ofNat (n &&& (2 ^ k - 1)) = _
    rw [Nat.and_two_pow_sub_one_eq_mod]
    simp
  | negSucc n =>
    show Int.ofNat (natAndNot (2 ^ k - 1) n) = _
    have hpos : (0 : Int) < 2 ^ k := Int.pow_pos (by decide)
    rw [Int.negSucc_emod _ hpos]
    have hlt : n % 2 ^ k < 2 ^ k := Nat.mod_lt _ (Nat.two_pow_pos k)
    have h1 : natAndNot (2 ^ k - 1) n = (2 ^ k - 1) - n % 2 ^ k := by
      unfold natAndNot
      rw [Nat.and_comm, Nat.and_two_pow_sub_one_eq_mod, xor_mask _ _ hlt]
    rw [h1]
    have h2 : (2:Nat) ^ k ≥ 1 := Nat.two_pow_pos k
    simp only [Int.ofNat_eq_natCast]
    rw [Int.natCast_sub (by omega), Int.natCast_sub h2]
    simp

theorem size_goal_b (a : Int) : intAnd a 255 = a % 2 ^ 8 := by
  have := intAnd_mask a 8; simpa using this
theorem size_goal_h (a : Int) : intAnd a 65535 = a % 2 ^ 16 := by
  have := intAnd_mask a 16; simpa using this
theorem size_goal_w (a : Int) : intAnd a 4294967295 = a % 2 ^ 32 := by
  have := intAnd_mask a 32; simpa using this

theorem fmod_neg_divisor (a b : Int) (h : b < 0) : b < a.fmod b ∧ a.fmod b ≤ 0 := by
  have e : a.fmod b = -((-a).fmod (-b)) := by
    have := Int.neg_fmod_neg (-a) (-b)
    simp only [Int.neg_neg] at this
    omega
  have hc : 0 < -b := by omega
  have h1 := Int.fmod_nonneg_of_pos (-a) hc
  have h2 := Int.fmod_lt_of_pos (-a) hc
  omega


theorem asInt_eq (v : Val) : asInt v = Spec.needInt v := by cases v <;> rfl
theorem pyBoolInt_eq (b : Bool) : pyBoolInt b = Spec.ofBool b := rfl


/-! ### statements -/

theorem runStmts_length (env : Env) (ss : List Stmt) (ds : List (String × Dict))
    (h : runStmts env ss = .ok ds) : ds.length = ss.length := by
  induction ss generalizing ds with
  | nil => simp [runStmts] at h; subst h; rfl
  | cons s rest ih =>
    simp only [runStmts] at h
    cases h1 : stmtDict env s with
    | error e => simp [h1, bind, Except.bind] at h
    | ok c =>
      cases h2 : runStmts env rest with
      | error e => simp [h1, h2, bind, Except.bind] at h
      | ok cs =>
        simp [h1, h2, bind, Except.bind, pure, Except.pure] at h
        subst h
        simp [ih cs h2]

theorem runStmts_unsupported (env : Env) (ss : List Stmt) (k : String) (hk : Stmt.unsupported k ∈ ss) :
    ∃ e, runStmts env ss = .error e := by
  induction ss with
  | nil => cases hk
  | cons s rest ih =>
    simp only [runStmts]
    rcases List.mem_cons.mp hk with h | h
    · subst h
      exact ⟨_, rfl⟩
    · obtain ⟨e, he⟩ := ih h
      cases h1 : stmtDict env s with
      | error e' => exact ⟨e', by simp [bind, Except.bind]⟩
      | ok c => exact ⟨e, by simp [he, bind, Except.bind]⟩

theorem runSections_error (env : Env) (secs : List Section) (sec : Section) (hs : sec ∈ secs)
    (he : ∃ e, runStmts env sec.stmts = .error e) : ∃ e, runSections env secs = .error e := by
  induction secs with
  | nil => cases hs
  | cons s rest ih =>
    simp only [runSections]
    cases h0 : evalE env s.id with
    | error e' => exact ⟨e', by simp [bind, Except.bind]⟩
    | ok i =>
      rcases List.mem_cons.mp hs with h | h
      · subst h
        obtain ⟨e, he⟩ := he
        exact ⟨e, by simp [he, bind, Except.bind]⟩
      · obtain ⟨e, he'⟩ := ih h
        cases h1 : runStmts env s.stmts with
        | error e' => exact ⟨e', by simp [bind, Except.bind]⟩
        | ok cs => exact ⟨e, by simp [he', bind, Except.bind]⟩

theorem runProgram_unsupported (env : Env) (blocks : List Block) (secs : List Section) (sec : Section) (k : String)
    (hs : sec ∈ secs) (hk : Stmt.unsupported k ∈ sec.stmts) :
    ∃ e, runProgram env blocks secs = .error e := by
  simp only [runProgram]
  cases h0 : runBlocks env {} blocks with
  | error e' => exact ⟨e', by simp [bind, Except.bind]⟩
  | ok r =>
    obtain ⟨env', cfg⟩ := r
    obtain ⟨e, he⟩ := runSections_error env' secs sec hs (runStmts_unsupported env' _ k hk)
    exact ⟨e, by simp [he, bind, Except.bind]⟩


theorem intOf_evalE {env : Env} (hev : ∀ e v, Spec.eval env.vars e = .ok v → eval env.vars e = .ok v) {e : Expr} {v : Int}
    (h : Spec.intOf env e = some v) : evalE env e = .ok (.int v) := by
  unfold Spec.intOf at h
  unfold evalE
  split at h
  · next v' hv => simp at h; subst h; rw [hev _ _ hv]; rfl
  · simp at h

theorem checkAddr_ok {a : Int} (h : Spec.isAddr a = true) : checkAddr a = .ok () := by
  simp [Spec.isAddr] at h
  simp [checkAddr]
  omega

set_option maxHeartbeats 400000 in
theorem elab_simple (env : Env) (kbs : List KeyBlobDef) (hev : ∀ e v, Spec.eval env.vars e = .ok v → eval env.vars e = .ok v) (c : Cmd) :
    (∀ nsec e, Spec.cmdOf env kbs (.versionCheck nsec e) = some c → elabStmt env kbs (.versionCheck nsec e) = .ok c) ∧
    (∀ tgt arg, Spec.cmdOf env kbs (.jump tgt arg) = some c → elabStmt env kbs (.jump tgt arg) = .ok c) ∧
    (∀ sp tgt arg, Spec.cmdOf env kbs (.jumpSp sp tgt arg) = some c → elabStmt env kbs (.jumpSp sp tgt arg) = .ok c) ∧
    (Spec.cmdOf env kbs .eraseUnsecureAll = some c → elabStmt env kbs .eraseUnsecureAll = .ok c) := by
  refine ⟨?_, ?_, ?_, ?_⟩
  · intro nsec e h
    simp only [Spec.cmdOf, Option.bind_eq_bind, Option.bind_eq_some_iff] at h
    obtain ⟨v, hv, hc⟩ := h
    split at hc
    · simp at hc
      subst hc
      simp [elabStmt, stmtDict, intOf_evalE hev hv, bind, Except.bind, pure, Except.pure, cmdOfDict, Dict.get?, DVal.ofVal]
    · simp at hc
  · intro tgt arg h
    simp only [Spec.cmdOf, Option.bind_eq_bind, Option.bind_eq_some_iff] at h
    obtain ⟨a, ha, x, hx, hc⟩ := h
    split at hc
    · next hcond =>
      simp only [Bool.and_eq_true] at hcond
      have haddr := hcond.1
      simp at hc; subst hc
      cases arg with
      | none =>
        simp at hx; subst hx
        simp [elabStmt, stmtDict, intOf_evalE hev ha, bind, Except.bind, pure, Except.pure, cmdOfDict, Dict.get?, DVal.ofVal,
          callArgDict, Dict.update, valueToInt, checkAddr_ok haddr]
      | empty =>
        simp at hx; subst hx
        simp [elabStmt, stmtDict, intOf_evalE hev ha, bind, Except.bind, pure, Except.pure, cmdOfDict, Dict.get?, DVal.ofVal,
          callArgDict, Dict.update, valueToInt, checkAddr_ok haddr]
      | arg e =>
        simp at hx
        simp [elabStmt, stmtDict, intOf_evalE hev ha, intOf_evalE hev hx, bind, Except.bind, pure, Except.pure, cmdOfDict, Dict.get?, DVal.ofVal,
          callArgDict, Dict.update, valueToInt, checkAddr_ok haddr]
    · simp at hc
  · intro sp tgt arg h
    simp only [Spec.cmdOf, Option.bind_eq_bind, Option.bind_eq_some_iff] at h
    obtain ⟨s, hs, a, ha, x, hx, hc⟩ := h
    split at hc
    · next hcond =>
      simp only [Bool.and_eq_true] at hcond
      have haddr := hcond.1.1
      simp at hc; subst hc
      cases arg with
      | none =>
        simp at hx; subst hx
        simp [elabStmt, stmtDict, intOf_evalE hev ha, intOf_evalE hev hs, bind, Except.bind, pure, Except.pure, cmdOfDict, Dict.get?, DVal.ofVal,
          callArgDict, Dict.update, valueToInt, checkAddr_ok haddr]
      | empty =>
        simp at hx; subst hx
        simp [elabStmt, stmtDict, intOf_evalE hev ha, intOf_evalE hev hs, bind, Except.bind, pure, Except.pure, cmdOfDict, Dict.get?, DVal.ofVal,
          callArgDict, Dict.update, valueToInt, checkAddr_ok haddr]
      | arg e =>
        simp at hx
        simp [elabStmt, stmtDict, intOf_evalE hev ha, intOf_evalE hev hs, intOf_evalE hev hx, bind, Except.bind, pure, Except.pure, cmdOfDict, Dict.get?, DVal.ofVal,
          callArgDict, Dict.update, valueToInt, checkAddr_ok haddr]
    · simp at hc
  · intro h
    simp [Spec.cmdOf] at h
    subst h
    simp [elabStmt, stmtDict, bind, Except.bind, pure, Except.pure, cmdOfDict, Dict.get?, valueToInt, checkAddr, optMemId, memFlags,
      BdGrammar.eraseUnsecureAllAddress, BdGrammar.eraseUnsecureAllFlags]
    decide

/-- memory option: the dictionary entry the parser makes and the id the helper derives from it -/
theorem memOpt_cases {env : Env} (hev : ∀ e v, Spec.eval env.vars e = .ok v → eval env.vars e = .ok v) (key : String) {opt : MemOpt} {m : Int}
    (h : Spec.memIdOf env opt = some m) :
    (memOptDict env key opt = .ok [] ∧ m = 0) ∨
    (∃ v, memOptDict env key opt = .ok [(key, v)] ∧ (if truthyD v then getMemId env v else .ok 0) = .ok m) := by
  cases opt with
  | none => left; simp [Spec.memIdOf] at h; exact ⟨rfl, h.symm⟩
  | «at» e =>
    right
    simp only [Spec.memIdOf] at h
    refine ⟨.i m, ?_, ?_⟩
    · simp [memOptDict, intOf_evalE hev h, bind, Except.bind, pure, Except.pure, DVal.ofVal]
    · by_cases hm : m = 0 <;> simp [truthyD, getMemId, hm]
  | name n =>
    right
    simp only [Spec.memIdOf] at h
    split at h
    · simp at h
    · next hn =>
      split at h
      · next p hp =>
        split at h
        · next hp2 =>
          simp at h; subst h
          refine ⟨.s n, rfl, ?_⟩
          have hn' : (n != "") = true := by simpa using hn
          simp only [truthyD, hn', if_true, getMemId, hp, hp2]
        · simp at h
      · simp at h


theorem targetDict_addr {env : Env} (hev : ∀ e v, Spec.eval env.vars e = .ok v → eval env.vars e = .ok v) {e : Expr} {a : Int}
    (h : Spec.intOf env e = some a) : targetDict env (.addr e) = .ok [("address", .i a)] := by
  simp [targetDict, intOf_evalE hev h, bind, Except.bind, pure, Except.pure, DVal.ofVal]

theorem targetDict_range {env : Env} (hev : ∀ e v, Spec.eval env.vars e = .ok v → eval env.vars e = .ok v) {e1 e2 : Expr} {a b : Int}
    (h1 : Spec.intOf env e1 = some a) (h2 : Spec.intOf env e2 = some b) :
    targetDict env (.range e1 e2) = .ok [("address", .i a), ("length", .i (b - a))] := by
  simp [targetDict, intOf_evalE hev h1, intOf_evalE hev h2, bind, Except.bind, pure, Except.pure, liftPy, BdGrammar.rangeLength]

theorem intOr_zero_left (x : Int) : intOr 0 x = x := by
  cases x with
  | ofNat n => show Int.ofNat (0 ||| n) = _; simp
  | negSucc n => show Int.negSucc (natAndNot n 0) = _; simp [natAndNot]

set_option maxHeartbeats 400000 in
theorem elab_erase (env : Env) (kbs : List KeyBlobDef) (hev : ∀ e v, Spec.eval env.vars e = .ok v → eval env.vars e = .ok v) (c : Cmd)
    (opt : MemOpt) (t : Target) (h : Spec.cmdOf env kbs (.erase opt t) = some c) : elabStmt env kbs (.erase opt t) = .ok c := by
  cases t with
  | addr e =>
    simp only [Spec.cmdOf, Option.bind_eq_bind, Option.bind_eq_some_iff] at h
    obtain ⟨m, hm, a, ha, hc⟩ := h
    split at hc
    · next haddr =>
      simp at hc; subst hc
      rcases memOpt_cases hev "mem_opt" hm with ⟨hd, rfl⟩ | ⟨v, hd, hv⟩
      · simp [elabStmt, stmtDict, targetDict_addr hev ha, hd, bind, Except.bind, pure, Except.pure, cmdOfDict, Dict.get?, Dict.update,
          valueToInt, checkAddr_ok haddr, optMemId]
        decide
      · simp [elabStmt, stmtDict, targetDict_addr hev ha, hd, bind, Except.bind, pure, Except.pure, cmdOfDict, Dict.get?, Dict.update,
          valueToInt, checkAddr_ok haddr, optMemId, hv, intOr_zero_left]
    · simp at hc
  | range e1 e2 =>
    simp only [Spec.cmdOf, Option.bind_eq_bind, Option.bind_eq_some_iff] at h
    obtain ⟨m, hm, a, ha, b, hb, hc⟩ := h
    split at hc
    · next haddr =>
      simp at hc; subst hc
      simp only [Bool.and_eq_true] at haddr
      rcases memOpt_cases hev "mem_opt" hm with ⟨hd, rfl⟩ | ⟨v, hd, hv⟩
      · simp [elabStmt, stmtDict, targetDict_range hev ha hb, hd, bind, Except.bind, pure, Except.pure, cmdOfDict, Dict.get?, Dict.update,
          valueToInt, checkAddr_ok haddr.1, optMemId]
        decide
      · simp [elabStmt, stmtDict, targetDict_range hev ha hb, hd, bind, Except.bind, pure, Except.pure, cmdOfDict, Dict.get?, Dict.update,
          valueToInt, checkAddr_ok haddr.1, optMemId, hv, intOr_zero_left]
    · simp at hc


set_option maxHeartbeats 400000 in
theorem elab_eraseAll (env : Env) (kbs : List KeyBlobDef) (hev : ∀ e v, Spec.eval env.vars e = .ok v → eval env.vars e = .ok v) (c : Cmd)
    (opt : MemOpt) (h : Spec.cmdOf env kbs (.eraseAll opt) = some c) : elabStmt env kbs (.eraseAll opt) = .ok c := by
  simp only [Spec.cmdOf, Option.bind_eq_bind, Option.bind_eq_some_iff] at h
  obtain ⟨m, hm, hc⟩ := h
  simp at hc; subst hc
  rcases memOpt_cases hev "mem_opt" hm with ⟨hd, rfl⟩ | ⟨v, hd, hv⟩
  · simp [elabStmt, stmtDict, hd, bind, Except.bind, pure, Except.pure, cmdOfDict, Dict.get?, Dict.update,
      valueToInt, checkAddr, optMemId, BdGrammar.eraseAllAddress, BdGrammar.eraseAllFlags]
  · simp [elabStmt, stmtDict, hd, bind, Except.bind, pure, Except.pure, cmdOfDict, Dict.get?, Dict.update,
      valueToInt, checkAddr, optMemId, hv, BdGrammar.eraseAllAddress, BdGrammar.eraseAllFlags]

set_option maxHeartbeats 400000 in
theorem elab_enable (env : Env) (kbs : List KeyBlobDef) (hev : ∀ e v, Spec.eval env.vars e = .ok v → eval env.vars e = .ok v) (c : Cmd)
    (opt : MemOpt) (e : Expr) (h : Spec.cmdOf env kbs (.enable opt e) = some c) : elabStmt env kbs (.enable opt e) = .ok c := by
  simp only [Spec.cmdOf, Option.bind_eq_bind, Option.bind_eq_some_iff] at h
  obtain ⟨m, hm, a, ha, hc⟩ := h
  by_cases haddr : Spec.isAddr a = true
  case neg => simp [haddr] at hc
  simp [haddr] at hc; subst hc
  rcases memOpt_cases hev "mem_opt" hm with ⟨hd, rfl⟩ | ⟨v, hd, hv⟩
  · simp [elabStmt, stmtDict, hd, intOf_evalE hev ha, bind, Except.bind, pure, Except.pure, cmdOfDict, Dict.get?, Dict.update,
      valueToInt, optMemId, DVal.ofVal]
  · simp [elabStmt, stmtDict, hd, intOf_evalE hev ha, bind, Except.bind, pure, Except.pure, cmdOfDict, Dict.get?, Dict.update,
      valueToInt, optMemId, hv, DVal.ofVal]


set_option maxHeartbeats 400000 in
theorem elab_ksTo (env : Env) (kbs : List KeyBlobDef) (hev : ∀ e v, Spec.eval env.vars e = .ok v → eval env.vars e = .ok v) (c : Cmd)
    (opt : MemOpt) (t : Target) (h : Spec.cmdOf env kbs (.keystoreToNv opt t) = some c) :
    elabStmt env kbs (.keystoreToNv opt t) = .ok c := by
  cases opt with
  | none => simp [Spec.cmdOf] at h
  | name n => simp [Spec.cmdOf] at h
  | «at» me =>
    cases t with
    | range e1 e2 => simp [Spec.cmdOf] at h
    | addr e =>
      simp only [Spec.cmdOf, Option.bind_eq_bind, Option.bind_eq_some_iff] at h
      obtain ⟨m, hm, a, ha, hc⟩ := h
      split at hc
      · next hcond =>
        simp at hc; subst hc
        simp only [Bool.and_eq_true, decide_eq_true_eq] at hcond
        obtain ⟨⟨⟨htag, h0⟩, hff⟩, haddr⟩ := hcond
        simp [elabStmt, stmtDict, memOptDict, intOf_evalE hev hm, targetDict_addr hev ha, bind, Except.bind, pure, Except.pure,
          cmdOfDict, Dict.get?, Dict.update, valueToInt, checkAddr_ok haddr, DVal.ofVal]
        have hmem : m ∈ env.extMemTags := by simpa using htag
        have hr : ¬ (m < 0 ∨ 255 < m) := by omega
        simp [hmem, hr]
      · simp at hc

set_option maxHeartbeats 400000 in
theorem elab_ksFrom (env : Env) (kbs : List KeyBlobDef) (hev : ∀ e v, Spec.eval env.vars e = .ok v → eval env.vars e = .ok v) (c : Cmd)
    (opt : MemOpt) (t : Target) (h : Spec.cmdOf env kbs (.keystoreFromNv opt t) = some c) :
    elabStmt env kbs (.keystoreFromNv opt t) = .ok c := by
  cases opt with
  | none => simp [Spec.cmdOf] at h
  | name n => simp [Spec.cmdOf] at h
  | «at» me =>
    cases t with
    | range e1 e2 => simp [Spec.cmdOf] at h
    | addr e =>
      simp only [Spec.cmdOf, Option.bind_eq_bind, Option.bind_eq_some_iff] at h
      obtain ⟨m, hm, a, ha, hc⟩ := h
      split at hc
      · next hcond =>
        simp at hc; subst hc
        simp only [Bool.and_eq_true, decide_eq_true_eq] at hcond
        obtain ⟨⟨⟨htag, h0⟩, hff⟩, haddr⟩ := hcond
        simp [elabStmt, stmtDict, memOptDict, intOf_evalE hev hm, targetDict_addr hev ha, bind, Except.bind, pure, Except.pure,
          cmdOfDict, Dict.get?, Dict.update, valueToInt, checkAddr_ok haddr, DVal.ofVal]
        have hmem : m ∈ env.extMemTags := by simpa using htag
        have hr : ¬ (m < 0 ∨ 255 < m) := by omega
        simp [hmem, hr]
      · simp at hc


theorem crypto_ok {kbs : List KeyBlobDef} {i st en : Int} {key ctr : String} {swap : Bool} (kind : String) (useSwap : Bool) (d : Dict)
    (addr : Int) (input : String) (hd : d.get? "keyblob_id" = some (.i i)) (haddr : Spec.isAddr addr = true)
    (h : Spec.keyblobOf kbs i = some (st, en, key, ctr, swap)) :
    cryptoCmd kind useSwap kbs d addr input = .ok (.loadCrypto kind addr st en key ctr input (useSwap && swap)) := by
  unfold Spec.keyblobOf at h
  split at h
  · next k hk =>
    split at h
    · next vs ve vk vc hs he hkey hctr =>
      split at h
      · next hhex =>
        simp only [Bool.and_eq_true] at hhex
        split at h
        · next hb =>
          split at h
          · simp at h
          · next hbs =>
            simp at h
            obtain ⟨rfl, rfl, rfl, rfl, rfl⟩ := h
            have hbs' : k.content.get? "byte_swap" = none := by simpa using hbs
            simp [cryptoCmd, hd, lookupKeyblob, hk, hs, he, hkey, hctr, bind, Except.bind, pure, Except.pure, valueToInt, strOf, hhex.1,
              hhex.2, checkAddr_ok haddr, hb, hbs', valueToBool]
        · next v hb =>
          simp at h
          obtain ⟨rfl, rfl, rfl, rfl, rfl⟩ := h
          simp [cryptoCmd, hd, lookupKeyblob, hk, hs, he, hkey, hctr, bind, Except.bind, pure, Except.pure, valueToInt, strOf, hhex.1,
            hhex.2, checkAddr_ok haddr, hb, valueToBool]
        · simp at h
      · simp at h
    · simp at h
  · simp at h

set_option maxHeartbeats 400000 in
theorem elab_keywrap (env : Env) (kbs : List KeyBlobDef) (hev : ∀ e v, Spec.eval env.vars e = .ok v → eval env.vars e = .ok v) (c : Cmd)
    (id : Expr) (blob : String) (addr : Expr) (h : Spec.cmdOf env kbs (.keywrap id blob addr) = some c) :
    elabStmt env kbs (.keywrap id blob addr) = .ok c := by
  simp only [Spec.cmdOf, Option.bind_eq_bind, Option.bind_eq_some_iff] at h
  obtain ⟨i, hi, a, ha, ⟨st, en, key, ctr, swap⟩, hkb, hc⟩ := h
  split at hc
  · next haddr =>
    simp at hc; subst hc
    simp [elabStmt, stmtDict, intOf_evalE hev hi, intOf_evalE hev ha, bind, Except.bind, pure, Except.pure, cmdOfDict, Dict.get?,
      valueToInt, strOf, DVal.ofVal]
    have := crypto_ok "keywrap" false _ a blob (by simp [Dict.get?] : Dict.get? [("keyblob_id", DVal.i i), ("address", DVal.i a), ("values", DVal.s blob)] "keyblob_id" = some (.i i)) haddr hkb
    simpa using this
  · simp at hc


theorem fileOf_ok {env : Env} {d : LoadData} {bs : List UInt8} (h : Spec.fileOf env d = some bs) :
    ∃ p q, loadDataDict env d = .ok [("file", .s p)] ∧ (p != "") = true ∧ env.files.find? (fun q => q.1 == p) = some q ∧ q.2 = bs := by
  cases d with
  | file p =>
    simp only [Spec.fileOf] at h
    split at h
    · next hp =>
      simp only [Option.map_eq_some_iff] at h
      obtain ⟨q, hq, rfl⟩ := h
      exact ⟨p, q, rfl, hp, hq, rfl⟩
    · simp at h
  | source n =>
    simp only [Spec.fileOf] at h
    split at h
    · next sp hsp =>
      split at h
      · next hp =>
        simp only [Option.map_eq_some_iff] at h
        obtain ⟨q, hq, rfl⟩ := h
        exact ⟨sp.2, q, by simp [loadDataDict, hsp], hp, hq, rfl⟩
      · simp at h
    · simp at h
  | blob hx => simp [Spec.fileOf] at h
  | pattern e => simp [Spec.fileOf] at h

set_option maxHeartbeats 400000 in
theorem elab_encrypt (env : Env) (kbs : List KeyBlobDef) (hev : ∀ e v, Spec.eval env.vars e = .ok v → eval env.vars e = .ok v) (c : Cmd)
    (id : Expr) (opt : MemOpt) (d : LoadData) (t : Target)
    (h : Spec.cmdOf env kbs (.encrypt id opt d t) = some c) :
    elabStmt env kbs (.encrypt id opt d t) = .ok c := by
  cases t with
  | range e1 e2 => simp [Spec.cmdOf] at h
  | addr ea =>
    simp only [Spec.cmdOf, Option.bind_eq_bind, Option.bind_eq_some_iff] at h
    obtain ⟨i, hi, m, hm, a, ha, bs, hbs, ⟨st, en, key, ctr, swap⟩, hkb, hc⟩ := h
    by_cases haddr : Spec.isAddr a = true
    case neg => simp [haddr] at hc
    simp [haddr] at hc; subst hc
    obtain ⟨p, q, hdd, hp, hq, rfl⟩ := fileOf_ok hbs
    rcases memOpt_cases hev "load_opt" hm with ⟨hd, rfl⟩ | ⟨v, hd, hv⟩
    · simp [elabStmt, stmtDict, loadStmtDict, intOf_evalE hev hi, hd, hdd, targetDict_addr hev ha, bind, Except.bind, pure, Except.pure,
        cmdOfDict, Dict.get?, Dict.update, valueToInt, DVal.ofVal, hp, hq]
      simp only [Spec.hexOfBytes, List.append_assoc]
      refine Eq.trans (crypto_ok "encrypt" true _ a _ ?_ haddr hkb) ?_
      · simp [Dict.get?]
      · simp
    · simp [elabStmt, stmtDict, loadStmtDict, intOf_evalE hev hi, hd, hdd, targetDict_addr hev ha, bind, Except.bind, pure, Except.pure,
        cmdOfDict, Dict.get?, Dict.update, valueToInt, DVal.ofVal, hp, hq]
      simp only [Spec.hexOfBytes, List.append_assoc]
      refine Eq.trans (crypto_ok "encrypt" true _ a _ ?_ haddr hkb) ?_
      · simp [Dict.get?]
      · simp


set_option maxHeartbeats 400000 in
theorem elab_load_file (env : Env) (kbs : List KeyBlobDef) (hev : ∀ e v, Spec.eval env.vars e = .ok v → eval env.vars e = .ok v) (c : Cmd)
    (opt : MemOpt) (d : LoadData) (t : Target) (hd1 : ∀ e, d ≠ .pattern e) (hd2 : ∀ x, d ≠ .blob x)
    (h : Spec.cmdOf env kbs (.load opt d t) = some c) : elabStmt env kbs (.load opt d t) = .ok c := by
  simp only [Spec.cmdOf, Spec.loadCmdOf, Option.bind_eq_bind, Option.bind_eq_some_iff] at h
  obtain ⟨m, hm, hc⟩ := h
  cases t with
  | range e1 e2 =>
    cases d with
    | pattern e => exact absurd rfl (hd1 e)
    | blob x => exact absurd rfl (hd2 x)
    | file p => simp at hc
    | source n => simp at hc
  | addr ea =>
    have key : ∃ a bs, Spec.intOf env ea = some a ∧ Spec.fileOf env d = some bs ∧ Spec.isAddr a = true ∧ c = .load a m bs := by
      cases d with
      | pattern e => exact absurd rfl (hd1 e)
      | blob x => exact absurd rfl (hd2 x)
      | file p =>
        simp only [Option.bind_eq_bind, Option.bind_eq_some_iff] at hc
        obtain ⟨a, ha, bs, hbs, hc⟩ := hc
        split at hc
        · next haddr => simp at hc; exact ⟨a, bs, ha, hbs, haddr, hc.symm⟩
        · simp at hc
      | source n =>
        simp only [Option.bind_eq_bind, Option.bind_eq_some_iff] at hc
        obtain ⟨a, ha, bs, hbs, hc⟩ := hc
        split at hc
        · next haddr => simp at hc; exact ⟨a, bs, ha, hbs, haddr, hc.symm⟩
        · simp at hc
    obtain ⟨a, bs, ha, hbs, haddr, rfl⟩ := key
    obtain ⟨p, q, hdd, hp, hq, rfl⟩ := fileOf_ok hbs
    rcases memOpt_cases hev "load_opt" hm with ⟨hd, rfl⟩ | ⟨v, hd, hv⟩
    · simp [elabStmt, stmtDict, loadStmtDict, hd, hdd, targetDict_addr hev ha, bind, Except.bind, pure, Except.pure,
        cmdOfDict, loadCmd, Dict.get?, Dict.update, valueToInt, DVal.ofVal, hp, hq, checkAddr_ok haddr, optMemId]
    · simp [elabStmt, stmtDict, loadStmtDict, hd, hdd, targetDict_addr hev ha, bind, Except.bind, pure, Except.pure,
        cmdOfDict, loadCmd, Dict.get?, Dict.update, valueToInt, DVal.ofVal, hp, hq, checkAddr_ok haddr, optMemId, hv]


theorem byteLen_zero (fuel : Nat) : byteLen fuel 0 = 0 := by cases fuel <;> simp [byteLen]

theorem byteLen_le : ∀ k fuel v, v < 256 ^ k → byteLen fuel v ≤ k := by
  intro k
  induction k with
  | zero => intro fuel v h; have : v = 0 := by simpa using h
            subst this; simp [byteLen_zero]
  | succ k ih =>
    intro fuel v h
    cases fuel with
    | zero => simp [byteLen]
    | succ f =>
      simp only [byteLen]
      split
      · omega
      · have : v / 256 < 256 ^ k := by
          rw [Nat.div_lt_iff_lt_mul (by decide)]; rw [Nat.pow_succ] at h; omega
        have := ih f _ this
        omega

theorem byteLen_eq : ∀ k fuel v, 256 ^ k ≤ v → v < 256 ^ (k + 1) → k < fuel → byteLen fuel v = k + 1 := by
  intro k
  induction k with
  | zero =>
    intro fuel v h1 h2 h3
    cases fuel with
    | zero => omega
    | succ f =>
      simp only [byteLen]
      have hv : v ≠ 0 := by simp at h1; omega
      have hd : v / 256 = 0 := by simp at h2; omega
      simp [hv, hd, byteLen_zero]
  | succ k ih =>
    intro fuel v h1 h2 h3
    cases fuel with
    | zero => omega
    | succ f =>
      simp only [byteLen]
      have hpos : 0 < 256 ^ (k + 1) := Nat.pow_pos (by decide)
      have hv : v ≠ 0 := by omega
      have h1' : 256 ^ k ≤ v / 256 := by
        rw [Nat.le_div_iff_mul_le (by decide)]; rw [Nat.pow_succ] at h1; omega
      have h2' : v / 256 < 256 ^ (k + 1) := by
        rw [Nat.div_lt_iff_lt_mul (by decide)]; rw [Nat.pow_succ] at h2; omega
      simp [hv, ih f _ h1' h2' (by omega)]
      omega

theorem bytesCnt_le4 (v : Nat) (h : v < 2 ^ 32) : bytesCnt v ≤ 4 := by
  unfold bytesCnt
  split
  · omega
  · have e : (256 : Nat) ^ 4 = 2 ^ 32 := by decide
    have : byteLen (v + 1) v ≤ 4 := byteLen_le 4 _ _ (by omega)
    dsimp only
    split <;> omega


set_option maxHeartbeats 400000 in
theorem elab_load_pattern_prog (env : Env) (kbs : List KeyBlobDef) (hev : ∀ e v, Spec.eval env.vars e = .ok v → eval env.vars e = .ok v)
    (opt : MemOpt) (hopt : opt ≠ .none) (e ea : Expr) (m p a : Int)
    (hm : Spec.memIdOf env opt = some m) (hp : Spec.intOf env e = some p) (ha : Spec.intOf env ea = some a)
    (hc : (m == 4 && decide (0 < p) && decide (p ≤ 0xFFFFFFFF) && Spec.isAddr a) = true) :
    elabStmt env kbs (.load opt (.pattern e) (.addr ea)) = .ok (.prog a m p 0) := by
  simp only [Bool.and_eq_true, decide_eq_true_eq, beq_iff_eq] at hc
  obtain ⟨⟨⟨rfl, hp0⟩, hp1⟩, haddr⟩ := hc
  rcases memOpt_cases hev "load_opt" hm with ⟨hd, h0⟩ | ⟨v, hd, hv⟩
  · omega
  · have hvt : truthyD v = true := by
      by_cases ht : truthyD v = true
      · exact ht
      · simp [ht] at hv
    simp only [hvt, if_true] at hv
    have hpne : truthyD (.i p) = true := by simp [truthyD]; omega
    have hp1' : ¬ 4294967295 < p := by omega
    have hbc : bytesCnt p.toNat ≤ 4 := bytesCnt_le4 _ (by omega)
    have hneg : ¬ p < 0 := by omega
    have hr1 : ¬ (p < 0 ∨ 4294967295 < p) := by omega
    simp [elabStmt, stmtDict, loadStmtDict, hd, loadDataDict, intOf_evalE hev hp, targetDict_addr hev ha, bind, Except.bind, pure, Except.pure,
      cmdOfDict, loadCmd, progCmd, Dict.get?, Dict.update, valueToInt, checkAddr_ok haddr, optMemId, hv, hvt, hpne, hbc, hneg, hr1, hp1']


/-- the 4-byte fill word the model computes from a pattern -/
def modelFillWord (P : Nat) : Option (List UInt8) :=
  let n0 := byteLen (P + 1) P
  let n := if n0 == 0 then 1 else if n0 == 3 then 4 else n0
  if n != 1 && n != 2 && n != 4 then none else some (List.replicate (4 / n) (natBytesBE n P)).flatten

theorem fillWord_model (p : Int) (w : List UInt8) (h : Spec.fillWord p = some w) :
    ¬ p < 0 ∧ modelFillWord p.toNat = some w := by
  unfold Spec.fillWord at h
  split at h
  · simp at h
  · next hneg =>
    refine ⟨hneg, ?_⟩
    have hP : (p.toNat : Int) = p := Int.toNat_of_nonneg (by omega)
    generalize hPd : p.toNat = P at *
    split at h
    · next h1 =>
      simp at h; subst h
      have hlt : P < 256 := by omega
      by_cases hz : P = 0
      · subst hz
        simp [modelFillWord, byteLen, natBytesBE, List.replicate]
      · have hb : byteLen (P + 1) P = 1 := byteLen_eq 0 _ _ (by simp; omega) (by simpa using hlt) (by omega)
        simp [modelFillWord, hb, natBytesBE, List.replicate, Nat.mod_eq_of_lt hlt]
    · next h1 =>
      split at h
      · next h2 =>
        simp at h; subst h
        have hlo : 256 ≤ P := by omega
        have hlt : P < 65536 := by omega
        have hb : byteLen (P + 1) P = 2 := byteLen_eq 1 _ _ (by simpa using hlo) (by simpa using hlt) (by omega)
        have hd : P / 256 % 256 = P / 256 := Nat.mod_eq_of_lt (by omega)
        simp [modelFillWord, hb, natBytesBE, List.replicate, hd]
      · next h2 =>
        split at h
        · next h3 =>
          simp at h; subst h
          have hlo : 65536 ≤ P := by omega
          have hlt : P < 4294967296 := by omega
          have hd1 : P / 256 / 256 / 256 % 256 = P / 2 ^ 24 := by
            have : (2:Nat) ^ 24 = 16777216 := by decide
            omega
          have hd2 : P / 256 / 256 % 256 = P / 2 ^ 16 % 256 := by
            have : (2:Nat) ^ 16 = 65536 := by decide
            omega
          by_cases hmid : P < 16777216
          · have hb : byteLen (P + 1) P = 3 := byteLen_eq 2 _ _ (by simpa using hlo) (by simpa using hmid) (by omega)
            simp [modelFillWord, hb, natBytesBE, List.replicate, hd1, hd2]
          · have hb : byteLen (P + 1) P = 4 := byteLen_eq 3 _ _ (by simp; omega) (by simpa using hlt) (by omega)
            simp [modelFillWord, hb, natBytesBE, List.replicate, hd1, hd2]
        · simp at h

theorem fillCmd_core (addr p : Int) (w : List UInt8) (len : Int)
    (hw : Spec.fillWord p = some w) (haddr : Spec.isAddr addr = true) (hmod : Int.fmod len 4 = 0) :
    (if Int.fmod len 4 != 0 then (spsdkErr : R Cmd)
     else if p < 0 then otherErr
     else
      let P := p.toNat
      let n0 := byteLen (P + 1) P
      let n := if n0 == 0 then 1 else if n0 == 3 then 4 else n0
      if n != 1 && n != 2 && n != 4 then spsdkErr
      else
        let bytes := natBytesBE n P
        let rep := (List.replicate (4 / n) bytes).flatten
        match checkAddr addr with
        | .error e => .error e
        | .ok _ => .ok (.fill addr rep len)) = .ok (.fill addr w len) := by
  obtain ⟨hneg, hm⟩ := fillWord_model p w hw
  unfold modelFillWord at hm
  dsimp only at hm ⊢
  generalize (if (byteLen (p.toNat + 1) p.toNat == 0) = true then 1
      else if (byteLen (p.toNat + 1) p.toNat == 3) = true then 4 else byteLen (p.toNat + 1) p.toNat) = N at hm ⊢
  have hmod' : ¬ ((len.fmod 4 != 0) = true) := by rw [hmod]; decide
  split at hm
  · simp at hm
  · next hn =>
    simp only [Option.some.injEq] at hm
    rw [if_neg hmod', if_neg hneg, if_neg hn, checkAddr_ok haddr, hm]

theorem fillCmd_none (addr p : Int) (w : List UInt8) (hw : Spec.fillWord p = some w) (haddr : Spec.isAddr addr = true) :
    fillCmd addr p none = .ok (.fill addr w 4) := by
  unfold fillCmd
  exact fillCmd_core addr p w 4 hw haddr (by decide)

theorem fillCmd_some (addr p l : Int) (w : List UInt8) (hw : Spec.fillWord p = some w) (haddr : Spec.isAddr addr = true)
    (hl : l ≠ 0) (hmod : Int.fmod l 4 = 0) :
    fillCmd addr p (some l) = .ok (.fill addr w l) := by
  unfold fillCmd
  have : (if (l != 0) = true then l else 4) = l := by simp [hl]
  simp only [this]
  exact fillCmd_core addr p w l hw haddr hmod


set_option maxHeartbeats 400000 in
theorem elab_load_pattern (env : Env) (kbs : List KeyBlobDef) (hev : ∀ e v, Spec.eval env.vars e = .ok v → eval env.vars e = .ok v) (c : Cmd)
    (opt : MemOpt) (e : Expr) (t : Target)
    (h : Spec.cmdOf env kbs (.load opt (.pattern e) t) = some c) : elabStmt env kbs (.load opt (.pattern e) t) = .ok c := by
  simp only [Spec.cmdOf, Spec.loadCmdOf, Option.bind_eq_bind, Option.bind_eq_some_iff] at h
  obtain ⟨m, hm, p, hp, hc⟩ := h
  cases opt with
  | none =>
    simp only [Option.bind_eq_bind, Option.bind_eq_some_iff] at hc
    obtain ⟨w, hw, hc⟩ := hc
    cases t with
    | addr ea =>
      simp only [Option.bind_eq_bind, Option.bind_eq_some_iff] at hc
      obtain ⟨a, ha, hc⟩ := hc
      split at hc
      · next haddr =>
        simp at hc; subst hc
        simp [elabStmt, stmtDict, loadStmtDict, memOptDict, loadDataDict, intOf_evalE hev hp, targetDict_addr hev ha, bind, Except.bind,
          pure, Except.pure, cmdOfDict, Dict.get?, Dict.update, valueToInt, fillCmd_none a p w hw haddr]
      · simp at hc
    | range e1 e2 =>
      simp only [Option.bind_eq_bind, Option.bind_eq_some_iff] at hc
      obtain ⟨a, ha, b, hb, hc⟩ := hc
      split at hc
      · next hcond =>
        simp at hc; subst hc
        simp only [Bool.and_eq_true, decide_eq_true_eq, beq_iff_eq] at hcond
        obtain ⟨⟨haddr, hlt⟩, hmod⟩ := hcond
        have hl : b - a ≠ 0 := by omega
        have hmod' : Int.fmod (b - a) 4 = 0 := by
          rw [Int.fmod_eq_emod_of_nonneg _ (by decide)]; exact hmod
        simp [elabStmt, stmtDict, loadStmtDict, memOptDict, loadDataDict, intOf_evalE hev hp, targetDict_range hev ha hb, bind, Except.bind,
          pure, Except.pure, cmdOfDict, Dict.get?, Dict.update, valueToInt, fillCmd_some a p (b - a) w hw haddr hl hmod']
      · simp at hc
  | «at» me =>
    cases t with
    | range e1 e2 => simp at hc
    | addr ea =>
      simp only [Option.bind_eq_bind, Option.bind_eq_some_iff] at hc
      obtain ⟨a, ha, hc⟩ := hc
      split at hc
      · next hcond =>
        simp at hc; subst hc
        exact elab_load_pattern_prog env kbs hev _ (by simp) e ea m p a hm hp ha hcond
      · simp at hc
  | name n =>
    cases t with
    | range e1 e2 => simp at hc
    | addr ea =>
      simp only [Option.bind_eq_bind, Option.bind_eq_some_iff] at hc
      obtain ⟨a, ha, hc⟩ := hc
      split at hc
      · next hcond =>
        simp at hc; subst hc
        exact elab_load_pattern_prog env kbs hev _ (by simp) e ea m p a hm hp ha hcond
      · simp at hc

/-! ### program-fuse load of a 4- or 8-byte blob (hexadecimal string arithmetic) -/

theorem char_le_iff (a b : Char) : a ≤ b ↔ a.toNat ≤ b.toNat := by
  show a.val ≤ b.val ↔ _
  rw [UInt32.le_iff_toNat_le]; rfl

theorem isDigit_iff (c : Char) : c.isDigit = true ↔ 48 ≤ c.toNat ∧ c.toNat ≤ 57 := by
  unfold Char.isDigit
  simp only [Bool.and_eq_true, decide_eq_true_eq, ge_iff_le, UInt32.le_iff_toNat_le]
  rfl

theorem hexDigitVal_lt (c : Char) (h : isHexDigit c = true) : hexDigitVal c < 16 := by
  unfold isHexDigit at h
  unfold hexDigitVal
  simp only [Bool.or_eq_true, Bool.and_eq_true, decide_eq_true_eq, isDigit_iff, char_le_iff] at h ⊢
  have ha : ('a' : Char).toNat = 97 := rfl
  have hf : ('f' : Char).toNat = 102 := rfl
  have hA : ('A' : Char).toNat = 65 := rfl
  have hF : ('F' : Char).toNat = 70 := rfl
  rw [ha, hf, hA, hF] at h
  rw [ha, hf]
  split
  · omega
  · split <;> omega

def beVal (bs : List UInt8) : Nat := bs.foldl (fun acc b => acc * 256 + b.toNat) 0

theorem hexVal_foldl (cs : List Char) : ∀ (bs : List UInt8) (acc : Nat), Spec.hexBytes cs = some bs →
    cs.foldl (fun acc c => acc * 16 + hexDigitVal c) acc = bs.foldl (fun acc b => acc * 256 + b.toNat) acc := by
  induction cs using Spec.hexBytes.induct with
  | case1 => intro bs acc h; simp [Spec.hexBytes] at h; subst h; rfl
  | case2 a b rest hab ih =>
    intro bs acc h
    simp only [Spec.hexBytes, hab, if_true, Option.map_eq_some_iff] at h
    obtain ⟨t, ht, rfl⟩ := h
    simp only [Bool.and_eq_true] at hab
    have ha := hexDigitVal_lt a hab.1
    have hb := hexDigitVal_lt b hab.2
    simp only [List.foldl_cons]
    rw [ih t _ ht]
    congr 1
    have : (UInt8.ofNat (hexDigitVal a * 16 + hexDigitVal b)).toNat = hexDigitVal a * 16 + hexDigitVal b := by
      simp [UInt8.toNat_ofNat]; omega
    rw [this]; omega
  | case3 a b rest hab => intro bs acc h; simp [Spec.hexBytes, hab] at h
  | case4 cs h1 h2 =>
    intro bs acc h
    cases cs with
    | nil => exact absurd rfl h1
    | cons a r =>
      cases r with
      | nil => simp [Spec.hexBytes] at h
      | cons b r' => exact absurd rfl (h2 a b r')

theorem hexNat_eq (h : String) (bs : List UInt8) (hb : Spec.hexBytes h.toList = some bs) : hexNat h = beVal bs := by
  unfold hexNat hexVal beVal
  exact hexVal_foldl _ _ _ hb


theorem natBytesBE4 (b0 b1 b2 b3 : UInt8) :
    natBytesBE 4 (((b0.toNat * 256 + b1.toNat) * 256 + b2.toNat) * 256 + b3.toNat) = [b0, b1, b2, b3] := by
  have h0 := b0.toNat_lt; have h1 := b1.toNat_lt; have h2 := b2.toNat_lt; have h3 := b3.toNat_lt
  simp only [natBytesBE, List.nil_append, List.cons_append, List.cons.injEq, and_true]
  refine ⟨?_, ?_, ?_, ?_⟩
  · conv => rhs; rw [← UInt8.ofNat_toNat (x := b0)]
    congr 1; omega
  · conv => rhs; rw [← UInt8.ofNat_toNat (x := b1)]
    congr 1; omega
  · conv => rhs; rw [← UInt8.ofNat_toNat (x := b2)]
    congr 1; omega
  · conv => rhs; rw [← UInt8.ofNat_toNat (x := b3)]
    congr 1; omega

theorem swap32_be4 (b0 b1 b2 b3 : UInt8) :
    swap32 (((b0.toNat * 256 + b1.toNat) * 256 + b2.toNat) * 256 + b3.toNat)
      = ((b3.toNat * 256 + b2.toNat) * 256 + b1.toNat) * 256 + b0.toNat := by
  unfold swap32
  rw [natBytesBE4]
  simp

theorem byteLen_ge : ∀ k fuel v, 256 ^ k ≤ v → k < fuel → k + 1 ≤ byteLen fuel v := by
  intro k
  induction k with
  | zero =>
    intro fuel v h1 h3
    cases fuel with
    | zero => omega
    | succ f =>
      simp only [byteLen]
      have hv : v ≠ 0 := by simp at h1; omega
      simp [hv]
  | succ k ih =>
    intro fuel v h1 h3
    cases fuel with
    | zero => omega
    | succ f =>
      simp only [byteLen]
      have hpos : 0 < 256 ^ (k + 1) := Nat.pow_pos (by decide)
      have hv : v ≠ 0 := by omega
      have h1' : 256 ^ k ≤ v / 256 := by
        rw [Nat.le_div_iff_mul_le (by decide)]; rw [Nat.pow_succ] at h1; omega
      have := ih f _ h1' (by omega)
      simp [hv]; omega

theorem bytesCnt_8 (v : Nat) (hlo : 2 ^ 32 ≤ v) (hhi : v < 2 ^ 64) : 4 < bytesCnt v ∧ bytesCnt v ≤ 8 := by
  unfold bytesCnt
  have e4 : (256 : Nat) ^ 4 = 2 ^ 32 := by decide
  have e8 : (256 : Nat) ^ 8 = 2 ^ 64 := by decide
  have h1 : 5 ≤ byteLen (v + 1) v := byteLen_ge 4 _ _ (by omega) (by omega)
  have h2 : byteLen (v + 1) v ≤ 8 := byteLen_le 8 _ _ (by omega)
  have hv : v ≠ 0 := by omega
  simp only [hv, if_false]
  split <;> omega


theorem hexBytes_nonempty {h : String} {bs : List UInt8} (hb : Spec.hexBytes h.toList = some bs) (hne : bs ≠ []) : (h != "") = true := by
  by_cases he : h = ""
  · subst he; simp [Spec.hexBytes] at hb; exact (hne hb).elim
  · simpa using he

/-- `SB21Helper._prog` on a 4- or 8-byte blob (not starting with a zero word when 8 bytes long) -/
theorem progCmd_blob {env : Env} (d : Dict) (h : String) (bs : List UInt8) (a : Int) (v : DVal)
    (hb : Spec.hexBytes h.toList = some bs) (haddr : Spec.isAddr a = true)
    (hda : d.get? "address" = some (.i a)) (hdo : d.get? "load_opt" = some v) (hdv : d.get? "values" = some (.s h))
    (hv : getMemId env v = .ok 4) :
    (bs.length = 4 → progCmd env d = .ok (.prog a 4 (Spec.leWord bs) 0)) ∧
    (bs.length = 8 → Spec.leWord (bs.take 4) ≠ 0 →
      progCmd env d = .ok (.prog a 4 (Spec.leWord (bs.take 4)) (Spec.leWord (bs.drop 4)))) := by
  have hval := hexNat_eq h bs hb
  constructor
  · intro hl
    match bs, hl with
    | [b0, b1, b2, b3], _ =>
      have h0 := b0.toNat_lt; have h1 := b1.toNat_lt; have h2 := b2.toNat_lt; have h3 := b3.toNat_lt
      have hne := hexBytes_nonempty hb (by simp)
      have hv4 : hexNat h = ((b0.toNat * 256 + b1.toNat) * 256 + b2.toNat) * 256 + b3.toNat := by
        rw [hval]; simp [beVal]
      have hbc : bytesCnt (hexNat h) ≤ 4 := bytesCnt_le4 _ (by rw [hv4]; omega)
      have hsw := swap32_be4 b0 b1 b2 b3
      have hz : swap32 0 = 0 := by decide
      have hle : Spec.leWord [b0, b1, b2, b3] = ((((b3.toNat * 256 + b2.toNat) * 256 + b1.toNat) * 256 + b0.toNat : Nat) : Int) := by
        simp [Spec.leWord]
      unfold progCmd
      simp only [hda, hdo, hdv, Option.getD_some, valueToInt, hv, bind, Except.bind, Option.map_some, truthyD, hne]
      rw [if_pos trivial, if_pos hbc, hz, hv4, hsw, hle]
      have hw : ¬ ((decide ((((((b3.toNat * 256 + b2.toNat) * 256 + b1.toNat) * 256 + b0.toNat : Nat) : Int)) < 0) ||
          decide ((((((b3.toNat * 256 + b2.toNat) * 256 + b1.toNat) * 256 + b0.toNat : Nat) : Int)) > 4294967295)) = true) := by
        simp; omega
      simp [checkAddr_ok haddr, hw, pure, Except.pure]
      omega
  · intro hl hnz
    match bs, hl with
    | [b0, b1, b2, b3, b4, b5, b6, b7], _ =>
      have h0 := b0.toNat_lt; have h1 := b1.toNat_lt; have h2 := b2.toNat_lt; have h3 := b3.toNat_lt
      have h4 := b4.toNat_lt; have h5 := b5.toNat_lt; have h6 := b6.toNat_lt; have h7 := b7.toNat_lt
      have hne := hexBytes_nonempty hb (by simp)
      have hv8 : hexNat h = (((b0.toNat * 256 + b1.toNat) * 256 + b2.toNat) * 256 + b3.toNat) * 4294967296 +
          ((((b4.toNat * 256 + b5.toNat) * 256 + b6.toNat) * 256 + b7.toNat)) := by
        rw [hval]; simp [beVal]; omega
      have hle1 : Spec.leWord ([b0, b1, b2, b3, b4, b5, b6, b7].take 4) =
          ((((b3.toNat * 256 + b2.toNat) * 256 + b1.toNat) * 256 + b0.toNat : Nat) : Int) := by simp [Spec.leWord]
      have hle2 : Spec.leWord ([b0, b1, b2, b3, b4, b5, b6, b7].drop 4) =
          ((((b7.toNat * 256 + b6.toNat) * 256 + b5.toNat) * 256 + b4.toNat : Nat) : Int) := by simp [Spec.leWord]
      rw [hle1] at hnz
      have hhi : (((b0.toNat * 256 + b1.toNat) * 256 + b2.toNat) * 256 + b3.toNat) ≠ 0 := by
        intro hz; apply hnz; simp; omega
      have hbc := bytesCnt_8 (hexNat h) (by rw [hv8]; omega) (by rw [hv8]; omega)
      have hd : hexNat h / 2 ^ 32 = ((b0.toNat * 256 + b1.toNat) * 256 + b2.toNat) * 256 + b3.toNat := by rw [hv8]; omega
      have hm : hexNat h % 2 ^ 32 = ((b4.toNat * 256 + b5.toNat) * 256 + b6.toNat) * 256 + b7.toNat := by rw [hv8]; omega
      unfold progCmd
      simp only [hda, hdo, hdv, Option.getD_some, valueToInt, hv, bind, Except.bind, Option.map_some, truthyD, hne]
      rw [if_pos trivial, if_neg (by omega), if_pos hbc.2, hd, hm, swap32_be4, swap32_be4, hle1, hle2]
      clear hle1 hle2 hnz hbc hd hm hv8 hval hb
      simp [checkAddr_ok haddr, pure, Except.pure]
      rw [if_neg (by omega), if_neg (by omega)]


set_option maxHeartbeats 400000 in
theorem elab_load_blob_prog (env : Env) (kbs : List KeyBlobDef) (hev : ∀ e v, Spec.eval env.vars e = .ok v → eval env.vars e = .ok v)
    (c : Cmd) (opt : MemOpt) (h : String) (t : Target)
    (h1 : Spec.isPlainBlobLoad env (.load opt (.blob h) t) = false)
    (h2 : Spec.isProgBlobLeadingZeros env (.load opt (.blob h) t) = false)
    (hc : Spec.cmdOf env kbs (.load opt (.blob h) t) = some c) : elabStmt env kbs (.load opt (.blob h) t) = .ok c := by
  simp only [Spec.cmdOf, Spec.loadCmdOf, Option.bind_eq_bind, Option.bind_eq_some_iff] at hc
  obtain ⟨m, hm, hc⟩ := hc
  have hm4 : m = 4 := by
    simp [Spec.isPlainBlobLoad, hm] at h1; exact h1
  subst hm4
  cases t with
  | range e1 e2 => simp at hc
  | addr ea =>
    simp only [Option.bind_eq_bind, Option.bind_eq_some_iff] at hc
    obtain ⟨a, ha, bs, hbs, hc⟩ := hc
    have hz : ¬ (bs.length = 8 ∧ Spec.leWord (bs.take 4) = 0) := by
      simp [Spec.isProgBlobLeadingZeros, hm, hbs] at h2
      intro ⟨h8, h0⟩; exact h2 h8 h0
    split at hc
    · simp at hc
    · next hcond =>
      simp only [Bool.or_eq_true, Bool.not_eq_true', not_or, Bool.not_eq_false] at hcond
      obtain ⟨haddr, hne⟩ := hcond
      have haddr' : Spec.isAddr a = true := by simpa using haddr
      rcases memOpt_cases hev "load_opt" hm with ⟨hd, h0⟩ | ⟨v, hd, hv⟩
      · omega
      · have hvt : truthyD v = true := by
          by_cases ht : truthyD v = true
          · exact ht
          · simp [ht] at hv
        simp only [hvt, if_true] at hv
        have hbne : bs ≠ [] := by intro e; subst e; simp at hne
        have hhne := hexBytes_nonempty hbs hbne
        have key := progCmd_blob (env := env) [("load_opt", v), ("values", .s h), ("address", .i a)] h bs a v hbs haddr'
          (by simp [Dict.get?]) (by simp [Dict.get?]) (by simp [Dict.get?]) hv
        have hstep : elabStmt env kbs (.load opt (.blob h) (.addr ea)) =
            progCmd env [("load_opt", v), ("values", .s h), ("address", .i a)] := by
          simp [elabStmt, stmtDict, loadStmtDict, hd, loadDataDict, targetDict_addr hev ha, bind, Except.bind, pure, Except.pure,
            cmdOfDict, loadCmd, Dict.get?, Dict.update, valueToInt, optMemId, hv, hvt, hhne]
        rw [hstep]
        simp only [beq_self_eq_true, if_true] at hc
        split at hc
        · next h4 => simp at hc; subst hc; exact key.1 (by simpa using h4)
        · split at hc
          · next h8 =>
            simp at hc; subst hc
            have h8' : bs.length = 8 := by simpa using h8
            exact key.2 h8' (fun h0 => hz ⟨h8', h0⟩)
          · simp at hc


set_option maxHeartbeats 400000 in
theorem elab_call_reset (env : Env) (kbs : List KeyBlobDef) (hev : ∀ e v, Spec.eval env.vars e = .ok v → eval env.vars e = .ok v) (c : Cmd) :
    (∀ tgt arg, Spec.cmdOf env kbs (.call tgt arg) = some c → elabStmt env kbs (.call tgt arg) = .ok c) ∧
    (Spec.cmdOf env kbs .reset = some c → elabStmt env kbs .reset = .ok c) := by
  refine ⟨?_, ?_⟩
  · intro tgt arg h
    simp only [Spec.cmdOf, Option.bind_eq_bind, Option.bind_eq_some_iff] at h
    obtain ⟨a, ha, x, hx, hc⟩ := h
    split at hc
    · next hcond =>
      simp only [Bool.and_eq_true] at hcond
      have haddr := hcond.1
      simp at hc; subst hc
      cases arg with
      | none =>
        simp at hx; subst hx
        simp [elabStmt, stmtDict, intOf_evalE hev ha, bind, Except.bind, pure, Except.pure, cmdOfDict, Dict.get?, DVal.ofVal,
          callArgDict, Dict.update, valueToInt, checkAddr_ok haddr]
      | empty =>
        simp at hx; subst hx
        simp [elabStmt, stmtDict, intOf_evalE hev ha, bind, Except.bind, pure, Except.pure, cmdOfDict, Dict.get?, DVal.ofVal,
          callArgDict, Dict.update, valueToInt, checkAddr_ok haddr]
      | arg e =>
        simp at hx
        simp [elabStmt, stmtDict, intOf_evalE hev ha, intOf_evalE hev hx, bind, Except.bind, pure, Except.pure, cmdOfDict, Dict.get?,
          DVal.ofVal, callArgDict, Dict.update, valueToInt, checkAddr_ok haddr]
    · simp at hc
  · intro h
    simp [Spec.cmdOf] at h
    subst h
    simp [elabStmt, stmtDict, bind, Except.bind, cmdOfDict]

/-- every supported statement becomes exactly the command the Spec states — except the forms of the two open findings:
    a plain blob load, an 8-byte fuse blob starting with a zero word -/
theorem elab_one_cmd_except (env : Env) (kbs : List KeyBlobDef) (hev : ∀ e v, Spec.eval env.vars e = .ok v → eval env.vars e = .ok v)
    (s : Stmt) (c : Cmd) (h1 : Spec.isPlainBlobLoad env s = false) (h1b : Spec.isProgBlobLeadingZeros env s = false)
    (h : Spec.cmdOf env kbs s = some c) : elabStmt env kbs s = .ok c := by
  cases s with
  | load opt d t =>
    cases d with
    | blob x => exact elab_load_blob_prog env kbs hev c opt x t h1 h1b h
    | pattern e => exact elab_load_pattern env kbs hev c opt e t h
    | file p => exact elab_load_file env kbs hev c opt _ t (fun _ h => by cases h) (fun _ h => by cases h) h
    | source n => exact elab_load_file env kbs hev c opt _ t (fun _ h => by cases h) (fun _ h => by cases h) h
  | erase opt t => exact elab_erase env kbs hev c opt t h
  | eraseAll opt => exact elab_eraseAll env kbs hev c opt h
  | eraseUnsecureAll => exact (elab_simple env kbs hev c).2.2.2 h
  | enable opt e => exact elab_enable env kbs hev c opt e h
  | call tgt a => exact (elab_call_reset env kbs hev c).1 tgt a h
  | jump tgt a => exact (elab_simple env kbs hev c).2.1 tgt a h
  | jumpSp sp tgt a => exact (elab_simple env kbs hev c).2.2.1 sp tgt a h
  | reset => exact (elab_call_reset env kbs hev c).2 h
  | versionCheck nsec e => exact (elab_simple env kbs hev c).1 nsec e h
  | keystoreToNv opt t => exact elab_ksTo env kbs hev c opt t h
  | keystoreFromNv opt t => exact elab_ksFrom env kbs hev c opt t h
  | keywrap id blob addr => exact elab_keywrap env kbs hev c id blob addr h
  | encrypt id opt d t => exact elab_encrypt env kbs hev c id opt d t h
  | unsupported k => simp [Spec.cmdOf] at h

theorem mapM_some_length {α β : Type} (f : α → Option β) : ∀ (l : List α) (r : List β), l.mapM f = some r → r.length = l.length := by
  intro l
  induction l with
  | nil => intro r h; simp at h; subst h; rfl
  | cons a t ih =>
    intro r h
    simp only [List.mapM_cons, Option.bind_eq_bind, Option.bind_eq_some_iff] at h
    obtain ⟨b, _, t', ht, hr⟩ := h
    simp at hr; subst hr
    simp [ih t' ht]

end SpsdkVerif.Bd
