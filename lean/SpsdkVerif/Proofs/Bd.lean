/- Helper lemmas for Properties/C19.lean (single Mathlib modules allowed here). -/
import Mathlib.Data.Int.Bitwise
import SpsdkVerif.Spec.BdSem
import SpsdkVerif.Spec.BdStmtSem

namespace SpsdkVerif.Bd
open SpsdkVerif SpsdkVerif.Generated

theorem shr_eq_fdiv (a : Int) (n : Nat) : a >>> n = Int.fdiv a (2 ^ n) := by
  rw [Int.shiftRight_eq_div_pow]
  rw [Int.fdiv_eq_ediv_of_nonneg]
  · norm_cast
  · exact Int.le_of_lt (Int.pow_pos (by decide))

end SpsdkVerif.Bd
