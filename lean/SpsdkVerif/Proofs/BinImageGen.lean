/-
Helper lemmas tying the GENERATED geometry part of C16 (Generated/BinImageGeo.lean, re-read from
spsdk/utils/images.py on every run by tools/extract/gen_C16.py) to the hand model (Model/BinImage.lean).

Proof style (tools/ROBUSTNESS_BRIEF.md): nothing here depends on the syntactic shape of a generated body.
Decision functions are compared as propositions (`Bool.eq_iff_iff`, `simp` to arithmetic, `omega`), so
`not (a < b or c > d)` and `a >= b and c <= d` are the same to them; reductions over the children are used
only through "the result is an element of the list and bounds every element" (`maxOf_spec` / `minOf_spec`)
and a membership characterisation of whatever list expression the generator emitted; `align` is used only
through C20's contract (`C20.align_spec`), never through its body.
-/
import SpsdkVerif.Generated.BinImageGeo
import SpsdkVerif.Model.BinImage
import SpsdkVerif.Proofs.BinImage
import SpsdkVerif.Properties.C20

set_option linter.unusedSimpArgs false

namespace SpsdkVerif.BinImg
open SpsdkVerif SpsdkVerif.Misc SpsdkVerif.GeoComb SpsdkVerif.Generated.BinImageGeo

/-- `bool(self.binary)` -/
def binTruthy : Option Bytes → Bool
  | some b => !b.isEmpty
  | none => false
/-- `len(self.binary)` where it is evaluated (only behind `self.binary and …` / `… if self.binary else …`) -/
def rawLen : Option Bytes → Nat
  | some b => b.length
  | none => 0
/-- (offset, length) of every child, what the generated functions take for `self.sub_images` -/
def kidsOf (l : List Img) : List (Int × Int) := l.map (fun c => ((c.offset : Int), (c.len : Int)))

/-! ## decision functions: robust normal-form proofs (both sides to Prop, then linear arithmetic) -/

theorem vChildErr_eq (b l pl : Nat) : vChildErr b l pl = decide ((b : Int) + l - 1 ≥ pl) := by
  rw [Bool.eq_iff_iff]; simp [vChildErr] <;> omega

theorem vSiblingErr_eq (b l sb sl : Nat) :
    vSiblingErr b l sb sl = !(decide (((b : Int) + l - 1 < sb) ∨ ((b : Int) > sb + sl - 1))) := by
  rw [Bool.eq_iff_iff]; simp [vSiblingErr] <;> omega

theorem genInsertBefore_eq (a b : Nat) : genInsertBefore a b = decide (a < b) := by
  rw [Bool.eq_iff_iff]; simp [genInsertBefore] <;> omega

theorem binLen_cast (bin : Option Bytes) : (binLen bin : Int) = if binTruthy bin then (rawLen bin : Int) else 0 := by
  cases bin with
  | none => rfl
  | some b => cases b <;> simp [binLen, binTruthy, rawLen]

theorem vSelfErr_eq (off len : Nat) (bin : Option Bytes) :
    vSelfErr off len (binTruthy bin) (rawLen bin) = decide (binLen bin > len) := by
  have h := binLen_cast bin
  rw [Bool.eq_iff_iff]
  cases ht : binTruthy bin <;> simp [vSelfErr, ht] at h ⊢ <;> omega


theorem overlapsAny_eq_gen (b l : Nat) (sibs : List (Nat × Nat)) :
    overlapsAny b l sibs = sibs.any (fun s => vSiblingErr b l s.1 s.2) := by
  induction sibs with
  | nil => rfl
  | cons s rest ih =>
    obtain ⟨sb, sl⟩ := s
    rw [overlapsAny, List.any_cons, vSiblingErr_eq, ← ih]
    by_cases h : ((b : Int) + l - 1 < sb) ∨ ((b : Int) > sb + sl - 1)
    · simp only [h, if_true, decide_true, Bool.not_true, Bool.false_or]
    · simp only [h, if_false, decide_false, Bool.not_false, Bool.true_or]

/-! ## lists -/

theorem foldl_max_spec (l : List Int) : ∀ x, (l.foldl max x = x ∨ l.foldl max x ∈ l) ∧ x ≤ l.foldl max x ∧ ∀ y ∈ l, y ≤ l.foldl max x := by
  induction l with
  | nil => intro x; simp
  | cons a as ih =>
    intro x
    obtain ⟨h1, h2, h3⟩ := ih (max x a)
    simp only [List.foldl_cons, List.mem_cons]
    refine ⟨?_, by omega, ?_⟩
    · rcases h1 with h1 | h1
      · rw [h1]
        rcases Int.le_total x a with h | h
        · right; left; omega
        · left; omega
      · right; right; exact h1
    · intro y hy
      rcases hy with rfl | hy
      · omega
      · exact h3 y hy

theorem maxOf_spec (l : List Int) (h : l ≠ []) : ∃ m, maxOf l = some m ∧ m ∈ l ∧ ∀ x ∈ l, x ≤ m := by
  cases l with
  | nil => exact absurd rfl h
  | cons x xs =>
    obtain ⟨h1, h2, h3⟩ := foldl_max_spec xs x
    refine ⟨_, rfl, ?_, ?_⟩
    · rcases h1 with h1 | h1
      · rw [h1]; simp
      · exact List.mem_cons_of_mem _ h1
    · intro y hy
      rw [List.mem_cons] at hy
      rcases hy with rfl | hy
      · exact h2
      · exact h3 y hy

theorem foldl_min_spec (l : List Int) : ∀ x, (l.foldl min x = x ∨ l.foldl min x ∈ l) ∧ l.foldl min x ≤ x ∧ ∀ y ∈ l, l.foldl min x ≤ y := by
  induction l with
  | nil => intro x; simp
  | cons a as ih =>
    intro x
    obtain ⟨h1, h2, h3⟩ := ih (min x a)
    simp only [List.foldl_cons, List.mem_cons]
    refine ⟨?_, by omega, ?_⟩
    · rcases h1 with h1 | h1
      · rw [h1]
        rcases Int.le_total x a with h | h
        · left; omega
        · right; left; omega
      · right; right; exact h1
    · intro y hy
      rcases hy with rfl | hy
      · omega
      · exact h3 y hy

theorem minOf_spec (l : List Int) (h : l ≠ []) : ∃ m, minOf l = some m ∧ m ∈ l ∧ ∀ x ∈ l, m ≤ x := by
  cases l with
  | nil => exact absurd rfl h
  | cons x xs =>
    obtain ⟨h1, h2, h3⟩ := foldl_min_spec xs x
    refine ⟨_, rfl, ?_, ?_⟩
    · rcases h1 with h1 | h1
      · rw [h1]; simp
      · exact List.mem_cons_of_mem _ h1
    · intro y hy
      rw [List.mem_cons] at hy
      rcases hy with rfl | hy
      · exact h2
      · exact h3 y hy

theorem childrenEnd_ge (ch : List Img) : ∀ c ∈ ch, c.offset + c.len ≤ childrenEnd ch := by
  induction ch with
  | nil => intro c hc; cases hc
  | cons x xs ih =>
    intro c hc
    rw [childrenEnd]
    rw [List.mem_cons] at hc
    rcases hc with rfl | hc
    · omega
    · have := ih c hc; omega

theorem childrenEnd_attained (ch : List Img) : childrenEnd ch = 0 ∨ ∃ c ∈ ch, childrenEnd ch = c.offset + c.len := by
  induction ch with
  | nil => left; rfl
  | cons x xs ih =>
    rw [childrenEnd]
    rcases Nat.le_total (x.offset + x.len) (childrenEnd xs) with h | h
    · rw [Nat.max_eq_right h]
      rcases ih with ih | ⟨c, hc, he⟩
      · right; exact ⟨x, by simp, by omega⟩
      · right; exact ⟨c, by simp [hc], he⟩
    · rw [Nat.max_eq_left h]
      right; exact ⟨x, by simp, rfl⟩

/-- two multiples of `a` in the same window of width `a` are equal -/
theorem mult_unique (a n r1 r2 : Int) (ha : 0 < a) (h1 : a ∣ r1) (h2 : a ∣ r2)
    (b1 : n ≤ r1 ∧ r1 < n + a) (b2 : n ≤ r2 ∧ r2 < n + a) : r1 = r2 := by
  obtain ⟨k1, rfl⟩ := h1
  obtain ⟨k2, rfl⟩ := h2
  have : k1 = k2 := by
    rcases Int.lt_trichotomy k1 k2 with h | h | h
    · have : a * (k1 + 1) ≤ a * k2 := Int.mul_le_mul_of_nonneg_left (by omega) (by omega)
      rw [Int.mul_add] at this; omega
    · exact h
    · have : a * (k2 + 1) ≤ a * k1 := Int.mul_le_mul_of_nonneg_left (by omega) (by omega)
      rw [Int.mul_add] at this; omega
  rw [this]

theorem align_eq_alignNat (n a : Nat) (ha : 0 < a) : Generated.PyFuns.align n a = .ok (alignNat n a : Int) := by
  obtain ⟨r, hr, hd, h1, h2⟩ := C20.align_spec (n : Int) (a : Int) (by omega) (by omega)
  rw [hr]
  obtain ⟨s1, s2, s3⟩ := alignNat_spec n a ha
  have hdvd : (a : Int) ∣ (alignNat n a : Int) := by
    exact Int.natCast_dvd_natCast.mpr (Nat.dvd_of_mod_eq_zero s1)
  congr 1
  exact mult_unique a n r _ (by omega) hd hdvd ⟨h1, h2⟩ ⟨by omega, by omega⟩

/-- the `size` setter and the constructor, as the source has them now, both store the size rounded up to the alignment -/
theorem genSetSize_eq (n a : Nat) (ha : 0 < a) : genSetSize n a = .ok (alignNat n a : Int) := by
  unfold genSetSize; rw [align_eq_alignNat n a ha]

theorem genCtorSize_eq (n a : Nat) (ha : 0 < a) : genCtorSize n a = .ok (alignNat n a : Int) := by
  unfold genCtorSize; rw [align_eq_alignNat n a ha]

/-- `__len__` as the source computes it now is the model's `len` -/
theorem genLen_eq (i : Img) (ha : 0 < i.alignment) :
    genLen i.size (binTruthy i.binary) (rawLen i.binary) i.alignment (kidsOf i.children) = .ok (i.len : Int) := by
  cases i with
  | mk s o al bin pat ch =>
    simp only [Img.size, Img.binary, Img.alignment, Img.children] at ha ⊢
    rw [Img.len]
    unfold genLen
    by_cases hs : s = 0
    · subst hs
      simp only [Int.natCast_zero, ne_eq, not_true_eq_false, decide_false, Bool.false_eq_true, if_false]
      -- the maximum, whatever scalars the generator collected in front of the per-child list (the own binary's length, possibly
      -- literal zeros from a `default=0` / an initial value) and however it wrote the per-child expression
      generalize hown : (if binTruthy bin = true then (rawLen bin : Int) else 0) = own
      have hb : (binLen bin : Int) = own := by rw [← hown]; exact binLen_cast bin
      have key : ∀ (S P : List Int), (∀ x ∈ S, x = own ∨ x = 0) → own ∈ S →
          (∀ x, x ∈ P ↔ ∃ c ∈ ch, x = (c.offset : Int) + c.len) →
          maxOf (S ++ P) = some ((max (binLen bin) (childrenEnd ch) : Nat) : Int) := by
        intro S P hS hown' hP
        obtain ⟨m, hm, hmem, hub⟩ := maxOf_spec (S ++ P) (by intro h; rw [List.append_eq_nil_iff] at h; rw [h.1] at hown'; cases hown')
        rw [hm]; congr 1
        have h1 : (binLen bin : Int) ≤ m := by rw [hb]; exact hub _ (List.mem_append_left _ hown')
        apply Int.le_antisymm
        · rcases List.mem_append.mp hmem with hmem | hmem
          · rcases hS m hmem with h | h <;> omega
          · obtain ⟨c, hc, hmem⟩ := (hP m).mp hmem
            have := childrenEnd_ge ch c hc
            omega
        · have h2 : (childrenEnd ch : Int) ≤ m := by
            rcases childrenEnd_attained ch with h0 | ⟨c, hc, he⟩
            · omega
            · rw [he]
              have := hub ((c.offset : Int) + c.len) (List.mem_append_right _ ((hP _).mpr ⟨c, hc, rfl⟩))
              omega
          omega
      rw [key _ _
        (by intro x hx; simp only [List.mem_cons, List.not_mem_nil, or_false] at hx; omega)
        (by simp only [List.mem_cons, List.not_mem_nil, or_false, true_or, or_true])
        (by
          intro x
          simp only [List.mem_map, kidsOf, List.map_map, Function.comp]
          constructor
          · rintro ⟨c, hc, h⟩; exact ⟨c, hc, h.symm⟩
          · rintro ⟨c, hc, h⟩; exact ⟨c, hc, h.symm⟩)]
      simp only [ofOption]
      rw [align_eq_alignNat _ _ ha]
    · have : ((s : Int) ≠ 0) := by omega
      simp [hs]


/-! ## aligned_start / aligned_length (floor / ceil of a true division) -/

theorem floorTrueDiv_nat (x a : Nat) : floorTrueDiv x a = ((x / a : Nat) : Int) := by
  unfold floorTrueDiv
  rw [Int.fdiv_eq_ediv_of_nonneg _ (by omega)]
  exact (Int.natCast_ediv x a).symm

theorem ceilTrueDiv_nat (x a : Nat) (ha : 0 < a) : ceilTrueDiv x a * a = (alignNat x a : Int) := by
  -- the least multiple of `a` not below `x`, characterised rather than computed
  have hpos : (0 : Int) < a := by omega
  obtain ⟨s1, s2, s3⟩ := alignNat_spec x a ha
  have hdvd : (a : Int) ∣ (alignNat x a : Int) := Int.natCast_dvd_natCast.mpr (Nat.dvd_of_mod_eq_zero s1)
  unfold ceilTrueDiv
  have e := Int.emod_add_mul_ediv (-(x : Int)) a
  have l := Int.emod_lt_of_pos (-(x : Int)) hpos
  have g := Int.emod_nonneg (-(x : Int)) (Int.ne_of_gt hpos)
  rw [Int.fdiv_eq_ediv_of_nonneg _ (Int.le_of_lt hpos)]
  apply mult_unique a x _ _ hpos (Int.dvd_mul_left _ _) hdvd
  · rw [Int.neg_mul, Int.mul_comm]; constructor <;> omega
  · constructor <;> omega

theorem genAlignedStart_eq (abs al : Nat) : genAlignedStart abs al = ((abs / al * al : Nat) : Int) := by
  unfold genAlignedStart
  rw [floorTrueDiv_nat]
  simp

theorem genAlignedLength_eq (abs len al : Nat) (ha : 0 < al) :
    genAlignedLength abs len al = (alignNat (abs + len) al : Int) - ((abs / al * al : Nat) : Int) := by
  unfold genAlignedLength
  have h := ceilTrueDiv_nat (abs + len) al ha
  rw [Int.natCast_add] at h
  rw [h, floorTrueDiv_nat]
  simp

/-! ## add_image / append_image -/

theorem insertSorted_eq_gen (c : Img) (l : List Img) :
    insertSorted c l = insertAt l (firstIdx (fun x => genInsertBefore c.offset x.offset) l) c := by
  induction l with
  | nil => rfl
  | cons x xs ih =>
    rw [insertSorted, firstIdx, genInsertBefore_eq]
    by_cases h : c.offset < x.offset
    · simp [h, insertAt]
    · simp only [h, if_false, decide_false, Bool.false_eq_true]
      rw [ih]
      simp [insertAt]

/-! ## min_offset / update_offsets -/

theorem genMinOffset_spec (kids : List (Int × Int)) (h : kids ≠ []) :
    ∃ m, genMinOffset kids = .ok m ∧ (∃ k ∈ kids, k.1 = m) ∧ ∀ k ∈ kids, m ≤ k.1 := by
  have key : ∀ (L : List Int), (∀ x, x ∈ L ↔ ∃ k ∈ kids, k.1 = x) → ∀ mo, minOf L = mo →
      ∃ m, mo = some m ∧ (∃ k ∈ kids, k.1 = m) ∧ ∀ k ∈ kids, m ≤ k.1 := by
    intro L hchar mo hmo
    have hne : L ≠ [] := by
      obtain ⟨k, hk⟩ := List.exists_mem_of_ne_nil kids h
      intro hn
      have := (hchar k.1).mpr ⟨k, hk, rfl⟩
      rw [hn] at this; cases this
    obtain ⟨m, hm, hmem, hlb⟩ := minOf_spec L hne
    exact ⟨m, by rw [← hmo, hm], (hchar m).mp hmem, fun k hk => hlb _ ((hchar _).mpr ⟨k, hk, rfl⟩)⟩
  unfold genMinOffset
  generalize hL : minOf _ = mo
  obtain ⟨m, rfl, h1, h2⟩ := key _ (by intro x; simp only [List.mem_map, List.mem_append, List.not_mem_nil, false_or, or_false]) _ hL
  exact ⟨m, by simp [ofOption], h1, h2⟩

/-! ## export(): the fast path -/

theorem genExportFast_eq (bin : Option Bytes) (L size n : Nat) :
    genExportFast (binTruthy bin) (rawLen bin) L size n = (binTruthy bin && decide (L = rawLen bin) && decide (n = 0)) := by
  rw [Bool.eq_iff_iff]; simp [genExportFast] <;> omega


/-- the model's `export` takes its fast path exactly when the condition the source has now holds -/
theorem export_fast_gen (i : Img) :
    i.export = if genExportFast (binTruthy i.binary) (rawLen i.binary) i.len i.size i.children.length = true
      then .ok (i.binary.getD []) else finishExport i.alignment i.pattern (placeChildren i.children (ownBuf i.len i.binary i.pattern)) := by
  cases i with
  | mk s o al bin pat ch =>
    simp only [Img.binary, Img.size, Img.children, Img.alignment, Img.pattern, genExportFast_eq]
    by_cases hc : ∃ b, bin = some b ∧ ch = []
    · obtain ⟨b, rfl, rfl⟩ := hc
      rw [Img.export]
      simp only [placeChildren, binTruthy, rawLen, List.length_nil, decide_true, Bool.and_true, Option.getD_some]
      by_cases h : (!b.isEmpty && (Img.mk s o al (some b) pat []).len == b.length) = true
      · rw [if_pos h, if_pos]
        simp at h ⊢
        exact ⟨h.1, decide_eq_true h.2⟩
      · rw [if_neg h, if_neg]
        simp at h ⊢
        intro hb
        exact decide_eq_false (h hb)
    · rw [Img.export.eq_2 _ _ _ _ _ _ (by intro b hb hch; exact hc ⟨b, hb, hch⟩)]
      rw [if_neg]
      intro h
      simp only [Bool.and_eq_true, decide_eq_true_eq] at h
      obtain ⟨⟨h1, _⟩, h3⟩ := h
      cases bin with
      | none => simp [binTruthy] at h1
      | some b => exact hc ⟨b, rfl, List.length_eq_zero_iff.mp (by omega)⟩

end SpsdkVerif.BinImg
