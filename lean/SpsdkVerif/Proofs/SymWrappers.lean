/-
Helper lemmas for Properties/C09.lean about Model/SymWrappers.lean (core Lean only).
-/
import SpsdkVerif.Model.SymWrappers
import SpsdkVerif.Proofs.Crypto

namespace SpsdkVerif.SymWrappers
open SpsdkVerif SpsdkVerif.Crypto
open SpsdkVerif.Misc (beEnc beDec leEnc leDec)

/-! ### integer codecs (independent re-proofs: this file must not depend on C20's generated module) -/

theorem beDec_append_single (l : Bytes) (x : UInt8) : beDec (l ++ [x]) = beDec l * 256 + x.toNat := by
  simp [beDec, List.foldl_append]

theorem beDec_beEnc (n v : Nat) : beDec (beEnc n v) = v % 256 ^ n := by
  induction n generalizing v with
  | zero => simp [beEnc, beDec, Nat.mod_one]
  | succ n ih =>
    rw [beEnc, beDec_append_single, ih, UInt8.toNat_ofNat']
    have hp : 256 ^ (n + 1) = 256 * 256 ^ n := by rw [Nat.pow_succ, Nat.mul_comm]
    rw [hp, Nat.mod_mul]
    generalize v / 256 % 256 ^ n = q
    omega

theorem leDec_leEnc (n v : Nat) : leDec (leEnc n v) = v % 256 ^ n := by
  simp [leDec, leEnc, beDec_beEnc]

theorem enc32_length (l : Bool) (v : Nat) : (enc32 l v).length = 4 := by
  cases l <;> simp [enc32, beEnc_length, leEnc_length]

theorem dec32_enc32 (l : Bool) (v : Nat) : dec32 l (enc32 l v) = v % 4294967296 := by
  cases l <;> simp [dec32, enc32, beDec_beEnc, leDec_leEnc]

/-! ### option-IV handling -/

theorem ivOrDefault_length (iv : Option Bytes) (n : Nat)
    (h : iv = none ∨ iv = some [] ∨ ∃ v, iv = some v ∧ v.length = n) : (ivOrDefault iv n).length = n := by
  rcases h with h | h | ⟨v, h, hv⟩
  · subst h; simp [ivOrDefault]
  · subst h; simp [ivOrDefault]
  · subst h
    simp only [ivOrDefault]
    split <;> simp_all

theorem aesKeyOk_listed {k : Bytes} (h : aesKeyOk k = true) : aesKeySizeListed k = true := by
  simp [aesKeySizeListed, h]

/-! ### XTS with ciphertext stealing is only used through `xtsSteal`; on block multiples it is plain XTS -/

theorem xtsSteal_aligned (f : Bytes → Bytes) (d : Bool) (t0 m : Bytes) (h : m.length % 16 = 0) :
    xtsSteal f d t0 m = xtsAux f (m.length / 16) t0 m := by
  simp [xtsSteal, h]

/-! ### ciphertext stealing round trip -/

theorem xtsAux_prefix (f : Bytes → Bytes) : ∀ (n : Nat) (t a b : Bytes), a.length = 16 * n →
    xtsAux f n t (a ++ b) = xtsAux f n t a
  | 0, _, _, _, _ => rfl
  | n + 1, t, a, b, h => by
    have h16 : 16 ≤ a.length := by omega
    simp only [xtsAux]
    rw [List.take_append_of_le_length h16, List.drop_append_of_le_length h16,
      xtsAux_prefix f n _ (a.drop 16) b (by simp; omega)]

theorem xtsTweakAt_length (t0 : Bytes) (h : t0.length = 16) : ∀ n, (xtsTweakAt t0 n).length = 16
  | 0 => h
  | n + 1 => gfDouble_length _

theorem xtsBlock_length {f : Bytes → Bytes} (hf : ∀ b, (f b).length = 16) (t b : Bytes) (ht : t.length = 16) :
    (xtsBlock f t b).length = 16 := by simp [xtsBlock, hf, ht]

theorem xtsBlock_inv {f g : Bytes → Bytes} (hgf : ∀ b, b.length = 16 → g (f b) = b) (hf : ∀ b, (f b).length = 16)
    (t b : Bytes) (ht : t.length = 16) (hb : b.length = 16) : xtsBlock g t (xtsBlock f t b) = b := by
  have hx : (xorBytes b t).length = 16 := by simp [hb, ht]
  unfold xtsBlock
  rw [xorBytes_cancel_eq _ _ (by rw [hf, ht]), hgf _ hx, xorBytes_cancel_eq _ _ (by rw [hb, ht])]

/-- XTS with ciphertext stealing: decrypting an encryption returns the data, for every data unit of at least one block -/
theorem xtsSteal_inv {f g : Bytes → Bytes} (hgf : ∀ b, b.length = 16 → g (f b) = b) (hf : ∀ b, (f b).length = 16)
    (t0 m : Bytes) (ht : t0.length = 16) (hm : 16 ≤ m.length) :
    (xtsSteal f false t0 m).length = m.length ∧ xtsSteal g true t0 (xtsSteal f false t0 m) = m := by
  by_cases hr : m.length % 16 = 0
  · have hl : (xtsAux f (m.length / 16) t0 m).length = m.length := by
      rw [xtsAux_length hf _ _ _ ht]; omega
    rw [xtsSteal_aligned _ _ _ _ hr]
    refine ⟨hl, ?_⟩
    rw [xtsSteal_aligned _ _ _ _ (by rw [hl]; exact hr), hl]
    exact xtsAux_inv hgf hf _ _ _ ht (by omega)
  · -- notation
    have hn : 1 ≤ m.length / 16 := by omega
    have hrl : m.length % 16 < 16 := Nat.mod_lt _ (by omega)
    have hdm := Nat.div_add_mod m.length 16
    have htA := xtsTweakAt_length t0 ht (m.length / 16 - 1)
    have htB : (gfDouble (xtsTweakAt t0 (m.length / 16 - 1))).length = 16 := gfDouble_length _
    -- the pieces of the plaintext
    have hpre : (m.take (16 * (m.length / 16 - 1))).length = 16 * (m.length / 16 - 1) := by simp; omega
    have hlast : ((m.drop (16 * (m.length / 16 - 1))).take 16).length = 16 := by simp; omega
    have htail : (m.drop (16 * (m.length / 16))).length = m.length % 16 := by simp; omega
    have hsplit : m = m.take (16 * (m.length / 16 - 1)) ++ ((m.drop (16 * (m.length / 16 - 1))).take 16 ++
        m.drop (16 * (m.length / 16))) := by
      have e : 16 * (m.length / 16) = 16 * (m.length / 16 - 1) + 16 := by omega
      rw [e, ← List.drop_drop, List.take_append_drop, List.take_append_drop]
    -- the encryption, piece by piece
    have hcc := xtsBlock_length hf (xtsTweakAt t0 (m.length / 16 - 1)) ((m.drop (16 * (m.length / 16 - 1))).take 16) htA
    have hpp : (m.drop (16 * (m.length / 16)) ++
        (xtsBlock f (xtsTweakAt t0 (m.length / 16 - 1)) ((m.drop (16 * (m.length / 16 - 1))).take 16)).drop
          (m.length % 16)).length = 16 := by
      rw [List.length_append, htail, List.length_drop, hcc]; omega
    have hhead : (xtsAux f (m.length / 16 - 1) t0 m).length = 16 * (m.length / 16 - 1) :=
      xtsAux_length hf _ _ _ ht
    have hhead' : xtsAux f (m.length / 16 - 1) t0 m = xtsAux f (m.length / 16 - 1) t0 (m.take (16 * (m.length / 16 - 1))) := by
      have := xtsAux_prefix f (m.length / 16 - 1) t0 (m.take (16 * (m.length / 16 - 1)))
        (m.drop (16 * (m.length / 16 - 1))) hpre
      rwa [List.take_append_drop] at this
    have hC1 := xtsBlock_length hf (gfDouble (xtsTweakAt t0 (m.length / 16 - 1)))
      (m.drop (16 * (m.length / 16)) ++
        (xtsBlock f (xtsTweakAt t0 (m.length / 16 - 1)) ((m.drop (16 * (m.length / 16 - 1))).take 16)).drop
          (m.length % 16)) htB
    have hC2 : ((xtsBlock f (xtsTweakAt t0 (m.length / 16 - 1)) ((m.drop (16 * (m.length / 16 - 1))).take 16)).take
        (m.length % 16)).length = m.length % 16 := by
      rw [List.length_take, hcc]; omega
    have henc : xtsSteal f false t0 m = xtsAux f (m.length / 16 - 1) t0 m ++
        xtsBlock f (gfDouble (xtsTweakAt t0 (m.length / 16 - 1))) (m.drop (16 * (m.length / 16)) ++
          (xtsBlock f (xtsTweakAt t0 (m.length / 16 - 1)) ((m.drop (16 * (m.length / 16 - 1))).take 16)).drop
            (m.length % 16)) ++
        (xtsBlock f (xtsTweakAt t0 (m.length / 16 - 1)) ((m.drop (16 * (m.length / 16 - 1))).take 16)).take
          (m.length % 16) := by
      simp [xtsSteal, hr]
    have hlen : (xtsSteal f false t0 m).length = m.length := by
      rw [henc, List.length_append, List.length_append, hhead, hC1, hC2]; omega
    refine ⟨hlen, ?_⟩
    -- the decryption of that
    generalize hct : xtsSteal f false t0 m = ct at henc hlen
    have hd1 : ct.length / 16 = m.length / 16 := by rw [hlen]
    have hd2 : ct.length % 16 = m.length % 16 := by rw [hlen]
    have hdec : xtsSteal g true t0 ct = xtsAux g (m.length / 16 - 1) t0 ct ++
        xtsBlock g (xtsTweakAt t0 (m.length / 16 - 1)) (ct.drop (16 * (m.length / 16)) ++
          (xtsBlock g (gfDouble (xtsTweakAt t0 (m.length / 16 - 1))) ((ct.drop (16 * (m.length / 16 - 1))).take 16)).drop
            (m.length % 16)) ++
        (xtsBlock g (gfDouble (xtsTweakAt t0 (m.length / 16 - 1))) ((ct.drop (16 * (m.length / 16 - 1))).take 16)).take
          (m.length % 16) := by
      simp [xtsSteal, hd1, hd2, hr]
    rw [hdec]
    -- pieces of the ciphertext
    have e1 : xtsAux g (m.length / 16 - 1) t0 ct = m.take (16 * (m.length / 16 - 1)) := by
      rw [henc, List.append_assoc, xtsAux_prefix g _ _ _ _ hhead, hhead']
      exact xtsAux_inv hgf hf _ _ _ ht hpre
    have e2 : (ct.drop (16 * (m.length / 16 - 1))).take 16 =
        xtsBlock f (gfDouble (xtsTweakAt t0 (m.length / 16 - 1))) (m.drop (16 * (m.length / 16)) ++
          (xtsBlock f (xtsTweakAt t0 (m.length / 16 - 1)) ((m.drop (16 * (m.length / 16 - 1))).take 16)).drop
            (m.length % 16)) := by
      rw [henc, List.append_assoc, List.drop_left' hhead, List.take_left' hC1]
    have e3 : ct.drop (16 * (m.length / 16)) =
        (xtsBlock f (xtsTweakAt t0 (m.length / 16 - 1)) ((m.drop (16 * (m.length / 16 - 1))).take 16)).take
          (m.length % 16) := by
      rw [henc]
      apply List.drop_left'
      rw [List.length_append, hhead, hC1]; omega
    rw [e1, e2, e3, xtsBlock_inv hgf hf _ _ htB hpp]
    have e4 : (m.drop (16 * (m.length / 16)) ++
        (xtsBlock f (xtsTweakAt t0 (m.length / 16 - 1)) ((m.drop (16 * (m.length / 16 - 1))).take 16)).drop
          (m.length % 16)).drop (m.length % 16) =
        (xtsBlock f (xtsTweakAt t0 (m.length / 16 - 1)) ((m.drop (16 * (m.length / 16 - 1))).take 16)).drop
          (m.length % 16) := List.drop_left' htail
    have e5 : (m.drop (16 * (m.length / 16)) ++
        (xtsBlock f (xtsTweakAt t0 (m.length / 16 - 1)) ((m.drop (16 * (m.length / 16 - 1))).take 16)).drop
          (m.length % 16)).take (m.length % 16) = m.drop (16 * (m.length / 16)) := List.take_left' htail
    rw [e4, e5, List.take_append_drop, xtsBlock_inv hgf hf _ _ htA hlast, List.append_assoc]
    exact hsplit.symm

end SpsdkVerif.SymWrappers
