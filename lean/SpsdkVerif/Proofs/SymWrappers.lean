/-
Helper lemmas for Properties/C09.lean about Model/SymWrappers.lean (core Lean only).
-/
import SpsdkVerif.Model.SymWrappers
import SpsdkVerif.Proofs.Crypto

namespace SpsdkVerif.SymWrappers
open SpsdkVerif SpsdkVerif.Crypto
open SpsdkVerif.Misc (beEnc beDec leEnc leDec)

/-! ### integer codecs (independent re-proofs: this file must not depend on C20's generated module) -/

theorem beDec_append_single (l : Bytes) (x : UInt8) : beDec (l ++ [x]) = beDec l * 256 + x.toNat := by
  simp [beDec, List.foldl_append]

theorem beDec_beEnc (n v : Nat) : beDec (beEnc n v) = v % 256 ^ n := by
  induction n generalizing v with
  | zero => simp [beEnc, beDec, Nat.mod_one]
  | succ n ih =>
    rw [beEnc, beDec_append_single, ih, UInt8.toNat_ofNat']
    have hp : 256 ^ (n + 1) = 256 * 256 ^ n := by rw [Nat.pow_succ, Nat.mul_comm]
    rw [hp, Nat.mod_mul]
    generalize v / 256 % 256 ^ n = q
    omega

theorem leDec_leEnc (n v : Nat) : leDec (leEnc n v) = v % 256 ^ n := by
  simp [leDec, leEnc, beDec_beEnc]

theorem enc32_length (l : Bool) (v : Nat) : (enc32 l v).length = 4 := by
  cases l <;> simp [enc32, beEnc_length, leEnc_length]

theorem dec32_enc32 (l : Bool) (v : Nat) : dec32 l (enc32 l v) = v % 4294967296 := by
  cases l <;> simp [dec32, enc32, beDec_beEnc, leDec_leEnc]

/-! ### option-IV handling -/

theorem ivOrDefault_length (iv : Option Bytes) (n : Nat)
    (h : iv = none ∨ iv = some [] ∨ ∃ v, iv = some v ∧ v.length = n) : (ivOrDefault iv n).length = n := by
  rcases h with h | h | ⟨v, h, hv⟩
  · subst h; simp [ivOrDefault]
  · subst h; simp [ivOrDefault]
  · subst h
    simp only [ivOrDefault]
    split <;> simp_all

theorem aesKeyOk_listed {k : Bytes} (h : aesKeyOk k = true) : aesKeySizeListed k = true := by
  simp [aesKeySizeListed, h]

/-! ### XTS with ciphertext stealing is only used through `xtsSteal`; on block multiples it is plain XTS -/

theorem xtsSteal_aligned (f : Bytes → Bytes) (d : Bool) (t0 m : Bytes) (h : m.length % 16 = 0) :
    xtsSteal f d t0 m = xtsAux f (m.length / 16) t0 m := by
  simp [xtsSteal, h]

end SpsdkVerif.SymWrappers
