/-
C18 — interleavings of N processes (with crashes): the invariant behind `schedule_safe`,
the step bound and deadlock freedom.  See `Proofs/DbCacheSpec.lean` for the vocabulary.

Helper files: `DbCacheInvMeasure` (step bound), `DbCacheInvBase` (per-process invariant `PInv`, lock regions
`inLock`, the "has only seen the initial file" predicate `PreW`, specs of the local programs),
`DbCacheInvStep` (`StepIn ⟹ StepOut` for every action, for a kill and for an I/O error).

The invariant `Inv`:
  * every process satisfies `PInv` (answers/memory correct, `keys answers ++ todo = asked`, and a fact per
    program counter: snapshot buffers harmless / mergeable, pending exception classes caught, …);
  * a process is inside a lock region iff it is the lock holder (mutual exclusion);
  * a non-atomic writer about to dump sees the file missing or empty (nobody else writes in between);
  * the file is missing or mergeable (`FileGood`), OR it still is the initial file and — if the writer merges —
    every process has so far only seen the initial file (`PreW`: it is still in front of the load, or on a path
    — stale or exception handler — that ends with removing the file), so nobody merges it before it was
    validated (trusted after the fingerprint comparison) or removed.
-/
import SpsdkVerif.Proofs.DbCacheSpec
import SpsdkVerif.Proofs.DbCacheInvMeasure
import SpsdkVerif.Proofs.DbCacheInvStep

namespace SpsdkVerif.DbCache
open SpsdkVerif Sched

/-- every action strictly decreases the bound of the acting process -/
theorem pstep_measure (env : Env) (G : Guards) (i : Nat) (sh sh' : Sh) (p p' : Proc)
    (h : pstep env G i sh p = some (sh', p')) : p'.measure < p.measure :=
  pstep_measure_aux env G i sh sh' p p' h

theorem gstep_measure (env : Env) (G : Guards) (s s' : St) (l : Lbl) (hl : l.isWipe = false)
    (h : gstep env G s l = some s') : s'.totalMeasure < s.totalMeasure :=
  gstep_measure_aux env G s s' l hl h

/-- a schedule is never longer than the initial bound -/
theorem sched_length_le (env : Env) (G : Guards) (s s' : St) (sched : List Lbl)
    (h : runSched env G s sched = some s') :
    (sched.filter (fun l => !l.isWipe)).length + s'.totalMeasure ≤ s.totalMeasure :=
  sched_length_le_aux env G s s' sched h

end SpsdkVerif.DbCache

/-! ### the global invariant (helper names live in `SpsdkVerif.DbCache.Sched`) -/
namespace SpsdkVerif.DbCache.Sched
open SpsdkVerif

/-- the invariant of all reachable states -/
structure Inv (env : Env) (G : Guards) (f0 : Option Bytes) (queries : List (List Nat)) (s : St) : Prop where
  procs : ∀ (j : Nat) (q : Proc), s.procs[j]? = some q → PInv env G q
  lock : ∀ (j : Nat) (q : Proc), s.procs[j]? = some q → (inLock G q.pc = true ↔ s.sh.lock = some j)
  lockLt : ∀ j, s.sh.lock = some j → j < s.procs.length
  wr : ∀ (j : Nat) (q : Proc), s.procs[j]? = some q → q.pc = .wWrite → G.w.atomicWrite = false →
    s.sh.file = none ∨ s.sh.file = some []
  file : FileGood env G s.sh.file ∨
    (s.sh.file = f0 ∧ (G.w.mergesExisting = true → ∀ (j : Nat) (q : Proc), s.procs[j]? = some q → PreW env f0 q))
  asked : s.procs.map (·.asked) = queries

theorem get_set {α} {l : List α} {i j : Nat} {a q : α} (h : (l.set i a)[j]? = some q) :
    (j = i ∧ q = a) ∨ (j ≠ i ∧ l[j]? = some q) := by
  rw [List.getElem?_set] at h
  split at h
  · rename_i hij
    split at h
    · simp only [Option.some.injEq] at h; exact Or.inl ⟨hij.symm, h.symm⟩
    · cases h
  · rename_i hij; exact Or.inr ⟨fun h' => hij h'.symm, h⟩

theorem map_set_same {α β} (f : α → β) {l : List α} {i : Nat} {a b : α} (h : l[i]? = some a) (hf : f b = f a) :
    (l.set i b).map f = l.map f := by
  induction l generalizing i with
  | nil => simp
  | cons x xs ih =>
    cases i with
    | zero => simp at h; subst h; simp [hf]
    | succ i => simp only [List.getElem?_cons_succ] at h; simp [ih h]

variable {env : Env} {G : Guards} {f0 : Option Bytes} {queries : List (List Nat)}

theorem Inv.harmless {s : St} (h0 : FileSafe env G f0) (hinv : Inv env G f0 queries s) :
    FileSafe env G s.sh.file := by
  intro b hb
  rcases hinv.file with h | h
  · exact BytesGood.harmless (h b hb)
  · exact h0 b (by rw [← h.1, hb])

theorem Inv.stepIn {s : St} (h0 : FileSafe env G f0) (hinv : Inv env G f0 queries s) {i : Nat} {p : Proc}
    (hi : s.procs[i]? = some p) : StepIn env G f0 i s.sh p := by
  refine ⟨hinv.procs i p hi, hinv.harmless h0, ?_, hinv.lock i p hi, hinv.wr i p hi⟩
  intro hm
  rcases hinv.file with h | h
  · exact Or.inl h
  · exact Or.inr ⟨h.1, h.2 hm i p hi⟩

theorem Inv.lift {s : St} (hinv : Inv env G f0 queries s) {i : Nat} {p p' : Proc} {sh' : Sh}
    (hi : s.procs[i]? = some p) (out : StepOut env G f0 i s.sh p sh' p') :
    Inv env G f0 queries { sh := sh', procs := s.procs.set i p' } := by
  have hilt : i < s.procs.length := by
    rcases Nat.lt_or_ge i s.procs.length with h | h
    · exact h
    · rw [List.getElem?_eq_none h] at hi; cases hi
  refine ⟨?_, ?_, ?_, ?_, ?_, ?_⟩
  · intro j q hq
    rcases get_set hq with ⟨-, rfl⟩ | ⟨-, hq⟩
    · exact out.inv
    · exact hinv.procs j q hq
  · intro j q hq
    rcases get_set hq with ⟨rfl, rfl⟩ | ⟨hj, hq⟩
    · exact out.lockSelf
    · exact (hinv.lock j q hq).trans (out.lockOther j hj).symm
  · intro j hj
    simp only [List.length_set]
    by_cases hji : j = i
    · subst hji; exact hilt
    · exact hinv.lockLt j ((out.lockOther j hji).mp hj)
  · intro j q hq hpc ha
    rcases get_set hq with ⟨rfl, rfl⟩ | ⟨hj, hq⟩
    · exact out.wrSelf hpc ha
    · have hql : s.sh.lock = some j := (hinv.lock j q hq).mp (by rw [hpc]; rfl)
      have hnl : inLock G p.pc = false := by
        cases hl : inLock G p.pc with
        | false => rfl
        | true =>
          have := (hinv.lock i p hi).mp hl
          rw [hql] at this; cases this; exact absurd rfl hj
      rcases out.fileOther hnl with h | h
      · simp only; rw [h]; exact hinv.wr j q hq hpc ha
      · exact Or.inl h
  · rcases hinv.file with h | h
    · left
      rcases out.file with h' | h'
      · exact h'
      · simp only; rw [h'.1]; exact h
    · rcases out.file with h' | h'
      · exact Or.inl h'
      · right
        refine ⟨h'.1.trans h.1, fun hm j q hq => ?_⟩
        rcases get_set hq with ⟨rfl, rfl⟩ | ⟨hj, hq⟩
        · exact h'.2 hm h.1 (h.2 hm _ p hi)
        · exact h.2 hm j q hq
  · simp only
    rw [map_set_same (·.asked) hi out.asked]; exact hinv.asked

theorem initPC_cases (G : Guards) :
    initPC G = .lExists ∨ (initPC G = .lAcquire ∧ G.l.lockRead = true) ∨ (initPC G = .lOpen ∧ G.l.lockRead = false) := by
  unfold initPC
  by_cases h1 : G.l.existsGuard = true <;> by_cases h2 : G.l.lockRead = true <;> simp [h1, h2]

theorem Inv.init (queries : List (List Nat)) : Inv env G f0 queries (initSt G f0 queries) := by
  have hproc : ∀ (j : Nat) (q : Proc), (initSt G f0 queries).procs[j]? = some q → ∃ qs, q = initProc G qs := by
    intro j q hq
    simp only [initSt, List.getElem?_map, Option.map_eq_some_iff] at hq
    obtain ⟨qs, -, rfl⟩ := hq
    exact ⟨qs, rfl⟩
  refine ⟨?_, ?_, ?_, ?_, ?_, ?_⟩
  · intro j q hq
    obtain ⟨qs, rfl⟩ := hproc j q hq
    refine ⟨⟨by simp [initProc], by simp [initProc], by simp [initProc, keys]⟩, ?_⟩
    rcases initPC_cases G with h | h | h
    · simp [initProc, PcInv, h]
    · simp [initProc, PcInv, h.1, h.2]
    · simp [initProc, PcInv, h.1]
  · intro j q hq
    obtain ⟨qs, rfl⟩ := hproc j q hq
    rcases initPC_cases G with h | h | h
    · simp [initProc, initSt, inLock, h]
    · simp [initProc, initSt, inLock, h.1]
    · simp [initProc, initSt, inLock, h.1, h.2]
  · intro j hj; simp [initSt] at hj
  · intro j q hq hpc
    obtain ⟨qs, rfl⟩ := hproc j q hq
    rcases initPC_cases G with h | h | h
    · simp [initProc, h] at hpc
    · simp [initProc, h.1] at hpc
    · simp [initProc, h.1] at hpc
  · right
    refine ⟨rfl, fun _ j q hq => ?_⟩
    obtain ⟨qs, rfl⟩ := hproc j q hq
    rcases initPC_cases G with h | h | h
    · simp [initProc, PreW, h]
    · simp [initProc, PreW, h.1]
    · simp [initProc, PreW, h.1]
  · simp [initSt, initProc, Function.comp_def]

theorem Inv.gstep (hw : WF G) (he : EnvOK env G) (h0 : FileSafe env G f0) {s s' : St} {l : Lbl}
    (hinv : Inv env G f0 queries s) (hl : l.isWipe = false) (h : gstep env G s l = some s') :
    Inv env G f0 queries s' := by
  unfold DbCache.gstep at h
  split at h
  · split at h
    · cases h
    · rename_i p hp
      split at h
      · cases h
      · rename_i sh' p' hs
        simp only [Option.some.injEq] at h; subst h
        exact hinv.lift hp (pstep_out hw he (hinv.stepIn h0 hp) hs)
  · split at h
    · cases h
    · rename_i p hp
      split at h
      · cases h
      · rename_i sh' p' hs
        simp only [Option.some.injEq] at h; subst h
        exact hinv.lift hp (crashStep_out he (hinv.stepIn h0 hp) hs)
  · split at h
    · cases h
    · rename_i p hp
      split at h
      · cases h
      · rename_i sh' p' hs
        simp only [Option.some.injEq] at h; subst h
        exact hinv.lift hp (failStep_out hw he (hinv.stepIn h0 hp) hs)
  · simp [Lbl.isWipe] at hl

theorem Inv.run (hw : WF G) (he : EnvOK env G) (h0 : FileSafe env G f0) {s s' : St} {sched : List Lbl}
    (hinv : Inv env G f0 queries s) (hnw : ∀ l ∈ sched, l.isWipe = false)
    (h : runSched env G s sched = some s') : Inv env G f0 queries s' := by
  induction sched generalizing s with
  | nil => simp only [runSched, Option.some.injEq] at h; subst h; exact hinv
  | cons l ls ih =>
    simp only [runSched] at h
    split at h
    · cases h
    · rename_i s1 hs1
      exact ih (hinv.gstep hw he h0 (hnw l (List.mem_cons_self ..)) hs1)
        (fun l' hl' => hnw l' (List.mem_cons_of_mem _ hl')) h

theorem answers_eq {env : Env} (l : List (Nat × Nat)) (h : ∀ a ∈ l, EntOK env a) :
    l = disabledAnswers env (keys l) := by
  induction l with
  | nil => rfl
  | cons x xs ih =>
    have hx : x.2 = env.loadCfg x.1 := h x (List.mem_cons_self ..)
    have := ih (fun a ha => h a (List.mem_cons_of_mem _ ha))
    simp only [disabledAnswers, keys, List.map_cons, List.map_map] at this ⊢
    rw [← this, ← hx]

theorem PInv.safe {p : Proc} (h : PInv env G p) : ProcSafe env p := by
  refine ⟨?_, h.ans, ?_⟩
  · intro e hpc
    have := h.pc; simp [PcInv, hpc] at this
  · intro hpc
    have ht : p.todo = [] := by have := h.pc; simpa [PcInv, hpc] using this
    have hk := h.keys
    rw [ht, List.append_nil] at hk
    rw [← hk]; exact answers_eq _ h.ans

/-- an action is enabled unless the process is finished or waits for a lock somebody holds -/
theorem pstep_enabled (env : Env) (G : Guards) (i : Nat) (sh : Sh) (p : Proc)
    (hlive : p.pc.terminal = false) (hl : sh.lock = none ∨ inLock G p.pc = true) :
    (pstep env G i sh p).isSome = true := by
  cases hpc : p.pc with
  | lAcquire =>
    have : sh.lock = none := by simpa [hpc, inLock] using hl
    simp [pstep, hpc, this]
  | wAcquire =>
    have : sh.lock = none := by simpa [hpc, inLock] using hl
    simp [pstep, hpc, this]
  | done => simp [hpc, PC.terminal] at hlive
  | fatal e => simp [hpc, PC.terminal] at hlive
  | crashed => simp [hpc, PC.terminal] at hlive
  | lOpen => simp only [pstep, hpc]; split <;> rfl
  | lUnpickle => simp only [pstep, hpc]; split <;> rfl
  | lRemoveStale => simp only [pstep, hpc]; split <;> rfl
  | hRemove => simp only [pstep, hpc]; split <;> rfl
  | wOpenR => simp only [pstep, hpc]; split <;> rfl
  | wUnpickle =>
    simp only [pstep, hpc]; split
    · rfl
    · split <;> rfl
  | _ => simp [pstep, hpc]

theorem gstep_run_isSome (env : Env) (G : Guards) (s : St) (i : Nat) (p : Proc) (hi : s.procs[i]? = some p)
    (h : (pstep env G i s.sh p).isSome = true) : (DbCache.gstep env G s (.run i)).isSome = true := by
  simp only [DbCache.gstep, hi]
  split
  · rename_i hn; rw [hn] at h; cases h
  · rfl


/-- the invariant holds in every reachable state -/
theorem sched_Inv (env : Env) (G : Guards) (measured : List Exc)
    (hG : wfGuards G = true) (hP : PickleOK env measured) (hM : coversMeasured G measured = true)
    (f0 : Option Bytes) (h0 : FileSafe env G f0) (queries : List (List Nat))
    (sched : List Lbl) (hnw : ∀ l ∈ sched, l.isWipe = false)
    (s : St) (hrun : runSched env G (initSt G f0 queries) sched = some s) :
    Inv env G f0 queries s :=
  (Inv.init queries).run (WF.of G hG) (EnvOK.of hP hM) h0 hnw hrun

end SpsdkVerif.DbCache.Sched

namespace SpsdkVerif.DbCache
open SpsdkVerif Sched

/-- the safety invariant, for every reachable state of every schedule (crashes included) -/
theorem sched_inv (env : Env) (G : Guards) (measured : List Exc)
    (hG : wfGuards G = true) (hP : PickleOK env measured) (hM : coversMeasured G measured = true)
    (f0 : Option Bytes) (h0 : FileSafe env G f0) (queries : List (List Nat))
    (sched : List Lbl) (hnw : ∀ l ∈ sched, l.isWipe = false)
    (s : St) (hrun : runSched env G (initSt G f0 queries) sched = some s) :
    (∀ p ∈ s.procs, ProcSafe env p) ∧ FileSafe env G s.sh.file ∧ s.procs.map (·.asked) = queries := by
  have hinv := sched_Inv env G measured hG hP hM f0 h0 queries sched hnw s hrun
  refine ⟨?_, hinv.harmless h0, hinv.asked⟩
  intro p hp
  obtain ⟨j, hj⟩ := List.mem_iff_getElem?.mp hp
  exact (hinv.procs j p hj).safe

/-- no deadlock: while some process is unfinished, some process can act -/
theorem sched_progress (env : Env) (G : Guards) (measured : List Exc)
    (hG : wfGuards G = true) (hP : PickleOK env measured) (hM : coversMeasured G measured = true)
    (f0 : Option Bytes) (h0 : FileSafe env G f0) (queries : List (List Nat))
    (sched : List Lbl) (hnw : ∀ l ∈ sched, l.isWipe = false)
    (s : St) (hrun : runSched env G (initSt G f0 queries) sched = some s)
    (hlive : ∃ p ∈ s.procs, p.pc.terminal = false) :
    ∃ i, (gstep env G s (.run i)).isSome = true := by
  have hinv := sched_Inv env G measured hG hP hM f0 h0 queries sched hnw s hrun
  obtain ⟨p, hp, hpl⟩ := hlive
  cases hl : s.sh.lock with
  | none =>
    -- the lock is free: any unfinished process can act
    obtain ⟨j, hj⟩ := List.mem_iff_getElem?.mp hp
    exact ⟨j, gstep_run_isSome env G s j p hj (pstep_enabled env G j s.sh p hpl (Or.inl hl))⟩
  | some j =>
    -- the holder is inside its lock region, where every action is enabled
    have hjlt := hinv.lockLt j hl
    have hj : s.procs[j]? = some s.procs[j] := List.getElem?_eq_getElem hjlt
    have hin : inLock G s.procs[j].pc = true := (hinv.lock j _ hj).mpr hl
    have hlive : s.procs[j].pc.terminal = false := by
      cases hpc : s.procs[j].pc <;> simp [hpc, inLock, PC.terminal] at hin ⊢
    exact ⟨j, gstep_run_isSome env G s j _ hj (pstep_enabled env G j s.sh _ hlive (Or.inr hin))⟩

end SpsdkVerif.DbCache
