/-
C18 — interleavings of N processes (with crashes): the invariant behind `schedule_safe`,
the step bound and deadlock freedom.  See `Proofs/DbCacheSpec.lean` for the vocabulary.
-/
import SpsdkVerif.Proofs.DbCacheSpec

namespace SpsdkVerif.DbCache
open SpsdkVerif

/-- every action strictly decreases the bound of the acting process -/
theorem pstep_measure (env : Env) (G : Guards) (i : Nat) (sh sh' : Sh) (p p' : Proc)
    (h : pstep env G i sh p = some (sh', p')) : p'.measure < p.measure := by
  sorry

theorem gstep_measure (env : Env) (G : Guards) (s s' : St) (l : Lbl)
    (h : gstep env G s l = some s') : s'.totalMeasure < s.totalMeasure := by
  sorry

/-- a schedule is never longer than the initial bound -/
theorem sched_length_le (env : Env) (G : Guards) (s s' : St) (sched : List Lbl)
    (h : runSched env G s sched = some s') : sched.length + s'.totalMeasure ≤ s.totalMeasure := by
  sorry

/-- the safety invariant, for every reachable state of every schedule (crashes included) -/
theorem sched_inv (env : Env) (G : Guards) (measured : List Exc)
    (hG : wfGuards G = true) (hP : PickleOK env measured) (hM : coversMeasured G measured = true)
    (f0 : Option Bytes) (h0 : FileSafe env G f0) (queries : List (List Nat))
    (sched : List Lbl) (s : St) (hrun : runSched env G (initSt G f0 queries) sched = some s) :
    (∀ p ∈ s.procs, ProcSafe env p) ∧ FileSafe env G s.sh.file ∧ s.procs.map (·.asked) = queries := by
  sorry

/-- no deadlock: while some process is unfinished, some process can act -/
theorem sched_progress (env : Env) (G : Guards) (measured : List Exc)
    (hG : wfGuards G = true) (hP : PickleOK env measured) (hM : coversMeasured G measured = true)
    (f0 : Option Bytes) (h0 : FileSafe env G f0) (queries : List (List Nat))
    (sched : List Lbl) (s : St) (hrun : runSched env G (initSt G f0 queries) sched = some s)
    (hlive : ∃ p ∈ s.procs, p.pc.terminal = false) :
    ∃ i, (gstep env G s (.run i)).isSome = true := by
  sorry

end SpsdkVerif.DbCache
