/- Proofs about the lexer model (C19): `lex (render ts) = ts` for every lexable token list.

Step lemmas: fixed-spelling tokens by computation (`rfl` on the lexer with the operator table read from the source: a changed
token order or regex in sly_bd_lexer.py changes `Generated.BdGrammar.tokenText` and breaks them), decimal numbers and
identifiers by character-class reasoning; then induction over the rendering with the look-behind invariant of INT_SIZE. -/
import SpsdkVerif.Model.BdText
import SpsdkVerif.Proofs.Bd
open SpsdkVerif SpsdkVerif.Bd SpsdkVerif.Generated

namespace SpsdkVerif.Bd

theorem lex_ws_step (srcs : List String) (f : Nat) (cs : List Char) (p1 p2 : Option Char) (acc : List Tok) :
    lexAux srcs (f + 1) (' ' :: cs) p1 p2 acc = lexAux srcs f cs (some ' ') p1 acc := rfl

/-- tokens with a fixed spelling -/
def isFixedTok : Tok → Bool
  | .op _ => true | .cmp _ => true | .lnot => true | .defined => true | .lparen => true | .rparen => true | _ => false

theorem lex_fixed_step (srcs : List String) (f : Nat) (t : Tok) (ht : isFixedTok t = true) (rest : List Char)
    (p1 p2 : Option Char) (acc : List Tok) :
    ∃ q1 q2, lexAux srcs (f + 1) (tokChars t ++ ' ' :: rest) p1 p2 acc = lexAux srcs f (' ' :: rest) q1 q2 (t :: acc) := by
  cases t with
  | op o => cases o <;> exact ⟨_, _, rfl⟩
  | cmp o => cases o <;> exact ⟨_, _, rfl⟩
  | lnot => exact ⟨_, _, rfl⟩
  | defined => exact ⟨_, _, rfl⟩
  | lparen => exact ⟨_, _, rfl⟩
  | rparen => exact ⟨_, _, rfl⟩
  | _ => simp [isFixedTok] at ht

theorem lex_dot_step (srcs : List String) (f : Nat) (s : IntSz) (rest : List Char) (p1 p2 : Option Char) (acc : List Tok) :
    lexAux srcs (f + 1) (tokChars .dot ++ (tokChars (.isize s) ++ rest)) p1 p2 acc =
      lexAux srcs f (tokChars (.isize s) ++ rest) (some '.') p1 (.dot :: acc) := by
  cases s <;> rfl

theorem lex_isize_step (srcs : List String) (f : Nat) (s : IntSz) (rest : List Char) (d : Char) (hd : isHexDigit d = true)
    (acc : List Tok) :
    ∃ q1 q2, lexAux srcs (f + 1) (tokChars (.isize s) ++ rest) (some '.') (some d) acc = lexAux srcs f rest q1 q2 (.isize s :: acc) := by
  cases s
  · exact ⟨some 'b', some '.', by simp [lexAux, tokChars, IntSz.letter, isWs, isLineComment, isBlockComment, isSizeAt, hd, sizeOfChar]⟩
  · exact ⟨some 'h', some '.', by simp [lexAux, tokChars, IntSz.letter, isWs, isLineComment, isBlockComment, isSizeAt, hd, sizeOfChar]⟩
  · exact ⟨some 'w', some '.', by simp [lexAux, tokChars, IntSz.letter, isWs, isLineComment, isBlockComment, isSizeAt, hd, sizeOfChar]⟩


/-! ### character facts -/
theorem beq_false_of_toNat_ne {c d : Char} (h : c.toNat ≠ d.toNat) : (c == d) = false := by
  simp only [beq_eq_false_iff_ne, ne_eq]
  intro e; exact h (by rw [e])

theorem isUpper_iff (c : Char) : c.isUpper = true ↔ 65 ≤ c.toNat ∧ c.toNat ≤ 90 := by
  unfold Char.isUpper
  simp only [Bool.and_eq_true, decide_eq_true_eq, ge_iff_le, UInt32.le_iff_toNat_le]
  rfl
theorem isLower_iff (c : Char) : c.isLower = true ↔ 97 ≤ c.toNat ∧ c.toNat ≤ 122 := by
  unfold Char.isLower
  simp only [Bool.and_eq_true, decide_eq_true_eq, ge_iff_le, UInt32.le_iff_toNat_le]
  rfl
theorem isAlpha_iff (c : Char) : c.isAlpha = true ↔ (65 ≤ c.toNat ∧ c.toNat ≤ 90) ∨ (97 ≤ c.toNat ∧ c.toNat ≤ 122) := by
  unfold Char.isAlpha
  simp only [Bool.or_eq_true, isUpper_iff, isLower_iff]

theorem isIdStart_iff (c : Char) : isIdStart c = true ↔ c.toNat = 95 ∨ (65 ≤ c.toNat ∧ c.toNat ≤ 90) ∨ (97 ≤ c.toNat ∧ c.toNat ≤ 122) := by
  unfold isIdStart
  simp only [Bool.or_eq_true, isAlpha_iff, beq_iff_eq]
  constructor
  · rintro (h | h)
    · left; rw [h]; rfl
    · right; exact h
  · rintro (h | h)
    · left; exact Char.toNat_inj.mp (by rw [h]; rfl) |> fun e => e
    · right; exact h


/-! ### decimal digits -/
theorem digitChar_isDigit (k : Nat) : (digitChar k).isDigit = true := by
  unfold digitChar; split <;> decide

theorem digitChar_val (k : Nat) (h : k < 10) : (digitChar k).toNat - 48 = k := by
  unfold digitChar; split <;> first | rfl | (simp_all; omega)

theorem digitChar_zero (k : Nat) (h : k < 10) : digitChar k = '0' → k = 0 := by
  unfold digitChar; split <;> first | (intro; rfl) | (intro e; exact absurd e (by decide))

def decVal' (ds : List Char) : Nat := ds.foldl (fun acc c => acc * 10 + (c.toNat - 48)) 0

theorem decVal_append (xs : List Char) (d : Char) : decVal (xs ++ [d]) = decVal xs * 10 + (d.toNat - 48) := by
  simp [decVal, List.foldl_append]

theorem decDigitsF_spec : ∀ f n, n ≤ f →
    (decDigitsF f n).all Char.isDigit = true ∧ decDigitsF f n ≠ [] ∧ decVal (decDigitsF f n) = n ∧
    ((decDigitsF f n).head? = some '0' → decDigitsF f n = ['0']) ∧
    (∃ k, (decDigitsF f n).getLast? = some (digitChar k)) := by
  intro f
  induction f with
  | zero =>
    intro n hn
    have : n = 0 := by omega
    subst this
    refine ⟨by decide, by simp [decDigitsF], by simp [decDigitsF, decVal], fun _ => rfl, ⟨0, rfl⟩⟩
  | succ f ih =>
    intro n hn
    unfold decDigitsF
    split
    · next hlt =>
      refine ⟨by simp [digitChar_isDigit], by simp, by simp [decVal, digitChar_val n hlt], ?_, ⟨n, by simp⟩⟩
      intro h
      simp at h
      have := digitChar_zero n hlt h
      subst this; rfl
    · next hge =>
      have hle : n / 10 ≤ f := by omega
      obtain ⟨h1, h2, h3, h4, _⟩ := ih (n / 10) hle
      refine ⟨by simp [h1, digitChar_isDigit], by simp, ?_, ?_, ⟨n % 10, by simp⟩⟩
      · rw [decVal_append, h3, digitChar_val _ (Nat.mod_lt _ (by decide))]; omega
      · intro h
        exfalso
        have hne := h2
        cases hd : decDigitsF f (n / 10) with
        | nil => exact hne hd
        | cons a t =>
          rw [hd] at h h4 h3
          simp at h
          subst h
          have := h4 rfl
          rw [this] at h3
          simp [decVal] at h3
          omega


theorem takeWhile_append_stop {p : Char → Bool} (xs : List Char) (c : Char) (rest : List Char)
    (hall : xs.all p = true) (hc : p c = false) : (xs ++ c :: rest).takeWhile p = xs ∧ (xs ++ c :: rest).dropWhile p = c :: rest := by
  induction xs with
  | nil => simp [List.takeWhile, List.dropWhile, hc]
  | cons a t ih =>
    simp only [List.all_cons, Bool.and_eq_true] at hall
    simp [List.takeWhile, List.dropWhile, hall.1, ih hall.2]

/-- the character after a printed token: a blank or the dot of an int-size suffix -/
def isSep (c : Char) : Bool := c == ' ' || c == '.'

theorem sep_facts {c : Char} (h : isSep c = true) : c.isDigit = false ∧ isIdChar c = false ∧ (c == 'K') = false := by
  simp only [isSep, Bool.or_eq_true, beq_iff_eq] at h
  rcases h with h | h <;> subst h <;> decide

theorem lexNumber_dec (ds : List Char) (c : Char) (rest : List Char) (hall : ds.all Char.isDigit = true) (hne : ds ≠ [])
    (hcanon : ds.head? = some '0' → ds = ['0']) (hc : isSep c = true) :
    lexNumber (ds ++ c :: rest) = some (.ok (decVal ds), c :: rest) := by
  obtain ⟨hc1, hc2, hc3⟩ := sep_facts hc
  obtain ⟨ht, hd⟩ := takeWhile_append_stop ds c rest hall hc1
  have hlead : (decide (ds.length > 1) && ds.head? == some '0' && ds.any (fun x => x != '0')) = false := by
    by_cases h0 : ds.head? = some '0'
    · rw [hcanon h0]; rfl
    · have : (ds.head? == some '0') = false := by simpa using h0
      simp [this]
  simp only [isSep, Bool.or_eq_true, beq_iff_eq] at hc
  unfold lexNumber
  simp only [ht, hd]
  rcases hc with hc | hc <;> subst hc <;> simp [hlead, isIdChar] <;> rfl

theorem decDigits_spec (n : Nat) :
    (decDigits n).all Char.isDigit = true ∧ decDigits n ≠ [] ∧ decVal (decDigits n) = n ∧
    ((decDigits n).head? = some '0' → decDigits n = ['0']) ∧ (∃ k, (decDigits n).getLast? = some (digitChar k)) :=
  decDigitsF_spec n n (Nat.le_refl n)


theorem prevAfter_fst (xs : List Char) (hne : xs ≠ []) (p1 p2 : Option Char) : (prevAfter xs p1 p2).1 = xs.getLast? := by
  unfold prevAfter
  have : xs.length ≥ 1 := by
    cases xs with
    | nil => exact absurd rfl hne
    | cons a t => simp
  simp only [this, if_true]
  rw [List.getLast?_eq_getElem?]

theorem digit_start_facts (d : Char) (h : d.isDigit = true) (cs : List Char) (p1 p2 : Option Char) :
    isWs d = false ∧ isLineComment d cs = false ∧ isBlockComment d cs = false ∧ isSizeAt d p1 p2 = false ∧ isIdStart d = false := by
  have hr := (isDigit_iff d).mp h
  have n1 : (d == ' ') = false := beq_false_of_toNat_ne (by have : (' ' : Char).toNat = 32 := rfl; omega)
  have n2 : (d == '\t') = false := beq_false_of_toNat_ne (by have : ('\t' : Char).toNat = 9 := rfl; omega)
  have n3 : (d == '\n') = false := beq_false_of_toNat_ne (by have : ('\n' : Char).toNat = 10 := rfl; omega)
  have n4 : (d == '#') = false := beq_false_of_toNat_ne (by have : ('#' : Char).toNat = 35 := rfl; omega)
  have n5 : (d == '/') = false := beq_false_of_toNat_ne (by have : ('/' : Char).toNat = 47 := rfl; omega)
  have n6 : (d == 'w') = false := beq_false_of_toNat_ne (by have : ('w' : Char).toNat = 119 := rfl; omega)
  have n7 : (d == 'h') = false := beq_false_of_toNat_ne (by have : ('h' : Char).toNat = 104 := rfl; omega)
  have n8 : (d == 'b') = false := beq_false_of_toNat_ne (by have : ('b' : Char).toNat = 98 := rfl; omega)
  have n9 : isIdStart d = false := by
    cases hs : isIdStart d with
    | false => rfl
    | true => have := (isIdStart_iff d).mp hs; omega
  simp [isWs, isLineComment, isBlockComment, isSizeAt, n1, n2, n3, n4, n5, n6, n7, n8, n9]

theorem lex_num_step (srcs : List String) (f n : Nat) (c : Char) (rest : List Char) (p1 p2 : Option Char) (acc : List Tok)
    (hp1 : p1 = none ∨ p1 = some ' ') (hc : isSep c = true) :
    ∃ q2, lexAux srcs (f + 1) (decDigits n ++ c :: rest) p1 p2 acc =
      lexAux srcs f (c :: rest) (decDigits n).getLast? q2 (.num n :: acc) := by
  obtain ⟨hall, hne, hval, hcanon, _⟩ := decDigits_spec n
  have hnum := lexNumber_dec (decDigits n) c rest hall hne hcanon hc
  generalize decDigits n = ds at *
  cases ds with
  | nil => exact absurd rfl hne
  | cons d0 dt =>
    have hd0 : d0.isDigit = true := by simp at hall; exact hall.1
    obtain ⟨f1, f2, f3, f4, f5⟩ := digit_start_facts d0 hd0 (dt ++ c :: rest) p1 p2
    refine ⟨(prevAfter (d0 :: dt) p1 p2).2, ?_⟩
    rw [← prevAfter_fst (d0 :: dt) (by simp) p1 p2]
    simp only [List.cons_append] at hnum ⊢
    have htake : List.take ((d0 :: (dt ++ c :: rest)).length - (c :: rest).length) (d0 :: (dt ++ c :: rest)) = d0 :: dt := by
      have hl : (d0 :: (dt ++ c :: rest)).length - (c :: rest).length = (d0 :: dt).length := by simp; omega
      rw [hl]
      have : d0 :: (dt ++ c :: rest) = (d0 :: dt) ++ c :: rest := by simp
      rw [this, List.take_left']
      rfl
    simp only [lexAux, f1, f2, f3, f4, f5, hd0, hnum, hval, htake]
    rcases hp1 with h | h <;> subst h <;> simp [isIdChar]


theorem idstart_facts (d : Char) (h : isIdStart d = true) (cs : List Char) (p1 p2 : Option Char) (hp1 : p1 = none ∨ p1 = some ' ') :
    isWs d = false ∧ isLineComment d cs = false ∧ isBlockComment d cs = false ∧ isSizeAt d p1 p2 = false := by
  have hr := (isIdStart_iff d).mp h
  have n1 : (d == ' ') = false := beq_false_of_toNat_ne (by have : (' ' : Char).toNat = 32 := rfl; omega)
  have n2 : (d == '\t') = false := beq_false_of_toNat_ne (by have : ('\t' : Char).toNat = 9 := rfl; omega)
  have n3 : (d == '\n') = false := beq_false_of_toNat_ne (by have : ('\n' : Char).toNat = 10 := rfl; omega)
  have n4 : (d == '#') = false := beq_false_of_toNat_ne (by have : ('#' : Char).toNat = 35 := rfl; omega)
  have n5 : (d == '/') = false := beq_false_of_toNat_ne (by have : ('/' : Char).toNat = 47 := rfl; omega)
  have hp : (p1 == some '.') = false := by rcases hp1 with h | h <;> subst h <;> rfl
  simp [isWs, isLineComment, isBlockComment, isSizeAt, n1, n2, n3, n4, n5, hp]

theorem validIdent_parts {srcs : List String} {x : String} (h : validIdent srcs x = true) :
    ∃ c w, x.toList = c :: w ∧ isIdStart c = true ∧ w.all isIdChar = true ∧
      BdGrammar.reserved.find? (fun p => p.1 == x) = none ∧ srcs.contains x = false := by
  unfold validIdent at h
  simp only [Bool.and_eq_true, Bool.not_eq_true', Option.isNone_iff_eq_none] at h
  obtain ⟨⟨h1, h2⟩, h3⟩ := h
  cases hx : x.toList with
  | nil => simp [hx] at h1
  | cons c w =>
    simp only [hx, Bool.and_eq_true] at h1
    exact ⟨c, w, rfl, h1.1, h1.2, h2, h3⟩

theorem isIdStart_isIdChar (c : Char) (h : isIdStart c = true) : isIdChar c = true := by
  unfold isIdStart at h
  unfold isIdChar Char.isAlphanum
  simp only [Bool.or_eq_true] at h ⊢
  rcases h with h | h
  · left; exact h
  · right; left; exact h

theorem lex_ident_step (srcs : List String) (f : Nat) (x : String) (c : Char) (rest : List Char) (p1 p2 : Option Char)
    (acc : List Tok) (hx : validIdent srcs x = true) (hp1 : p1 = none ∨ p1 = some ' ') (hc : isSep c = true) :
    ∃ q2, lexAux srcs (f + 1) (x.toList ++ c :: rest) p1 p2 acc =
      lexAux srcs f (c :: rest) x.toList.getLast? q2 (.ident x :: acc) := by
  obtain ⟨c0, w, hxl, hstart, hall, hres, hsrc⟩ := validIdent_parts hx
  obtain ⟨_, hc2, _⟩ := sep_facts hc
  have hallx : (c0 :: w).all isIdChar = true := by simp [isIdStart_isIdChar c0 hstart, hall]
  obtain ⟨ht, _⟩ := takeWhile_append_stop (c0 :: w) c rest hallx hc2
  obtain ⟨f1, f2, f3, f4⟩ := idstart_facts c0 hstart (w ++ c :: rest) p1 p2 hp1
  refine ⟨(prevAfter (c0 :: w) p1 p2).2, ?_⟩
  rw [hxl, ← prevAfter_fst (c0 :: w) (by simp) p1 p2]
  have hstr : String.ofList (c0 :: w) = x := by rw [← hxl]; exact String.ofList_toList
  have hdrop : List.drop (c0 :: w).length (c0 :: (w ++ c :: rest)) = c :: rest := by
    have : c0 :: (w ++ c :: rest) = (c0 :: w) ++ c :: rest := by simp
    rw [this, List.drop_left']
    rfl
  simp only [List.cons_append] at ht ⊢
  simp only [lexAux, f1, f2, f3, f4, hstart, ht, hdrop, hstr, wordTok, hres, hsrc]
  simp


theorem digitChar_hex (k : Nat) : isHexDigit (digitChar k) = true := by
  simp [isHexDigit, digitChar_isDigit]

theorem tokChars_dot : tokChars .dot = ['.'] := by decide

theorem fixed_nonempty (t : Tok) (ht : isFixedTok t = true) : 1 ≤ (tokChars t).length := by
  cases t with
  | op o => cases o <;> decide
  | cmp o => cases o <;> decide
  | lnot => decide
  | defined => decide
  | lparen => decide
  | rparen => decide
  | _ => simp [isFixedTok] at ht

/-- one printed token followed by a separator: the lexer delivers the token and stands before the separator -/
theorem lex_tok_step (srcs : List String) (f : Nat) (t : Tok) (c : Char) (rest : List Char) (p1 p2 : Option Char) (acc : List Tok)
    (ht : simpleTokOk srcs t = true) (hp1 : p1 = none ∨ p1 = some ' ') (hc : c = ' ' ∨ (c = '.' ∧ isFixedTok t = false)) :
    1 ≤ (tokChars t).length ∧
    ∃ q1 q2, lexAux srcs (f + 1) (tokChars t ++ c :: rest) p1 p2 acc = lexAux srcs f (c :: rest) q1 q2 (t :: acc) ∧
      (isFixedTok t = false → q1 = (tokChars t).getLast?) := by
  have hsep : isSep c = true := by rcases hc with h | ⟨h, _⟩ <;> subst h <;> rfl
  cases t with
  | num n =>
    obtain ⟨q2, h⟩ := lex_num_step srcs f n c rest p1 p2 acc hp1 hsep
    obtain ⟨_, hne, _⟩ := decDigits_spec n
    refine ⟨?_, _, q2, h, fun _ => rfl⟩
    show 1 ≤ (decDigits n).length
    cases hd : decDigits n with
    | nil => exact absurd hd hne
    | cons a t => simp
  | ident x =>
    obtain ⟨q2, h⟩ := lex_ident_step srcs f x c rest p1 p2 acc ht hp1 hsep
    obtain ⟨c0, w, hxl, _⟩ := validIdent_parts ht
    refine ⟨?_, _, q2, h, fun _ => rfl⟩
    show 1 ≤ x.toList.length
    rw [hxl]; simp
  | op o =>
    have hc' : c = ' ' := by rcases hc with h | ⟨_, h⟩; exact h; simp [isFixedTok] at h
    subst hc'
    obtain ⟨q1, q2, h⟩ := lex_fixed_step srcs f (.op o) rfl rest p1 p2 acc
    exact ⟨fixed_nonempty _ rfl, q1, q2, h, fun h => by simp [isFixedTok] at h⟩
  | cmp o =>
    have hc' : c = ' ' := by rcases hc with h | ⟨_, h⟩; exact h; simp [isFixedTok] at h
    subst hc'
    obtain ⟨q1, q2, h⟩ := lex_fixed_step srcs f (.cmp o) rfl rest p1 p2 acc
    exact ⟨fixed_nonempty _ rfl, q1, q2, h, fun h => by simp [isFixedTok] at h⟩
  | lnot =>
    have hc' : c = ' ' := by rcases hc with h | ⟨_, h⟩; exact h; simp [isFixedTok] at h
    subst hc'
    obtain ⟨q1, q2, h⟩ := lex_fixed_step srcs f .lnot rfl rest p1 p2 acc
    exact ⟨fixed_nonempty _ rfl, q1, q2, h, fun h => by simp [isFixedTok] at h⟩
  | defined =>
    have hc' : c = ' ' := by rcases hc with h | ⟨_, h⟩; exact h; simp [isFixedTok] at h
    subst hc'
    obtain ⟨q1, q2, h⟩ := lex_fixed_step srcs f .defined rfl rest p1 p2 acc
    exact ⟨fixed_nonempty _ rfl, q1, q2, h, fun h => by simp [isFixedTok] at h⟩
  | lparen =>
    have hc' : c = ' ' := by rcases hc with h | ⟨_, h⟩; exact h; simp [isFixedTok] at h
    subst hc'
    obtain ⟨q1, q2, h⟩ := lex_fixed_step srcs f .lparen rfl rest p1 p2 acc
    exact ⟨fixed_nonempty _ rfl, q1, q2, h, fun h => by simp [isFixedTok] at h⟩
  | rparen =>
    have hc' : c = ' ' := by rcases hc with h | ⟨_, h⟩; exact h; simp [isFixedTok] at h
    subst hc'
    obtain ⟨q1, q2, h⟩ := lex_fixed_step srcs f .rparen rfl rest p1 p2 acc
    exact ⟨fixed_nonempty _ rfl, q1, q2, h, fun h => by simp [isFixedTok] at h⟩
  | _ => simp [simpleTokOk] at ht


theorem suffixHost_simple {srcs : List String} {t : Tok} (h : suffixHostOk srcs t = true) :
    simpleTokOk srcs t = true ∧ isFixedTok t = false ∧ ∃ d, (tokChars t).getLast? = some d ∧ isHexDigit d = true := by
  cases t with
  | num n =>
    obtain ⟨_, _, _, _, k, hk⟩ := decDigits_spec n
    exact ⟨rfl, rfl, digitChar k, hk, digitChar_hex k⟩
  | ident x =>
    simp only [suffixHostOk, Bool.and_eq_true] at h
    refine ⟨h.1, rfl, ?_⟩
    cases hl : x.toList.getLast? with
    | none => simp [hl] at h
    | some d => exact ⟨d, hl, by simpa [hl] using h.2⟩
  | _ => simp [suffixHostOk] at h

theorem Lexable_generic (srcs : List String) (t : Tok) (rest : List Tok)
    (hno : ∀ s r, rest = .dot :: .isize s :: r → False) :
    Lexable srcs (t :: rest) = (simpleTokOk srcs t && Lexable srcs rest) := by
  rw [Lexable.eq_def]
  split
  · next heq => simp at heq
  · next s r heq => simp at heq; exact absurd heq.2 (hno s r)
  · next heq => simp at heq; rw [heq.1, heq.2]

theorem render_generic (t : Tok) (rest : List Tok) (hno : ∀ s r, rest = .dot :: .isize s :: r → False) :
    render (t :: rest) = tokChars t ++ ' ' :: render rest := by
  rw [render.eq_def]
  split
  · next heq => simp at heq
  · next s r heq => simp at heq; exact absurd heq.2 (hno s r)
  · next heq => simp at heq; rw [heq.1, heq.2]

theorem lex_render (srcs : List String) : ∀ (ts : List Tok) (fuel : Nat) (p1 p2 : Option Char) (acc : List Tok),
    Lexable srcs ts = true → (p1 = none ∨ p1 = some ' ') → (render ts).length + 1 ≤ fuel →
    lexAux srcs fuel (render ts) p1 p2 acc = .ok (acc.reverse ++ ts) := by
  intro ts
  induction ts using render.induct with
  | case1 =>
    intro fuel p1 p2 acc _ _ hf
    cases fuel with
    | zero => simp [render] at hf
    | succ f => simp [render, lexAux]
  | case2 t s rest ih =>
    intro fuel p1 p2 acc hl hp1 hf
    simp only [Lexable, Bool.and_eq_true] at hl
    obtain ⟨hs, hsfix, d, hd, hdx⟩ := suffixHost_simple hl.1
    simp only [render] at hf ⊢
    rw [tokChars_dot] at hf ⊢
    obtain ⟨hlen, q1, q2, hstep, hq1⟩ := lex_tok_step srcs (fuel - 1) t '.' (tokChars (.isize s) ++ ' ' :: render rest) p1 p2 acc hs hp1
      (Or.inr ⟨rfl, hsfix⟩)
    have hq : q1 = some d := by rw [hq1 hsfix, hd]
    subst hq
    have hil : (tokChars (.isize s)).length = 1 := by cases s <;> rfl
    simp only [List.length_append, List.length_cons, hil] at hf
    obtain ⟨f4, rfl⟩ : ∃ f4, fuel = f4 + 4 := ⟨fuel - 4, by omega⟩
    simp only [List.cons_append, List.nil_append, Nat.add_sub_cancel] at hstep ⊢
    have e1 : f4 + 4 - 1 = f4 + 3 := by omega
    rw [e1] at hstep
    rw [hstep]
    have hdot := lex_dot_step srcs (f4 + 2) s (' ' :: render rest) (some d) q2 (t :: acc)
    rw [tokChars_dot] at hdot
    simp only [List.cons_append, List.nil_append] at hdot
    rw [hdot]
    obtain ⟨r1, r2, hsz⟩ := lex_isize_step srcs (f4 + 1) s (' ' :: render rest) d hdx (.dot :: t :: acc)
    rw [hsz, lex_ws_step, ih f4 (some ' ') r1 _ hl.2 (Or.inr rfl) (by omega)]
    simp
  | case3 t rest hno ih =>
    intro fuel p1 p2 acc hl hp1 hf
    rw [Lexable_generic srcs t rest hno] at hl
    simp only [Bool.and_eq_true] at hl
    rw [render_generic t rest hno] at hf ⊢
    obtain ⟨hlen, q1, q2, hstep, _⟩ := lex_tok_step srcs (fuel - 1) t ' ' (render rest) p1 p2 acc hl.1 hp1 (Or.inl rfl)
    simp only [List.length_append, List.length_cons] at hf
    obtain ⟨f2, rfl⟩ : ∃ f2, fuel = f2 + 2 := ⟨fuel - 2, by omega⟩
    have e1 : f2 + 2 - 1 = f2 + 1 := by omega
    rw [e1] at hstep
    rw [hstep, lex_ws_step, ih f2 (some ' ') q1 _ hl.2 (Or.inr rfl) (by omega)]
    simp

/-- the lexer model reads every lexable token list back from its canonical text -/
theorem lex_print' (srcs : List String) (ts : List Tok) (h : Lexable srcs ts = true) :
    lex srcs (String.ofList (render ts)) = .ok ts := by
  unfold lex
  have := lex_render srcs ts ((String.ofList (render ts)).length + 1) none none [] h (Or.inl rfl) (by simp)
  simpa using this

end SpsdkVerif.Bd
