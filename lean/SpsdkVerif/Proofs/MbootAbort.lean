/-
The device aborts a host→device data phase (receive_sb_file abort path, C10): the operation fails with
kStatus_AbortDataPhase, exactly the packets before the abort took effect, host and device are in step again.

Structure: `Quiets` / `quiets_split` (the `k` packets before the abort, device side), the abort step of the device
(`stepSerial_data_abort`, `stepHid_data_abort`) and ignored stray packets afterwards, host side primitives
(`readFrameHeader_abort`, `writeData_serial_abort`, `writeData_hid_pending`, `readAny_zeroReport`),
`sendData_abort` (all transport / `check_errors` cases), `dataOutCmd_abort`, `abort_refines`.
-/
import SpsdkVerif.Model.Mboot
import SpsdkVerif.Proofs.Mboot
import SpsdkVerif.Proofs.MbootRefine

namespace SpsdkVerif.Mboot
open SpsdkVerif H

/-! ### device side -/

/-- the device takes the data packets `cs` silently (ACK only / no report) -/
inductive Quiets : Dev → List Bytes → Dev → Prop
  | nil (d : Dev) : Quiets d [] d
  | cons (d : Dev) (c : Bytes) (cs : List Bytes) (d1 d' : Dev) :
      d.abortsNow = false → d.acceptData c = some (d1, none) → Quiets d1 cs d' → Quiets d (c :: cs) d'

theorem abortsNow_recv (d : Dev) (k tag a r fs : Nat) (hab : d.abortAfter = some k) (hph : d.phase = .recv tag a r fs) :
    d.abortsNow = (d.pktCount == k) := by
  unfold Dev.abortsNow
  rw [hab, hph]

theorem store_step (d : Dev) (tag a : Nat) (c l : Bytes) (k : Nat) (ph : Phase)
    (hmem : tag = Spec.cWriteMemory → a ≤ d.mem.length) :
    Dev.store { d.store tag a c 1 with phase := ph } tag (a + c.length) l k =
      { d.store tag a (c ++ l) (1 + k) with phase := ph } := by
  simp only [Dev.store]
  by_cases ht : tag = Spec.cWriteMemory
  · have := hmem ht
    simp only [ht, if_true]
    rw [splice_splice _ _ _ _ this]
    simp only [Nat.add_assoc]
  · simp only [ht, if_false]
    by_cases hk : tag = Spec.cKeyProvisioning
    · simp only [hk, if_true, List.append_assoc, Nat.add_assoc]
    · simp only [hk, if_false, List.append_assoc, Nat.add_assoc]

theorem store_zero (d : Dev) (tag a : Nat) (h : tag = Spec.cWriteMemory → a ≤ d.mem.length) : d.store tag a [] 0 = d := by
  cases d
  simp only [Dev.store, splice]
  split
  · simp
  · split <;> simp

theorem store_pktCount (d : Dev) (tag a : Nat) (c : Bytes) (k : Nat) :
    (d.store tag a c k).pktCount = d.pktCount + k := by
  simp only [Dev.store]
  split
  · rfl
  · split <;> rfl

theorem store_imageMode (d : Dev) (tag a : Nat) (c : Bytes) (k : Nat) :
    (d.store tag a c k).imageMode = d.imageMode := by
  simp only [Dev.store]
  split
  · rfl
  · split <;> rfl

theorem split_ne_nil_of_lt {mp : Nat} {l : Bytes} {j : Nat} (h : j < (split mp l).length) : l ≠ [] := by
  intro e; subst e; rw [split_nil] at h; simp at h

/-- the first `j` packets of a data phase whose abort comes later -/
theorem quiets_split (mp : Nat) (hmp : 0 < mp) (tag fs k : Nat) :
    ∀ (j : Nat) (l : Bytes) (d : Dev) (a : Nat), d.maxPacket = mp → d.abortAfter = some k → d.pktCount + j ≤ k →
      d.phase = .recv tag a l.length fs → j < (split mp l).length →
      (tag = Spec.cWriteMemory → a + l.length ≤ d.mem.length) →
      Quiets d ((split mp l).take j)
        { d.store tag a ((split mp l).take j).flatten j with
          phase := .recv tag (a + ((split mp l).take j).flatten.length) (l.length - ((split mp l).take j).flatten.length) fs } := by
  intro j
  induction j with
  | zero =>
    intro l d a _ _ _ hph _ hmem
    simp only [List.take_zero, List.flatten_nil, List.length_nil, Nat.add_zero, Nat.sub_zero]
    rw [store_zero d tag a (fun ht => by have := hmem ht; omega), ← hph]
    exact Quiets.nil d
  | succ j ih =>
    intro l d a hdmp hab hcnt hph hj hmem
    have hl := split_ne_nil_of_lt hj
    rw [split_cons mp hmp l hl] at hj ⊢
    simp only [List.length_cons] at hj
    have hj' : j < (split mp (l.drop mp)).length := by omega
    have hd0 := split_ne_nil_of_lt hj'
    have hlong : mp < l.length := by
      rcases Nat.lt_or_ge mp l.length with h | h
      · exact h
      · exact absurd (List.drop_of_length_le h) hd0
    have hlen : (l.take mp).length = mp := by simp; omega
    have hdl : (l.drop mp).length = l.length - mp := by simp
    have hc0 : l.take mp ≠ [] := by
      intro e; have := congrArg List.length e; rw [hlen] at this; simp at this; omega
    have habn : d.abortsNow = false := by
      rw [abortsNow_recv d k tag a l.length fs hab hph]
      simp; omega
    have hacc := acceptData_more d tag a l.length fs (l.take mp) hph hc0 (by omega) (by omega)
    simp only [List.take_succ_cons, List.flatten_cons, List.length_append]
    refine Quiets.cons d _ _ _ _ habn hacc ?_
    have hrec := ih (l.drop mp)
      { d.store tag a (l.take mp) 1 with phase := .recv tag (a + (l.take mp).length) (l.length - (l.take mp).length) fs }
      (a + (l.take mp).length) (by rw [← hdmp]; exact store_maxPacket d tag a _ 1)
      (by rw [← hab]; exact store_abortAfter d tag a _ 1)
      (by show (d.store tag a (l.take mp) 1).pktCount + j ≤ k; rw [store_pktCount]; omega)
      (by simp only [hlen, hdl]) hj' (by
        intro ht
        have := hmem ht
        simp only [Dev.store, ht, if_true, hlen, hdl]
        rw [splice_length _ _ _ (by omega)]
        omega)
    rw [store_step d tag a _ _ _ _ (fun ht => by have := hmem ht; omega)] at hrec
    have e1 : a + (l.take mp).length + ((split mp (l.drop mp)).take j).flatten.length
        = a + ((l.take mp).length + ((split mp (l.drop mp)).take j).flatten.length) := by omega
    have e2 : (l.drop mp).length - ((split mp (l.drop mp)).take j).flatten.length
        = l.length - ((l.take mp).length + ((split mp (l.drop mp)).take j).flatten.length) := by
      rw [hdl, hlen]; omega
    rw [e1, e2, Nat.add_comm 1 j] at hrec
    exact hrec

theorem refuseData_recv (d : Dev) (tag a r fs : Nat) (hph : d.phase = .recv tag a r fs) :
    d.refuseData = ({ d with phase := .idle }, genericResp Spec.stAbortDataPhase tag) := by
  unfold Dev.refuseData
  rw [hph]

theorem stepSerial_data_abort (d : Dev) (c : Bytes) (hlen : c.length < 65536) (hab : d.abortsNow = true) :
    d.stepSerial (mkFrame Spec.fData c) = (d.refuseData.1, abortFrame ++ mkFrame Spec.fCmd d.refuseData.2) := by
  have h1 : mkFrame Spec.fData c ≠ pingFrame := by
    intro e; have := congrArg List.length e; rw [mkFrame_length] at this; simp [pingFrame] at this; omega
  have h2 : mkFrame Spec.fData c ≠ ackFrame := by
    intro e; have := congrArg List.length e; rw [mkFrame_length] at this; simp [ackFrame] at this; omega
  have h3 := frame_roundtrip' Spec.fData c [] (by decide) hlen
  rw [List.append_nil] at h3
  unfold Dev.stepSerial
  rw [if_neg h1, if_neg h2, h3]
  simp only [if_true]
  rw [if_neg (by decide)]
  simp only [hab, if_true]

theorem stepHid_data_abort (d : Dev) (c : Bytes) (hlen : c.length < 65536) (hab : d.abortsNow = true) :
    d.stepHid (mkReport Spec.ridDataOut c) =
      (d.refuseData.1, [padTo d.hidPad (mkReport Spec.ridCmdIn []), padTo d.hidPad (mkReport Spec.ridCmdIn d.refuseData.2)]) := by
  have h3 := hid_roundtrip' Spec.ridDataOut c [] (by decide) hlen
  rw [List.append_nil] at h3
  unfold Dev.stepHid
  simp only [h3, if_true]
  rw [if_neg (by decide)]
  simp only [hab, if_true]

theorem stepHid_data_ignored (d : Dev) (c : Bytes) (hlen : c.length < 65536) (hph : d.phase = .idle)
    (him : d.imageMode = false) : d.stepHid (mkReport Spec.ridDataOut c) = (d, []) := by
  have h3 := hid_roundtrip' Spec.ridDataOut c [] (by decide) hlen
  rw [List.append_nil] at h3
  have hab : d.abortsNow = false := by unfold Dev.abortsNow; rw [hph]
  have hacc : d.acceptData c = none := by unfold Dev.acceptData; rw [hph]
  have hs : d.strayData c = none := by unfold Dev.strayData; simp [him]
  unfold Dev.stepHid
  simp only [h3, if_true]
  rw [if_neg (by decide)]
  simp only [hab, hacc, hs, Bool.false_eq_true, if_false, hph]

/-! ### host side -/

theorem readFrameHeader_abort (exp : Option Nat) (h : Host) (b0 b1 : UInt8) (rest : Bytes)
    (hb0 : b0.toNat = Spec.startByte) (hb1 : b1.toNat = Spec.fAbort) (hrx : h.rxB = b0 :: b1 :: rest) :
    readFrameHeader exp h = (.error .abort, (h.rd 1 (b1 :: rest)).rd 1 rest) := by
  have e1 : devRead 1 h = (.ok [b0], h.rd 1 (b1 :: rest)) :=
    devRead_ok 1 h [_] _ (by omega) rfl hrx
  have e2 : devRead 1 (h.rd 1 (b1 :: rest)) = (.ok [b1], (h.rd 1 (b1 :: rest)).rd 1 rest) :=
    devRead_ok 1 _ [_] _ (by omega) rfl rfl
  have e0 : waitForData h = (.ok Spec.startByte, h.rd 1 (b1 :: rest)) := by
    unfold waitForData
    rw [hrx]
    simp only [List.length_cons, waitGo]
    rw [bind_ok e1]
    simp [fromLe, hb0]
  unfold readFrameHeader
  rw [bind_ok e0]
  simp [bind_run, e2, fromLe, hb1, Spec.startByte, Spec.fAck, Spec.fAbort]

theorem writeData_serial_abort {h1 h0 : Host} {st d r} (hI : h1.Is h0 st d [] r) (htr : h0.cfg.tr = .serial)
    (ab : Bool) (c : Bytes) (hlen : c.length < 65536) (d' : Dev) (out : Bytes)
    (hstep : d.stepSerial (mkFrame Spec.fData c) = (d', abortFrame ++ out)) :
    ∃ h2, writeData ab c h1 = (.error .abort, h2) ∧ h2.Is h0 st d' out r := by
  have htr1 : h1.cfg.tr = .serial := by rw [hI.cfg, htr]
  have hw := hI.write_serial htr (mkFrame Spec.fData c)
  rw [hstep] at hw
  simp only [List.nil_append] at hw
  refine ⟨_, ?_, (hw.rd 1 (UInt8.ofNat Spec.fAbort :: out)).rd 1 out⟩
  unfold writeData
  rw [bind_ok (get_run _)]
  simp only [htr1]
  unfold serialSendFrame
  rw [if_neg (by omega), bind_ok (devWrite_run _ _)]
  rw [bind_err (readFrameHeader_abort (some Spec.fAck) _ _ (UInt8.ofNat Spec.fAbort) out b0_toNat (by decide)
    (by rw [hw.rxB]; rfl))]

theorem sendChunks_cons_err {ab : Bool} {c : Bytes} {cs : List Bytes} {sent : Nat} {h h' : Host} {e : HErr}
    (he : writeData ab c h = (.error e, h')) :
    sendChunks ab (c :: cs) sent h = (.ok (sent, some e), h') := by
  rw [sendChunks]
  simp only [he]

/-- one silently accepted data packet, either transport -/
theorem writeData_quiet {h1 h0 : Host} {st d} (hI : h1.Is h0 st d [] []) (ab : Bool) (c : Bytes)
    (hlen : c.length < 65536) (hab : d.abortsNow = false) (d1 : Dev) (hacc : d.acceptData c = some (d1, none)) :
    ∃ h2, writeData ab c h1 = (.ok (), h2) ∧ h2.Is h0 st d1 [] [] := by
  cases htr : h0.cfg.tr with
  | serial =>
    exact writeData_serial hI htr ab c hlen d1 [] (stepSerial_data_acc d c hlen hab _ _ hacc)
  | hid =>
    obtain ⟨h2, e2, hI2⟩ := writeData_hid hI htr ab c hlen
    rw [stepHid_data_acc d c hlen hab _ _ hacc] at hI2
    exact ⟨h2, e2, hI2⟩

theorem sendChunks_quiets {h0 : Host} (ab : Bool) {d : Dev} {cs : List Bytes} {d' : Dev} (hQ : Quiets d cs d')
    (rest : List Bytes) :
    ∀ (h1 : Host) (sent st : Nat), (∀ c ∈ cs, c.length < 65536) → h1.Is h0 st d [] [] →
      ∃ h2, sendChunks ab (cs ++ rest) sent h1 = sendChunks ab rest (sent + (cs.map List.length).sum) h2 ∧
        h2.Is h0 st d' [] [] := by
  induction hQ with
  | nil d =>
    intro h1 sent st _ hI
    exact ⟨h1, by simp, hI⟩
  | cons d c cs d1 d' hab hacc _ ih =>
    intro h1 sent st hlen hI
    have hc := hlen c (by simp)
    obtain ⟨h2, e2, hI2⟩ := writeData_quiet hI ab c hc hab d1 hacc
    obtain ⟨h3, e3, hI3⟩ := ih h2 (sent + c.length) st (fun x hx => hlen x (by simp [hx])) hI2
    refine ⟨h3, ?_, hI3⟩
    rw [List.cons_append, sendChunks_cons_ok e2, e3]
    simp [Nat.add_assoc]

theorem writeData_hid_false {h1 h0 : Host} {st d b r} (hI : h1.Is h0 st d b r) (htr : h0.cfg.tr = .hid)
    (c : Bytes) (hlen : c.length < 65536) :
    ∃ h2, writeData false c h1 = (.ok (), h2) ∧
      h2.Is h0 st (d.stepHid (mkReport Spec.ridDataOut c)).1 b (r ++ (d.stepHid (mkReport Spec.ridDataOut c)).2) := by
  have htr1 : h1.cfg.tr = .hid := by rw [hI.cfg, htr]
  refine ⟨h1.write (mkReport Spec.ridDataOut c), ?_, hI.write_hid htr (mkReport Spec.ridDataOut c)⟩
  unfold writeData
  rw [bind_ok (get_run _)]
  simp only [htr1]
  unfold hidWriteData
  rw [if_neg (by omega)]
  rfl

/-- `check_errors`: a report is pending before the next data packet is written -/
theorem writeData_hid_pending {h1 h0 : Host} {st d b} (raw : Bytes) (rs : List Bytes)
    (hI : h1.Is h0 st d b (raw :: rs)) (htr : h0.cfg.tr = .hid) (hraw : raw.isEmpty = false)
    (c : Bytes) (hlen : c.length < 65536) :
    writeData true c h1 = (.error .abort, h1.rdR rs) := by
  have htr1 : h1.cfg.tr = .hid := by rw [hI.cfg, htr]
  have e1 : hidDevRead h1 = (.ok raw, h1.rdR rs) := by
    unfold hidDevRead
    simp only [hI.rxR, hraw, Bool.false_eq_true, if_false, Host.rdR]
  have e2 : (do let r ← hidDevRead; pure (some r) : H (Option Bytes)) h1 = (.ok (some raw), h1.rdR rs) := by
    rw [bind_ok e1]; rfl
  unfold writeData
  rw [bind_ok (get_run _)]
  simp only [htr1]
  unfold hidWriteData
  rw [if_neg (by omega)]
  simp only [if_true]
  rw [bind_ok (catch_ok e2)]
  rfl

/-- data packets after the abort: the idle device ignores them -/
theorem sendChunks_ignored {h0 : Host} (htr : h0.cfg.tr = .hid) (d : Dev) (hph : d.phase = .idle)
    (him : d.imageMode = false) (R : List Bytes) :
    ∀ (cs : List Bytes) (h1 : Host) (sent st : Nat), (∀ c ∈ cs, c.length < 65536) → h1.Is h0 st d [] R →
      ∃ h2, sendChunks false cs sent h1 = (.ok (sent + (cs.map List.length).sum, none), h2) ∧ h2.Is h0 st d [] R := by
  intro cs
  induction cs with
  | nil =>
    intro h1 sent st _ hI
    exact ⟨h1, by simp [sendChunks], hI⟩
  | cons c cs ih =>
    intro h1 sent st hlen hI
    have hc := hlen c (by simp)
    obtain ⟨h2, e2, hI2⟩ := writeData_hid_false hI htr c hc
    rw [stepHid_data_ignored d c hc hph him, List.append_nil] at hI2
    obtain ⟨h3, e3, hI3⟩ := ih h2 (sent + c.length) st (fun x hx => hlen x (by simp [hx])) hI2
    refine ⟨h3, ?_, hI3⟩
    rw [sendChunks_cons_ok e2, e3]
    simp [Nat.add_assoc]

theorem zeroReport_ne_nil (k : Nat) : (padTo k (mkReport Spec.ridCmdIn [])).isEmpty = false := by
  simp [padTo, mkReport]

/-- the zero-length report = abort -/
theorem readAny_zeroReport {h1 h0 : Host} {st d b} (k : Nat) (rs : List Bytes)
    (hI : h1.Is h0 st d b (padTo k (mkReport Spec.ridCmdIn []) :: rs)) (htr : h0.cfg.tr = .hid) :
    readAny h1 = (.error .abort, h1.rdR rs) := by
  have e1 : hidDevRead h1 = (.ok (padTo k (mkReport Spec.ridCmdIn [])), h1.rdR rs) := by
    unfold hidDevRead
    simp only [hI.rxR, zeroReport_ne_nil, Bool.false_eq_true, if_false, Host.rdR]
  have e2 : hidParseFrame (padTo k (mkReport Spec.ridCmdIn [])) = .error .abort := by
    simp [padTo, mkReport, le, hidParseFrame, fromLe]
  rw [readAny_hid h1 (by rw [hI.cfg, htr])]
  unfold hidRead
  rw [bind_ok e1, lift_run, e2]

theorem FinalPending.of_serial {h1 h0 : Host} {st : Nat} {d : Dev} {fin : Bytes} (htr : h0.cfg.tr = .serial)
    (hI : h1.Is h0 st d (mkFrame Spec.fCmd fin) []) : FinalPending h1 h0 st d fin := by
  unfold FinalPending; rw [htr]; exact hI

theorem FinalPending.of_hid {h1 h0 : Host} {st : Nat} {d : Dev} {fin : Bytes} (htr : h0.cfg.tr = .hid) (k : Nat)
    (hI : h1.Is h0 st d [] [padTo k (mkReport Spec.ridCmdIn fin)]) : FinalPending h1 h0 st d fin := by
  unfold FinalPending; rw [htr]; exact ⟨k, hI⟩

theorem sendData_fail_some {h1 h2 h3 : Host} (cs : List Bytes) (hop : h1.opened = true) (sent : Nat) (e : HErr)
    (rr : Resp) (hst : rr.status ≠ 0)
    (e1 : sendChunks h1.eda cs 0 h1 = (.ok (sent, some e), h2))
    (e2 : sendDataHandler e h2 = (.ok (.resp rr), h3)) :
    sendData cs h1 =
      ((if h1.cfg.cmdExc then .error (.cmd rr.status) else .ok false), { h3 with status := rr.status }) := by
  unfold sendData
  rw [bind_ok (requireOpen_ok h1 hop), bind_ok (get_run _)]
  simp only []
  rw [bind_ok e1]
  simp only []
  rw [bind_ok e2]
  simp only []
  rw [bind_ok (setStatus_run _ _)]
  have : rr.status ≠ Spec.stSuccess := hst
  simp only [this, ne_eq, not_false_eq_true, if_true]
  cases h1.cfg.cmdExc <;> rfl

theorem sendData_fail_none {h1 h2 h3 : Host} (cs : List Bytes) (hop : h1.opened = true) (sent : Nat)
    (rr : Resp) (hst : rr.status ≠ 0)
    (e1 : sendChunks h1.eda cs 0 h1 = (.ok (sent, none), h2))
    (e2 : catch_ readAny sendDataHandler h2 = (.ok (.resp rr), h3)) :
    sendData cs h1 =
      ((if h1.cfg.cmdExc then .error (.cmd rr.status) else .ok false), { h3 with status := rr.status }) := by
  unfold sendData
  rw [bind_ok (requireOpen_ok h1 hop), bind_ok (get_run _)]
  simp only []
  rw [bind_ok e1]
  simp only []
  rw [bind_ok e2]
  simp only []
  rw [bind_ok (setStatus_run _ _)]
  have : rr.status ≠ Spec.stSuccess := hst
  simp only [this, ne_eq, not_false_eq_true, if_true]
  cases h1.cfg.cmdExc <;> rfl

theorem sendDataHandler_abort (h : Host) : sendDataHandler .abort h = readAny h := by
  unfold sendDataHandler
  rw [if_neg (by decide), if_pos (by decide)]

theorem store_phase (d : Dev) (tag a : Nat) (c : Bytes) (k : Nat) (ph : Phase) :
    Dev.store { d with phase := ph } tag a c k = { d.store tag a c k with phase := ph } := by
  simp only [Dev.store]
  split
  · rfl
  · split <;> rfl

/-- `_send_data` against a device that aborts the data phase at its `(k+1)`-th packet -/
theorem sendData_abort {h2 h0 : Host} (hop : h0.opened = true) (mp : Nat) (hmp : 0 < mp) (hmp2 : mp < 65536)
    (d1 : Dev) (tag a k : Nat) (data : Bytes) (htag : tag < 4294967296)
    (hmp1 : d1.maxPacket = mp) (hab : d1.abortAfter = some k) (hpc : d1.pktCount = 0) (him : d1.imageMode = false)
    (hk : k < (split mp data).length)
    (hmem : tag = Spec.cWriteMemory → a + data.length ≤ d1.mem.length)
    (hI : h2.Is h0 0 { d1 with phase := .recv tag a data.length 0 } [] []) :
    ∃ h3, sendData (split mp data) h2 =
        ((if h0.cfg.cmdExc then .error (.cmd Spec.stAbortDataPhase) else .ok false), h3) ∧
      h3.Is h0 Spec.stAbortDataPhase { d1.store tag a ((split mp data).take k).flatten k with phase := .idle } [] [] := by
  have hparse := genericResp_parse Spec.stAbortDataPhase tag (by decide) htag
  obtain ⟨rr, hrr⟩ : ∃ rr : Resp,
      rr = { kind := .generic, tag := Spec.rGeneric, pc := 2, status := Spec.stAbortDataPhase, cmdTag := tag } :=
    ⟨_, rfl⟩
  rw [← hrr] at hparse
  have hrs : rr.status = Spec.stAbortDataPhase := by rw [hrr]
  have hne : rr.status ≠ 0 := by rw [hrs]; decide
  have hfin0 := genericResp_ne_nil Spec.stAbortDataPhase tag
  have hfinl : (genericResp Spec.stAbortDataPhase tag).length < 65536 := by rw [genericResp_length]; omega
  have hlen : ∀ c ∈ split mp data, c.length < 65536 := by
    intro c hc; have := (split_chunks' mp hmp data c hc).1; omega
  -- the chunk list: `k` quiet packets, the aborted one, the rest
  obtain ⟨cs1, hcs1⟩ : ∃ cs1, cs1 = (split mp data).take k := ⟨_, rfl⟩
  obtain ⟨c, hc⟩ : ∃ c, c = (split mp data)[k] := ⟨_, rfl⟩
  obtain ⟨cs2, hcs2⟩ : ∃ cs2, cs2 = (split mp data).drop (k + 1) := ⟨_, rfl⟩
  have hsplit : split mp data = cs1 ++ c :: cs2 := by
    rw [hcs1, hc, hcs2, ← List.drop_eq_getElem_cons hk, List.take_append_drop]
  have hlen1 : ∀ x ∈ cs1, x.length < 65536 := fun x hx => hlen x (by rw [hsplit]; simp [hx])
  have hlenc : c.length < 65536 := hlen c (by rw [hsplit]; simp)
  have hlen2 : ∀ x ∈ cs2, x.length < 65536 := fun x hx => hlen x (by rw [hsplit]; simp [hx])
  -- device after the quiet prefix
  have hQ := quiets_split mp hmp tag 0 k k data { d1 with phase := .recv tag a data.length 0 } a hmp1 hab
    (by show d1.pktCount + k ≤ k; omega) rfl hk hmem
  rw [← hcs1, store_phase] at hQ
  obtain ⟨dk, hdk⟩ : ∃ dk : Dev, dk = { d1.store tag a cs1.flatten k with
      phase := .recv tag (a + cs1.flatten.length) (data.length - cs1.flatten.length) 0 } := ⟨_, rfl⟩
  have hQ' : Quiets { d1 with phase := .recv tag a data.length 0 } cs1 dk := by rw [hdk]; exact hQ
  have hdkph : dk.phase = .recv tag (a + cs1.flatten.length) (data.length - cs1.flatten.length) 0 := by rw [hdk]
  have hdkaa : dk.abortAfter = some k := by
    rw [hdk]
    show (d1.store tag a cs1.flatten k).abortAfter = _
    rw [store_abortAfter]; exact hab
  have hdkpc : dk.pktCount = k := by
    rw [hdk]
    show (d1.store tag a cs1.flatten k).pktCount = k
    rw [store_pktCount, hpc]; simp
  have hdkab : dk.abortsNow = true := by
    rw [abortsNow_recv dk k _ _ _ _ hdkaa hdkph, hdkpc]; simp
  have hrefuse := refuseData_recv dk _ _ _ _ hdkph
  have hdA : ({ dk with phase := .idle } : Dev) = { d1.store tag a cs1.flatten k with phase := .idle } := by rw [hdk]
  have hdAim : ({ dk with phase := .idle } : Dev).imageMode = false := by
    rw [hdA]; show (d1.store tag a cs1.flatten k).imageMode = false; rw [store_imageMode]; exact him
  obtain ⟨h3, e3, hI3⟩ := sendChunks_quiets (h0 := h0) h2.eda hQ' (c :: cs2) h2 0 0 hlen1 hI
  rw [← hsplit] at e3
  have hop2 : h2.opened = true := by rw [hI.opened, hop]
  have hce : h2.cfg.cmdExc = h0.cfg.cmdExc := by rw [hI.cfg]
  rw [← hcs1, ← hdA, ← hce, ← hrs]
  cases htr : h0.cfg.tr with
  | serial =>
    have hstep := stepSerial_data_abort dk c hlenc hdkab
    rw [hrefuse] at hstep
    obtain ⟨h4, e4, hI4⟩ := writeData_serial_abort hI3 htr h2.eda c hlenc _ _ hstep
    obtain ⟨h5, e5, hI5⟩ := readAny_final (FinalPending.of_serial htr hI4) rfl rr hparse hfin0 hfinl
    refine ⟨_, ?_, hI5.setStatus _⟩
    exact sendData_fail_some _ hop2 _ .abort rr hne (e3.trans (sendChunks_cons_err e4))
      ((sendDataHandler_abort h4).trans e5)
  | hid =>
    have hstep := stepHid_data_abort dk c hlenc hdkab
    rw [hrefuse] at hstep
    cases heda : h2.eda with
    | false =>
      rw [heda] at e3
      obtain ⟨h4, e4, hI4⟩ := writeData_hid_false hI3 htr c hlenc
      rw [hstep, List.nil_append] at hI4
      obtain ⟨h5, e5, hI5⟩ := sendChunks_ignored htr { dk with phase := .idle } rfl hdAim _ cs2 h4
        (0 + (cs1.map List.length).sum + c.length) 0 hlen2 hI4
      have e6 := readAny_zeroReport _ _ hI5 htr
      obtain ⟨h7, e7, hI7⟩ := readAny_final (FinalPending.of_hid htr _ (hI5.rdR _)) rfl rr hparse hfin0 hfinl
      refine ⟨_, ?_, hI7.setStatus _⟩
      refine sendData_fail_none (h2 := h5) _ hop2
        (0 + (cs1.map List.length).sum + c.length + (cs2.map List.length).sum) rr hne ?_ ?_
      · rw [heda, e3, sendChunks_cons_ok e4, e5]
      · rw [catch_err e6, sendDataHandler_abort]; exact e7
    | true =>
      rw [heda] at e3
      obtain ⟨h4, e4, hI4⟩ := writeData_hid hI3 htr true c hlenc
      rw [hstep] at hI4
      cases cs2 with
      | nil =>
        have e6 := readAny_zeroReport _ _ hI4 htr
        obtain ⟨h7, e7, hI7⟩ := readAny_final (FinalPending.of_hid htr _ (hI4.rdR _)) rfl rr hparse hfin0 hfinl
        refine ⟨_, ?_, hI7.setStatus _⟩
        refine sendData_fail_none (h2 := h4) _ hop2 (0 + (cs1.map List.length).sum + c.length) rr hne ?_ ?_
        · rw [heda, e3, sendChunks_cons_ok e4]; rfl
        · rw [catch_err e6, sendDataHandler_abort]; exact e7
      | cons c2 cs3 =>
        have hc2 : c2.length < 65536 := hlen2 c2 (by simp)
        have e5 := writeData_hid_pending _ _ hI4 htr (zeroReport_ne_nil _) c2 hc2
        obtain ⟨h7, e7, hI7⟩ := readAny_final (FinalPending.of_hid htr _ (hI4.rdR _)) rfl rr hparse hfin0 hfinl
        refine ⟨_, ?_, hI7.setStatus _⟩
        refine sendData_fail_some (h2 := h4.rdR [padTo dk.hidPad (mkReport Spec.ridCmdIn (genericResp Spec.stAbortDataPhase tag))]) _ hop2 (0 + (cs1.map List.length).sum + c.length) .abort rr hne ?_ ((sendDataHandler_abort _).trans e7)
        · rw [heda, e3, sendChunks_cons_ok e4, sendChunks_cons_err e5]

/-! ### the three operations -/

theorem abortDev_write (d : Dev) (h : d.phase = .idle) (a : Nat) (pre : Bytes) (k : Nat) :
    ({ d.next.store Spec.cWriteMemory a pre k with phase := .idle } : Dev) =
      { (abortPrefix d Spec.cWriteMemory a pre) with ncmd := d.ncmd + 1, pktCount := k } := by
  cases d
  simp only at h
  subst h
  simp [Dev.store, Dev.next, abortPrefix]

theorem abortDev_sb (d : Dev) (h : d.phase = .idle) (pre : Bytes) (k : Nat) :
    ({ Dev.store { d.next with sb := [] } Spec.cReceiveSbFile 0 pre k with phase := .idle } : Dev) =
      { (abortPrefix d Spec.cReceiveSbFile 0 pre) with ncmd := d.ncmd + 1, pktCount := k } := by
  cases d
  simp only at h
  subst h
  simp [Dev.store, Dev.next, abortPrefix, Spec.cReceiveSbFile, Spec.cWriteMemory, Spec.cKeyProvisioning]

theorem abortDev_kp (d : Dev) (h : d.phase = .idle) (pre : Bytes) (k : Nat) :
    ({ Dev.store { d.next with kpTarget := (Spec.kpWriteKeyStore, 0), kpBuf := [] } Spec.cKeyProvisioning 0 pre k with
        phase := .idle } : Dev) =
      { (abortPrefix d Spec.cKeyProvisioning 0 pre) with
          ncmd := d.ncmd + 1, pktCount := k, kpTarget := (Spec.kpWriteKeyStore, 0) } := by
  cases d
  simp only at h
  subst h
  simp [Dev.store, Dev.next, abortPrefix, Spec.cWriteMemory, Spec.cKeyProvisioning]

/-- `dataOutCmd` against a device that aborts the data phase -/
theorem dataOutCmd_abort {h : Host} {d : Dev} (hs : Synced h d) (hmp : 0 < d.maxPacket ∧ d.maxPacket < 65536)
    (hmps : h.mps = some d.maxPacket)
    (tag : Nat) (params : List Nat) (data : Bytes) (hwf : (⟨tag, Spec.flagHasDataPhase, params⟩ : CmdPkt).WF)
    (d1 : Dev) (a k : Nat)
    (hexec : d.exec ⟨tag, Spec.flagHasDataPhase, params⟩ = .fromHost d1 (genericResp 0 tag) a data.length 0)
    (hid1 : d1.phase = .idle) (hmp1 : d1.maxPacket = d.maxPacket) (hab : d1.abortAfter = some k)
    (hpc : d1.pktCount = 0) (him : d1.imageMode = false) (hk : k < (split d.maxPacket data).length)
    (hmem : tag = Spec.cWriteMemory → a + data.length ≤ d1.mem.length) :
    ∃ h3, dataOutCmd tag params data h = (specFail h.cfg.cmdExc Spec.stAbortDataPhase (.bool false), h3) ∧
      h3.Is h Spec.stAbortDataPhase
        { d1.store tag a ((split d.maxPacket data).take k).flatten k with phase := .idle } [] [] := by
  have htag : tag < 4294967296 := by have := hwf.tag; simp at this; omega
  have esplit := splitData_ok data h d.maxPacket hmps hmp.1
  have hn0 : data.length ≠ 0 := by
    have := split_ne_nil_of_lt hk
    intro e; exact this (List.length_eq_zero_iff.mp e)
  obtain ⟨h2, e2, hmid⟩ := processCmd_fromHost hs.is hs.opened _ hwf _ _ _ _ _ hexec hid1 _
    (genericResp_parse 0 tag (by omega) htag) (genericResp_ne_nil _ _)
    (by rw [genericResp_length]; omega)
  rw [cmdResult_ok _ _ rfl] at e2
  rw [if_neg hn0] at hmid
  obtain ⟨h3, e3, hI3⟩ := sendData_abort hs.opened d.maxPacket hmp.1 hmp.2 d1 tag a k data htag hmp1 hab hpc him hk
    hmem hmid
  refine ⟨h3, ?_, hI3⟩
  unfold dataOutCmd specFail
  rw [bind_ok esplit, bind_ok e2]
  simp only [if_true]
  cases hce : h.cfg.cmdExc <;> rw [hce] at e3
  · rw [bind_ok e3]; rfl
  · rw [bind_err e3]; rfl

set_option linter.unusedVariables false in
/-- serial link: ABORT frame instead of the ACK of packet `k+1`; USB-HID: a zero-length report, noticed before the next
    packet (`check_errors=True`) or at the final read -/
theorem abort_refines (h : Host) (d d' : Dev) (op : Op) (res : Except HErr Val) (st k : Nat)
    (hs : Synced h d) (hmp : 0 < d.maxPacket ∧ d.maxPacket < 65536) (hmem : d.mem.length < 4294967296)
    (hnf : d.faults = []) (hab : d.abortAfter = some k) (himg : d.imageMode = false)
    (hmps : h.mps = some d.maxPacket) (heda : h.eda = false) (hargs : op.argsOK)
    (hspec : specAbort h.cfg.cmdExc d k op = some (d', res, st)) :
    ∃ h', runOp op h = (res, h') ∧ Synced h' d' ∧ h'.status = st ∧ h'.cfg = h.cfg ∧ h'.mps = h.mps ∧
      h'.eda = (match op with | .receiveSbFile _ c => h.cfg.cmdExc && c | _ => false) := by
  cases op with
  | writeMemory a data m =>
    obtain ⟨ha, hn, hm⟩ := hargs
    have hm' := clampMemId_lt hm
    have hwf : (⟨Spec.cWriteMemory, Spec.flagHasDataPhase, [a, data.length, clampMemId m]⟩ : CmdPkt).WF :=
      wf_mk _ _ _ (by decide) (by decide) (by simp) (by intro v hv; simp at hv; rcases hv with rfl | rfl | rfl <;> assumption)
    have hex := exec_writeMemory d hnf a data.length (clampMemId m)
    simp only [specAbort] at hspec
    split at hspec <;> rename_i hc
    · simp only [Option.some.injEq, Prod.mk.injEq] at hspec
      obtain ⟨rfl, rfl, rfl⟩ := hspec
      rw [if_pos hc.1] at hex
      obtain ⟨h3, e3, hI3⟩ := dataOutCmd_abort hs hmp hmps _ _ data hwf d.next a k hex rfl rfl hab rfl himg hc.2
        (fun _ => hc.1)
      rw [abortDev_write d hs.idle] at hI3
      exact ⟨h3, e3, ⟨hI3.peer, hs.idle, hI3.rxB, hI3.rxR, by rw [hI3.opened, hs.opened]⟩, hI3.status, hI3.cfg, hI3.mps,
        by rw [hI3.eda, heda]⟩
    · simp at hspec
  | kpWriteKeyStore data =>
    have hn : data.length < 4294967296 := hargs
    have hwf : (⟨Spec.cKeyProvisioning, Spec.flagHasDataPhase, [Spec.kpWriteKeyStore, 0, data.length]⟩ : CmdPkt).WF :=
      wf_mk _ _ _ (by decide) (by decide) (by simp)
        (by intro v hv; simp at hv; rcases hv with rfl | rfl | rfl <;> first | assumption | decide)
    have hex := exec_kpData d hnf Spec.kpWriteKeyStore 0 data.length (Or.inr rfl)
    simp only [specAbort] at hspec
    split at hspec <;> rename_i hc
    · simp only [Option.some.injEq, Prod.mk.injEq] at hspec
      obtain ⟨rfl, rfl, rfl⟩ := hspec
      obtain ⟨h3, e3, hI3⟩ := dataOutCmd_abort hs hmp hmps _ _ data hwf _ 0 k hex rfl rfl hab rfl himg hc
        (fun e => absurd e (by decide))
      rw [abortDev_kp d hs.idle] at hI3
      exact ⟨h3, e3, ⟨hI3.peer, hs.idle, hI3.rxB, hI3.rxR, by rw [hI3.opened, hs.opened]⟩, hI3.status, hI3.cfg, hI3.mps,
        by rw [hI3.eda, heda]⟩
    · simp at hspec
  | receiveSbFile data c =>
    have hn : data.length < 4294967296 := hargs
    have hwf : (⟨Spec.cReceiveSbFile, Spec.flagHasDataPhase, [data.length]⟩ : CmdPkt).WF :=
      wf_mk _ _ _ (by decide) (by decide) (by simp) (by intro v hv; simp at hv; rcases hv with rfl; assumption)
    have hex := exec_receiveSbFile d hnf data.length
    have esplit := splitData_ok data h d.maxPacket hmps hmp.1
    simp only [specAbort] at hspec
    split at hspec <;> rename_i hc
    · simp only [Option.some.injEq, Prod.mk.injEq] at hspec
      obtain ⟨rfl, rfl, rfl⟩ := hspec
      have hn0 : data.length ≠ 0 := by
        have := split_ne_nil_of_lt hc
        intro e; exact this (List.length_eq_zero_iff.mp e)
      obtain ⟨h2, e2, hmid⟩ := processCmd_fromHost hs.is hs.opened _ hwf _ _ _ _ _ hex rfl _
        (genericResp_parse 0 Spec.cReceiveSbFile (by omega) (by decide)) (genericResp_ne_nil _ _)
        (by rw [genericResp_length]; omega)
      rw [cmdResult_ok _ _ rfl] at e2
      rw [if_neg hn0] at hmid
      obtain ⟨h3, e3, hI3⟩ := sendData_abort (h0 := { h with eda := c }) hs.opened d.maxPacket hmp.1 hmp.2
        { d.next with sb := [] } Spec.cReceiveSbFile 0 k data (by decide) rfl hab rfl himg hc
        (fun e => absurd e (by decide)) (hmid.setEda c)
      rw [abortDev_sb d hs.idle] at hI3
      have hsync : ∀ g : Host, g.peer = h3.peer → g.rxB = h3.rxB → g.rxR = h3.rxR → g.opened = h3.opened →
          Synced g { (abortPrefix d Spec.cReceiveSbFile 0 ((split d.maxPacket data).take k).flatten) with
            ncmd := d.ncmd + 1, pktCount := k } := by
        intro g h1 h2' h3' h4
        exact ⟨by rw [h1, hI3.peer], hs.idle, by rw [h2', hI3.rxB], by rw [h3', hI3.rxR],
          by rw [h4, hI3.opened]; exact hs.opened⟩
      have hrun : runOp (.receiveSbFile data c) h = receiveSbFile data c h := rfl
      by_cases hce : h.cfg.cmdExc = true
      · have e3' : sendData (split d.maxPacket data) { h2 with eda := c } =
            (.error (.cmd Spec.stAbortDataPhase), h3) := by
          rw [e3]; show (if h.cfg.cmdExc = true then _ else _, h3) = _; rw [if_pos hce]
        refine ⟨h3, ?_, hsync h3 rfl rfl rfl rfl, hI3.status, hI3.cfg, hI3.mps, ?_⟩
        · rw [hrun]
          unfold receiveSbFile specFail
          rw [bind_ok esplit, bind_ok e2]
          simp only [if_true]
          rw [bind_ok (modify_run _ _), bind_err e3', if_pos hce]
        · show h3.eda = (h.cfg.cmdExc && c)
          rw [hI3.eda, hce]; simp
      · have e3' : sendData (split d.maxPacket data) { h2 with eda := c } = (.ok false, h3) := by
          rw [e3]; show (if h.cfg.cmdExc = true then _ else _, h3) = _; rw [if_neg hce]
        refine ⟨{ h3 with eda := false }, ?_, hsync _ rfl rfl rfl rfl, hI3.status, hI3.cfg, hI3.mps, ?_⟩
        · rw [hrun]
          unfold receiveSbFile specFail
          rw [bind_ok esplit, bind_ok e2]
          simp only [if_true]
          rw [bind_ok (modify_run _ _), bind_ok e3', bind_ok (modify_run _ _), if_neg hce]
          rfl
        · show false = (h.cfg.cmdExc && c)
          have : h.cfg.cmdExc = false := by simpa using hce
          rw [this]; rfl
    · simp at hspec
  | _ => simp [specAbort] at hspec
end SpsdkVerif.Mboot
