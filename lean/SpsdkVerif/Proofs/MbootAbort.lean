/-
The device aborts a host→device data phase (receive_sb_file abort path, C10): the operation fails with
kStatus_AbortDataPhase, exactly the packets before the abort took effect, host and device are in step again.
-/
import SpsdkVerif.Model.Mboot
import SpsdkVerif.Proofs.Mboot
import SpsdkVerif.Proofs.MbootRefine

namespace SpsdkVerif.Mboot
open SpsdkVerif H

/-- serial link: ABORT frame instead of the ACK of packet `k+1`; USB-HID: a zero-length report, noticed before the next
    packet (`check_errors=True`) or at the final read -/
theorem abort_refines (h : Host) (d d' : Dev) (op : Op) (res : Except HErr Val) (st k : Nat)
    (hs : Synced h d) (hmp : 0 < d.maxPacket ∧ d.maxPacket < 65536) (hmem : d.mem.length < 4294967296)
    (hnf : d.faults = []) (hab : d.abortAfter = some k) (himg : d.imageMode = false)
    (hmps : h.mps = some d.maxPacket) (heda : h.eda = false) (hargs : op.argsOK)
    (hspec : specAbort h.cfg.cmdExc d k op = some (d', res, st)) :
    ∃ h', runOp op h = (res, h') ∧ Synced h' d' ∧ h'.status = st ∧ h'.cfg = h.cfg ∧ h'.mps = h.mps ∧
      h'.eda = (match op with | .receiveSbFile _ c => h.cfg.cmdExc && c | _ => false) := by
  sorry

end SpsdkVerif.Mboot
