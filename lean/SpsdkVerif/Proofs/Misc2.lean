/- Helper lemmas for the phase-2 part of Properties/C20.lean (generated PyFuns2 vs hand model, hex literals,
   split_data, enum lookups).  Core Lean only. -/
import SpsdkVerif.Generated.PyFuns2
import SpsdkVerif.Model.Misc2
import SpsdkVerif.Proofs.Misc

namespace SpsdkVerif.Misc
open SpsdkVerif SpsdkVerif.Generated.PyFuns2
open SpsdkVerif.Generated.PyFuns (align)

/-! ### the generated `get_bytes_cnt_of_int` -/
theorem pyShr_nat8 (v : Nat) : pyShr (v : Int) 8 = ((v / 256 : Nat) : Int) := by
  simp [pyShr, Int.shiftRight_eq_div_pow]

theorem pyFloorDiv_nat256 (v : Nat) : pyFloorDiv (v : Int) 256 = ((v / 256 : Nat) : Int) := by
  simp [pyFloorDiv, Int.fdiv_eq_ediv_of_nonneg]

/-! The loop of `get_bytes_cnt_of_int` is translated to `getBytesCntOfInt_while1 : Nat → Int → Int → PyRes (Int × Int)`.
    Which of the two loop-carried variables comes first (the remaining value or the byte counter) depends on the order
    in which the source initialises them, their names on the source.  The proofs below therefore identify them by ROLE:
    every statement about the loop exists in both argument orders (`LoopA`/`LoopB`, `NegA`/`NegB`), is proved by the same
    order-agnostic invariant script, and the users pick whichever holds for the current translation (`first | … | …`). -/

/-- value first, counter second -/
def LoopA (W : Nat → Int → Int → PyRes (Int × Int)) : Prop :=
  ∀ (f v : Nat) (cnt : Int) (fuel : Nat), v ≤ f → byteLenF f v < fuel →
    W fuel (v : Int) cnt = .ok (0, cnt + (byteLenF f v : Nat))
/-- counter first, value second -/
def LoopB (W : Nat → Int → Int → PyRes (Int × Int)) : Prop :=
  ∀ (f v : Nat) (cnt : Int) (fuel : Nat), v ≤ f → byteLenF f v < fuel →
    W fuel cnt (v : Int) = .ok (cnt + (byteLenF f v : Nat), 0)
def NegA (W : Nat → Int → Int → PyRes (Int × Int)) : Prop :=
  ∀ (fuel : Nat) (v cnt : Int), v < 0 → W fuel v cnt = .error .other
def NegB (W : Nat → Int → Int → PyRes (Int × Int)) : Prop :=
  ∀ (fuel : Nat) (v cnt : Int), v < 0 → W fuel cnt v = .error .other

theorem shr_neg (v : Int) (h : v < 0) : pyShr v 8 < 0 ∧ pyFloorDiv v 256 < 0 := by
  constructor
  · simp only [pyShr, Int.shiftRight_eq_div_pow]
    have : ((2 ^ (8 : Int).toNat : Nat) : Int) = 256 := by decide
    rw [this]; omega
  · simp only [pyFloorDiv]
    rw [Int.fdiv_eq_ediv_of_nonneg _ (by omega)]; omega

/-- invariant of the loop on a non-negative value (induction over the model's own fuel): the loop ends with value 0 and
    the counter advanced by the number of bytes; any fuel above that number suffices.  Works for either argument order,
    `>> 8` or `// 256`, `cnt + 1` or `1 + cnt`. -/
macro "loop_nat_tac" : tactic => `(tactic| (
  intro f
  induction f with
  | zero =>
    intro v cnt fuel hv hf
    have hv0 : v = 0 := by omega
    subst hv0
    cases fuel with
    | zero => simp [byteLenF] at hf
    | succ k => simp [getBytesCntOfInt_while1, byteLenF]
  | succ f ih =>
    intro v cnt fuel hv hf
    by_cases h0 : v = 0
    · subst h0
      cases fuel with
      | zero => simp [byteLenF] at hf
      | succ k => simp [getBytesCntOfInt_while1, byteLenF]
    · simp only [byteLenF, h0, if_false] at hf ⊢
      cases fuel with
      | zero => omega
      | succ k =>
        have hz : ((v : Int) != 0) = true := by simp [h0]
        simp only [getBytesCntOfInt_while1, hz, if_true, pyShr_nat8, pyFloorDiv_nat256]
        rw [ih (v / 256) _ k (by omega) (by omega)]
        simp only [Except.ok.injEq, Prod.mk.injEq, and_true, true_and]
        push_cast
        omega))

/-- on a negative value the loop exhausts every fuel (the value stays negative) -/
macro "loop_neg_tac" : tactic => `(tactic| (
  intro fuel
  induction fuel with
  | zero => intro v cnt _; rfl
  | succ k ih =>
    intro v cnt hv
    have hz : (v != 0) = true := by simp; omega
    simp only [getBytesCntOfInt_while1, hz, if_true]
    exact ih _ _ (by first | exact (shr_neg v hv).1 | exact (shr_neg v hv).2)))

/-- the loop invariant holds in one of the two argument orders -/
theorem while1_nat : LoopA getBytesCntOfInt_while1 ∨ LoopB getBytesCntOfInt_while1 := by
  first
  | (left; unfold LoopA; loop_nat_tac; done)
  | (right; unfold LoopB; loop_nat_tac; done)

theorem while1_neg : NegA getBytesCntOfInt_while1 ∨ NegB getBytesCntOfInt_while1 := by
  first
  | (left; unfold NegA; loop_neg_tac; done)
  | (right; unfold NegB; loop_neg_tac; done)

/-- lift a natural result -/
def liftNat : PyRes Nat → PyRes Int
  | .ok n => .ok (n : Int)
  | .error e => .error e

/-- contract of the generated `align` on naturals (same proof as `C20.align_spec`: evaluate the body to whatever closed
    form it has, then division facts) -/
theorem align_nat_spec (n' a' : Int) (ha' : 0 < a') (hn : 0 ≤ n') :
    ∃ r : Int, align n' a' = .ok r ∧ a' ∣ r ∧ n' ≤ r ∧ r < n' + a' := by
  have h1 : ¬ a' ≤ 0 := by omega
  have h2 : ¬ n' < 0 := by omega
  have h3 : ¬ a' = 0 := by omega
  obtain ⟨r, hr⟩ : ∃ r, align n' a' = .ok r := by simp [align, h1, h2, h3]
  refine ⟨r, hr, ?_⟩
  simp [align, h1, h2, h3, pyFloorDiv, Int.fdiv_eq_ediv_of_nonneg _ (Int.le_of_lt ha')] at hr
  subst hr
  have e := Int.emod_add_mul_ediv (n' + (a'-1)) a'
  have l := Int.emod_lt_of_pos (n' + (a'-1)) ha'
  have g := Int.emod_nonneg (n' + (a'-1)) (Int.ne_of_gt ha')
  have e' := Int.emod_add_mul_ediv (n' + a' - 1) a'
  have l' := Int.emod_lt_of_pos (n' + a' - 1) ha'
  have g' := Int.emod_nonneg (n' + a' - 1) (Int.ne_of_gt ha')
  rw [Int.mul_comm] at e e'
  refine ⟨?_, ?_, ?_⟩
  · first
      | exact Int.dvd_mul_left _ _
      | exact Int.dvd_mul_right _ _
  all_goals first
    | omega
    | (rw [Int.mul_comm]; omega)

/-- `align(c, 4)` is the same rounding as `int(ceil(c / 4)) * 4` and `(c + 3) // 4 * 4` -/
theorem align_four (c : Nat) : align (c : Int) 4 = .ok (((c + 3) / 4 * 4 : Nat) : Int) := by
  obtain ⟨r, hr, ⟨k, hk⟩, h1, h2⟩ := align_nat_spec (c : Int) 4 (by omega) (by omega)
  rw [hr]
  congr 1
  push_cast
  omega

set_option hygiene false in
/-- after the loop: straight-line integer code; evaluate it (whatever its shape: `int(ceil(c / 4)) * 4`,
    `(c + 3) // 4 * 4`, `align(c, 4)`, `cnt = byte_cnt or cnt; return cnt` or `return byte_cnt or cnt`) and compare
    with the model by case split + linear arithmetic.  Expects `hloop` (the loop fact in the current argument order). -/
macro "gen_eq_finish" : tactic => `(tactic| (
    simp only [hneg, hz, h0, if_false, Bool.false_eq_true, hloop, hbc, pyFloorDiv, Int.zero_add, Int.add_zero, align_four]
    clear hloop
    generalize byteLen v = c at *
    have hfd : ∀ x : Int, Int.fdiv x 4 = x / 4 := fun x => Int.fdiv_eq_ediv_of_nonneg x (by omega)
    simp only [apply_ite liftNat]
    simp only [liftNat, hfd, Bool.and_eq_true, decide_eq_true_eq, bne_iff_ne, ne_eq, Int.natAbs_natCast,
      Int.zero_add, Int.natCast_eq_zero, gt_iff_lt]
    cases a2n <;> simp only [Bool.false_eq_true, false_and, true_and, if_false] <;> (repeat' split) <;>
      first | rfl | (exfalso; omega) | (congr 1; omega) | (congr 1; push_cast; omega) | (simp; omega)))

theorem getBytesCnt_gen_eq (fuel v : Nat) (a2n : Bool) (bc : Nat) (bcO : Option Int)
    (hbc : bcO.getD 0 = (bc : Int)) (hf : byteLen v < fuel) (h53 : byteLen v < 2 ^ 53) :
    getBytesCntOfInt fuel (v : Int) a2n bcO = liftNat (getBytesCnt v a2n bc) := by
  have h53' : byteLen v < 9007199254740992 := by
    have : (2 : Nat) ^ 53 = 9007199254740992 := by decide
    omega
  -- the guard `if value < 0: raise SPSDKValueError` (fix 55a6c57) never fires on a natural number
  have hneg : decide ((v : Int) < 0) = false := by
    rw [decide_eq_false_iff_not]; omega
  unfold getBytesCntOfInt getBytesCnt
  by_cases h0 : v = 0
  · subst h0
    by_cases hb : bc = 0
    · simp [hbc, hb, liftNat]
    · simp [hbc, hb, liftNat]
  · have hz : ((v : Int) == 0) = false := by simp [h0]
    have hpos := byteLen_pos v h0
    -- NB: no nested `by` terms inside `first` (their errors would be recovered instead of selecting the alternative)
    first
    | (refine (fun (hA : LoopA getBytesCntOfInt_while1) => ?_) ?_
       · have hloop : ∀ cnt : Int, getBytesCntOfInt_while1 fuel (v : Int) cnt = .ok (0, cnt + (byteLen v : Nat)) :=
           fun cnt => hA v v cnt fuel (Nat.le_refl v) hf
         gen_eq_finish
       · unfold LoopA; loop_nat_tac)
    | (refine (fun (hB : LoopB getBytesCntOfInt_while1) => ?_) ?_
       · have hloop : ∀ cnt : Int, getBytesCntOfInt_while1 fuel cnt (v : Int) = .ok (cnt + (byteLen v : Nat), 0) :=
           fun cnt => hB v v cnt fuel (Nat.le_refl v) hf
         gen_eq_finish
       · unfold LoopB; loop_nat_tac)

theorem getBytesCnt_ne_other (v : Nat) (a2n : Bool) (bc : Nat) : liftNat (getBytesCnt v a2n bc) ≠ .error .other := by
  unfold getBytesCnt
  simp only [apply_ite liftNat]
  (repeat' split) <;> simp [liftNat]

/-- fix 55a6c57: a negative value is refused with an SPSDK error BEFORE the loop (which would never end: `while1_neg`) -/
theorem getBytesCnt_gen_neg (fuel : Nat) (v : Int) (hv : v < 0) (a2n : Bool) (bcO : Option Int) :
    getBytesCntOfInt fuel v a2n bcO = .error .spsdk := by
  simp [getBytesCntOfInt, hv]

theorem and15 (x : Nat) : x &&& 15 = x % 16 := Nat.and_two_pow_sub_one_eq_mod x 4

theorem bcdCheckNumber_eq (n : Int) :
    bcdCheckNumber n = if 0 ≤ n ∧ bcdDigitOk n.toNat = true then .ok true else .error .spsdk := by
  by_cases hn : n < 0
  · have : ¬ (0 ≤ n) := by omega
    simp [bcdCheckNumber, hn, this]
  · obtain ⟨k, rfl⟩ := Int.eq_ofNat_of_zero_le (by omega : 0 ≤ n)
    simp only [bcdCheckNumber, pyShr_nat, pyAnd_nat, bcdDigitOk]
    simp [and15, Nat.shiftRight_eq_div_pow]
    (repeat' split) <;> first | rfl | (exfalso; omega)

/-! ### lower-case hex text -/

theorem hexCh_facts : ∀ k : Fin 16,
    isWs (hexCh k.val) = false ∧ lowerCh (hexCh k.val) = hexCh k.val ∧ isNumCh (hexCh k.val) = true ∧
    hexCh k.val ≠ '_' ∧ digitVal (hexCh k.val) = k.val ∧ hexCh k.val ≠ 'x' ∧ hexCh k.val ≠ 'X' := by
  decide

/-- a non-empty string of lower-case hex digits after `0x` is the base-16 number it spells -/
theorem valueToInt_hex (hs : List Char) (hne : hs ≠ []) (hall : ∀ c ∈ hs, ∃ k : Fin 16, c = hexCh k.val) :
    valueToInt ('0' :: 'x' :: hs) = some (hs.foldl (fun acc c => acc * 16 + digitVal c) 0) := by
  have hf : ∀ c ∈ hs, isWs c = false ∧ lowerCh c = c ∧ isNumCh c = true ∧ c ≠ '_' ∧ digitVal c < 16 := by
    intro c hc
    obtain ⟨k, rfl⟩ := hall c hc
    obtain ⟨a, b, c', d, e, _, _⟩ := hexCh_facts k
    exact ⟨a, b, c', d, by rw [e]; exact k.isLt⟩
  have hws : ∀ c ∈ '0' :: 'x' :: hs, isWs c = false := by
    intro c hc
    simp only [List.mem_cons] at hc
    rcases hc with rfl | rfl | hc
    · decide
    · decide
    · exact (hf c hc).1
  have h1 : strip ('0' :: 'x' :: hs) = '0' :: 'x' :: hs := strip_eq_self _ hws
  have h2 : hs.map lowerCh = hs := by
    conv => rhs; rw [← List.map_id hs]
    exact List.map_congr_left (fun c hc => (hf c hc).2.1)
  have h2' : ('0' :: 'x' :: hs).map lowerCh = '0' :: 'x' :: hs := by
    simp only [List.map_cons, h2]
    have e1 : lowerCh '0' = '0' := by decide
    have e2 : lowerCh 'x' = 'x' := by decide
    rw [e1, e2]
  have h3 : hs.takeWhile isNumCh = hs := takeWhile_all _ _ (fun c hc => (hf c hc).2.2.1)
  have h4 : hs.dropWhile isNumCh = [] := dropWhile_all _ _ (fun c hc => (hf c hc).2.2.1)
  have he : hs.isEmpty = false := by cases hs <;> simp_all
  have hm : matchNumSuf hs = some hs := by simp [matchNumSuf, h3, h4, he]
  have hr : regexMatch ('0' :: 'x' :: hs) = some (16, hs) := by
    simp [regexMatch, hm]
  have hp : pyIntOf 16 hs = digitsValue 16 hs false 0 := by
    rcases hs with _ | ⟨c0, _ | ⟨c1, rest⟩⟩
    · exact absurd rfl hne
    · have := hf c0 (by simp)
      simp [pyIntOf, this]
    · have hu : c0 ≠ '_' := (hf c0 (by simp)).2.2.2.1
      by_cases h0' : c0 = '0'
      · subst h0'
        by_cases hb : c1 = 'b'
        · subst hb; simp [pyIntOf]
        · simp [pyIntOf, hb]
      · simp [pyIntOf, hu, h0']
  simp only [valueToInt, List.isEmpty_cons, h1, h2', hr, hp, Bool.false_eq_true, if_false]
  exact digitsValue_digits 16 hs 0 (fun c hc => ⟨(hf c hc).2.2.2.1, (hf c hc).2.2.2.2⟩)

theorem hexOf_all (bs : Bytes) : ∀ c ∈ hexOf bs, ∃ k : Fin 16, c = hexCh k.val := by
  induction bs with
  | nil => intro c hc; simp [hexOf] at hc
  | cons x r ih =>
    intro c hc
    simp only [hexOf, List.mem_cons] at hc
    have hx := x.toNat_lt
    rcases hc with rfl | rfl | hc
    · exact ⟨⟨x.toNat / 16, by omega⟩, rfl⟩
    · exact ⟨⟨x.toNat % 16, by omega⟩, rfl⟩
    · exact ih c hc

theorem hexOf_foldl (bs : Bytes) (acc : Nat) :
    (hexOf bs).foldl (fun acc c => acc * 16 + digitVal c) acc = bs.foldl (fun acc x => acc * 256 + x.toNat) acc := by
  induction bs generalizing acc with
  | nil => rfl
  | cons x r ih =>
    have hx := x.toNat_lt
    have e1 := (hexCh_facts ⟨x.toNat / 16, by omega⟩).2.2.2.2.1
    have e2 := (hexCh_facts ⟨x.toNat % 16, by omega⟩).2.2.2.2.1
    simp only at e1 e2
    simp only [hexOf, List.foldl_cons, e1, e2, ih]
    congr 1
    omega

theorem hexOf_ne_nil (bs : Bytes) (h : bs ≠ []) : hexOf bs ≠ [] := by
  cases bs with
  | nil => exact absurd rfl h
  | cons x r => simp [hexOf]

theorem has0x_hexOf (bs : Bytes) : has0x (hexOf bs) = false := by
  rcases bs with _ | ⟨x, r⟩
  · rfl
  · have hx := x.toNat_lt
    obtain ⟨_, _, _, _, _, h1, h2⟩ := hexCh_facts ⟨x.toNat % 16, by omega⟩
    simp only at h1 h2
    simp only [hexOf]
    unfold has0x
    split <;> simp_all

/-- the hex text of a non-empty byte string, with or without `0x`, parses to its big-endian value -/
theorem valueToInt_hexOf (bs : Bytes) (h : bs ≠ []) :
    valueToInt (with0x (hexOf bs)) = some (beDec bs) ∧ valueToInt (with0x ('0' :: 'x' :: hexOf bs)) = some (beDec bs) := by
  have key : valueToInt ('0' :: 'x' :: hexOf bs) = some (beDec bs) := by
    rw [valueToInt_hex _ (hexOf_ne_nil bs h) (hexOf_all bs), hexOf_foldl]; rfl
  constructor
  · simp only [with0x, has0x_hexOf]; exact key
  · simp only [with0x, has0x]; exact key

/-! ### `beEnc` inverts `beDec` on the exact width -/

theorem beDec_rev_spec (l : Bytes) : beDec l.reverse < 256 ^ l.length ∧ beEnc l.length (beDec l.reverse) = l.reverse := by
  induction l with
  | nil => simp [beDec, beEnc]
  | cons x l ih =>
    have hx := x.toNat_lt
    rw [List.reverse_cons, beDec_append_single, List.length_cons, Nat.pow_succ, beEnc]
    have e1 : (beDec l.reverse * 256 + x.toNat) / 256 = beDec l.reverse := by omega
    have e2 : (beDec l.reverse * 256 + x.toNat) % 256 = x.toNat := by omega
    rw [e1, e2, ih.2, UInt8.ofNat_toNat]
    exact ⟨by omega, rfl⟩

theorem beDec_lt (b : Bytes) : beDec b < 256 ^ b.length := by
  have := (beDec_rev_spec b.reverse).1
  simpa using this

theorem beEnc_beDec (b : Bytes) : beEnc b.length (beDec b) = b := by
  have := (beDec_rev_spec b.reverse).2
  simpa using this

theorem byteLen_le (v n : Nat) (h : v < 256 ^ n) : byteLen v ≤ n := by
  by_cases hv : v = 0
  · subst hv; simp [byteLen, byteLenF]
  · have := (byteLenF_min v v (Nat.le_refl v)).2 (by omega)
    change 256 ^ (byteLen v - 1) ≤ v at this
    have hlt : 256 ^ (byteLen v - 1) < 256 ^ n := Nat.lt_of_le_of_lt this h
    have := (Nat.pow_lt_pow_iff_right (by omega : 1 < 256)).1 hlt
    omega


/-! ### `load_hex_string`, literal branch -/

/-- with an explicit non-zero `byte_cnt` and `align_to_2n` the value is accepted exactly when its aligned width fits -/
theorem getBytesCnt_true (v N : Nat) (hN : N ≠ 0) :
    getBytesCnt v true N = if widthA v ≤ N then .ok N else .error .spsdk := by
  unfold getBytesCnt widthA
  by_cases hv : v = 0
  · subst hv; simp [hN, byteLen, byteLenF]
  · simp only [hv, if_false, Bool.true_and, decide_eq_true_eq]
    by_cases hc : byteLen v > 2 <;> simp only [hc, if_true, if_false] <;>
      (repeat' split) <;> first | rfl | (exfalso; omega)

/-- with an explicit non-zero `byte_cnt` and without `align_to_2n` the value is accepted exactly when it fits -/
theorem getBytesCnt_false (v N : Nat) (hN : N ≠ 0) :
    getBytesCnt v false N = if byteLen v ≤ N then .ok N else .error .spsdk := by
  unfold getBytesCnt
  by_cases hv : v = 0
  · subst hv; simp [hN, byteLen, byteLenF]
  · simp only [hv, if_false, Bool.false_and, Bool.false_eq_true]
    (repeat' split) <;> first | rfl | (exfalso; omega)

theorem byteLen_le_iff (v N : Nat) : byteLen v ≤ N ↔ v < 256 ^ N := by
  constructor
  · intro h
    have h1 := (byteLenF_min v v (Nat.le_refl v)).1
    change v < 256 ^ byteLen v at h1
    exact Nat.lt_of_lt_of_le h1 (Nat.pow_le_pow_right (by omega) h)
  · exact byteLen_le v N

theorem loadHexString_str (s : List Char) (n : Int) (hs : s ≠ []) (hn : 1 ≤ n) :
    loadHexString (.str s) n =
      match valueToInt (with0x s) with
      | none => .error .spsdk
      | some v => if v < 256 ^ n.toNat then .ok (some (beEnc n.toNat v)) else .error .spsdk := by
  have he : s.isEmpty = false := by cases s <;> simp_all
  have hn' : ¬ n < 1 := by omega
  have hN : n.toNat ≠ 0 := by omega
  simp only [loadHexString, HexSrc.falsy, he, hn', Bool.false_eq_true, if_false]
  cases valueToInt (with0x s) with
  | none => rfl
  | some v =>
    simp only [valueToBytes, getBytesCnt_false v _ hN, byteLen_le_iff]
    by_cases hw : v < 256 ^ n.toNat <;> simp [hw]

theorem widthA_ge (v : Nat) : byteLen v ≤ widthA v := by
  unfold widthA; split <;> omega

theorem fits_of_widthA (v N : Nat) (h : widthA v ≤ N) : v < 256 ^ N := by
  have h1 := (byteLenF_min v v (Nat.le_refl v)).1
  change v < 256 ^ byteLen v at h1
  exact Nat.lt_of_lt_of_le h1 (Nat.pow_le_pow_right (by omega) (Nat.le_trans (widthA_ge v) h))

/-! ### `hex()` re-parses -/

theorem hexDigitsF_spec (f : Nat) : ∀ (v : Nat) (acc : List Char), v ≤ f →
    ∃ ds, hexDigitsF (f + 1) v acc = ds ++ acc ∧ ds ≠ [] ∧ (∀ c ∈ ds, ∃ k : Fin 16, c = hexCh k.val) ∧
      ∀ a0, ds.foldl (fun a c => a * 16 + digitVal c) a0 = a0 * 16 ^ ds.length + v := by
  induction f with
  | zero =>
    intro v acc hv
    have : v = 0 := by omega
    subst this
    refine ⟨[hexCh 0], by simp [hexDigitsF], by simp, ?_, ?_⟩
    · intro c hc; simp at hc; exact ⟨⟨0, by omega⟩, hc⟩
    · intro a0
      have := (hexCh_facts ⟨0, by omega⟩).2.2.2.2.1
      simp only at this
      simp [this]
  | succ f ih =>
    intro v acc hv
    by_cases h16 : v < 16
    · refine ⟨[hexCh v], by simp [hexDigitsF, h16], by simp, ?_, ?_⟩
      · intro c hc; simp at hc; exact ⟨⟨v, h16⟩, hc⟩
      · intro a0
        have := (hexCh_facts ⟨v, h16⟩).2.2.2.2.1
        simp only at this
        simp [this]
    · obtain ⟨ds, e, hne, hall, hval⟩ := ih (v / 16) (hexCh (v % 16) :: acc) (by omega)
      refine ⟨ds ++ [hexCh (v % 16)], ?_, by simp, ?_, ?_⟩
      · rw [hexDigitsF]; simp only [h16, if_false]; rw [e]; simp
      · intro c hc
        simp only [List.mem_append, List.mem_singleton] at hc
        rcases hc with hc | rfl
        · exact hall c hc
        · exact ⟨⟨v % 16, by omega⟩, rfl⟩
      · intro a0
        have := (hexCh_facts ⟨v % 16, by omega⟩).2.2.2.2.1
        simp only at this
        rw [List.foldl_append, hval]
        simp only [List.foldl_cons, List.foldl_nil, this, List.length_append, List.length_singleton, Nat.pow_succ]
        rw [Nat.add_mul, ← Nat.mul_assoc]
        omega

theorem valueToInt_pyHex (v : Nat) : valueToInt (pyHex v) = some v := by
  obtain ⟨ds, e, hne, hall, hval⟩ := hexDigitsF_spec v v [] (Nat.le_refl v)
  have : pyHex v = '0' :: 'x' :: ds := by simp [pyHex, hexDigits, e]
  rw [this, valueToInt_hex ds hne hall, hval]
  simp

/-! ### `split_data` -/

theorem chunksF_spec (f : Nat) : ∀ (n : Nat) (d : Bytes), 0 < n → d.length ≤ f →
    (chunksF f n d).flatten = d ∧ (∀ c ∈ chunksF f n d, 1 ≤ c.length ∧ c.length ≤ n) ∧
    (∀ c ∈ (chunksF f n d).dropLast, c.length = n) ∧ (chunksF f n d).length = (d.length + n - 1) / n := by
  induction f with
  | zero =>
    intro n d hn hd
    have : d = [] := List.eq_nil_of_length_eq_zero (by omega)
    subst this
    refine ⟨rfl, by simp [chunksF], by simp [chunksF], ?_⟩
    simp only [chunksF, List.length_nil]
    have : (0 + n - 1) / n = 0 := Nat.div_eq_of_lt (by omega)
    omega
  | succ f ih =>
    intro n d hn hd
    by_cases he : d = []
    · subst he
      refine ⟨by simp [chunksF], by simp [chunksF], by simp [chunksF], ?_⟩
      simp only [chunksF, List.isEmpty_nil, if_true, List.length_nil]
      have : (0 + n - 1) / n = 0 := Nat.div_eq_of_lt (by omega)
      omega
    · have hemp : d.isEmpty = false := by cases d <;> simp_all
      have hpos : 0 < d.length := List.length_pos_iff.2 he
      have hdl : (d.drop n).length ≤ f := by simp only [List.length_drop]; omega
      obtain ⟨i1, i2, i3, i4⟩ := ih n (d.drop n) hn hdl
      simp only [chunksF, hemp, Bool.false_eq_true, if_false]
      refine ⟨?_, ?_, ?_, ?_⟩
      · simp [i1]
      · intro c hc
        simp only [List.mem_cons] at hc
        rcases hc with rfl | hc
        · simp only [List.length_take]; omega
        · exact i2 c hc
      · intro c hc
        cases hr : chunksF f n (d.drop n) with
        | nil => rw [hr] at hc; simp at hc
        | cons r rs =>
          rw [hr, List.dropLast_cons_cons] at hc
          simp only [List.mem_cons] at hc
          rcases hc with rfl | hc
          · -- the rest is non-empty, so `d` is longer than `n`
            have : (d.drop n).length ≠ 0 := by
              intro h0
              have : d.drop n = [] := List.eq_nil_of_length_eq_zero h0
              rw [this] at hr
              cases f <;> simp [chunksF] at hr
            simp only [List.length_drop] at this
            simp only [List.length_take]; omega
          · apply i3; rw [hr]; exact hc
      · simp only [List.length_cons, i4, List.length_drop]
        by_cases hle : d.length ≤ n
        · have e1 : d.length - n = 0 := by omega
          have e2 : (0 + n - 1) / n = 0 := Nat.div_eq_of_lt (by omega)
          have e3 : (d.length + n - 1) / n = 1 := by
            apply Nat.div_eq_of_lt_le <;> omega
          rw [e1, e2, e3]
        · have : d.length + n - 1 = (d.length - n + n - 1) + n := by omega
          rw [this, Nat.add_div_right _ hn]


/-! ### enum lookups -/

theorem inj_of_nodup_map {α β} (f : α → β) : ∀ (l : List α), (l.map f).Nodup →
    ∀ x ∈ l, ∀ y ∈ l, f x = f y → x = y := by
  intro l
  induction l with
  | nil => intro _ x hx; simp at hx
  | cons a l ih =>
    intro hnd x hx y hy hxy
    simp only [List.map_cons, List.nodup_cons, List.mem_map, not_exists, not_and] at hnd
    simp only [List.mem_cons] at hx hy
    rcases hx with rfl | hx <;> rcases hy with rfl | hy
    · rfl
    · exact absurd hxy.symm (hnd.1 y hy)
    · exact absurd hxy (hnd.1 x hx)
    · exact ih hnd.2 x hx y hy hxy

theorem find_unique {α β} [BEq β] [LawfulBEq β] (f : α → β) (l : List α) (hnd : (l.map f).Nodup) (m : α) (hm : m ∈ l) :
    l.find? (fun x => f x == f m) = some m := by
  have hs : (l.find? (fun x => f x == f m)).isSome = true := by
    rw [List.find?_isSome]; exact ⟨m, hm, by simp⟩
  obtain ⟨m', hm'⟩ := Option.isSome_iff_exists.1 hs
  have h1 := List.find?_some hm'
  have h2 := List.mem_of_find?_eq_some hm'
  simp only [beq_iff_eq] at h1
  rw [hm', inj_of_nodup_map f l hnd m' h2 m hm h1]

theorem lower_cases (c : Char) (h : 'a' ≤ c ∧ c ≤ 'z') : ∃ n : Fin 26, c = Char.ofNat (97 + n.val) := by
  have h1 : 97 ≤ c.toNat := by
    have := h.1; simpa [Char.le_def, UInt32.le_iff_toNat_le] using this
  have h2 : c.toNat ≤ 122 := by
    have := h.2; simpa [Char.le_def, UInt32.le_iff_toNat_le] using this
  refine ⟨⟨c.toNat - 97, by omega⟩, ?_⟩
  have : 97 + (c.toNat - 97) = c.toNat := by omega
  simp only [this, Char.ofNat_toNat]

theorem upperCh_idem (c : Char) : upperCh (upperCh c) = upperCh c := by
  by_cases h : 'a' ≤ c ∧ c ≤ 'z'
  · obtain ⟨n, rfl⟩ := lower_cases c h
    revert n; decide
  · simp [upperCh, h]

theorem upper_idem (l : List Char) : upper (upper l) = upper l := by
  simp [upper, upperCh_idem]


/-! ### alignment: the multiple of `a` in a window of length `a` is unique -/

theorem mult_unique (a n r s : Int) (ha : 0 < a) (hr : a ∣ r) (hs : a ∣ s)
    (h1 : n ≤ r ∧ r < n + a) (h2 : n ≤ s ∧ s < n + a) : r = s := by
  obtain ⟨k, rfl⟩ := hr
  obtain ⟨j, rfl⟩ := hs
  have hkj : k = j := by
    rcases Int.lt_trichotomy k j with h | h | h
    · exfalso
      have : a * (k + 1) ≤ a * j := Int.mul_le_mul_of_nonneg_left (by omega) (Int.le_of_lt ha)
      rw [Int.mul_add, Int.mul_one] at this
      omega
    · exact h
    · exfalso
      have : a * (j + 1) ≤ a * k := Int.mul_le_mul_of_nonneg_left (by omega) (Int.le_of_lt ha)
      rw [Int.mul_add, Int.mul_one] at this
      omega
  rw [hkj]

theorem alignNat_int (n a : Nat) (ha : 0 < a) :
    (a : Int) ∣ (alignNat n a : Int) ∧ (n : Int) ≤ alignNat n a ∧ (alignNat n a : Int) < n + a := by
  obtain ⟨s1, s2, s3⟩ := alignNat_spec n a ha
  refine ⟨?_, by omega, by omega⟩
  exact Int.natCast_dvd_natCast.2 (Nat.dvd_of_mod_eq_zero s1)

end SpsdkVerif.Misc
