/- Helper lemmas for Properties/C03.lean: certificate-block codecs (round trips, flags, signed range). -/
import SpsdkVerif.Model.CertBlock
import SpsdkVerif.Proofs.Rkht

namespace SpsdkVerif.CertBlock
open SpsdkVerif SpsdkVerif.Spec
open SpsdkVerif.Misc hiding Bytes
open SpsdkVerif.Crypto (HashAlg CryptoOps CryptoLaws Bytes)
open SpsdkVerif.Rkht (bind_ok pure_eq_ok exportV1 exportV1_ok rkhtV1Init rkhtV1Init_ok RootKeyRecord rkrFlags curveBit exportV21 rkhtInit rkhtInit_ok rkrHashAlgorithm)

/-! ### struct fields -/

theorem leEnc_len (w v : Nat) : (leEnc w v).length = w := by simp [leEnc, beEnc_length']

theorem leDec_leEnc (w v : Nat) (h : v < 256 ^ w) : leDec (leEnc w v) = v := by
  simp only [leDec, leEnc, List.reverse_reverse, beDec_beEnc_mod]
  exact Nat.mod_eq_of_lt h

theorem packLE_ok (w v : Nat) (h : v < 256 ^ w) : packLE w v = .ok (leEnc w v) := by simp [packLE, h]

theorem unpackLE_append (w v : Nat) (rest : Bytes) (h : v < 256 ^ w) :
    unpackLE w (leEnc w v ++ rest) = .ok (v, rest) := by
  have hl := leEnc_len w v
  simp only [unpackLE, List.length_append, hl]
  rw [if_neg (by omega), List.take_left' hl, List.drop_left' hl, leDec_leEnc w v h]

/-! ### certificate block v1 -/

/-- the RKH table as `RKHTv1.parse` returns it: always four entries, missing ones zero -/
def pad4 (l : List Bytes) : List Bytes := l ++ List.replicate (4 - l.length) (List.replicate 32 0)

theorem pad4_len (l : List Bytes) (h : l.length ≤ 4) : (pad4 l).length = 4 := by simp [pad4]; omega

theorem pad4_32 (l : List Bytes) (h32 : ∀ h ∈ l, h.length = 32) : ∀ h ∈ pad4 l, h.length = 32 := by
  intro h hh
  rcases List.mem_append.mp hh with h1 | h1
  · exact h32 h h1
  · rw [(List.mem_replicate.mp h1).2]; simp

theorem rkhtV1Parse_four (a b c d : Bytes) (ha : a.length = 32) (hb : b.length = 32) (hc : c.length = 32)
    (hd : d.length = 32) (rest : Bytes) :
    rkhtV1Parse ((a ++ (b ++ (c ++ (d ++ [])))) ) = .ok [a, b, c, d] := by
  have hl : (a ++ (b ++ (c ++ (d ++ [])))).length / 4 = 32 := by simp [ha, hb, hc, hd]
  have e1 : (a ++ (b ++ (c ++ (d ++ [])))).take 32 = a := List.take_left' ha
  have e2 : (a ++ (b ++ (c ++ (d ++ [])))).drop 32 = b ++ (c ++ (d ++ [])) := List.drop_left' ha
  have e3 : (a ++ (b ++ (c ++ (d ++ [])))).drop (2 * 32) = c ++ (d ++ []) := by
    rw [← List.append_assoc]; exact List.drop_left' (by simp [ha, hb])
  have e4 : (a ++ (b ++ (c ++ (d ++ [])))).drop (3 * 32) = d ++ [] := by
    rw [← List.append_assoc, ← List.append_assoc]; exact List.drop_left' (by simp [ha, hb, hc])
  simp only [rkhtV1Parse, hl, e1, e2, e3, e4, List.take_left' hb, List.take_left' hc, List.take_left' hd]
  exact rkhtV1Init_ok _ (by simp) (by intro h hh; simp at hh; rcases hh with rfl | rfl | rfl | rfl <;> assumption)

theorem rkhtV1Parse_pad4 (l : List Bytes) (hl : l.length ≤ 4) (h32 : ∀ h ∈ l, h.length = 32) :
    rkhtV1Parse (pad4 l).flatten = .ok (pad4 l) := by
  obtain ⟨a, b, c, d, e⟩ := Rkht.list_eq4 (pad4 l) (pad4_len l hl)
  have hm := pad4_32 l h32
  rw [e] at hm ⊢
  simp only [List.flatten_cons, List.flatten_nil]
  exact rkhtV1Parse_four a b c d (hm a (by simp)) (hm b (by simp)) (hm c (by simp)) (hm d (by simp)) []


theorem certsExport_ok : ∀ (certs : List Bytes), (∀ c ∈ certs, c.length < 256 ^ 4) →
    certsExport certs = .ok ((certs.map (fun c => leEnc 4 c.length ++ c)).flatten)
  | [], _ => rfl
  | c :: rest, h => by
    simp only [certsExport, packLE_ok 4 c.length (h c (by simp)), bind_ok,
      certsExport_ok rest (fun x hx => h x (by simp [hx])), pure_eq_ok, List.map_cons, List.flatten_cons,
      List.append_assoc]

theorem certsBytes_len : ∀ (certs : List Bytes),
    ((certs.map (fun c => leEnc 4 c.length ++ c)).flatten).length = certTableLength certs
  | [] => rfl
  | c :: rest => by
    have := certsBytes_len rest
    simp only [List.map_cons, List.flatten_cons, List.length_append, leEnc_len, this, certTableLength, List.sum_cons]
    simp only [certTableLength] at this
    omega

theorem certsParse_ok (certOk : Bytes → Bool) : ∀ (certs : List Bytes) (tail : Bytes),
    (∀ c ∈ certs, c.length < 256 ^ 4 ∧ certOk c = true) →
    certsParse certOk certs.length ((certs.map (fun c => leEnc 4 c.length ++ c)).flatten ++ tail) = .ok (certs, tail)
  | [], tail, _ => rfl
  | c :: rest, tail, h => by
    obtain ⟨h1, h2⟩ := h c (by simp)
    have ih := certsParse_ok certOk rest tail (fun x hx => h x (by simp [hx]))
    simp only [List.length_cons, certsParse, List.map_cons, List.flatten_cons, List.append_assoc,
      unpackLE_append 4 c.length _ h1, bind_ok, List.take_left' rfl, List.drop_left' rfl, h2, Bool.not_true,
      Bool.false_eq_true, ↓reduceIte, ih, pure_eq_ok]

structure WFv1 (certOk : Bytes → Bool) (cb : CertBlockV1) : Prop where
  major : cb.major < 65536
  minor : cb.minor < 65536
  flags : cb.flags < 2 ^ 32
  build : cb.buildNumber < 2 ^ 32
  image : cb.imageLength < 2 ^ 32
  certs_ne : cb.certs ≠ []
  certs : ∀ c ∈ cb.certs, c.length < 2 ^ 32 ∧ certOk c = true
  count : cb.certs.length < 2 ^ 32
  table : certTableLength cb.certs < 2 ^ 32
  rkh_len : cb.rkh.length ≤ 4
  rkh : ∀ h ∈ cb.rkh, h.length = 32
  align : 0 < cb.alignment

/-- header ‖ length-prefixed certificates ‖ RKH table of a block -/
def bodyV1 (cb : CertBlockV1) : Bytes :=
  G.cbV1Signature ++ leEnc 2 cb.major ++ leEnc 2 cb.minor ++ leEnc 4 32 ++ leEnc 4 cb.flags ++
    leEnc 4 cb.buildNumber ++ leEnc 4 cb.imageLength ++ leEnc 4 cb.certs.length ++ leEnc 4 (certTableLength cb.certs) ++
    (cb.certs.map (fun c => leEnc 4 c.length ++ c)).flatten ++ (pad4 cb.rkh).flatten

/-- the exported bytes of a well-formed block: body and zero padding up to the alignment -/
def bytesV1 (cb : CertBlockV1) : Bytes :=
  bodyV1 cb ++ List.replicate (alignNat (bodyV1 cb).length cb.alignment - (bodyV1 cb).length) 0

theorem flatten32 (l : List Bytes) (h : ∀ x ∈ l, x.length = 32) : l.flatten.length = 32 * l.length :=
  Rkht.flatten_lenN 32 l h

theorem bodyV1_len (certOk : Bytes → Bool) (cb : CertBlockV1) (wf : WFv1 certOk cb) :
    (bodyV1 cb).length = 32 + certTableLength cb.certs + 128 := by
  have hsig : G.cbV1Signature.length = 4 := rfl
  have hpl : (pad4 cb.rkh).flatten.length = 128 := by
    rw [flatten32 _ (pad4_32 _ wf.rkh), pad4_len _ wf.rkh_len]
  simp only [bodyV1, List.length_append, leEnc_len, hsig, certsBytes_len, hpl]

theorem exportV1Block_ok (certOk : Bytes → Bool) (cb : CertBlockV1) (wf : WFv1 certOk cb) :
    exportV1Block true cb = .ok (bytesV1 cb) := by
  have p16 : (65536 : Nat) = 256 ^ 2 := by decide
  have p32 : (2 : Nat) ^ 32 = 256 ^ 4 := by decide
  have hne : cb.certs.isEmpty = false := by
    cases h : cb.certs with
    | nil => exact absurd h wf.certs_ne
    | cons _ _ => rfl
  have hx := exportV1_ok cb.rkh wf.rkh_len wf.rkh
  have hc := certsExport_ok cb.certs (fun c hc => by rw [← p32]; exact (wf.certs c hc).1)
  have ha : ¬ cb.alignment = 0 := by have := wf.align; omega
  have e32 : G.rkhV1Size = 32 := rfl
  have e4 : G.rkhtV1Slots = 4 := rfl
  simp only [exportV1Block, hne, Bool.false_eq_true, ↓reduceIte, Bool.not_true, headerV1Export, headerSizeV1,
    packLE_ok 2 cb.major (by rw [← p16]; exact wf.major), packLE_ok 2 cb.minor (by rw [← p16]; exact wf.minor),
    packLE_ok 4 32 (by decide), packLE_ok 4 cb.flags (by rw [← p32]; exact wf.flags),
    packLE_ok 4 cb.buildNumber (by rw [← p32]; exact wf.build), packLE_ok 4 cb.imageLength (by rw [← p32]; exact wf.image),
    packLE_ok 4 cb.certs.length (by rw [← p32]; exact wf.count),
    packLE_ok 4 (certTableLength cb.certs) (by rw [← p32]; exact wf.table), bind_ok, pure_eq_ok, hc, hx, ha, e32, e4]
  show (if (bodyV1 cb ++ List.replicate (alignNat (bodyV1 cb).length cb.alignment - (bodyV1 cb).length) 0).length ≠
      alignNat (32 + certTableLength cb.certs + 32 * 4) cb.alignment then _ else _) = _
  have hl := bodyV1_len certOk cb wf
  have hal := (alignNat_spec (bodyV1 cb).length cb.alignment wf.align).2.1
  have : (bodyV1 cb ++ List.replicate (alignNat (bodyV1 cb).length cb.alignment - (bodyV1 cb).length) 0).length =
      alignNat (32 + certTableLength cb.certs + 32 * 4) cb.alignment := by
    simp only [List.length_append, List.length_replicate]
    rw [hl] at hal ⊢
    have e : 32 * 4 = 128 := rfl
    rw [e]
    omega
  rw [if_neg (by rw [this]; simp)]
  rfl


/-- the header fields of a block -/
def hdrOf (cb : CertBlockV1) : HeaderV1 :=
  { major := cb.major, minor := cb.minor, flags := cb.flags, buildNumber := cb.buildNumber,
    imageLength := cb.imageLength, certCount := cb.certs.length, certTableLength := certTableLength cb.certs }

theorem headerV1Parse_ok (certOk : Bytes → Bool) (cb : CertBlockV1) (wf : WFv1 certOk cb) (tail : Bytes) :
    headerV1Parse (G.cbV1Signature ++ (leEnc 2 cb.major ++ (leEnc 2 cb.minor ++ (leEnc 4 32 ++ (leEnc 4 cb.flags ++
      (leEnc 4 cb.buildNumber ++ (leEnc 4 cb.imageLength ++ (leEnc 4 cb.certs.length ++
      (leEnc 4 (certTableLength cb.certs) ++ tail)))))))))
    = .ok (hdrOf cb) := by
  have p16 : (65536 : Nat) = 256 ^ 2 := by decide
  have p32 : (2 : Nat) ^ 32 = 256 ^ 4 := by decide
  have hsig : G.cbV1Signature.length = 4 := rfl
  have hlen : ¬ (32 > (G.cbV1Signature ++ (leEnc 2 cb.major ++ (leEnc 2 cb.minor ++ (leEnc 4 32 ++ (leEnc 4 cb.flags ++
      (leEnc 4 cb.buildNumber ++ (leEnc 4 cb.imageLength ++ (leEnc 4 cb.certs.length ++
      (leEnc 4 (certTableLength cb.certs) ++ tail))))))))).length) := by
    simp only [List.length_append, leEnc_len, hsig]; omega
  simp only [headerV1Parse, headerSizeV1, hlen, ↓reduceIte, List.take_left' hsig, List.drop_left' hsig,
    unpackLE_append 2 cb.major _ (by rw [← p16]; exact wf.major),
    unpackLE_append 2 cb.minor _ (by rw [← p16]; exact wf.minor),
    unpackLE_append 4 32 _ (by decide), unpackLE_append 4 cb.flags _ (by rw [← p32]; exact wf.flags),
    unpackLE_append 4 cb.buildNumber _ (by rw [← p32]; exact wf.build),
    unpackLE_append 4 cb.imageLength _ (by rw [← p32]; exact wf.image),
    unpackLE_append 4 cb.certs.length _ (by rw [← p32]; exact wf.count),
    unpackLE_append 4 (certTableLength cb.certs) _ (by rw [← p32]; exact wf.table), bind_ok, pure_eq_ok,
    headerSizeV1, ne_eq, not_true_eq_false, hdrOf]

/-- parse ∘ export on a well-formed certificate block v1: every field comes back; the RKH table is returned
    with its four slots (missing ones zero) and the alignment is the default one -/
theorem parse_exportV1 (certOk : Bytes → Bool) (cb : CertBlockV1) (wf : WFv1 certOk cb) :
    parseV1Block certOk (bytesV1 cb) = .ok { cb with rkh := pad4 cb.rkh, alignment := G.cbV1Alignment } := by
  have p32 : (2 : Nat) ^ 32 = 256 ^ 4 := by decide
  have hsig : G.cbV1Signature.length = 4 := rfl
  have hpl : (pad4 cb.rkh).flatten.length = 128 := by
    rw [flatten32 _ (pad4_32 _ wf.rkh), pad4_len _ wf.rkh_len]
  generalize hpad : List.replicate (alignNat (bodyV1 cb).length cb.alignment - (bodyV1 cb).length) (0 : UInt8) = pad
  have hb : bytesV1 cb = G.cbV1Signature ++ (leEnc 2 cb.major ++ (leEnc 2 cb.minor ++ (leEnc 4 32 ++ (leEnc 4 cb.flags ++
      (leEnc 4 cb.buildNumber ++ (leEnc 4 cb.imageLength ++ (leEnc 4 cb.certs.length ++
      (leEnc 4 (certTableLength cb.certs) ++ ((cb.certs.map (fun c => leEnc 4 c.length ++ c)).flatten ++
        ((pad4 cb.rkh).flatten ++ pad)))))))))) := by
    unfold bytesV1; rw [hpad]; simp only [bodyV1, List.append_assoc]
  have hlen : (bytesV1 cb).length = 32 + certTableLength cb.certs + 128 + pad.length := by
    unfold bytesV1; rw [hpad]; simp only [List.length_append, bodyV1_len certOk cb wf]
  have hdrop : (bytesV1 cb).drop 32 = (cb.certs.map (fun c => leEnc 4 c.length ++ c)).flatten ++ ((pad4 cb.rkh).flatten ++ pad) := by
    rw [hb]
    have : ∀ (t : Bytes), G.cbV1Signature ++ (leEnc 2 cb.major ++ (leEnc 2 cb.minor ++ (leEnc 4 32 ++ (leEnc 4 cb.flags ++
      (leEnc 4 cb.buildNumber ++ (leEnc 4 cb.imageLength ++ (leEnc 4 cb.certs.length ++
      (leEnc 4 (certTableLength cb.certs) ++ t)))))))) = (G.cbV1Signature ++ leEnc 2 cb.major ++ leEnc 2 cb.minor ++ leEnc 4 32 ++ leEnc 4 cb.flags ++
      leEnc 4 cb.buildNumber ++ leEnc 4 cb.imageLength ++ leEnc 4 cb.certs.length ++
      leEnc 4 (certTableLength cb.certs)) ++ t := by intro t; simp only [List.append_assoc]
    rw [this]
    exact List.drop_left' (by simp only [List.length_append, leEnc_len, hsig])
  have hh : headerV1Parse (bytesV1 cb) = .ok (hdrOf cb) := by rw [hb]; exact headerV1Parse_ok certOk cb wf _
  have e32 : G.rkhV1Size = 32 := rfl
  have e4 : G.rkhtV1Slots = 4 := rfl
  have hnl : ¬ ((bytesV1 cb).length < certTableLength cb.certs + 4 * 32) := by rw [hlen]; omega
  simp only [parseV1Block, hh, bind_ok, hdrOf, e32, e4, hnl, ↓reduceIte, headerSizeV1, hdrop,
    certsParse_ok certOk cb.certs _ (fun c hc => by rw [← p32]; exact wf.certs c hc),
    List.take_left' (show (pad4 cb.rkh).flatten.length = 32 * 4 from hpl), rkhtV1Parse_pad4 cb.rkh wf.rkh_len wf.rkh,
    pure_eq_ok]


theorem pad4_idem (l : List Bytes) (h : l.length ≤ 4) : pad4 (pad4 l) = pad4 l := by
  have := pad4_len l h
  simp [pad4] at this ⊢
  omega

theorem wf_normalized (certOk : Bytes → Bool) (cb : CertBlockV1) (wf : WFv1 certOk cb) :
    WFv1 certOk { cb with rkh := pad4 cb.rkh, alignment := G.cbV1Alignment } :=
  { wf with rkh_len := by simp [pad4_len _ wf.rkh_len], rkh := pad4_32 _ wf.rkh, align := by show 0 < G.cbV1Alignment; decide }

/-- export ∘ parse ∘ export = export for the default alignment -/
theorem reexportV1 (certOk : Bytes → Bool) (cb : CertBlockV1) (wf : WFv1 certOk cb) (ha : cb.alignment = G.cbV1Alignment) :
    exportV1Block true { cb with rkh := pad4 cb.rkh, alignment := G.cbV1Alignment } = .ok (bytesV1 cb) := by
  rw [exportV1Block_ok certOk _ (wf_normalized certOk cb wf)]
  simp only [bytesV1, bodyV1, pad4_idem _ wf.rkh_len, ha]

/-! ### root key record flags -/

def RkrFieldsOK (ca : Bool) (u n : Nat) (cv : Curve) : Prop :=
    rkrCa (rkrFlags ca u n cv) = ca ∧ rkrUsed (rkrFlags ca u n cv) = u ∧ rkrCount (rkrFlags ca u n cv) = n ∧
    rkrCurve (rkrFlags ca u n cv) = curveBit cv ∧ rkrFlags ca u n cv < 2 ^ 32

instance (ca : Bool) (u n : Nat) (cv : Curve) : Decidable (RkrFieldsOK ca u n cv) := by
  unfold RkrFieldsOK; infer_instance

theorem rkr_fields_p256 : ∀ (ca : Bool) (u n : Fin 16), RkrFieldsOK ca u n .p256 := by decide
theorem rkr_fields_p384 : ∀ (ca : Bool) (u n : Fin 16), RkrFieldsOK ca u n .p384 := by decide

theorem rkr_fields_fin (ca : Bool) (u n : Fin 16) (cv : Curve) (h : cv ≠ .p521) : RkrFieldsOK ca u n cv := by
  cases cv with
  | p256 => exact rkr_fields_p256 ca u n
  | p384 => exact rkr_fields_p384 ca u n
  | p521 => exact absurd rfl h

theorem rkr_fields (ca : Bool) (used count : Nat) (cv : Curve) (hu : used < 16) (hn : count < 16) (hcv : cv ≠ .p521) :
    rkrCa (rkrFlags ca used count cv) = ca ∧ rkrUsed (rkrFlags ca used count cv) = used ∧
    rkrCount (rkrFlags ca used count cv) = count ∧ rkrCurve (rkrFlags ca used count cv) = curveBit cv ∧
    rkrFlags ca used count cv < 2 ^ 32 :=
  rkr_fields_fin ca ⟨used, hu⟩ ⟨count, hn⟩ cv hcv


/-! ### ISK certificate -/

structure WFisk (pointOk : Bytes → Bool) (sigLen : Nat) (i : IskCert) : Prop where
  offset : i.offsetPresent = true
  constraints : i.constraints < 2 ^ 32
  flags : i.flags = iskCalcFlags i.userData i.pubKey.length
  pub : i.pubKey.length = 64 ∨ i.pubKey.length = 96
  point : pointOk i.pubKey = true
  magic : iskSigOffset i % 65536 ≠ G.iskNoOffsetMagic
  sigoff : iskSigOffset i < 2 ^ 32
  sig : i.signature.length = sigLen
  siglen : 0 < sigLen

theorem iskFlags_facts (ud : Bytes) (pl : Nat) (h : pl = 64 ∨ pl = 96) :
    iskCalcFlags ud pl < 2 ^ 32 ∧ ((iskCalcFlags ud pl &&& G.iskParseUserDataMask ≠ 0) ↔ ud.isEmpty = false) ∧
    G.iskParseKeyLen.lookup (iskCalcFlags ud pl % 16) = some (pl / 2) := by
  cases hu : ud.isEmpty <;> rcases h with h | h <;> subst h <;> simp only [iskCalcFlags, hu] <;> decide

theorem iskHeader_ok (pointOk : Bytes → Bool) (n : Nat) (i : IskCert) (wf : WFisk pointOk n i) :
    iskHeader i = .ok (leEnc 4 (iskSigOffset i) ++ leEnc 4 i.constraints ++ leEnc 4 i.flags) := by
  have p32 : (2 : Nat) ^ 32 = 256 ^ 4 := by decide
  have hf : i.flags < 256 ^ 4 := by rw [wf.flags, ← p32]; exact (iskFlags_facts _ _ wf.pub).1
  simp only [iskHeader, packLE_ok 4 i.constraints (by rw [← p32]; exact wf.constraints), packLE_ok 4 i.flags hf,
    packLE_ok 4 (iskSigOffset i) (by rw [← p32]; exact wf.sigoff), bind_ok, wf.offset, ↓reduceIte, pure_eq_ok]

/-- the exported ISK certificate -/
def iskBytes (i : IskCert) : Bytes :=
  leEnc 4 (iskSigOffset i) ++ leEnc 4 i.constraints ++ leEnc 4 i.flags ++ i.pubKey ++ i.userData ++ i.signature

theorem iskExport_ok (pointOk : Bytes → Bool) (n : Nat) (i : IskCert) (wf : WFisk pointOk n i) :
    iskExport i = .ok (iskBytes i) := by
  have hne : i.signature.isEmpty = false := by
    cases h : i.signature with
    | nil => have := wf.sig; rw [h] at this; have := wf.siglen; simp at *; omega
    | cons _ _ => rfl
  simp only [iskExport, hne, Bool.false_eq_true, ↓reduceIte, iskHeader_ok pointOk n i wf, bind_ok, pure_eq_ok, iskBytes]

theorem iskParse_ok (pointOk : Bytes → Bool) (i : IskCert) (wf : WFisk pointOk i.signature.length i) (tail : Bytes) :
    iskParse pointOk (iskBytes i ++ tail) i.signature.length = .ok i := by
  have p32 : (2 : Nat) ^ 32 = 256 ^ 4 := by decide
  obtain ⟨f1, f2, f3⟩ := iskFlags_facts i.userData i.pubKey.length wf.pub
  have hf : i.flags < 256 ^ 4 := by rw [wf.flags, ← p32]; exact f1
  have hb : iskBytes i ++ tail = leEnc 4 (iskSigOffset i) ++ (leEnc 4 i.constraints ++ (leEnc 4 i.flags ++
      (i.pubKey ++ (i.userData ++ (i.signature ++ tail))))) := by simp only [iskBytes, List.append_assoc]
  have hpl : i.pubKey.length / 2 * 2 = i.pubKey.length := by rcases wf.pub with h | h <;> rw [h]
  have hso : iskSigOffset i = 12 + i.userData.length + i.pubKey.length := by simp [iskSigOffset, wf.offset]
  have hd12 : (iskBytes i ++ tail).drop 12 = i.pubKey ++ (i.userData ++ (i.signature ++ tail)) := by
    rw [hb]
    have : ∀ t : Bytes, leEnc 4 (iskSigOffset i) ++ (leEnc 4 i.constraints ++ (leEnc 4 i.flags ++ t)) =
        (leEnc 4 (iskSigOffset i) ++ leEnc 4 i.constraints ++ leEnc 4 i.flags) ++ t := by intro t; simp only [List.append_assoc]
    rw [this]; exact List.drop_left' (by simp only [List.length_append, leEnc_len])
  have hdoff : (iskBytes i ++ tail).drop (12 + i.pubKey.length) = i.userData ++ (i.signature ++ tail) := by
    rw [← List.drop_drop, hd12]; exact List.drop_left' rfl
  have hdsig : (iskBytes i ++ tail).drop (iskSigOffset i) = i.signature ++ tail := by
    rw [hso, show 12 + i.userData.length + i.pubKey.length = (12 + i.pubKey.length) + i.userData.length by omega,
      ← List.drop_drop, hdoff]; exact List.drop_left' rfl
  have hpne : i.pubKey.isEmpty = false := by
    cases h : i.pubKey with
    | nil => have := wf.pub; rw [h] at this; simp at this
    | cons _ _ => rfl
  simp only [iskParse]
  rw [show iskBytes i ++ tail = leEnc 4 (iskSigOffset i) ++ (leEnc 4 i.constraints ++ (leEnc 4 i.flags ++
      (i.pubKey ++ (i.userData ++ (i.signature ++ tail))))) from hb]
  simp only [unpackLE_append 4 (iskSigOffset i) _ (by rw [← p32]; exact wf.sigoff),
    unpackLE_append 4 i.constraints _ (by rw [← p32]; exact wf.constraints), unpackLE_append 4 i.flags _ hf, bind_ok,
    wf.magic, ↓reduceIte]
  rw [← hb]
  have hlk : lookupOr G.iskParseKeyLen (i.flags % 16) = .ok (i.pubKey.length / 2) := by
    simp only [lookupOr, wf.flags, f3]
  have htk : ((iskBytes i ++ tail).drop 12).take i.pubKey.length = i.pubKey := by rw [hd12]; exact List.take_left' rfl
  have hud : (if i.flags &&& G.iskParseUserDataMask ≠ 0 then
      ((iskBytes i ++ tail).drop (12 + i.pubKey.length)).take (iskSigOffset i - (12 + i.pubKey.length)) else []) = i.userData := by
    cases hu : i.userData.isEmpty with
    | true =>
      have : ¬ (i.flags &&& G.iskParseUserDataMask ≠ 0) := by rw [wf.flags, f2, hu]; simp
      rw [if_neg this]
      cases h : i.userData with
      | nil => rfl
      | cons _ _ => rw [h] at hu; simp at hu
    | false =>
      have : i.flags &&& G.iskParseUserDataMask ≠ 0 := by rw [wf.flags, f2, hu]
      rw [if_pos this, hdoff, hso, show 12 + i.userData.length + i.pubKey.length - (12 + i.pubKey.length) = i.userData.length by omega]
      exact List.take_left' rfl
  have hsg : ((iskBytes i ++ tail).drop (iskSigOffset i)).take i.signature.length = i.signature := by
    rw [hdsig]; exact List.take_left' rfl
  simp only [hlk, bind_ok, hpl, htk, hpne, Bool.false_eq_true, ↓reduceIte, wf.point, Bool.not_true, hud, hsg, pure_eq_ok,
    decide_false, Bool.not_false, ← wf.flags]
  have ho := wf.offset
  cases i
  simp only at ho
  subst ho
  rfl


/-! ### root key record, certificate block v2.1 -/

theorem splitN_flatten (m : Nat) : ∀ (l : List Bytes), (∀ x ∈ l, x.length = m) → splitN m l.length l.flatten = l
  | [], _ => rfl
  | a :: l, h => by
    have ha := h a (by simp)
    simp only [List.length_cons, splitN, List.flatten_cons, List.take_left' ha, List.drop_left' ha,
      splitN_flatten m l (fun x hx => h x (by simp [hx]))]

structure WFrkr (c : CryptoOps) (ca : Bool) (used : Nat) (cv : Curve) (r : RootKeyRecord) : Prop where
  cv_ok : cv ≠ .p521
  used_lt : used < 16
  count1 : 1 ≤ r.rkh.length
  count4 : r.rkh.length ≤ 4
  flags : r.flags = rkrFlags ca used r.rkh.length cv
  rkh : ∀ h ∈ r.rkh, h.length = cv.hashAlg.size
  pk : r.rootPublicKey.length = cv.hashAlg.size * 2
  single : r.rkh.length = 1 → r.rkh = [c.hash cv.hashAlg r.rootPublicKey]

def rkrBytes (r : RootKeyRecord) : Bytes := leEnc 4 r.flags ++ exportV21 r.rkh ++ r.rootPublicKey

theorem rkrFlags_lt {c : CryptoOps} {ca : Bool} {used : Nat} {cv : Curve} {r : RootKeyRecord} (wf : WFrkr c ca used cv r) :
    r.flags < 2 ^ 32 ∧ rkrCa r.flags = ca ∧ rkrCount r.flags = r.rkh.length ∧ rkrCurve r.flags = curveBit cv := by
  have := rkr_fields ca used r.rkh.length cv wf.used_lt (by have := wf.count4; omega) wf.cv_ok
  rw [← wf.flags] at this
  exact ⟨this.2.2.2.2, this.1, this.2.2.1, this.2.2.2.1⟩

theorem rkrExport_ok {c : CryptoOps} {ca : Bool} {used : Nat} {cv : Curve} {r : RootKeyRecord} (wf : WFrkr c ca used cv r) :
    rkrExport r = .ok (rkrBytes r) := by
  have p32 : (2 : Nat) ^ 32 = 256 ^ 4 := by decide
  simp only [rkrExport, packLE_ok 4 r.flags (by rw [← p32]; exact (rkrFlags_lt wf).1), bind_ok, pure_eq_ok, rkrBytes]

theorem hashLen_lookup (cv : Curve) (h : cv ≠ .p521) :
    lookupOr G.rkrParseHashLen (curveBit cv) = .ok cv.hashAlg.size := by
  cases cv <;> first | (exact absurd rfl h) | decide

theorem rkrParse_ok {c : CryptoOps} {ca : Bool} {used : Nat} {cv : Curve} {r : RootKeyRecord} (wf : WFrkr c ca used cv r)
    (tail : Bytes) : rkrParse c (rkrBytes r ++ tail) = .ok (r, (rkrBytes r).length) := by
  have p32 : (2 : Nat) ^ 32 = 256 ^ 4 := by decide
  obtain ⟨g1, _, g3, g4⟩ := rkrFlags_lt wf
  have hb : rkrBytes r ++ tail = leEnc 4 r.flags ++ (exportV21 r.rkh ++ (r.rootPublicKey ++ tail)) := by
    simp only [rkrBytes, List.append_assoc]
  have hha : rkrHashAlgorithm r.flags = .ok cv.hashAlg := by
    rw [wf.flags]; exact Rkht.rkrHashAlgorithm_flags _ _ _ _ wf.cv_ok
  have hfl := Rkht.flatten_lenN _ _ wf.rkh
  rw [hb]
  simp only [rkrParse, unpackLE_append 4 r.flags _ (by rw [← p32]; exact g1), bind_ok, g3, g4,
    hashLen_lookup cv wf.cv_ok, hha]
  by_cases h1 : r.rkh.length > 1
  · have he : exportV21 r.rkh = r.rkh.flatten := by simp [exportV21, h1]
    have hm : r.rkh.flatten.length % cv.hashAlg.size = 0 := by rw [hfl]; exact Nat.mul_mod_right _ _
    have hpos : 0 < cv.hashAlg.size := by cases cv <;> decide
    have hd : r.rkh.flatten.length / cv.hashAlg.size = r.rkh.length := by rw [hfl]; exact Nat.mul_div_cancel_left _ hpos
    simp only [h1, ↓reduceIte, he, List.take_left' hfl, List.drop_left' hfl, List.take_left' wf.pk, rkhtV21Parse, hm,
      ne_eq, not_true_eq_false, hd, splitN_flatten _ _ wf.rkh, rkhtInit_ok _ wf.count4, pure_eq_ok, rkrBytes,
      List.length_append, leEnc_len]
    simp only [bind_ok, he]
  · have h1' : r.rkh.length = 1 := by have := wf.count1; omega
    have he : exportV21 r.rkh = [] := by simp [exportV21, h1]
    have hs := wf.single h1'
    simp only [h1, ↓reduceIte, he, List.nil_append, List.take_left' wf.pk, ← hs, rkhtInit_ok _ wf.count4, bind_ok, pure_eq_ok,
      rkrBytes, List.length_append, leEnc_len, List.length_nil, List.append_nil]


structure WFv21 (c : CryptoOps) (pointOk : Bytes → Bool) (ca : Bool) (used : Nat) (cv : Curve) (cb : CertBlockV21) : Prop where
  major : cb.major < 65536
  minor : cb.minor < 65536
  rkr : WFrkr c ca used cv cb.rkr
  isk_none : ca = true → cb.isk = none
  isk_some : ca = false → ∃ i, cb.isk = some i ∧ WFisk pointOk cb.rkr.rootPublicKey.length i
  size : headerSizeV21 + (rkrBytes cb.rkr).length + (match cb.isk with | some i => (iskBytes i).length | none => 0) < 2 ^ 32

/-- the exported bytes of a well-formed certificate block v2.1 -/
def bytesV21 (cb : CertBlockV21) : Bytes :=
  let isk := match cb.isk with | some i => iskBytes i | none => []
  G.cbV21Magic ++ leEnc 2 cb.minor ++ leEnc 2 cb.major ++ leEnc 4 (headerSizeV21 + (rkrBytes cb.rkr).length + isk.length) ++
    rkrBytes cb.rkr ++ isk

theorem exportV21Block_ok {c : CryptoOps} {pointOk : Bytes → Bool} {ca : Bool} {used : Nat} {cv : Curve} {cb : CertBlockV21}
    (wf : WFv21 c pointOk ca used cv cb) : exportV21Block cb = .ok (bytesV21 cb) := by
  have p16 : (65536 : Nat) = 256 ^ 2 := by decide
  have p32 : (2 : Nat) ^ 32 = 256 ^ 4 := by decide
  have hsz := wf.size
  cases ca with
  | true =>
    have hn := wf.isk_none rfl
    rw [hn] at hsz
    have hsz' : headerSizeV21 + (rkrBytes cb.rkr).length < 256 ^ 4 := by rw [← p32]; simpa using hsz
    simp only [exportV21Block, rkrExport_ok wf.rkr, bind_ok, hn, pure_eq_ok, headerV21Export,
      packLE_ok 2 cb.minor (by rw [← p16]; exact wf.minor), packLE_ok 2 cb.major (by rw [← p16]; exact wf.major),
      List.length_nil, packLE_ok 4 _ hsz', bytesV21, List.append_nil, Nat.add_zero]
  | false =>
    obtain ⟨i, hi, wi⟩ := wf.isk_some rfl
    rw [hi] at hsz
    simp only [exportV21Block, rkrExport_ok wf.rkr, bind_ok, hi, iskExport_ok pointOk _ i wi, pure_eq_ok, headerV21Export,
      packLE_ok 2 cb.minor (by rw [← p16]; exact wf.minor), packLE_ok 2 cb.major (by rw [← p16]; exact wf.major),
      packLE_ok 4 _ (by rw [← p32]; exact hsz), bytesV21]

theorem headerV21Parse_ok (major minor size : Nat) (h1 : major < 65536) (h2 : minor < 65536) (h3 : size < 2 ^ 32) (tail : Bytes) :
    headerV21Parse (G.cbV21Magic ++ (leEnc 2 minor ++ (leEnc 2 major ++ (leEnc 4 size ++ tail)))) = .ok (major, minor, size) := by
  have p16 : (65536 : Nat) = 256 ^ 2 := by decide
  have p32 : (2 : Nat) ^ 32 = 256 ^ 4 := by decide
  have hm : G.cbV21Magic.length = 4 := rfl
  have hlen : ¬ (12 > (G.cbV21Magic ++ (leEnc 2 minor ++ (leEnc 2 major ++ (leEnc 4 size ++ tail)))).length) := by
    simp only [List.length_append, leEnc_len, hm]; omega
  simp only [headerV21Parse, headerSizeV21, hlen, ↓reduceIte, List.take_left' hm, List.drop_left' hm,
    unpackLE_append 2 minor _ (by rw [← p16]; exact h2), unpackLE_append 2 major _ (by rw [← p16]; exact h1),
    unpackLE_append 4 size _ (by rw [← p32]; exact h3), bind_ok, ne_eq, not_true_eq_false, pure_eq_ok]

/-- parse ∘ export = id on well-formed certificate blocks v2.1 -/
theorem parse_exportV21 {c : CryptoOps} {pointOk : Bytes → Bool} {ca : Bool} {used : Nat} {cv : Curve} {cb : CertBlockV21}
    (wf : WFv21 c pointOk ca used cv cb) (tail : Bytes) : parseV21Block c pointOk (bytesV21 cb ++ tail) = .ok cb := by
  have hm : G.cbV21Magic.length = 4 := rfl
  obtain ⟨_, hca, _, _⟩ := rkrFlags_lt wf.rkr
  have hsz := wf.size
  cases ca with
  | true =>
    have hn := wf.isk_none rfl
    rw [hn] at hsz
    have hb : bytesV21 cb ++ tail = G.cbV21Magic ++ (leEnc 2 cb.minor ++ (leEnc 2 cb.major ++
        (leEnc 4 (headerSizeV21 + (rkrBytes cb.rkr).length + 0) ++ (rkrBytes cb.rkr ++ tail)))) := by
      simp only [bytesV21, hn, List.append_assoc, List.length_nil, List.nil_append]
    have hd : (bytesV21 cb ++ tail).drop 12 = rkrBytes cb.rkr ++ tail := by
      rw [hb]
      have : ∀ t : Bytes, G.cbV21Magic ++ (leEnc 2 cb.minor ++ (leEnc 2 cb.major ++
        (leEnc 4 (headerSizeV21 + (rkrBytes cb.rkr).length + 0) ++ t))) = (G.cbV21Magic ++ leEnc 2 cb.minor ++ leEnc 2 cb.major ++
        leEnc 4 (headerSizeV21 + (rkrBytes cb.rkr).length + 0)) ++ t := by intro t; simp only [List.append_assoc]
      rw [this]; exact List.drop_left' (by simp only [List.length_append, leEnc_len, hm])
    have hh : headerV21Parse (bytesV21 cb ++ tail) = .ok (cb.major, cb.minor, headerSizeV21 + (rkrBytes cb.rkr).length + 0) := by
      rw [hb]; exact headerV21Parse_ok _ _ _ wf.major wf.minor hsz _
    simp only [parseV21Block, hh, bind_ok, headerSizeV21, hd, rkrParse_ok wf.rkr tail, hca, ↓reduceIte, pure_eq_ok, ← hn]
  | false =>
    obtain ⟨i, hi, wi⟩ := wf.isk_some rfl
    rw [hi] at hsz
    have hb : bytesV21 cb ++ tail = G.cbV21Magic ++ (leEnc 2 cb.minor ++ (leEnc 2 cb.major ++
        (leEnc 4 (headerSizeV21 + (rkrBytes cb.rkr).length + (iskBytes i).length) ++ (rkrBytes cb.rkr ++ (iskBytes i ++ tail))))) := by
      simp only [bytesV21, hi, List.append_assoc]
    have hd : (bytesV21 cb ++ tail).drop 12 = rkrBytes cb.rkr ++ (iskBytes i ++ tail) := by
      rw [hb]
      have : ∀ t : Bytes, G.cbV21Magic ++ (leEnc 2 cb.minor ++ (leEnc 2 cb.major ++
        (leEnc 4 (headerSizeV21 + (rkrBytes cb.rkr).length + (iskBytes i).length) ++ t))) = (G.cbV21Magic ++ leEnc 2 cb.minor ++ leEnc 2 cb.major ++
        leEnc 4 (headerSizeV21 + (rkrBytes cb.rkr).length + (iskBytes i).length)) ++ t := by intro t; simp only [List.append_assoc]
      rw [this]; exact List.drop_left' (by simp only [List.length_append, leEnc_len, hm])
    have hd2 : (bytesV21 cb ++ tail).drop (12 + (rkrBytes cb.rkr).length) = iskBytes i ++ tail := by
      rw [← List.drop_drop, hd]; exact List.drop_left' rfl
    have hh : headerV21Parse (bytesV21 cb ++ tail) =
        .ok (cb.major, cb.minor, headerSizeV21 + (rkrBytes cb.rkr).length + (iskBytes i).length) := by
      rw [hb]; exact headerV21Parse_ok _ _ _ wf.major wf.minor hsz _
    have wi' : WFisk pointOk i.signature.length i := by have := wi.sig; rw [← this] at wi; exact wi
    simp only [parseV21Block, hh, bind_ok, headerSizeV21, hd, rkrParse_ok wf.rkr _, hca, Bool.false_eq_true, ↓reduceIte, hd2,
      ← wi.sig, iskParse_ok pointOk i wi' tail, pure_eq_ok, ← hi]



/-! ### self-delimiting exports (for the containers that embed a certificate block: MBI, SB 2.1, SB 3.1) -/

/-- certificate block v1: parsing `body ‖ anything` gives the block back - the parser reads exactly the `32 + cert_table_length +
    128` bytes the header announces (padding and whatever follows the block are ignored) -/
theorem parse_bodyV1_tail (certOk : Bytes → Bool) (cb : CertBlockV1) (wf : WFv1 certOk cb) (pad : Bytes) :
    parseV1Block certOk (bodyV1 cb ++ pad) = .ok { cb with rkh := pad4 cb.rkh, alignment := G.cbV1Alignment } := by
  have p32 : (2 : Nat) ^ 32 = 256 ^ 4 := by decide
  have hsig : G.cbV1Signature.length = 4 := rfl
  have hpl : (pad4 cb.rkh).flatten.length = 128 := by
    rw [flatten32 _ (pad4_32 _ wf.rkh), pad4_len _ wf.rkh_len]
  have hb : bodyV1 cb ++ pad = G.cbV1Signature ++ (leEnc 2 cb.major ++ (leEnc 2 cb.minor ++ (leEnc 4 32 ++ (leEnc 4 cb.flags ++
      (leEnc 4 cb.buildNumber ++ (leEnc 4 cb.imageLength ++ (leEnc 4 cb.certs.length ++
      (leEnc 4 (certTableLength cb.certs) ++ ((cb.certs.map (fun c => leEnc 4 c.length ++ c)).flatten ++
        ((pad4 cb.rkh).flatten ++ pad)))))))))) := by
    simp only [bodyV1, List.append_assoc]
  have hlen : (bodyV1 cb ++ pad).length = 32 + certTableLength cb.certs + 128 + pad.length := by
    simp only [List.length_append, bodyV1_len certOk cb wf]
  have hdrop : (bodyV1 cb ++ pad).drop 32 = (cb.certs.map (fun c => leEnc 4 c.length ++ c)).flatten ++ ((pad4 cb.rkh).flatten ++ pad) := by
    rw [hb]
    have : ∀ (t : Bytes), G.cbV1Signature ++ (leEnc 2 cb.major ++ (leEnc 2 cb.minor ++ (leEnc 4 32 ++ (leEnc 4 cb.flags ++
      (leEnc 4 cb.buildNumber ++ (leEnc 4 cb.imageLength ++ (leEnc 4 cb.certs.length ++
      (leEnc 4 (certTableLength cb.certs) ++ t)))))))) = (G.cbV1Signature ++ leEnc 2 cb.major ++ leEnc 2 cb.minor ++ leEnc 4 32 ++ leEnc 4 cb.flags ++
      leEnc 4 cb.buildNumber ++ leEnc 4 cb.imageLength ++ leEnc 4 cb.certs.length ++
      leEnc 4 (certTableLength cb.certs)) ++ t := by intro t; simp only [List.append_assoc]
    rw [this]
    exact List.drop_left' (by simp only [List.length_append, leEnc_len, hsig])
  have hh : headerV1Parse (bodyV1 cb ++ pad) = .ok (hdrOf cb) := by rw [hb]; exact headerV1Parse_ok certOk cb wf _
  have e32 : G.rkhV1Size = 32 := rfl
  have e4 : G.rkhtV1Slots = 4 := rfl
  have hnl : ¬ ((bodyV1 cb ++ pad).length < certTableLength cb.certs + 4 * 32) := by rw [hlen]; omega
  simp only [parseV1Block, hh, bind_ok, hdrOf, e32, e4, hnl, ↓reduceIte, headerSizeV1, hdrop,
    certsParse_ok certOk cb.certs _ (fun c hc => by rw [← p32]; exact wf.certs c hc),
    List.take_left' (show (pad4 cb.rkh).flatten.length = 32 * 4 from hpl), rkhtV1Parse_pad4 cb.rkh wf.rkh_len wf.rkh,
    pure_eq_ok]

/-- `parse (export cb ‖ rest)` = `parse (export cb)`: a v1 block followed by anything parses to the same block -/
theorem parse_exportV1_tail (certOk : Bytes → Bool) (cb : CertBlockV1) (wf : WFv1 certOk cb) (rest : Bytes) :
    parseV1Block certOk (bytesV1 cb ++ rest) = .ok { cb with rkh := pad4 cb.rkh, alignment := G.cbV1Alignment } := by
  unfold bytesV1; rw [List.append_assoc]; exact parse_bodyV1_tail certOk cb wf _

/-- `CertBlockV1.expected_size` / `raw_size`: the exported length is the aligned sum the header announces -/
theorem bytesV1_length (certOk : Bytes → Bool) (cb : CertBlockV1) (wf : WFv1 certOk cb) :
    (bytesV1 cb).length = alignNat (32 + certTableLength cb.certs + 128) cb.alignment := by
  have ha := (alignNat_spec (bodyV1 cb).length cb.alignment wf.align).2.1
  simp only [bytesV1, List.length_append, List.length_replicate]
  rw [Nat.add_sub_cancel' ha, bodyV1_len certOk cb wf]

/-- `CertBlockV21.expected_size` = the `cert_block_size` word = the exported length:
    12 + (4 + table + root key) + (ISK: 12 + key + user data + signature) -/
theorem bytesV21_length (cb : CertBlockV21) :
    (bytesV21 cb).length = headerSizeV21 + (rkrBytes cb.rkr).length + (match cb.isk with | some i => (iskBytes i).length | none => 0) ∧
    (rkrBytes cb.rkr).length = 4 + (exportV21 cb.rkr.rkh).length + cb.rkr.rootPublicKey.length ∧
    ∀ i, (iskBytes i).length = 12 + i.pubKey.length + i.userData.length + i.signature.length := by
  have hm : G.cbV21Magic.length = 4 := rfl
  refine ⟨?_, by simp only [rkrBytes, List.length_append, leEnc_len], fun i => by simp only [iskBytes, List.length_append, leEnc_len]⟩
  cases cb with
  | mk ma mi r isk => cases isk <;> simp only [bytesV21, List.length_append, leEnc_len, hm, headerSizeV21, List.length_nil] <;> omega

/-- the size word of the exported v2.1 block is its length, so a reader that knows only the block start can skip it -/
theorem sizeWord_bytesV21 {c : CryptoOps} {pointOk : Bytes → Bool} {ca : Bool} {used : Nat} {cv : Curve} {cb : CertBlockV21}
    (wf : WFv21 c pointOk ca used cv cb) (rest : Bytes) :
    headerV21Parse (bytesV21 cb ++ rest) = .ok (cb.major, cb.minor, (bytesV21 cb).length) := by
  have hsz := wf.size
  rw [(bytesV21_length cb).1]
  have hb : bytesV21 cb ++ rest = G.cbV21Magic ++ (leEnc 2 cb.minor ++ (leEnc 2 cb.major ++
      (leEnc 4 (headerSizeV21 + (rkrBytes cb.rkr).length + (match cb.isk with | some i => (iskBytes i).length | none => 0)) ++
        (rkrBytes cb.rkr ++ ((match cb.isk with | some i => iskBytes i | none => []) ++ rest))))) := by
    cases cb with
    | mk ma mi r isk => cases isk <;> simp [bytesV21, List.append_assoc]
  rw [hb]
  exact headerV21Parse_ok _ _ _ wf.major wf.minor hsz _


/-! ### ISK certificate lite / certificate block Vx -/

structure WFlite (pointOk : Bytes → Bool) (i : IskLite) : Prop where
  constraints : i.constraints < 2 ^ 32
  pub : i.pubKey.length = 64
  point : pointOk i.pubKey = true
  sig : i.signature.length = 64

/-- the exported certificate: 8 header bytes, the key, the signature -/
def liteBytes (i : IskLite) : Bytes := leEnc 2 0x4D43 ++ leEnc 2 1 ++ leEnc 4 i.constraints ++ i.pubKey ++ i.signature

theorem liteTbs_ok (pointOk : Bytes → Bool) (i : IskLite) (wf : WFlite pointOk i) :
    liteTbs i = .ok (leEnc 2 0x4D43 ++ leEnc 2 1 ++ leEnc 4 i.constraints ++ i.pubKey) := by
  have p32 : (2 : Nat) ^ 32 = 256 ^ 4 := by decide
  have e1 : GL.liteMagic = 0x4D43 := rfl
  have e2 : GL.liteVersion = 1 := rfl
  have e3 : GL.litePubKeyLength = 64 := rfl
  have e4 : GL.liteSignatureOffset = 72 := rfl
  simp only [liteTbs, e1, e2, e3, e4, packLE_ok 2 0x4D43 (by decide), packLE_ok 2 1 (by decide),
    packLE_ok 4 i.constraints (by rw [← p32]; exact wf.constraints), bind_ok, wf.pub, List.length_append, leEnc_len,
    ne_eq, not_true_eq_false, ↓reduceIte, pure_eq_ok]

theorem liteExport_ok (pointOk : Bytes → Bool) (i : IskLite) (wf : WFlite pointOk i) : liteExport i = .ok (liteBytes i) := by
  have hne : i.signature.isEmpty = false := by
    cases h : i.signature with
    | nil => have := wf.sig; rw [h] at this; simp at this
    | cons _ _ => rfl
  have e3 : GL.litePubKeyLength = 64 := rfl
  have e5 : GL.liteSignatureSize = 64 := rfl
  simp only [liteExport, hne, Bool.false_eq_true, ↓reduceIte, liteTbs_ok pointOk i wf, bind_ok, e3, e5, List.length_append, leEnc_len,
    wf.pub, wf.sig, ne_eq, not_true_eq_false, pure_eq_ok, liteBytes]

/-- parse ∘ export = id for the lite ISK certificate (trailing bytes ignored) -/
theorem liteParse_export (pointOk : Bytes → Bool) (i : IskLite) (wf : WFlite pointOk i) (tail : Bytes) :
    liteParse pointOk (liteBytes i ++ tail) = .ok i := by
  have p32 : (2 : Nat) ^ 32 = 256 ^ 4 := by decide
  have e3 : GL.litePubKeyLength = 64 := rfl
  have e5 : GL.liteSignatureSize = 64 := rfl
  have hb : liteBytes i ++ tail = leEnc 2 0x4D43 ++ (leEnc 2 1 ++ (leEnc 4 i.constraints ++ (i.pubKey ++ (i.signature ++ tail)))) := by
    simp only [liteBytes, List.append_assoc]
  have hd8 : (liteBytes i ++ tail).drop 8 = i.pubKey ++ (i.signature ++ tail) := by
    have : liteBytes i ++ tail = (leEnc 2 0x4D43 ++ leEnc 2 1 ++ leEnc 4 i.constraints) ++ (i.pubKey ++ (i.signature ++ tail)) := by
      simp only [liteBytes, List.append_assoc]
    rw [this]; exact List.drop_left' (by simp only [List.length_append, leEnc_len])
  have hd72 : (liteBytes i ++ tail).drop (8 + 64) = i.signature ++ tail := by
    rw [← List.drop_drop, hd8]; exact List.drop_left' wf.pub
  simp only [liteParse, e3, e5, hd8, hd72, List.take_left' wf.pub, List.take_left' wf.sig, wf.point, Bool.not_true,
    Bool.false_eq_true, ↓reduceIte]
  rw [hb]
  simp only [unpackLE_append 2 0x4D43 _ (by decide), unpackLE_append 2 1 _ (by decide),
    unpackLE_append 4 i.constraints _ (by rw [← p32]; exact wf.constraints), bind_ok, pure_eq_ok]

/-- `CertBlockVx.parse (export)` gives the certificate back when the constraints word is 0 (NXP signed) or 1 (self signed) -/
theorem vxParse_export (pointOk : Bytes → Bool) (i : IskLite) (wf : WFlite pointOk i) (h01 : i.constraints = 0 ∨ i.constraints = 1)
    (tail : Bytes) : vxParse pointOk (liteBytes i ++ tail) = .ok i := by
  simp only [vxParse, liteParse_export pointOk i wf tail, bind_ok, pure_eq_ok]
  rcases h01 with h | h <;> cases i <;> simp_all

/-- the four fuse words, byte-reversed back and concatenated, are the 16-byte certificate hash -/
theorem vxFuseWords_hash (h : Bytes) (hl : h.length = 16) : ((vxFuseWords h).map List.reverse).flatten = h := by
  simp only [vxFuseWords, List.map_cons, List.map_nil, List.reverse_reverse, List.flatten_cons, List.flatten_nil, List.append_nil]
  match h, hl with
  | [a0, a1, a2, a3, a4, a5, a6, a7, a8, a9, a10, a11, a12, a13, a14, a15], _ => rfl

/-! ### what the ISK signature covers -/

theorem iskDataToSign_ok (pointOk : Bytes → Bool) (n : Nat) (i : IskCert) (wf : WFisk pointOk n i) (krd : Bytes) :
    iskDataToSign krd i =
      .ok (krd ++ (leEnc 4 (iskSigOffset i) ++ leEnc 4 i.constraints ++ leEnc 4 i.flags) ++ i.pubKey ++ i.userData) := by
  simp only [iskDataToSign, iskHeader_ok pointOk n i wf, bind_ok, pure_eq_ok]

/-- the signed bytes are the contiguous slice of the exported block between the block header and the signature -/
theorem signed_slice {c : CryptoOps} {pointOk : Bytes → Bool} {used : Nat} {cv : Curve} {cb : CertBlockV21} {i : IskCert}
    (wf : WFv21 c pointOk false used cv cb) (hi : cb.isk = some i) :
    iskDataToSign (rkrBytes cb.rkr) i =
      .ok (((bytesV21 cb).drop headerSizeV21).take ((rkrBytes cb.rkr).length + iskSigOffset i)) := by
  obtain ⟨i', hi', wi⟩ := wf.isk_some rfl
  rw [hi] at hi'
  cases hi'
  have hm : G.cbV21Magic.length = 4 := rfl
  have hso : iskSigOffset i = 12 + i.userData.length + i.pubKey.length := by simp [iskSigOffset, wi.offset]
  rw [iskDataToSign_ok pointOk _ i wi]
  have hb : bytesV21 cb = (G.cbV21Magic ++ leEnc 2 cb.minor ++ leEnc 2 cb.major ++
      leEnc 4 (headerSizeV21 + (rkrBytes cb.rkr).length + (iskBytes i).length)) ++
      ((rkrBytes cb.rkr ++ (leEnc 4 (iskSigOffset i) ++ leEnc 4 i.constraints ++ leEnc 4 i.flags) ++ i.pubKey ++ i.userData)
        ++ i.signature) := by
    simp only [bytesV21, hi, iskBytes, List.append_assoc]
  rw [hb, List.drop_left' (by simp only [List.length_append, leEnc_len, hm, headerSizeV21])]
  rw [List.take_left' (by simp only [List.length_append, leEnc_len, hso]; omega)]

/-! ### `RootKeyRecord.calculate` produces a well-formed record -/

section
open SpsdkVerif.Rkht

/-- the record `RootKeyRecord.calculate()` produces for a key list of the cert_block_21 domain -/
theorem rkrCalculate_ok (c : CryptoOps) (hc : CryptoLaws c) (ks : List Key) (h : KeysOK .certBlock21 ks)
    (used : Nat) (hu : used < ks.length) (ca : Bool) :
    ∃ cv ku, cv ≠ .p521 ∧ ks[used]? = some ku ∧ ku.curve? = some cv ∧ (∀ k ∈ ks, k.curve? = some cv) ∧
      rkrCalculate c ca ks used = .ok { flags := rkrFlags ca used ks.length cv, rkh := ks.map (keyHash c),
                                        rootPublicKey := ku.material } := by
  obtain ⟨h1, h4, hk, hcv⟩ := keysOK_cb21 h
  cases ks with
  | nil => simp at h1
  | cons k0 rest =>
    have hU := uniform_cb21 h
    have hall : (k0 :: rest).all (sameClass k0) = true := by
      rw [List.all_eq_true]; intro k hk'; exact (hU k hk').2.2.1
    have hl : ((k0 :: rest).map (keyHash c)).length ≤ 4 := by simpa using h4
    obtain ⟨ku, hku⟩ : ∃ ku, (k0 :: rest)[used]? = some ku := ⟨(k0 :: rest)[used], by simp [hu]⟩
    have hkum : ku ∈ k0 :: rest := List.mem_of_getElem? hku
    cases k0 with
    | rsa n e =>
      rcases hcv with hcv | hcv <;> have := hcv _ (List.mem_cons_self) <;> simp [Key.curve?] at this
    | ecc cv0 x0 y0 =>
      have hne : cv0 ≠ .p521 := by
        rcases hcv with hcv | hcv <;> have := hcv _ (List.mem_cons_self) <;>
          simp only [Key.curve?, Option.some.injEq] at this <;> subst this <;> decide
      have hall' : ∀ k ∈ Key.ecc cv0 x0 y0 :: rest, k.curve? = some cv0 := by
        rcases hcv with hcv | hcv <;> have := hcv _ (List.mem_cons_self) <;>
          simp only [Key.curve?, Option.some.injEq] at this <;> subst this <;> exact hcv
      refine ⟨cv0, ku, hne, hku, hall' ku hkum, hall', ?_⟩
      simp only [rkrCalculate, hall, fromKeysV21, fromKeysHashes_ok c _ rest hU, bind_ok,
        rkhtInit_ok _ hl, hashAlgorithm_hashes c hc _ rest (hashAlg_cases _), hku,
        exportKey_ok ku (hk ku hkum), Key.hashAlg, pure_bind, Bool.not_true, Bool.false_eq_true, ↓reduceIte,
        rkrHashAlgorithm_flags _ _ _ _ hne, ne_eq, not_true_eq_false, pure_eq_ok]

theorem material_len_ecc {k : Key} {cv : Curve} (h : k.curve? = some cv) : k.material.length = cv.coordSize * 2 := by
  obtain ⟨x, y, rfl⟩ := key_of_curve h
  simp [Key.material, beEnc_length']; omega

theorem coord_eq_hash (cv : Curve) (h : cv ≠ .p521) : cv.coordSize = cv.hashAlg.size := by
  cases cv <;> first | rfl | exact absurd rfl h

/-- the calculated record is well formed, hence survives export → parse -/
theorem wf_calculated (c : CryptoOps) (hc : CryptoLaws c) (ks : List Key) (cv : Curve) (ku : Key) (used : Nat) (ca : Bool)
    (hcv : cv ≠ .p521) (h1 : 1 ≤ ks.length) (h4 : ks.length ≤ 4) (hu : used < ks.length) (hku : ks[used]? = some ku)
    (hkc : ku.curve? = some cv) (hall : ∀ k ∈ ks, k.curve? = some cv) :
    WFrkr c ca used cv { flags := rkrFlags ca used ks.length cv, rkh := ks.map (keyHash c), rootPublicKey := ku.material } where
  cv_ok := hcv
  used_lt := by omega
  count1 := by simpa using h1
  count4 := by simpa using h4
  flags := by simp
  rkh := by
    intro x hx
    obtain ⟨k, hk, rfl⟩ := List.mem_map.mp hx
    obtain ⟨a, b, rfl⟩ := key_of_curve (hall k hk)
    exact keyHash_len c hc _
  pk := by rw [material_len_ecc hkc, coord_eq_hash cv hcv]
  single := by
    intro hl
    simp only [List.length_map] at hl
    match ks, hl with
    | [k], _ =>
      have : used = 0 := by simp at hu; omega
      subst this
      simp only [List.getElem?_cons_zero, Option.some.injEq] at hku
      subst hku
      obtain ⟨a, b, rfl⟩ := key_of_curve hkc
      rfl

end

end SpsdkVerif.CertBlock
