/- Second part of the tie between the exporter model and the independent checker: signature block and container level. -/
import SpsdkVerif.Proofs.AhabParse

namespace SpsdkVerif.Ahab
open SpsdkVerif SpsdkVerif.Misc
open SpsdkVerif.Generated
open SpsdkVerif.Spec.AhabRom

/-- reading field `i` of a packed integer layout at its byte offset -/
theorem rd_packInts : ∀ (ws vs : List Nat) (rest : Bytes) (i : Nat), fits ws vs = true → i < ws.length →
    rd (packInts ws vs ++ rest) (intsLen (ws.take i)) (ws.getD i 0) = vs.getD i 0
  | [], _, _, i, _, hi => by simp at hi
  | w :: ws, [], _, _, hf, _ => by simp [fits] at hf
  | w :: ws, v :: vs, rest, 0, hf, _ => by
    rw [fits_cons] at hf
    simp only [List.take_zero, intsLen, List.foldr_nil, List.getD_cons_zero, packInts, List.append_assoc]
    unfold rd slice
    rw [List.drop_zero, List.take_append_of_le_length (by rw [leEnc_length]; exact Nat.le_refl _), List.take_of_length_le (by rw [leEnc_length]; exact Nat.le_refl _)]
    exact leDec_leEnc w v hf.1
  | w :: ws, v :: vs, rest, i + 1, hf, hi => by
    rw [fits_cons] at hf
    have ih := rd_packInts ws vs rest i hf.2 (by simpa using hi)
    simp only [List.take_succ_cons, List.getD_cons_succ, packInts, List.append_assoc]
    have e : intsLen (w :: ws.take i) = w + intsLen (ws.take i) := rfl
    rw [e]
    unfold rd at ih ⊢
    have := slice_append_right (leEnc w v) (packInts ws vs ++ rest) (intsLen (ws.take i)) (ws.getD i 0)
    rw [leEnc_length] at this
    rw [this, ih]

theorem encodeRecords_slice (recSize : Nat) : ∀ (rs : List SrkRecord) (a : Bytes) (i : Nat) (r : SrkRecord),
    (∀ x ∈ rs, AhabConsts.srkRecordLayout.size + x.params.length = recSize) → encodeRecords rs = .ok a → rs[i]? = some r →
    ∃ X, encodeSrkRecord r = .ok X ∧ slice a (recSize * i) recSize = X ∧ recSize * i + recSize ≤ a.length
  | [], _, _, _, _, _, hi => by simp at hi
  | r0 :: rs, a, i, r, hsz, h, hi => by
    obtain ⟨a1, a2, h1, h2, rfl⟩ := encodeRecords_cons h
    have hl1 : a1.length = recSize := by rw [encodeSrkRecord_length h1]; exact hsz r0 (List.mem_cons_self)
    cases i with
    | zero =>
      simp only [List.getElem?_cons_zero, Option.some.injEq] at hi
      subst hi
      refine ⟨a1, h1, ?_, by simp [hl1]⟩
      rw [Nat.mul_zero, slice_append_left _ _ _ _ (by omega), ← hl1, slice_full]
    | succ i =>
      simp only [List.getElem?_cons_succ] at hi
      obtain ⟨X, hX, hsl, hle⟩ := encodeRecords_slice recSize rs a2 i r (fun x hx => hsz x (List.mem_cons_of_mem _ hx)) h2 hi
      refine ⟨X, hX, ?_, by simp [hl1]; rw [Nat.mul_succ]; omega⟩
      have := slice_append_right a1 a2 (recSize * i) recSize
      rw [hl1] at this
      rw [show recSize * (i + 1) = recSize + recSize * i from by rw [Nat.mul_succ]; omega, this, hsl]

/-- the header reads of an exported SRK table and of its records -/
theorem srkTable_reads (t : SrkTable) (tb : Bytes) (hwf : SrkTableWF t) (h : encodeSrkTable t = .ok tb) (used : Nat) (hu : used < 4) :
    ∃ P, tb.length = 4 + (12 + P) * 4 ∧ t.length = tb.length ∧
      rd tb 0 1 = AhabConsts.srkTableTag ∧ rd tb 3 1 = AhabConsts.srkTableVersion ∧ rd tb 1 2 = tb.length ∧
      rd tb (4 + used * (12 + P)) 1 = AhabConsts.srkRecordTag ∧ rd tb (4 + used * (12 + P) + 1) 2 = 12 + P := by
  obtain ⟨P, hP⟩ := hwf.same
  unfold encodeSrkTable at h
  cases hp : packChecked AhabConsts.srkTableLayout.intWidths [AhabConsts.srkTableTag, t.length, AhabConsts.srkTableVersion] with
  | error e => rw [hp] at h; cases h2 : encodeRecords t.records <;> rw [h2] at h <;> cases h
  | ok hb =>
    cases h2 : encodeRecords t.records with
    | error e => rw [hp, h2] at h; cases h
    | ok a =>
      rw [hp, h2] at h; cases h
      obtain ⟨hf, rfl⟩ := packChecked_ok hp
      have hw : AhabConsts.srkTableLayout.intWidths = [1, 2, 1] := rfl
      have hsz : AhabConsts.srkRecordLayout.size = 12 := rfl
      have hcnt : t.records.length = 4 := hwf.cnt
      have hrr := records_roundtrip' (AhabConsts.srkRecordLayout.size + P) t.records a [] []
        (fun r hr => ⟨hwf.recs r hr, by rw [hP r hr]⟩) h2
      have hal : a.length = (12 + P) * 4 := by rw [hrr.2, hcnt, hsz]
      have hhl : (packInts AhabConsts.srkTableLayout.intWidths [AhabConsts.srkTableTag, t.length, AhabConsts.srkTableVersion]).length = 4 := by
        rw [packInts_length _ _ hf]; rfl
      have htl : t.length = 4 + (12 + P) * 4 := by
        rw [hwf.len, SrkTable.computedLength, computedLength_same P t.records hP, hcnt, hsz]; rfl
      have hlen : (packInts AhabConsts.srkTableLayout.intWidths [AhabConsts.srkTableTag, t.length, AhabConsts.srkTableVersion] ++ a).length
          = 4 + (12 + P) * 4 := by rw [List.length_append, hhl, hal]
      rw [hw] at hf hhl hlen ⊢
      have r0 := rd_packInts [1, 2, 1] _ a 0 hf (by decide)
      have r1 := rd_packInts [1, 2, 1] _ a 1 hf (by decide)
      have r2 := rd_packInts [1, 2, 1] _ a 2 hf (by decide)
      simp only [List.take_zero, List.take_succ_cons, List.take_nil, intsLen, List.foldr_cons, List.foldr_nil, List.getD_cons_zero,
        List.getD_cons_succ] at r0 r1 r2
      obtain ⟨r, hr⟩ : ∃ r, t.records[used]? = some r := by
        have : used < t.records.length := by omega
        exact ⟨t.records[used], by simp [this]⟩
      obtain ⟨X, hX, hsl, hle⟩ := encodeRecords_slice (AhabConsts.srkRecordLayout.size + P) t.records a used r
        (fun x hx => by rw [hP x hx]) h2 hr
      rw [hsz] at hsl hle
      obtain ⟨l1, l2, _, hfr, hf2, rfl⟩ := encodeSrkRecord_ok hX
      have hwr : AhabConsts.srkRecordLayout.intWidths = [1, 2, 1, 1, 1, 1, 1] := rfl
      rw [hwr] at hfr hsl
      have q0 := rd_packInts [1, 2, 1, 1, 1, 1, 1] _ (packInts [2, 2] [l1, l2] ++ r.params) 0 hfr (by decide)
      have q1 := rd_packInts [1, 2, 1, 1, 1, 1, 1] _ (packInts [2, 2] [l1, l2] ++ r.params) 1 hfr (by decide)
      simp only [List.take_zero, List.take_succ_cons, List.take_nil, intsLen, List.foldr_cons, List.foldr_nil, List.getD_cons_zero,
        List.getD_cons_succ, List.append_assoc] at q0 q1
      have hrl : r.length = 12 + P := by
        have := (hwf.recs r (List.mem_of_getElem? hr)).len
        rw [this, hsz, hP r (List.mem_of_getElem? hr)]
      have hXl : (packInts [1, 2, 1, 1, 1, 1, 1] [AhabConsts.srkRecordTag, r.length, r.signAlg, r.hashAlg, r.keySize, AhabConsts.reserved, r.srkFlags]
          ++ (packInts [2, 2] [l1, l2] ++ r.params)).length = 12 + P := by
        have := congrArg List.length hsl
        rw [slice_length _ _ _ hle] at this
        simp only [List.append_assoc] at this
        exact this.symm
      simp only [List.append_assoc] at hsl
      have hsl' : slice (packInts [1, 2, 1] [AhabConsts.srkTableTag, t.length, AhabConsts.srkTableVersion] ++ a) (4 + (12 + P) * used)
          (packInts [1, 2, 1, 1, 1, 1, 1] [AhabConsts.srkRecordTag, r.length, r.signAlg, r.hashAlg, r.keySize, AhabConsts.reserved, r.srkFlags]
            ++ (packInts [2, 2] [l1, l2] ++ r.params)).length =
          (packInts [1, 2, 1, 1, 1, 1, 1] [AhabConsts.srkRecordTag, r.length, r.signAlg, r.hashAlg, r.keySize, AhabConsts.reserved, r.srkFlags]
            ++ (packInts [2, 2] [l1, l2] ++ r.params)) := by
        rw [hXl]
        have := slice_append_right (packInts [1, 2, 1] [AhabConsts.srkTableTag, t.length, AhabConsts.srkTableVersion]) a ((12 + P) * used) (12 + P)
        rw [hhl] at this
        rw [this]; exact hsl
      have hmul : used * (12 + P) = (12 + P) * used := Nat.mul_comm _ _
      refine ⟨P, hlen, by rw [hlen]; exact htl, ?_, ?_, ?_, ?_, ?_⟩
      · exact r0
      · exact r2
      · rw [hlen, ← htl]; exact r1
      · rw [hmul]
        have := rd_of_eq _ _ (4 + (12 + P) * used) 0 1 hsl' (by rw [hXl]; omega)
        rw [Nat.add_zero] at this
        rw [this]; exact q0
      · rw [hmul, rd_of_eq _ _ (4 + (12 + P) * used) 1 2 hsl' (by rw [hXl]; omega), q1, hrl]

open SpsdkVerif.Crypto (CryptoOps)

/-- `rom_accepts`, signature-block part (container version 1, signed): the independent check accepts the signature block of an
    exported container and reports exactly the signed range `[base, base + sigblock offset + signature offset)`, the SRK table,
    the selected record and the signature bytes -/
theorem checkSigBlock_accepts_v1 (c : CryptoOps) (maxC maxI : Nat) (bin cb : Bytes) (base : Nat) (cont : Container) (iaes : List Iae)
    (t : SrkTable) (hcb : slice bin base cb.length = cb) (hexp : exportContainerWith .v1 cont iaes = .ok cb)
    (hb : BlobLenOK cont.sb) (ht : SrkTableWF t) (hte : encodeSrkTable t = .ok cont.sb.srk) (hsig : cont.sb.signature ≠ [])
    (hset : cont.srkSet ≠ 0) (hrev : (cont.revokeMask >>> cont.usedSrkId) % 2 = 0) :
    ∃ P, cont.sb.srk.length = 4 + (12 + P) * 4 ∧
    checkSigBlock c (paramsV1 maxC maxI) bin base cb.length (sigBlockOffset .v1 iaes.length) cont.flags =
      .ok ((sbLayout .v1 cont.sb).srkOff, (sbLayout .v1 cont.sb).sigOff, (sbLayout .v1 cont.sb).certOff, (sbLayout .v1 cont.sb).blobOff,
           (sbLayout .v1 cont.sb).length,
           some ⟨sigBlockOffset .v1 iaes.length + (sbLayout .v1 cont.sb).sigOff,
                 base + sigBlockOffset .v1 iaes.length + (sbLayout .v1 cont.sb).srkOff, cont.sb.srk.length,
                 base + sigBlockOffset .v1 iaes.length + (sbLayout .v1 cont.sb).srkOff + 4 + cont.usedSrkId * (12 + P), 12 + P,
                 cont.usedSrkId,
                 base + sigBlockOffset .v1 iaes.length + (sbLayout .v1 cont.sb).sigOff + 8, cont.sb.signature.length,
                 c.hash .sha256 cont.sb.srk⟩) := by
  obtain ⟨hd, ab, s, hdr0, e1, e2, e3, _, e5, e6, e7, _⟩ := exportContainer_spec .v1 cont iaes cb hb hexp
  obtain ⟨hdr, sg, sg2, bl, hh, hsg, _, hbl, hslen, c0, cS, cG, _, _, _⟩ := sigblock_content .v1 cont.sb s hb e3
  have L := sigblock_layout .v1 cont.sb
  simp only at L
  obtain ⟨z1, z2, z3, z4, p1, p2, p3, p4, h16, hal⟩ := L
  have hal := hal trivial
  have hsbo := sbo_exact .v1 iaes.length
  have hu4 : cont.usedSrkId < 4 := by
    unfold Container.usedSrkId; rw [getF_eq]
    have : (2 : Nat) ^ AhabConsts.cFlagsUsedSrkIdSize = 4 := rfl
    rw [this]; exact Nat.mod_lt _ (by decide)
  obtain ⟨P, hTl, htlen, t0, t3, t1, tr0, tr1⟩ := srkTable_reads t cont.sb.srk ht hte cont.usedSrkId hu4
  refine ⟨P, hTl, ?_⟩
  have hsrkl : cont.sb.srk.length ≠ 0 := by omega
  have hsrkne : cont.sb.srk ≠ [] := fun h => hsrkl (by rw [h]; rfl)
  -- the signature container
  have hsgE : cont.sb.signature.isEmpty = false := by cases hx : cont.sb.signature <;> simp_all
  have hsgl := encodeSignature_length hsg
  have hsl8 : signatureLen cont.sb.signature = 8 + cont.sb.signature.length := by
    unfold signatureLen; rw [hsgE]; rfl
  have hsgpos : 0 < cont.sb.signature.length := List.length_pos_iff.2 hsig
  have hsgne : sg ≠ [] := by intro h0; rw [h0] at hsgl; simp at hsgl; omega
  have hs2 : cont.sb.sigSize .v1 = 8 + cont.sb.signature.length := by unfold SigBlock.sigSize; exact hsl8
  have q1 := p1 hsrkl
  have q2 := p2 (by omega)
  have q2s := q2.2.1 hsrkl
  generalize ho : sbLayout .v1 cont.sb = o at *
  -- shape of the signature container bytes
  unfold encodeSignature at hsg
  rw [hsgE] at hsg
  simp only [Bool.false_eq_true, if_false] at hsg
  cases hpg : packChecked AhabConsts.signatureLayout.intWidths
      [AhabConsts.signatureVersion, AhabConsts.signatureLayout.size + cont.sb.signature.length, AhabConsts.signatureTag, AhabConsts.reserved] with
  | error e => rw [hpg] at hsg; cases hsg
  | ok hbg =>
    rw [hpg] at hsg; cases hsg
    obtain ⟨hfg, rfl⟩ := packChecked_ok hpg
    have hwg : AhabConsts.signatureLayout.intWidths = [1, 2, 1, 4] := rfl
    rw [hwg] at hfg cG hsgl hsgne
    have g1 := rd_packInts [1, 2, 1, 4] _ cont.sb.signature 1 hfg (by decide)
    have g2 := rd_packInts [1, 2, 1, 4] _ cont.sb.signature 2 hfg (by decide)
    simp only [List.take_zero, List.take_succ_cons, List.take_nil, intsLen, List.foldr_cons, List.foldr_nil, List.getD_cons_zero,
      List.getD_cons_succ] at g1 g2
    -- the signature-block header
    unfold sbHeader at hh
    obtain ⟨hfh, rfl⟩ := packChecked_ok hh
    have hwh : (Ver.v1.sbLayout).intWidths = [1, 2, 1, 2, 2, 2, 2, 4] := rfl
    rw [hwh] at hfh c0
    have hrest : s = packInts [1, 2, 1, 2, 2, 2, 2, 4] [Ver.v1.sigBlockVersion, o.length, AhabConsts.sigBlockTag, o.certOff, o.srkOff, o.sigOff,
        o.blobOff, cont.sb.keyId] ++ s.drop 16 := by
      have hl16 : (packInts [1, 2, 1, 2, 2, 2, 2, 4] [Ver.v1.sigBlockVersion, o.length, AhabConsts.sigBlockTag, o.certOff, o.srkOff, o.sigOff,
        o.blobOff, cont.sb.keyId]).length = 16 := by rw [packInts_length _ _ hfh]; rfl
      have := drop_of_slice s _ 0 (by rw [hl16]; exact c0) (by rw [hl16]; omega)
      rw [hl16] at this
      simpa using this
    have hrd : ∀ i, i < 8 → rd s (intsLen (([1, 2, 1, 2, 2, 2, 2, 4] : List Nat).take i)) (([1, 2, 1, 2, 2, 2, 2, 4] : List Nat).getD i 0) =
        ([Ver.v1.sigBlockVersion, o.length, AhabConsts.sigBlockTag, o.certOff, o.srkOff, o.sigOff, o.blobOff, cont.sb.keyId] : List Nat).getD i 0 := by
      intro i hi
      rw [hrest]
      exact rd_packInts _ _ _ i hfh (by simpa using hi)
    have s0 := hrd 0 (by decide); have s1 := hrd 1 (by decide); have s2 := hrd 2 (by decide); have s3 := hrd 3 (by decide)
    have s4 := hrd 4 (by decide); have s5 := hrd 5 (by decide); have s6 := hrd 6 (by decide)
    simp only [List.take_zero, List.take_succ_cons, List.take_nil, intsLen, List.foldr_cons, List.foldr_nil, List.getD_cons_zero,
      List.getD_cons_succ] at s0 s1 s2 s3 s4 s5 s6
    -- reading the file = reading the signature block
    have hX : (hd ++ ab ++ zerosB (sigBlockOffset .v1 iaes.length - (hd ++ ab).length)).length = sigBlockOffset .v1 iaes.length := e6
    have rdS : ∀ k n, k + n ≤ s.length → rd bin (base + sigBlockOffset .v1 iaes.length + k) n = rd s k n := by
      intro k n hk
      rw [Nat.add_assoc, rd_of_eq bin cb base (sigBlockOffset .v1 iaes.length + k) n hcb (by rw [e7, ← ho]; rw [ho]; omega)]
      unfold rd
      rw [e5]
      have := slice_append_right (hd ++ ab ++ zerosB (sigBlockOffset .v1 iaes.length - (hd ++ ab).length)) s k n
      rw [hX] at this
      rw [this]
    have slS : ∀ k n, k + n ≤ s.length → slice bin (base + sigBlockOffset .v1 iaes.length + k) n = slice s k n := by
      intro k n hk
      rw [Nat.add_assoc, slice_of_eq bin cb base (sigBlockOffset .v1 iaes.length + k) n hcb (by rw [e7]; omega), e5]
      have := slice_append_right (hd ++ ab ++ zerosB (sigBlockOffset .v1 iaes.length - (hd ++ ab).length)) s k n
      rw [hX] at this
      exact this
    have rdT : ∀ k n, k + n ≤ cont.sb.srk.length → rd s (o.srkOff + k) n = rd cont.sb.srk k n :=
      fun k n hk => rd_of_eq s cont.sb.srk o.srkOff k n (cS hsrkne) hk
    have rdG : ∀ k n, k + n ≤ 8 + cont.sb.signature.length → rd s (o.sigOff + k) n =
        rd (packInts [1, 2, 1, 4] [AhabConsts.signatureVersion, AhabConsts.signatureLayout.size + cont.sb.signature.length,
          AhabConsts.signatureTag, AhabConsts.reserved] ++ cont.sb.signature) k n :=
      fun k n hk => rd_of_eq s _ o.sigOff k n (cG hsgne) (by rw [hsgl, hsl8]; exact hk)
    have hsl : s.length = o.length := hslen
    have R3 : rd bin (base + sigBlockOffset .v1 iaes.length + 3) 1 = AhabConsts.sigBlockTag := by rw [rdS 3 1 (by omega)]; exact s2
    have R0 : rd bin (base + sigBlockOffset .v1 iaes.length) 1 = Ver.v1.sigBlockVersion := by
      have := rdS 0 1 (by omega); rw [Nat.add_zero] at this; rw [this]; exact s0
    have R1 : rd bin (base + sigBlockOffset .v1 iaes.length + 1) 2 = o.length := by rw [rdS 1 2 (by omega)]; exact s1
    have R4 : rd bin (base + sigBlockOffset .v1 iaes.length + 4) 2 = o.certOff := by rw [rdS 4 2 (by omega)]; exact s3
    have R6 : rd bin (base + sigBlockOffset .v1 iaes.length + 6) 2 = o.srkOff := by rw [rdS 6 2 (by omega)]; exact s4
    have R8 : rd bin (base + sigBlockOffset .v1 iaes.length + 8) 2 = o.sigOff := by rw [rdS 8 2 (by omega)]; exact s5
    have R10 : rd bin (base + sigBlockOffset .v1 iaes.length + 10) 2 = o.blobOff := by rw [rdS 10 2 (by omega)]; exact s6
    have G3 : rd bin (base + sigBlockOffset .v1 iaes.length + o.sigOff + 3) 1 = AhabConsts.signatureTag := by
      rw [Nat.add_assoc (base + sigBlockOffset .v1 iaes.length), rdS (o.sigOff + 3) 1 (by omega), rdG 3 1 (by omega)]; exact g2
    have G1 : rd bin (base + sigBlockOffset .v1 iaes.length + o.sigOff + 1) 2 = 8 + cont.sb.signature.length := by
      rw [Nat.add_assoc (base + sigBlockOffset .v1 iaes.length), rdS (o.sigOff + 1) 2 (by omega), rdG 1 2 (by omega)]; exact g1
    have T0 : rd bin (base + sigBlockOffset .v1 iaes.length + o.srkOff) 1 = AhabConsts.srkTableTag := by
      have := rdS (o.srkOff + 0) 1 (by omega)
      rw [← Nat.add_assoc, Nat.add_zero] at this
      rw [this, rdT 0 1 (by omega)]; exact t0
    have T3 : rd bin (base + sigBlockOffset .v1 iaes.length + o.srkOff + 3) 1 = AhabConsts.srkTableVersion := by
      rw [Nat.add_assoc (base + sigBlockOffset .v1 iaes.length), rdS (o.srkOff + 3) 1 (by omega), rdT 3 1 (by omega)]; exact t3
    have T1 : rd bin (base + sigBlockOffset .v1 iaes.length + o.srkOff + 1) 2 = cont.sb.srk.length := by
      rw [Nat.add_assoc (base + sigBlockOffset .v1 iaes.length), rdS (o.srkOff + 1) 2 (by omega), rdT 1 2 (by omega)]; exact t1
    have hrl : (cont.sb.srk.length - 4) / 4 = 12 + P := by rw [hTl]; omega
    have hrm : (cont.sb.srk.length - 4) % 4 = 0 := by rw [hTl]; omega
    have hin : 4 + cont.usedSrkId * (12 + P) + 3 ≤ cont.sb.srk.length := by
      rw [hTl]
      have : cont.usedSrkId * (12 + P) ≤ 3 * (12 + P) := Nat.mul_le_mul_right _ (by omega)
      omega
    have Q0 : rd bin (base + sigBlockOffset .v1 iaes.length + o.srkOff + 4 + cont.usedSrkId * (12 + P)) 1 = AhabConsts.srkRecordTag := by
      rw [Nat.add_assoc (base + sigBlockOffset .v1 iaes.length + o.srkOff), Nat.add_assoc (base + sigBlockOffset .v1 iaes.length),
        rdS (o.srkOff + (4 + cont.usedSrkId * (12 + P))) 1 (by omega), rdT _ 1 (by omega)]
      exact tr0
    have Q1 : rd bin (base + sigBlockOffset .v1 iaes.length + o.srkOff + 4 + cont.usedSrkId * (12 + P) + 1) 2 = 12 + P := by
      rw [Nat.add_assoc (base + sigBlockOffset .v1 iaes.length + o.srkOff + 4), Nat.add_assoc (base + sigBlockOffset .v1 iaes.length + o.srkOff),
        Nat.add_assoc (base + sigBlockOffset .v1 iaes.length),
        rdS (o.srkOff + (4 + (cont.usedSrkId * (12 + P) + 1))) 2 (by omega), rdT _ 2 (by omega), ← Nat.add_assoc]
      exact tr1
    have HS : slice bin (base + sigBlockOffset .v1 iaes.length + o.srkOff) cont.sb.srk.length = cont.sb.srk := by
      have := slS (o.srkOff + 0) cont.sb.srk.length (by omega)
      rw [← Nat.add_assoc, Nat.add_zero] at this
      rw [this, Nat.add_zero]; exact cS hsrkne
    have F0 : cont.flags % 4 ≠ 0 := by
      have := hset; unfold Container.srkSet at this; rw [getF_eq] at this
      have e : (2 : Nat) ^ AhabConsts.cFlagsSrkSetOffset = 1 := rfl
      have e2 : (2 : Nat) ^ AhabConsts.cFlagsSrkSetSize = 4 := rfl
      rw [e, e2, Nat.div_one] at this; exact this
    have FU : (cont.flags >>> 4) % 4 = cont.usedSrkId := by
      unfold Container.usedSrkId; rw [getF_eq, Nat.shiftRight_eq_div_pow]; rfl
    have FR : (cont.flags >>> 8) % 16 = cont.revokeMask := by
      unfold Container.revokeMask; rw [getF_eq, Nat.shiftRight_eq_div_pow]; rfl
    unfold checkSigBlock
    simp only [paramsV1, R3, R0, R1, R4, R6, R8, R10, FU, FR]
    have hcbl : cb.length = sigBlockOffset .v1 iaes.length + o.length := e7
    have q3 : o.certOff ≠ 0 → o.sigOff + (8 + cont.sb.signature.length) ≤ o.certOff := by
      intro hc
      have hcl : cont.sb.cert.length ≠ 0 := fun h => hc (z3 h)
      have := (p3 hcl).2.2.1 (by omega); omega
    have q4 : o.blobOff ≠ 0 → (o.certOff ≠ 0 → o.certOff ≤ o.blobOff) ∧ o.sigOff + (8 + cont.sb.signature.length) ≤ o.blobOff ∧
        o.blobOff + 8 ≤ o.length := by
      intro hbo
      have hbl0 : cont.sb.blobLen ≠ 0 := fun h => hbo (z4 h)
      have q := p4 hbl0
      refine ⟨fun hc => ?_, by have := q.2.2.1 (by omega); omega, ?_⟩
      · have hcl : cont.sb.cert.length ≠ 0 := fun h => hc (z3 h)
        have := q.2.2.2.1 hcl; omega
      · cases hbs : cont.sb.blob with
        | none => simp [SigBlock.blobLen, hbs] at hbl0
        | some b =>
          have := hb b hbs
          have hs4 : cont.sb.blobLen = b.length := by simp [SigBlock.blobLen, hbs]
          have := q.2.2.2.2; omega
    simp only [G3, G1, T0, T3, T1, hrl, Q0, Q1, HS]
    have c1 : ¬ (sigBlockOffset .v1 iaes.length + sigBlockHeaderSize > cb.length) := by
      rw [hcbl]; show ¬ (_ + 16 > _); omega
    rw [if_neg c1, if_neg (by decide), if_neg (by decide), if_neg (by rw [hcbl]; simp), if_neg F0,
      if_neg (by show ¬ (o.srkOff < 16); omega), if_neg (by omega), if_neg (by omega), if_neg (by omega),
      if_neg (by decide), if_neg (by omega)]
    have c12 : ¬ (o.certOff ≠ 0 ∧ o.certOff < o.sigOff + (8 + cont.sb.signature.length)) := by
      intro ⟨h1, h2⟩; have := q3 h1; omega
    rw [if_neg c12]
    have c13 : ¬ (o.blobOff ≠ 0 ∧ o.blobOff < if o.certOff ≠ 0 then o.certOff else o.sigOff + (8 + cont.sb.signature.length)) := by
      intro ⟨h1, h2⟩
      have q := q4 h1
      split at h2
      · rename_i hc; have := q.1 hc; omega
      · omega
    rw [if_neg c13]
    have c14 : ¬ (o.blobOff ≠ 0 ∧ o.blobOff + 8 > o.length) := by
      intro ⟨h1, h2⟩; have := (q4 h1).2.2; omega
    rw [if_neg c14]
    simp only [if_true]
    rw [if_neg (by show ¬ (o.srkOff % 8 ≠ 0 ∨ o.sigOff % 8 ≠ 0); omega), if_neg (by decide), if_neg (by decide),
      if_neg (by omega), if_neg (by omega), if_neg (by decide), if_neg (by simp)]
    rw [show 8 + cont.sb.signature.length - 8 = cont.sb.signature.length from by omega]

/-! ### container level -/

theorem checkEntries_of_each (c : CryptoOps) (p : Params) (bin : Bytes) (base : Nat) (dek : Option Bytes) (reps : List ImageRep) :
    ∀ (n j : Nat), j + n = reps.length →
    (∀ i r, reps[i]? = some r → checkEntry c p bin base (base + (16 + 128 * i)) dek = .ok r) →
    checkEntries c p bin base dek n (base + (16 + 128 * j)) = .ok (reps.drop j)
  | 0, j, hj, _ => by
    rw [List.drop_of_length_le (by omega)]; rfl
  | n + 1, j, hj, h => by
    have hjl : j < reps.length := by omega
    have hr := h j reps[j] (by simp [hjl])
    unfold checkEntries
    rw [hr]
    simp only
    have ih := checkEntries_of_each c p bin base dek reps n (j + 1) (by omega) h
    have e : base + (16 + 128 * j) + iaeSize = base + (16 + 128 * (j + 1)) := by show _ + 128 = _; omega
    rw [e, ih]
    simp only
    rw [← List.getElem_cons_drop hjl]

open SpsdkVerif.Crypto (CryptoLaws)

def repOf (v : Ver) (p : Placed) : ImageRep := ⟨p.offset, p.ready.size, p.entry.flags, Iae.isEncrypted v p.entry.flags⟩

/-- `rom_accepts`, container level (version 1, OEM/NXP-signed with an SRK table): the independent `checkContainer` accepts
    container `k` of an exported image: header fields, every entry (hash / placement / decryption), the signature block with
    its ordering and alignment conditions, the selected SRK record, and reports the signed range -/
theorem checkContainer_accepts_v1 (c : CryptoOps) (hc : CryptoLaws c) (img : Image) (hv : img.ver = .v1) (bin : Bytes) (maxC maxI : Nat)
    (hexp : img.export c = .ok bin) (hA : 0 < img.chip.imageAlignment)
    (us : List UContainer) (hus : img.update c = .ok us) (k : Nat) (u : UContainer) (hk : us[k]? = some u)
    (hblob : BlobLenOK u.cont.sb) (t : SrkTable) (ht : SrkTableWF t) (hte : encodeSrkTable t = .ok u.cont.sb.srk)
    (hsig : u.cont.sb.signature ≠ []) (hset : u.cont.srkSet ≠ 0) (hrev : (u.cont.revokeMask >>> u.cont.usedSrkId) % 2 = 0)
    (hn : u.placed.length ≤ maxI)
    (hent : ∀ (i : Nat) (p : Placed), u.placed[i]? = some p → 0 < p.ready.size ∧
      ¬ (Iae.isEncrypted img.ver p.entry.flags = true ∧ u.cont.sb.blob.isSome = false) ∧
      (Iae.isEncrypted img.ver p.entry.flags = true → u.cont.sb.blob.isSome = true →
        p.ready.size = p.ready.image.length ∧ (storedImage img.chip p.entry.data).length % 16 = 0 ∧ u.cont.dek.isSome = true)) :
    ∃ cb P, u.export .v1 = .ok cb ∧ u.cont.sb.srk.length = 4 + (12 + P) * 4 ∧
    checkContainer c (paramsV1 maxC maxI) bin k (if u.cont.sb.blob.isSome then u.cont.dek else none) =
      .ok ⟨k, k * 0x400, cb.length, u.cont.flags, u.cont.swVersion, u.cont.fuseVersion, sigBlockOffset .v1 u.placed.length,
           (sbLayout .v1 u.cont.sb).srkOff, (sbLayout .v1 u.cont.sb).sigOff, (sbLayout .v1 u.cont.sb).certOff,
           (sbLayout .v1 u.cont.sb).blobOff, (sbLayout .v1 u.cont.sb).length, u.placed.map (repOf .v1),
           some ⟨sigBlockOffset .v1 u.placed.length + (sbLayout .v1 u.cont.sb).sigOff,
                 k * 0x400 + sigBlockOffset .v1 u.placed.length + (sbLayout .v1 u.cont.sb).srkOff, u.cont.sb.srk.length,
                 k * 0x400 + sigBlockOffset .v1 u.placed.length + (sbLayout .v1 u.cont.sb).srkOff + 4 + u.cont.usedSrkId * (12 + P), 12 + P,
                 u.cont.usedSrkId,
                 k * 0x400 + sigBlockOffset .v1 u.placed.length + (sbLayout .v1 u.cont.sb).sigOff + 8, u.cont.sb.signature.length,
                 c.hash .sha256 u.cont.sb.srk⟩⟩ := by
  obtain ⟨cb, hcbe, hbase, _, hsl⟩ := export_containers_fixed' c img bin hexp hA us hus k u hk hblob
  rw [hv] at hcbe hsl
  have hsize : Ver.v1.containerSize = 0x400 := rfl
  rw [hsize] at hsl
  have hcbe' := hcbe
  unfold UContainer.export at hcbe'
  obtain ⟨P, hTl, hsb⟩ := checkSigBlock_accepts_v1 c maxC maxI bin cb (k * 0x400) u.cont _ t hsl hcbe' hblob ht hte hsig hset hrev
  simp only [List.length_map] at hsb
  refine ⟨cb, P, hcbe, hTl, ?_⟩
  obtain ⟨hd, ab, s, hdr0, e1, e2, e3, _, e5, e6, e7, _⟩ := exportContainer_spec .v1 u.cont _ cb hblob hcbe'
  simp only [List.length_map] at e1 e5 e6 e7
  -- header reads
  unfold encodeHeader at e1
  obtain ⟨hfh, rfl⟩ := packChecked_ok e1
  have hwh : (Ver.v1.hdrLayout).intWidths = [1, 2, 1, 4, 2, 1, 1, 2, 2] := rfl
  rw [hwh] at hfh e5
  have hcb16 : 16 ≤ cb.length := by
    have := sbo_exact .v1 u.placed.length; rw [e7]; omega
  have rdH : ∀ i, i < 9 → rd bin (k * 0x400 + intsLen (([1, 2, 1, 4, 2, 1, 1, 2, 2] : List Nat).take i))
      (([1, 2, 1, 4, 2, 1, 1, 2, 2] : List Nat).getD i 0) =
      ([Ver.v1.containerVersion, headerLength .v1 u.placed.length (sbLayout .v1 u.cont.sb).length, AhabConsts.containerTag, u.cont.flags,
        u.cont.swVersion, u.cont.fuseVersion, u.placed.length, sigBlockOffset .v1 u.placed.length, AhabConsts.reserved] : List Nat).getD i 0 := by
    intro i hi
    have hle : intsLen (([1, 2, 1, 4, 2, 1, 1, 2, 2] : List Nat).take i) + (([1, 2, 1, 4, 2, 1, 1, 2, 2] : List Nat).getD i 0) ≤ 16 := by
      have : i = 0 ∨ i = 1 ∨ i = 2 ∨ i = 3 ∨ i = 4 ∨ i = 5 ∨ i = 6 ∨ i = 7 ∨ i = 8 := by omega
      rcases this with h | h | h | h | h | h | h | h | h <;> subst h <;> decide
    rw [rd_of_eq bin cb (k * 0x400) _ _ hsl (by omega), e5, List.append_assoc, List.append_assoc]
    exact rd_packInts _ _ _ i hfh (by simpa using hi)
  have h1 := rdH 1 (by decide); have h3 := rdH 3 (by decide); have h4 := rdH 4 (by decide); have h5 := rdH 5 (by decide)
  have h6 := rdH 6 (by decide); have h7 := rdH 7 (by decide)
  simp only [List.take_zero, List.take_succ_cons, List.take_nil, intsLen, List.foldr_cons, List.foldr_nil, List.getD_cons_zero,
    List.getD_cons_succ] at h1 h3 h4 h5 h6 h7
  have hsbo := sbo_exact .v1 u.placed.length
  have hhl : headerLength .v1 u.placed.length (sbLayout .v1 u.cont.sb).length = cb.length := by
    unfold headerLength
    rw [(hdrLayout_widths .v1).2, (iaeLayout_facts .v1).2.2, e7, hsbo]; omega
  -- entries
  have hu : u ∈ us := List.mem_of_getElem? hk
  have hEach : ∀ i r, (u.placed.map (repOf .v1))[i]? = some r →
      checkEntry c (paramsV1 maxC maxI) bin (k * 0x400) (k * 0x400 + (16 + 128 * i)) (if u.cont.sb.blob.isSome then u.cont.dek else none) = .ok r := by
    intro i r hi
    rw [List.getElem?_map] at hi
    cases hp : u.placed[i]? with
    | none => rw [hp] at hi; cases hi
    | some p =>
      rw [hp] at hi; simp only [Option.map_some, Option.some.injEq] at hi
      subst hi
      obtain ⟨hs0, hnb, hne⟩ := hent i p hp
      have := rom_accepts_entry' c hc img bin maxC maxI hexp hA us hus u hu i p hp hblob hs0 hne
      rcases this with hbad | hok
      · exact absurd hbad hnb
      · rw [hv] at hok
        rw [hbase, hv, hsize] at hok
        exact hok
  have hentries := checkEntries_of_each c (paramsV1 maxC maxI) bin (k * 0x400) (if u.cont.sb.blob.isSome then u.cont.dek else none)
    (u.placed.map (repOf .v1)) u.placed.length 0 (by simp) hEach
  rw [List.drop_zero, Nat.mul_zero, Nat.add_zero] at hentries
  unfold checkContainer
  simp only [paramsV1] at hentries hsb ⊢
  simp only [Nat.add_zero, Nat.reduceAdd] at h1 h3 h4 h5 h6 h7
  simp only [h1, h3, h4, h5, h6, h7, hhl]
  have hlenle : k * 0x400 + cb.length ≤ bin.length := by
    have hl := congrArg List.length hsl
    simp only [slice, List.length_take, List.length_drop] at hl
    omega
  rw [if_neg (by show ¬ (k * 1024 + cb.length > bin.length); omega), if_neg (by omega),
    if_neg (by rw [hsbo]; show ¬ (_ < 16 + _ * 128 ∨ _ % 8 ≠ 0); omega)]
  have e16 : k * 1024 + headerSize = k * 0x400 + 16 := rfl
  rw [e16, hentries]
  simp only
  have ek : k * 1024 = k * 0x400 := rfl
  rw [ek, hsb]

end SpsdkVerif.Ahab
