/- C07 helper lemmas, part 5: container round trip `parse (export cfg)`. -/
import SpsdkVerif.Model.HabWF
import SpsdkVerif.Proofs.HabBase
import SpsdkVerif.Proofs.HabCsf
import SpsdkVerif.Proofs.HabLayout

namespace SpsdkVerif.Hab
open SpsdkVerif SpsdkVerif.Misc SpsdkVerif.Generated

theorem slice_to_drop (d x : Bytes) (o : Nat) (h : slice d o x.length = x) : d.drop o = x ++ d.drop (o + x.length) := by
  have := (List.take_append_drop x.length (d.drop o)).symm
  rw [List.drop_drop] at this
  unfold slice at h
  rw [h] at this
  exact this

theorem rdLE_skip (a b : Bytes) (off n : Nat) (h : a.length ≤ off) : rdLE (a ++ b) off n = rdLE b (off - a.length) n := by
  unfold rdLE; rw [slice_append_right _ _ _ _ h]

theorem rdLE_head (v n : Nat) (c : Bytes) (h : v < 256 ^ n) : rdLE (leEnc n v ++ c) 0 n = some v := by
  have := rdLE_at [] c n v 0 h rfl
  simpa using this

theorem rdLE32_head (v : Nat) (c : Bytes) (h : v < 2 ^ 32) : rdLE (le32 v ++ c) 0 4 = some v :=
  rdLE_head v 4 c (by have : (256:Nat) ^ 4 = 2 ^ 32 := by decide
                      omega)

macro "skip_rd" : tactic =>
  `(tactic| (rw [rdLE_skip _ _ _ _ (by simp)]; simp only [hdr_length, le32_length, Nat.reduceSub, Nat.sub_self]))

theorem parseIvt_encode (v : Ivt) (rest : Bytes) (hv : v.version < 256)
    (h1 : v.entry < 2 ^ 32) (h2 : v.rs1 < 2 ^ 32) (h3 : v.dcd < 2 ^ 32) (h4 : v.bdt < 2 ^ 32) (h5 : v.self < 2 ^ 32)
    (h6 : v.csf < 2 ^ 32) (h7 : v.rs2 < 2 ^ 32)
    (hs : v.self ≠ 0) (hb : v.bdt = v.self + 32) (hd : v.dcd = 0 ∨ v.self ≤ v.dcd) (hc : v.csf = 0 ∨ v.self ≤ v.csf) :
    parseIvt (v.encode ++ rest) = .ok v := by
  unfold parseIvt
  have e0 : parseHdr (v.encode ++ rest) = some (Spec.tagIVT, Spec.ivtSize, v.version) := by
    simp only [Ivt.encode, List.append_assoc]
    exact parseHdr_hdr _ _ _ _ (by decide) (by decide) hv
  have r1 : rdLE (v.encode ++ rest) 4 4 = some v.entry := by
    simp only [Ivt.encode, List.append_assoc]
    skip_rd; exact rdLE32_head _ _ h1
  have r2 : rdLE (v.encode ++ rest) 8 4 = some v.rs1 := by
    simp only [Ivt.encode, List.append_assoc]
    skip_rd; skip_rd; exact rdLE32_head _ _ h2
  have r3 : rdLE (v.encode ++ rest) 12 4 = some v.dcd := by
    simp only [Ivt.encode, List.append_assoc]
    skip_rd; skip_rd; skip_rd; exact rdLE32_head _ _ h3
  have r4 : rdLE (v.encode ++ rest) 16 4 = some v.bdt := by
    simp only [Ivt.encode, List.append_assoc]
    skip_rd; skip_rd; skip_rd; skip_rd; exact rdLE32_head _ _ h4
  have r5 : rdLE (v.encode ++ rest) 20 4 = some v.self := by
    simp only [Ivt.encode, List.append_assoc]
    skip_rd; skip_rd; skip_rd; skip_rd; skip_rd; exact rdLE32_head _ _ h5
  have r6 : rdLE (v.encode ++ rest) 24 4 = some v.csf := by
    simp only [Ivt.encode, List.append_assoc]
    skip_rd; skip_rd; skip_rd; skip_rd; skip_rd; skip_rd; exact rdLE32_head _ _ h6
  have r7 : rdLE (v.encode ++ rest) 28 4 = some v.rs2 := by
    simp only [Ivt.encode, List.append_assoc]
    skip_rd; skip_rd; skip_rd; skip_rd; skip_rd; skip_rd; skip_rd; exact rdLE32_head _ _ h7
  rw [e0, r1, r2, r3, r4, r5, r6, r7]
  simp only [ne_eq, not_true_eq_false, ↓reduceIte]
  have c1 : ¬ (v.self = 0 ∨ v.bdt = 0 ∨ v.bdt < v.self) := by omega
  have c2 : ¬ (¬ v.dcd = 0 ∧ v.dcd < v.self) := by omega
  have c3 : ¬ (¬ v.csf = 0 ∧ v.csf < v.self) := by omega
  have c4 : ¬ (v.bdt > v.self + Spec.ivtSize) := by unfold Spec.ivtSize; omega
  simp only [c1, c2, c3, c4, ↓reduceIte]

theorem parseBdt_encode (b : Bdt) (rest : Bytes) (h1 : b.start < 2 ^ 32) (h2 : b.length < 2 ^ 32) (h3 : b.plugin ≤ 2) :
    parseBdt (b.encode ++ rest) = .ok b := by
  unfold parseBdt
  have r1 : rdLE (b.encode ++ rest) 0 4 = some b.start := by
    simp only [Bdt.encode, List.append_assoc]
    exact rdLE32_head _ _ h1
  have r2 : rdLE (b.encode ++ rest) 4 4 = some b.length := by
    simp only [Bdt.encode, List.append_assoc]
    skip_rd; exact rdLE32_head _ _ h2
  have r3 : rdLE (b.encode ++ rest) 8 4 = some b.plugin := by
    simp only [Bdt.encode, List.append_assoc]
    skip_rd; skip_rd; exact rdLE32_head _ _ (by omega)
  rw [r1, r2, r3]
  simp only [h3, ↓reduceIte]

theorem parseBlock_dcd (dd rest : Bytes) (h : DcdWF dd) : parseBlock (dd ++ rest) (some Spec.tagDCD) = .ok dd := by
  obtain ⟨hl, p, body, hp, _, he⟩ := h
  unfold parseBlock
  have e0 : parseHdr (dd ++ rest) = some (Spec.tagDCD, dd.length, p) := by
    conv => lhs; rw [he, List.append_assoc]
    exact parseHdr_hdr _ _ _ _ (by decide) hl hp
  rw [e0]
  simp

theorem hdr_bytes (t l p : Nat) (body : Bytes) :
    hdr t l p ++ body = u8 t :: u8 (l / 256 % 256) :: u8 (l % 256) :: u8 p :: body := by
  simp [hdr, be16_eq]

/-- with a DCD at 0x40 no XMCD block is recognised there -/
theorem parseXmcd_dcd (d dd rest : Bytes) (hd : d.drop 64 = dd ++ rest) (h : DcdWF dd) : parseXmcd d = .ok none := by
  obtain ⟨_, p, body, hp, hx, he⟩ := h
  unfold parseXmcd
  show (match d.drop 64 with | lo :: ts :: ii :: tv :: rest => _ | _ => _) = _
  rw [hd, he, List.append_assoc, hdr_bytes]
  simp only [u8_toNat p hp]
  rcases hx with hx | hx <;> simp [hx]

theorem zeros_succ (n : Nat) : zeros (n + 1) = 0 :: zeros n := by simp [zeros, List.replicate_succ]

theorem parseXmcd_zeros (d rest : Bytes) (k : Nat) (hd : d.drop 64 = zeros (k + 4) ++ rest) : parseXmcd d = .ok none := by
  unfold parseXmcd
  show (match d.drop 64 with | lo :: ts :: ii :: tv :: rest => _ | _ => _) = _
  rw [hd, zeros_succ, zeros_succ, zeros_succ, zeros_succ]
  simp [HabConsts.xmcdHeaderTag]

theorem slice_zeros (k o n : Nat) (h : o + n ≤ k) : slice (zeros k) o n = zeros n := by
  simp [slice, zeros, List.drop_replicate, List.take_replicate]
  omega

theorem isAut_setLoc (c : Cmd) (x : Nat) : isAut (c.setLoc x) = isAut c := by cases c <;> rfl

/-- assigning data references does not touch the block lists -/
theorem blocks_setLoc (c : Cmd) (x : Nat) : (c.setLoc x).blocks = c.blocks := by cases c <;> rfl

theorem getAut_assignLocs_isSome (k n : Nat) (l : List CsfCmd) :
    (getAut k (assignLocs n l)).isSome = (getAut k l).isSome := by
  induction l generalizing k n with
  | nil => rfl
  | cons c r ih =>
    unfold assignLocs
    by_cases hr : needsRef c.cmd = true
    · simp only [hr, ↓reduceIte]
      cases hd : c.data with
      | none =>
        simp only [getAut, isAut_setLoc]
        by_cases ha : isAut c.cmd = true
        · cases k <;> simp [ha, ih]
        · simp [ha, ih]
      | some d =>
        simp only [getAut, isAut_setLoc]
        by_cases ha : isAut c.cmd = true
        · cases k <;> simp [ha, ih]
        · simp [ha, ih]
    · simp only [hr, Bool.false_eq_true, ↓reduceIte, getAut]
      by_cases ha : isAut c.cmd = true
      · cases k <;> simp [ha, ih]
      · simp [ha, ih]

/-- `getAut` commutes with the assignment of data references up to the location field -/
theorem getAut_assignLocs_blocks (k n : Nat) (l : List CsfCmd) :
    (getAut k (assignLocs n l)).map (fun c => c.cmd.blocks) = (getAut k l).map (fun c => c.cmd.blocks) := by
  induction l generalizing k n with
  | nil => rfl
  | cons c r ih =>
    unfold assignLocs
    by_cases hr : needsRef c.cmd = true
    · simp only [hr, ↓reduceIte]
      cases hd : c.data with
      | none =>
        simp only [getAut, isAut_setLoc]
        by_cases ha : isAut c.cmd = true
        · cases k <;> simp [ha, ih, blocks_setLoc]
        · simp [ha, ih]
      | some d =>
        simp only [getAut, isAut_setLoc]
        by_cases ha : isAut c.cmd = true
        · cases k <;> simp [ha, ih, blocks_setLoc]
        · simp [ha, ih]
    · simp only [hr, Bool.false_eq_true, ↓reduceIte, getAut]
      by_cases ha : isAut c.cmd = true
      · cases k <;> simp [ha, ih]
      · simp [ha, ih]

theorem csfAppBlock_assignLocs (n : Nat) (l : List CsfCmd) : csfAppBlock (assignLocs n l) = csfAppBlock l := by
  unfold csfAppBlock
  rw [getAut_assignLocs_blocks 1 n l, getAut_assignLocs_blocks 2 n l]

theorem hab_roundtrip_lemma (c : Cfg) (b : Built) (h : c.WF)
    (hd : ∀ d, c.dcd = some d → DcdWF d) (hx : ∀ x, c.xmcd = some x → XmcdWF x)
    (happ : b.app.length = c.appBin.length)
    (hc : c.hasCsf = true → CsfWF c.version b.cmds ∧ (getAut 2 b.cmds).isSome = isEnc c.flags ∧
      csfAppBlock b.cmds = some (c.start + c.ivtOff + c.appOff, c.appBin.length))
    (hvis : c.hasCsf = false → findAppOffset (exportImage c b) c.entry HabConsts.knownAppOffsets = some c.appOff) :
    parse (exportImage c b) = .ok (expectedParse c b) := by
  have hcsfLen : c.hasCsf = true → (csfBytes c.version b.cmds).length = HabConsts.csfSize :=
    fun hh => csfBytes_length _ _ (hc hh).1
  obtain ⟨pIvt, pSelf, pEntry, pBdt, pBdtS, pDcd, pDcd0, pXm, pAppOff, pApp, pCsf, pNoCsf, pBs, pBp, pBl⟩ :=
    ivt_points_lemma c b h happ hcsfLen
  generalize himg : exportImage c b = img at *
  have hf := flags_cases c.flags h.flags
  have hgt := csfAbs_gt (c.ils + c.app.length)
  have haddr := h.addr
  have hge := appOff_ge c h
  have hco := csfOff_eq c
  have hbefore := app_before_csf c h
  have hcs : HabConsts.csfSize = 8192 := rfl
  have hkb : HabConsts.keyblobSize = 512 := rfl
  -- numeric facts about the fields
  have hlenimg : img.length ≤ c.csfOff + 8192 ∧ c.appOff + b.app.length ≤ img.length := by
    by_cases hh : c.hasCsf = true
    · have := pCsf hh; omega
    · have := pNoCsf (by simpa using hh); rw [happ] at *; omega
  have hcsfv : c.ivt.csf = 0 ∨ (c.hasCsf = true ∧ c.ivt.csf = c.ivt.self + c.csfOff) := by
    by_cases hh : c.hasCsf = true
    · exact Or.inr ⟨hh, (pCsf hh).1⟩
    · exact Or.inl (pNoCsf (by simpa using hh)).1
  have hdcdv : c.ivt.dcd = 0 ∨ c.ivt.dcd = c.ivt.self + 64 := by
    cases hdd : c.dcd with
    | none => exact Or.inl (pDcd0 hdd)
    | some d => exact Or.inr (pDcd d hdd).1
  have hle := h.ivtLe
  -- 1. IVT
  have hIvt : parseIvt img = .ok c.ivt := by
    have : img = c.ivt.encode ++ img.drop 32 := by rw [← pIvt, List.take_append_drop]
    rw [this]
    have hrs1 : c.ivt.rs1 = 0 := rfl
    have hrs2 : c.ivt.rs2 = 0 := rfl
    have hver : c.ivt.version = 64 := rfl
    apply parseIvt_encode
    · rw [hver]; omega
    · rw [pEntry]; exact h.entry
    · rw [hrs1]; omega
    · rcases hdcdv with e | e <;> rw [e] <;> omega
    · rw [pBdt, pSelf]; omega
    · rw [pSelf]; omega
    · rcases hcsfv with e | ⟨_, e⟩ <;> rw [e] <;> omega
    · rw [hrs2]; omega
    · rw [pSelf]; have := h.nonzero; omega
    · exact pBdt
    · rcases hdcdv with e | e
      · exact Or.inl e
      · exact Or.inr (by omega)
    · rcases hcsfv with e | ⟨_, e⟩
      · exact Or.inl e
      · exact Or.inr (by omega)
  -- 2. boot data
  have hBdt : parseBdt (img.drop (c.ivt.bdt - c.ivt.self)) = .ok c.bdt := by
    have e : img.drop (c.ivt.bdt - c.ivt.self) = c.bdt.encode ++ img.drop (c.ivt.bdt - c.ivt.self + 12) := by
      have := slice_to_drop img c.bdt.encode (c.ivt.bdt - c.ivt.self) (by rw [bdt_encode_length]; exact pBdtS)
      rwa [bdt_encode_length] at this
    rw [e]
    apply parseBdt_encode
    · rw [pBs]; omega
    · rw [pBl]
      have hi : (if isEnc c.flags = true then HabConsts.keyblobSize else 0) ≤ 512 := by
        split <;> simp [hkb]
      have h1 := hlenimg.1
      generalize (if isEnc c.flags = true then HabConsts.keyblobSize else 0) = kb at hi ⊢
      omega
    · rw [pBp]; omega
  -- 3. XMCD
  have hXm : parseXmcd img = .ok c.xmcd := by
    cases hxx : c.xmcd with
    | some x =>
      have hs := pXm x hxx
      have e := slice_to_drop img x 64 hs
      have : img = img.take 64 ++ x ++ img.drop (64 + x.length) := by
        rw [List.append_assoc, ← e, List.take_append_drop]
      rw [this]
      apply parseXmcd_at x _ _ (hx x hxx)
      have := h.xmcdFits x hxx
      rw [List.length_take]; show min 64 img.length = 64; omega
    | none =>
      cases hdd : c.dcd with
      | some d =>
        have hs := (pDcd d hdd).2
        rw [(pDcd d hdd).1, Nat.add_sub_cancel_left] at hs
        exact parseXmcd_dcd img d _ (slice_to_drop img d 64 hs) (hd d hdd)
      | none =>
        -- zeros between boot data and application
        have hnf := image_nf' c h b.app (if c.hasCsf then some (csfBytes c.version b.cmds) else none)
        obtain ⟨t, e⟩ := hnf
        have himg' : img = pre c ++ b.app ++ t := by rw [← himg]; exact e
        have h3 : (st3 c).length = 44 := by rw [st3_length c h, hdd, hxx]
        have hz : slice img 64 4 = zeros 4 := by
          rw [himg', List.append_assoc, slice_append_left _ _ _ _ (by rw [pre_length c h]; omega)]
          unfold pre
          rw [slice_append_right _ _ _ _ (by omega), h3]
          exact slice_zeros _ _ _ (by omega)
        have := slice_to_drop img (zeros 4) 64 (by simpa using hz)
        exact parseXmcd_zeros img _ 0 this
  -- 4. DCD stage
  have hDcdR : parseDcdSeg img c.ivt = .ok (match c.dcd with | some d => [⟨"dcd", dcdSegOffN, d⟩] | none => []) := by
    unfold parseDcdSeg
    cases hdd : c.dcd with
    | none => rw [pDcd0 hdd]; simp
    | some d =>
      have hv := (pDcd d hdd).1
      have hs := (pDcd d hdd).2
      have hne : c.ivt.dcd ≠ 0 := by omega
      rw [if_pos hne]
      have e := slice_to_drop img d (c.ivt.dcd - c.ivt.self) hs
      rw [e, parseBlock_dcd d _ (hd d hdd)]
      simp only []
      rw [hv, Nat.add_sub_cancel_left, dcdSegOffN_eq]
  -- 5. CSF stage
  have hCsfR : parseCsfSeg img c.ivt =
      .ok (if c.hasCsf then [⟨"csf", c.csfOff, csfBytes c.version b.cmds⟩] else [], expectedFlags c,
           if c.hasCsf then some (c.start + c.ivtOff + c.appOff, c.appBin.length) else none) := by
    unfold parseCsfSeg
    by_cases hh : c.hasCsf = true
    · obtain ⟨hv, _, hs, _⟩ := pCsf hh
      obtain ⟨hw, hfl, hblk⟩ := hc hh
      have hne : c.ivt.csf ≠ 0 := by rw [hv, pSelf]; have := h.nonzero; omega
      rw [if_pos hne, hs, parseCsf_csfBytes _ _ hw]
      simp only [hh, ↓reduceIte]
      rw [csfBytes_assignLocs, getAut_assignLocs_isSome, hfl, hv, Nat.add_sub_cancel_left, csfAppBlock_assignLocs, hblk]
      unfold expectedFlags
      simp only [hh, Bool.not_true, Bool.false_eq_true, ↓reduceIte]
    · have hh' : c.hasCsf = false := by simpa using hh
      rw [(pNoCsf hh').1]
      simp [hh', expectedFlags]
  -- 6. application
  have hbo : c.ivt.bdt - c.ivt.self = bdtSegOffN := by rw [pBdt, bdtSegOffN_eq]; omega
  have hio : ((c.ivt.self : Nat) : Int) - ((c.bdt.start : Nat) : Int) = (c.ivtOff : Int) := by
    rw [pSelf, pBs]; omega
  -- 7. assemble
  unfold parse
  rw [hIvt]
  simp only []
  rw [hBdt]
  simp only []
  rw [hDcdR]
  simp only []
  rw [hXm]
  simp only []
  rw [hCsfR]
  simp only []
  by_cases hh : c.hasCsf = true
  · -- the application is the block the CSF lists
    simp only [hh, ↓reduceIte]
    have hs : slice img (c.start + c.ivtOff + c.appOff - c.ivt.self) c.appBin.length = b.app := by
      rw [pSelf, Nat.add_sub_cancel_left, ← happ]; exact pApp
    rw [hs, hbo, hio, pBs, pSelf, Nat.add_sub_cancel_left]
    unfold expectedParse expectedSegs
    simp only [hh, ↓reduceIte]
    rfl
  · have hh' : c.hasCsf = false := by simpa using hh
    simp only [hh', Bool.false_eq_true, ↓reduceIte]
    rw [pEntry, hvis hh']
    simp only []
    have happb : appSeg img c.ivt c.appOff = ⟨"app", c.appOff, b.app⟩ := by
      unfold appSeg
      obtain ⟨hv, hl⟩ := pNoCsf hh'
      simp only [hv, Nat.lt_irrefl, gt_iff_lt, ↓reduceIte]
      rw [hl, Nat.add_sub_cancel_left]
      congr 1
    rw [happb, hbo, hio, pBs]
    unfold expectedParse expectedSegs
    simp only [hh', Bool.false_eq_true, ↓reduceIte]
    rfl

end SpsdkVerif.Hab
