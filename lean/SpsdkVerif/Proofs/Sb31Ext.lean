/-
C05 phase 3 — helper lemmas: inversion of block 0 down to the certificate block (key substitution), the
`export(cert_block=…)` override, `validate()`.
-/
import SpsdkVerif.Model.Sb31Ext
import SpsdkVerif.Proofs.Sb31

namespace SpsdkVerif.Sb31
open SpsdkVerif SpsdkVerif.Misc SpsdkVerif.Crypto SpsdkVerif.Generated
open Rom Spec

/-! ## block 0, inverted down to the certificate block -/

/-- what an accepted block 0 looks like: 60 header bytes, the hash of block 1, a certificate block the loader accepted against the fused
    root-of-trust hash and that names the key of the container signature, the signature, then exactly `blockCount · blockSize` bytes -/
theorem parseBlock0_inv_cert (c : CryptoOps) (rotkh file : Bytes) (b0 : Block0) (h : parseBlock0 c rotkh file = .ok b0) :
    ∃ (p h1 cert sig : Bytes) (ci : CertInfo) (obs : List SigOb),
      file = p ++ (h1 ++ (cert ++ (sig ++ b0.rest))) ∧ p.length = 60 ∧ h1.length = b0.hl ∧ sig.length = 2 * b0.hl ∧
      60 + b0.hl + cert.length + 2 * b0.hl = b0.hdr.totalLength ∧
      romCert c rotkh cert = .ok (ci, obs) ∧ ci.coord = b0.hl ∧
      b0.obs = obs ++ [⟨b0.hl, ci.signPub, p ++ (h1 ++ cert), sig⟩] ∧
      c.verify (.ecdsa (algOfCoord b0.hl)) ci.signPub (p ++ (h1 ++ cert)) sig = true ∧
      b0.rest.length = b0.hdr.blockCount * b0.hdr.blockSize ∧
      (∃ b, parseHeader file = .ok (b0.hdr, b)) := by
  unfold parseBlock0 at h
  simp only [bind_ok] at h
  obtain ⟨⟨hdr, b⟩, hh, hl, _, _, _, _, _, _, _, ⟨h1, b1⟩, th1, _, htl, ⟨cert, b2⟩, tc, ⟨sig, b3⟩, hs, ⟨ci, obs⟩, hrc, _, hco,
    _, hv, _, hfl, hp⟩ := h
  dsimp only at th1 tc hs htl hv hp hrc hco hfl
  have hv := check_ok hv
  have htl := check_ok htl
  have hco := check_ok hco
  have hfl := check_ok hfl
  simp only [decide_eq_true_eq] at htl
  simp only [beq_iff_eq] at hco hfl
  have hs := takeB_ok hs
  have tc := takeB_ok tc
  have th1 := takeB_ok th1
  obtain ⟨p, hp60, lp⟩ := parseHeader_inv _ _ _ hh
  simp only [pure, Except.pure] at hp
  injection hp with hp
  subst hp
  dsimp only
  have e : file = p ++ (h1 ++ (cert ++ (sig ++ b3))) := by
    rw [hp60, th1.1, tc.1, hs.1]
  have l : (p ++ (h1 ++ cert)).length = hdr.totalLength - 2 * hl := by
    simp only [List.length_append, lp, th1.2, tc.2]; omega
  have ht : file.take (hdr.totalLength - 2 * hl) = p ++ (h1 ++ cert) := by
    have e' : file = (p ++ (h1 ++ cert)) ++ (sig ++ b3) := by rw [e]; simp only [List.append_assoc]
    rw [e']; exact List.take_left' l
  rw [ht] at hv
  refine ⟨p, h1, cert, sig, ci, obs, e, lp, th1.2, hs.2, ?_, hrc, hco, ?_, hv, hfl, ⟨b, hh⟩⟩
  · rw [tc.2]; omega
  · rw [ht]

/-! ## `export(cert_block=…)` -/

theorem encPayload_withCert (c : CryptoOps) (s : ObjState) (cert : Bytes) (n : Nat) (b : Bytes) :
    encPayload c (withCert s cert) n b = encPayload c s n b := rfl

theorem buildChain_withCert (c : CryptoOps) (s : ObjState) (cert start : Bytes) :
    ∀ (blocks : List Bytes) (n : Nat), buildChain c (withCert s cert) start n blocks = buildChain c s start n blocks
  | [], _ => rfl
  | b :: bs, n => by
    simp only [buildChain, buildChain_withCert c s cert start bs (n + 1), encPayload_withCert]
    rfl

theorem exportOv_none (c : CryptoOps) (s : ObjState) (r : Rand) : exportOv c s none r = exportSb c s r := rfl

theorem exportOv_empty (c : CryptoOps) (s : ObjState) (r : Rand) : exportOv c s (some []) r = exportSb c s r := rfl

/-- a non-empty override of the SAME length gives exactly the file of the object that owns that certificate block -/
theorem exportOv_same_length (c : CryptoOps) (s : ObjState) (ov : Bytes) (r : Rand) (hne : ov ≠ [])
    (hlen : ov.length = s.cfg.cert.length) :
    (exportOv c s (some ov) r).2 = (exportSb c (withCert s ov) r).2 := by
  have he : ov.isEmpty = false := by cases ov <;> simp_all
  simp only [exportOv, exportSb, certData, he, buildChain_withCert]
  simp only [withCert, hlen]
  rfl

theorem good_withCert {c : CryptoOps} {s : ObjState} (hg : Good c s) (cert : Bytes) : Good c (withCert s cert) :=
  ⟨hg.hl, hg.keyLen, hg.rights, hg.kdk⟩

end SpsdkVerif.Sb31
