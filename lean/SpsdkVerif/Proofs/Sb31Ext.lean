/-
C05 phase 3 — helper lemmas: inversion of block 0 down to the certificate block (key substitution), the
`export(cert_block=…)` override, `validate()`.
-/
import SpsdkVerif.Model.Sb31Ext
import SpsdkVerif.Proofs.Sb31

namespace SpsdkVerif.Sb31
open SpsdkVerif SpsdkVerif.Misc SpsdkVerif.Crypto SpsdkVerif.Generated
open Rom Spec

/-! ## block 0, inverted down to the certificate block -/

/-- what an accepted block 0 looks like: 60 header bytes, the hash of block 1, a certificate block the loader accepted against the fused
    root-of-trust hash and that names the key of the container signature, the signature, then exactly `blockCount · blockSize` bytes -/
theorem parseBlock0_inv_cert (c : CryptoOps) (rotkh file : Bytes) (b0 : Block0) (h : parseBlock0 c rotkh file = .ok b0) :
    ∃ (p h1 cert sig : Bytes) (ci : CertInfo) (obs : List SigOb),
      file = p ++ (h1 ++ (cert ++ (sig ++ b0.rest))) ∧ p.length = 60 ∧ h1.length = b0.hl ∧ sig.length = 2 * b0.hl ∧
      60 + b0.hl + cert.length + 2 * b0.hl = b0.hdr.totalLength ∧
      romCert c rotkh cert = .ok (ci, obs) ∧ ci.coord = b0.hl ∧
      b0.obs = obs ++ [⟨b0.hl, ci.signPub, p ++ (h1 ++ cert), sig⟩] ∧
      c.verify (.ecdsa (algOfCoord b0.hl)) ci.signPub (p ++ (h1 ++ cert)) sig = true ∧
      b0.rest.length = b0.hdr.blockCount * b0.hdr.blockSize ∧
      (∃ b, parseHeader file = .ok (b0.hdr, b)) := by
  unfold parseBlock0 at h
  simp only [bind_ok] at h
  obtain ⟨⟨hdr, b⟩, hh, hl, _, _, _, _, _, _, _, ⟨h1, b1⟩, th1, _, htl, ⟨cert, b2⟩, tc, ⟨sig, b3⟩, hs, ⟨ci, obs⟩, hrc, _, hco,
    _, hv, _, hfl, hp⟩ := h
  dsimp only at th1 tc hs htl hv hp hrc hco hfl
  have hv := check_ok hv
  have htl := check_ok htl
  have hco := check_ok hco
  have hfl := check_ok hfl
  simp only [decide_eq_true_eq] at htl
  simp only [beq_iff_eq] at hco hfl
  have hs := takeB_ok hs
  have tc := takeB_ok tc
  have th1 := takeB_ok th1
  obtain ⟨p, hp60, lp⟩ := parseHeader_inv _ _ _ hh
  simp only [pure, Except.pure] at hp
  injection hp with hp
  subst hp
  dsimp only
  have e : file = p ++ (h1 ++ (cert ++ (sig ++ b3))) := by
    rw [hp60, th1.1, tc.1, hs.1]
  have l : (p ++ (h1 ++ cert)).length = hdr.totalLength - 2 * hl := by
    simp only [List.length_append, lp, th1.2, tc.2]; omega
  have ht : file.take (hdr.totalLength - 2 * hl) = p ++ (h1 ++ cert) := by
    have e' : file = (p ++ (h1 ++ cert)) ++ (sig ++ b3) := by rw [e]; simp only [List.append_assoc]
    rw [e']; exact List.take_left' l
  rw [ht] at hv
  refine ⟨p, h1, cert, sig, ci, obs, e, lp, th1.2, hs.2, ?_, hrc, hco, ?_, hv, hfl, ⟨b, hh⟩⟩
  · rw [tc.2]; omega
  · rw [ht]

/-! ## `export(cert_block=…)` -/

theorem encPayload_withCert (c : CryptoOps) (s : ObjState) (cert : Bytes) (n : Nat) (b : Bytes) :
    encPayload c (withCert s cert) n b = encPayload c s n b := rfl

theorem buildChain_withCert (c : CryptoOps) (s : ObjState) (cert start : Bytes) :
    ∀ (blocks : List Bytes) (n : Nat), buildChain c (withCert s cert) start n blocks = buildChain c s start n blocks
  | [], _ => rfl
  | b :: bs, n => by
    simp only [buildChain, buildChain_withCert c s cert start bs (n + 1), encPayload_withCert]
    rfl

theorem exportOv_none (c : CryptoOps) (s : ObjState) (r : Rand) : exportOv c s none r = exportSb c s r := rfl

theorem exportOv_empty (c : CryptoOps) (s : ObjState) (r : Rand) : exportOv c s (some []) r = exportSb c s r := rfl

/-- a non-empty override of the SAME length gives exactly the file of the object that owns that certificate block -/
theorem exportOv_same_length (c : CryptoOps) (s : ObjState) (ov : Bytes) (r : Rand) (hne : ov ≠ [])
    (hlen : ov.length = s.cfg.cert.length) :
    (exportOv c s (some ov) r).2 = (exportSb c (withCert s ov) r).2 := by
  have he : ov.isEmpty = false := by cases ov <;> simp_all
  simp only [exportOv, exportSb, certData, he, buildChain_withCert]
  simp only [withCert, hlen]
  rfl

/-- the bytes of `export(cert_block=ov)` for a non-empty override: the header is the one of the OBJECT (`hdrSpec s`: total length from
    the object's own certificate block), the certificate block bytes are the override -/
theorem exportOv_bytes (c : CryptoOps) (s : ObjState) (ov : Bytes) (r : Rand) (hne : ov ≠ [])
    (hh : s.cfg.hashLen = 32 ∨ s.cfg.hashLen = 48) :
    ∃ sig, sig = c.sign (sigAlgOf s.cfg.hashLen) s.cfg.sk (encHeader (hdrSpec s) ++ ((chainOf c s).1 ++ ov)) r ∧
      (exportOv c s (some ov) r).2 =
        encHeader (hdrSpec s) ++ ((chainOf c s).1 ++ (ov ++ (sig ++ (chainOf c s).2.flatten))) := by
  have he : ov.isEmpty = false := by cases ov <;> simp_all
  refine ⟨_, rfl, ?_⟩
  simp only [exportOv, certData, he, headerOf_eq s hh, chainStartHash_eq, chainOf, List.append_assoc]
  rfl

/-- CURRENT BEHAVIOUR (finding C05-override-length): an override whose length differs from the object's own certificate block is
    written behind a header whose `image_total_length` still counts the object's own block, so no loader accepts the file -/
theorem exportOv_other_length_refused {c : CryptoOps} (hc : CryptoLaws c) (s : ObjState) (hg : Good c s) (wf : StateWF c s)
    (ov : Bytes) (r : Rand) (hne : ov ≠ []) (hlen : ov.length ≠ s.cfg.cert.length) (dev : Dev) (res : RomOk) :
    romLoad c dev (exportOv c s (some ov) r).2 ≠ .ok res := by
  intro h
  obtain ⟨b0, hb0, _, _⟩ := romLoad_inv c dev _ res h
  obtain ⟨p, h1, cert, sig, ci, obs', e, lp, lh1, lsig, htot, _, _, _, _, hrest, ⟨b, hph⟩⟩ := parseBlock0_inv_cert c dev.rotkh _ b0 hb0
  obtain ⟨sg, hsg, hbytes⟩ := exportOv_bytes c s ov r hne hg.hl
  have hhdr : b0.hdr = hdrSpec s := by
    rw [hbytes, parseHeader_enc _ (hdrSpec_wf s hg wf)] at hph
    exact (congrArg Prod.fst (Except.ok.inj hph)).symm
  have hH : (encHeader (hdrSpec s)).length = 60 := encHeader_length _ (adjustDesc_length _)
  have hs1 : sg.length = 2 * s.cfg.hashLen := by rw [hsg]; exact wf.sigLen _ r
  have hs2 : (sigOf c s r).length = 2 * s.cfg.hashLen := wf.sigLen _ r
  have hlen1 := congrArg List.length e
  simp only [List.length_append, lp, lh1, lsig, hrest] at hlen1
  have hlen3 := congrArg List.length hbytes
  simp only [List.length_append, hH, hs1] at hlen3
  have hlen2 := export_length hc s hg wf r
  have hlen4 := congrArg List.length (exportSb_bytes c s r hg.hl)
  simp only [List.length_append, hH, hs2] at hlen4
  rw [hhdr] at hlen1 htot
  omega

theorem good_withCert {c : CryptoOps} {s : ObjState} (hg : Good c s) (cert : Bytes) : Good c (withCert s cert) :=
  ⟨hg.hl, hg.keyLen, hg.rights, hg.kdk⟩

end SpsdkVerif.Sb31
