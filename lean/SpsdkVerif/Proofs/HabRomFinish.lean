/- C07 helper lemmas, part 13: block lists as the ROM-side reader sees them (offsets, disjointness, covering, every
   non-zero byte covered). -/
import SpsdkVerif.Proofs.HabRomBase
import SpsdkVerif.Proofs.HabRomRefs
import SpsdkVerif.Proofs.HabLayout
import SpsdkVerif.Proofs.HabSign

namespace SpsdkVerif.Hab
open SpsdkVerif SpsdkVerif.Misc SpsdkVerif.Generated
open SpsdkVerif.Spec
open SpsdkVerif.Spec.HabRom (bindE chk sub rdN u8at u16be u32be u32le RCmd Walk View)

/-- blocks as image offsets (what the reader derives from the addresses) -/
def offs (ivtOff : Nat) (bl : List Block) : List (Nat × Nat) := bl.map (fun b => (b.start - ivtOff, b.size))

theorem toOffsets_blocks (start ivtOff csfOff : Nat) (bl : List Block)
    (h : ∀ b ∈ bl, b.base = start + b.start ∧ ivtOff ≤ b.start ∧ b.start + b.size ≤ ivtOff + csfOff) :
    HabRom.toOffsets (start + ivtOff) (start + ivtOff + csfOff) (blockPairs bl) = .ok (offs ivtOff bl) := by
  induction bl with
  | nil => rfl
  | cons b r ih =>
    obtain ⟨h1, h2, h3⟩ := h b (by simp)
    have ih' := ih (fun x hx => h x (by simp [hx]))
    simp only [blockPairs, List.map_cons, HabRom.toOffsets, offs] at ih' ⊢
    rw [chk_of _ _ _ (by simp; omega), ih', bindE_ok, h1]
    congr 3
    omega

theorem gather_offs (ivtOff : Nat) (img : Bytes) (bl : List Block) (h : ∀ b ∈ bl, ivtOff ≤ b.start) :
    HabRom.gather img (offs ivtOff bl) = blocksData (zeros ivtOff ++ img) bl := by
  induction bl with
  | nil => rfl
  | cons b r ih =>
    have hb := h b (by simp)
    simp only [offs, List.map_cons, HabRom.gather, blocksData] at ih ⊢
    rw [ih (fun x hx => h x (by simp [hx])), sub_eq_slice, slice_append_right _ _ _ _ (by simp; exact hb)]
    simp

theorem disjoint_offs (ivtOff : Nat) (bl : List Block) (hin : ∀ b ∈ bl, ivtOff ≤ b.start)
    (h : bl.Pairwise (fun a b => a.start + a.size ≤ b.start)) : HabRom.disjoint (offs ivtOff bl) = true := by
  apply disjoint_of_sym
  unfold offs
  rw [List.pairwise_map]
  refine List.Pairwise.imp_of_mem ?_ h
  intro a b ha hb hab
  have := hin a ha; have := hin b hb
  simp only
  omega

theorem covered_offs (ivtOff : Nat) (bl : List Block) (off len : Nat) (hin : ∀ b ∈ bl, ivtOff ≤ b.start)
    (h : ∃ b ∈ bl, b.covers (ivtOff + off) len) : HabRom.covered (offs ivtOff bl) off len = true := by
  obtain ⟨b, hb, h1, h2⟩ := h
  have := hin b hb
  simp only [HabRom.covered, Bool.or_eq_true, List.any_eq_true]
  right
  refine ⟨(b.start - ivtOff, b.size), by unfold offs; exact List.mem_map.2 ⟨b, hb, rfl⟩, ?_⟩
  simp; omega

theorem inBlocks_offs (ivtOff : Nat) (bl : List Block) (off len p : Nat) (hin : ∀ b ∈ bl, ivtOff ≤ b.start)
    (h : ∃ b ∈ bl, b.covers (ivtOff + off) len) (hp : off ≤ p ∧ p < off + len) :
    HabRom.inBlocks (offs ivtOff bl) p = true := by
  obtain ⟨b, hb, h1, h2⟩ := h
  have := hin b hb
  simp only [HabRom.inBlocks, List.any_eq_true]
  refine ⟨(b.start - ivtOff, b.size), by unfold offs; exact List.mem_map.2 ⟨b, hb, rfl⟩, ?_⟩
  simp; omega

/-! ### every non-zero byte covered -/
theorem nzCov_append (bl : List (Nat × Nat)) (stop i : Nat) (a b : Bytes) :
    HabRom.nzCov bl stop i (a ++ b) = (HabRom.nzCov bl stop i a && HabRom.nzCov bl stop (i + a.length) b) := by
  induction a generalizing i with
  | nil => simp [HabRom.nzCov]
  | cons x r ih =>
    simp only [List.cons_append, HabRom.nzCov, ih, List.length_cons]
    have : i + 1 + r.length = i + (r.length + 1) := by omega
    rw [this, Bool.and_assoc]

theorem nzCov_zeros (bl : List (Nat × Nat)) (stop i n : Nat) : HabRom.nzCov bl stop i (zeros n) = true := by
  induction n generalizing i with
  | zero => rfl
  | succ n ih =>
    rw [show zeros (n + 1) = 0 :: zeros n by simp [zeros, List.replicate_succ]]
    simp [HabRom.nzCov, ih]

theorem nzCov_in (bl : List (Nat × Nat)) (stop i : Nat) (a : Bytes)
    (h : ∀ k, k < a.length → HabRom.inBlocks bl (i + k) = true) : HabRom.nzCov bl stop i a = true := by
  induction a generalizing i with
  | nil => rfl
  | cons x r ih =>
    have h0 := h 0 (by simp)
    simp only [Nat.add_zero] at h0
    simp only [HabRom.nzCov, h0, Bool.or_true, Bool.true_and]
    apply ih
    intro k hk
    have := h (k + 1) (by simp; omega)
    rwa [show i + (k + 1) = i + 1 + k by omega] at this

theorem nzCov_beyond (bl : List (Nat × Nat)) (stop i : Nat) (a : Bytes) (h : stop ≤ i) :
    HabRom.nzCov bl stop i a = true := by
  induction a generalizing i with
  | nil => rfl
  | cons x r ih =>
    simp only [HabRom.nzCov, decide_eq_true h, Bool.true_or, Bool.true_and]
    exact ih (i + 1) (by omega)

/-- the exported image of a container with a CSF: every non-zero byte in front of the CSF is in a block -/
theorem nzCov_export (c : Cfg) (b : Built) (h : c.WF) (ha : c.flags ≠ 0) (happ : b.app.length = c.appBin.length) :
    HabRom.nzCov (offs c.ivtOff c.allBlocks) c.csfOff 0 (exportImage c b) = true := by
  obtain ⟨hin, _, hc0, hcd, hcx, hca⟩ := blocks_cover_lemma c h ha
  have hin' : ∀ b ∈ c.allBlocks, c.ivtOff ≤ b.start := fun b hb => (hin b hb).2.1
  have hcsf : c.hasCsf = true := by rw [h.csf]; simpa using ha
  have hbefore := app_before_csf c h
  have hnf := image_nf c h b.app (some (csfBytes c.version b.cmds)) (fun _ => by rw [happ]; exact hbefore)
  have himg : exportImage c b = image c b.app (some (csfBytes c.version b.cmds)) := by
    unfold exportImage; rw [hcsf]; rfl
  have hpl := pre_length c h
  have h3le := st3_le c h
  rw [himg, hnf, nzCov_append, nzCov_append]
  simp only [Bool.and_eq_true]
  refine ⟨⟨?_, ?_⟩, ?_⟩
  · -- front part: stages then zero fill
    unfold pre
    rw [nzCov_append, nzCov_zeros, Bool.and_true]
    apply nzCov_in
    intro k hk
    rw [Nat.zero_add]
    rw [st3_length c h] at hk
    cases hdd : c.dcd with
    | some d =>
      rw [hdd] at hk; simp only [] at hk
      by_cases h64 : k < 64
      · exact inBlocks_offs _ _ 0 64 k hin' (by simpa using hc0) ⟨by omega, by omega⟩
      · exact inBlocks_offs _ _ 64 d.length k hin' (hcd d hdd) ⟨by omega, by omega⟩
    | none =>
      rw [hdd] at hk
      cases hxx : c.xmcd with
      | some x =>
        rw [hxx] at hk; simp only [] at hk
        by_cases h64 : k < 64
        · exact inBlocks_offs _ _ 0 64 k hin' (by simpa using hc0) ⟨by omega, by omega⟩
        · exact inBlocks_offs _ _ 64 x.length k hin' (hcx x hxx) ⟨by omega, by omega⟩
      | none =>
        rw [hxx] at hk; simp only [] at hk
        exact inBlocks_offs _ _ 0 64 k hin' (by simpa using hc0) ⟨by omega, by omega⟩
  · -- application
    apply nzCov_in
    intro k hk
    rw [Nat.zero_add, hpl]
    exact inBlocks_offs _ _ c.appOff c.appBin.length _ hin' hca ⟨by omega, by omega⟩
  · -- gap and CSF
    simp only [tailOf]
    rw [nzCov_append, nzCov_zeros, Bool.true_and]
    apply nzCov_beyond
    simp [hpl]
    rw [happ]; omega

end SpsdkVerif.Hab
