/- Round-trip lemmas for the parser model (Model/AhabParse.lean) against the exporter model (Model/Ahab.lean). -/
import SpsdkVerif.Model.AhabParse
import SpsdkVerif.Proofs.AhabRom

namespace SpsdkVerif.Ahab
open SpsdkVerif SpsdkVerif.Misc
open SpsdkVerif.Generated
open SpsdkVerif.Spec.AhabRom (slice rd)

theorem drop_of_slice (s d : Bytes) (off : Nat) (h : slice s off d.length = d) (hl : off + d.length ≤ s.length) :
    s.drop off = d ++ s.drop (off + d.length) := by
  unfold slice at h
  have := List.take_append_drop d.length (s.drop off)
  rw [h, List.drop_drop] at this
  exact this.symm

theorem drop_append_of_slice (s rest d : Bytes) (off : Nat) (h : slice s off d.length = d) (hl : off + d.length ≤ s.length) :
    (s ++ rest).drop off = d ++ (s.drop (off + d.length) ++ rest) := by
  rw [List.drop_append_of_le_length (by omega), drop_of_slice s d off h hl, List.append_assoc]

/-! ### signature container, blob, raw blocks -/

theorem signature_roundtrip (s sg rest : Bytes) (hne : s ≠ []) (h : encodeSignature s = .ok sg) :
    parseSignature (sg ++ rest) = some s := by
  unfold encodeSignature at h
  have hE : s.isEmpty = false := by cases s <;> simp_all
  rw [hE] at h
  simp only [Bool.false_eq_true, if_false] at h
  cases hp : packChecked AhabConsts.signatureLayout.intWidths
      [AhabConsts.signatureVersion, AhabConsts.signatureLayout.size + s.length, AhabConsts.signatureTag, AhabConsts.reserved] with
  | error e => rw [hp] at h; cases h
  | ok hb =>
    rw [hp] at h; cases h
    obtain ⟨hf, rfl⟩ := packChecked_ok hp
    have hu := unpack_pack _ _ (s ++ rest) hf
    have hpl := packInts_length _ _ hf
    generalize packInts AhabConsts.signatureLayout.intWidths
      [AhabConsts.signatureVersion, AhabConsts.signatureLayout.size + s.length, AhabConsts.signatureTag, AhabConsts.reserved] = P at hu hpl ⊢
    have hpl8 : P.length = 8 := hpl
    have hsz : AhabConsts.signatureLayout.size = 8 := rfl
    unfold parseSignature
    simp only [List.append_assoc]
    have h1 : ¬ ((P ++ (s ++ rest)).length < AhabConsts.signatureLayout.size) := by
      rw [List.length_append, hpl8, hsz]; omega
    rw [if_neg h1, hu]
    simp only
    have h2 : ¬ (AhabConsts.signatureTag ≠ AhabConsts.signatureTag ∨ AhabConsts.signatureVersion ≠ AhabConsts.signatureVersion ∨
        (P ++ (s ++ rest)).length < AhabConsts.signatureLayout.size + s.length) := by
      simp only [List.length_append, hpl8, hsz]
      intro hc; rcases hc with hc | hc | hc
      · exact hc rfl
      · exact hc rfl
      · omega
    rw [if_neg h2, hsz]
    congr 1
    rw [← List.append_assoc, List.take_append_of_le_length (by simp [hpl8]), List.take_of_length_le (by simp [hpl8]),
        List.drop_append_of_le_length (by omega), List.drop_of_length_le (by omega)]
    simp

structure BlobParseWF (b : Blob) : Prop where
  size : b.size % 8 = 0
  len : b.length = 8 + b.keyblob.length

theorem blob_roundtrip (b : Blob) (bl rest : Bytes) (kid : Nat) (hwf : BlobParseWF b) (h : encodeBlob b = .ok bl) :
    parseBlob (bl ++ rest) kid = some { b with keyIdentifier := kid } := by
  unfold encodeBlob at h
  cases hp : packChecked AhabConsts.blobLayout.intWidths
      [AhabConsts.blobVersion, b.length, AhabConsts.blobTag, b.flags, b.size / 8, b.algorithm, b.mode] with
  | error e => rw [hp] at h; cases h
  | ok hb =>
    rw [hp] at h; cases h
    obtain ⟨hf, rfl⟩ := packChecked_ok hp
    have hu := unpack_pack _ _ (b.keyblob ++ rest) hf
    have hpl := packInts_length _ _ hf
    generalize packInts AhabConsts.blobLayout.intWidths
      [AhabConsts.blobVersion, b.length, AhabConsts.blobTag, b.flags, b.size / 8, b.algorithm, b.mode] = P at hu hpl ⊢
    have hpl8 : P.length = 8 := hpl
    have hsz : AhabConsts.blobLayout.size = 8 := rfl
    unfold parseBlob
    simp only [List.append_assoc]
    have h1 : ¬ ((P ++ (b.keyblob ++ rest)).length < AhabConsts.blobLayout.size) := by
      rw [List.length_append, hpl8, hsz]; omega
    rw [if_neg h1, hu]
    simp only
    have h2 : ¬ (AhabConsts.blobTag ≠ AhabConsts.blobTag ∨ AhabConsts.blobVersion ≠ AhabConsts.blobVersion ∨
        (P ++ (b.keyblob ++ rest)).length < b.length) := by
      simp only [List.length_append, hpl8, hwf.len]
      intro hc; rcases hc with hc | hc | hc
      · exact hc rfl
      · exact hc rfl
      · omega
    rw [if_neg h2, hsz]
    have hk : ((P ++ (b.keyblob ++ rest)).take b.length).drop 8 = b.keyblob := by
      rw [hwf.len, ← List.append_assoc, List.take_append_of_le_length (by simp [hpl8]), List.take_of_length_le (by simp [hpl8]),
        List.drop_append_of_le_length (by omega), List.drop_of_length_le (by omega)]
      simp
    rw [hk]
    have hs8 : b.size / 8 * 8 = b.size := by have := hwf.size; omega
    rw [hs8]

/-- an opaque block whose own header (version, 16-bit length, tag) describes it -/
def RawBlockOK (tag : Nat) (raw : Bytes) : Prop :=
  4 ≤ raw.length ∧ ∃ ver, unpackInts [1, 2, 1] raw = some [ver, raw.length, tag]

theorem unpackInts_append (ws : List Nat) : ∀ (b rest : Bytes) (vs : List Nat), unpackInts ws b = some vs →
    unpackInts ws (b ++ rest) = some vs := by
  induction ws with
  | nil => intro b rest vs h; simpa [unpackInts] using h
  | cons w ws ih =>
    intro b rest vs h
    simp only [unpackInts] at h ⊢
    by_cases hl : b.length < w
    · simp [hl] at h
    · rw [if_neg hl] at h
      have hl' : ¬ ((b ++ rest).length < w) := by simp; omega
      rw [if_neg hl']
      cases hu : unpackInts ws (b.drop w) with
      | none => rw [hu] at h; cases h
      | some vs' =>
        rw [hu] at h
        rw [List.drop_append_of_le_length (by omega), ih _ rest vs' hu, List.take_append_of_le_length (by omega)]
        exact h

theorem rawBlock_roundtrip (tag : Nat) (raw rest : Bytes) (h : RawBlockOK tag raw) :
    parseRawBlock tag (raw ++ rest) = some raw := by
  obtain ⟨h4, ver, hu⟩ := h
  unfold parseRawBlock
  have h1 : ¬ ((raw ++ rest).length < 4) := by simp; omega
  rw [if_neg h1, unpackInts_append _ _ rest _ hu]
  simp only
  have h2 : ¬ (tag ≠ tag ∨ (raw ++ rest).length < raw.length) := by
    intro hc; rcases hc with hc | hc
    · exact hc rfl
    · simp at hc; omega
  rw [if_neg h2, List.take_append_of_le_length (Nat.le_refl _), List.take_of_length_le (Nat.le_refl _)]


/-- the version-2 SRK table array the model exports is delimited by its own header: the hypothesis `RawBlockOK` of the
    round-trip theorems holds for it -/
theorem srkArray_raw_ok (c : Crypto.CryptoOps) (used : Nat) (srks : List SrkV2) (b : Bytes)
    (h : encodeSrkArray c used srks = .ok b) : RawBlockOK AhabConsts.srkTableArrayTag b := by
  unfold encodeSrkArray at h
  cases h1 : srkRecordsOfV2 c 0 srks with
  | error e => rw [h1] at h; cases h
  | ok recs =>
    rw [h1] at h; simp only at h
    cases h2 : encodeSrkTableV2 recs with
    | error e => rw [h2] at h; simp at h
    | ok t =>
      cases h3 : usedSrkData used srks with
      | error e => rw [h2, h3] at h; simp at h
      | ok d =>
        rw [h2, h3] at h; simp only at h
        cases hp : packChecked AhabConsts.srkTableArrayLayout.intWidths
            [AhabConsts.srkTableArrayVersion, AhabConsts.srkTableArrayLayout.size + t.length + d.length, AhabConsts.srkTableArrayTag, 1,
             AhabConsts.reserved, AhabConsts.reserved] with
        | error e => rw [hp] at h; cases h
        | ok hb =>
          rw [hp] at h; cases h
          obtain ⟨hf, rfl⟩ := packChecked_ok hp
          have hw : AhabConsts.srkTableArrayLayout.intWidths = [1, 2, 1, 1, 2, 1] := rfl
          have hsz : AhabConsts.srkTableArrayLayout.size = 8 := rfl
          rw [hw] at hf ⊢
          have hsplit : packInts [1, 2, 1, 1, 2, 1]
              [AhabConsts.srkTableArrayVersion, AhabConsts.srkTableArrayLayout.size + t.length + d.length, AhabConsts.srkTableArrayTag, 1,
               AhabConsts.reserved, AhabConsts.reserved] =
              packInts [1, 2, 1] [AhabConsts.srkTableArrayVersion, AhabConsts.srkTableArrayLayout.size + t.length + d.length, AhabConsts.srkTableArrayTag]
                ++ packInts [1, 2, 1] [1, AhabConsts.reserved, AhabConsts.reserved] := by
            simp [packInts, List.append_assoc]
          have hf1 : fits [1, 2, 1] [AhabConsts.srkTableArrayVersion, AhabConsts.srkTableArrayLayout.size + t.length + d.length, AhabConsts.srkTableArrayTag] = true := by
            simp only [fits, Bool.and_eq_true, decide_eq_true_eq] at hf ⊢
            exact ⟨hf.1, hf.2.1, hf.2.2.1, trivial⟩
          have hlen : (packInts [1, 2, 1, 1, 2, 1]
              [AhabConsts.srkTableArrayVersion, AhabConsts.srkTableArrayLayout.size + t.length + d.length, AhabConsts.srkTableArrayTag, 1,
               AhabConsts.reserved, AhabConsts.reserved] ++ t ++ d).length = AhabConsts.srkTableArrayLayout.size + t.length + d.length := by
            simp only [List.length_append, packInts_length _ _ hf, hsz]; rfl
          refine ⟨by rw [hlen, hsz]; omega, AhabConsts.srkTableArrayVersion, ?_⟩
          rw [hlen, hsplit, List.append_assoc, List.append_assoc]
          exact unpack_pack [1, 2, 1] _ _ hf1

/-! ### signature block -/

/-- what the parser needs to find the parts of an exported signature block again -/
structure SbParseWF (v : Ver) (sb : SigBlock) : Prop where
  blobLen : BlobLenOK sb
  blob : ∀ b, sb.blob = some b → BlobParseWF b
  sig2 : sb.signature2 = []
  srk : sb.srk = [] ∨ (match v with
    | .v1 => ∃ t, SrkTableWF t ∧ encodeSrkTable t = .ok sb.srk
    | .v2 => RawBlockOK AhabConsts.srkTableArrayTag sb.srk)
  cert : sb.cert = [] ∨ RawBlockOK AhabConsts.certificateTag sb.cert

def psrkOf (v : Ver) (sb : SigBlock) : PSrk :=
  if sb.srk = [] then .none else
  match v with
  | .v1 => match decodeSrkTable sb.srk with | some t => .table t | none => .none
  | .v2 => .raw sb.srk

def expectedSb (v : Ver) (sb : SigBlock) : PSigBlock :=
  let o := sbLayout v sb
  ⟨o.length, o.srkOff, o.sigOff, o.certOff, o.blobOff, psrkOf v sb,
   if sb.signature = [] then none else some sb.signature, if sb.cert = [] then none else some sb.cert, sb.blob⟩

theorem sigblock_roundtrip (v : Ver) (sb : SigBlock) (s rest : Bytes) (hwf : SbParseWF v sb)
    (h : encodeSigBlock v sb (sbLayout v sb) = .ok s) : parseSigBlock v (s ++ rest) = some (expectedSb v sb) := by
  obtain ⟨hdr, sg, sg2, bl, hh, hsg, _, hbl, hlen, c0, cS, cG, _, cC, cB⟩ := sigblock_content v sb s hwf.blobLen h
  have L := sigblock_layout v sb
  simp only at L
  obtain ⟨z1, z2, z3, z4, p1, p2, p3, p4, h16, _⟩ := L
  have hge := sigSize_ge v sb
  have hsgl := encodeSignature_length hsg
  have hhl := sbHeader_length hh
  unfold expectedSb
  generalize ho : sbLayout v sb = o at *
  -- header
  unfold sbHeader at hh
  obtain ⟨hf, rfl⟩ := packChecked_ok hh
  have hs0 : s = packInts (v.sbLayout).intWidths
      [v.sigBlockVersion, o.length, AhabConsts.sigBlockTag, o.certOff, o.srkOff, o.sigOff, o.blobOff, sb.keyId] ++ s.drop 16 := by
    have := drop_of_slice s _ 0 (by rw [hhl]; exact c0) (by rw [hhl]; omega)
    rw [hhl] at this
    simpa using this
  have hu := unpack_pack _ _ (s.drop 16 ++ rest) hf
  rw [← List.append_assoc, ← hs0] at hu
  unfold parseSigBlock
  have h1 : ¬ ((s ++ rest).length < (v.sbLayout).size) := by
    rw [sbLayout_fixed, List.length_append, hlen]; omega
  rw [if_neg h1, hu]
  simp only
  have h2 : ¬ (AhabConsts.sigBlockTag ≠ AhabConsts.sigBlockTag ∨ v.sigBlockVersion ≠ v.sigBlockVersion ∨ (s ++ rest).length < o.length) := by
    rw [List.length_append, hlen]
    intro hc; rcases hc with hc | hc | hc
    · exact hc rfl
    · exact hc rfl
    · omega
  rw [if_neg h2]
  -- SRK
  have eSrk : (if o.srkOff = 0 then some PSrk.none
      else parseSrkPart v ((s ++ rest).drop o.srkOff)) = some (psrkOf v sb) := by
    unfold psrkOf parseSrkPart
    by_cases hs : sb.srk = []
    · rw [if_pos (z1 (by rw [hs]; rfl)), if_pos hs]
    · have hl0 : sb.srk.length ≠ 0 := fun h => hs (List.eq_nil_of_length_eq_zero h)
      have q := p1 hl0
      rw [if_neg (by omega), if_neg hs, drop_append_of_slice s rest sb.srk o.srkOff (cS hs) (by omega)]
      rcases hwf.srk with h0 | h0
      · exact absurd h0 hs
      · cases v
        · simp only at h0 ⊢
          obtain ⟨t, ht, het⟩ := h0
          rw [srkTable_roundtrip' t sb.srk _ ht het]
          have := srkTable_roundtrip' t sb.srk [] ht het
          rw [List.append_nil] at this
          rw [this]; rfl
        · simp only at h0 ⊢
          rw [rawBlock_roundtrip _ sb.srk _ h0]; rfl
  -- certificate
  have eCert : (if o.certOff = 0 then some none
      else (parseRawBlock AhabConsts.certificateTag ((s ++ rest).drop o.certOff)).map some) =
      some (if sb.cert = [] then none else some sb.cert) := by
    by_cases hs : sb.cert = []
    · rw [if_pos (z3 (by rw [hs]; rfl)), if_pos hs]
    · have hl0 : sb.cert.length ≠ 0 := fun h => hs (List.eq_nil_of_length_eq_zero h)
      have q := p3 hl0
      rw [if_neg (by omega), if_neg hs, drop_append_of_slice s rest sb.cert o.certOff (cC hs) (by omega)]
      rcases hwf.cert with h0 | h0
      · exact absurd h0 hs
      · rw [rawBlock_roundtrip _ sb.cert _ h0]; rfl
  -- signature
  have sgE : sg = [] ↔ sb.signature = [] := by
    constructor
    · intro h0
      have : signatureLen sb.signature = 0 := by rw [← hsgl, h0]; rfl
      unfold signatureLen at this
      split at this
      · rename_i he; exact List.isEmpty_iff.1 he
      · have : AhabConsts.signatureLayout.size = 8 := rfl
        omega
    · intro h0
      exact List.eq_nil_of_length_eq_zero (by rw [hsgl, h0]; rfl)
  have eSig : (if o.sigOff = 0 then some none else (parseSignature ((s ++ rest).drop o.sigOff)).map some) =
      some (if sb.signature = [] then none else some sb.signature) := by
    by_cases hs : sb.signature = []
    · have hz : sb.sigSize v = 0 := by
        unfold SigBlock.sigSize
        cases v <;> simp [signatureLen, hs]
      rw [if_pos (z2 hz), if_pos hs]
    · have hsgne : sg ≠ [] := fun h => hs (sgE.1 h)
      have hpos : 0 < sg.length := List.length_pos_iff.2 hsgne
      have hs2 : sb.sigSize v ≠ 0 := by have := hge.1; omega
      have q := p2 hs2
      rw [if_neg (by omega), if_neg hs, drop_append_of_slice s rest sg o.sigOff (cG hsgne) (by have := hge.1; omega),
        signature_roundtrip sb.signature sg _ hs hsg]
      rfl
  -- blob
  have eBlob : (if o.blobOff = 0 then some none else (parseBlob ((s ++ rest).drop o.blobOff) sb.keyId).map some) = some sb.blob := by
    cases hbs : sb.blob with
    | none =>
      rw [if_pos (z4 (by simp [SigBlock.blobLen, hbs]))]
    | some b =>
      have hbL := hwf.blobLen b hbs
      have hs4 : sb.blobLen = b.length := by simp [SigBlock.blobLen, hbs]
      have q := p4 (by omega)
      have hble : encodeBlob b = .ok bl := by unfold encodeBlobOpt at hbl; rw [hbs] at hbl; exact hbl
      have hbll := encodeBlob_length hble
      rw [if_neg (by omega), drop_append_of_slice s rest bl o.blobOff (cB b hbs) (by rw [hs4] at q; omega),
        blob_roundtrip b bl _ sb.keyId (hwf.blob b hbs) hble]
      have : sb.keyId = b.keyIdentifier := by simp [SigBlock.keyId, hbs]
      rw [this]
      cases b; rfl
  rw [eSrk, eCert, eSig, eBlob]


/-! ### container -/

def expectedHeader (v : Ver) (c : Container) (n : Nat) : Header :=
  ⟨v.containerVersion, headerLength v n (sbLayout v c.sb).length, AhabConsts.containerTag, c.flags, c.swVersion, c.fuseVersion, n,
   sigBlockOffset v n⟩

theorem container_parse_roundtrip (v : Ver) (c : Container) (iaes : List Iae) (cb rest : Bytes) (hwf : SbParseWF v c.sb)
    (hi : ∀ e ∈ iaes, IaeWF e) (h : exportContainerWith v c iaes = .ok cb) :
    parseContainer v (cb ++ rest) =
      some ⟨expectedHeader v c iaes.length, iaes, iaes.map (imageBytes (cb ++ rest)), expectedSb v c.sb⟩ := by
  obtain ⟨hd, ab, s, hdr, e1, e2, e3, _, e5, e6, e7, _⟩ := exportContainer_spec v c iaes cb hwf.blobLen h
  have hdl := encodeHeader_length v _ _ _ _ _ _ hd e1
  have hal := encodeIaes_length v.iaeLayout (iaeLayout_facts v).1 (iaeLayout_facts v).2.1 iaes ab e2
  have hsbo := sbo_exact v iaes.length
  have hpad : zerosB (sigBlockOffset v iaes.length - (hd ++ ab).length) = [] := by
    have : sigBlockOffset v iaes.length - (hd ++ ab).length = 0 := by rw [List.length_append, hdl, hal, hsbo]; omega
    rw [this]; rfl
  rw [hpad, List.append_nil] at e5 e6
  subst e5
  unfold parseContainer
  have hH := header_roundtrip' v _ c.flags c.swVersion c.fuseVersion iaes.length (sigBlockOffset v iaes.length) hd (ab ++ s ++ rest) e1 (by
    simp only [List.length_append, hdl, hal]
    unfold headerLength
    rw [(hdrLayout_widths v).2, (iaeLayout_facts v).2.2]
    have : s.length = (sbLayout v c.sb).length := by
      have := e7; simp only [List.length_append, hdl, hal] at this; rw [hsbo] at this; omega
    omega)
  have eq1 : hd ++ ab ++ s ++ rest = hd ++ (ab ++ s ++ rest) := by simp [List.append_assoc]
  rw [eq1, hH]
  simp only
  have hI := iaes_roundtrip' v.iaeLayout (iaeLayout_facts v).1 (iaeLayout_facts v).2.1 (iaeLayout_facts v).2.2 iaes ab hd (s ++ rest) hi e2
  rw [hdl] at hI
  have eq2 : hd ++ (ab ++ s ++ rest) = hd ++ ab ++ (s ++ rest) := by simp [List.append_assoc]
  have hdrop : (hd ++ (ab ++ s ++ rest)).drop (sigBlockOffset v iaes.length) = s ++ rest := by
    rw [eq2, List.drop_append_of_le_length (by rw [e6]; exact Nat.le_refl _), List.drop_of_length_le (by rw [e6]; exact Nat.le_refl _)]
    rfl
  rw [hdrop, sigblock_roundtrip v c.sb s rest hwf e3, (hdrLayout_widths v).2]
  rw [eq2, hI]
  rfl


/-! ### whole file -/

def expectedP (v : Ver) (u : UContainer) : PContainer :=
  ⟨expectedHeader v u.cont u.placed.length, u.placed.map (·.iae), u.placed.map (fun p => extendTo p.ready.size p.ready.image),
   expectedSb v u.cont.sb⟩

theorem parseContainer_header {v : Ver} {d : Bytes} {c : PContainer} (h : parseContainer v d = some c) :
    ∃ hd, decodeHeader v d = some hd := by
  unfold parseContainer at h
  cases hh : decodeHeader v d with
  | none => rw [hh] at h; cases h
  | some hd => exact ⟨hd, rfl⟩

theorem parseSlots_spec (v : Ver) (bin : Bytes) : ∀ (us : List UContainer) (fuel k : Nat), us.length ≤ fuel →
    (∀ j u, us[j]? = some u → parseContainer v (bin.drop ((k + j) * v.containerSize)) = some (expectedP v u)) →
    (∀ m, k + us.length ≤ m → m < k + fuel → decodeHeader v (bin.drop (m * v.containerSize)) = none) →
    parseSlots v bin fuel k = some (us.map (expectedP v))
  | us, 0, k, hl, _, _ => by
    have : us = [] := List.eq_nil_of_length_eq_zero (by omega)
    subst this; rfl
  | [], fuel + 1, k, _, hs, hn => by
    unfold parseSlots
    simp only
    rw [hn k (by simp) (by omega)]
    have := parseSlots_spec v bin [] fuel (k + 1) (by simp) (fun j u h => by simp at h)
      (fun m h1 h2 => hn m (by simp at h1 ⊢; omega) (by omega))
    simpa using this
  | u :: us, fuel + 1, k, hl, hs, hn => by
    unfold parseSlots
    simp only
    have h0 := hs 0 u (by simp)
    rw [Nat.add_zero] at h0
    obtain ⟨hd, hhd⟩ := parseContainer_header h0
    rw [hhd]
    simp only
    have ih := parseSlots_spec v bin us fuel (k + 1) (by simp at hl; omega)
      (fun j u' h => by
        have := hs (j + 1) u' (by simpa using h)
        rw [show k + (j + 1) = k + 1 + j from by omega] at this
        exact this)
      (fun m h1 h2 => hn m (by simp at h1 ⊢; omega) (by omega))
    rw [h0, ih]
    rfl

/-- `image_roundtrip`: parsing the exported file gives back, slot by slot, exactly what was exported: header fields, every
    image-array entry, the bytes of every image (zero-extended to its size), the signature block with its offsets, SRK table,
    signature, certificate and blob -/
theorem image_roundtrip' (c : Crypto.CryptoOps) (hc : Crypto.CryptoLaws c) (img : Image) (bin : Bytes) (maxC : Nat)
    (hexp : img.export c = .ok bin) (hA : 0 < img.chip.imageAlignment)
    (us : List UContainer) (hus : img.update c = .ok us) (hne : us ≠ [])
    (hwf : ∀ u ∈ us, SbParseWF img.ver u.cont.sb) (hmax : us.length ≤ maxC)
    (hphantom : ∀ m, us.length ≤ m → m < maxC → decodeHeader img.ver (bin.drop (m * img.ver.containerSize)) = none) :
    parseFile img.ver maxC bin = some (us.map (expectedP img.ver)) := by
  obtain ⟨us', cbytes, hus', hoff, hall, hval, hbin⟩ := Image.export_unfold c img bin hexp
  rw [hus] at hus'; cases hus'
  have hplaces := tree_places img.chip img.ver us cbytes bin hA hval hbin
  have hslots := parseSlots_spec img.ver bin us maxC 0 hmax
    (fun j u hj => by
      rw [Nat.zero_add]
      have hu : u ∈ us := List.mem_of_getElem? hj
      obtain ⟨cb, hcbe, hbase, _, hsl⟩ := export_containers_fixed' c img bin hexp hA us hus j u hj (hwf u hu).blobLen
      have hcbe' := hcbe
      unfold UContainer.export at hcbe'
      obtain ⟨_, _, _, _, _, _, _, _, _, _, e7, _⟩ := exportContainer_spec img.ver u.cont _ cb (hwf u hu).blobLen hcbe'
      have hcbne : cb ≠ [] := by
        intro h; rw [h] at e7
        have h1 := sbo_exact img.ver (u.placed.map (·.iae)).length
        rw [h1] at e7
        simp only [List.length_nil] at e7
        omega
      have hlen : j * img.ver.containerSize + cb.length ≤ bin.length := by
        have hl := congrArg List.length hsl
        simp only [slice, List.length_take, List.length_drop] at hl
        have : 0 < cb.length := List.length_pos_iff.2 hcbne
        omega
      have hdrop := drop_of_slice bin cb (j * img.ver.containerSize) hsl hlen
      rw [hdrop]
      have hiwf : ∀ e ∈ u.placed.map (·.iae), IaeWF e := by
        intro e he
        obtain ⟨p, hp, rfl⟩ := List.mem_map.1 he
        have hent := updateContainers_entries c img.chip img.ver img.containers 0 _ us hus u hu p hp
        obtain ⟨a, _, _, hhl, hivl, _, _⟩ := readyEntry_spec c hc img.chip img.ver _ p.entry p.ready hent.1
        rw [hent.2]; exact ⟨hhl, hivl⟩
      rw [container_parse_roundtrip img.ver u.cont _ cb _ (hwf u hu) hiwf hcbe']
      unfold expectedP
      simp only [List.length_map, List.map_map]
      congr 2
      apply List.map_congr_left
      intro p hp
      have hent := updateContainers_entries c img.chip img.ver img.containers 0 _ us hus u hu p hp
      obtain ⟨a, _, _, _, _, hsize, _⟩ := readyEntry_spec c hc img.chip img.ver _ p.entry p.ready hent.1
      have hvs := validSize_ge img.chip img.ver p.entry.flags p.entry.sizeAlign p.ready.image
      rw [← hsize] at hvs
      have hdata := hplaces.2 p (List.mem_flatMap.2 ⟨u, hu, hp⟩) hvs.1 hvs.2
      have hb : u.base ≤ p.offset := by
        unfold offsetsOk at hoff
        have := (List.all_eq_true.1 hoff) u hu
        have := (List.all_eq_true.1 this) p hp
        simpa using this
      simp only [Function.comp, imageBytes]
      rw [← hdrop, List.drop_drop, hent.2]
      simp only [mkIae]
      rw [← hbase, show u.base + (p.offset - u.base) = p.offset from by omega]
      exact hdata)
    (fun m h1 h2 => hphantom m (by omega) (by omega))
  unfold parseFile
  rw [hslots]
  cases hu : us with
  | nil => exact absurd hu hne
  | cons a l => rfl

end SpsdkVerif.Ahab
