/-
Helper lemmas for the HEX / S-record clause of C16 (Model/HexFmt.lean): hex text, record round trips, line
splitting, the reader's `Segments.add` on ascending input, chunking / normalisation, the whole-file round
trips (also through the format sniffing of `load_binary_image`), and checksum detection of a changed byte.
Core Lean only.
-/
import SpsdkVerif.Model.HexFmt
namespace SpsdkVerif.HexFmt

theorem hexVal_hexDigit (n : Nat) (h : n < 16) : hexVal (hexDigit n) = some n := by
  have : ∀ k : Fin 16, hexVal (hexDigit k.val) = some k.val := by decide
  exact this ⟨n, h⟩

theorem hexDigit_not_space (n : Nat) (h : n < 16) : isSpace (hexDigit n) = false ∧ (hexDigit n).toNat < 128 := by
  have : ∀ k : Fin 16, isSpace (hexDigit k.val) = false ∧ (hexDigit k.val).toNat < 128 := by decide
  exact this ⟨n, h⟩

theorem byte_recompose (b : UInt8) : UInt8.ofNat (b.toNat / 16 * 16 + b.toNat % 16) = b := by
  have : b.toNat / 16 * 16 + b.toNat % 16 = b.toNat := by omega
  rw [this]; exact UInt8.ofNat_toNat

theorem unhex_hexBytes (v : Bytes) : unhex (hexBytes v) = some v := by
  induction v with
  | nil => rfl
  | cons b bs ih =>
    have hb := b.toNat_lt
    simp only [hexBytes, unhex, ih]
    rw [hexVal_hexDigit _ (by omega), hexVal_hexDigit _ (by omega)]
    simp only [byte_recompose]

theorem hexBytes_length (v : Bytes) : (hexBytes v).length = 2 * v.length := by
  induction v with
  | nil => rfl
  | cons b bs ih => simp [hexBytes, ih]; omega

theorem hexBytes_not_space (v : Bytes) : ∀ c ∈ hexBytes v, isSpace c = false ∧ c.toNat < 128 := by
  induction v with
  | nil => simp [hexBytes]
  | cons b bs ih =>
    have hb := b.toNat_lt
    intro c hc
    simp only [hexBytes, List.mem_cons] at hc
    rcases hc with rfl | rfl | hc
    · exact hexDigit_not_space _ (by omega)
    · exact hexDigit_not_space _ (by omega)
    · exact ih c hc


/-! ## numbers -/

theorem beBytes_length (w n : Nat) : (beBytes w n).length = w := by
  induction w generalizing n with
  | zero => rfl
  | succ w ih => simp [beBytes, ih]

theorem beNat_beBytes (w n : Nat) (h : n < 256 ^ w) : beNat (beBytes w n) = n := by
  induction w generalizing n with
  | zero => simp [beBytes, beNat] at *; omega
  | succ w ih =>
    have hp : 0 < 256 ^ w := Nat.pow_pos (by decide)
    have h1 : n / 256 ^ w < 256 := by
      rw [Nat.div_lt_iff_lt_mul hp]; rw [Nat.pow_succ] at h; rw [Nat.mul_comm]; exact h
    simp only [beBytes, beNat, beBytes_length]
    rw [ih _ (Nat.mod_lt _ hp), UInt8.toNat_ofNat']
    have : n / 256 ^ w % 2 ^ 8 = n / 256 ^ w := Nat.mod_eq_of_lt (by simpa using h1)
    rw [this]
    exact Nat.div_add_mod' n (256 ^ w)

theorem toNat_ofNat_lt (n : Nat) (h : n < 256) : (UInt8.ofNat n).toNat = n := by
  rw [UInt8.toNat_ofNat']; exact Nat.mod_eq_of_lt (by simpa using h)

/-! ## records -/

theorem unpackIhex_packIhex (t a : Nat) (d : Bytes) (ht : t < 256) (ha : a < 65536) (hd : d.length < 256) :
    unpackIhex (packIhex t a d) = .ok (t, a, d) := by
  have hbe : beBytes 2 a = [UInt8.ofNat (a / 256), UInt8.ofNat (a % 256)] := by
    simp [beBytes]
  have hlen : ¬ (packIhex t a d).length < 11 := by
    simp [packIhex, hexBytes_length, hbe]; omega
  unfold unpackIhex
  rw [if_neg hlen]
  simp only [packIhex, hbe, List.cons_append, List.nil_append, ne_eq, not_true_eq_false, if_false, unhex_hexBytes]
  have hsz : (UInt8.ofNat d.length).toNat + 5 = (UInt8.ofNat d.length :: UInt8.ofNat (a / 256) :: UInt8.ofNat (a % 256) :: UInt8.ofNat t ::
      (d ++ [crcIhex (UInt8.ofNat d.length :: UInt8.ofNat (a / 256) :: UInt8.ofNat (a % 256) :: UInt8.ofNat t :: d)])).length := by
    rw [toNat_ofNat_lt _ hd]; simp
  rw [if_neg (by rw [hsz]; simp)]
  have hdl : ∀ (x y z w : UInt8) (l : Bytes) (c : UInt8), (x :: y :: z :: w :: (l ++ [c])).dropLast = x :: y :: z :: w :: l := by
    intro x y z w l c
    have : x :: y :: z :: w :: (l ++ [c]) = (x :: y :: z :: w :: l) ++ [c] := by simp
    rw [this, List.dropLast_concat]
  rw [hdl, List.getLast?_concat, if_neg (by simp), List.dropLast_concat]
  simp only [beNat, List.length_cons, List.length_nil]
  rw [toNat_ofNat_lt _ ht, toNat_ofNat_lt _ (by omega), toNat_ofNat_lt _ (by omega)]
  congr 2
  simp; omega


theorem unpackSrec_packSrec (t : UInt8) (w a : Nat) (d : Bytes) (hw : srecWidth t = some w) (ha : a < 256 ^ w)
    (hd : d.length + w + 1 < 256) : unpackSrec (packSrec t w a d) = .ok (t, a, d) := by
  have hlen : ¬ (packSrec t w a d).length < 6 := by
    simp [packSrec, hexBytes_length]; omega
  unfold unpackSrec
  rw [if_neg hlen]
  simp only [packSrec, ne_eq, not_true_eq_false, if_false, unhex_hexBytes, List.cons_append]
  have hsz : (UInt8.ofNat (d.length + w + 1)).toNat + 1 = (UInt8.ofNat (d.length + w + 1) :: (beBytes w a ++ d ++
      [crcSrec (UInt8.ofNat (d.length + w + 1) :: (beBytes w a ++ d))])).length := by
    rw [toNat_ofNat_lt _ hd]; simp [beBytes_length]; omega
  rw [if_neg (by rw [hsz]; simp)]
  simp only [hw]
  have hdl : ∀ (x : UInt8) (l : Bytes) (c : UInt8), (x :: (l ++ [c])).dropLast = x :: l := by
    intro x l c
    have : x :: (l ++ [c]) = (x :: l) ++ [c] := by simp
    rw [this, List.dropLast_concat]
  have hgl : ∀ (x : UInt8) (l : Bytes) (c : UInt8), (x :: (l ++ [c])).getLast? = some c := by
    intro x l c
    have : x :: (l ++ [c]) = (x :: l) ++ [c] := by simp
    rw [this, List.getLast?_concat]
  rw [hdl, hgl, if_neg (by simp)]
  have h1 : (List.take (1 + w) (UInt8.ofNat (d.length + w + 1) :: (beBytes w a ++ d ++
      [crcSrec (UInt8.ofNat (d.length + w + 1) :: (beBytes w a ++ d))]))).drop 1 = beBytes w a := by
    rw [Nat.add_comm 1 w, List.take_succ_cons, List.drop_one, List.tail_cons, List.append_assoc,
      List.take_append_of_le_length (by rw [beBytes_length]; omega), List.take_of_length_le (by rw [beBytes_length]; omega)]
  have h2 : (UInt8.ofNat (d.length + w + 1) :: (beBytes w a ++ d)).drop (1 + w) = d := by
    rw [Nat.add_comm 1 w, List.drop_succ_cons, List.drop_append_of_le_length (by rw [beBytes_length]; omega),
      List.drop_of_length_le (by rw [beBytes_length]; omega), List.nil_append]
  rw [h1, h2, beNat_beBytes _ _ ha]


/-! ## lines -/

/-- a record as the writers emit it: non-empty, no white space -/
def Clean (r : Bytes) : Prop := r ≠ [] ∧ ∀ c ∈ r, isSpace c = false ∧ c.toNat < 128

theorem isNL_of_not_space (c : UInt8) (h : isSpace c = false) : isNL c = false := by
  simp only [isNL, isSpace, Bool.or_eq_false_iff, beq_eq_false_iff_ne, Bool.and_eq_false_iff, decide_eq_false_iff_not] at *
  obtain ⟨⟨_, h2⟩, _⟩ := h
  constructor
  · intro hc; subst hc; simp at h2
  · intro hc; subst hc; simp at h2

theorem splitLines_ne_nil (t : Bytes) : splitLines t ≠ [] := by
  cases t with
  | nil => simp [splitLines]
  | cons c cs =>
    simp only [splitLines]
    split
    · simp
    · split <;> simp

theorem splitLines_append (r rest : Bytes) (h : ∀ c ∈ r, isSpace c = false) :
    splitLines (r ++ 10 :: rest) = r :: splitLines rest := by
  induction r with
  | nil => simp [splitLines, isNL]
  | cons c cs ih =>
    have hc := isNL_of_not_space c (h c (by simp))
    have := ih (fun x hx => h x (by simp [hx]))
    simp only [List.cons_append, splitLines, hc, this]
    simp

theorem dropWhile_clean (r : Bytes) (h : Clean r) : r.dropWhile isSpace = r := by
  cases r with
  | nil => rfl
  | cons c cs => simp [List.dropWhile, (h.2 c (by simp)).1]

theorem strip_clean (r : Bytes) (h : Clean r) : strip r = r := by
  unfold strip rstrip
  rw [dropWhile_clean r h]
  have hr : Clean r.reverse := ⟨by simpa using h.1, fun c hc => h.2 c (by simpa using hc)⟩
  rw [dropWhile_clean _ hr, List.reverse_reverse]

theorem cleanLines_joinLines (recs : List Bytes) (h : ∀ r ∈ recs, Clean r) : cleanLines (joinLines recs) = recs := by
  induction recs with
  | nil => simp [cleanLines, joinLines, splitLines, strip, rstrip]
  | cons r rs ih =>
    have hr := h r (by simp)
    have ih := ih (fun x hx => h x (by simp [hx]))
    unfold cleanLines at *
    rw [joinLines, splitLines_append r _ (fun c hc => (hr.2 c hc).1), List.map_cons, strip_clean r hr, List.filter_cons]
    have : (!r.isEmpty) = true := by
      cases r with
      | nil => exact absurd rfl hr.1
      | cons _ _ => rfl
    rw [if_pos this, ih]

theorem clean_packIhex (t a : Nat) (d : Bytes) : Clean (packIhex t a d) := by
  refine ⟨by simp [packIhex], ?_⟩
  intro c hc
  simp only [packIhex, List.mem_cons] at hc
  rcases hc with rfl | hc
  · decide
  · exact hexBytes_not_space _ c hc

theorem clean_packSrec (t : UInt8) (w a : Nat) (d : Bytes) (ht : isSpace t = false ∧ t.toNat < 128) : Clean (packSrec t w a d) := by
  refine ⟨by simp [packSrec], ?_⟩
  intro c hc
  simp only [packSrec, List.mem_cons] at hc
  rcases hc with rfl | rfl | hc
  · decide
  · exact ht
  · exact hexBytes_not_space _ c hc

theorem firstLine_joinLines (r : Bytes) (rs : List Bytes) (h : Clean r) : firstLine (joinLines (r :: rs)) = r := by
  unfold firstLine
  have : (joinLines (r :: rs)).takeWhile (fun c => !isNL c) = r := by
    rw [joinLines]
    generalize joinLines rs = rest
    have h2 := h.2
    clear h
    induction r with
    | nil => simp [isNL]
    | cons c cs ih =>
      have hc := isNL_of_not_space c (h2 c (by simp)).1
      simp only [List.cons_append, List.takeWhile, hc, Bool.not_false]
      rw [ih (fun x hx => h2 x (by simp [hx]))]
  rw [this]
  unfold rstrip
  have hr : Clean r.reverse := ⟨by simpa using h.1, fun c hc => h.2 c (by simpa using hc)⟩
  rw [dropWhile_clean _ hr, List.reverse_reverse]


/-! ## segment lists -/

theorem nil_or_snoc {α} (l : List α) : l = [] ∨ ∃ pre c, l = pre ++ [c] := by
  rcases List.eq_nil_or_concat l with h | ⟨pre, c, h⟩
  · exact Or.inl h
  · exact Or.inr ⟨pre, c, by rw [h, List.concat_eq_append]⟩

def lastMax : List Seg → Nat
  | [] => 0
  | [s] => s.max
  | _ :: y :: rest => lastMax (y :: rest)

theorem lastMax_concat (pre : List Seg) (c : Seg) : lastMax (pre ++ [c]) = c.max := by
  induction pre with
  | nil => rfl
  | cons x xs ih =>
    cases xs with
    | nil => simp [lastMax]
    | cons y ys => simpa [lastMax] using ih

theorem addSorted_concat (pre : List Seg) (c s : Seg) : addSorted (pre ++ [c]) s = pre ++ addSorted [c] s := by
  induction pre with
  | nil => rfl
  | cons x xs ih =>
    cases xs with
    | nil => simp [addSorted]
    | cons y ys => simpa [addSorted] using ih

def BelowLast (l : List Seg) : Prop := ∀ s ∈ l, s.max ≤ lastMax l

theorem addSorted_props (l : List Seg) (s : Seg) (hb : BelowLast l) (hs : lastMax l ≤ s.addr) :
    BelowLast (addSorted l s) ∧ lastMax (addSorted l s) = s.max := by
  rcases nil_or_snoc l with rfl | ⟨pre, c, rfl⟩
  · simp [addSorted, BelowLast, lastMax]
  · rw [lastMax_concat] at hs
    have hb' : ∀ x ∈ pre ++ [c], x.max ≤ c.max := by
      intro x hx; have := hb x hx; rwa [lastMax_concat] at this
    rw [addSorted_concat]
    simp only [addSorted]
    split
    · rename_i heq
      have hm : (Seg.mk c.addr (c.data ++ s.data)).max = s.max := by
        simp only [Seg.max, List.length_append] at *; omega
      refine ⟨?_, by rw [lastMax_concat, hm]⟩
      intro x hx
      rw [lastMax_concat, hm]
      simp only [List.mem_append, List.mem_singleton] at hx
      rcases hx with hx | rfl
      · have := hb' x (by simp [hx]); simp only [Seg.max] at *; omega
      · rw [hm]; exact Nat.le_refl _
    · have : pre ++ [c, s] = (pre ++ [c]) ++ [s] := by simp
      rw [this]
      refine ⟨?_, lastMax_concat _ _⟩
      intro x hx
      rw [lastMax_concat]
      rw [List.mem_append, List.mem_singleton] at hx
      rcases hx with hx | rfl
      · have := hb' x hx; simp only [Seg.max] at *; omega
      · exact Nat.le_refl _

/-- on an ascending list whose current segment is the last one, the reader's `Segments.add` of data at or behind
    the end is `addSorted` -/
theorem add_sorted (l : List Seg) (s : Seg) (hb : BelowLast l) (hs : lastMax l ≤ s.addr) :
    SegList.add ⟨l, l.length - 1⟩ s = .ok ⟨addSorted l s, (addSorted l s).length - 1⟩ := by
  rcases nil_or_snoc l with rfl | ⟨pre, c, rfl⟩
  · simp [SegList.add, addSorted]
  · rw [lastMax_concat] at hs
    have hb' : ∀ x ∈ pre ++ [c], x.max ≤ c.max := by
      intro x hx; have := hb x hx; rwa [lastMax_concat] at this
    have hcur : (pre ++ [c]).length - 1 = pre.length := by simp
    unfold SegList.add
    simp only [hcur]
    have hne : (pre ++ [c]).isEmpty = false := by simp
    rw [hne]
    simp only [Bool.false_eq_true, if_false, List.getElem?_concat_length]
    rw [addSorted_concat]
    simp only [addSorted]
    by_cases heq : s.addr = c.max
    · simp only [heq, if_true]
      simp [finishAdd, absorb]
    · simp only [heq, if_false]
      have hnone : List.findIdx? (fun x => decide (s.addr ≤ x.max)) (pre ++ [c]) = none := by
        rw [List.findIdx?_eq_none_iff]
        intro x hx
        have := hb' x hx
        simp only [decide_eq_false_iff_not]; omega
      rw [hnone]
      simp


/-! ## chunks and normalisation -/

/-- ascending from `m`, non-overlapping (adjacent allowed), non-empty, inside the 32-bit address space -/
def SegsFrom (m : Nat) : List Seg → Prop
  | [] => True
  | s :: rest => m ≤ s.addr ∧ s.data ≠ [] ∧ s.max ≤ 2 ^ 32 ∧ SegsFrom s.max rest

theorem chunksAux_nil (f a : Nat) : chunksAux f a [] = [] := by
  cases f <;> simp [chunksAux]

theorem addSorted_merge (acc : List Seg) (a : Nat) (t r : Bytes) :
    addSorted (addSorted acc ⟨a, t⟩) ⟨a + t.length, r⟩ = addSorted acc ⟨a, t ++ r⟩ := by
  rcases nil_or_snoc acc with rfl | ⟨pre, c, rfl⟩
  · simp [addSorted, Seg.max]
  · rw [addSorted_concat, addSorted_concat]
    simp only [addSorted]
    by_cases h : a = c.max
    · simp only [h, if_true]
      rw [addSorted_concat]
      simp [addSorted, Seg.max, Nat.add_assoc]
    · simp only [h, if_false]
      have : pre ++ [c, Seg.mk a t] = (pre ++ [c]) ++ [Seg.mk a t] := by simp
      rw [this, addSorted_concat]
      simp [addSorted, Seg.max]

theorem foldl_addSorted_chunks (f : Nat) : ∀ (acc : List Seg) (a : Nat) (d : Bytes), d.length ≤ f → d ≠ [] →
    (chunksAux f a d).foldl addSorted acc = addSorted acc ⟨a, d⟩ := by
  induction f with
  | zero => intro acc a d h hne; cases d <;> simp_all
  | succ f ih =>
    intro acc a d h hne
    have he : d.isEmpty = false := by cases d <;> simp_all
    simp only [chunksAux, he, Bool.false_eq_true, if_false, List.foldl_cons]
    by_cases hd : d.drop 32 = []
    · rw [hd, chunksAux_nil, List.foldl_nil]
      have : d.take 32 = d := by
        have := List.take_append_drop 32 d
        rw [hd, List.append_nil] at this; exact this
      rw [this]
    · have hlen : 32 < d.length := by
        apply Nat.lt_of_not_le; intro hle; exact hd (List.drop_of_length_le hle)
      rw [ih _ _ _ (by rw [List.length_drop]; omega) hd]
      have h32 : a + 32 = a + (d.take 32).length := by rw [List.length_take]; omega
      rw [h32, addSorted_merge, List.take_append_drop]

theorem foldl_addSorted_flatMap (l : List Seg) : ∀ acc, (∀ s ∈ l, s.data ≠ []) →
    (l.flatMap Seg.chunks).foldl addSorted acc = l.foldl addSorted acc := by
  induction l with
  | nil => intro acc _; rfl
  | cons s rest ih =>
    intro acc h
    rw [List.flatMap_cons, List.foldl_append, List.foldl_cons, Seg.chunks,
      foldl_addSorted_chunks _ _ _ _ (Nat.le_refl _) (h s (by simp))]
    exact ih _ (fun x hx => h x (by simp [hx]))

theorem segsFrom_chunksAux (f : Nat) : ∀ (m a : Nat) (d : Bytes) (rest : List Seg), d.length ≤ f → m ≤ a →
    a + d.length ≤ 2 ^ 32 → SegsFrom (a + d.length) rest → (d = [] → SegsFrom m rest) →
    SegsFrom m (chunksAux f a d ++ rest) := by
  induction f with
  | zero =>
    intro m a d rest h _ _ _ h0
    have : d = [] := by cases d <;> simp_all
    simpa [chunksAux] using h0 this
  | succ f ih =>
    intro m a d rest h hm hb hr h0
    cases hd : d with
    | nil => subst hd; simpa [chunksAux] using h0 rfl
    | cons x xs =>
      rw [← hd]
      have hne : d ≠ [] := by rw [hd]; simp
      have he : d.isEmpty = false := by rw [hd]; rfl
      have hpos : 0 < d.length := by rw [hd]; simp
      simp only [chunksAux, he, Bool.false_eq_true, if_false, List.cons_append, SegsFrom]
      refine ⟨hm, ?_, ?_, ?_⟩
      · intro ht
        have := congrArg List.length ht
        rw [List.length_take, List.length_nil] at this; omega
      · simp only [Seg.max, List.length_take]; omega
      · simp only [Seg.max, List.length_take]
        by_cases hl : d.length ≤ 32
        · rw [List.drop_of_length_le hl, chunksAux_nil, List.nil_append, Nat.min_eq_right hl]; exact hr
        · have h32 : min 32 d.length = 32 := by omega
          rw [h32]
          apply ih
          · rw [List.length_drop]; omega
          · exact Nat.le_refl _
          · rw [List.length_drop]; omega
          · rw [List.length_drop]; have : a + 32 + (d.length - 32) = a + d.length := by omega
            rw [this]; exact hr
          · intro hdr
            have := congrArg List.length hdr
            rw [List.length_drop] at this; simp at this; omega

theorem segsFrom_flatMap_chunks (l : List Seg) : ∀ m, SegsFrom m l → SegsFrom m (l.flatMap Seg.chunks) := by
  induction l with
  | nil => intro m _; simp [SegsFrom]
  | cons s rest ih =>
    intro m h
    obtain ⟨h1, h2, h3, h4⟩ := h
    rw [List.flatMap_cons, Seg.chunks]
    exact segsFrom_chunksAux _ m s.addr s.data _ (Nat.le_refl _) h1 h3 (ih _ h4) (fun h => absurd h h2)

theorem chunksAux_len (f : Nat) : ∀ (a : Nat) (d : Bytes), ∀ c ∈ chunksAux f a d, c.data.length ≤ 32 := by
  induction f with
  | zero => intro a d c hc; simp [chunksAux] at hc
  | succ f ih =>
    intro a d c hc
    simp only [chunksAux] at hc
    split at hc
    · simp at hc
    · rw [List.mem_cons] at hc
      rcases hc with rfl | hc
      · simp only [List.length_take]; omega
      · exact ih _ _ c hc

theorem flatMap_chunks_len (l : List Seg) : ∀ c ∈ l.flatMap Seg.chunks, c.data.length ≤ 32 := by
  intro c hc
  rw [List.mem_flatMap] at hc
  obtain ⟨s, _, hc⟩ := hc
  exact chunksAux_len _ _ _ c hc

theorem segsFrom_addSorted (acc : List Seg) (x : Seg) : ∀ (m : Nat) (xs : List Seg),
    SegsFrom m (acc ++ x :: xs) → SegsFrom m (addSorted acc x ++ xs) := by
  induction acc, x using addSorted.induct with
  | case1 x => intro m xs h; simpa [addSorted] using h
  | case2 l x heq =>
    intro m xs h
    simp only [addSorted, heq, if_true]
    simp only [List.cons_append, List.nil_append, SegsFrom] at h ⊢
    obtain ⟨h1, h2, h3, h4, h5, h6, h7⟩ := h
    have hm : (Seg.mk l.addr (l.data ++ x.data)).max = x.max := by
      simp only [Seg.max, List.length_append] at *; omega
    refine ⟨h1, by simp [h2], by rw [hm]; exact h6, by rw [hm]; exact h7⟩
  | case3 l x hne =>
    intro m xs h
    simp only [addSorted, hne, if_false]
    simpa using h
  | case4 a b rest x ih =>
    intro m xs h
    simp only [addSorted, List.cons_append, SegsFrom] at h ⊢
    obtain ⟨h1, h2, h3, h4⟩ := h
    exact ⟨h1, h2, h3, ih _ _ h4⟩

theorem segsFrom_foldl (xs : List Seg) : ∀ (m : Nat) (acc : List Seg), SegsFrom m (acc ++ xs) →
    SegsFrom m (xs.foldl addSorted acc) := by
  induction xs with
  | nil => intro m acc h; simpa using h
  | cons x xs ih =>
    intro m acc h
    rw [List.foldl_cons]
    exact ih m _ (segsFrom_addSorted acc x m xs h)

theorem segsFrom_normalize (m : Nat) (l : List Seg) (h : SegsFrom m l) : SegsFrom m (normalize l) :=
  segsFrom_foldl l m [] (by simpa using h)

/-- "sorted, non-overlapping, non-empty, 32-bit" stated pairwise implies the recursive form used by the proofs -/
theorem segsFrom_of_pairwise (l : List Seg) : ∀ m, (∀ s ∈ l, m ≤ s.addr ∧ s.data ≠ [] ∧ s.max ≤ 2 ^ 32) →
    l.Pairwise (fun a b => a.max ≤ b.addr) → SegsFrom m l := by
  induction l with
  | nil => intro _ _ _; trivial
  | cons s rest ih =>
    intro m h1 h2
    rw [List.pairwise_cons] at h2
    obtain ⟨ha, hb, hc⟩ := h1 s (by simp)
    refine ⟨ha, hb, hc, ih _ ?_ h2.2⟩
    intro x hx
    obtain ⟨_, hb', hc'⟩ := h1 x (by simp [hx])
    exact ⟨h2.1 x hx, hb', hc'⟩

theorem segsFrom_nonempty (l : List Seg) : ∀ m, SegsFrom m l → ∀ s ∈ l, s.data ≠ [] := by
  induction l with
  | nil => intro m _ s hs; simp at hs
  | cons x xs ih =>
    intro m h s hs
    rw [List.mem_cons] at hs
    rcases hs with rfl | hs
    · exact h.2.1
    · exact ih _ h.2.2.2 s hs

/-- no two consecutive segments touch -/
def NoAdj : List Seg → Prop
  | [] => True
  | [_] => True
  | a :: b :: rest => a.max ≠ b.addr ∧ NoAdj (b :: rest)

theorem addSorted_head (b : Seg) (rest : List Seg) (s : Seg) :
    ∃ b' rest', addSorted (b :: rest) s = b' :: rest' ∧ b'.addr = b.addr := by
  cases rest with
  | nil =>
    simp only [addSorted]
    split
    · exact ⟨_, _, rfl, rfl⟩
    · exact ⟨_, _, rfl, rfl⟩
  | cons y ys => exact ⟨b, _, rfl, rfl⟩

theorem noAdj_addSorted (acc : List Seg) (s : Seg) : NoAdj acc → NoAdj (addSorted acc s) := by
  induction acc, s using addSorted.induct with
  | case1 s => intro _; simp [addSorted, NoAdj]
  | case2 l s heq => intro _; simp [addSorted, heq, NoAdj]
  | case3 l s hne =>
    intro _
    simp only [addSorted, hne, if_false, NoAdj, and_true]
    exact fun h => hne h.symm
  | case4 a b rest s ih =>
    intro h
    obtain ⟨h1, h2⟩ := h
    obtain ⟨b', rest', he, ha⟩ := addSorted_head b rest s
    have := ih h2
    simp only [addSorted]
    rw [he] at this ⊢
    exact ⟨by rw [ha]; exact h1, this⟩

theorem noAdj_normalize (l : List Seg) : NoAdj (normalize l) := by
  unfold normalize
  suffices ∀ acc, NoAdj acc → NoAdj (l.foldl addSorted acc) from this [] trivial
  induction l with
  | nil => intro acc h; exact h
  | cons x xs ih => intro acc h; exact ih _ (noAdj_addSorted acc x h)

theorem addSorted_noAdj (acc : List Seg) (x : Seg) : ∀ xs, NoAdj (acc ++ x :: xs) → addSorted acc x = acc ++ [x] := by
  induction acc, x using addSorted.induct with
  | case1 x => intro _ _; rfl
  | case2 l x heq =>
    intro xs h
    simp only [List.cons_append, List.nil_append, NoAdj] at h
    exact absurd heq.symm h.1
  | case3 l x hne => intro _ _; simp [addSorted, hne]
  | case4 a b rest x ih =>
    intro xs h
    simp only [List.cons_append, NoAdj] at h
    simp only [addSorted, List.cons_append]
    rw [ih xs (by simpa using h.2)]
    simp

theorem foldl_addSorted_noAdj (l : List Seg) : ∀ acc, NoAdj (acc ++ l) → l.foldl addSorted acc = acc ++ l := by
  induction l with
  | nil => intro acc _; simp
  | cons x xs ih =>
    intro acc h
    rw [List.foldl_cons, addSorted_noAdj acc x xs h, ih _ (by simpa using h)]
    simp

theorem normalize_of_noAdj (l : List Seg) (h : NoAdj l) : normalize l = l := by
  simpa [normalize] using foldl_addSorted_noAdj l [] (by simpa using h)

theorem normalize_idem (l : List Seg) : normalize (normalize l) = normalize l :=
  normalize_of_noAdj _ (noAdj_normalize l)


/-! ## the readers on emitted records -/

theorem ihexStep_data (st : DecState) (lo : Nat) (d : Bytes) (sl : SegList) (hlo : lo < 65536) (hd : d.length < 256)
    (h : st.segs.add ⟨lo + st.esa + st.ela, d⟩ = .ok sl) :
    ihexStep st (packIhex 0 lo d) = .ok { st with segs := sl } := by
  unfold ihexStep
  rw [unpackIhex_packIhex 0 lo d (by decide) hlo hd]
  simp [h]

theorem ihexStep_ela (st : DecState) (up : Nat) (h : up < 65536) :
    ihexStep st (packIhex 4 0 (beBytes 2 up)) = .ok { st with ela := up * 65536 } := by
  unfold ihexStep
  rw [unpackIhex_packIhex 4 0 _ (by decide) (by decide) (by rw [beBytes_length]; decide)]
  have : (beBytes 2 up).isEmpty = false := by simp [beBytes]
  simp [this, beNat_beBytes 2 up (by simpa using h)]

theorem ihexStep_start (st : DecState) (e : Nat) (h : e < 2 ^ 32) :
    ihexStep st (packIhex 5 0 (beBytes 4 e)) = .ok { st with exec := some e } := by
  unfold ihexStep
  rw [unpackIhex_packIhex 5 0 _ (by decide) (by decide) (by rw [beBytes_length]; decide)]
  have : (beBytes 4 e).isEmpty = false := by simp [beBytes]
  simp [this, beNat_beBytes 4 e (by simpa using h)]

theorem ihexStep_eof (st : DecState) : ihexStep st (packIhex 1 0 []) = .ok st := by
  unfold ihexStep
  rw [unpackIhex_packIhex 1 0 _ (by decide) (by decide) (by decide)]
  simp

theorem runLines_cons_ok (step : DecState → Bytes → Except HErr DecState) (st st' : DecState) (r : Bytes) (rs : List Bytes)
    (h : step st r = .ok st') : runLines step st (r :: rs) = runLines step st' rs := by
  simp [runLines, h]

theorem run_ihexRecs (cs : List Seg) : ∀ (l : List Seg) (ela : Nat) (st : DecState) (rest : List Bytes),
    BelowLast l → SegsFrom (lastMax l) cs → (∀ c ∈ cs, c.data.length ≤ 32) → ela * 65536 ≤ lastMax l →
    st.segs = ⟨l, l.length - 1⟩ → st.ela = ela * 65536 → st.esa = 0 →
    ∃ ela', runLines ihexStep st (ihexRecs ela cs ++ rest) =
      runLines ihexStep { st with segs := ⟨cs.foldl addSorted l, (cs.foldl addSorted l).length - 1⟩, ela := ela' } rest := by
  induction cs with
  | nil =>
    intro l ela st rest _ _ _ _ hs he _
    refine ⟨st.ela, ?_⟩
    simp only [ihexRecs, List.nil_append, List.foldl_nil]
    rw [← hs]
  | cons c cs ih =>
    intro l ela st rest hb hsf hlen hela hs he hesa
    obtain ⟨h1, h2, h3, h4⟩ := hsf
    have hc32 : c.addr < 2 ^ 32 := by
      have : 0 < c.data.length := List.length_pos_iff.mpr h2
      simp only [Seg.max] at h3; omega
    have hup : c.addr / 65536 < 65536 := by omega
    have hge : ela ≤ c.addr / 65536 := by omega
    have hcl : c.data.length < 256 := by have := hlen c (by simp); omega
    obtain ⟨hb', hlm⟩ := addSorted_props l c hb h1
    have hdata : ∀ st1 : DecState, st1.segs = ⟨l, l.length - 1⟩ → st1.ela = c.addr / 65536 * 65536 → st1.esa = 0 →
        ihexStep st1 (packIhex 0 (c.addr % 65536) c.data) =
          .ok { st1 with segs := ⟨addSorted l c, (addSorted l c).length - 1⟩ } := by
      intro st1 e1 e2 e3
      apply ihexStep_data st1 _ _ _ (Nat.mod_lt _ (by decide)) hcl
      rw [e1, e2, e3]
      have : c.addr % 65536 + 0 + c.addr / 65536 * 65536 = c.addr := by omega
      rw [this, add_sorted l c hb h1]
    simp only [ihexRecs]
    by_cases hgt : c.addr / 65536 > ela
    · simp only [hgt, if_true, List.cons_append]
      rw [runLines_cons_ok _ _ _ _ _ (ihexStep_ela st _ hup)]
      rw [runLines_cons_ok _ _ _ _ _ (hdata { st with ela := c.addr / 65536 * 65536 } hs rfl hesa)]
      obtain ⟨ela', hih⟩ := ih (addSorted l c) (c.addr / 65536)
        { st with ela := c.addr / 65536 * 65536, segs := ⟨addSorted l c, (addSorted l c).length - 1⟩ } rest hb'
        (by rw [hlm]; exact h4) (fun x hx => hlen x (by simp [hx]))
        (by rw [hlm]; exact Nat.le_trans (Nat.div_mul_le_self _ _) (Nat.le_add_right _ _)) rfl rfl hesa
      exact ⟨ela', by rw [List.foldl_cons]; exact hih⟩
    · simp only [hgt, if_false, List.cons_append]
      have heq : ela = c.addr / 65536 := by omega
      rw [runLines_cons_ok _ _ _ _ _ (hdata st hs (by rw [he, heq]) hesa)]
      obtain ⟨ela', hih⟩ := ih (addSorted l c) ela
        { st with segs := ⟨addSorted l c, (addSorted l c).length - 1⟩ } rest hb'
        (by rw [hlm]; exact h4) (fun x hx => hlen x (by simp [hx])) (by rw [hlm]; simp only [Seg.max]; omega) rfl he hesa
      exact ⟨ela', by rw [List.foldl_cons]; exact hih⟩

theorem srecStep_data (st : DecState) (a : Nat) (d : Bytes) (sl : SegList) (ha : a < 2 ^ 32) (hd : d.length ≤ 32)
    (h : st.segs.add ⟨a, d⟩ = .ok sl) :
    srecStep st (packSrec 51 4 a d) = .ok { st with segs := sl } := by
  unfold srecStep
  rw [unpackSrec_packSrec 51 4 a d (by decide) (by simpa using ha) (by omega)]
  simp [h]

theorem srecStep_count2 (st : DecState) (n : Nat) (h : n < 65536) : srecStep st (packSrec 53 2 n []) = .ok st := by
  unfold srecStep
  rw [unpackSrec_packSrec 53 2 n [] (by decide) (by simpa using h) (by decide)]
  simp

theorem srecStep_count3 (st : DecState) (n : Nat) (h : n < 16777216) : srecStep st (packSrec 54 3 n []) = .ok st := by
  unfold srecStep
  rw [unpackSrec_packSrec 54 3 n [] (by decide) (by simpa using h) (by decide)]
  simp

theorem srecStep_start (st : DecState) (e : Nat) (h : e < 2 ^ 32) :
    srecStep st (packSrec 55 4 e []) = .ok { st with exec := some e } := by
  unfold srecStep
  rw [unpackSrec_packSrec 55 4 e [] (by decide) (by simpa using h) (by decide)]
  simp

theorem run_srecRecs (cs : List Seg) : ∀ (l : List Seg) (st : DecState) (rest : List Bytes),
    BelowLast l → SegsFrom (lastMax l) cs → (∀ c ∈ cs, c.data.length ≤ 32) → st.segs = ⟨l, l.length - 1⟩ →
    runLines srecStep st (cs.map (fun c => packSrec 51 4 c.addr c.data) ++ rest) =
      runLines srecStep { st with segs := ⟨cs.foldl addSorted l, (cs.foldl addSorted l).length - 1⟩ } rest := by
  induction cs with
  | nil =>
    intro l st rest _ _ _ hs
    simp only [List.map_nil, List.nil_append, List.foldl_nil]
    rw [← hs]
  | cons c cs ih =>
    intro l st rest hb hsf hlen hs
    obtain ⟨h1, h2, h3, h4⟩ := hsf
    have hc32 : c.addr < 2 ^ 32 := by
      have : 0 < c.data.length := List.length_pos_iff.mpr h2
      simp only [Seg.max] at h3; omega
    obtain ⟨hb', hlm⟩ := addSorted_props l c hb h1
    have hstep : srecStep st (packSrec 51 4 c.addr c.data) =
        .ok { st with segs := ⟨addSorted l c, (addSorted l c).length - 1⟩ } := by
      apply srecStep_data st _ _ _ hc32 (hlen c (by simp))
      rw [hs, add_sorted l c hb h1]
    simp only [List.map_cons, List.cons_append]
    rw [runLines_cons_ok _ _ _ _ _ hstep, List.foldl_cons]
    exact ih (addSorted l c) _ rest hb' (by rw [hlm]; exact h4) (fun x hx => hlen x (by simp [hx])) rfl


/-! ## whole files -/

theorem segsFrom_mem (l : List Seg) : ∀ m, SegsFrom m l → ∀ s ∈ l, s.data ≠ [] ∧ s.max ≤ 2 ^ 32 := by
  induction l with
  | nil => intro m _ s hs; simp at hs
  | cons x xs ih =>
    intro m h s hs
    rw [List.mem_cons] at hs
    rcases hs with rfl | hs
    · exact ⟨h.2.1, h.2.2.1⟩
    · exact ih _ h.2.2.2 s hs

theorem clean_ihexRecs (cs : List Seg) : ∀ ela, ∀ r ∈ ihexRecs ela cs, Clean r := by
  induction cs with
  | nil => intro ela r hr; simp [ihexRecs] at hr
  | cons c cs ih =>
    intro ela r hr
    simp only [ihexRecs] at hr
    split at hr
    · simp only [List.mem_cons] at hr
      rcases hr with rfl | rfl | hr
      · exact clean_packIhex _ _ _
      · exact clean_packIhex _ _ _
      · exact ih _ r hr
    · simp only [List.mem_cons] at hr
      rcases hr with rfl | hr
      · exact clean_packIhex _ _ _
      · exact ih _ r hr

theorem clean_ihexFooter (exec : Option Nat) : ∀ r ∈ ihexFooter exec, Clean r := by
  intro r hr
  cases exec with
  | none => simp only [ihexFooter, List.nil_append, List.mem_singleton] at hr; subst hr; exact clean_packIhex _ _ _
  | some e =>
    simp only [ihexFooter, List.cons_append, List.nil_append, List.mem_cons, List.not_mem_nil, or_false] at hr
    rcases hr with rfl | rfl <;> exact clean_packIhex _ _ _

theorem run_ihexFooter (st : DecState) (exec : Option Nat) (he : ∀ e, exec = some e → e < 2 ^ 32) (hst : st.exec = none) :
    runLines ihexStep st (ihexFooter exec) = .ok { st with exec := exec } := by
  cases exec with
  | none =>
    simp only [ihexFooter, List.nil_append]
    rw [runLines_cons_ok _ _ _ _ _ (ihexStep_eof st)]
    simp only [runLines]
    rw [← hst]
  | some e =>
    simp only [ihexFooter, List.cons_append, List.nil_append]
    rw [runLines_cons_ok _ _ _ _ _ (ihexStep_start st e (he e rfl)), runLines_cons_ok _ _ _ _ _ (ihexStep_eof _)]
    simp only [runLines]

/-- the chunk list both writers emit, and what the readers rebuild from it -/
theorem chunks_facts (segs : List Seg) (h : SegsFrom 0 segs) :
    SegsFrom 0 ((normalize segs).flatMap Seg.chunks) ∧
    (∀ c ∈ (normalize segs).flatMap Seg.chunks, c.data.length ≤ 32) ∧
    ((normalize segs).flatMap Seg.chunks).foldl addSorted [] = normalize segs := by
  have hN := segsFrom_normalize 0 segs h
  refine ⟨segsFrom_flatMap_chunks _ 0 hN, flatMap_chunks_len _, ?_⟩
  rw [foldl_addSorted_flatMap _ _ (segsFrom_nonempty _ 0 hN)]
  exact normalize_idem segs

theorem ihex_roundtrip_from (exec : Option Nat) (segs : List Seg) (h : SegsFrom 0 segs) (he : ∀ e, exec = some e → e < 2 ^ 32) :
    ∃ text, ihexEncode exec segs = .ok text ∧ ihexDecode text = .ok ⟨normalize segs, exec⟩ ∧
      text = joinLines (ihexRecs 0 ((normalize segs).flatMap Seg.chunks) ++ ihexFooter exec) := by
  obtain ⟨hcs, hlen, hfold⟩ := chunks_facts segs h
  refine ⟨_, ?_, ?_, rfl⟩
  · unfold ihexEncode
    have : ((normalize segs).flatMap Seg.chunks).any (fun c => decide (c.addr > 0xffffffff)) = false := by
      rw [List.any_eq_false]
      intro c hc
      obtain ⟨h1, h2⟩ := segsFrom_mem _ 0 hcs c hc
      have : 0 < c.data.length := List.length_pos_iff.mpr h1
      simp only [Seg.max] at h2
      simp only [decide_eq_true_eq]; omega
    simp only [this, Bool.false_eq_true, if_false]
  · unfold ihexDecode
    rw [cleanLines_joinLines _ (by
      intro r hr
      rw [List.mem_append] at hr
      rcases hr with hr | hr
      · exact clean_ihexRecs _ _ r hr
      · exact clean_ihexFooter _ r hr)]
    obtain ⟨ela', hrun⟩ := run_ihexRecs _ [] 0 {} (ihexFooter exec) (by intro s hs; simp at hs) hcs hlen (by simp [lastMax]) rfl rfl rfl
    rw [hrun, run_ihexFooter _ exec he rfl, hfold]
    rfl

theorem srecFooter_eq (n : Nat) (exec : Option Nat) (f : List Bytes) (h : srecFooter n exec = .ok f) :
    (n < 65536 ∧ f = packSrec 53 2 n [] :: srecTail exec) ∨ (n < 16777216 ∧ f = packSrec 54 3 n [] :: srecTail exec) := by
  unfold srecFooter at h
  by_cases h1 : n ≤ 0xffff
  · rw [if_pos h1] at h; cases h; exact Or.inl ⟨by omega, rfl⟩
  · rw [if_neg h1] at h
    by_cases h2 : n ≤ 0xffffff
    · rw [if_pos h2] at h; cases h; exact Or.inr ⟨by omega, rfl⟩
    · rw [if_neg h2] at h; cases h

theorem clean_srecTail (exec : Option Nat) : ∀ r ∈ srecTail exec, Clean r := by
  intro r hr
  cases exec with
  | none => simp [srecTail] at hr
  | some e => simp only [srecTail, List.mem_singleton] at hr; subst hr; exact clean_packSrec _ _ _ _ (by decide)

theorem clean_srecFooter (n : Nat) (exec : Option Nat) (f : List Bytes) (h : srecFooter n exec = .ok f) : ∀ r ∈ f, Clean r := by
  intro r hr
  rcases srecFooter_eq n exec f h with ⟨_, rfl⟩ | ⟨_, rfl⟩ <;>
  · rw [List.mem_cons] at hr
    rcases hr with rfl | hr
    · exact clean_packSrec _ _ _ _ (by decide)
    · exact clean_srecTail exec r hr

theorem run_srecTail (st : DecState) (exec : Option Nat) (he : ∀ e, exec = some e → e < 2 ^ 32) (hst : st.exec = none) :
    runLines srecStep st (srecTail exec) = .ok { st with exec := exec } := by
  cases exec with
  | none => simp only [srecTail, runLines]; rw [← hst]
  | some e =>
    simp only [srecTail]
    rw [runLines_cons_ok _ _ _ _ _ (srecStep_start st e (he e rfl))]; simp only [runLines]

theorem run_srecFooter (st : DecState) (n : Nat) (exec : Option Nat) (f : List Bytes) (h : srecFooter n exec = .ok f)
    (he : ∀ e, exec = some e → e < 2 ^ 32) (hst : st.exec = none) :
    runLines srecStep st f = .ok { st with exec := exec } := by
  rcases srecFooter_eq n exec f h with ⟨hn, rfl⟩ | ⟨hn, rfl⟩
  · rw [runLines_cons_ok _ _ _ _ _ (srecStep_count2 st n hn)]
    exact run_srecTail st exec he hst
  · rw [runLines_cons_ok _ _ _ _ _ (srecStep_count3 st n hn)]
    exact run_srecTail st exec he hst

theorem srec_roundtrip_from (exec : Option Nat) (segs : List Seg) (h : SegsFrom 0 segs) (he : ∀ e, exec = some e → e < 2 ^ 32)
    (hn : ((normalize segs).flatMap Seg.chunks).length ≤ 0xffffff) :
    ∃ text footer, srecEncode exec segs = .ok text ∧ srecDecode text = .ok ⟨normalize segs, exec⟩ ∧
      text = joinLines (((normalize segs).flatMap Seg.chunks).map (fun c => packSrec 51 4 c.addr c.data) ++ footer) ∧
      srecFooter ((normalize segs).flatMap Seg.chunks).length exec = .ok footer ∧ footer ≠ [] := by
  obtain ⟨hcs, hlen, hfold⟩ := chunks_facts segs h
  have hf : ∃ f, srecFooter ((normalize segs).flatMap Seg.chunks).length exec = .ok f ∧ f ≠ [] := by
    unfold srecFooter
    by_cases h1 : ((normalize segs).flatMap Seg.chunks).length ≤ 0xffff
    · rw [if_pos h1]; exact ⟨_, rfl, by simp⟩
    · rw [if_neg h1, if_pos hn]; exact ⟨_, rfl, by simp⟩
  obtain ⟨f, hf, hfne⟩ := hf
  refine ⟨_, f, ?_, ?_, rfl, hf, hfne⟩
  · unfold srecEncode
    simp only [hf]
  · unfold srecDecode
    rw [cleanLines_joinLines _ (by
      intro r hr
      rw [List.mem_append] at hr
      rcases hr with hr | hr
      · rw [List.mem_map] at hr
        obtain ⟨c, _, rfl⟩ := hr
        exact clean_packSrec _ _ _ _ (by decide)
      · exact clean_srecFooter _ _ f hf r hr)]
    rw [run_srecRecs _ [] {} f (by intro s hs; simp at hs) hcs hlen rfl, run_srecFooter _ _ exec f hf he rfl, hfold]
    rfl


/-! ## the bytes at the addresses -/

/-- the byte a segment list holds at absolute address `a` (first segment covering it) -/
def memAt : List Seg → Nat → Option UInt8
  | [], _ => none
  | s :: rest, a => if s.addr ≤ a ∧ a < s.max then s.data[a - s.addr]? else memAt rest a

theorem memAt_addSorted (acc : List Seg) (s : Seg) (a : Nat) : memAt (addSorted acc s) a = memAt (acc ++ [s]) a := by
  induction acc, s using addSorted.induct with
  | case1 s => rfl
  | case2 l s heq =>
    simp only [addSorted, heq, if_true, List.cons_append, List.nil_append, memAt, Seg.max, List.length_append]
    simp only [Seg.max] at heq
    by_cases h1 : l.addr ≤ a ∧ a < l.addr + l.data.length
    · rw [if_pos (by omega), if_pos h1, List.getElem?_append_left (by omega)]
    · rw [if_neg h1]
      by_cases h2 : l.addr + l.data.length ≤ a ∧ a < l.addr + l.data.length + s.data.length
      · rw [if_pos (by omega), if_pos h2, List.getElem?_append_right (by omega)]
        congr 1; omega
      · rw [if_neg (by omega), if_neg h2]
  | case3 l s hne => simp [addSorted, hne]
  | case4 x y rest s ih =>
    simp only [addSorted, List.cons_append, memAt] at ih ⊢
    split
    · rfl
    · exact ih

theorem memAt_append (l r : List Seg) (a : Nat) : memAt (l ++ r) a = (memAt l a).or (memAt r a) := by
  induction l with
  | nil => simp [memAt]
  | cons s rest ih =>
    simp only [List.cons_append, memAt]
    split
    · rename_i h
      have : a - s.addr < s.data.length := by simp only [Seg.max] at h; omega
      rw [List.getElem?_eq_getElem this]; rfl
    · exact ih

theorem memAt_foldl (xs : List Seg) (a : Nat) : ∀ acc, memAt (xs.foldl addSorted acc) a = memAt (acc ++ xs) a := by
  induction xs with
  | nil => intro acc; simp
  | cons x xs ih =>
    intro acc
    rw [List.foldl_cons, ih, memAt_append, memAt_addSorted, ← memAt_append]
    simp

/-- merging adjacent segments changes no byte at any address -/
theorem memAt_normalize (segs : List Seg) (a : Nat) : memAt (normalize segs) a = memAt segs a := by
  simpa [normalize] using memAt_foldl segs a []


/-! ## through the format sniffing of `load_binary_image` -/

theorem joinLines_ascii (recs : List Bytes) (h : ∀ r ∈ recs, Clean r) : (joinLines recs).any (fun c => decide (c.toNat ≥ 128)) = false := by
  induction recs with
  | nil => rfl
  | cons r rs ih =>
    rw [joinLines, List.any_append, List.any_cons, ih (fun x hx => h x (by simp [hx]))]
    have : r.any (fun c => decide (c.toNat ≥ 128)) = false := by
      rw [List.any_eq_false]
      intro c hc
      have := ((h r (by simp)).2 c hc).2
      simp only [decide_eq_true_eq]; omega
    rw [this]; rfl

theorem addSorted_ne_nil (acc : List Seg) (s : Seg) : addSorted acc s ≠ [] := by
  induction acc, s using addSorted.induct with
  | case1 s => simp [addSorted]
  | case2 l s heq => simp [addSorted, heq]
  | case3 l s hne => simp [addSorted, hne]
  | case4 x y rest s _ => simp [addSorted]

theorem normalize_ne_nil (segs : List Seg) (h : segs ≠ []) : normalize segs ≠ [] := by
  unfold normalize
  suffices ∀ (l acc : List Seg), acc ≠ [] → l.foldl addSorted acc ≠ [] by
    cases segs with
    | nil => exact absurd rfl h
    | cons x xs => rw [List.foldl_cons]; exact this xs _ (addSorted_ne_nil [] x)
  intro l
  induction l with
  | nil => intro acc h; exact h
  | cons x xs ih => intro acc _; rw [List.foldl_cons]; exact ih _ (addSorted_ne_nil acc x)

theorem unpackSrec_packIhex (t a : Nat) (d : Bytes) : unpackSrec (packIhex t a d) = .error .fmt := by
  unfold unpackSrec
  have hlen : ¬ (packIhex t a d).length < 6 := by
    simp [packIhex, hexBytes_length]; omega
  rw [if_neg hlen]
  simp [packIhex, hexBytes]

theorem ihexRecs_shape (cs : List Seg) : ∀ ela, ∀ r ∈ ihexRecs ela cs, ∃ t a d, r = packIhex t a d := by
  induction cs with
  | nil => intro ela r hr; simp [ihexRecs] at hr
  | cons c cs ih =>
    intro ela r hr
    simp only [ihexRecs] at hr
    split at hr
    · simp only [List.mem_cons] at hr
      rcases hr with rfl | rfl | hr
      · exact ⟨_, _, _, rfl⟩
      · exact ⟨_, _, _, rfl⟩
      · exact ih _ r hr
    · simp only [List.mem_cons] at hr
      rcases hr with rfl | hr
      · exact ⟨_, _, _, rfl⟩
      · exact ih _ r hr

theorem ihexFooter_shape (exec : Option Nat) : ∀ r ∈ ihexFooter exec, ∃ t a d, r = packIhex t a d := by
  intro r hr
  cases exec with
  | none => simp only [ihexFooter, List.nil_append, List.mem_singleton] at hr; exact ⟨_, _, _, hr⟩
  | some e =>
    simp only [ihexFooter, List.cons_append, List.nil_append, List.mem_cons, List.not_mem_nil, or_false] at hr
    rcases hr with rfl | rfl <;> exact ⟨_, _, _, rfl⟩

theorem runLines_head_ok (step : DecState → Bytes → Except HErr DecState) (st st' : DecState) (r : Bytes) (rs : List Bytes)
    (h : runLines step st (r :: rs) = .ok st') : ∃ st1, step st r = .ok st1 := by
  simp only [runLines] at h
  cases hs : step st r with
  | error e => rw [hs] at h; cases h
  | ok st1 => exact ⟨st1, rfl⟩

theorem ihexStep_ok_unpack (st st1 : DecState) (r : Bytes) (h : ihexStep st r = .ok st1) : ∃ v, unpackIhex r = .ok v := by
  unfold ihexStep at h
  cases hu : unpackIhex r with
  | error e => rw [hu] at h; cases h
  | ok v => exact ⟨v, rfl⟩

theorem srecStep_ok_unpack (st st1 : DecState) (r : Bytes) (h : srecStep st r = .ok st1) : ∃ v, unpackSrec r = .ok v := by
  unfold srecStep at h
  cases hu : unpackSrec r with
  | error e => rw [hu] at h; cases h
  | ok v => exact ⟨v, rfl⟩

theorem decode_first_ok (step : DecState → Bytes → Except HErr DecState) (recs : List Bytes) (hc : ∀ r ∈ recs, Clean r)
    (img : Image) (h : (match runLines step {} (cleanLines (joinLines recs)) with
      | .error e => Except.error e | .ok st => Except.ok st.image) = .ok img) (hne : recs ≠ []) :
    ∃ r rs st1, recs = r :: rs ∧ step {} r = .ok st1 ∧ firstLine (joinLines recs) = r := by
  cases recs with
  | nil => exact absurd rfl hne
  | cons r rs =>
    rw [cleanLines_joinLines _ hc] at h
    cases hr : runLines step {} (r :: rs) with
    | error e => rw [hr] at h; cases h
    | ok st' =>
      obtain ⟨st1, h1⟩ := runLines_head_ok _ _ _ _ _ hr
      exact ⟨r, rs, st1, rfl, h1, firstLine_joinLines r rs (hc r (by simp))⟩

theorem load_ihex_roundtrip_from (exec : Option Nat) (segs : List Seg) (h : SegsFrom 0 segs) (hne : segs ≠ [])
    (he : ∀ e, exec = some e → e < 2 ^ 32) :
    ∃ text, ihexEncode exec segs = .ok text ∧ loadText text = .ok ⟨normalize segs, exec⟩ := by
  obtain ⟨text, henc, hdec, htext⟩ := ihex_roundtrip_from exec segs h he
  refine ⟨text, henc, ?_⟩
  have hclean : ∀ r ∈ ihexRecs 0 ((normalize segs).flatMap Seg.chunks) ++ ihexFooter exec, Clean r := by
    intro r hr
    rw [List.mem_append] at hr
    rcases hr with hr | hr
    · exact clean_ihexRecs _ _ r hr
    · exact clean_ihexFooter _ r hr
  have hrne : ihexRecs 0 ((normalize segs).flatMap Seg.chunks) ++ ihexFooter exec ≠ [] := by
    cases exec <;> simp [ihexFooter]
  have hdec' := hdec
  unfold ihexDecode at hdec'
  rw [htext] at hdec'
  obtain ⟨r, rs, st1, hrs, hstep, hfirst⟩ := decode_first_ok ihexStep _ hclean _ hdec' hrne
  obtain ⟨v, hv⟩ := ihexStep_ok_unpack _ _ _ hstep
  have hshape : ∃ t a d, r = packIhex t a d := by
    have hr : r ∈ ihexRecs 0 ((normalize segs).flatMap Seg.chunks) ++ ihexFooter exec := by rw [hrs]; simp
    rw [List.mem_append] at hr
    rcases hr with hr | hr
    · exact ihexRecs_shape _ _ r hr
    · exact ihexFooter_shape _ r hr
  obtain ⟨t, a, d, hr⟩ := hshape
  unfold loadText
  rw [htext, joinLines_ascii _ hclean]
  simp only [Bool.false_eq_true, if_false, hfirst]
  rw [hr, unpackSrec_packIhex, ← hr, hv]
  simp only []
  rw [← htext, hdec]
  have : (normalize segs).isEmpty = false := by
    cases hn : normalize segs with
    | nil => exact absurd hn (normalize_ne_nil segs hne)
    | cons _ _ => rfl
  simp [this]

theorem load_srec_roundtrip_from (exec : Option Nat) (segs : List Seg) (h : SegsFrom 0 segs) (hne : segs ≠ [])
    (he : ∀ e, exec = some e → e < 2 ^ 32) (hn : ((normalize segs).flatMap Seg.chunks).length ≤ 0xffffff) :
    ∃ text, srecEncode exec segs = .ok text ∧ loadText text = .ok ⟨normalize segs, exec⟩ := by
  obtain ⟨text, footer, henc, hdec, htext, hf, hfne⟩ := srec_roundtrip_from exec segs h he hn
  refine ⟨text, henc, ?_⟩
  have hclean : ∀ r ∈ ((normalize segs).flatMap Seg.chunks).map (fun c => packSrec 51 4 c.addr c.data) ++ footer, Clean r := by
    intro r hr
    rw [List.mem_append] at hr
    rcases hr with hr | hr
    · rw [List.mem_map] at hr
      obtain ⟨c, _, rfl⟩ := hr
      exact clean_packSrec _ _ _ _ (by decide)
    · exact clean_srecFooter _ _ footer hf r hr
  have hrne : ((normalize segs).flatMap Seg.chunks).map (fun c => packSrec 51 4 c.addr c.data) ++ footer ≠ [] := by
    simp [hfne]
  have hdec' := hdec
  unfold srecDecode at hdec'
  rw [htext] at hdec'
  obtain ⟨r, rs, st1, hrs, hstep, hfirst⟩ := decode_first_ok srecStep _ hclean _ hdec' hrne
  obtain ⟨v, hv⟩ := srecStep_ok_unpack _ _ _ hstep
  unfold loadText
  rw [htext, joinLines_ascii _ hclean]
  simp only [Bool.false_eq_true, if_false, hfirst, hv]
  rw [← htext, hdec]
  have : (normalize segs).isEmpty = false := by
    cases hn : normalize segs with
    | nil => exact absurd hn (normalize_ne_nil segs hne)
    | cons _ _ => rfl
  simp [this]


/-! ## checksums detect a changed byte -/

theorem sumBytes_append (a b : Bytes) : sumBytes (a ++ b) = sumBytes a + sumBytes b := by
  induction a with
  | nil => simp [sumBytes]
  | cons x xs ih => simp [sumBytes, ih]; omega

theorem sum_of_crcIhex (v : Bytes) (h : v.getLast? = some (crcIhex v.dropLast)) : sumBytes v % 256 = 0 := by
  rcases nil_or_snoc v with rfl | ⟨init, last, rfl⟩
  · simp at h
  · rw [List.getLast?_concat, List.dropLast_concat] at h
    simp only [Option.some.injEq] at h
    rw [sumBytes_append, h]
    simp only [sumBytes, crcIhex, UInt8.toNat_ofNat']
    omega

theorem sum_of_crcSrec (v : Bytes) (h : v.getLast? = some (crcSrec v.dropLast)) : sumBytes v % 256 = 255 := by
  rcases nil_or_snoc v with rfl | ⟨init, last, rfl⟩
  · simp at h
  · rw [List.getLast?_concat, List.dropLast_concat] at h
    simp only [Option.some.injEq] at h
    rw [sumBytes_append, h]
    simp only [sumBytes, crcSrec, UInt8.toNat_ofNat']
    omega

theorem sum_single_byte (pre post : Bytes) (x y : UInt8) (h : sumBytes (pre ++ x :: post) % 256 = sumBytes (pre ++ y :: post) % 256) :
    x = y := by
  simp only [sumBytes_append, sumBytes] at h
  have hx := x.toNat_lt
  have hy := y.toNat_lt
  apply UInt8.toNat_inj.mp
  omega

theorem hexBytes_inj (a b : Bytes) (h : hexBytes a = hexBytes b) : a = b := by
  have := congrArg unhex h
  rw [unhex_hexBytes, unhex_hexBytes] at this
  exact Option.some.inj this

theorem unpackIhex_ok_sum (v : Bytes) (r : Nat × Nat × Bytes) (h : unpackIhex (58 :: hexBytes v) = .ok r) : sumBytes v % 256 = 0 := by
  unfold unpackIhex at h
  split at h
  · cases h
  · simp only [ne_eq, not_true_eq_false, if_false, unhex_hexBytes] at h
    split at h
    · rename_i value sz ah al ty tl hlen
      split at h
      · cases h
      · split at h
        · cases h
        · rename_i hcrc
          apply sum_of_crcIhex
          rw [Decidable.not_not] at hcrc
          rw [← hcrc]
          rename_i hsz
          rw [Decidable.not_not] at hsz
          cases tl with
          | nil => simp at hsz
          | cons z zs => simp [List.getLast?_cons_cons]
    · cases h

theorem unpackSrec_ok_sum (t : UInt8) (v : Bytes) (r : UInt8 × Nat × Bytes) (h : unpackSrec (83 :: t :: hexBytes v) = .ok r) :
    sumBytes v % 256 = 255 := by
  unfold unpackSrec at h
  split at h
  · cases h
  · simp only [ne_eq, not_true_eq_false, if_false, unhex_hexBytes] at h
    split at h
    · cases h
    · split at h
      · cases h
      · split at h
        · cases h
        · split at h
          · cases h
          · rename_i hcrc
            rw [Decidable.not_not] at hcrc
            exact sum_of_crcSrec _ hcrc

end SpsdkVerif.HexFmt
