/- C07 helper lemmas, part 1: integer codecs, headers, slices, placement, and the closed forms of the generated
   arithmetic (`Generated/HabFuns.lean`) the model reads through its `…N` wrappers. -/
import SpsdkVerif.Model.HabWF
import SpsdkVerif.Proofs.Misc

namespace SpsdkVerif.Hab
open SpsdkVerif SpsdkVerif.Misc SpsdkVerif.Generated

/-! ### integer codecs -/
theorem beDec_beEnc (n v : Nat) (h : v < 256 ^ n) : beDec (beEnc n v) = v := by
  rw [beDec_beEnc_mod, Nat.mod_eq_of_lt h]

theorem leEnc_length (n v : Nat) : (leEnc n v).length = n := by simp [leEnc, beEnc_length']

theorem leDec_leEnc (n v : Nat) (h : v < 256 ^ n) : leDec (leEnc n v) = v := by
  simp [leDec, leEnc, beDec_beEnc n v h]

@[simp] theorem be16_length (v : Nat) : (be16 v).length = 2 := beEnc_length' 2 v
@[simp] theorem be32_length (v : Nat) : (be32 v).length = 4 := beEnc_length' 4 v
@[simp] theorem be64_length (v : Nat) : (be64 v).length = 8 := beEnc_length' 8 v
@[simp] theorem le32_length (v : Nat) : (le32 v).length = 4 := leEnc_length 4 v
@[simp] theorem zeros_length (n : Nat) : (zeros n).length = n := by simp [zeros]

theorem u8_toNat (n : Nat) (h : n < 256) : (u8 n).toNat = n := by
  simp [u8, UInt8.toNat_ofNat', Nat.mod_eq_of_lt h]

theorem be16_eq (v : Nat) : be16 v = [u8 (v / 256 % 256), u8 (v % 256)] := by
  simp [be16, beEnc, u8]

/-! ### headers -/
@[simp] theorem hdr_length (t l p : Nat) : (hdr t l p).length = 4 := by simp [hdr]

theorem parseHdr_hdr (t l p : Nat) (rest : Bytes) (ht : t < 256) (hl : l < 65536) (hp : p < 256) :
    parseHdr (hdr t l p ++ rest) = some (t, l, p) := by
  have h1 : l / 256 % 256 = l / 256 := Nat.mod_eq_of_lt (by omega)
  simp only [hdr, be16_eq, List.cons_append, List.nil_append, parseHdr, h1]
  rw [u8_toNat t ht, u8_toNat p hp, u8_toNat (l / 256) (by omega), u8_toNat (l % 256) (by omega)]
  congr 3
  omega

/-! ### slices -/
theorem slice_append_mid (a b c : Bytes) : slice (a ++ b ++ c) a.length b.length = b := by
  simp [slice, List.append_assoc]

theorem slice_append_mid' (a b c : Bytes) (n m : Nat) (hn : n = a.length) (hm : m = b.length) :
    slice (a ++ b ++ c) n m = b := by
  subst hn hm; exact slice_append_mid a b c

theorem drop_append_len (a b : Bytes) (n : Nat) (h : n = a.length) : (a ++ b).drop n = b := by
  subst h; simp

theorem take_append_len (a b : Bytes) (n : Nat) (h : n = a.length) : (a ++ b).take n = a := by
  subst h; simp

theorem slice_length_le (b : Bytes) (o n : Nat) : (slice b o n).length ≤ n := by
  simp [slice]; omega

/-- a slice that lies inside a prefix is a slice of the prefix -/
theorem slice_take (b : Bytes) (o n k : Nat) (h : o + n ≤ k) : slice (b.take k) o n = slice b o n := by
  simp only [slice, List.drop_take, List.take_take]
  congr 1
  omega

/-- a slice inside the left part of an append -/
theorem slice_append_left (a b : Bytes) (o n : Nat) (h : o + n ≤ a.length) : slice (a ++ b) o n = slice a o n := by
  unfold slice
  rw [List.drop_append_of_le_length (by omega), List.take_append_of_le_length (by simp; omega)]

/-- a slice behind the left part of an append -/
theorem slice_append_right (a b : Bytes) (o n : Nat) (h : a.length ≤ o) :
    slice (a ++ b) o n = slice b (o - a.length) n := by
  unfold slice
  obtain ⟨k, rfl⟩ : ∃ k, o = a.length + k := ⟨o - a.length, by omega⟩
  rw [List.drop_append, List.drop_of_length_le (by omega)]
  simp

/-- a slice of a slice -/
theorem slice_slice (b : Bytes) (o n o' n' : Nat) (h : o' + n' ≤ n) : slice (slice b o n) o' n' = slice b (o + o') n' := by
  unfold slice
  rw [List.drop_take, List.take_take, List.drop_drop]
  congr 1
  omega

theorem rdBE_at (a c : Bytes) (n v off : Nat) (h : v < 256 ^ n) (ho : off = a.length) :
    rdBE (a ++ beEnc n v ++ c) off n = some v := by
  subst ho
  have : slice (a ++ beEnc n v ++ c) a.length n = beEnc n v := by
    have := slice_append_mid a (beEnc n v) c
    rwa [beEnc_length'] at this
  simp only [rdBE, this, beEnc_length', beDec_beEnc n v h, ↓reduceIte]

theorem rdLE_at (a c : Bytes) (n v off : Nat) (h : v < 256 ^ n) (ho : off = a.length) :
    rdLE (a ++ leEnc n v ++ c) off n = some v := by
  subst ho
  have : slice (a ++ leEnc n v ++ c) a.length n = leEnc n v := by
    have := slice_append_mid a (leEnc n v) c
    rwa [leEnc_length] at this
  simp only [rdLE, this, leEnc_length, leDec_leEnc n v h, ↓reduceIte]

/-! ### placement -/
theorem placeAt_length (acc b : Bytes) (off : Nat) (h : acc.length ≤ off) :
    (placeAt acc off b).length = off + b.length := by
  simp [placeAt]; omega

theorem placeAt_slice (acc b : Bytes) (off : Nat) (h : acc.length ≤ off) :
    slice (placeAt acc off b) off b.length = b := by
  unfold placeAt
  have := slice_append_mid' (acc ++ zeros (off - acc.length)) b [] off b.length (by simp; omega) rfl
  rwa [List.append_nil] at this

theorem placeAt_keeps (acc b : Bytes) (off o n : Nat) (h : o + n ≤ acc.length) :
    slice (placeAt acc off b) o n = slice acc o n := by
  unfold placeAt
  rw [List.append_assoc]
  exact slice_append_left _ _ _ _ h

/-- zero fill between the old end and the new block -/
theorem placeAt_gap (acc b : Bytes) (off o n : Nat) (h1 : acc.length ≤ o) (h2 : o + n ≤ off) :
    slice (placeAt acc off b) o n = zeros n := by
  unfold placeAt
  rw [List.append_assoc, slice_append_right _ _ _ _ h1, slice_append_left _ _ _ _ (by simp; omega)]
  simp [slice, zeros, List.drop_replicate, List.take_replicate]
  omega

/-! ### alignment -/
theorem alignUp_ge (n a : Nat) (ha : 0 < a) : n ≤ alignUp n a := by
  unfold alignUp
  have h1 := Nat.div_add_mod (n + (a - 1)) a
  have h2 := Nat.mod_lt (n + (a - 1)) ha
  rw [Nat.mul_comm] at h1
  omega

theorem alignUp_mod (n a : Nat) : alignUp n a % a = 0 := by
  unfold alignUp; exact Nat.mul_mod_left _ _

theorem alignUp_lt (n a : Nat) (ha : 0 < a) : alignUp n a < n + a := by
  unfold alignUp
  have h1 := Nat.div_add_mod (n + (a - 1)) a
  have h2 := Nat.mod_lt (n + (a - 1)) ha
  rw [Nat.mul_comm] at h1
  omega

theorem alignUp_of_mod (n a : Nat) (ha : 0 < a) (h : n % a = 0) : alignUp n a = n := by
  have h1 := alignUp_ge n a ha
  have h2 := alignUp_lt n a ha
  have h3 := alignUp_mod n a
  have e1 := Nat.div_add_mod n a
  have e2 := Nat.div_add_mod (alignUp n a) a
  rw [h] at e1; rw [h3] at e2
  have : alignUp n a / a = n / a := by
    apply Nat.le_antisymm
    · apply Nat.le_of_lt_succ
      apply (Nat.mul_lt_mul_left ha).1
      rw [Nat.mul_succ]; omega
    · apply Nat.div_le_div_right h1
  rw [this] at e2; omega

theorem padAlign_length (d : Bytes) (a : Nat) (ha : 0 < a) : (padAlign d a).length = alignUp d.length a := by
  have := alignUp_ge d.length a ha
  simp [padAlign]; omega

theorem padAlign_take (d : Bytes) (a : Nat) : (padAlign d a).take d.length = d := by
  simp [padAlign]

/-! ### closed forms of the generated arithmetic

The generated functions (`Generated/HabFuns.lean`) are re-translated from the current source on every run, so the SHAPE of their
bodies (which arithmetic identity is used for an alignment, `if`/`else` against early return, temporaries, `divmod`) is not
fixed.  Every bridge lemma below therefore states `generated args = closed form` and proves it with `py_eval`, which normalises
both sides (Python floor division / modulo on non-negative operands become `/`, `%`; Boolean tests become propositions; every
`if`/`match` of either side is split) and closes each branch with linear arithmetic.  No lemma names or rewrites a pattern of
the generated body. -/

/-- see the section comment -/
macro "py_eval" : tactic =>
  `(tactic| (
      (try simp (disch := omega) only [pyMod, pyFloorDiv, Int.fdiv_eq_ediv_of_nonneg, Int.fmod_eq_emod_of_nonneg,
        bne_iff_ne, ne_eq, ite_not, beq_iff_eq, decide_eq_true_eq, Bool.and_eq_true, Bool.or_eq_true, Bool.not_eq_true',
        gt_iff_lt, ge_iff_le]) <;>
      (repeat' split) <;>
      (try simp only [natOf, boolOf, Except.ok.injEq, reduceCtorEq]) <;>
      first
        | done
        | (with_reducible rfl)
        | omega
        | (exfalso; omega)
        | (simp only [csfAbs] at * <;> omega)
        | (simp_all (config := { decide := true }) <;> omega)))

theorem alignOffset_nat (n : Nat) : HabFuns.alignOffset (n : Int) = .ok ((csfAbs n : Nat) : Int) := by
  unfold HabFuns.alignOffset csfAbs
  py_eval

theorem alignOffset_int (x : Int) (hx : 0 ≤ x) : HabFuns.alignOffset x = .ok ((csfAbs x.toNat : Nat) : Int) := by
  have := alignOffset_nat x.toNat
  rwa [Int.toNat_of_nonneg hx] at this

/-- `py_eval` for bodies that call `alignOffset` (on any non-negative argument expression) -/
macro "py_eval_align" : tactic =>
  `(tactic| ((try simp (disch := omega) only [alignOffset_int, ← Int.natCast_add, Int.toNat_natCast]) <;> py_eval))

theorem nat_and_255 (n : Nat) : n &&& 255 = n % 256 := Nat.and_two_pow_sub_one_eq_mod n 8
theorem nat_and_15 (n : Nat) : n &&& 15 = n % 16 := Nat.and_two_pow_sub_one_eq_mod n 4

/-- `py_eval` for bodies with shifts / byte masks of non-negative operands: `<<`, `>>`, `& 0xFF` become `*`, `/`, `%` first, so that
    `x & 0xFF` and `x % 256`, `x << 4` and `x * 16`, `x >> 8` and `x // 256` are the same to the proof -/
macro "py_bits" : tactic =>
  `(tactic| ((try simp only [pyAnd_nat, pyShl_nat, pyShr_nat, Int.reduceToNat, Int.toNat_natCast, nat_and_255, nat_and_15,
      Nat.shiftLeft_eq, Nat.shiftRight_eq_div_pow, Nat.reducePow]) <;> py_eval))

theorem csfAbs_gt (n : Nat) : n < csfAbs n := by
  unfold csfAbs
  have := Nat.mod_lt n (show 0 < 16 by decide)
  have h1 := Nat.div_add_mod (n + (16 - n % 16) + 4095) 4096
  have h2 := Nat.mod_lt (n + (16 - n % 16) + 4095) (show 0 < 4096 by decide)
  omega

theorem csfAbs_mod (n : Nat) : csfAbs n % 4096 = 0 := by unfold csfAbs; exact Nat.mul_mod_left _ _

theorem csfOffsetN_eq (ils n ivtOff : Nat) : csfOffsetN ils n ivtOff = csfAbs (ils + n) - ivtOff := by
  unfold csfOffsetN HabFuns.csfOffset
  py_eval_align

theorem appOffsetN_eq (ils ivtOff : Nat) : appOffsetN ils ivtOff = ils - ivtOff := by
  unfold appOffsetN HabFuns.appOffset; py_eval

theorem ivtSelfN_eq (start ivtOff : Nat) : ivtSelfN start ivtOff = start + ivtOff := by
  unfold ivtSelfN HabFuns.ivtSelfAddress; py_eval

theorem ivtBdtN_eq (self : Nat) : ivtBdtN self = self + 32 := by
  unfold ivtBdtN HabFuns.ivtBdtAddress Spec.ivtSize; py_eval

theorem ivtDcdN_eq (self : Nat) : ivtDcdN self = self + 64 := by
  unfold ivtDcdN HabFuns.ivtDcdAddress; py_eval

theorem bdtSegOffN_eq : bdtSegOffN = 32 := by
  unfold bdtSegOffN HabFuns.bdtSegOffset; py_eval

theorem dcdSegOffN_eq : dcdSegOffN = 64 := by
  unfold dcdSegOffN HabFuns.dcdSegOffset; py_eval

theorem bdtLenN_eq (a b c : Nat) : bdtLenN a b c = a + b + c := by
  unfold bdtLenN HabFuns.bdtAppLength; py_eval

theorem blockBaseN_eq (s i o : Nat) : blockBaseN s i o = s + i + o := by
  unfold blockBaseN HabFuns.blockBase; py_eval

theorem blockStartN_eq (i o : Nat) : blockStartN i o = i + o := by
  unfold blockStartN HabFuns.blockStart; py_eval

theorem signedPrefixN_eq (i o : Nat) : signedPrefixN i o = i + o := by
  unfold signedPrefixN HabFuns.signedPrefixLen; py_eval

/-- the three flag values the builder is used with (`0` plain, `0x08` authenticated, `0x0C` encrypted); closed terms, evaluated -/
theorem flags_cases (f : Nat) (h : f = 0 ∨ f = 8 ∨ f = 12) :
    isAuth f = (f != 0) ∧ isEnc f = (f == 12) ∧ appAligned f = (f != 0) ∧ bdtEndIsCsf f = (f != 0) := by
  rcases h with h | h | h <;> subst h <;> refine ⟨?_, ?_, ?_, ?_⟩ <;> decide

theorem ivtCsfN_eq (flags ils n ivtOff self : Nat) (h : flags = 0 ∨ flags = 8 ∨ flags = 12) (hi : ivtOff ≤ csfAbs (ils + n)) :
    ivtCsfN flags ils n ivtOff self = if flags = 0 then 0 else self + (csfAbs (ils + n) - ivtOff) := by
  rcases h with h | h | h <;> subst h <;> unfold ivtCsfN HabFuns.ivtCsfAddress <;> py_eval_align

theorem secretKeyLocN_eq (ils n start : Nat) : secretKeyLocN ils n start = start + csfAbs (ils + n) + 0x2000 := by
  unfold secretKeyLocN HabFuns.secretKeyLocation
  py_eval_align

theorem nonceLenN_cases (n : Nat) :
    nonceLenN n = if n < 65536 then 13 else if n < 16777216 then 12 else 11 := by
  unfold nonceLenN HabFuns.aeadNonceLen
  py_eval

theorem macLenSet_eq (n : Nat) :
    HabFuns.macLenSet (n : Int) = if 4 ≤ n ∧ n ≤ 16 ∧ n % 2 = 0 then .ok (n : Int) else .error .spsdk := by
  unfold HabFuns.macLenSet
  py_eval

theorem macLenOk_iff (n : Nat) : macLenOk n = true ↔ 4 ≤ n ∧ n ≤ 16 ∧ n % 2 = 0 := by
  unfold macLenOk
  rw [macLenSet_eq]
  by_cases h : 4 ≤ n ∧ n ≤ 16 ∧ n % 2 = 0 <;> simp [h]

end SpsdkVerif.Hab
