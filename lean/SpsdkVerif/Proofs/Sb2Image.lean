/-
C04 helper lemmas, image layer: image header, key blob, V2.1 and V2.0 files through the ROM model.
INTERFACE lemmas (used by Properties/C04.lean) are marked `-- INTERFACE`: keep their names and statements.
-/
import SpsdkVerif.Proofs.Sb2Section
import SpsdkVerif.Crypto.Break

namespace SpsdkVerif.Sb2
open SpsdkVerif SpsdkVerif.Sb2.Rom
open SpsdkVerif.Misc (Bytes beEnc beDec leEnc leDec)
open SpsdkVerif.Crypto (CryptoOps CryptoLaws Break xorBytes zeroPad16 zeros hmac kwWrap kwUnwrap)
open SpsdkVerif.Generated

variable {c : CryptoOps}

/-! ## V2.1 -/

-- INTERFACE
theorem buildV21_length (h : CryptoLaws c) (cfg : Cfg) (wf : Spec.WF21 cfg) :
    (buildV21 c cfg).length = Spec.fileLen21 cfg := by
  sorry

-- INTERFACE: the ROM model accepts what the builder model produces and reports exactly the given content
theorem romV21_buildV21 (h : CryptoLaws c) (cfg : Cfg) (wf : Spec.WF21 cfg) :
    Rom.romV21 c cfg.kek (buildV21 c cfg) = .ok (Spec.expected21 cfg) := by
  sorry

-- INTERFACE: the header fields locate the parts of the file
theorem header_describes_file_v21 (h : CryptoLaws c) (cfg : Cfg) (wf : Spec.WF21 cfg) :
    (buildV21 c cfg).length = (Spec.expected21 cfg).imageBlocks * 16 ∧
    (buildV21 c cfg).drop ((Spec.expected21 cfg).firstBootTagBlock * 16) = cfg.bsData21 c ∧
    (cfg.bsData21 c).length = Spec.sectionsLen cfg.sections ∧
    Rom.slice (buildV21 c cfg) (Spec.expected21 cfg).offsetToCert cfg.certBlock.length = cfg.certBlock ∧
    Rom.slice (buildV21 c cfg) ((Spec.expected21 cfg).keyBlobBlock * 16) ((Spec.expected21 cfg).keyBlobBlockCount * 16)
      = keyBlob c cfg.kek cfg.dek cfg.mac ∧
    (buildV21 c cfg).take ((Spec.expected21 cfg).headerBlocks * 16) = encodeImageHdr cfg.header21 := by
  sorry

-- INTERFACE: what is signed, and where the signature sits
theorem signed_range_v21 (h : CryptoLaws c) (cfg : Cfg) (wf : Spec.WF21 cfg) :
    (buildV21 c cfg).take (Spec.expected21 cfg).signedLen = cfg.signed21 c ∧
    Rom.slice (buildV21 c cfg) (Spec.expected21 cfg).signedLen cfg.signature.length = cfg.signature ∧
    (Spec.expected21 cfg).signedLen + cfg.signature.length = (Spec.expected21 cfg).firstBootTagBlock * 16 := by
  sorry

-- INTERFACE: a different KEK is refused at the key blob — unless RFC 3394 integrity is broken
theorem wrong_kek_v21 (h : CryptoLaws c) (cfg : Cfg) (wf : Spec.WF21 cfg) (kek' : Bytes) (hk : kek' ≠ cfg.kek) :
    Rom.romV21 c kek' (buildV21 c cfg) = .error .badKeyBlob ∨ Break c := by
  sorry

/-! ## V2.0 -/

-- INTERFACE
theorem body20_length (h : CryptoLaws c) (cfg : Cfg) (signed : Bool) (wf : Spec.WF20 cfg signed) :
    (cfg.body20 c signed).length = Spec.bodyLen20 cfg signed := by
  sorry

-- INTERFACE
theorem romV20_buildV20 (h : CryptoLaws c) (cfg : Cfg) (signed : Bool) (wf : Spec.WF20 cfg signed) :
    Rom.romV20 c cfg.kek (buildV20 c cfg signed) = .ok (Spec.expected20 cfg signed) := by
  sorry

-- INTERFACE
theorem wrong_kek_v20 (h : CryptoLaws c) (cfg : Cfg) (signed : Bool) (wf : Spec.WF20 cfg signed) (kek' : Bytes)
    (hk : kek' ≠ cfg.kek) :
    Rom.romV20 c kek' (buildV20 c cfg signed) = .error .badKeyBlob ∨ Break c := by
  sorry

end SpsdkVerif.Sb2
