/-
C04 helper lemmas, image layer: image header, key blob, V2.1 and V2.0 files through the ROM model.
INTERFACE lemmas (used by Properties/C04.lean) are marked `-- INTERFACE`: keep their names and statements.
-/
import SpsdkVerif.Proofs.Sb2Section
import SpsdkVerif.Crypto.Break

set_option linter.unusedSimpArgs false
set_option linter.unusedVariables false

namespace SpsdkVerif.Sb2
open SpsdkVerif SpsdkVerif.Sb2.Rom
open SpsdkVerif.Misc (Bytes beEnc beDec leEnc leDec)
open SpsdkVerif.Crypto (CryptoOps CryptoLaws Break xorBytes zeroPad16 zeros hmac kwWrap kwUnwrap)
open SpsdkVerif.Generated

variable {c : CryptoOps}

/-! ## generic helpers -/


theorem splitW_flatten (pieces : List Bytes) (ws : List Nat) (hw : pieces.map List.length = ws) (rest : Bytes) :
    Rom.splitW ws (pieces.flatten ++ rest) = some pieces := by
  subst hw
  induction pieces with
  | nil => simp [Rom.splitW]
  | cons p ps ih =>
    simp only [List.map_cons, List.flatten_cons, Rom.splitW, List.append_assoc]
    rw [if_neg (by simp), List.drop_left, ih, List.take_left]

theorem splitW_append (ws : List Nat) (a b : Bytes) (r : List Bytes) (hr : Rom.splitW ws a = some r) :
    Rom.splitW ws (a ++ b) = some r := by
  induction ws generalizing a r with
  | nil => simpa [Rom.splitW] using hr
  | cons w ws ih =>
    unfold Rom.splitW at hr ⊢
    by_cases hl : a.length < w
    · simp [hl] at hr
    · rw [if_neg hl] at hr
      rw [if_neg (by simp; omega)]
      cases hs : Rom.splitW ws (a.drop w) with
      | none => simp [hs] at hr
      | some r' =>
        rw [hs] at hr
        have : (a ++ b).drop w = a.drop w ++ b := by
          rw [List.drop_append_of_le_length (by omega)]
        rw [this, ih _ _ hs]
        have : (a ++ b).take w = a.take w := by
          rw [List.take_append_of_le_length (by omega)]
        rw [this]
        exact hr

theorem and_pow_ne_zero_iff (x i : Nat) : (x &&& 2 ^ i ≠ 0) ↔ x / 2 ^ i % 2 = 1 := by
  have ht : x.testBit i = decide (x / 2 ^ i % 2 = 1) := Nat.testBit_eq_decide_div_mod_eq
  by_cases h : x / 2 ^ i % 2 = 1
  · simp only [h, iff_true]
    intro h0
    have : (x &&& 2 ^ i).testBit i = true := by
      rw [Nat.testBit_and, Nat.testBit_two_pow, ht]; simp [h]
    rw [h0] at this
    simp at this
  · simp only [h, iff_false, ne_eq, Decidable.not_not]
    apply Nat.eq_of_testBit_eq
    intro j
    rw [Nat.testBit_and, Nat.testBit_two_pow]
    by_cases hij : i = j
    · subst hij; simp [ht, h]
    · simp [hij]

theorem flags_sha_iff (x : Nat) : (x &&& 0x8000 ≠ 0) ↔ x / 0x8000 % 2 = 1 := and_pow_ne_zero_iff x 15
theorem flags_signed_iff (x : Nat) : (x &&& 8 ≠ 0) ↔ x / 8 % 2 = 1 := and_pow_ne_zero_iff x 3


/-- every field of the image header fits its slot -/
structure HdrOk (h : ImageHdr) : Prop where
  nonce : h.nonce.length = 16
  padding : h.padding.length = 8
  major : h.major < 256
  minor : h.minor < 256
  flags : h.flags < 65536
  imageBlocks : h.imageBlocks < 2 ^ 32
  firstBootTagBlock : h.firstBootTagBlock < 2 ^ 32
  firstBootSectionId : h.firstBootSectionId < 2 ^ 32
  offsetToCert : h.offsetToCert < 2 ^ 32
  headerBlocks : h.headerBlocks < 65536
  keyBlobBlock : h.keyBlobBlock < 65536
  keyBlobBlockCount : h.keyBlobBlockCount < 65536
  maxSectionMacCount : h.maxSectionMacCount < 65536
  timestamp : h.timestamp < 2 ^ 64
  productVersion : Spec.bcdOk h.productVersion
  componentVersion : Spec.bcdOk h.componentVersion
  buildNumber : h.buildNumber < 2 ^ 32

def ImageHdr.toRom (h : ImageHdr) : Rom.Hdr :=
  { nonce := h.nonce, major := h.major, minor := h.minor, flags := h.flags, imageBlocks := h.imageBlocks,
    firstBootTagBlock := h.firstBootTagBlock, firstBootSectionId := h.firstBootSectionId, offsetToCert := h.offsetToCert,
    headerBlocks := h.headerBlocks, keyBlobBlock := h.keyBlobBlock, keyBlobBlockCount := h.keyBlobBlockCount,
    maxSectionMacCount := h.maxSectionMacCount, timestamp := h.timestamp,
    productVersion := h.productVersion, componentVersion := h.componentVersion, buildNumber := h.buildNumber }

theorem encodeImageHdr_length (h : ImageHdr) (hn : h.nonce.length = 16) (hp : h.padding.length = 8) :
    (encodeImageHdr h).length = 96 := by
  simp [encodeImageHdr, versionWords, leEnc_length, hn, hp, Sb2Consts.imageSignature1, Sb2Consts.imageSignature2]

theorem readImageHdr_encode (h : ImageHdr) (ok : HdrOk h) (rest : Bytes) :
    Rom.readImageHdr (encodeImageHdr h ++ rest) = .ok h.toRom := by
  have e : encodeImageHdr h ++ rest =
      [h.nonce, h.padding.take 4, Sb2Consts.imageSignature1, [u8 h.major], [u8 h.minor], leEnc 2 h.flags,
       leEnc 4 h.imageBlocks, leEnc 4 h.firstBootTagBlock, leEnc 4 h.firstBootSectionId, leEnc 4 h.offsetToCert,
       leEnc 2 h.headerBlocks, leEnc 2 h.keyBlobBlock, leEnc 2 h.keyBlobBlockCount, leEnc 2 h.maxSectionMacCount,
       Sb2Consts.imageSignature2, leEnc 8 h.timestamp,
       leEnc 2 (swap16 h.productVersion.major), leEnc 2 0, leEnc 2 (swap16 h.productVersion.minor), leEnc 2 0,
       leEnc 2 (swap16 h.productVersion.service), leEnc 2 0,
       leEnc 2 (swap16 h.componentVersion.major), leEnc 2 0, leEnc 2 (swap16 h.componentVersion.minor), leEnc 2 0,
       leEnc 2 (swap16 h.componentVersion.service), leEnc 2 0,
       leEnc 4 h.buildNumber, (h.padding.drop 4).take 4].flatten ++ rest := by
    simp [encodeImageHdr, versionWords, List.append_assoc]
  unfold Rom.readImageHdr
  rw [e, splitW_flatten _ _ (by
    simp [Spec.imageHeaderWidths, leEnc_length, ok.nonce, ok.padding, Sb2Consts.imageSignature1, Sb2Consts.imageSignature2])]
  simp only []
  rw [if_neg (by decide)]
  obtain ⟨p0, p1, p2⟩ := ok.productVersion
  obtain ⟨c0, c1, c2⟩ := ok.componentVersion
  rw [leDec_single, leDec_single, u8_toNat _ ok.major, u8_toNat _ ok.minor,
    leDec_leEnc 2 _ (by simpa using ok.flags), leDec_leEnc 4 _ (by simpa using ok.imageBlocks),
    leDec_leEnc 4 _ (by simpa using ok.firstBootTagBlock), leDec_leEnc 4 _ (by simpa using ok.firstBootSectionId),
    leDec_leEnc 4 _ (by simpa using ok.offsetToCert), leDec_leEnc 2 _ (by simpa using ok.headerBlocks),
    leDec_leEnc 2 _ (by simpa using ok.keyBlobBlock), leDec_leEnc 2 _ (by simpa using ok.keyBlobBlockCount),
    leDec_leEnc 2 _ (by simpa using ok.maxSectionMacCount), leDec_leEnc 8 _ (by simpa using ok.timestamp),
    leDec_leEnc 4 _ (by simpa using ok.buildNumber),
    beDec_leEnc_swap16 _ p0, beDec_leEnc_swap16 _ p1, beDec_leEnc_swap16 _ p2,
    beDec_leEnc_swap16 _ c0, beDec_leEnc_swap16 _ c1, beDec_leEnc_swap16 _ c2]
  rfl

/-- seven consecutive parts of a file, the first three of fixed size -/
theorem parts7 (a b d e f g k : Bytes) (la : a.length = 96) (lb : b.length = 32) (ld : d.length = 80) :
    (a ++ b ++ d ++ e ++ f ++ g ++ k).length = 208 + e.length + f.length + g.length + k.length ∧
    (a ++ b ++ d ++ e ++ f ++ g ++ k).take 96 = a ∧
    Rom.slice (a ++ b ++ d ++ e ++ f ++ g ++ k) 96 32 = b ∧
    Rom.slice (a ++ b ++ d ++ e ++ f ++ g ++ k) 128 80 = d ∧
    Rom.slice (a ++ b ++ d ++ e ++ f ++ g ++ k) 208 e.length = e ∧
    Rom.slice (a ++ b ++ d ++ e ++ f ++ g ++ k) (208 + e.length) f.length = f ∧
    Rom.slice (a ++ b ++ d ++ e ++ f ++ g ++ k) (208 + e.length + f.length) g.length = g ∧
    (a ++ b ++ d ++ e ++ f ++ g ++ k).drop (208 + e.length + f.length + g.length) = k ∧
    (a ++ b ++ d ++ e ++ f ++ g ++ k).take (208 + e.length + f.length) = a ++ b ++ d ++ e ++ f ∧
    (a ++ b ++ d ++ e ++ f ++ g ++ k).drop 208 = e ++ (f ++ g ++ k) := by
  refine ⟨?_, ?_, ?_, ?_, ?_, ?_, ?_, ?_, ?_, ?_⟩
  · simp only [List.length_append, la, lb, ld]
  · rw [show a ++ b ++ d ++ e ++ f ++ g ++ k = a ++ (b ++ d ++ e ++ f ++ g ++ k) by simp only [List.append_assoc]]
    exact List.take_left' la
  · rw [show a ++ b ++ d ++ e ++ f ++ g ++ k = a ++ b ++ (d ++ e ++ f ++ g ++ k) by simp only [List.append_assoc]]
    exact slice_mid _ _ _ _ _ la.symm lb.symm
  · rw [show a ++ b ++ d ++ e ++ f ++ g ++ k = (a ++ b) ++ d ++ (e ++ f ++ g ++ k) by simp only [List.append_assoc]]
    exact slice_mid _ _ _ _ _ (by simp only [List.length_append, la, lb] <;> omega) ld.symm
  · rw [show a ++ b ++ d ++ e ++ f ++ g ++ k = (a ++ b ++ d) ++ e ++ (f ++ g ++ k) by simp only [List.append_assoc]]
    exact slice_mid _ _ _ _ _ (by simp only [List.length_append, la, lb, ld] <;> omega) rfl
  · rw [show a ++ b ++ d ++ e ++ f ++ g ++ k = (a ++ b ++ d ++ e) ++ f ++ (g ++ k) by simp only [List.append_assoc]]
    exact slice_mid _ _ _ _ _ (by simp only [List.length_append, la, lb, ld] <;> omega) rfl
  · rw [show a ++ b ++ d ++ e ++ f ++ g ++ k = (a ++ b ++ d ++ e ++ f) ++ g ++ k by simp only [List.append_assoc]]
    exact slice_mid _ _ _ _ _ (by simp only [List.length_append, la, lb, ld] <;> omega) rfl
  · exact List.drop_left' (by simp only [List.length_append, la, lb, ld] <;> omega)
  · rw [show a ++ b ++ d ++ e ++ f ++ g ++ k = (a ++ b ++ d ++ e ++ f) ++ (g ++ k) by simp only [List.append_assoc]]
    exact List.take_left' (by simp only [List.length_append, la, lb, ld] <;> omega)
  · rw [show a ++ b ++ d ++ e ++ f ++ g ++ k = (a ++ b ++ d) ++ (e ++ (f ++ g ++ k)) by simp only [List.append_assoc]]
    exact List.drop_left' (by simp only [List.length_append, la, lb, ld] <;> omega)


theorem shaPresent_iff (cfg : Cfg) : cfg.shaPresent = true ↔ cfg.flags / 0x8000 % 2 = 1 := by
  unfold Cfg.shaPresent
  rw [decide_eq_true_iff]
  exact flags_sha_iff cfg.flags

theorem headerKeysLen_eq : headerKeysLen = 208 := by decide

theorem bsOffset21_eq (cfg : Cfg) :
    cfg.bsOffset21 = 208 + cfg.certBlock.length + (if cfg.flags / 0x8000 % 2 = 1 then 32 else 0) + cfg.signature.length := by
  unfold Cfg.bsOffset21
  rw [headerKeysLen_eq]
  by_cases hs : cfg.flags / 0x8000 % 2 = 1
  · rw [if_pos ((shaPresent_iff cfg).2 hs), if_pos hs]; simp only [Sb2Consts.v21Sha256Size]; omega
  · rw [if_neg (by rw [shaPresent_iff]; exact hs), if_neg hs]; omega

theorem certBlockOk_mod (cb : Bytes) (ok : Spec.certBlockOk cb) : cb.length % 16 = 0 := by
  unfold Spec.certBlockOk Rom.certBlockLen at ok
  split at ok
  · split at ok
    · cases ok
    · split at ok
      · cases ok
      · injection ok with ok
        omega
  · cases ok

theorem certBlockLen_embed (pre cb rest : Bytes) (ok : Spec.certBlockOk cb) (off : Nat) (ho : off = pre.length) :
    Rom.certBlockLen (pre ++ cb ++ rest) off = .ok cb.length := by
  subst ho
  unfold Spec.certBlockOk at ok
  unfold Rom.certBlockLen at ok ⊢
  rw [List.append_assoc, List.drop_left]
  rw [List.drop_zero] at ok
  cases hs : Rom.splitW Spec.certHeaderWidths cb with
  | none => rw [hs] at ok; cases ok
  | some r =>
    rw [splitW_append _ _ _ _ hs]
    rw [hs] at ok
    exact ok

theorem keyBlob_eq (h : CryptoLaws c) (kek dek mac : Bytes) (hd : dek.length = 32) (hm : mac.length = 32) :
    (kwWrap c kek (dek ++ mac)).length = 72 ∧ (keyBlob c kek dek mac).length = 80 ∧
    keyBlob c kek dek mac = kwWrap c kek (dek ++ mac) ++ zeros 8 := by
  have hl : (kwWrap c kek (dek ++ mac)).length = 72 := by
    rw [Crypto.kwWrap_length h _ _ (by simp [hd, hm])]; simp [hd, hm]
  refine ⟨hl, ?_, ?_⟩
  · simp [keyBlob, hl, Sb2Consts.v21KeyBlobSize]
  · simp [keyBlob, hl, Sb2Consts.v21KeyBlobSize]


theorem readKeys_ok (h : CryptoLaws c) (kek dek mac file : Bytes) (hd : Rom.Hdr)
    (hb : hd.keyBlobBlock = 8) (hc : hd.keyBlobBlockCount = 5) (hl : 208 ≤ file.length)
    (hs : Rom.slice file 128 72 = kwWrap c kek (dek ++ mac)) (ld : dek.length = 32) (lm : mac.length = 32) :
    Rom.readKeys c kek file hd = .ok (dek, mac) := by
  unfold Rom.readKeys
  rw [hb, hc, if_neg (by simp only [Spec.wrappedKeysSize]; omega)]
  simp only [Spec.wrappedKeysSize, Nat.reduceMul]
  rw [hs, Crypto.kw_inv h _ _ (by simp [ld, lm]) (by simp [ld, lm])]
  simp only []
  rw [if_neg (by simp [ld, lm]), List.take_left' ld, List.drop_left' ld]

theorem readKeys_wrong (kek kek' dek mac file : Bytes) (hd : Rom.Hdr)
    (hb : hd.keyBlobBlock = 8) (hc : hd.keyBlobBlockCount = 5) (hl : 208 ≤ file.length)
    (hs : Rom.slice file 128 72 = kwWrap c kek (dek ++ mac)) (hk : kek' ≠ kek) :
    Rom.readKeys c kek' file hd = .error .badKeyBlob ∨ Break c := by
  by_cases hsome : (kwUnwrap c kek' (kwWrap c kek (dek ++ mac))).isSome
  · exact Or.inr (Break.wrapForgery kek kek' _ (Ne.symm hk) hsome)
  · left
    unfold Rom.readKeys
    rw [hb, hc, if_neg (by simp only [Spec.wrappedKeysSize]; omega)]
    simp only [Spec.wrappedKeysSize, Nat.reduceMul]
    rw [hs]
    cases hu : kwUnwrap c kek' (kwWrap c kek (dek ++ mac)) with
    | none => rfl
    | some k => rw [hu] at hsome; simp at hsome



/-! ## V2.1 -/

/-- the header the ROM is expected to read from a V2.1 file (spec-side arithmetic) -/
def hd21 (cfg : Cfg) : Rom.Hdr :=
  { nonce := cfg.nonce, major := 2, minor := 1, flags := cfg.flags,
    imageBlocks := Spec.fileLen21 cfg / 16,
    firstBootTagBlock :=
      (208 + cfg.certBlock.length + (if cfg.flags / 0x8000 % 2 = 1 then 32 else 0) + cfg.signature.length) / 16,
    firstBootSectionId := (cfg.sections.head?.map (·.uid)).getD 0,
    offsetToCert := 208, headerBlocks := 6, keyBlobBlock := 8, keyBlobBlockCount := 5,
    maxSectionMacCount := (cfg.sections.map Spec.macCount).sum,
    timestamp := cfg.timestamp, productVersion := cfg.productVersion, componentVersion := cfg.componentVersion,
    buildNumber := cfg.buildNumber }

theorem head_uid_lt (ss : List Section) (wf : ∀ s ∈ ss, Spec.WFsection s) :
    (ss.head?.map (·.uid)).getD 0 < 2 ^ 32 := by
  cases ss with
  | nil => simp
  | cons s rest => simpa using (wf s (by simp)).1

theorem fileLen21_eq (cfg : Cfg) (wsec : ∀ s ∈ cfg.sections, Spec.WFsection s) :
    cfg.bsOffset21 + (cfg.sections.map Section.rawSize).sum = Spec.fileLen21 cfg := by
  rw [bsOffset21_eq, (rawSize_sum_sections cfg.sections wsec).1]
  unfold Spec.fileLen21
  omega

theorem header21_facts (cfg : Cfg) (wf : Spec.WF21 cfg) : HdrOk cfg.header21 ∧ cfg.header21.toRom = hd21 cfg := by
  obtain ⟨wdek, wmac, wnonce, wpad, wts, wpv, wcv, wbn, wfl, wsg, wcert, wsig, wne, wsec, wlen, wmc⟩ := wf
  have e1 := fileLen21_eq cfg wsec
  have e2 := bsOffset21_eq cfg
  have e3 := (rawSize_sum_sections cfg.sections wsec).2
  have e4 : cfg.bsOffset21 / 16 ≤ Spec.fileLen21 cfg / 16 := by
    apply Nat.div_le_div_right; omega
  constructor
  · constructor <;> simp only [Cfg.header21, e1, e3, headerKeysLen_eq, Sb2Consts.imageHeaderFmtSize,
      Sb2Consts.hdrKeyBlobBlock, Sb2Consts.hdrKeyBlobBlockCount] <;> first | assumption | omega | skip
    · exact head_uid_lt _ wsec
  · simp only [ImageHdr.toRom, Cfg.header21, hd21, e1, e3, ← e2, headerKeysLen_eq, Sb2Consts.imageHeaderFmtSize,
      Sb2Consts.hdrKeyBlobBlock, Sb2Consts.hdrKeyBlobBlockCount]


/-- size of the optional SHA-256 field of a V2.1 file -/
def shaLen21 (cfg : Cfg) : Nat := if cfg.flags / 0x8000 % 2 = 1 then 32 else 0

/-- layout facts about a V2.1 file -/
structure V21Facts (c : CryptoOps) (cfg : Cfg) : Prop where
  len : (buildV21 c cfg).length = 208 + cfg.certBlock.length + shaLen21 cfg + cfg.signature.length + Spec.sectionsLen cfg.sections
  bsLen : (cfg.bsData21 c).length = Spec.sectionsLen cfg.sections
  bsMod : Spec.sectionsLen cfg.sections % 16 = 0
  certMod : cfg.certBlock.length % 16 = 0
  take96 : (buildV21 c cfg).take 96 = encodeImageHdr cfg.header21
  hmacAt : Rom.slice (buildV21 c cfg) 96 32 = hmac256 c cfg.mac
    (((cfg.bsData21 c).drop 16).take ((cfg.sections.head?.map Section.effHmacCount).getD 0 * 32 + 32))
  kbAt : Rom.slice (buildV21 c cfg) 128 80 = keyBlob c cfg.kek cfg.dek cfg.mac
  kwAt : Rom.slice (buildV21 c cfg) 128 72 = kwWrap c cfg.kek (cfg.dek ++ cfg.mac)
  certAt : Rom.slice (buildV21 c cfg) 208 cfg.certBlock.length = cfg.certBlock
  shaAt : Rom.slice (buildV21 c cfg) (208 + cfg.certBlock.length) (shaLen21 cfg) =
    (if cfg.shaPresent then c.hash .sha256 (cfg.bsData21 c) else [])
  sigAt : Rom.slice (buildV21 c cfg) (208 + cfg.certBlock.length + shaLen21 cfg) cfg.signature.length = cfg.signature
  bsAt : (buildV21 c cfg).drop (208 + cfg.certBlock.length + shaLen21 cfg + cfg.signature.length) = cfg.bsData21 c
  signedAt : (buildV21 c cfg).take (208 + cfg.certBlock.length + shaLen21 cfg) = cfg.signed21 c
  certLen : Rom.certBlockLen (buildV21 c cfg) 208 = .ok cfg.certBlock.length
  readHdr : Rom.readImageHdr (buildV21 c cfg) = .ok (hd21 cfg)

theorem v21_facts (h : CryptoLaws c) (cfg : Cfg) (wf : Spec.WF21 cfg) : V21Facts c cfg := by
  have ⟨hok, hrom⟩ := header21_facts cfg wf
  obtain ⟨wdek, wmac, wnonce, wpad, wts, wpv, wcv, wbn, wfl, wsg, wcert, wsig, wne, wsec, wlen, wmc⟩ := wf
  have ⟨lbs, lbs16⟩ := buildSections_length h cfg.dek cfg.mac cfg.nonce cfg.sections wsec
    (nonceCtr cfg.nonce + cfg.bsOffset21 / 16)
  have ⟨lkw, lkb, ekb⟩ := keyBlob_eq h cfg.kek cfg.dek cfg.mac wdek wmac
  have lH : (encodeImageHdr cfg.header21).length = 96 := encodeImageHdr_length _ wnonce wpad
  have lsha : (if cfg.shaPresent then c.hash .sha256 (cfg.bsData21 c) else []).length = shaLen21 cfg := by
    unfold shaLen21
    by_cases hs : cfg.flags / 0x8000 % 2 = 1
    · rw [if_pos ((shaPresent_iff cfg).2 hs), if_pos hs, h.hash_len]; rfl
    · rw [if_neg (by rw [shaPresent_iff]; exact hs), if_neg hs]; rfl
  have hfile : buildV21 c cfg = encodeImageHdr cfg.header21 ++
      hmac256 c cfg.mac (((cfg.bsData21 c).drop 16).take ((cfg.sections.head?.map Section.effHmacCount).getD 0 * 32 + 32)) ++
      keyBlob c cfg.kek cfg.dek cfg.mac ++ cfg.certBlock ++
      (if cfg.shaPresent then c.hash .sha256 (cfg.bsData21 c) else []) ++ cfg.signature ++ cfg.bsData21 c := rfl
  obtain ⟨p1, p2, p3, p4, p5, p6, p7, p8, p9, p10⟩ := parts7 _ _ _ cfg.certBlock
    (if cfg.shaPresent then c.hash .sha256 (cfg.bsData21 c) else []) cfg.signature (cfg.bsData21 c)
    lH (hmac256_length h _ _) lkb
  rw [← hfile] at p1 p2 p3 p4 p5 p6 p7 p8 p9 p10
  rw [lsha] at p1 p6 p7 p8 p9
  have hbs : (cfg.bsData21 c).length = Spec.sectionsLen cfg.sections := lbs
  refine ⟨by rw [p1, hbs], hbs, lbs16, certBlockOk_mod _ wcert, p2, p3, p4, ?_, p5, p6, p7, p8, p9, ?_, ?_⟩
  · have : Rom.slice (buildV21 c cfg) 128 72 = (Rom.slice (buildV21 c cfg) 128 80).take 72 := by
      simp [Rom.slice, List.take_take]
    rw [this, p4, ekb, List.take_left' lkw]
  · rw [hfile]
    simp only [List.append_assoc]
    rw [← List.append_assoc, ← List.append_assoc, ← List.append_assoc]
    exact certBlockLen_embed _ _ _ wcert 208 (by simp only [List.length_append, lH, hmac256_length h, lkb])
  · rw [hfile]
    simp only [List.append_assoc]
    rw [readImageHdr_encode _ hok, hrom]


theorem shaLen21_cases (cfg : Cfg) : (cfg.flags / 0x8000 % 2 = 1 ∧ shaLen21 cfg = 32) ∨ (¬ cfg.flags / 0x8000 % 2 = 1 ∧ shaLen21 cfg = 0) := by
  unfold shaLen21
  by_cases hs : cfg.flags / 0x8000 % 2 = 1
  · left; exact ⟨hs, if_pos hs⟩
  · right; exact ⟨hs, if_neg hs⟩

theorem fileLen21_sha (cfg : Cfg) : Spec.fileLen21 cfg =
    208 + cfg.certBlock.length + shaLen21 cfg + cfg.signature.length + Spec.sectionsLen cfg.sections := by
  unfold Spec.fileLen21 shaLen21; rfl

theorem sections_length_le (ss : List Section) (wf : ∀ s ∈ ss, Spec.WFsection s) :
    ss.length * 96 ≤ Spec.sectionsLen ss := by
  induction ss with
  | nil => simp
  | cons s rest ih =>
    have := ih (fun x hx => wf x (by simp [hx]))
    have ⟨_, _, r3⟩ := rawSize_eq_sectionLen s (wf s (by simp))
    unfold Spec.sectionsLen at *
    simp only [List.length_cons, List.map_cons, List.sum_cons]
    omega

-- INTERFACE
theorem romV21_buildV21 (h : CryptoLaws c) (cfg : Cfg) (wf : Spec.WF21 cfg) :
    Rom.romV21 c cfg.kek (buildV21 c cfg) = .ok (Spec.expected21 cfg) := by
  obtain ⟨f1, f2, f3, f4, f5, f6, f7, f8, f9, f10, f11, f12, f13, f14, f15⟩ := v21_facts h cfg wf
  obtain ⟨wdek, wmac, wnonce, wpad, wts, wpv, wcv, wbn, wfl, wsg, wcert, wsig, wne, wsec, wlen, wmc⟩ := wf
  have hstop : Spec.fileLen21 cfg / 16 * 16 = (buildV21 c cfg).length := by
    rw [f1, fileLen21_sha]; have := shaLen21_cases cfg; omega
  have hstart : (208 + cfg.certBlock.length + shaLen21 cfg + cfg.signature.length) / 16 * 16
      = 208 + cfg.certBlock.length + shaLen21 cfg + cfg.signature.length := by
    have := shaLen21_cases cfg; omega
  generalize hfile : buildV21 c cfg = file at *
  generalize hhd : hd21 cfg = hd at f15
  have ⟨g1, g2, g3, g4, g5, g6, g7, g8, g9, g10, g11⟩ : hd.major = 2 ∧ hd.minor = 1 ∧ hd.flags = cfg.flags ∧
      hd.headerBlocks = 6 ∧ hd.offsetToCert = 208 ∧ hd.keyBlobBlock = 8 ∧ hd.keyBlobBlockCount = 5 ∧
      hd.firstBootTagBlock = (208 + cfg.certBlock.length + shaLen21 cfg + cfg.signature.length) / 16 ∧
      hd.imageBlocks = Spec.fileLen21 cfg / 16 ∧ hd.nonce = cfg.nonce ∧
      hd.firstBootSectionId = (cfg.sections.head?.map (·.uid)).getD 0 := by
    subst hhd; exact ⟨rfl, rfl, rfl, rfl, rfl, rfl, rfl, rfl, rfl, rfl, rfl⟩
  unfold Rom.romV21
  rw [f15]
  simp only [g1, g2, g3, g4, g5, g6, g7, g8, g9, g10, g11, Spec.flagSigned, Spec.imageHeaderSize, Spec.flagSha,
    Spec.shaSize, Spec.macSize, flags_sha_iff, ← shaLen21.eq_1, hstart, hstop]
  rw [if_neg (by omega), if_neg ((flags_signed_iff cfg.flags).2 wsg), if_neg (by omega)]
  rw [readKeys_ok h cfg.kek cfg.dek cfg.mac file hd g6 g7 (by omega) f8 wdek wmac]
  simp only []
  rw [f14]
  simp only []
  rw [if_neg (by omega)]
  -- the boot sections
  have hbsO : cfg.bsOffset21 = 208 + cfg.certBlock.length + shaLen21 cfg + cfg.signature.length := bsOffset21_eq cfg
  generalize hst : 208 + cfg.certBlock.length + shaLen21 cfg + cfg.signature.length = start at *
  have hbs : Rom.slice file start (file.length - start) = cfg.bsData21 c := by
    unfold Rom.slice; rw [f12]; exact List.take_of_length_le (by omega)
  have hsha : (decide (cfg.flags / 32768 % 2 = 1) &&
      Rom.slice file (208 + cfg.certBlock.length + shaLen21 cfg - 32) 32 != c.hash .sha256 (cfg.bsData21 c)) = false := by
    rcases shaLen21_cases cfg with ⟨hs, hl⟩ | ⟨hs, hl⟩
    · rw [hl] at f10 ⊢
      rw [if_pos ((shaPresent_iff cfg).2 hs)] at f10
      rw [show 208 + cfg.certBlock.length + 32 - 32 = 208 + cfg.certBlock.length by omega, f10]
      simp
    · simp [hs]
  rw [hbs, hsha]
  simp only [Bool.false_eq_true, if_false]
  have hpre : file = file.take start ++ cfg.bsData21 c ++ [] := by
    rw [List.append_nil, ← f12, List.take_append_drop]
  have lpre : (file.take start).length = start := by rw [List.length_take]; omega
  have hrs := readSections_buildSections h cfg.dek cfg.mac cfg.nonce [] cfg.sections wsec (file.take start)
    (by rw [lpre]; omega) (file.length / 16 + 1) (by have := sections_length_le cfg.sections wsec; omega)
  have hbsd : cfg.bsData21 c = buildSections c cfg.dek cfg.mac cfg.nonce (nonceCtr cfg.nonce + start / 16) cfg.sections := by
    unfold Cfg.bsData21; rw [hbsO]
  rw [lpre, ← hbsd, ← hpre, show start + Spec.sectionsLen cfg.sections = file.length by omega] at hrs
  rw [hrs]
  obtain ⟨s, rest, hss⟩ : ∃ s rest, cfg.sections = s :: rest := by
    cases hc : cfg.sections with
    | nil => exact absurd hc wne
    | cons s rest => exact ⟨s, rest, rfl⟩
  have ⟨em, _, _⟩ := effHmacCount_eq s (wsec s (by rw [hss]; simp))
  have hmac0 : Rom.slice file 96 32 =
      hmac c .sha256 cfg.mac (Rom.slice file (start + 16) (32 * ((Spec.expectedSection s).hmacCount + 1))) := by
    rw [f6, hss]
    simp only [List.head?_cons, Option.map_some, Option.getD_some, hmac256, Spec.expectedSection, Rom.slice]
    rw [← f12, List.drop_drop, em, show 32 * (Spec.macCount s + 1) = Spec.macCount s * 32 + 32 by omega]
  have hsig : Rom.slice file (208 + cfg.certBlock.length + shaLen21 cfg) (start - (208 + cfg.certBlock.length + shaLen21 cfg))
      = cfg.signature := by
    rw [show start - (208 + cfg.certBlock.length + shaLen21 cfg) = cfg.signature.length by omega, f11]
  have huid : (Spec.expectedSection s).uid = ((cfg.sections.head?).map (·.uid)).getD 0 := by
    rw [hss]; rfl
  simp only [hss, List.map_cons]
  rw [if_neg (by rw [hmac0]; simp), if_neg (by rw [huid, hss]; simp), hsig, f9]
  subst hst hhd
  simp only [Rom.mkContent, Spec.expected21, shaLen21, hd21, hss, List.map_cons]


-- INTERFACE
theorem buildV21_length (h : CryptoLaws c) (cfg : Cfg) (wf : Spec.WF21 cfg) :
    (buildV21 c cfg).length = Spec.fileLen21 cfg := by
  rw [(v21_facts h cfg wf).len, fileLen21_sha]

theorem start21_aligned (cfg : Cfg) (wf : Spec.WF21 cfg) :
    (208 + cfg.certBlock.length + shaLen21 cfg + cfg.signature.length) / 16 * 16
      = 208 + cfg.certBlock.length + shaLen21 cfg + cfg.signature.length := by
  obtain ⟨wdek, wmac, wnonce, wpad, wts, wpv, wcv, wbn, wfl, wsg, wcert, wsig, wne, wsec, wlen, wmc⟩ := wf
  have := shaLen21_cases cfg
  have := certBlockOk_mod _ wcert
  omega

-- INTERFACE
theorem header_describes_file_v21 (h : CryptoLaws c) (cfg : Cfg) (wf : Spec.WF21 cfg) :
    (buildV21 c cfg).length = (Spec.expected21 cfg).imageBlocks * 16 ∧
    (buildV21 c cfg).drop ((Spec.expected21 cfg).firstBootTagBlock * 16) = cfg.bsData21 c ∧
    (cfg.bsData21 c).length = Spec.sectionsLen cfg.sections ∧
    Rom.slice (buildV21 c cfg) (Spec.expected21 cfg).offsetToCert cfg.certBlock.length = cfg.certBlock ∧
    Rom.slice (buildV21 c cfg) ((Spec.expected21 cfg).keyBlobBlock * 16) ((Spec.expected21 cfg).keyBlobBlockCount * 16)
      = keyBlob c cfg.kek cfg.dek cfg.mac ∧
    (buildV21 c cfg).take ((Spec.expected21 cfg).headerBlocks * 16) = encodeImageHdr cfg.header21 := by
  obtain ⟨f1, f2, f3, f4, f5, f6, f7, f8, f9, f10, f11, f12, f13, f14, f15⟩ := v21_facts h cfg wf
  have hstart := start21_aligned cfg wf
  have e : (Spec.expected21 cfg).firstBootTagBlock * 16 =
      208 + cfg.certBlock.length + shaLen21 cfg + cfg.signature.length := hstart
  refine ⟨?_, ?_, f2, f9, f7, f5⟩
  · show _ = Spec.fileLen21 cfg / 16 * 16
    rw [f1, fileLen21_sha]
    omega
  · rw [e, f12]

-- INTERFACE
theorem signed_range_v21 (h : CryptoLaws c) (cfg : Cfg) (wf : Spec.WF21 cfg) :
    (buildV21 c cfg).take (Spec.expected21 cfg).signedLen = cfg.signed21 c ∧
    Rom.slice (buildV21 c cfg) (Spec.expected21 cfg).signedLen cfg.signature.length = cfg.signature ∧
    (Spec.expected21 cfg).signedLen + cfg.signature.length = (Spec.expected21 cfg).firstBootTagBlock * 16 := by
  obtain ⟨f1, f2, f3, f4, f5, f6, f7, f8, f9, f10, f11, f12, f13, f14, f15⟩ := v21_facts h cfg wf
  have hstart := start21_aligned cfg wf
  exact ⟨f13, f11, hstart.symm⟩

-- INTERFACE
theorem wrong_kek_v21 (h : CryptoLaws c) (cfg : Cfg) (wf : Spec.WF21 cfg) (kek' : Bytes) (hk : kek' ≠ cfg.kek) :
    Rom.romV21 c kek' (buildV21 c cfg) = .error .badKeyBlob ∨ Break c := by
  obtain ⟨f1, f2, f3, f4, f5, f6, f7, f8, f9, f10, f11, f12, f13, f14, f15⟩ := v21_facts h cfg wf
  obtain ⟨wdek, wmac, wnonce, wpad, wts, wpv, wcv, wbn, wfl, wsg, wcert, wsig, wne, wsec, wlen, wmc⟩ := wf
  generalize hfile : buildV21 c cfg = file at *
  generalize hhd : hd21 cfg = hd at f15
  have ⟨g1, g2, g3, g4, g6, g7⟩ : hd.major = 2 ∧ hd.minor = 1 ∧ hd.flags = cfg.flags ∧
      hd.headerBlocks = 6 ∧ hd.keyBlobBlock = 8 ∧ hd.keyBlobBlockCount = 5 := by
    subst hhd; exact ⟨rfl, rfl, rfl, rfl, rfl, rfl⟩
  rcases readKeys_wrong cfg.kek kek' cfg.dek cfg.mac file hd g6 g7 (by omega) f8 hk with hr | hb
  · left
    unfold Rom.romV21
    rw [f15]
    simp only [g1, g2, g3, g4, Spec.flagSigned, Spec.imageHeaderSize]
    rw [if_neg (by omega), if_neg ((flags_signed_iff cfg.flags).2 wsg), if_neg (by omega), hr]
  · exact Or.inr hb

/-! ## V2.0 -/

/-- a V2.0 file with the certificate section `cs` and the trailing signature `sg` left abstract -/
def file20 (c : CryptoOps) (cfg : Cfg) (hdr : ImageHdr) (cs sg : Bytes) : Bytes :=
  let h := encodeImageHdr hdr
  let pre := h ++ hmac256 c cfg.mac h ++ kwWrap c cfg.kek (cfg.dek ++ cfg.mac) ++ cfg.padding
  pre ++ cs ++ buildSections c cfg.dek cfg.mac cfg.nonce (nonceCtr cfg.nonce + pre.length / 16 + cs.length / 16) cfg.sections ++ sg

/-- the 208 bytes in front of the certificate section / boot sections of a V2.0 file -/
def pre20 (c : CryptoOps) (cfg : Cfg) (hdr : ImageHdr) : Bytes :=
  encodeImageHdr hdr ++ hmac256 c cfg.mac (encodeImageHdr hdr) ++ kwWrap c cfg.kek (cfg.dek ++ cfg.mac) ++ cfg.padding

structure V20Facts (c : CryptoOps) (cfg : Cfg) (hdr : ImageHdr) (cs sg : Bytes) : Prop where
  preLen : (pre20 c cfg hdr).length = 208
  shape : ∃ rest, file20 c cfg hdr cs sg = pre20 c cfg hdr ++ cs ++ rest
  len : (file20 c cfg hdr cs sg).length = 208 + cs.length + Spec.sectionsLen cfg.sections + sg.length
  secMod : Spec.sectionsLen cfg.sections % 16 = 0
  take96 : (file20 c cfg hdr cs sg).take 96 = encodeImageHdr hdr
  hmacAt : Rom.slice (file20 c cfg hdr cs sg) 96 32 = hmac256 c cfg.mac (encodeImageHdr hdr)
  kwAt : Rom.slice (file20 c cfg hdr cs sg) 128 72 = kwWrap c cfg.kek (cfg.dek ++ cfg.mac)
  readHdr : Rom.readImageHdr (file20 c cfg hdr cs sg) = .ok hdr.toRom
  dropStop : (file20 c cfg hdr cs sg).drop (208 + cs.length + Spec.sectionsLen cfg.sections) = sg
  sections : Rom.readSections c cfg.dek cfg.mac cfg.nonce (file20 c cfg hdr cs sg)
      (208 + cs.length + Spec.sectionsLen cfg.sections) ((file20 c cfg hdr cs sg).length / 16 + 1) (208 + cs.length)
    = .ok (cfg.sections.map Spec.expectedSection)

theorem v20_facts (h : CryptoLaws c) (cfg : Cfg) (hdr : ImageHdr) (cs sg : Bytes) (hok : HdrOk hdr)
    (wdek : cfg.dek.length = 32) (wmac : cfg.mac.length = 32) (wpad : cfg.padding.length = 8)
    (wsec : ∀ s ∈ cfg.sections, Spec.WFsection s) (hcs : cs.length % 16 = 0) : V20Facts c cfg hdr cs sg := by
  have lH : (encodeImageHdr hdr).length = 96 := encodeImageHdr_length _ hok.nonce hok.padding
  have ⟨lkw, _, _⟩ := keyBlob_eq h cfg.kek cfg.dek cfg.mac wdek wmac
  have lpre : (pre20 c cfg hdr).length = 208 := by
    simp only [pre20, List.length_append, lH, hmac256_length h, lkw, wpad]
  have hfile : file20 c cfg hdr cs sg = pre20 c cfg hdr ++ cs ++
      buildSections c cfg.dek cfg.mac cfg.nonce (nonceCtr cfg.nonce + (pre20 c cfg hdr ++ cs).length / 16) cfg.sections ++ sg := by
    have : (pre20 c cfg hdr ++ cs).length / 16 = (pre20 c cfg hdr).length / 16 + cs.length / 16 := by
      rw [List.length_append, lpre]; omega
    rw [this, ← Nat.add_assoc]; rfl
  generalize hbs : buildSections c cfg.dek cfg.mac cfg.nonce (nonceCtr cfg.nonce + (pre20 c cfg hdr ++ cs).length / 16) cfg.sections = bs at hfile
  have ⟨lbs, lbs16⟩ : bs.length = Spec.sectionsLen cfg.sections ∧ Spec.sectionsLen cfg.sections % 16 = 0 := by
    subst hbs; exact buildSections_length h _ _ _ _ wsec _
  have hfile2 : file20 c cfg hdr cs sg = encodeImageHdr hdr ++ hmac256 c cfg.mac (encodeImageHdr hdr) ++
      (kwWrap c cfg.kek (cfg.dek ++ cfg.mac) ++ cfg.padding) ++ cs ++ bs ++ sg ++ [] := by
    rw [hfile]; simp only [pre20, List.append_assoc, List.append_nil]
  obtain ⟨p1, p2, p3, p4, p5, p6, p7, p8, p9, p10⟩ := parts7 (encodeImageHdr hdr) (hmac256 c cfg.mac (encodeImageHdr hdr))
    (kwWrap c cfg.kek (cfg.dek ++ cfg.mac) ++ cfg.padding) cs bs sg [] lH (hmac256_length h _ _)
    (by simp only [List.length_append, lkw, wpad])
  rw [← hfile2] at p1 p2 p3 p4 p5 p6 p7 p8 p9 p10
  have hlen : (file20 c cfg hdr cs sg).length = 208 + cs.length + Spec.sectionsLen cfg.sections + sg.length := by
    rw [p1, lbs]; simp
  refine ⟨lpre, ⟨bs ++ sg, by rw [hfile]; simp only [List.append_assoc]⟩, hlen, lbs16, p2, p3, ?_, ?_, ?_, ?_⟩
  · have : Rom.slice (file20 c cfg hdr cs sg) 128 72 = (Rom.slice (file20 c cfg hdr cs sg) 128 80).take 72 := by
      simp [Rom.slice, List.take_take]
    rw [this, p4, List.take_left' lkw]
  · rw [hfile2]
    simp only [List.append_assoc]
    exact readImageHdr_encode _ hok _
  · rw [hfile, ← lbs]
    exact List.drop_left' (by simp only [List.length_append, lpre])
  · have hrs := readSections_buildSections h cfg.dek cfg.mac cfg.nonce sg cfg.sections wsec (pre20 c cfg hdr ++ cs)
      (by rw [List.length_append, lpre]; omega) ((file20 c cfg hdr cs sg).length / 16 + 1)
      (by have := sections_length_le cfg.sections wsec; omega)
    rw [hbs, ← hfile, List.length_append, lpre] at hrs
    exact hrs


/-- the header the ROM is expected to read from a V2.0 file (spec-side arithmetic) -/
def hd20 (cfg : Cfg) (signed : Bool) : Rom.Hdr :=
  { nonce := cfg.nonce, major := 2, minor := 0, flags := if signed then 8 else 4,
    imageBlocks := Spec.bodyLen20 cfg signed / 16,
    firstBootTagBlock := (208 + (if signed then 80 + cfg.certBlock.length else 0)) / 16,
    firstBootSectionId := (cfg.sections.head?.map (·.uid)).getD 0,
    offsetToCert := if signed then 288 else 0, headerBlocks := 6, keyBlobBlock := 8, keyBlobBlockCount := 5,
    maxSectionMacCount := (if signed then 1 else 0) + (cfg.sections.map Spec.macCount).sum,
    timestamp := cfg.timestamp, productVersion := cfg.productVersion, componentVersion := cfg.componentVersion,
    buildNumber := cfg.buildNumber }

theorem header20_facts (cfg : Cfg) (signed : Bool) (wf : Spec.WF20 cfg signed) :
    HdrOk (cfg.header20 signed) ∧ (cfg.header20 signed).toRom = hd20 cfg signed := by
  obtain ⟨wdek, wmac, wnonce, wpad, wts, wpv, wcv, wbn, wsg, wne, wsec, wlen, wmc⟩ := wf
  have ⟨e2, e3⟩ := rawSize_sum_sections cfg.sections wsec
  have huid := head_uid_lt _ wsec
  cases signed
  · have e1 : Spec.bodyLen20 cfg false = 208 + Spec.sectionsLen cfg.sections := by simp [Spec.bodyLen20]
    rw [e1] at wlen
    constructor
    · constructor <;> simp only [Cfg.header20, Cfg.certSectLen20, e2, e3, headerKeysLen_eq, Sb2Consts.imageHeaderFmtSize,
        Sb2Consts.hdrKeyBlobBlock, Sb2Consts.hdrKeyBlobBlockCount, Sb2Consts.v20FlagsUnsigned, Bool.false_eq_true, if_false] <;>
        first | assumption | omega
    · simp only [ImageHdr.toRom, Cfg.header20, Cfg.certSectLen20, hd20, e1, e2, e3, headerKeysLen_eq, Sb2Consts.imageHeaderFmtSize,
        Sb2Consts.hdrKeyBlobBlock, Sb2Consts.hdrKeyBlobBlockCount, Sb2Consts.v20FlagsUnsigned, Bool.false_eq_true, if_false,
        Nat.add_zero]
  · have e1 : Spec.bodyLen20 cfg true = 208 + (80 + cfg.certBlock.length) + Spec.sectionsLen cfg.sections := by
      simp [Spec.bodyLen20]
    rw [e1] at wlen
    constructor
    · constructor <;> simp only [Cfg.header20, Cfg.certSectLen20, e2, e3, headerKeysLen_eq, Sb2Consts.imageHeaderFmtSize,
        Sb2Consts.hdrKeyBlobBlock, Sb2Consts.hdrKeyBlobBlockCount, Sb2Consts.v20FlagsSigned, Sb2Consts.certSectionHmacSize,
        if_true] <;> first | assumption | omega
    · simp only [ImageHdr.toRom, Cfg.header20, Cfg.certSectLen20, hd20, e1, e2, e3, headerKeysLen_eq, Sb2Consts.imageHeaderFmtSize,
        Sb2Consts.hdrKeyBlobBlock, Sb2Consts.hdrKeyBlobBlockCount, Sb2Consts.v20FlagsSigned, Sb2Consts.certSectionHmacSize,
        if_true]


theorem buildV20_unsigned (cfg : Cfg) :
    buildV20 c cfg false = file20 c cfg (cfg.header20 false) [] [] := rfl

theorem buildV20_signed (cfg : Cfg) :
    buildV20 c cfg true = file20 c cfg (cfg.header20 true)
      (buildCertSection c cfg.dek cfg.mac cfg.nonce (nonceCtr cfg.nonce + (pre20 c cfg (cfg.header20 true)).length / 16)
        cfg.certBlock) cfg.signature := rfl

theorem body20_file20 (cfg : Cfg) (signed : Bool) :
    cfg.body20 c signed ++ [] = file20 c cfg (cfg.header20 signed)
      (if signed then buildCertSection c cfg.dek cfg.mac cfg.nonce
        (nonceCtr cfg.nonce + (pre20 c cfg (cfg.header20 signed)).length / 16) cfg.certBlock else []) [] := rfl

theorem buildCertSection_length (h : CryptoLaws c) (dek mac nonce cert : Bytes) (ctr : Nat) :
    (buildCertSection c dek mac nonce ctr cert).length = 80 + cert.length := by
  simp only [buildCertSection, List.length_append, Crypto.xorBytes_length, encodeHdr_length, ksBlock_length h,
    hmac256_length h]
  omega

/-- the certificate section of a signed V2.0 file as the ROM reads it -/
theorem certSection_facts (h : CryptoLaws c) (dek mac nonce P cert rest cs file : Bytes) (lP : P.length = 208)
    (wcert : Spec.certBlockOk cert) (hlen : cert.length / 16 < 2 ^ 32)
    (hcs : cs = buildCertSection c dek mac nonce (nonceCtr nonce + P.length / 16) cert)
    (hfile : file = P ++ cs ++ rest) :
    Rom.slice file 224 32 = hmac c .sha256 mac (Rom.slice file 208 16) ∧
    Rom.readHdr (xorBytes (Rom.slice file 208 16) (Rom.ksAt c dek nonce 208))
      = .ok ⟨1, 0x8002, Spec.certSectionMark, cert.length / 16, 1⟩ ∧
    Rom.certBlockLen file 288 = .ok cert.length ∧
    Rom.slice file 288 cert.length = cert ∧
    Rom.slice file 256 32 = hmac c .sha256 mac cert := by
  generalize hhdr : (⟨Sb2Consts.tagTag, certSectionFlags, Sb2Consts.certSectionMark, cert.length / 16, 1⟩ : CmdHdr) = hdr
  have hr : hdr.inRange = true := by
    subst hhdr
    simp [CmdHdr.inRange, Sb2Consts.tagTag, certSectionFlags, Sb2Consts.sectFlagCleartext, Sb2Consts.sectFlagLastSect,
      Sb2Consts.certSectionMark]
    omega
  generalize heh : xorBytes (encodeHdr hdr) (ksBlock c dek nonce (nonceCtr nonce + P.length / 16)) = eh
  have leh : eh.length = 16 := by subst heh; simp [encodeHdr_length, ksBlock_length h]
  have hcs' : cs = eh ++ hmac256 c mac eh ++ hmac256 c mac cert ++ cert := by
    rw [hcs]; unfold buildCertSection; simp only [hhdr, heh]
  have lm1 := hmac256_length h mac eh
  have lm2 := hmac256_length h mac cert
  have F1 : Rom.slice file 208 16 = eh := by
    have : file = P ++ eh ++ (hmac256 c mac eh ++ hmac256 c mac cert ++ cert ++ rest) := by
      rw [hfile, hcs']; simp only [List.append_assoc]
    rw [this]; exact slice_mid _ _ _ _ _ lP.symm leh.symm
  have F2 : Rom.slice file 224 32 = hmac256 c mac eh := by
    have : file = (P ++ eh) ++ hmac256 c mac eh ++ (hmac256 c mac cert ++ cert ++ rest) := by
      rw [hfile, hcs']; simp only [List.append_assoc]
    rw [this]; exact slice_mid _ _ _ _ _ (by simp only [List.length_append, lP, leh]) lm1.symm
  have F3 : Rom.slice file 256 32 = hmac256 c mac cert := by
    have : file = (P ++ eh ++ hmac256 c mac eh) ++ hmac256 c mac cert ++ (cert ++ rest) := by
      rw [hfile, hcs']; simp only [List.append_assoc]
    rw [this]; exact slice_mid _ _ _ _ _ (by simp only [List.length_append, lP, leh, lm1]) lm2.symm
  have hfile4 : file = (P ++ eh ++ hmac256 c mac eh ++ hmac256 c mac cert) ++ cert ++ rest := by
    rw [hfile, hcs']; simp only [List.append_assoc]
  have l4 : 288 = (P ++ eh ++ hmac256 c mac eh ++ hmac256 c mac cert).length := by
    simp only [List.length_append, lP, leh, lm1, lm2]
  have F4 : Rom.slice file 288 cert.length = cert := by
    rw [hfile4]; exact slice_mid _ _ _ _ _ l4 rfl
  have F5 : Rom.certBlockLen file 288 = .ok cert.length := by
    rw [hfile4]; exact certBlockLen_embed _ _ _ wcert 288 l4
  have F6 : xorBytes eh (Rom.ksAt c dek nonce 208) = encodeHdr hdr := by
    rw [ksAt_eq_ksBlock, ← heh, lP]
    exact Crypto.xorBytes_cancel _ _ (by simp [encodeHdr_length, ksBlock_length h])
  have F7 : Rom.readHdr (encodeHdr hdr) = .ok ⟨1, 0x8002, Spec.certSectionMark, cert.length / 16, 1⟩ := by
    have := readHdr_encodeHdr hdr hr []
    rw [List.append_nil] at this
    rw [this, ← hhdr]
    rfl
  refine ⟨?_, ?_, F5, F4, ?_⟩
  · rw [F2, F1]; rfl
  · rw [F1, F6, F7]
  · rw [F3]; rfl

-- INTERFACE
theorem body20_length (h : CryptoLaws c) (cfg : Cfg) (signed : Bool) (wf : Spec.WF20 cfg signed) :
    (cfg.body20 c signed).length = Spec.bodyLen20 cfg signed := by
  have ⟨hok, hrom⟩ := header20_facts cfg signed wf
  obtain ⟨wdek, wmac, wnonce, wpad, wts, wpv, wcv, wbn, wsg, wne, wsec, wlen, wmc⟩ := wf
  have e : (cfg.body20 c signed).length = (cfg.body20 c signed ++ []).length := by rw [List.append_nil]
  rw [e, body20_file20]
  cases signed
  · simp only [Bool.false_eq_true, if_false]
    rw [(v20_facts h cfg _ [] [] hok wdek wmac wpad wsec (by simp)).len]
    simp [Spec.bodyLen20]
  · have ⟨wcert, _⟩ := wsg rfl
    have := certBlockOk_mod _ wcert
    simp only [if_true]
    rw [(v20_facts h cfg _ _ [] hok wdek wmac wpad wsec (by rw [buildCertSection_length h]; omega)).len,
      buildCertSection_length h]
    simp [Spec.bodyLen20]


theorem romV20_unsigned (h : CryptoLaws c) (cfg : Cfg) (wf : Spec.WF20 cfg false) :
    Rom.romV20 c cfg.kek (buildV20 c cfg false) = .ok (Spec.expected20 cfg false) := by
  have ⟨hok, hrom⟩ := header20_facts cfg false wf
  obtain ⟨wdek, wmac, wnonce, wpad, wts, wpv, wcv, wbn, wsg, wne, wsec, wlen, wmc⟩ := wf
  obtain ⟨lpre, -, flen, smod, ftake, fhmac, fkw, fread, fdrop, fsec⟩ :=
    v20_facts h cfg (cfg.header20 false) [] [] hok wdek wmac wpad wsec (by simp)
  rw [buildV20_unsigned]
  generalize hfile : file20 c cfg (cfg.header20 false) [] [] = file at *
  rw [hrom] at fread
  simp only [List.length_nil, Nat.add_zero] at flen fdrop fsec
  generalize hhd : hd20 cfg false = hd at fread
  have ⟨g1, g2, g3, g4, g6, g7, g8, g9, g10, g11⟩ : hd.major = 2 ∧ hd.minor = 0 ∧ hd.flags = 4 ∧
      hd.headerBlocks = 6 ∧ hd.keyBlobBlock = 8 ∧ hd.keyBlobBlockCount = 5 ∧
      hd.firstBootTagBlock = (208 + 0) / 16 ∧
      hd.imageBlocks = Spec.bodyLen20 cfg false / 16 ∧ hd.nonce = cfg.nonce ∧
      hd.firstBootSectionId = (cfg.sections.head?.map (·.uid)).getD 0 := by
    subst hhd; exact ⟨rfl, rfl, rfl, rfl, rfl, rfl, rfl, rfl, rfl, rfl⟩
  have hbl : Spec.bodyLen20 cfg false = 208 + Spec.sectionsLen cfg.sections := by simp [Spec.bodyLen20]
  have hstop : Spec.bodyLen20 cfg false / 16 * 16 = 208 + Spec.sectionsLen cfg.sections := by omega
  have hm : Rom.slice file 96 32 = hmac c .sha256 cfg.mac (file.take 96) := by rw [fhmac, ftake]; rfl
  unfold Rom.romV20
  rw [fread]
  simp only [g1, g2, g3, g4, g6, g7, g8, g9, g10, g11, Spec.imageHeaderSize, Spec.macSize, Spec.flagUnsignedV20, hstop,
    Nat.reduceMul, Nat.reduceAdd]
  rw [if_neg (by omega), if_neg (by omega), readKeys_ok h cfg.kek cfg.dek cfg.mac file hd g6 g7 (by omega) fkw wdek wmac]
  simp only []
  rw [if_neg (fun hne => hne hm), if_neg (by omega), if_pos trivial, if_neg (by omega), fsec]
  obtain ⟨s, rest, hss⟩ : ∃ s rest, cfg.sections = s :: rest := by
    cases hc : cfg.sections with
    | nil => exact absurd hc wne
    | cons s rest => exact ⟨s, rest, rfl⟩
  have huid : (Spec.expectedSection s).uid = ((cfg.sections.head?).map (·.uid)).getD 0 := by
    rw [hss]; rfl
  simp only [hss, List.map_cons]
  rw [if_neg (by rw [huid, hss]; simp), ← hss, fdrop]
  subst hhd
  simp only [Rom.mkContent, Spec.expected20, hd20, hss, List.map_cons, hbl, Bool.false_eq_true, if_false, Nat.add_zero]


theorem romV20_signed (h : CryptoLaws c) (cfg : Cfg) (wf : Spec.WF20 cfg true) :
    Rom.romV20 c cfg.kek (buildV20 c cfg true) = .ok (Spec.expected20 cfg true) := by
  have ⟨hok, hrom⟩ := header20_facts cfg true wf
  obtain ⟨wdek, wmac, wnonce, wpad, wts, wpv, wcv, wbn, wsg, wne, wsec, wlen, wmc⟩ := wf
  obtain ⟨wcert, wsig⟩ := wsg rfl
  have cmod := certBlockOk_mod _ wcert
  have hbl : Spec.bodyLen20 cfg true = 288 + cfg.certBlock.length + Spec.sectionsLen cfg.sections := by
    simp [Spec.bodyLen20]; omega
  rw [buildV20_signed]
  generalize hcs : buildCertSection c cfg.dek cfg.mac cfg.nonce
    (nonceCtr cfg.nonce + (pre20 c cfg (cfg.header20 true)).length / 16) cfg.certBlock = cs
  have lcs : cs.length = 80 + cfg.certBlock.length := by subst hcs; exact buildCertSection_length h _ _ _ _ _
  obtain ⟨lpre, ⟨rest, hshape⟩, flen, smod, ftake, fhmac, fkw, fread, fdrop, fsec⟩ :=
    v20_facts h cfg (cfg.header20 true) cs cfg.signature hok wdek wmac wpad wsec (by omega)
  obtain ⟨c1, c2, c3, c4, c5⟩ := certSection_facts h cfg.dek cfg.mac cfg.nonce _ cfg.certBlock rest cs _ lpre wcert
    (by omega) hcs.symm hshape
  generalize hfile : file20 c cfg (cfg.header20 true) cs cfg.signature = file at *
  rw [hrom] at fread
  rw [lcs] at flen fdrop fsec
  rw [show 208 + (80 + cfg.certBlock.length) = 288 + cfg.certBlock.length by omega] at flen fdrop fsec
  have lsig : 0 < cfg.signature.length := List.length_pos_iff.2 wsig
  generalize hhd : hd20 cfg true = hd at fread
  have ⟨g1, g2, g3, g4, g5, g6, g7, g8, g9, g10, g11⟩ : hd.major = 2 ∧ hd.minor = 0 ∧ hd.flags = 8 ∧
      hd.headerBlocks = 6 ∧ hd.offsetToCert = 288 ∧ hd.keyBlobBlock = 8 ∧ hd.keyBlobBlockCount = 5 ∧
      hd.firstBootTagBlock = (208 + (80 + cfg.certBlock.length)) / 16 ∧
      hd.imageBlocks = Spec.bodyLen20 cfg true / 16 ∧ hd.nonce = cfg.nonce ∧
      hd.firstBootSectionId = (cfg.sections.head?.map (·.uid)).getD 0 := by
    subst hhd; exact ⟨rfl, rfl, rfl, rfl, rfl, rfl, rfl, rfl, rfl, rfl, rfl⟩
  have hstop : Spec.bodyLen20 cfg true / 16 * 16 = 288 + cfg.certBlock.length + Spec.sectionsLen cfg.sections := by omega
  have hstart : (208 + (80 + cfg.certBlock.length)) / 16 * 16 = 288 + cfg.certBlock.length := by omega
  have hm : Rom.slice file 96 32 = hmac c .sha256 cfg.mac (file.take 96) := by rw [fhmac, ftake]; rfl
  generalize hsh : (⟨1, 0x8002, Spec.certSectionMark, cfg.certBlock.length / 16, 1⟩ : Rom.RawHdr) = sh at c2
  have ⟨s1, s2, s3, s4⟩ : sh.tag = 1 ∧ sh.flags = 0x8002 ∧ sh.address = Spec.certSectionMark ∧
      sh.count = cfg.certBlock.length / 16 := by
    subst hsh; exact ⟨rfl, rfl, rfl, rfl⟩
  unfold Rom.romV20
  rw [fread]
  simp only [g1, g2, g3, g4, g5, g6, g7, g8, g9, g10, g11, Spec.imageHeaderSize, Spec.macSize, Spec.flagUnsignedV20,
    Spec.flagSigned, hstop, hstart, Nat.reduceMul, Nat.reduceAdd]
  rw [if_neg (by omega), if_neg (by omega), readKeys_ok h cfg.kek cfg.dek cfg.mac file hd g6 g7 (by omega) fkw wdek wmac]
  simp only []
  rw [if_neg (fun hne => hne hm), if_neg (by omega), if_neg (by omega), if_pos trivial, if_neg (by omega),
    if_neg (fun hne => hne c1), c2]
  simp only [s1, s2, s3, s4, Spec.tagTag, Spec.sectCleartext, Spec.sectLast]
  rw [if_neg (by simp), if_neg (by simp), c3]
  simp only []
  rw [if_neg (by omega), if_neg (by omega), c4, if_neg (fun hne => hne c5), if_neg (by omega), fsec]
  obtain ⟨s, rest', hss⟩ : ∃ s rest, cfg.sections = s :: rest := by
    cases hc : cfg.sections with
    | nil => exact absurd hc wne
    | cons s rest => exact ⟨s, rest, rfl⟩
  have huid : (Spec.expectedSection s).uid = ((cfg.sections.head?).map (·.uid)).getD 0 := by
    rw [hss]; rfl
  simp only [hss, List.map_cons]
  rw [if_neg (by rw [huid, hss]; simp), ← hss, fdrop]
  subst hhd
  simp only [Rom.mkContent, Spec.expected20, hd20, hss, List.map_cons, hbl, if_true]


theorem wrong_kek_file20 (cfg : Cfg) (hdr : ImageHdr) (cs sg : Bytes) (F : V20Facts c cfg hdr cs sg)
    (hmaj : hdr.major = 2) (hmin : hdr.minor = 0) (hhb : hdr.headerBlocks = 6) (hkb : hdr.keyBlobBlock = 8)
    (hkc : hdr.keyBlobBlockCount = 5) (kek' : Bytes) (hk : kek' ≠ cfg.kek) :
    Rom.romV20 c kek' (file20 c cfg hdr cs sg) = .error .badKeyBlob ∨ Break c := by
  obtain ⟨lpre, -, flen, smod, ftake, fhmac, fkw, fread, fdrop, fsec⟩ := F
  generalize hfile : file20 c cfg hdr cs sg = file at *
  generalize hhd : hdr.toRom = hd at fread
  have ⟨g1, g2, g4, g6, g7⟩ : hd.major = 2 ∧ hd.minor = 0 ∧ hd.headerBlocks = 6 ∧ hd.keyBlobBlock = 8 ∧
      hd.keyBlobBlockCount = 5 := by
    subst hhd; exact ⟨hmaj, hmin, hhb, hkb, hkc⟩
  rcases readKeys_wrong cfg.kek kek' cfg.dek cfg.mac file hd g6 g7 (by omega) fkw hk with hr | hb
  · left
    unfold Rom.romV20
    rw [fread]
    simp only [g1, g2, g4, Spec.imageHeaderSize]
    rw [if_neg (by omega), if_neg (by omega), hr]
  · exact Or.inr hb

-- INTERFACE
theorem romV20_buildV20 (h : CryptoLaws c) (cfg : Cfg) (signed : Bool) (wf : Spec.WF20 cfg signed) :
    Rom.romV20 c cfg.kek (buildV20 c cfg signed) = .ok (Spec.expected20 cfg signed) := by
  cases signed
  · exact romV20_unsigned h cfg wf
  · exact romV20_signed h cfg wf

-- INTERFACE
theorem wrong_kek_v20 (h : CryptoLaws c) (cfg : Cfg) (signed : Bool) (wf : Spec.WF20 cfg signed) (kek' : Bytes)
    (hk : kek' ≠ cfg.kek) :
    Rom.romV20 c kek' (buildV20 c cfg signed) = .error .badKeyBlob ∨ Break c := by
  have ⟨hok, hrom⟩ := header20_facts cfg signed wf
  obtain ⟨wdek, wmac, wnonce, wpad, wts, wpv, wcv, wbn, wsg, wne, wsec, wlen, wmc⟩ := wf
  cases signed
  · rw [buildV20_unsigned]
    exact wrong_kek_file20 cfg _ _ _ (v20_facts h cfg _ [] [] hok wdek wmac wpad wsec (by simp)) rfl rfl rfl rfl rfl kek' hk
  · have ⟨wcert, _⟩ := wsg rfl
    have := certBlockOk_mod _ wcert
    rw [buildV20_signed]
    exact wrong_kek_file20 cfg _ _ _ (v20_facts h cfg _ _ _ hok wdek wmac wpad wsec
      (by rw [buildCertSection_length h]; omega)) rfl rfl rfl rfl rfl kek' hk

end SpsdkVerif.Sb2
